/* prelude.h -- verification prelude, included FIRST by every harness.
 *
 * Nothing in here is a model of XCM code.  It provides
 *   - the errno remap (errno is a plain global so that contracts can name it),
 *   - abort()/__assert_fail() bodies that turn ut_assert/assert into obligations,
 *   - never-failing allocator wrappers (XCM aborts on OOM by design),
 *   - logging switched off (log_is_enabled() == false),
 *   - ghost state shared by contracts (byte-stream prophecy index, blocked flag).
 * Every item is listed under `assumptions` in the evidence files.
 */
#ifndef XV_PRELUDE_H
#define XV_PRELUDE_H

#include <errno.h>
#include <stdbool.h>
#include <stddef.h>
#include <stdint.h>
#include <stdlib.h>
#include <string.h>
#include <sys/types.h>
#include <assert.h>

/* ---- errno as a plain global (TRUSTED: errno is per-thread, nobody else writes it) */
#undef errno
int xv_errno;
#define errno xv_errno

#ifdef XV_CBMC
#include <stdio.h>
int xv_snprintf(char *s, size_t size);
#undef snprintf
#define snprintf(s, n, ...) xv_snprintf((s), (n))

/* ---- abort / assert become obligations instead of silently pruning paths */
void abort(void)
{
    __CPROVER_assert(0, "XV abort reachable (ut_assert/ut_fatal/ut_mem_exhausted)");
    __CPROVER_assume(0);
}
/* <assert.h> assert(): glibc expands it to __assert_fail(), for which CBMC's
 * library model is __CPROVER_assert(0, ...) -- already an obligation. */

/* nondet sources */
int nondet_int(void);
unsigned nondet_uint(void);
long nondet_long(void);
_Bool nondet_bool(void);
unsigned char nondet_uchar(void);
size_t nondet_size_t(void);

#define XV_ASSERT(c, msg) __CPROVER_assert((c), msg)
#define XV_ASSUME(c) __CPROVER_assume(c)
/* a canary MUST FAIL: it shows the path is reachable (vacuity guard) */
#define XV_CANARY(name) __CPROVER_assert(0, "CANARY " name)

#endif /* XV_CBMC */

/* ---- ghost: byte stream with a prophecy index (DESIGN 4.1)
 * xv_k is never assigned by anybody: contracts state facts about stream
 * position xv_k and are proved for every value of it. */
long xv_k;                 /* arbitrary stream offset (both directions share it; each job uses one) */
long xv_tx_off;            /* bytes this endpoint's lower layer has accepted so far          */
uint8_t xv_tx_k;           /* byte at offset xv_k as handed to the lower layer               */
_Bool xv_tx_k_set;         /* ... once offset xv_k has been handed down                      */
long xv_rx_off;            /* bytes the lower layer has delivered to this endpoint so far    */
uint8_t xv_rx_k;           /* byte at offset xv_k of the incoming stream (fixed, arbitrary)  */
_Bool xv_rx_eof;           /* lower layer has reported end of stream                         */

/* ghost: the lower connection is dead (closed or bad): no byte will ever be
 * accepted or delivered again.  Set by the lower layer only, never cleared. */
_Bool xv_lower_dead;
/* ghost indices (never assigned): into a message payload / an array */
long xv_j;

/* ghost constants (never assigned): bound to entry values by a requires clause of the contract under proof */
uint8_t xv_g_sb_j, xv_g_sb_k, xv_g_rb_j;

size_t xv_mc;              /* ghost offset whose byte the memcpy model copies (env/base.h) */
size_t xv_keep;            /* ghost offset whose byte the ut_realloc model preserves (env/base.h) */

/* ---- ghost: "the calling thread was put to sleep" (C05) */
_Bool xv_blocked;

#define XV_OFF_MAX (1L << 50)
/* private part of a socket (what the TO<X>(s) statement-expression macros of /repo compute), usable inside clauses;
 * loop contracts use it so that they do not depend on the names of locals of the function they sit in */
#define XV_PRIV(s, T) ((struct T *)((uint8_t *)(s) + sizeof(struct xcm_socket)))

#ifdef XV_CBMC
/* C zero-initialises objects of static storage duration; ghost state must instead be ARBITRARY at the start of every
 * harness (the contracts' requires clauses then restrict it).  Every harness calls this first (checked by bin/xv). */
static inline void xv_ghost_havoc(void)
{
    xv_errno = nondet_int();
    xv_k = nondet_long(); xv_j = nondet_long();
    xv_tx_off = nondet_long(); xv_tx_k = nondet_uchar(); xv_tx_k_set = nondet_bool();
    xv_rx_off = nondet_long(); xv_rx_k = nondet_uchar(); xv_rx_eof = nondet_bool();
    xv_lower_dead = nondet_bool();
    xv_g_sb_j = nondet_uchar(); xv_g_sb_k = nondet_uchar(); xv_g_rb_j = nondet_uchar();
    xv_blocked = nondet_bool();
    xv_keep = nondet_size_t();
    xv_mc = nondet_size_t();
}
#endif

#endif
