/* env/sockopt.h -- TRUSTED models of setsockopt(2), getsockopt(2) and getsockname(2) (include AFTER the real TU).
 *
 * setsockopt: succeeds or fails ARBITRARILY (errno any positive value); always fails on a negative descriptor.  Every call
 *   is recorded in ghost state.  The record is kept for ONE option, the *tracked* option (xv_so_level, xv_so_opt): these
 *   two are never assigned by anybody, so a contract clause of the form
 *        (xv_so_level == L && xv_so_opt == O) ==> <fact about the record>
 *   is proved for every (L, O), i.e. the record is a table indexed by (level, optname) seen through one arbitrary row:
 *        xv_so_n                      number of calls made for the option (successful or not)
 *        xv_so_fd/_val/_len/_rc       descriptor, int value (optlen == sizeof(int)), optlen and result of the LAST call
 *        xv_so_ok_n                   number of successful calls
 *        xv_so_ok_fd/_ok_val          descriptor and value of the last SUCCESSFUL call: "the value in force" (that the
 *                                     kernel honours an option it accepted is NOT part of any proof)
 *   plus, for all options together: xv_so_calls (calls), xv_so_fails (failed calls).
 *   The option value must be readable for optlen bytes (obligation in the caller).
 * getsockopt: fails arbitrarily, or writes ANY n <= *optlen arbitrary bytes and reports n in *optlen (a kernel older than
 *   the caller's struct reports fewer bytes).  The 32-bit word it left at the arbitrary, never assigned offset xv_gso_off
 *   is recorded in xv_gso_u32 (when inside the n bytes), so that contracts can say which field a getter reported.
 * getsockname: fails arbitrarily, or fills the address with arbitrary bytes of family xv_fd_family (ghost; the contract
 *   of the caller says which families it is prepared for).
 */
#ifndef XV_ENV_SOCKOPT_H
#define XV_ENV_SOCKOPT_H
#include <sys/socket.h>
#include <netinet/in.h>
#include <netinet/tcp.h>

int xv_so_level, xv_so_opt;                 /* the tracked option: NEVER assigned */
long xv_so_calls, xv_so_fails;
long xv_so_n; int xv_so_fd, xv_so_val, xv_so_rc; socklen_t xv_so_len;
long xv_so_ok_n; int xv_so_ok_fd, xv_so_ok_val;

/* TRUSTED(kernel) setsockopt(2): any outcome, recorded */
int setsockopt(int fd, int level, int optname, const void *optval, socklen_t optlen)
{
    __CPROVER_assert(optval != NULL && __CPROVER_r_ok(optval, optlen), "setsockopt: option value readable for optlen bytes");
    int v = 0;
    if (optlen == sizeof(int))
        v = *(const int *)optval;
    int rc = (fd >= 0 && nondet_bool()) ? 0 : -1;
    xv_so_calls++;
    if (rc < 0) {
        int e = nondet_int();
        __CPROVER_assume(e > 0);
        xv_errno = e;
        xv_so_fails++;
    }
    if (level == xv_so_level && optname == xv_so_opt) {
        xv_so_n++;
        xv_so_fd = fd; xv_so_val = v; xv_so_len = optlen; xv_so_rc = rc;
        if (rc == 0) {
            xv_so_ok_n++;
            xv_so_ok_fd = fd; xv_so_ok_val = v;
        }
    }
    return rc;
}

size_t xv_gso_off;                          /* arbitrary offset into the option value: NEVER assigned */
long xv_gso_calls; int xv_gso_fd, xv_gso_level, xv_gso_opt, xv_gso_rc;
socklen_t xv_gso_cap, xv_gso_len;           /* *optlen on entry / on return of the last call */
uint32_t xv_gso_u32; _Bool xv_gso_u32_set;  /* the word at xv_gso_off of the last successful call, if inside the value */

/* TRUSTED(kernel) getsockopt(2): any outcome, at most *optlen bytes written */
int getsockopt(int fd, int level, int optname, void *restrict optval, socklen_t *restrict optlen)
{
    xv_gso_calls++;
    xv_gso_fd = fd; xv_gso_level = level; xv_gso_opt = optname; xv_gso_cap = *optlen;
    xv_gso_u32_set = 0;
    if (fd < 0 || nondet_bool()) {
        int e = nondet_int();
        __CPROVER_assume(e > 0);
        xv_errno = e;
        xv_gso_rc = -1;
        return -1;
    }
    socklen_t n = nondet_uint();
    __CPROVER_assume(n <= *optlen);
    if (n > 0)
        __CPROVER_havoc_slice(optval, n);
    *optlen = n;
    xv_gso_len = n;
    if (xv_gso_off <= n && sizeof(uint32_t) <= n - xv_gso_off) {
        const uint8_t *b = (const uint8_t *)optval + xv_gso_off;    /* little-endian host (x86-64, as /repo is built) */
        xv_gso_u32 = (uint32_t)b[0] | ((uint32_t)b[1] << 8) | ((uint32_t)b[2] << 16) | ((uint32_t)b[3] << 24);
        xv_gso_u32_set = 1;
    }
    xv_gso_rc = 0;
    return 0;
}

int xv_fd_family;                           /* ghost: address family of the descriptors of this job (set by the harness) */
long xv_gsn_calls, xv_gsn_fails;

/* TRUSTED(kernel) getsockname(2): any outcome; the family is the ghost family of the descriptor */
int getsockname(int fd, __SOCKADDR_ARG addr, socklen_t *restrict len)
{
    xv_gsn_calls++;
    if (fd < 0 || nondet_bool()) {
        int e = nondet_int();
        __CPROVER_assume(e > 0);
        xv_errno = e;
        xv_gsn_fails++;
        return -1;
    }
#if defined(__USE_GNU) && !defined(__cplusplus)
    struct sockaddr *a = addr.__sockaddr__;     /* glibc: transparent union of pointer types */
#else
    struct sockaddr *a = addr;
#endif
    socklen_t cap = *len;
    if (cap > sizeof(struct sockaddr_storage))
        cap = sizeof(struct sockaddr_storage);
    if (cap == sizeof(struct sockaddr_storage)) {
        struct sockaddr_storage any;        /* uninitialised = arbitrary (a havoc_slice of symbolic size on this struct
                                               crashes CBMC 6.11's trace builder) */
        *(struct sockaddr_storage *)a = any;
    } else if (cap > 0)
        __CPROVER_havoc_slice(a, cap);
    if (cap >= sizeof(sa_family_t))
        a->sa_family = (sa_family_t)xv_fd_family;
    socklen_t n = nondet_uint();
    __CPROVER_assume(n >= sizeof(sa_family_t) && n <= sizeof(struct sockaddr_storage));
    *len = n;
    return 0;
}

#ifdef XV_CBMC
static inline void xv_sockopt_havoc(void)
{
    xv_so_level = nondet_int(); xv_so_opt = nondet_int();
    xv_so_calls = nondet_long(); xv_so_fails = nondet_long();
    xv_so_n = nondet_long(); xv_so_fd = nondet_int(); xv_so_val = nondet_int(); xv_so_rc = nondet_int(); xv_so_len = nondet_uint();
    xv_so_ok_n = nondet_long(); xv_so_ok_fd = nondet_int(); xv_so_ok_val = nondet_int();
    xv_gso_off = nondet_size_t(); xv_gso_calls = nondet_long(); xv_gso_fd = nondet_int(); xv_gso_level = nondet_int();
    xv_gso_opt = nondet_int(); xv_gso_rc = nondet_int(); xv_gso_cap = nondet_uint(); xv_gso_len = nondet_uint();
    xv_gso_u32 = nondet_uint(); xv_gso_u32_set = nondet_bool();
    xv_fd_family = nondet_int(); xv_gsn_calls = nondet_long(); xv_gsn_fails = nondet_long();
}
#endif
#endif
