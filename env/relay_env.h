/* env/relay_env.h -- TRUSTED environment of tools/xcmrelay/xrelay.c (include AFTER the real TU and env/base.h).
 * TRUSTED(libxcm public API) TRUSTED(libevent) TRUSTED(libc memmove) TRUSTED(relay user callbacks)
 *
 * The relay sits between two things it does not implement: the public XCM API (libxcm, verified in its own units)
 * and libevent.  Both are cut here by stub bodies with ghost state.  Nothing in this file is relay code.
 *
 * The two connection sockets ("legs") of one relay are the opaque addresses XV_CONN(0), XV_CONN(1); per leg the ghost
 * table xv_legs[] holds what the library knows about the socket:
 *   blocking     xcm_set_blocking() state (xcm_await/xcm_fd/xcm_finish fail with EINVAL on a blocking socket, as in xcm.c)
 *   cond         the condition last passed to a SUCCESSFUL xcm_await(): what the leg "awaits"
 *   fd           the value of xcm_fd() (stable, >= 0, the two legs' descriptors differ)
 *   closed       xcm_close() was called
 *   pending_out  a message/bytes accepted by xcm_send() may still sit in XCM's buffer (cleared by a successful
 *                xcm_finish(); see xcm.h "Buffer Flush Before Close")
 * plus a record of the last xcm_receive / xcm_send / xcm_finish call (socket, buffer, length, result) and call counters.
 * Every stub
 *   - returns ANY result the documented API allows (-1 with any errno 1..XV_RELAY_ERRNO_MAX included),
 *   - asserts that the socket is one of the two legs, is not closed, and that the relay's termination callback has not
 *     run yet (xv_terminated): "no use of a relay after its termination callback".
 * MESSAGE CONTENT IS ABSTRACT.  The source leg delivers a fixed arbitrary byte stream S; the ghost offsets say which part of
 * S is where:  xv_rx_off  bytes of S delivered by xcm_receive so far,  xv_tx_off  bytes of S accepted by xcm_send so far,
 * and the xfwd's hold buffer (ghost address xv_hold_buf) holds S[xv_hold_off, xv_hold_off + xv_hold_len) at its start.
 * xcm_receive / memmove do NOT store into the 64 KiB array; they update these three descriptors the way the real calls
 * move bytes (receive n bytes: hold = S[rx_off, rx_off+n); memmove(buf, buf+k, n): hold = S[hold_off+k, hold_off+k+n)).
 * This is exact as long as nobody else writes the buffer -- which is an obligation: the array is in NO assigns clause of
 * the code under proof, so any store of xrelay.c into data[] fails the frame check.  (xrelay.c never reads a byte of
 * data[] either; it only passes the buffer on.)  "Unmodified, in order, exactly once" then reads: what xcm_send is offered
 * starts at stream offset xv_tx_off -- the first byte not yet forwarded -- and rx_off - tx_off bytes are held.
 * (Byte-level tracking at a ghost index was tried first: any access at a symbolic index into a 64 KiB array embedded in
 * a struct is a 64K-way multiplexer for CBMC, every array version 0.5M variables; xfwd_send did not finish in 10 min.)
 * libevent: event_assign/event_add/event_del keep the real `struct event` fields a caller may look at (ev_fd, ev_events,
 * callback, argument, EVLIST_INIT/EVLIST_INSERTED in ev_flags) and the ghost counter xv_ev_pending (events inserted).
 */
#ifndef XV_ENV_RELAY_H
#define XV_ENV_RELAY_H

#include <xcm.h>
#include <event.h>
#include <event2/event_struct.h>

#define XV_RELAY_ERRNO_MAX 133
#define XV_RELAY_DATA_MAX 65535
#define XV_RELAY_CALLS_MAX 1000000

/* ---- the two legs (and, for the rserver jobs, the listening socket as entry 2) ------------------------------------- */
char xv_sock_obj[3];                                  /* distinct addresses; never dereferenced */
#define XV_CONN(i) ((struct xcm_socket *)&xv_sock_obj[i])
#define XV_SRV 2

/* exists / bytestream are used by the rserver jobs only (a connection socket comes into being by accept/connect) */
struct xv_leg { _Bool blocking; _Bool closed; _Bool pending_out; _Bool exists; _Bool bytestream; int cond; int fd; };
struct xv_leg xv_legs[3];
_Bool xv_srv_present;     /* ghost constant: the job has a listening socket (rserver jobs) */

/* ghost constant (set by the harness, never assigned afterwards): address of the hold buffer of the xfwd under proof; an
 * xcm_receive / xcm_send / memmove with any other buffer is a failed obligation (hold-one) */
void *xv_hold_buf;
long xv_hold_off;         /* stream offset of the byte at the start of the hold buffer */
long xv_hold_len;         /* number of valid stream bytes at the start of the hold buffer */
long xv_snd_off;          /* stream offset of the first byte the last xcm_send was offered */
int xv_mm_calls; size_t xv_mm_n;   /* memmove calls, length of the last one */

_Bool xv_bytestream;      /* ghost constant (never assigned): service type of BOTH legs (rserver pairs equal types only) */
int xv_src;               /* ghost constant (never assigned): index of the source leg of the xfwd under proof */
_Bool xv_terminated;      /* the termination callback of the relay has run */
_Bool xv_cb_frees;        /* ghost constant: the termination callback destroys (frees) the relay, as rserver.c does */

/* last-call records */
int xv_rcv_calls; struct xcm_socket *xv_rcv_conn; void *xv_rcv_buf; size_t xv_rcv_cap; int xv_rcv_ret; int xv_rcv_errno;
int xv_snd_calls; struct xcm_socket *xv_snd_conn; const void *xv_snd_buf; size_t xv_snd_len; int xv_snd_ret; int xv_snd_errno;
int xv_fin_calls; struct xcm_socket *xv_fin_conn; int xv_fin_ret; int xv_fin_errno;
int xv_aw_calls;          /* xcm_await calls */
int xv_sb_calls;          /* xcm_set_blocking calls */
int xv_close_calls;       /* xcm_close calls on a non-NULL socket */
_Bool xv_close_unflushed; /* some xcm_close() hit a leg whose accepted output was not flushed */
/* libevent */
int xv_ev_pending;        /* number of events currently inserted in the event base */
int xv_ev_add_calls; int xv_ev_del_calls; int xv_ev_assign_calls;
_Bool xv_ev_add_failed;   /* some event_add() returned -1 */
/* termination callbacks (stubs below) */
int xv_fcb_calls; int xv_fcb_reason; const char *xv_fcb_msg; void *xv_fcb_data;                 /* xfwd_err_cb   */
int xv_rcb_calls; int xv_rcb_reason; const char *xv_rcb_msg; void *xv_rcb_data; struct xrelay *xv_rcb_relay;  /* xrelay_err_cb */

struct xv_leg nondet_xv_leg(void);
static inline void xv_leg_havoc(int i)
{
    xv_legs[i] = nondet_xv_leg();
    /* _Bool members of a nondet struct may hold any byte; make them proper truth values */
    xv_legs[i].blocking = nondet_bool(); xv_legs[i].closed = nondet_bool(); xv_legs[i].pending_out = nondet_bool();
    xv_legs[i].exists = nondet_bool(); xv_legs[i].bytestream = nondet_bool();
}
void *nondet_vptr(void);
/* every relay harness calls this right after xv_ghost_havoc() */
static inline void xv_relay_havoc(void)
{
    xv_leg_havoc(0); xv_leg_havoc(1); xv_leg_havoc(XV_SRV); xv_srv_present = 0;
    xv_hold_off = nondet_long(); xv_hold_len = nondet_long(); xv_snd_off = nondet_long(); xv_mm_calls = nondet_int(); xv_mm_n = nondet_size_t();
    xv_bytestream = nondet_bool(); xv_src = nondet_int(); xv_terminated = nondet_bool(); xv_cb_frees = nondet_bool();
    xv_rcv_calls = nondet_int(); xv_rcv_conn = nondet_vptr(); xv_rcv_buf = nondet_vptr(); xv_rcv_cap = nondet_size_t();
    xv_rcv_ret = nondet_int(); xv_rcv_errno = nondet_int();
    xv_snd_calls = nondet_int(); xv_snd_conn = nondet_vptr(); xv_snd_buf = nondet_vptr(); xv_snd_len = nondet_size_t();
    xv_snd_ret = nondet_int(); xv_snd_errno = nondet_int();
    xv_fin_calls = nondet_int(); xv_fin_conn = nondet_vptr(); xv_fin_ret = nondet_int(); xv_fin_errno = nondet_int();
    xv_aw_calls = nondet_int(); xv_sb_calls = nondet_int(); xv_close_calls = nondet_int(); xv_close_unflushed = nondet_bool();
    xv_ev_pending = nondet_int(); xv_ev_add_calls = nondet_int(); xv_ev_del_calls = nondet_int(); xv_ev_assign_calls = nondet_int();
    xv_ev_add_failed = nondet_bool();
    xv_fcb_calls = nondet_int(); xv_fcb_reason = nondet_int(); xv_fcb_msg = nondet_vptr(); xv_fcb_data = nondet_vptr();
    xv_rcb_calls = nondet_int(); xv_rcb_reason = nondet_int(); xv_rcb_msg = nondet_vptr(); xv_rcb_data = nondet_vptr();
    xv_rcb_relay = nondet_vptr();
}

#define XV_RCNT_OK(c) ((c) >= 0 && (c) < XV_RELAY_CALLS_MAX)
#define XV_RELAY_GHOST_RANGE (XV_RCNT_OK(xv_rcv_calls) && XV_RCNT_OK(xv_snd_calls) && XV_RCNT_OK(xv_fin_calls) && XV_RCNT_OK(xv_aw_calls) && \
                              XV_RCNT_OK(xv_sb_calls) && XV_RCNT_OK(xv_close_calls) && XV_RCNT_OK(xv_ev_pending) && XV_RCNT_OK(xv_ev_add_calls) && \
                              XV_RCNT_OK(xv_ev_del_calls) && XV_RCNT_OK(xv_ev_assign_calls) && XV_RCNT_OK(xv_fcb_calls) && XV_RCNT_OK(xv_rcb_calls) && XV_RCNT_OK(xv_mm_calls))

/* what the counters may have grown to at the exit of a function under contract (no function makes 64 calls of a kind);
 * OUT2: exit of a function that accepts OUT on entry (xrelay_destroy after a failed xrelay_start) */
#define XV_RCNT_LIM(c, lim) ((c) >= 0 && (c) < (lim))
#define XV_RELAY_GHOST_LIM(lim) (XV_RCNT_LIM(xv_rcv_calls, lim) && XV_RCNT_LIM(xv_snd_calls, lim) && XV_RCNT_LIM(xv_fin_calls, lim) && XV_RCNT_LIM(xv_aw_calls, lim) && \
                              XV_RCNT_LIM(xv_sb_calls, lim) && XV_RCNT_LIM(xv_close_calls, lim) && XV_RCNT_LIM(xv_ev_pending, lim) && XV_RCNT_LIM(xv_ev_add_calls, lim) && \
                              XV_RCNT_LIM(xv_ev_del_calls, lim) && XV_RCNT_LIM(xv_ev_assign_calls, lim) && XV_RCNT_LIM(xv_fcb_calls, lim) && XV_RCNT_LIM(xv_rcb_calls, lim) && \
                              XV_RCNT_LIM(xv_mm_calls, lim))
#define XV_RELAY_GHOST_RANGE_OUT XV_RELAY_GHOST_LIM(XV_RELAY_CALLS_MAX + 64)
#define XV_RELAY_GHOST_RANGE_OUT2 XV_RELAY_GHOST_LIM(XV_RELAY_CALLS_MAX + 128)

static int xv_relay_any_errno(void)
{
    int e = nondet_int();
    __CPROVER_assume(e >= 1 && e <= XV_RELAY_ERRNO_MAX);
    return e;
}

/* which leg; obligations common to every XCM call the relay makes */
static int xv_leg_use(struct xcm_socket *s)
{
    __CPROVER_assert(s == XV_CONN(0) || s == XV_CONN(1) || (xv_srv_present && s == XV_CONN(XV_SRV)), "C20 XCM call on a socket that is a leg of this relay");
    __CPROVER_assume(s == XV_CONN(0) || s == XV_CONN(1) || (xv_srv_present && s == XV_CONN(XV_SRV)));
    int i = s == XV_CONN(0) ? 0 : s == XV_CONN(1) ? 1 : XV_SRV;
    __CPROVER_assert(!xv_legs[i].closed, "C20 no XCM call on a closed socket");
    __CPROVER_assert(!xv_terminated, "C20 no XCM call after the relay's termination callback");
    return i;
}

/* ---- TRUSTED(libxcm public API, include/xcm.h) ------------------------------------------------------------------- */

/* xcm_receive: -1 with any errno (EAGAIN, ECONNRESET, ETIMEDOUT, ...), 0 = the peer has closed, or n in 1..capacity:
 * the next n bytes of the stream are now at buf (abstractly, see above) */
int xcm_receive(struct xcm_socket *__restrict conn_socket, void *__restrict buf, size_t capacity)
{
    int i = xv_leg_use(conn_socket);
    __CPROVER_assert(!xv_legs[i].blocking, "xcm_receive on a non-blocking socket (the relay must never sleep in XCM)");
    __CPROVER_assert(capacity == 0 || __CPROVER_w_ok(buf, capacity), "xcm_receive buffer writeable");
    __CPROVER_assert(buf == xv_hold_buf, "C20 xcm_receive into the xfwd's own hold buffer");
    xv_rcv_calls++; xv_rcv_conn = conn_socket; xv_rcv_buf = buf; xv_rcv_cap = capacity;
    if (nondet_bool()) {
        xv_errno = xv_relay_any_errno();
        xv_rcv_errno = xv_errno; xv_rcv_ret = -1;
        return -1;
    }
    size_t n = nondet_size_t();
    __CPROVER_assume(n <= capacity && n <= 0x7fffffffUL);
    if (n == 0) {
        xv_rx_eof = 1;
    } else {
        xv_hold_off = xv_rx_off; xv_hold_len = (long)n;      /* whatever the buffer held before is overwritten */
        xv_rx_off += (long)n;
    }
    xv_rcv_ret = (int)n;
    return (int)n;
}

/* xcm_send: -1 with any errno (EAGAIN, EPIPE, ECONNRESET, EMSGSIZE, ...) and nothing accepted; messaging: 0 = the whole
 * message was accepted; byte stream: n in 1..len = the first n bytes were accepted.  Accepted data may remain buffered in XCM. */
int xcm_send(struct xcm_socket *__restrict conn_socket, const void *__restrict buf, size_t len)
{
    int i = xv_leg_use(conn_socket);
    __CPROVER_assert(!xv_legs[i].blocking, "xcm_send on a non-blocking socket (the relay must never sleep in XCM)");
    __CPROVER_assert(len == 0 || __CPROVER_r_ok(buf, len), "xcm_send buffer readable");
    __CPROVER_assert(buf == xv_hold_buf, "C20 xcm_send from the start of the xfwd's own hold buffer");
    xv_snd_calls++; xv_snd_conn = conn_socket; xv_snd_buf = buf; xv_snd_len = len; xv_snd_off = xv_hold_off;
    if (nondet_bool() || len == 0) {    /* a zero-length send is refused by messaging transports, pointless on streams */
        xv_errno = xv_relay_any_errno();
        xv_snd_errno = xv_errno; xv_snd_ret = -1;
        return -1;
    }
    if (nondet_bool()) xv_legs[i].pending_out = 1;
    if (!xv_bytestream) {
        __CPROVER_assume(len <= 0x7fffffffUL);
        xv_tx_off += (long)len;
        xv_snd_ret = 0;
        return 0;
    }
    size_t n = nondet_size_t();
    __CPROVER_assume(n >= 1 && n <= len && n <= 0x7fffffffUL);
    xv_tx_off += (long)n;
    xv_snd_ret = (int)n;
    return (int)n;
}

/* xcm_await: EINVAL on a blocking socket or for bits that are not valid on this type of socket, else the condition is
 * what the socket awaits from now on (xcm.c: xcm_await) */
int xcm_await(struct xcm_socket *socket, int condition)
{
    int i = xv_leg_use(socket);
    xv_aw_calls++;
    if (xv_legs[i].blocking || (condition & ~(i == XV_SRV ? XCM_SO_ACCEPTABLE : (XCM_SO_RECEIVABLE | XCM_SO_SENDABLE))) != 0) {
        xv_errno = EINVAL;
        return -1;
    }
    xv_legs[i].cond = condition;
    return 0;
}

/* xcm_finish: EINVAL on a blocking socket; -1 with any errno (EAGAIN: work left; EPIPE, ...: the connection is gone) or 0
 * (nothing left to do: everything accepted earlier has been handed to the lower layer) */
int xcm_finish(struct xcm_socket *socket)
{
    int i = xv_leg_use(socket);
    xv_fin_calls++; xv_fin_conn = socket;
    if (xv_legs[i].blocking) {
        xv_errno = EINVAL; xv_fin_errno = EINVAL; xv_fin_ret = -1;
        return -1;
    }
    if (nondet_bool()) {
        xv_errno = xv_relay_any_errno();
        xv_fin_errno = xv_errno; xv_fin_ret = -1;
        return -1;
    }
    xv_legs[i].pending_out = 0;
    xv_fin_ret = 0;
    return 0;
}

/* xcm_fd: EINVAL on a blocking socket, else the socket's one stable descriptor */
int xcm_fd(struct xcm_socket *socket)
{
    int i = xv_leg_use(socket);
    if (xv_legs[i].blocking) {
        xv_errno = EINVAL;
        return -1;
    }
    return xv_legs[i].fd;
}

/* xcm_set_blocking: no-op 0 when the mode is the one asked for; a change of mode may fail (documented: EAGAIN and the
 * xcm_finish() errnos when going to blocking mode; over-approximated: either direction) */
int xcm_set_blocking(struct xcm_socket *socket, bool should_block)
{
    int i = xv_leg_use(socket);
    xv_sb_calls++;
    if (xv_legs[i].blocking == should_block)
        return 0;
    if (nondet_bool()) {
        xv_errno = xv_relay_any_errno();
        return -1;
    }
    xv_legs[i].blocking = should_block;
    return 0;
}

/* xcm_close: NULL is a no-op; the socket is gone afterwards whatever is returned; buffered output is NOT flushed */
int xcm_close(struct xcm_socket *socket)
{
    if (socket == NULL)
        return 0;
    int i = xv_leg_use(socket);
    xv_close_calls++;
    if (xv_legs[i].pending_out) xv_close_unflushed = 1;
    xv_legs[i].closed = 1;
    return 0;
}

#ifdef XV_RSERVER
/* ---- rserver.c only: TRUSTED(libxcm public API) connection establishment and the xcm.service attribute ------------------- */
#include <xcm_attr.h>
int xv_accept_calls, xv_connect_calls, xv_fatal_calls;
void *xv_fatal_data;
/* xcm_accept_a: NULL with any errno (EAGAIN: nobody waiting), else a new connection socket -- leg 0 of the relay to be.
 * It inherits the listening socket's non-blocking mode and awaits nothing yet. */
struct xcm_socket *xcm_accept_a(struct xcm_socket *server_socket, const struct xcm_attr_map *attrs)
{
    int i = xv_leg_use(server_socket);
    __CPROVER_assert(i == XV_SRV, "xcm_accept_a on the listening socket");
    xv_accept_calls++;
    if (nondet_bool()) { xv_errno = xv_relay_any_errno(); return NULL; }
    __CPROVER_assert(!xv_legs[0].exists, "model: one accepted connection per job");
    xv_legs[0].exists = 1; xv_legs[0].closed = 0; xv_legs[0].pending_out = 0; xv_legs[0].cond = 0; xv_legs[0].blocking = xv_legs[XV_SRV].blocking;
    return XV_CONN(0);
}
/* xcm_connect_a: NULL with any errno, else a new (possibly still connecting) connection socket -- leg 1 */
struct xcm_socket *xcm_connect_a(const char *remote_addr, const struct xcm_attr_map *attrs)
{
    xv_connect_calls++;
    if (nondet_bool()) { xv_errno = xv_relay_any_errno(); return NULL; }
    __CPROVER_assert(!xv_legs[1].exists, "model: one outbound connection per job");
    xv_legs[1].exists = 1; xv_legs[1].closed = 0; xv_legs[1].pending_out = 0; xv_legs[1].cond = 0; xv_legs[1].blocking = 0;
    return XV_CONN(1);
}
/* xcm_attr_get_str, for "xcm.service" (the only attribute rserver.c reads): -1 with any errno, else one of the two
 * documented values, NUL-terminated, and its length + 1 (ENAMETOOLONG-style failure when it does not fit) */
int xcm_attr_get_str(struct xcm_socket *socket, const char *name, char *value, size_t capacity)
{
    int i = xv_leg_use(socket);
    __CPROVER_assert(__CPROVER_w_ok(value, capacity), "xcm_attr_get_str buffer writeable");
    if (nondet_bool() || capacity < 11) { xv_errno = xv_relay_any_errno(); return -1; }
    if (xv_legs[i].bytestream) {
        value[0] = 'b'; value[1] = 'y'; value[2] = 't'; value[3] = 'e'; value[4] = 's'; value[5] = 't'; value[6] = 'r'; value[7] = 'e'; value[8] = 'a'; value[9] = 'm'; value[10] = 0;
        return 11;
    }
    value[0] = 'm'; value[1] = 'e'; value[2] = 's'; value[3] = 's'; value[4] = 'a'; value[5] = 'g'; value[6] = 'i'; value[7] = 'n'; value[8] = 'g'; value[9] = 0;
    return 10;
}
/* TRUSTED(libc) strerror / perror / fprintf (diagnostics only; fprintf is reached through the macro in harness/relay/_rserver.h) */
char xv_strerror_buf[2];
char *strerror(int errnum) { return xv_strerror_buf; }
void perror(const char *s) { }
int xv_fprintf(void) { return 0; }
/* TRUSTED(caller) rserver_fatal_cb handed to rserver_create() (main.c: breaks the event loop, the process exits) */
void xv_fatal_cb(void *cb_data) { xv_fatal_calls++; xv_fatal_data = cb_data; }
#endif

/* ---- TRUSTED(libc) memmove, specialised and content-abstract ---------------------------------------------------------
 * The only memmove of xrelay.c moves the unsent remainder to the front of the hold buffer.  Model for exactly that use
 * (anything else is a failed obligation): dst is the start of the hold buffer, src = dst + k inside it, k + n within its
 * 65535 bytes.  Afterwards the buffer starts with what was at offset k: n valid bytes of the stream from hold_off + k. */
void *memmove(void *dst, const void *src, size_t n)
{
    __CPROVER_assert(dst == xv_hold_buf && __CPROVER_same_object(src, dst), "memmove model: within the xfwd's own hold buffer, to its start");
    __CPROVER_assume(dst == xv_hold_buf && __CPROVER_same_object(src, dst));
    __CPROVER_assert(n == 0 || (__CPROVER_r_ok(src, n) && __CPROVER_w_ok(dst, n)), "memmove regions accessible");
    long k = (const char *)src - (const char *)dst;
    __CPROVER_assert(k >= 0 && k <= XV_RELAY_DATA_MAX && n <= XV_RELAY_DATA_MAX - (size_t)k, "memmove source region inside the hold buffer");
    __CPROVER_assume(k >= 0 && k <= XV_RELAY_DATA_MAX && n <= XV_RELAY_DATA_MAX - (size_t)k);
    __CPROVER_assert((long)n <= xv_hold_len - k || n == 0, "memmove moves valid (received, unsent) bytes only");
    xv_mm_calls++; xv_mm_n = n;
    xv_hold_off += k; xv_hold_len = (long)n;
    return dst;
}

/* ---- TRUSTED(libevent 2.1) --------------------------------------------------------------------------------------- */
#define XV_EV_FLAGS(ev) ((ev)->ev_evcallback.evcb_flags)
#define XV_EV_CB(ev) ((ev)->ev_evcallback.evcb_cb_union.evcb_callback)
#define XV_EV_ARG(ev) ((ev)->ev_evcallback.evcb_arg)

/* event_assign: must not be applied to a pending event; -1 only for the invalid EV_SIGNAL|EV_READ/EV_WRITE combination */
int event_assign(struct event *ev, struct event_base *base, evutil_socket_t fd, short events,
                 void (*callback)(evutil_socket_t, short, void *), void *arg)
{
    __CPROVER_assert(!xv_terminated, "C20 no libevent call on the relay's events after the termination callback");
    __CPROVER_assert((XV_EV_FLAGS(ev) & EVLIST_INSERTED) == 0, "event_assign on an event that is not pending");
    xv_ev_assign_calls++;
    if ((events & EV_SIGNAL) != 0 && (events & (EV_READ | EV_WRITE)) != 0)
        return -1;
    ev->ev_base = base; ev->ev_fd = fd; ev->ev_events = events; ev->ev_res = 0;
    XV_EV_CB(ev) = callback; XV_EV_ARG(ev) = arg;
    XV_EV_FLAGS(ev) = EVLIST_INIT;
    return 0;
}

/* event_add: the event becomes pending, or -1 (ENOMEM in the event map, epoll_ctl(ADD) refused: ENOSPC, ENOMEM) and it does not */
int event_add(struct event *ev, const struct timeval *timeout)
{
    __CPROVER_assert(!xv_terminated, "C20 no libevent call on the relay's events after the termination callback");
    __CPROVER_assert((XV_EV_FLAGS(ev) & EVLIST_INIT) != 0, "event_add on an assigned event");
    xv_ev_add_calls++;
    /* ASSUMED by default: libevent's event_add() does not fail (ENOMEM in its event map, epoll_ctl refusing the ADD):
     * a failing event loop is outside C20's quantifier (message sequences, timings, transports), so the unchecked
     * event_add() results in xfwd_start/xrelay_start/rserver_start are not reported; -DXV_EVENT_ADD_MAY_FAIL restores it */
#ifdef XV_EVENT_ADD_MAY_FAIL
    if (nondet_bool()) {
#else
    if (0) {
#endif
        xv_ev_add_failed = 1;
        return -1;
    }
    if ((XV_EV_FLAGS(ev) & EVLIST_INSERTED) == 0) {
        XV_EV_FLAGS(ev) |= EVLIST_INSERTED;
        xv_ev_pending++;
    }
    return 0;
}

/* event_del: the event is not pending afterwards, whatever is returned */
int event_del(struct event *ev)
{
    __CPROVER_assert(!xv_terminated, "C20 no libevent call on the relay's events after the termination callback");
    __CPROVER_assert((XV_EV_FLAGS(ev) & EVLIST_INIT) != 0, "event_del on an assigned event");
    xv_ev_del_calls++;
    if ((XV_EV_FLAGS(ev) & EVLIST_INSERTED) != 0) {
        XV_EV_FLAGS(ev) &= ~EVLIST_INSERTED;
        xv_ev_pending--;
    }
    return nondet_bool() ? -1 : 0;
}

/* ---- the relay's users (rserver.c): termination callbacks ------------------------------------------------------- */
/* TRUSTED(caller) xfwd_err_cb handed to an xfwd: records the call; may destroy the object it was given (rserver.c:
 * rserver_terminate_relay() does xrelay_destroy()), so whoever continues to use the relay afterwards touches freed memory */
void xv_fwd_cb(int reason, const char *msg, void *cb_data)
{
    xv_fcb_calls++; xv_fcb_reason = reason; xv_fcb_msg = msg; xv_fcb_data = cb_data;
    xv_terminated = 1;
    if (xv_cb_frees)
        free(cb_data);
}
/* TRUSTED(caller) xrelay_err_cb handed to xrelay_create() */
void xv_relay_cb(struct xrelay *relay, int reason, const char *msg, void *cb_data)
{
    xv_rcb_calls++; xv_rcb_relay = relay; xv_rcb_reason = reason; xv_rcb_msg = msg; xv_rcb_data = cb_data;
    xv_terminated = 1;
    if (xv_cb_frees)
        free(relay);
}
#endif
