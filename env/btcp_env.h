/* env/btcp_env.h -- TRUSTED model of the kernel as unit btcp (libxcm/tp/tcp/xcm_tp_btcp.c) sees it: send(2)/recv(2) on a
 * connected TCP stream socket, accept4(2), close(2).  Include AFTER the real TU and after env/base.h.  (env/fd.h cannot be
 * used next to this file: it has its own send/recv, which keep a last-call record only; the bodies here additionally
 * MAINTAIN THE GHOST BYTE STREAM of prelude.h, which is what contracts/lower.h talks about.)
 *
 * Ghost descriptor table (the idea of env/fd.h): XB_NFD slots; slot fd is `open` iff descriptor fd is open and was created
 * by the library.  I/O on anything else is an obligation (C08); I/O on a descriptor lacking O_NONBLOCK writes xv_blocked,
 * which is in no assigns clause (C05).
 *
 * Ghost byte stream (DESIGN 4.1), maintained here because btcp is the lowest XCM layer:
 *   send  accepted n bytes  => stream positions [xv_tx_off, xv_tx_off+n) are buf[0..n); position xv_k is recorded in
 *                              xv_tx_k/xv_tx_k_set; xv_tx_off += n
 *   recv  delivered n bytes => they are stream positions [xv_rx_off, xv_rx_off+n): the byte at position xv_k is xv_rx_k
 *                              (fixed, arbitrary), every other byte is arbitrary; xv_rx_off += n
 *   recv  returned 0 for a non-empty buffer => xv_rx_eof (end of stream), and 0 again on every later call
 *   xv_lower_dead is BTCP'S abstract state "closed or bad".  Real code cannot write a ghost, so the model sets it at
 *   exactly the events after which the specification of btcp (C06) says the connection is finished: an errno other than
 *   EAGAIN from send/recv, and end of stream.  That the CODE agrees -- conn.state is closed/bad exactly when
 *   xv_lower_dead -- is an obligation of every contract (BT_DEAD_IS_STATE in contracts/btcp.h), not an assumption.
 * Nothing here assumes a failure away: every call may fail with ANY errno 1..XB_ERRNO_MAX (EAGAIN, EINTR, EPIPE,
 * ECONNRESET, ETIMEDOUT, ENOBUFS ...), accept any prefix / deliver any amount.
 */
#ifndef XV_ENV_BTCP_H
#define XV_ENV_BTCP_H

#include <sys/socket.h>
#include <unistd.h>

#define XB_NFD 8
#define XB_ERRNO_MAX 133
/* TRUSTED(kernel) one transfer moves at most MAX_RW_COUNT = INT_MAX & PAGE_MASK bytes (this is what keeps the
 * ssize_t -> int conversions `int rc = send(...)` / `int rc = recv(...)` of btcp sound; the conversion is an obligation) */
#define XB_RW_MAX 0x7ffff000UL

struct xb_fd_entry { _Bool open; _Bool nonblock; };
struct xb_fd_table { struct xb_fd_entry e[XB_NFD]; };
struct xb_fd_table xb_fdt;
long xb_open_cnt;                /* descriptors the library has open */
int xb_fk;                       /* ghost index (never assigned): "any other descriptor" in frame statements */

/* call records: number of calls, and what the LAST call was given / returned */
long xb_send_calls; int xb_send_fd; const void *xb_send_buf; size_t xb_send_len; int xb_send_flags; long xb_send_ret; int xb_send_errno;
long xb_recv_calls; int xb_recv_fd; void *xb_recv_buf; size_t xb_recv_len; int xb_recv_flags; long xb_recv_ret; int xb_recv_errno;
long xb_accept_calls; int xb_accept_fd; int xb_accept_ret;
long xb_close_calls; int xb_close_fd;

struct xb_fd_table nondet_xb_fd_table(void);
void *nondet_xb_ptr(void);
/* every btcp harness calls this right after xv_ghost_havoc() */
static inline void xb_env_havoc(void)
{
    xb_fdt = nondet_xb_fd_table(); xb_open_cnt = nondet_long(); xb_fk = nondet_int();
    xb_send_calls = nondet_long(); xb_send_fd = nondet_int(); xb_send_buf = nondet_xb_ptr(); xb_send_len = nondet_size_t();
    xb_send_flags = nondet_int(); xb_send_ret = nondet_long(); xb_send_errno = nondet_int();
    xb_recv_calls = nondet_long(); xb_recv_fd = nondet_int(); xb_recv_buf = nondet_xb_ptr(); xb_recv_len = nondet_size_t();
    xb_recv_flags = nondet_int(); xb_recv_ret = nondet_long(); xb_recv_errno = nondet_int();
    xb_accept_calls = nondet_long(); xb_accept_fd = nondet_int(); xb_accept_ret = nondet_int();
    xb_close_calls = nondet_long(); xb_close_fd = nondet_int();
}

#define XB_CALLS_MAX (1L << 40)
#define XB_CNT_OK(c) ((c) >= 0 && (c) < XB_CALLS_MAX)
#define XB_ENV_RANGE (XB_CNT_OK(xb_send_calls) && XB_CNT_OK(xb_recv_calls) && XB_CNT_OK(xb_accept_calls) && XB_CNT_OK(xb_close_calls) && \
                      XB_CNT_OK(xb_open_cnt))
#define XB_FD_OURS(fd) ((fd) >= 0 && (fd) < XB_NFD && xb_fdt.e[fd].open)
/* obligation, then (the violation being reported) continue with a descriptor of the table */
#define XB_FD_USE(fd, msg) { __CPROVER_assert(XB_FD_OURS(fd), msg); __CPROVER_assume(XB_FD_OURS(fd)); }

/* assigns-clause fragments: what each stub writes besides the ghost stream */
#define XB_SEND_REC xb_send_calls, xb_send_fd, xb_send_buf, xb_send_len, xb_send_flags, xb_send_ret, xb_send_errno
#define XB_RECV_REC xb_recv_calls, xb_recv_fd, xb_recv_buf, xb_recv_len, xb_recv_flags, xb_recv_ret, xb_recv_errno
#define XB_FDT_ASSIGNS __CPROVER_object_whole(&xb_fdt), xb_open_cnt
#define XB_ACCEPT_REC xb_accept_calls, xb_accept_fd, xb_accept_ret
#define XB_CLOSE_REC xb_close_calls, xb_close_fd

static int xb_any_errno(void)
{
    int e = nondet_int();
    __CPROVER_assume(e >= 1 && e <= XB_ERRNO_MAX);
    return e;
}

/* TRUSTED(kernel) send(2) on a connected stream socket: fails with any errno, or accepts a prefix of 1..len bytes
 * (a stream socket never reports 0 for len > 0; for len == 0 it reports 0) */
ssize_t send(int fd, const void *buf, size_t len, int flags)
{
    XB_FD_USE(fd, "C08 send() on a descriptor the library owns and has open");
    __CPROVER_assert(len == 0 || __CPROVER_r_ok(buf, len), "send() buffer readable");
    if (!xb_fdt.e[fd].nonblock && !(flags & MSG_DONTWAIT)) xv_blocked = 1;
    xb_send_calls++; xb_send_fd = fd; xb_send_buf = buf; xb_send_len = len; xb_send_flags = flags;
    if (nondet_bool()) {
        int e = xb_any_errno();
        xv_errno = e; xb_send_errno = e; xb_send_ret = -1;
        if (e != EAGAIN) xv_lower_dead = 1;
        return -1;
    }
    if (len == 0) { xb_send_ret = 0; return 0; }
    size_t n = nondet_size_t();
    __CPROVER_assume(n >= 1 && n <= len && n <= XB_RW_MAX);
    if (xv_k >= xv_tx_off && xv_k - xv_tx_off < (long)n) {
        xv_tx_k = ((const uint8_t *)buf)[xv_k - xv_tx_off];
        xv_tx_k_set = 1;
    }
    xv_tx_off += (long)n;
    xb_send_ret = (long)n;
    return (ssize_t)n;
}

/* TRUSTED(kernel) recv(2) on a connected stream socket: fails with any errno; returns 0 for an empty buffer (len == 0)
 * without that meaning anything; otherwise end of stream (0, from then on always) or the next 1..len stream bytes */
ssize_t recv(int fd, void *buf, size_t len, int flags)
{
    XB_FD_USE(fd, "C08 recv() on a descriptor the library owns and has open");
    __CPROVER_assert(len == 0 || __CPROVER_w_ok(buf, len), "recv() buffer writeable");
    if (!xb_fdt.e[fd].nonblock && !(flags & MSG_DONTWAIT)) xv_blocked = 1;
    xb_recv_calls++; xb_recv_fd = fd; xb_recv_buf = buf; xb_recv_len = len; xb_recv_flags = flags;
    if (nondet_bool()) {
        int e = xb_any_errno();
        xv_errno = e; xb_recv_errno = e; xb_recv_ret = -1;
        if (e != EAGAIN) xv_lower_dead = 1;
        return -1;
    }
    if (len == 0) { xb_recv_ret = 0; return 0; }
    if (xv_rx_eof || nondet_bool()) {
        xv_rx_eof = 1; xv_lower_dead = 1;
        xb_recv_ret = 0;
        return 0;
    }
    size_t n = nondet_size_t();
    __CPROVER_assume(n >= 1 && n <= len && n <= XB_RW_MAX);
#ifndef XB_RECV_TRACKED_BYTE_ONLY
    __CPROVER_havoc_slice(buf, n);
#endif
    /* XB_RECV_TRACKED_BYTE_ONLY (job btcp.receive@huge): the n-1 other bytes keep the ARBITRARY values the caller's buffer
     * has on entry instead of being overwritten with arbitrary values -- havoc_slice costs solver memory in proportion to the
     * largest n (out of memory beyond 2^20).  Used only for a function that never reads the buffer (btcp_receive) and a
     * contract in which no clause relates a buffer byte to its entry value or to another byte. */
    if (xv_k >= xv_rx_off && xv_k - xv_rx_off < (long)n)
        ((uint8_t *)buf)[xv_k - xv_rx_off] = xv_rx_k;
    xv_rx_off += (long)n;
    xb_recv_ret = (long)n;
    return (ssize_t)n;
}

/* TRUSTED(kernel) accept4(2): ANY free slot or any failure; O_NONBLOCK comes from flags only */
int accept4(int fd, struct sockaddr *addr, socklen_t *addrlen, int flags)
{
    XB_FD_USE(fd, "C08 accept4() on a descriptor the library owns and has open");
    __CPROVER_assert((flags & SOCK_NONBLOCK) != 0, "C05 accept4() asks for SOCK_NONBLOCK");
    if (!xb_fdt.e[fd].nonblock) xv_blocked = 1;
    xb_accept_calls++; xb_accept_fd = fd;
    int nfd = nondet_int();
    if (nondet_bool() || nfd < 0 || nfd >= XB_NFD || xb_fdt.e[nfd].open) {
        xv_errno = xb_any_errno();     /* EAGAIN, EMFILE, ENFILE, ECONNABORTED, ... */
        xb_accept_ret = -1;
        return -1;
    }
    xb_fdt.e[nfd].open = 1; xb_fdt.e[nfd].nonblock = (flags & SOCK_NONBLOCK) != 0;
    xb_open_cnt++;
    xb_accept_ret = nfd;
    return nfd;
}

/* TRUSTED(kernel) close(2): the descriptor is released also when -1 (EINTR, EIO) is returned (Linux) */
int close(int fd)
{
    XB_FD_USE(fd, "C08 close() of a descriptor the library created and still has open (no stray/double close)");
    xb_close_calls++; xb_close_fd = fd;
    xb_fdt.e[fd].open = 0; xb_open_cnt--;
    if (nondet_bool()) { xv_errno = xb_any_errno(); return -1; }
    return 0;
}

/* TRUSTED(common/util.c) the descriptor helpers of util.c, same text (util.c cannot be included next to env/base.h, which
 * defines ut_malloc & friends) */
void ut_close(int fd) { int _errno = xv_errno; close(fd); xv_errno = _errno; }
void ut_close_if_valid(int fd) { if (fd >= 0) ut_close(fd); }
int ut_accept(int sockfd, struct sockaddr *addr, socklen_t *addrlen, unsigned int flags)
{
    int rc = accept4(sockfd, addr, addrlen, flags);
    if (rc < 0 && xv_errno == EWOULDBLOCK)
        xv_errno = EAGAIN;
    return rc;
}

#ifdef XB_STRLEN_GHOST
/* TRUSTED(libc) strlen(3), the textbook loop (closed by pre-unwinding), result recorded */
size_t xb_strlen_ret;
#undef strlen
size_t xb_strlen(const char *s)
{
    size_t n = 0;
    while (s[n] != 0)
        n++;
    xb_strlen_ret = n;
    return n;
}
#endif

#endif
