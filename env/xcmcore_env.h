/* env/xcmcore_env.h -- TRUSTED environment of unit xcmcore (libxcm/core/xcm.c): the one kernel primitive the API layer
 * calls itself, poll(2).  Include AFTER the real TU.
 *
 * poll is THE sleeping primitive of libxcm (DESIGN C05): the stub sets the ghost xv_blocked iff timeout != 0 -- a call
 * with a non-zero timeout may put the thread to sleep, one with timeout 0 never does.  Nothing else in this unit writes
 * xv_blocked, so "xv_blocked is in no assigns clause of the function under proof" == "the function never sleeps".
 */
#ifndef XV_XCMCORE_ENV_H
#define XV_XCMCORE_ENV_H
#include <poll.h>

/* ghost xv_poll_failed (declared in contracts/xcmcore.h, before the TU): a poll() call has failed; set here, never cleared */

/* TRUSTED(kernel) poll(2): any result the real call can have -- failure with one of the documented errnos (EINTR: a
 * signal arrived while waiting), 0 = timed out (only if a timeout was given), or 1..nfds ready descriptors with
 * arbitrary revents.  errno is untouched on success. */
short nondet_short(void);
int poll(struct pollfd *fds, nfds_t nfds, int timeout)
{
    if (timeout != 0)
        xv_blocked = 1;
    int r = nondet_int();
    if (r < 0) {
        int e = nondet_int();
        __CPROVER_assume(e == EINTR || e == EFAULT || e == EINVAL || e == ENOMEM);
        xv_errno = e;
        xv_poll_failed = 1;
        return -1;
    }
    __CPROVER_assume((nfds_t)r <= nfds);
    __CPROVER_assume(r != 0 || timeout >= 0);
    __CPROVER_assert(nfds <= 1, "poll stub models at most one descriptor");
    if (nfds == 1)
        fds[0].revents = nondet_short();
    return r;
}

#ifdef XC_FOREACH_STUB
/* TRUSTED(xcm_attr_map.c) xcm_attr_map_foreach: calls cb once per entry, in map order, with the entry's (name, type, value,
 * length) and the caller's `user`.  The map is abstract: xv_map_n entries (ANY number), each entry arbitrary; the entry
 * whose write will be write number xv_j (ghost index) is recorded in xv_map_* when the iteration gets there.  The loop
 * carries a loop contract (this file is verification text, so it is written in place): the invariant is what set_attrs needs
 * to know about the callbacks made so far; it is CHECKED (base and step) like any other loop invariant, not assumed. */
const char *nondet_cstr(void);
const void *nondet_cvoidp(void);
#include "contracts/begin.h"   /* no generated pointer checks inside the text of the invariants (as in contract clauses) */
void xcm_attr_map_foreach(const struct xcm_attr_map *attr_map, xcm_attr_map_foreach_cb cb, void *user)
{
    struct set_attr_state *st = user;
    long before = xv_set_calls;         /* writes made before the iteration (the defaults) */
    long i;
    for (i = 0; i < xv_map_n; i++)
    __CPROVER_assigns(i, st->rc, xv_map_name, xv_map_type, xv_map_value, xv_map_len,
                      xv_at_name, xv_at_type, xv_at_value, xv_at_len, xv_at_sock,
                      xv_errno, xv_set_calls, xv_set_failed, xv_set_name, xv_set_type, xv_set_value, xv_set_len, xv_set_sock, xv_set_rv, xv_set_first_name,
                      xv_conn_dead, xv_updated, xv_upd_cond, xv_upd_sock, st->s->is_blocking, st->s->condition; xv_attrs_req_block: xv_blocked)
    __CPROVER_loop_invariant(0 <= i && i <= xv_map_n)
    __CPROVER_loop_invariant(__CPROVER_loop_entry(xv_conn_dead) ==> xv_conn_dead)
    __CPROVER_loop_invariant(st->s == __CPROVER_loop_entry(st->s))
    __CPROVER_loop_invariant(st->rc == 0 ? (!xv_set_failed && xv_set_calls == before + i) : (st->rc == -1 && xv_set_failed && xv_errno > 0))
    __CPROVER_loop_invariant((st->rc == 0 && xv_j >= before && xv_j < before + i) ? (xv_at_name == xv_map_name && xv_at_type == xv_map_type && xv_at_value == xv_map_value && xv_at_len == xv_map_len && xv_at_sock == st->s) : (xv_j < before ==> (xv_at_name == __CPROVER_loop_entry(xv_at_name) && xv_at_type == __CPROVER_loop_entry(xv_at_type) && xv_at_value == __CPROVER_loop_entry(xv_at_value) && xv_at_len == __CPROVER_loop_entry(xv_at_len) && xv_at_sock == __CPROVER_loop_entry(xv_at_sock))))
    {
        const char *name = nondet_cstr(); int type = nondet_int(); const void *value = nondet_cvoidp(); size_t len = nondet_size_t();
        if (before + i == xv_j) { xv_map_name = name; xv_map_type = type; xv_map_value = value; xv_map_len = len; }
        cb(name, (enum xcm_attr_type)type, value, len, user);
    }
}
#include "contracts/end.h"
#endif
#endif
