/* env/xcmcore_env.h -- TRUSTED environment of unit xcmcore (libxcm/core/xcm.c): the one kernel primitive the API layer
 * calls itself, poll(2).  Include AFTER the real TU.
 *
 * poll is THE sleeping primitive of libxcm (DESIGN C05): the stub sets the ghost xv_blocked iff timeout != 0 -- a call
 * with a non-zero timeout may put the thread to sleep, one with timeout 0 never does.  Nothing else in this unit writes
 * xv_blocked, so "xv_blocked is in no assigns clause of the function under proof" == "the function never sleeps".
 */
#ifndef XV_XCMCORE_ENV_H
#define XV_XCMCORE_ENV_H
#include <poll.h>

/* ghost xv_poll_failed (declared in contracts/xcmcore.h, before the TU): a poll() call has failed; set here, never cleared */

/* TRUSTED(kernel) poll(2): any result the real call can have -- failure with one of the documented errnos (EINTR: a
 * signal arrived while waiting), 0 = timed out (only if a timeout was given), or 1..nfds ready descriptors with
 * arbitrary revents.  errno is untouched on success. */
short nondet_short(void);
int poll(struct pollfd *fds, nfds_t nfds, int timeout)
{
    if (timeout != 0)
        xv_blocked = 1;
    int r = nondet_int();
    if (r < 0) {
        int e = nondet_int();
        __CPROVER_assume(e == EINTR || e == EFAULT || e == EINVAL || e == ENOMEM);
        xv_errno = e;
        xv_poll_failed = 1;
        return -1;
    }
    __CPROVER_assume((nfds_t)r <= nfds);
    __CPROVER_assume(r != 0 || timeout >= 0);
    __CPROVER_assert(nfds <= 1, "poll stub models at most one descriptor");
    if (nfds == 1)
        fds[0].revents = nondet_short();
    return r;
}
#endif
