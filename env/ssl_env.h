/* env/ssl_env.h -- TRUSTED model of the part of OpenSSL (3.0 API) that libxcm/tp/tls/xcm_tp_btls.c calls
 * (include AFTER the real TU: the OpenSSL headers the TU includes give the prototypes).
 *
 * OpenSSL is NOT verified.  Each stub returns ANY result the real function may return and records, in ghost state, the
 * arguments it was CONFIGURED or ENTERED with, so that contracts on the real XCM code can say "OpenSSL was told exactly
 * this" and "OpenSSL was (not) entered".  ONE SSL object is modelled (the one of the socket under proof); every stub
 * records the SSL pointer it was called with, contracts compare it with the socket's own.
 *
 * configuration record
 *   xv_ssl_set_verify_calls/_ssl/_mode/_cb   SSL_set_verify(): number of calls, last arguments
 *   xv_x509_flags                            the verification flags of the SSL's X509_VERIFY_PARAM (set_flags ORs into it,
 *                                            exactly as OpenSSL does); xv_x509_set_flags_calls
 *   xv_x509_hostflags, xv_x509_set_hostflags_calls
 *   xv_x509_nhosts                           number of names in the param's host list (set1_host(NULL) empties it,
 *                                            a successful add1_host appends one); xv_x509_host_resets, xv_x509_add_calls
 *   xv_hk (NEVER assigned), xv_x509_host_k   the name pointer that was appended at list position xv_hk
 *   xv_get0_param_calls/_ssl                 whose param object was fetched
 * session record
 *   xv_hs_calls/_ssl/_connect/_ret           SSL_connect/SSL_accept: calls, last SSL, which of the two, result
 *   xv_ssl_hs_done                           some handshake call returned >= 1
 *   xv_ssl_peer_cert, xv_ssl_verify_result   THE VERDICT: what SSL_get1_peer_certificate / SSL_get_verify_result report
 *                                            (arbitrary; (re)chosen by every handshake call; constant afterwards:
 *                                            renegotiation / post-handshake auth are not enabled by XCM)
 *   xv_ssl_err, xv_err_queue                 classification SSL_get_error()/ERR_peek_error() give for the LAST failed
 *                                            I/O call; xv_ssl_last_ret its return value; xv_ssl_close_seen see A5
 *   xv_sw_* / xv_sr_*                        SSL_write / SSL_read: calls, last SSL, buffer, num, result
 *   xv_x509_refs                             certificate references handed out and not yet X509_free()d
 * The plaintext byte stream is the shared ghost stream of prelude.h (xv_tx_off/xv_tx_k/xv_tx_k_set, xv_rx_off/xv_rx_k/
 * xv_rx_eof): SSL_write appends the accepted bytes, SSL_read delivers the next ones.
 *
 * ASSUMPTIONS about OpenSSL made here (all TRUSTED, none proved):
 *  A1 SSL_get_error() after a failed call is one of SSL, WANT_READ, WANT_WRITE, SYSCALL, ZERO_RETURN.  The other codes
 *     (WANT_X509_LOOKUP, WANT_CONNECT/ACCEPT, WANT_ASYNC(_JOB), WANT_CLIENT_HELLO_CB, WANT_RETRY_VERIFY) need a
 *     client-cert/client-hello callback, a connect/accept BIO, SSL_MODE_ASYNC or a retrying verify callback; XCM
 *     installs none of these (verify_cb returns `ok` unchanged; the BIO is the btcp source/sink BIO).
 *  A2 SSL_ERROR_SYSCALL with an empty error queue on a call with num > 0 (or a handshake call) stems from the BIO
 *     callback: errno is then what bio_btcp_read/bio_btcp_write left (0 or the btcp errno) and is not EAGAIN/EWOULDBLOCK,
 *     because those set the BIO retry flag (jobs btls.bio_btcp_read / btls.bio_btcp_write) and are reported as WANT_*.
 *  A3 SSL_write/SSL_read with num < 0 fail with SSL_R_BAD_LENGTH queued (SSL_ERROR_SSL); with num == 0 they move no byte
 *     and return <= 0; a 0 result that is not caused by a received close_notify is classified SSL_ERROR_SYSCALL
 *     (ssl/ssl_lib.c, SSL_get_error(): nothing queued, nothing wanted) with errno 0 (ssl3_read_internal()/ssl3_write()
 *     start with clear_sys_error()).  Observed on the OpenSSL 3.0.20 of this image through libxcm: xcm_receive(conn, buf, 0)
 *     on a healthy btls connection with plaintext pending returns 0 and leaves the connection closed.
 *  A4 SSL_write accepts 1..num bytes (SSL_MODE_ENABLE_PARTIAL_WRITE) or fails.  A write refused with WANT_WRITE may already have
 *     turned the first min(num, 16384) bytes of the buffer into a record that OpenSSL KEEPS (xv_ssl_pending_rec) and sends ahead of whatever
 *     the next SSL_write or SSL_shutdown offers, counting it in that call's result (SSL_MODE_ACCEPT_MOVING_WRITE_BUFFER only relaxes the
 *     pointer check).  Observed natively (seeded/finding-btls-retry): a refused xcm_send(A) followed by xcm_send(B) puts 16384 bytes of A
 *     into the stream in place of the first 16384 bytes of B (DESIGN section 6 F19, section 9.3).
 *  A5 "The peer's close was seen" (xv_ssl_close_seen, for the last failed call) means: close_notify received
 *     (ZERO_RETURN) or the transport under the BIO reported EOF / EPIPE (SYSCALL, empty queue, errno 0 / EPIPE).
 *  A6 The verification verdict (SSL_get_verify_result, a long) is an X509_V_* code, i.e. fits an int: OpenSSL copies it
 *     from X509_STORE_CTX.error (an int); XCM never calls SSL_set_verify_result().  verify_peer_cert() narrows it to int.
 */
#ifndef XV_ENV_SSL_H
#define XV_ENV_SSL_H
#include <openssl/ssl.h>
#include <openssl/err.h>
#include <openssl/x509.h>
#include <openssl/x509v3.h>
#include <openssl/x509_vfy.h>

/* ---- ghost objects standing for OpenSSL's opaque objects */
static char xv_x509_param_obj, xv_x509_obj;
#define XV_PARAM ((X509_VERIFY_PARAM *)&xv_x509_param_obj)
#define XV_X509 ((X509 *)&xv_x509_obj)

/* ---- configuration record */
long xv_ssl_set_verify_calls; const SSL *xv_ssl_set_verify_ssl; int xv_ssl_set_verify_mode; SSL_verify_cb xv_ssl_set_verify_cb;
long xv_get0_param_calls; const SSL *xv_get0_param_ssl;
unsigned long xv_x509_flags; long xv_x509_set_flags_calls;
unsigned int xv_x509_hostflags; long xv_x509_set_hostflags_calls;
long xv_x509_nhosts, xv_x509_host_resets, xv_x509_add_calls;
long xv_hk;                                  /* arbitrary list position: NEVER assigned */
const char *xv_x509_host_k;
long xv_ssl_set_mode_calls; long xv_ssl_mode;

/* ---- session record */
long xv_hs_calls; const SSL *xv_hs_ssl; _Bool xv_hs_connect; int xv_hs_ret;
_Bool xv_ssl_hs_done;
_Bool xv_ssl_peer_cert; long xv_ssl_verify_result;
/* xv_err_drained: OpenSSL's per-THREAD error queue was drained (ERR_get_error loop in log_tls_get_error_stack) */
_Bool xv_err_drained;
int xv_ssl_err; unsigned long xv_err_queue; int xv_ssl_last_ret; _Bool xv_ssl_close_seen;
int xv_ssl_errno;                            /* errno as the last handshake/read/write call left it */
long xv_sw_calls; const SSL *xv_sw_ssl; const void *xv_sw_buf; int xv_sw_num; int xv_sw_ret;
/* bytes of the caller's buffer that a REFUSED SSL_write (WANT_WRITE) has already turned into a record OpenSSL keeps and will send ahead of whatever the
 * next SSL_write / SSL_shutdown offers (A4) */
int xv_ssl_pending_rec;
long xv_sr_calls; const SSL *xv_sr_ssl; const void *xv_sr_buf; int xv_sr_num; int xv_sr_ret;
long xv_x509_refs;
long xv_peer_cert_calls, xv_verify_result_calls, xv_errstr_calls;   /* SSL_get1_peer_certificate / SSL_get_verify_result / X509_verify_cert_error_string */
long xv_pending_calls; long xv_shutdown_calls; long xv_ssl_free_calls; const SSL *xv_ssl_free_ssl;

#define XV_SSL_CALLS_MAX (1L << 40)
#define XV_CNT_LIM(c, lim) ((c) >= 0 && (c) < (lim))
#define XV_SSL_CNT_OK(c) XV_CNT_LIM(c, XV_SSL_CALLS_MAX)
#define XV_SSL_GHOST_LIM(lim) (XV_CNT_LIM(xv_ssl_set_verify_calls, lim) && XV_CNT_LIM(xv_get0_param_calls, lim) && XV_CNT_LIM(xv_x509_set_flags_calls, lim) && \
                            XV_CNT_LIM(xv_x509_set_hostflags_calls, lim) && XV_CNT_LIM(xv_x509_nhosts, lim) && XV_CNT_LIM(xv_x509_host_resets, lim) && \
                            XV_CNT_LIM(xv_x509_add_calls, lim) && XV_CNT_LIM(xv_hs_calls, lim) && XV_CNT_LIM(xv_sw_calls, lim) && XV_CNT_LIM(xv_sr_calls, lim) && \
                            XV_CNT_LIM(xv_x509_refs, lim) && XV_CNT_LIM(xv_pending_calls, lim) && XV_CNT_LIM(xv_shutdown_calls, lim) && \
                            XV_CNT_LIM(xv_ssl_free_calls, lim) && XV_CNT_LIM(xv_ssl_set_mode_calls, lim) && \
                            XV_CNT_LIM(xv_peer_cert_calls, lim) && XV_CNT_LIM(xv_verify_result_calls, lim) && XV_CNT_LIM(xv_errstr_calls, lim))
/* call counters are < 2^40 on entry of a public operation; helper functions called in mid-operation (and used as contracts
 * there) accept the slack an operation can add */
#define XV_SSL_GHOST_RANGE XV_SSL_GHOST_LIM(XV_SSL_CALLS_MAX)
#define XV_SSL_GHOST_RANGE_IN XV_SSL_GHOST_LIM(4 * XV_SSL_CALLS_MAX)

#define XV_SSL_CONF_ASSIGNS xv_ssl_set_verify_calls, xv_ssl_set_verify_ssl, xv_ssl_set_verify_mode, xv_ssl_set_verify_cb, \
                            xv_get0_param_calls, xv_get0_param_ssl, xv_x509_flags, xv_x509_set_flags_calls
#define XV_SSL_HOST_ASSIGNS xv_get0_param_calls, xv_get0_param_ssl, xv_x509_hostflags, xv_x509_set_hostflags_calls, \
                            xv_x509_nhosts, xv_x509_host_resets, xv_x509_add_calls, xv_x509_host_k
#define XV_SSL_ERR_ASSIGNS xv_ssl_err, xv_err_queue, xv_ssl_last_ret, xv_ssl_close_seen, xv_ssl_errno, xv_err_drained
#define XV_SSL_VERDICT_ASSIGNS xv_x509_refs, xv_peer_cert_calls, xv_verify_result_calls, xv_errstr_calls
#define XV_SSL_HS_ASSIGNS xv_hs_calls, xv_hs_ssl, xv_hs_connect, xv_hs_ret, xv_ssl_hs_done, xv_ssl_peer_cert, xv_ssl_verify_result, XV_SSL_ERR_ASSIGNS
#define XV_SSL_WRITE_ASSIGNS xv_sw_calls, xv_sw_ssl, xv_sw_buf, xv_sw_num, xv_sw_ret, xv_ssl_pending_rec, XV_SSL_ERR_ASSIGNS
#define XV_SSL_READ_ASSIGNS xv_sr_calls, xv_sr_ssl, xv_sr_buf, xv_sr_num, xv_sr_ret, XV_SSL_ERR_ASSIGNS

/* every btls harness calls this after xv_ghost_havoc() */
static inline void xv_ssl_havoc(void)
{
    xv_ssl_set_verify_calls = nondet_long(); xv_ssl_set_verify_ssl = (const SSL *)nondet_size_t(); xv_ssl_set_verify_mode = nondet_int();
    xv_ssl_set_verify_cb = 0;
    xv_get0_param_calls = nondet_long(); xv_get0_param_ssl = (const SSL *)nondet_size_t();
    xv_x509_flags = (unsigned long)nondet_size_t(); xv_x509_set_flags_calls = nondet_long();
    xv_x509_hostflags = nondet_uint(); xv_x509_set_hostflags_calls = nondet_long();
    xv_x509_nhosts = nondet_long(); xv_x509_host_resets = nondet_long(); xv_x509_add_calls = nondet_long();
    xv_hk = nondet_long(); xv_x509_host_k = (const char *)nondet_size_t();
    xv_ssl_set_mode_calls = nondet_long(); xv_ssl_mode = nondet_long();
    xv_hs_calls = nondet_long(); xv_hs_ssl = (const SSL *)nondet_size_t(); xv_hs_connect = nondet_bool(); xv_hs_ret = nondet_int();
    xv_ssl_hs_done = nondet_bool(); xv_ssl_peer_cert = nondet_bool(); xv_ssl_verify_result = nondet_int();
    xv_err_drained = 0;
    xv_ssl_err = nondet_int(); xv_err_queue = (unsigned long)nondet_size_t(); xv_ssl_last_ret = nondet_int(); xv_ssl_close_seen = nondet_bool(); xv_ssl_errno = nondet_int();
    xv_sw_calls = nondet_long(); xv_sw_ssl = (const SSL *)nondet_size_t(); xv_sw_buf = (const void *)nondet_size_t(); xv_sw_num = nondet_int(); xv_sw_ret = nondet_int(); xv_ssl_pending_rec = nondet_int();
    xv_sr_calls = nondet_long(); xv_sr_ssl = (const SSL *)nondet_size_t(); xv_sr_buf = (const void *)nondet_size_t(); xv_sr_num = nondet_int(); xv_sr_ret = nondet_int();
    xv_x509_refs = nondet_long(); xv_peer_cert_calls = nondet_long(); xv_verify_result_calls = nondet_long(); xv_errstr_calls = nondet_long();
    xv_pending_calls = nondet_long(); xv_shutdown_calls = nondet_long(); xv_ssl_free_calls = nondet_long(); xv_ssl_free_ssl = (const SSL *)nondet_size_t();
}

/* ================================================================================================================ */
/* configuration                                                                                                     */
/* ================================================================================================================ */
/* TRUSTED(OpenSSL) SSL_set_verify: records mode and callback; cannot fail */
void SSL_set_verify(SSL *s, int mode, SSL_verify_cb callback)
{
    xv_ssl_set_verify_calls++;
    xv_ssl_set_verify_ssl = s; xv_ssl_set_verify_mode = mode; xv_ssl_set_verify_cb = callback;
}
/* TRUSTED(OpenSSL) SSL_get0_param: the SSL's own verification parameter object (never NULL) */
X509_VERIFY_PARAM *SSL_get0_param(SSL *ssl)
{
    xv_get0_param_calls++;
    xv_get0_param_ssl = ssl;
    return XV_PARAM;
}
/* TRUSTED(OpenSSL) X509_VERIFY_PARAM_get_flags: the current flags */
unsigned long X509_VERIFY_PARAM_get_flags(const X509_VERIFY_PARAM *param)
{
    __CPROVER_assert(param == XV_PARAM, "X509_VERIFY_PARAM_get_flags: the SSL's parameter object");
    return xv_x509_flags;
}
/* TRUSTED(OpenSSL) X509_VERIFY_PARAM_set_flags: ORs the flags in (crypto/x509/x509_vpm.c: param->flags |= flags), returns 1 */
int X509_VERIFY_PARAM_set_flags(X509_VERIFY_PARAM *param, unsigned long flags)
{
    __CPROVER_assert(param == XV_PARAM, "X509_VERIFY_PARAM_set_flags: the SSL's parameter object");
    xv_x509_set_flags_calls++;
    xv_x509_flags |= flags;
    return 1;
}
/* TRUSTED(OpenSSL) X509_VERIFY_PARAM_set_hostflags: replaces the host flags */
void X509_VERIFY_PARAM_set_hostflags(X509_VERIFY_PARAM *param, unsigned int flags)
{
    __CPROVER_assert(param == XV_PARAM, "X509_VERIFY_PARAM_set_hostflags: the SSL's parameter object");
    xv_x509_set_hostflags_calls++;
    xv_x509_hostflags = flags;
}
/* TRUSTED(OpenSSL) X509_VERIFY_PARAM_set1_host: empties the list of expected names, then adds `name` unless NULL/empty */
int X509_VERIFY_PARAM_set1_host(X509_VERIFY_PARAM *param, const char *name, size_t namelen)
{
    __CPROVER_assert(param == XV_PARAM, "X509_VERIFY_PARAM_set1_host: the SSL's parameter object");
    xv_x509_host_resets++;
    xv_x509_nhosts = 0;
    if (name == NULL)
        return 1;
    if (nondet_bool())
        return 0;
    if (xv_hk == 0) xv_x509_host_k = name;
    xv_x509_nhosts = 1;
    return 1;
}
/* TRUSTED(OpenSSL) X509_VERIFY_PARAM_add1_host: appends `name` to the list of expected names, or fails (0: empty name,
 * embedded NUL, out of memory) leaving the list alone */
int X509_VERIFY_PARAM_add1_host(X509_VERIFY_PARAM *param, const char *name, size_t namelen)
{
    __CPROVER_assert(param == XV_PARAM, "X509_VERIFY_PARAM_add1_host: the SSL's parameter object");
    __CPROVER_assert(name != NULL, "X509_VERIFY_PARAM_add1_host: name given");
    xv_x509_add_calls++;
    if (nondet_bool())
        return 0;
    if (xv_x509_nhosts == xv_hk) xv_x509_host_k = name;
    xv_x509_nhosts++;
    return 1;
}
/* TRUSTED(OpenSSL) SSL_set_mode == SSL_ctrl(SSL_CTRL_MODE): ORs the mode bits in, returns the new mode */
long SSL_ctrl(SSL *ssl, int cmd, long larg, void *parg)
{
    __CPROVER_assert(cmd == SSL_CTRL_MODE, "SSL_ctrl: only SSL_set_mode is modelled");
    xv_ssl_set_mode_calls++;
    xv_ssl_mode |= larg;
    return xv_ssl_mode;
}

/* ================================================================================================================ */
/* session                                                                                                           */
/* ================================================================================================================ */
/* classification of a failed I/O or handshake call (A1, A2, A5); `via_bio`: the failure, if SYSCALL, came through the BIO */
static void xv_ssl_fail(int ret, _Bool via_bio)
{
    int e = nondet_int();
    __CPROVER_assume(e == SSL_ERROR_SSL || e == SSL_ERROR_WANT_READ || e == SSL_ERROR_WANT_WRITE || e == SSL_ERROR_SYSCALL || e == SSL_ERROR_ZERO_RETURN);
    unsigned long q = (unsigned long)nondet_size_t();
    if (e == SSL_ERROR_SSL)
        __CPROVER_assume(q != 0);
    int en = nondet_int();
    __CPROVER_assume(en >= 0);
    if (e == SSL_ERROR_SYSCALL && q == 0 && via_bio)
        __CPROVER_assume(en != EAGAIN && en != EWOULDBLOCK);
    xv_errno = en; xv_ssl_errno = en;
    xv_ssl_err = e; xv_err_queue = q; xv_ssl_last_ret = ret;
    /* the peer's close was seen: close_notify, or EOF/EPIPE from the transport underneath */
    xv_ssl_close_seen = (e == SSL_ERROR_ZERO_RETURN || (e == SSL_ERROR_SYSCALL && q == 0 && via_bio && (en == 0 || en == EPIPE)));
}
static int xv_ssl_handshake(SSL *ssl, _Bool is_connect)
{
    __CPROVER_assert(xv_ssl_set_verify_calls >= 1 && xv_ssl_set_verify_ssl == ssl, "TLS handshake entered only after SSL_set_verify() on this SSL");
    xv_hs_calls++;
    xv_hs_ssl = ssl; xv_hs_connect = is_connect;
    xv_ssl_peer_cert = nondet_bool(); xv_ssl_verify_result = nondet_int();   /* A6 */
    int r = nondet_int();
    __CPROVER_assume(r >= -1 && r <= 1);
    xv_hs_ret = r;
    if (r >= 1) {
        xv_ssl_hs_done = 1;
        int en = nondet_int(); __CPROVER_assume(en >= 0); xv_errno = en; xv_ssl_errno = en;
    } else
        xv_ssl_fail(r, 1);
    return r;
}
/* TRUSTED(OpenSSL) SSL_connect: client handshake step: 1 done, <= 0 see SSL_get_error; errno arbitrary */
int SSL_connect(SSL *ssl) { return xv_ssl_handshake(ssl, 1); }
/* TRUSTED(OpenSSL) SSL_accept: server handshake step */
int SSL_accept(SSL *ssl) { return xv_ssl_handshake(ssl, 0); }

/* TRUSTED(OpenSSL) SSL_get_error: the classification of the last failed call (must be asked with that call's result) */
int SSL_get_error(const SSL *s, int ret_code)
{
    __CPROVER_assert(ret_code == xv_ssl_last_ret && ret_code <= 0, "SSL_get_error: asked about the result of the last failed call");
    return xv_ssl_err;
}
/* TRUSTED(OpenSSL) ERR_peek_error: head of the thread's error queue after the last failed call */
unsigned long ERR_peek_error(void) { return xv_err_queue; }

/* TRUSTED(OpenSSL) SSL_get1_peer_certificate: the peer's certificate (a new reference) or NULL */
X509 *SSL_get1_peer_certificate(const SSL *s)
{
    xv_peer_cert_calls++;
    if (!xv_ssl_peer_cert)
        return NULL;
    xv_x509_refs++;
    return XV_X509;
}
/* TRUSTED(OpenSSL) SSL_get_verify_result: the verdict of certificate verification */
long SSL_get_verify_result(const SSL *ssl) { xv_verify_result_calls++; return xv_ssl_verify_result; }
/* TRUSTED(OpenSSL) X509_free: drops a reference */
void X509_free(X509 *a)
{
    if (a == NULL)
        return;
    __CPROVER_assert(a == XV_X509 && xv_x509_refs > 0, "X509_free: a reference obtained from SSL_get1_peer_certificate");
    xv_x509_refs--;
}
/* TRUSTED(OpenSSL) X509_verify_cert_error_string: some static text */
const char *X509_verify_cert_error_string(long n) { xv_errstr_calls++; return "verification error"; }

/* TRUSTED(OpenSSL) SSL_write (A3, A4): accepts the first r bytes (1 <= r <= num) of buf into the plaintext stream, or fails */
int SSL_write(SSL *ssl, const void *buf, int num)
{
    __CPROVER_assert(num <= 0 || __CPROVER_r_ok(buf, (size_t)num), "SSL_write: buffer readable for num bytes");
    xv_sw_calls++;
    xv_sw_ssl = ssl; xv_sw_buf = buf; xv_sw_num = num;
    int r = nondet_int();
    if (num < 0) {
        /* ssl/ssl_lib.c: SSL_write(): ERR_raise(SSL_R_BAD_LENGTH); return -1 */
        r = -1;
        int en = nondet_int(); __CPROVER_assume(en >= 0); xv_errno = en; xv_ssl_errno = en;
        xv_ssl_err = SSL_ERROR_SSL; xv_err_queue = 1; xv_ssl_last_ret = r; xv_ssl_close_seen = 0;
    } else if (num > 0 && r >= 1) {
        __CPROVER_assume(r <= num);
        if (xv_k >= xv_tx_off && xv_k < xv_tx_off + r) {
            xv_tx_k = ((const uint8_t *)buf)[xv_k - xv_tx_off];
            xv_tx_k_set = 1;
        }
        xv_tx_off += r;
        int en = nondet_int(); __CPROVER_assume(en >= 0); xv_errno = en; xv_ssl_errno = en;
    } else {
        r = nondet_bool() ? 0 : -1;
        if (num == 0 && nondet_bool()) {
            /* nothing to write: 0, no error queued, nothing wanted: SSL_get_error() says SYSCALL, errno cleared (A3) */
            r = 0;
            xv_errno = 0; xv_ssl_errno = 0;
            xv_ssl_err = SSL_ERROR_SYSCALL; xv_err_queue = 0; xv_ssl_last_ret = r; xv_ssl_close_seen = 0;
        } else {
            xv_ssl_fail(r, 1);
            if (num > 0 && r < 0 && xv_ssl_err == SSL_ERROR_WANT_WRITE) {      /* A4: a record may have been built and kept */
                int kept = nondet_int();
                __CPROVER_assume(kept >= 0 && kept <= num && kept <= 16384);
                xv_ssl_pending_rec = kept;
            }
        }
    }
    xv_sw_ret = r;
    return r;
}
/* TRUSTED(OpenSSL) SSL_read (A3): delivers the next r plaintext bytes (1 <= r <= num), or fails; a received close_notify
 * (ZERO_RETURN) or a transport EOF/EPIPE (SYSCALL with errno 0/EPIPE, through the BIO) is the end of the stream */
int SSL_read(SSL *ssl, void *buf, int num)
{
    __CPROVER_assert(num <= 0 || __CPROVER_w_ok(buf, (size_t)num), "SSL_read: buffer writeable for num bytes");
    xv_sr_calls++;
    xv_sr_ssl = ssl; xv_sr_buf = buf; xv_sr_num = num;
    int r = nondet_int();
    if (num < 0) {
        r = -1;
        int en = nondet_int(); __CPROVER_assume(en >= 0); xv_errno = en; xv_ssl_errno = en;
        xv_ssl_err = SSL_ERROR_SSL; xv_err_queue = 1; xv_ssl_last_ret = r; xv_ssl_close_seen = 0;
    } else if (num > 0 && r >= 1) {
        /* A7: one SSL_read delivers at most one TLS record's plaintext (16384 bytes) */
        __CPROVER_assume(r <= num && r <= 16384);
        __CPROVER_assume(!xv_rx_eof);
        __CPROVER_havoc_slice(buf, (size_t)r);
        if (xv_k >= xv_rx_off && xv_k < xv_rx_off + r)
            ((uint8_t *)buf)[xv_k - xv_rx_off] = xv_rx_k;
        xv_rx_off += r;
        int en = nondet_int(); __CPROVER_assume(en >= 0); xv_errno = en; xv_ssl_errno = en;
    } else {
        r = nondet_bool() ? 0 : -1;
        if (num == 0 && nondet_bool()) {
            /* ssl3_read_bytes(): `if (len == 0) return 0` once a record is there: 0 bytes "read", no error queued, nothing
             * wanted: SSL_get_error() says SYSCALL; the BIO may not have been entered: errno is 0 (cleared on entry) (A3) */
            r = 0;
            xv_errno = 0; xv_ssl_errno = 0;
            xv_ssl_err = SSL_ERROR_SYSCALL; xv_err_queue = 0; xv_ssl_last_ret = r; xv_ssl_close_seen = 0;
        } else {
            xv_ssl_fail(r, 1);
            if (xv_ssl_close_seen)
                xv_rx_eof = 1;
        }
    }
    xv_sr_ret = r;
    return r;
}
/* TRUSTED(OpenSSL) SSL_has_pending: whether decrypted or undecrypted data is buffered inside the SSL */
int SSL_has_pending(const SSL *s) { xv_pending_calls++; return nondet_bool() ? 1 : 0; }
/* TRUSTED(OpenSSL) SSL_shutdown: sends close_notify (may touch the BIO); result ignored by XCM */
int SSL_shutdown(SSL *s)
{
    xv_shutdown_calls++;
    int en = nondet_int(); __CPROVER_assume(en >= 0); xv_errno = en; xv_ssl_errno = en;
    int r = nondet_int(); __CPROVER_assume(r >= -1 && r <= 1);
    return r;
}
/* TRUSTED(OpenSSL) SSL_free: releases the SSL (NULL is a no-op) */
void SSL_free(SSL *ssl) { xv_ssl_free_calls++; xv_ssl_free_ssl = ssl; }

/* ================================================================================================================ */
/* the BIO handed to bio_btcp_read/bio_btcp_write: data pointer and flags                                            */
/* ================================================================================================================ */
void *xv_bio_data; int xv_bio_flags;
static inline void xv_bio_havoc(void) { xv_bio_data = (void *)nondet_size_t(); xv_bio_flags = nondet_int(); }
/* TRUSTED(OpenSSL) BIO_get_data/BIO_set_data/BIO_set_flags/BIO_clear_flags/BIO_test_flags: plain accessors (crypto/bio/bio_lib.c) */
void *BIO_get_data(BIO *a) { return xv_bio_data; }
void BIO_set_data(BIO *a, void *ptr) { xv_bio_data = ptr; }
void BIO_set_flags(BIO *b, int flags) { xv_bio_flags |= flags; }
void BIO_clear_flags(BIO *b, int flags) { xv_bio_flags &= ~flags; }
int BIO_test_flags(const BIO *b, int flags) { return xv_bio_flags & flags; }

/* ================================================================================================================ */
/* object creation                                                                                                   */
/* ================================================================================================================ */
static char xv_ssl_obj, xv_bio_obj, xv_ctx_obj;
#define XV_SSL ((SSL *)&xv_ssl_obj)
#define XV_BIO ((BIO *)&xv_bio_obj)
#define XV_CTX ((SSL_CTX *)&xv_ctx_obj)
long xv_ssl_new_calls; const SSL_CTX *xv_ssl_new_ctx; unsigned long xv_x509_flags0;
long xv_bio_new_calls, xv_set_bio_calls; const SSL *xv_set_bio_ssl; const BIO *xv_set_bio_r, *xv_set_bio_w;
#define XV_SSL_NEW_ASSIGNS xv_ssl_new_calls, xv_ssl_new_ctx, xv_x509_flags0, xv_bio_new_calls, xv_set_bio_calls, xv_set_bio_ssl, xv_set_bio_r, xv_set_bio_w, \
                           xv_ssl_set_mode_calls, xv_ssl_mode, xv_bio_data, xv_bio_flags
static inline void xv_ssl_new_havoc(void)
{
    xv_ssl_new_calls = nondet_long(); xv_ssl_new_ctx = (const SSL_CTX *)nondet_size_t(); xv_x509_flags0 = nondet_size_t();
    xv_bio_new_calls = nondet_long(); xv_set_bio_calls = nondet_long(); xv_set_bio_ssl = (const SSL *)nondet_size_t();
    xv_set_bio_r = xv_set_bio_w = (const BIO *)nondet_size_t();
}
/* TRUSTED(OpenSSL) SSL_new: NULL, or THE SSL object in its pristine state: no verify mode/callback set on it, verification flags
 * those of its SSL_CTX (arbitrary: xv_x509_flags0), no expected host names, no handshake done, mode bits of the context */
SSL *SSL_new(SSL_CTX *ctx)
{
    __CPROVER_assert(ctx != NULL, "SSL_new: context given");
    xv_ssl_new_calls++; xv_ssl_new_ctx = ctx;
    if (nondet_bool())
        return NULL;
    xv_ssl_set_verify_calls = 0; xv_ssl_set_verify_ssl = NULL; xv_ssl_set_verify_mode = nondet_int(); xv_ssl_set_verify_cb = 0;
    xv_x509_flags0 = nondet_size_t(); xv_x509_flags = xv_x509_flags0; xv_x509_set_flags_calls = 0;
    xv_x509_hostflags = 0; xv_x509_set_hostflags_calls = 0; xv_x509_nhosts = 0; xv_x509_host_resets = 0; xv_x509_add_calls = 0;
    xv_hs_calls = 0; xv_ssl_hs_done = 0; xv_sw_calls = 0; xv_sr_calls = 0;
    xv_ssl_mode = nondet_long(); xv_ssl_set_mode_calls = 0;
    return XV_SSL;
}
/* TRUSTED(OpenSSL) BIO_new: NULL or a new BIO of the given method (bio_btcp_new initialises data NULL, flags 0) */
BIO *BIO_new(const BIO_METHOD *type)
{
    xv_bio_new_calls++;
    if (nondet_bool())
        return NULL;
    xv_bio_data = NULL; xv_bio_flags = 0;
    return XV_BIO;
}
/* TRUSTED(OpenSSL) SSL_set_bio: connects the SSL to its read and write BIO */
void SSL_set_bio(SSL *s, BIO *rbio, BIO *wbio)
{
    xv_set_bio_calls++; xv_set_bio_ssl = s; xv_set_bio_r = rbio; xv_set_bio_w = wbio;
}

#endif
