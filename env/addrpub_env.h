/* env/addrpub_env.h -- TRUSTED models of the libc functions libxcm/core/xcm_addr.c and libxcm/tp/dns/xcm_dns.c call
 * (unit addrpub, C12).  Included BEFORE the real TU (the string functions reach the models through the macros at the
 * end of this file; the harness header #undefs them after the TU).
 *
 * THE INPUT STRING.  Every job of this unit that reads a string has exactly one: an object of exactly xv_in_len + 1
 * bytes (so that reading past the NUL is an out-of-bounds read) whose NUL sits at offset xv_in_len.  "No NUL before it"
 * is stated for ONE arbitrary position, the never-assigned ghost xv_j, i.e. proved for every position.  The models below
 * return lengths computed from the ghost length after ASSERTING what justifies the value (NUL at the ghost length, no
 * NUL at position xv_j before it nor at the first three positions, pointer inside the string): a string function applied to anything but a suffix of
 * the input string is a failed obligation, not an unsound answer.  Positions are offsets in the input object.
 */
#ifndef XV_ADDRPUB_ENV_H
#define XV_ADDRPUB_ENV_H
#include <ctype.h>
#include <regex.h>
#include <arpa/inet.h>
#include <netinet/in.h>

size_t xv_in_len;                        /* ghost: length of the input string (never assigned after the harness set-up) */
char nondet_char(void);
#define XV_S_OFF(s) ((size_t)__CPROVER_POINTER_OFFSET(s))
#define XV_J_IN(lo, hi) (xv_j >= 0 && (size_t)xv_j >= (lo) && (size_t)xv_j < (hi))

/* TRUSTED(libc) strlen(3) for suffixes of the input string */
size_t xv_strlen(const char *s)
{
    size_t off = XV_S_OFF(s);
    __CPROVER_assert(off <= xv_in_len, "string model: the pointer lies inside the input string (at or before its NUL)");
    __CPROVER_assert(s[xv_in_len - off] == 0, "string model: NUL at the ghost length");
    __CPROVER_assert(!XV_J_IN(off, xv_in_len) || s[(size_t)xv_j - off] != 0, "string model: no NUL before the ghost length (arbitrary position)");
    if (off == 0)   /* (a proper suffix has been measured as part of the whole string before) */
        __CPROVER_assert((0 >= xv_in_len || s[0] != 0) && (1 >= xv_in_len || s[1] != 0) && (2 >= xv_in_len || s[2] != 0), "string model: no NUL before the ghost length (first three positions)");
    return xv_in_len - off;
}

/* TRUSTED(libc) strchr(3), c != 0, for suffixes of the input string.  Result: NULL, or the position p (ghost
 * xv_chr_pos, offset in the input object) with s[p] == c; "no c before p" / "no c at all" is ASSUMED for the arbitrary
 * position xv_j only -- every answer of the real strchr satisfies that for every xv_j, so the real behaviour is among
 * the modelled ones whatever xv_j is (the model has more behaviours, never fewer). */
int xv_chr_calls; _Bool xv_chr_found; size_t xv_chr_pos;
char *xv_strchr(const char *s, int c)
{
    size_t off = XV_S_OFF(s);
    (void)xv_strlen(s);
    __CPROVER_assert(c != 0, "strchr model: not used to look for the NUL");
    xv_chr_calls++;
    if (nondet_bool()) {
        __CPROVER_assume(!XV_J_IN(off, xv_in_len) || s[(size_t)xv_j - off] != (char)c);
        xv_chr_found = 0;
        return NULL;
    }
    size_t p = nondet_size_t();
    __CPROVER_assume(p >= off && p < xv_in_len && s[p - off] == (char)c);
    __CPROVER_assume(!XV_J_IN(off, p) || s[(size_t)xv_j - off] != (char)c);
    xv_chr_found = 1; xv_chr_pos = p;
    return (char *)s + (p - off);
}

/* TRUSTED(libc) strncpy(3) with n <= strlen(src) (no padding, no NUL appended; anything else is a failed obligation):
 * n bytes of dst become arbitrary except the first three and the copy of the source byte at the arbitrary position xv_j
 * (an offset in the INPUT object, like everywhere in this file), if that lies in the copied range (over-approximation of
 * the exact copy).
 * Ghost xv_ncpy_len: the n of the last call. */
size_t xv_ncpy_len;
char *xv_strncpy(char *dst, const char *src, size_t n)
{
    size_t off = XV_S_OFF(src);
    size_t len = xv_strlen(src);
    __CPROVER_assert(n <= len, "strncpy model: only used with n <= strlen(src)");
    if (n > 0) {
        __CPROVER_assert(__CPROVER_w_ok(dst, n), "strncpy: destination has room for n bytes");
        _Bool jin = XV_J_IN(off, off + n);
        char keep = jin ? src[(size_t)xv_j - off] : 0, k0 = src[0], k1 = n > 1 ? src[1] : 0, k2 = n > 2 ? src[2] : 0;
        __CPROVER_havoc_slice(dst, n);
        dst[0] = k0; if (n > 1) dst[1] = k1; if (n > 2) dst[2] = k2;
        if (jin) dst[(size_t)xv_j - off] = keep;
    }
    xv_ncpy_len = n;
    return dst;
}

/* TRUSTED(libc) strcpy(3) of a suffix of the input string: needs room for the string and its NUL (an obligation); the
 * destination becomes arbitrary except for the NUL, the first three bytes and the copy of the source byte at the
 * arbitrary position xv_j.
 * Ghost xv_cpy_len: the length of the string the last call copied. */
size_t xv_cpy_len;
char *xv_strcpy(char *dst, const char *src)
{
    size_t off = XV_S_OFF(src);
    size_t n = xv_strlen(src);
    __CPROVER_assert(__CPROVER_w_ok(dst, n + 1), "strcpy: destination has room for the string and its NUL");
    _Bool jin = XV_J_IN(off, xv_in_len);
    char keep = jin ? src[(size_t)xv_j - off] : 0, k0 = src[0], k1 = n > 1 ? src[1] : 0, k2 = n > 2 ? src[2] : 0;
    __CPROVER_havoc_slice(dst, n + 1);
    dst[0] = k0; if (n > 1) dst[1] = k1; if (n > 2) dst[2] = k2;
    dst[n] = 0;
    if (jin) dst[(size_t)xv_j - off] = keep;
    xv_cpy_len = n;
    return dst;
}

/* TRUSTED(libc) <ctype.h>: glibc's isspace(c) is ((*__ctype_b_loc())[(int)(c)] & _ISspace), a table indexed -128..255.
 * For the 128 ASCII codes the _ISspace bit is the C/POSIX one (\t \n \v \f \r and the blank; no locale changes it); for
 * the codes 128..255 -- which a plain `char` argument reaches as -128..-1 -- it depends on the locale of the
 * application: ARBITRARY.  Every other bit of the table is arbitrary too.  (goto-instrument --dfcc makes every object of
 * static storage duration nondeterministic, initialisers included: the table is therefore set up by executed code,
 * xv_addrpub_env_havoc() below, which every harness of the unit calls first.) */
unsigned short xv_ctype_tab[384];
const unsigned short *xv_ctype_p;
const unsigned short **__ctype_b_loc(void) { return &xv_ctype_p; }
/* the specification's "is white space": what the table says */
#define XV_ISSPACE(c) ((xv_ctype_tab[128 + (int)(c)] & _ISspace) != 0)

/* TRUSTED(libc) inet_pton(3): textual IP syntax is glibc's.  Verdict 0/1 arbitrary; on 1 the address bytes (4 or 16) are
 * arbitrary.  Ghost record of the (single) call: family, verdict, the bytes produced, and the bytes of the source string at
 * the arbitrary position xv_j and at xv_j - 1 (0 if outside the source object).  Reached from the TU through the rename at the end of this
 * file; env/base.h's unrecorded inet_pton stays for everybody else. */
int xv_pton_calls, xv_pton_af, xv_pton_ret; char xv_pton_c, xv_pton_c1; uint8_t xv_pton_out[16];
int xv_inet_pton(int af, const char *src, void *dst)
{
    size_t room = __CPROVER_OBJECT_SIZE(src) - XV_S_OFF(src);
    xv_pton_calls++; xv_pton_af = af;
    xv_pton_c = (xv_j >= 0 && (size_t)xv_j < room) ? src[xv_j] : 0;
    xv_pton_c1 = (xv_j >= 1 && (size_t)xv_j - 1 < room) ? src[xv_j - 1] : 0;
    if (af != AF_INET && af != AF_INET6) { xv_errno = EAFNOSUPPORT; xv_pton_ret = -1; return -1; }
    if (nondet_bool()) { xv_pton_ret = 0; return 0; }
    uint8_t *d = dst;
    if (af == AF_INET6) __CPROVER_havoc_slice(dst, 16); else __CPROVER_havoc_slice(dst, 4);   /* (one call with a conditional size crashes cbmc 6.11's trace printer) */
    xv_pton_out[0] = d[0]; xv_pton_out[1] = d[1]; xv_pton_out[2] = d[2]; xv_pton_out[3] = d[3];
    if (af == AF_INET6) {
        xv_pton_out[4] = d[4]; xv_pton_out[5] = d[5]; xv_pton_out[6] = d[6]; xv_pton_out[7] = d[7];
        xv_pton_out[8] = d[8]; xv_pton_out[9] = d[9]; xv_pton_out[10] = d[10]; xv_pton_out[11] = d[11];
        xv_pton_out[12] = d[12]; xv_pton_out[13] = d[13]; xv_pton_out[14] = d[14]; xv_pton_out[15] = d[15];
    }
    xv_pton_ret = 1;
    return 1;
}
/* TRUSTED(libc) the IPv6 wildcard address :: */
const struct in6_addr in6addr_any;

/* TRUSTED(libc) POSIX regex, as used by xcm_dns_is_valid_name(): regcomp of the constant, valid pattern succeeds
 * (failure = out of memory, on which XCM aborts by design, like ut_malloc); regexec gives ANY verdict (match / no match;
 * REG_ESPACE = out of memory likewise excluded) and is recorded: number of calls, verdict, whether it was given the input
 * string itself; regfree does nothing observable. */
int xv_regexec_calls, xv_regexec_ret; _Bool xv_regexec_on_input;
int regcomp(regex_t *preg, const char *regex, int cflags) { return 0; }
int regexec(const regex_t *preg, const char *string, size_t nmatch, regmatch_t pmatch[], int eflags)
{
    xv_regexec_calls++;
    xv_regexec_on_input = XV_S_OFF(string) == 0 && __CPROVER_OBJECT_SIZE(string) == xv_in_len + 1;
    if (nondet_bool()) { xv_regexec_ret = REG_NOMATCH; return REG_NOMATCH; }
    if (nmatch > 0) { pmatch[0].rm_so = nondet_int(); pmatch[0].rm_eo = nondet_int(); }
    xv_regexec_ret = 0;
    return 0;
}
void regfree(regex_t *preg) { }

/* the unit's ghost state is ARBITRARY at the start of every harness (called right after xv_ghost_havoc()) */
static inline void xv_addrpub_env_havoc(void)
{
    xv_in_len = nondet_size_t();
    xv_chr_calls = nondet_int(); xv_chr_found = nondet_bool(); xv_chr_pos = nondet_size_t();
    xv_ncpy_len = nondet_size_t(); xv_cpy_len = nondet_size_t();
    xv_pton_calls = nondet_int(); xv_pton_af = nondet_int(); xv_pton_ret = nondet_int(); xv_pton_c = nondet_char(); xv_pton_c1 = nondet_char();
    __CPROVER_havoc_slice(xv_pton_out, sizeof(xv_pton_out));
    xv_regexec_calls = nondet_int(); xv_regexec_ret = nondet_int(); xv_regexec_on_input = nondet_bool();
    /* <ctype.h> table: arbitrary, except the _ISspace bit of the 128 ASCII codes */
    __CPROVER_havoc_slice(xv_ctype_tab, sizeof(xv_ctype_tab));
    xv_ctype_p = xv_ctype_tab + 128;
#define XV_CT1(c) xv_ctype_tab[128 + (c)] = (unsigned short)((xv_ctype_tab[128 + (c)] & ~(unsigned)_ISspace) | (((c) == 32 || ((c) >= 9 && (c) <= 13)) ? (unsigned)_ISspace : 0u));
#define XV_CT8(c) XV_CT1(c) XV_CT1((c) + 1) XV_CT1((c) + 2) XV_CT1((c) + 3) XV_CT1((c) + 4) XV_CT1((c) + 5) XV_CT1((c) + 6) XV_CT1((c) + 7)
#define XV_CT32(c) XV_CT8(c) XV_CT8((c) + 8) XV_CT8((c) + 16) XV_CT8((c) + 24)
    XV_CT32(0) XV_CT32(32) XV_CT32(64) XV_CT32(96)
    /* the IPv6 wildcard address is all zero */
    { struct in6_addr z_ = { { { 0 } } }; *(struct in6_addr *)&in6addr_any = z_; }
}

#define strlen(s) xv_strlen(s)
#define strchr(s, c) xv_strchr((s), (c))
#define strncpy(d, s, n) xv_strncpy((d), (s), (n))
#define strcpy(d, s) xv_strcpy((d), (s))
#define inet_pton xv_inet_pton
#endif
