/* env/libc_fmt.h -- TRUSTED models of snprintf(3) and strtol(3) (include AFTER the real TU).
 *
 * snprintf: the would-be length is ANY n in 0..XV_FMT_MAX (the formatted text is not modelled); at most `size` bytes
 *   are written, NUL-terminated when size > 0; ghost xv_snprintf_ret/xv_snprintf_cap record the last call.  Writes go
 *   through the assigns clause of the function under proof, so writing past the caller's capacity is an obligation.
 * strtol: returns ANY long (ghost xv_strtol_val) and sets *endptr to a position inside the string's object that is not
 *   beyond a NUL seen at end-1 (over-approximation: real strtol stops at the first non-digit).
 */
#ifndef XV_LIBC_FMT_H
#define XV_LIBC_FMT_H
#include <stdarg.h>
#define XV_FMT_MAX 4096
int xv_snprintf_ret; size_t xv_snprintf_cap; int xv_snprintf_calls;
/* the TU's calls reach this through  #define snprintf(s, n, ...) xv_snprintf((s), (n))  (prelude.h): DFCC cannot pass its
 * write set through a variadic call; the format arguments (side-effect-free expressions at every call site of the
 * units verified) are therefore not evaluated */
int xv_snprintf(char *s, size_t size)
{
    int r = nondet_int();
    __CPROVER_assume(r >= 0 && r <= XV_FMT_MAX);
    xv_snprintf_ret = r; xv_snprintf_cap = size; xv_snprintf_calls++;
    if (size > 0) {
        size_t w = (size_t)r < size ? (size_t)r : size - 1;
        if (w > 0)
            __CPROVER_havoc_slice(s, w);
        s[w] = '\0';
    }
    return r;
}
long xv_strtol_val; size_t xv_strtol_consumed;
long strtol(const char *nptr, char **endptr, int base)
{
    long v = nondet_long();
    size_t k = nondet_size_t();
    size_t room = __CPROVER_OBJECT_SIZE(nptr) - (size_t)__CPROVER_POINTER_OFFSET(nptr);
    __CPROVER_assume(k < room && (k == 0 || nptr[k - 1] != '\0'));
    xv_strtol_val = v; xv_strtol_consumed = k;
    if (endptr != NULL)
        *endptr = (char *)nptr + k;
    return v;
}
#endif
