/* env/base.h -- TRUSTED stubs every unit needs (included AFTER the real TU).
 *   log_is_enabled      -> false  (logging code is outside every proof)
 *   ut_malloc & friends -> never fail (XCM aborts on OOM by design)
 */
#ifndef XV_ENV_BASE_H
#define XV_ENV_BASE_H

#include "log.h"
#include "util.h"

bool log_is_enabled(enum log_type type) { return false; }
void log_console_conf(bool enabled) { }

void *ut_malloc(size_t size) { void *p = malloc(size); __CPROVER_assume(p != NULL); return p; }
/* ut_realloc: TRUSTED over-approximation of realloc(3).  CBMC's own model copies the whole old block
 * (__CPROVER_array_copy), which for the 64 KiB frame buffers accounted for 3/4 of the formula (2.9M -> 0.7M variables).
 * This model returns a block whose content is ARBITRARY except at offsets 0..3 and at the ghost offset xv_keep (any
 * value, never assigned), where the old bytes are preserved.  Real realloc preserves every byte below min(old,new), so
 * every behaviour of realloc is a behaviour of this model: what is proved against it holds for realloc. */
void *ut_realloc(void *ptr, size_t size)
{
    uint8_t *p = malloc(size);
    __CPROVER_assume(p != NULL);
    if (ptr != NULL) {
        size_t old = __CPROVER_OBJECT_SIZE(ptr);
        const uint8_t *o = ptr;
        if (0 < old && 0 < size) p[0] = o[0];
        if (1 < old && 1 < size) p[1] = o[1];
        if (2 < old && 2 < size) p[2] = o[2];
        if (3 < old && 3 < size) p[3] = o[3];
        if (xv_keep < old && xv_keep < size) p[xv_keep] = o[xv_keep];
        free(ptr);
    }
    return p;
}
void *ut_calloc(size_t size) { void *p = malloc(size); __CPROVER_assume(p != NULL); memset(p, 0, size); return p; }
void ut_free(void *ptr) { free(ptr); }
void ut_fatal(void) { abort(); }
void ut_mem_exhausted(void) { abort(); }


/* memcpy: TRUSTED over-approximation of memcpy(3) for n > 8 (exact for n <= 8).  CBMC's own model goes through two
 * symbolic-size array copies, which made tcp_receive (64 KiB frame -> user buffer) undecidable in an hour.  This model
 * checks that both regions are accessible, then makes the destination ARBITRARY except at offsets 0..7 and at the
 * ghost offset xv_mc (any value, never assigned), where it holds the source bytes.  Real memcpy copies every byte,
 * so every behaviour of memcpy is a behaviour of this model. */
void *memcpy(void *dst, const void *src, size_t n)
{
    __CPROVER_assert(n == 0 || __CPROVER_r_ok(src, n), "memcpy source region readable");
    __CPROVER_assert(n == 0 || __CPROVER_w_ok(dst, n), "memcpy destination region writeable");
    __CPROVER_assert(n == 0 || !__CPROVER_same_object(dst, src) || (const char *)src + n <= (const char *)dst || (const char *)dst + n <= (const char *)src, "memcpy src/dst overlap");
    const uint8_t *s_ = src; uint8_t *d_ = dst;
    /* no loops here: DFCC cannot track a loop-local index of an un-unwound loop */
#define XV_CP(i) if ((i) < n) d_[i] = s_[i]
    if (n <= 8) {
        XV_CP(0); XV_CP(1); XV_CP(2); XV_CP(3); XV_CP(4); XV_CP(5); XV_CP(6); XV_CP(7);
        return dst;
    }
    uint8_t h0 = s_[0], h1 = s_[1], h2 = s_[2], h3 = s_[3], h4 = s_[4], h5 = s_[5], h6 = s_[6], h7 = s_[7];
    _Bool g = xv_mc < n; uint8_t bg = g ? s_[xv_mc] : 0;
    __CPROVER_havoc_slice(dst, n);
    d_[0] = h0; d_[1] = h1; d_[2] = h2; d_[3] = h3; d_[4] = h4; d_[5] = h5; d_[6] = h6; d_[7] = h7;
    if (g) d_[xv_mc] = bg;
    return dst;
}

/* inet_ntop/inet_pton: TRUSTED, nondeterministic within the bounds of their buffers (textual IP syntax is glibc's) */
#include <arpa/inet.h>
const char *inet_ntop(int af, const void *src, char *dst, socklen_t size)
{
    if (nondet_bool()) { xv_errno = nondet_bool() ? ENOSPC : EAFNOSUPPORT; return NULL; }
    size_t n = nondet_size_t();
    __CPROVER_assume(size >= 1 && n < size && n < 46);
    if (n > 0) __CPROVER_havoc_slice(dst, n);
    dst[n] = 0;
    return dst;
}
int inet_pton(int af, const char *src, void *dst)
{
    if (nondet_bool()) return 0;
    __CPROVER_havoc_slice(dst, af == AF_INET6 ? 16 : 4);
    return 1;
}
#endif
