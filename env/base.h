/* env/base.h -- TRUSTED stubs every unit needs (included AFTER the real TU).
 *   log_is_enabled      -> false  (logging code is outside every proof)
 *   ut_malloc & friends -> never fail (XCM aborts on OOM by design)
 */
#ifndef XV_ENV_BASE_H
#define XV_ENV_BASE_H

#include "log.h"
#include "util.h"

bool log_is_enabled(enum log_type type) { return false; }
void log_console_conf(bool enabled) { }

void *ut_malloc(size_t size) { void *p = malloc(size); __CPROVER_assume(p != NULL); return p; }
void *ut_realloc(void *ptr, size_t size) { void *p = realloc(ptr, size); __CPROVER_assume(p != NULL); return p; }
void *ut_calloc(size_t size) { void *p = malloc(size); __CPROVER_assume(p != NULL); memset(p, 0, size); return p; }
void ut_free(void *ptr) { free(ptr); }
void ut_fatal(void) { abort(); }
void ut_mem_exhausted(void) { abort(); }

#endif
