/* env/base.h -- TRUSTED stubs every unit needs (included AFTER the real TU).
 *   log_is_enabled      -> false  (logging code is outside every proof)
 *   ut_malloc & friends -> never fail (XCM aborts on OOM by design)
 */
#ifndef XV_ENV_BASE_H
#define XV_ENV_BASE_H

#include "log.h"
#include "util.h"

bool log_is_enabled(enum log_type type) { return false; }
void log_console_conf(bool enabled) { }

void *ut_malloc(size_t size) { void *p = malloc(size); __CPROVER_assume(p != NULL); return p; }
/* ut_realloc: TRUSTED over-approximation of realloc(3).  CBMC's own model copies the whole old block
 * (__CPROVER_array_copy), which for the 64 KiB frame buffers accounted for 3/4 of the formula (2.9M -> 0.7M variables).
 * This model returns a block whose content is ARBITRARY except at offsets 0..3 and at the ghost offset xv_keep (any
 * value, never assigned), where the old bytes are preserved.  Real realloc preserves every byte below min(old,new), so
 * every behaviour of realloc is a behaviour of this model: what is proved against it holds for realloc. */
void *ut_realloc(void *ptr, size_t size)
{
    uint8_t *p = malloc(size);
    __CPROVER_assume(p != NULL);
    if (ptr != NULL) {
        size_t old = __CPROVER_OBJECT_SIZE(ptr);
        const uint8_t *o = ptr;
        if (0 < old && 0 < size) p[0] = o[0];
        if (1 < old && 1 < size) p[1] = o[1];
        if (2 < old && 2 < size) p[2] = o[2];
        if (3 < old && 3 < size) p[3] = o[3];
        if (xv_keep < old && xv_keep < size) p[xv_keep] = o[xv_keep];
        free(ptr);
    }
    return p;
}
void *ut_calloc(size_t size) { void *p = malloc(size); __CPROVER_assume(p != NULL); memset(p, 0, size); return p; }
void ut_free(void *ptr) { free(ptr); }
void ut_fatal(void) { abort(); }
void ut_mem_exhausted(void) { abort(); }


/* inet_ntop/inet_pton: TRUSTED, nondeterministic within the bounds of their buffers (textual IP syntax is glibc's) */
#include <arpa/inet.h>
const char *inet_ntop(int af, const void *src, char *dst, socklen_t size)
{
    if (nondet_bool()) { xv_errno = nondet_bool() ? ENOSPC : EAFNOSUPPORT; return NULL; }
    size_t n = nondet_size_t();
    __CPROVER_assume(size >= 1 && n < size && n < 46);
    if (n > 0) __CPROVER_havoc_slice(dst, n);
    dst[n] = 0;
    return dst;
}
int inet_pton(int af, const char *src, void *dst)
{
    if (nondet_bool()) return 0;
    __CPROVER_havoc_slice(dst, af == AF_INET6 ? 16 : 4);
    return 1;
}
#endif
