/* env/fd.h -- TRUSTED model of the kernel's descriptor table and of the socket system calls (include AFTER the real TU
 * and after env/base.h).
 *
 * Ghost descriptor table (DESIGN A.6): XV_NFD slots; slot fd is `open` iff descriptor fd is open AND WAS CREATED BY THE
 * LIBRARY (socket/accept4 of this model).  Everything else -- descriptors of the application, closed descriptors,
 * numbers outside 0..XV_NFD-1 -- is "not ours".  The model
 *   - hands out ANY free slot (descriptor numbers are reused like the kernel does) or fails (EMFILE, ENFILE, ...),
 *   - makes every resource call fail nondeterministically with ANY errno 1..XV_ERRNO_MAX,
 *   - asserts C05: socket()/accept4() are asked for SOCK_NONBLOCK; connect/accept4/send/recv on a descriptor that lacks
 *     O_NONBLOCK write the ghost xv_blocked (a frame violation in every contract that does not list it),
 *   - asserts C08: close() and every other call is made on a descriptor the library owns and has open (no stray close,
 *     no double close, no use after close),
 *   - keeps a ghost record of the last send/recv/connect/bind/listen/setsockopt/unlink call (what was passed, what came
 *     back) and call counters, which the contracts of the code under proof talk about.
 * Nothing here assumes a failure away.  Unit-independent: usable by ux, btcp, ctl, ...
 */
#ifndef XV_ENV_FD_H
#define XV_ENV_FD_H

#include <sys/socket.h>
#if !defined(_LINUX_UN_H) && !defined(_SYS_UN_H)   /* some TUs use <linux/un.h>: same struct, only one may be seen */
#include <sys/un.h>
#endif
#include <unistd.h>

#define XV_NFD 8
#define XV_ERRNO_MAX 133
/* TRUSTED(kernel) a queued datagram / SEQPACKET record is shorter than 2 GiB (sk_sndbuf is an int) */
#define XV_DGRAM_MAX 0x7fffffffUL

struct xv_fd_entry { _Bool open; _Bool nonblock; _Bool seqpacket; };
struct xv_fd_table { struct xv_fd_entry e[XV_NFD]; };
struct xv_fd_table xv_fdt;
int xv_open_cnt;                 /* number of descriptors the library has open (inc by socket/accept4, dec by close) */
int xv_fk;                       /* ghost index (never assigned): "any other descriptor" in frame statements */

/* last-call records */
int xv_socket_calls;
int xv_accept_calls;   int xv_accept_fd;
int xv_close_calls;    int xv_close_fd;
int xv_sockopt_calls;  int xv_sockopt_fd, xv_sockopt_level, xv_sockopt_name;
int xv_connect_calls;  int xv_connect_fd; int xv_connect_ok_calls;
int xv_bind_calls;     int xv_bind_fd;    int xv_bind_ok_calls;
size_t xv_bound_len;             /* strlen of the pathname the last successful bind() created (0: abstract/unnamed) */
char xv_bound_c;                 /* byte xv_j of that pathname (xv_j <= xv_bound_len) */
int xv_listen_calls;   int xv_listen_fd;  int xv_listen_ok_calls;
int xv_unlink_calls;   const char *xv_unlink_arg; size_t xv_unlink_len; char xv_unlink_c;
int xv_send_calls;     int xv_send_fd; const void *xv_send_buf; size_t xv_send_len; int xv_send_flags; long xv_send_ret;
int xv_send_errno;     uint8_t xv_send_c;   /* byte xv_j of the buffer as the kernel saw it */
int xv_recv_calls;     int xv_recv_fd; void *xv_recv_buf; size_t xv_recv_len; int xv_recv_flags; long xv_recv_ret;
int xv_recv_errno;     size_t xv_recv_copied; uint8_t xv_recv_c;   /* byte xv_j the kernel stored (xv_j < copied) */

struct xv_fd_table nondet_xv_fd_table(void);
const void *nondet_cptr(void);
char nondet_char(void);
/* every harness using this file calls xv_fd_havoc() right after xv_ghost_havoc() */
static inline void xv_fd_havoc(void)
{
    xv_fdt = nondet_xv_fd_table();
    xv_open_cnt = nondet_int(); xv_fk = nondet_int();
    xv_socket_calls = nondet_int();
    xv_accept_calls = nondet_int(); xv_accept_fd = nondet_int();
    xv_close_calls = nondet_int(); xv_close_fd = nondet_int();
    xv_sockopt_calls = nondet_int(); xv_sockopt_fd = nondet_int(); xv_sockopt_level = nondet_int(); xv_sockopt_name = nondet_int();
    xv_connect_calls = nondet_int(); xv_connect_fd = nondet_int(); xv_connect_ok_calls = nondet_int();
    xv_bind_calls = nondet_int(); xv_bind_fd = nondet_int(); xv_bind_ok_calls = nondet_int();
    xv_bound_len = nondet_size_t(); xv_bound_c = nondet_char();
    xv_listen_calls = nondet_int(); xv_listen_fd = nondet_int(); xv_listen_ok_calls = nondet_int();
    xv_unlink_calls = nondet_int(); xv_unlink_arg = nondet_cptr(); xv_unlink_len = nondet_size_t(); xv_unlink_c = nondet_char();
    xv_send_calls = nondet_int(); xv_send_fd = nondet_int(); xv_send_buf = nondet_cptr(); xv_send_len = nondet_size_t();
    xv_send_flags = nondet_int(); xv_send_ret = nondet_long(); xv_send_errno = nondet_int(); xv_send_c = nondet_uchar();
    xv_recv_calls = nondet_int(); xv_recv_fd = nondet_int(); xv_recv_buf = (void *)nondet_cptr(); xv_recv_len = nondet_size_t();
    xv_recv_flags = nondet_int(); xv_recv_ret = nondet_long(); xv_recv_errno = nondet_int(); xv_recv_copied = nondet_size_t();
    xv_recv_c = nondet_uchar();
}

/* ranges a contract under proof requires of the counters (no overflow in the model's own arithmetic) */
#define XV_CALLS_MAX 1000000
#define XV_CNT_OK(c) ((c) >= 0 && (c) < XV_CALLS_MAX)
#define XV_FD_GHOST_RANGE (XV_CNT_OK(xv_open_cnt) && XV_CNT_OK(xv_socket_calls) && XV_CNT_OK(xv_accept_calls) && XV_CNT_OK(xv_close_calls) && \
                           XV_CNT_OK(xv_sockopt_calls) && XV_CNT_OK(xv_connect_calls) && XV_CNT_OK(xv_connect_ok_calls) && XV_CNT_OK(xv_bind_calls) && \
                           XV_CNT_OK(xv_bind_ok_calls) && XV_CNT_OK(xv_listen_calls) && XV_CNT_OK(xv_listen_ok_calls) && XV_CNT_OK(xv_unlink_calls) && \
                           XV_CNT_OK(xv_send_calls) && XV_CNT_OK(xv_recv_calls))
#define XV_FD_OURS(fd) ((fd) >= 0 && (fd) < XV_NFD && xv_fdt.e[fd].open)
/* obligation, then (the violation being reported) continue with a descriptor of the table */
#define XV_FD_USE(fd, msg) { __CPROVER_assert(XV_FD_OURS(fd), msg); __CPROVER_assume(XV_FD_OURS(fd)); }

/* assigns-clause fragments: what each stub writes */
#define XV_FDT_ASSIGNS __CPROVER_object_whole(&xv_fdt), xv_open_cnt
#define XV_SOCKET_ASSIGNS xv_socket_calls, XV_FDT_ASSIGNS
#define XV_ACCEPT_ASSIGNS xv_accept_calls, xv_accept_fd, XV_FDT_ASSIGNS
#define XV_CLOSE_ASSIGNS xv_close_calls, xv_close_fd, XV_FDT_ASSIGNS
#define XV_SOCKOPT_ASSIGNS xv_sockopt_calls, xv_sockopt_fd, xv_sockopt_level, xv_sockopt_name
#define XV_CONNECT_ASSIGNS xv_connect_calls, xv_connect_fd, xv_connect_ok_calls
#define XV_BIND_ASSIGNS xv_bind_calls, xv_bind_fd, xv_bind_ok_calls, xv_bound_len, xv_bound_c
#define XV_LISTEN_ASSIGNS xv_listen_calls, xv_listen_fd, xv_listen_ok_calls
#define XV_UNLINK_ASSIGNS xv_unlink_calls, xv_unlink_arg, xv_unlink_len, xv_unlink_c
#define XV_SEND_ASSIGNS xv_send_calls, xv_send_fd, xv_send_buf, xv_send_len, xv_send_flags, xv_send_ret, xv_send_errno, xv_send_c
#define XV_RECV_ASSIGNS xv_recv_calls, xv_recv_fd, xv_recv_buf, xv_recv_len, xv_recv_flags, xv_recv_ret, xv_recv_errno, xv_recv_copied, xv_recv_c

static int xv_any_errno(void)
{
    int e = nondet_int();
    __CPROVER_assume(e >= 1 && e <= XV_ERRNO_MAX);
    return e;
}

/* a new descriptor: ANY free slot; fails when the caller says so or when no slot is free */
static int xv_new_fd(_Bool nonblock, _Bool seqpacket)
{
    int fd = nondet_int();
    if (nondet_bool() || fd < 0 || fd >= XV_NFD || xv_fdt.e[fd].open) {
        xv_errno = xv_any_errno();     /* EMFILE, ENFILE, ENOMEM, ENOBUFS, EACCES, ... */
        return -1;
    }
    xv_fdt.e[fd].open = 1; xv_fdt.e[fd].nonblock = nonblock; xv_fdt.e[fd].seqpacket = seqpacket;
    xv_open_cnt++;
    return fd;
}

/* TRUSTED(kernel) socket(2) */
int socket(int domain, int type, int protocol)
{
    __CPROVER_assert((type & SOCK_NONBLOCK) != 0, "C05 socket() is created SOCK_NONBLOCK");
    xv_socket_calls++;
    return xv_new_fd((type & SOCK_NONBLOCK) != 0, (type & 0xf) == SOCK_SEQPACKET);
}

/* TRUSTED(kernel) accept4(2): the new descriptor inherits the socket type, O_NONBLOCK comes from flags only */
int accept4(int fd, struct sockaddr *addr, socklen_t *addrlen, int flags)
{
    XV_FD_USE(fd, "C08 accept4() on a descriptor the library owns and has open");
    __CPROVER_assert((flags & SOCK_NONBLOCK) != 0, "C05 accept4() asks for SOCK_NONBLOCK");
    if (!xv_fdt.e[fd].nonblock) xv_blocked = 1;
    xv_accept_calls++; xv_accept_fd = fd;
    return xv_new_fd((flags & SOCK_NONBLOCK) != 0, xv_fdt.e[fd].seqpacket);
}

/* TRUSTED(kernel) close(2): the descriptor is released also when -1 (EINTR, EIO) is returned (Linux) */
int close(int fd)
{
    XV_FD_USE(fd, "C08 close() of a descriptor the library created and still has open (no stray/double close)");
    xv_close_calls++; xv_close_fd = fd;
    xv_fdt.e[fd].open = 0; xv_open_cnt--;
    if (nondet_bool()) { xv_errno = xv_any_errno(); return -1; }
    return 0;
}

/* TRUSTED(kernel) setsockopt(2) */
int setsockopt(int fd, int level, int optname, const void *optval, socklen_t optlen)
{
    XV_FD_USE(fd, "C08 setsockopt() on a descriptor the library owns and has open");
    __CPROVER_assert(optlen == 0 || __CPROVER_r_ok(optval, optlen), "setsockopt() option value readable");
    xv_sockopt_calls++; xv_sockopt_fd = fd; xv_sockopt_level = level; xv_sockopt_name = optname;
    if (nondet_bool()) { xv_errno = xv_any_errno(); return -1; }
    return 0;
}

/* TRUSTED(kernel) getsockopt(2): writes at most *optlen arbitrary bytes */
int getsockopt(int fd, int level, int optname, void *optval, socklen_t *optlen)
{
    XV_FD_USE(fd, "C08 getsockopt() on a descriptor the library owns and has open");
    if (nondet_bool()) { xv_errno = xv_any_errno(); return -1; }
    socklen_t n = nondet_uint();
    __CPROVER_assume(n <= *optlen);
    if (n > 0) __CPROVER_havoc_slice(optval, n);
    *optlen = n;
    return 0;
}

/* TRUSTED(kernel) connect(2) */
int connect(int fd, const struct sockaddr *addr, socklen_t len)
{
    XV_FD_USE(fd, "C08 connect() on a descriptor the library owns and has open");
    __CPROVER_assert(len >= sizeof(sa_family_t) && __CPROVER_r_ok(addr, len), "connect() address readable");
    if (!xv_fdt.e[fd].nonblock) xv_blocked = 1;
    xv_connect_calls++; xv_connect_fd = fd;
    if (nondet_bool()) { xv_errno = xv_any_errno(); return -1; }   /* includes EINPROGRESS, ENOENT, ECONNREFUSED, EAGAIN */
    xv_connect_ok_calls++;
    return 0;
}

/* TRUSTED(kernel) bind(2).  A successful bind of an AF_UNIX pathname address (sun_path[0] != 0) creates a socket file:
 * ghost xv_bound_len/xv_bound_c describe its name (NUL-terminated within sun_path: asserted). */
int bind(int fd, const struct sockaddr *addr, socklen_t len)
{
    XV_FD_USE(fd, "C08 bind() on a descriptor the library owns and has open");
    __CPROVER_assert(len >= sizeof(sa_family_t) && __CPROVER_r_ok(addr, len), "bind() address readable");
    xv_bind_calls++; xv_bind_fd = fd;
    if (nondet_bool()) { xv_errno = xv_any_errno(); return -1; }   /* EADDRINUSE, EACCES, ENOENT, ... */
    xv_bind_ok_calls++;
    xv_bound_len = 0; xv_bound_c = 0;
    if (addr->sa_family == AF_UNIX && len > offsetof(struct sockaddr_un, sun_path)) {
        const struct sockaddr_un *un = (const struct sockaddr_un *)addr;
        if (un->sun_path[0] != '\0') {
            size_t n = strlen(un->sun_path);
            __CPROVER_assert(n < len - offsetof(struct sockaddr_un, sun_path), "bind() pathname NUL-terminated within the address");
            xv_bound_len = n;
            if (xv_j >= 0 && (size_t)xv_j <= n) xv_bound_c = un->sun_path[xv_j];
        }
    }
    return 0;
}

/* TRUSTED(kernel) listen(2) */
int listen(int fd, int backlog)
{
    XV_FD_USE(fd, "C08 listen() on a descriptor the library owns and has open");
    xv_listen_calls++; xv_listen_fd = fd;
    if (nondet_bool()) { xv_errno = xv_any_errno(); return -1; }
    xv_listen_ok_calls++;
    return 0;
}

/* TRUSTED(kernel) unlink(2): ghost record of the name (pointer, length, byte xv_j) */
int unlink(const char *path)
{
    xv_unlink_calls++; xv_unlink_arg = path;
    xv_unlink_len = strlen(path); xv_unlink_c = 0;
    if (xv_j >= 0 && (size_t)xv_j <= xv_unlink_len) xv_unlink_c = path[xv_j];
    if (nondet_bool()) { xv_errno = xv_any_errno(); return -1; }
    return 0;
}

/* TRUSTED(kernel) send(2).  SOCK_SEQPACKET is atomic: the whole record or nothing (-1).  Stream sockets accept any
 * prefix 0..len. */
ssize_t send(int fd, const void *buf, size_t len, int flags)
{
    XV_FD_USE(fd, "C08 send() on a descriptor the library owns and has open");
    __CPROVER_assert(len == 0 || __CPROVER_r_ok(buf, len), "send() buffer readable");
    if (!xv_fdt.e[fd].nonblock && !(flags & MSG_DONTWAIT)) xv_blocked = 1;
    xv_send_calls++; xv_send_fd = fd; xv_send_buf = buf; xv_send_len = len; xv_send_flags = flags;
    xv_send_c = 0;
    if (xv_j >= 0 && (size_t)xv_j < len) xv_send_c = ((const uint8_t *)buf)[xv_j];
    if (nondet_bool()) {
        xv_errno = xv_any_errno();     /* EAGAIN, EPIPE, ECONNRESET, ENOBUFS, EMSGSIZE, EINTR, ... */
        xv_send_errno = xv_errno; xv_send_ret = -1;
        return -1;
    }
    size_t n = len;
    if (xv_fdt.e[fd].seqpacket) {
        if (len > XV_DGRAM_MAX) {          /* no record of 2 GiB or more */
            xv_errno = EMSGSIZE; xv_send_errno = xv_errno; xv_send_ret = -1;
            return -1;
        }
    } else {
        n = nondet_size_t();
        __CPROVER_assume(n <= len && n <= 0x7ffff000UL);    /* any prefix, at most MAX_RW_COUNT */
    }
    xv_send_ret = (long)n;
    return (ssize_t)n;
}

/* TRUSTED(kernel) recv(2).  `real` is the length of the record at the head of the queue (SEQPACKET) / the number of
 * bytes available (stream); min(real, len) ARBITRARY bytes are stored; with MSG_TRUNC a SEQPACKET socket reports `real`,
 * which may exceed len.  0 is end of stream (or an empty record -- the caller cannot tell). */
ssize_t recv(int fd, void *buf, size_t len, int flags)
{
    XV_FD_USE(fd, "C08 recv() on a descriptor the library owns and has open");
    __CPROVER_assert(len == 0 || __CPROVER_w_ok(buf, len), "recv() buffer writeable");
    if (!xv_fdt.e[fd].nonblock && !(flags & MSG_DONTWAIT)) xv_blocked = 1;
    xv_recv_calls++; xv_recv_fd = fd; xv_recv_buf = buf; xv_recv_len = len; xv_recv_flags = flags;
    xv_recv_copied = 0; xv_recv_c = 0;
    if (nondet_bool()) {
        xv_errno = xv_any_errno();     /* EAGAIN, ECONNRESET, EINTR, ... */
        xv_recv_errno = xv_errno; xv_recv_ret = -1;
        return -1;
    }
    size_t real = nondet_size_t();
    __CPROVER_assume(real <= XV_DGRAM_MAX);
    size_t n = real < len ? real : len;
    if (n > 0) __CPROVER_havoc_slice(buf, n);
    xv_recv_copied = n;
    if (xv_j >= 0 && (size_t)xv_j < n) xv_recv_c = ((const uint8_t *)buf)[xv_j];
    xv_recv_ret = (xv_fdt.e[fd].seqpacket && (flags & MSG_TRUNC)) ? (long)real : (long)n;
    return (ssize_t)xv_recv_ret;
}

/* TRUSTED(common/util.c) the three descriptor helpers of util.c, same text (util.c cannot be included next to
 * env/base.h, which defines ut_malloc & friends) */
void ut_close(int fd) { int _errno = xv_errno; close(fd); xv_errno = _errno; }
void ut_close_if_valid(int fd) { if (fd >= 0) ut_close(fd); }
int ut_accept(int sockfd, struct sockaddr *addr, socklen_t *addrlen, unsigned int flags)
{
    int rc = accept4(sockfd, addr, addrlen, flags);
    if (rc < 0 && xv_errno == EWOULDBLOCK)
        xv_errno = EAGAIN;
    return rc;
}

#endif
