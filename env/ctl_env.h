/* env/ctl_env.h -- environment of unit ctl (libxcm/ctl/ctl.c, C14); include AFTER the real TU, INSTEAD of env/base.h
 * (this unit needs allocation/copy models whose sizes constant propagation cannot fold, see "what env/base.h provides").
 *
 * Everything in here is TRUSTED: stub bodies of the kernel/libc calls ctl.c makes (recv, send, getsockname, unlink, stat,
 * getpid, socket, bind, listen; memcpy, memset, strcpy, strlen, strnlen) and of the xcm modules it is cut away from by
 * stub (xpoll, util, log, common_ctl).  xcm_attr_get is cut away by CONTRACT (contracts/ctl.h); xcm_attr_get_all is a
 * stub with a loop under invariant (it calls back through a function pointer, which a contract cannot do).
 *
 * All stubs over-approximate: every result the real function may produce is produced, buffers are filled with
 * arbitrary bytes, errno may be left with any value where the real function may touch it.  What each stub was asked to
 * do is recorded in ghost variables (xv_ctl_*), which the contracts of contracts/ctl.h refer to.
 */
#ifndef XV_CTL_ENV_H
#define XV_CTL_ENV_H

#include <sys/socket.h>
#include <sys/stat.h>
#include "log.h"
#include "util.h"
/* struct sockaddr_un comes from <linux/un.h>, included by ctl.c */

/* ------------------------------------------------------------------ strings without quantifiers */
#define XV_ROOM(p) ((size_t)(__CPROVER_OBJECT_SIZE(p) - (size_t)__CPROVER_POINTER_OFFSET(p)))
#define XV_Z1(p, k) ((size_t)(k) < XV_ROOM(p) && (p)[k] == 0)
#define XV_Z4(p, k) (XV_Z1(p, k) || XV_Z1(p, (k) + 1) || XV_Z1(p, (k) + 2) || XV_Z1(p, (k) + 3))
#define XV_Z16(p, k) (XV_Z4(p, k) || XV_Z4(p, (k) + 4) || XV_Z4(p, (k) + 8) || XV_Z4(p, (k) + 12))
/* p is a C string of fewer than 64 characters whose terminator lies inside the object p points into */
#define XV_CSTR64(p) (XV_Z16(p, 0) || XV_Z16(p, 16) || XV_Z16(p, 32) || XV_Z16(p, 48))
#define XV_N1(p, k, n) ((size_t)(k) < (n) ==> (p)[k] != 0)
#define XV_N4(p, k, n) (XV_N1(p, k, n) && XV_N1(p, (k) + 1, n) && XV_N1(p, (k) + 2, n) && XV_N1(p, (k) + 3, n))
#define XV_N16(p, k, n) (XV_N4(p, k, n) && XV_N4(p, (k) + 4, n) && XV_N4(p, (k) + 8, n) && XV_N4(p, (k) + 12, n))
/* no NUL among the first n (< 96) characters of p */
#define XV_NONUL96(p, n) (XV_N16(p, 0, n) && XV_N16(p, 16, n) && XV_N16(p, 32, n) && XV_N16(p, 48, n) && XV_N16(p, 64, n) && XV_N16(p, 80, n))
/* p is the string "tls.key" (XCM_ATTR_TLS_KEY) */
#define XV_IS_TLS_KEY(p) ((p)[0] == 't' && (p)[1] == 'l' && (p)[2] == 's' && (p)[3] == '.' && (p)[4] == 'k' && (p)[5] == 'e' && (p)[6] == 'y' && (p)[7] == 0)

/* Fields of the wire structs are read BY ADDRESS, as scalars.  Written the natural way, `msg->get_attr_cfm.attr.value_len` makes
 * CBMC read the whole 37 896-byte union and project, `cfm->attrs[i].value_type` at a two-target pointer the whole 592-byte
 * entry, `attr.any_value[j]` the whole 512-byte union: at a symbolic address that is one array read per BYTE and mention
 * (process_client ran out of 14 GB).  ap: address of a struct ctl_proto_attr, cp: of a struct ctl_proto_get_all_attr_cfm,
 * mp: of a struct ctl_proto_msg. */
#define XV_FLD(T, base, off) (*(T *)((uint8_t *)(base) + (off)))
#define XV_ATTR_TYPE(ap) XV_FLD(int, ap, offsetof(struct ctl_proto_attr, value_type))
#define XV_ATTR_LEN(ap) XV_FLD(size_t, ap, offsetof(struct ctl_proto_attr, value_len))
#define XV_ATTR_NAME(ap, k) XV_FLD(char, ap, offsetof(struct ctl_proto_attr, name) + (k))
#define XV_ATTR_VAL(ap, k) XV_FLD(uint8_t, ap, offsetof(struct ctl_proto_attr, any_value) + (k))
#define XV_CFM_LEN(cp) XV_FLD(size_t, cp, offsetof(struct ctl_proto_get_all_attr_cfm, attrs_len))
#define XV_CFM_ATTRP(cp, i) ((uint8_t *)(cp) + offsetof(struct ctl_proto_get_all_attr_cfm, attrs) + (i) * sizeof(struct ctl_proto_attr))
#define XV_MSG_TYPE(mp) XV_FLD(int, mp, offsetof(struct ctl_proto_msg, type))
#define XV_MSG_ATTRP(mp) ((uint8_t *)(mp) + offsetof(struct ctl_proto_msg, get_attr_cfm.attr))
#define XV_MSG_REJ_ERRNO(mp) XV_FLD(int, mp, offsetof(struct ctl_proto_msg, get_attr_rej.rej_errno))
#define XV_MSG_CFMP(mp) ((uint8_t *)(mp) + offsetof(struct ctl_proto_msg, get_all_attr_cfm))

#ifndef XV_CTL_NAME_OBJ
#define XV_CTL_NAME_OBJ 96      /* attribute names of 0..95 characters are explored (the wire field holds 63) */
#endif
#ifndef XV_CTL_LEN_MAX
#define XV_CTL_LEN_MAX 1024     /* attribute values of 0..1024 bytes are explored (the wire field holds 512)  */
#endif
/* (both are bounds of the EXPLORED inputs of add_attr / xcm_attr_get_all, stated in the evidence: a correct add_attr looks at
 * the length before it copies, so nothing depends on how far beyond 63 / 512 the bounds lie) */

/* ------------------------------------------------------------------ ghost state of the unit
 * (havocked by xv_ctl_ghost_havoc() at the start of every harness; C would zero-initialise it) */

/* Object sizes.  CBMC types a heap object whose allocation size is a compile-time constant as the struct that size
 * belongs to and then encodes every write at a symbolic offset as an update of the whole 38 KB (reply) / 76 KB (struct
 * ctl) bit-vector -- add_attr alone did not finish in 10 minutes.  With a size the simplifier cannot fold, the object is a
 * byte array handled by the array theory.  xv_ctl_z is constrained to 0 by TWO requires clauses (>= 0, <= 0) of every
 * contract, so the solver knows the size exactly (an off-by-one past the end is still caught); only constant
 * propagation does not. */
long xv_ctl_z;
#define XV_CTL_SIZEOF(T) (sizeof(T) + (size_t)xv_ctl_z)
#define XV_CTL_Z_LO (xv_ctl_z >= 0)
#define XV_CTL_Z_HI (xv_ctl_z <= 0)

/* xpoll fd registrations: reg ids are 0..XV_CTL_REGS-1 (assumption: the real table never grows beyond that) */
#define XV_CTL_REGS 4096
/* two heap byte arrays (made by xv_ctl_ghost_havoc, arbitrary content) rather than static arrays: CBMC bit-blasts a static
 * int[4096] and copies all of it at every update at a symbolic index (accept_client did not finish in 10 minutes) */
_Bool *xv_ctl_live;            /* [XV_CTL_REGS] registration id exists   */
int *xv_ctl_ev;                /* [XV_CTL_REGS] its epoll event mask     */
#define XV_CTL_EP_OBJS __CPROVER_object_whole(xv_ctl_live), __CPROVER_object_whole(xv_ctl_ev)
struct xpoll *xv_ctl_xpoll;    /* ghost constant: the xpoll instance of the socket owning the ctl */
unsigned long xv_ctl_ep_ops;   /* number of xpoll_fd_reg_add/mod/del calls (each may touch the epoll set) */
int xv_ctl_reg;                /* ghost index (never assigned): an ARBITRARY registration id */

/* Call counters are unsigned and may wrap: "calls == old + 1" is meant modulo 2^64, so no contract needs a range for them.
 * The records are grouped into one struct per stub: every assigns-clause target is one more object DFCC's havoc and
 * inclusion checks range over (with ~45 single ghost variables process_client ran out of memory); the old names
 * are macros for the members. */
struct xv_ctl_rd_s { unsigned long calls; _Bool readable; };                              /* ut_is_readable: count, last answer */
struct xv_ctl_cls_s { unsigned long calls; int fd; };                                     /* ut_close: count, last fd */
struct xv_ctl_acc_s { int rc; unsigned long fds_made; };                                  /* ut_accept result; socket()/accept4() successes */
struct xv_ctl_rcv_s { unsigned long calls; int fd; long rc; int err; int req_type; _Bool req_cstr, req_key; };
struct xv_ctl_snd_s { unsigned long calls; int fd; size_t len; long rc; int err; const void *buf; uint8_t byte_j; };
struct xv_ctl_unl_s { unsigned long calls; char unlink_p; _Bool gsn_ok; char bound_p; };
struct xv_ctl_get_s { int rv; int err; int type; uint8_t byte_j; unsigned long calls; };
struct xv_ctl_all_s { size_t n; int i_type; size_t i_len; uint8_t i_val_mc; char i_name_j; size_t i_namelen; size_t g_len0, g_namelen, g_len; };
struct xv_ctl_rd_s xv_ctl_rd; struct xv_ctl_cls_s xv_ctl_cls; struct xv_ctl_acc_s xv_ctl_acc; struct xv_ctl_rcv_s xv_ctl_rcv;
struct xv_ctl_snd_s xv_ctl_snd; struct xv_ctl_unl_s xv_ctl_unl; struct xv_ctl_get_s xv_ctl_get; struct xv_ctl_all_s xv_ctl_all;
/* ut_is_readable */
#define xv_ctl_readable_calls xv_ctl_rd.calls
#define xv_ctl_readable xv_ctl_rd.readable
/* descriptors */
#define xv_ctl_close_calls xv_ctl_cls.calls
#define xv_ctl_closed_fd xv_ctl_cls.fd
#define xv_ctl_accept_rc xv_ctl_acc.rc
#define xv_ctl_fds_made xv_ctl_acc.fds_made
/* recv(2): calls, descriptor, result (-1 | 0..len), errno if -1; of the datagram received: its type field (valid when
 * rc >= 4) and, when it is full-size, whether its attr_name[64] holds a terminated string / the string "tls.key" */
#define xv_ctl_recv_calls xv_ctl_rcv.calls
#define xv_ctl_recv_fd xv_ctl_rcv.fd
#define xv_ctl_recv_rc xv_ctl_rcv.rc
#define xv_ctl_recv_errno xv_ctl_rcv.err
#define xv_ctl_req_type xv_ctl_rcv.req_type
#define xv_ctl_req_cstr xv_ctl_rcv.req_cstr
#define xv_ctl_req_key xv_ctl_rcv.req_key
/* send(2): calls, descriptor, length, result, errno if -1, buffer, byte xv_ctl_j of the buffer */
#define xv_ctl_send_calls xv_ctl_snd.calls
#define xv_ctl_send_fd xv_ctl_snd.fd
#define xv_ctl_send_len xv_ctl_snd.len
#define xv_ctl_send_rc xv_ctl_snd.rc
#define xv_ctl_send_errno xv_ctl_snd.err
#define xv_ctl_send_buf xv_ctl_snd.buf
#define xv_ctl_send_j xv_ctl_snd.byte_j
size_t xv_ctl_j;               /* ghost index (never assigned): an ARBITRARY byte offset */
/* unlink: count, byte xv_ctl_p of the last path; getsockname: succeeded, byte xv_ctl_p of the bound path */
#define xv_ctl_unlink_calls xv_ctl_unl.calls
#define xv_ctl_unlink_p xv_ctl_unl.unlink_p
#define xv_ctl_gsn_ok xv_ctl_unl.gsn_ok
#define xv_ctl_bound_p xv_ctl_unl.bound_p
size_t xv_ctl_p;               /* ghost index (never assigned): an ARBITRARY offset into sun_path */
/* xcm_attr_get (contract in contracts/ctl.h): rv, errno if rv < 0, type, value byte xv_ctl_j; calls */
#define xv_ctl_get_rv xv_ctl_get.rv
#define xv_ctl_get_errno xv_ctl_get.err
#define xv_ctl_get_type xv_ctl_get.type
#define xv_ctl_get_j xv_ctl_get.byte_j
#define xv_ctl_get_calls xv_ctl_get.calls
/* xcm_attr_get_all (stub below) */
unsigned long xv_ctl_all_calls; /* calls of xcm_attr_get_all */
#define xv_ctl_all_n xv_ctl_all.n              /* number of REPORTABLE attributes called back so far (name < 64, value <= 512, not tls.key) */
size_t xv_ctl_i;               /* ghost index (never assigned): an ARBITRARY position in the sequence of reportable attributes */
/* the xv_ctl_i-th reportable attribute: type, length, value byte at offset xv_mc (the offset the memcpy model tracks),
 * name length, name byte at xv_ctl_j */
#define xv_ctl_i_type xv_ctl_all.i_type
#define xv_ctl_i_len xv_ctl_all.i_len
#define xv_ctl_i_val_mc xv_ctl_all.i_val_mc
#define xv_ctl_i_name_j xv_ctl_all.i_name_j
#define xv_ctl_i_namelen xv_ctl_all.i_namelen
/* add_attr (contract in contracts/ctl.h): attrs_len on entry, strlen(attr_name), len -- set by the harness (enforce) or by
 * the xcm_attr_get_all stub right before the callback (replace), bound by add_attr's requires clauses */
#define xv_ctl_g_len0 xv_ctl_all.g_len0
#define xv_ctl_g_namelen xv_ctl_all.g_namelen
#define xv_ctl_g_len xv_ctl_all.g_len
#define AA_CFM(d) ((struct ctl_proto_get_all_attr_cfm *)(d))
#define AA_ENTRYP(d) XV_CFM_ATTRP(d, xv_ctl_g_len0)
#define AA_REPORTABLE(name, namelen, len) (!XV_IS_TLS_KEY(name) && (namelen) < XCM_ATTR_NAME_MAX && (len) <= CTL_ATTR_VALUE_MAX)
#define AA_ADDS(name, namelen, len) (AA_REPORTABLE(name, namelen, len) && xv_ctl_g_len0 < CTL_PROTO_MAX_ATTRS)

#ifdef XV_CBMC
char nondet_char(void);
static inline void xv_ctl_ghost_havoc(void)
{
    xv_ctl_z = nondet_long();
    __CPROVER_assume(xv_ctl_z >= 0);
    __CPROVER_assume(xv_ctl_z <= 0);
    xv_ctl_live = malloc(XV_CTL_REGS * sizeof(_Bool) + (size_t)xv_ctl_z);   /* content arbitrary */
    xv_ctl_ev = malloc(XV_CTL_REGS * sizeof(int) + (size_t)xv_ctl_z);
    __CPROVER_assume(xv_ctl_live != NULL && xv_ctl_ev != NULL);
    struct xpoll *ndp; xv_ctl_xpoll = ndp;
    xv_ctl_ep_ops = nondet_size_t(); xv_ctl_reg = nondet_int();
    struct xv_ctl_rd_s n1; xv_ctl_rd = n1; struct xv_ctl_cls_s n2; xv_ctl_cls = n2; struct xv_ctl_acc_s n3; xv_ctl_acc = n3;
    struct xv_ctl_rcv_s n4; xv_ctl_rcv = n4; struct xv_ctl_snd_s n5; xv_ctl_snd = n5; struct xv_ctl_unl_s n6; xv_ctl_unl = n6;
    struct xv_ctl_get_s n7; xv_ctl_get = n7; struct xv_ctl_all_s n8; xv_ctl_all = n8;       /* uninitialised locals: arbitrary */
    xv_ctl_j = nondet_size_t(); xv_ctl_p = nondet_size_t(); xv_ctl_i = nondet_size_t(); xv_ctl_all_calls = nondet_size_t();
}
#endif


/* an errno value a failing system call leaves: any positive int */
static inline int xv_ctl_any_errno(void) { int e = nondet_int(); __CPROVER_assume(e > 0); return e; }

/* ------------------------------------------------------------------ what env/base.h provides for the other units
 * This unit does NOT include env/base.h: its ut_malloc/ut_calloc/memcpy take their size as it comes, and ctl.c passes
 * compile-time constants (sizeof(struct ctl_proto_msg) = 37 904, sizeof(struct client), sizeof(struct ctl) = 75 840), which
 * makes CBMC type the block as that struct and bit-blast it (see XV_CTL_SIZEOF above; remove_client crashed symex).
 * Same models here, with the opaque zero added to every size. */
/* TRUSTED(log) logging is switched off: LOG_* argument expressions are outside the proof */
bool log_is_enabled(enum log_type type) { return false; }
void log_console_conf(bool enabled) { }
/* TRUSTED(util) ut_malloc/ut_calloc never fail (XCM aborts on OOM by design); content arbitrary / zero */
void *ut_malloc(size_t size) { void *p = malloc(size + (size_t)xv_ctl_z); __CPROVER_assume(p != NULL); return p; }
void *ut_calloc(size_t size)
{
    char *p = malloc(size + (size_t)xv_ctl_z);
    __CPROVER_assume(p != NULL);
    __CPROVER_array_set(p, 0);
    return p;
}
void ut_free(void *ptr) { free(ptr); }
void ut_fatal(void) { abort(); }
void ut_mem_exhausted(void) { abort(); }
/* memcpy(3), TRUSTED(libc): the over-approximating model of env/base.h (both regions must be accessible and disjoint; the
 * destination becomes ARBITRARY except where stated), extended: the first 16 bytes and the byte at the ghost offset
 * xv_mc equal the source.  Real memcpy copies every byte, so every behaviour of memcpy is a behaviour of this model. */
void *memcpy(void *dst, const void *src, size_t n)
{
    __CPROVER_assert(n == 0 || __CPROVER_r_ok(src, n), "memcpy source region readable");
    __CPROVER_assert(n == 0 || __CPROVER_w_ok(dst, n), "memcpy destination region writeable");
    __CPROVER_assert(n == 0 || !__CPROVER_same_object(dst, src) || (const char *)src + n <= (const char *)dst || (const char *)dst + n <= (const char *)src, "memcpy src/dst overlap");
    const uint8_t *s_ = src; uint8_t *d_ = dst;
    if (n == 0) return dst;
    uint8_t h[16];
#define XV_LD(i) h[i] = (i) < n ? s_[i] : 0
    XV_LD(0); XV_LD(1); XV_LD(2); XV_LD(3); XV_LD(4); XV_LD(5); XV_LD(6); XV_LD(7);
    XV_LD(8); XV_LD(9); XV_LD(10); XV_LD(11); XV_LD(12); XV_LD(13); XV_LD(14); XV_LD(15);
    _Bool g = xv_mc < n; uint8_t bg = g ? s_[xv_mc] : 0;
    __CPROVER_havoc_slice(dst, n + (size_t)xv_ctl_z);
#define XV_ST(i) if ((i) < n) d_[i] = h[i]
    XV_ST(0); XV_ST(1); XV_ST(2); XV_ST(3); XV_ST(4); XV_ST(5); XV_ST(6); XV_ST(7);
    XV_ST(8); XV_ST(9); XV_ST(10); XV_ST(11); XV_ST(12); XV_ST(13); XV_ST(14); XV_ST(15);
    if (g) d_[xv_mc] = bg;
    return dst;
}

/* ------------------------------------------------------------------ strcpy(3), TRUSTED(libc)
 * CBMC's own model is a byte loop; unwound, its 64+ single-byte writes at a symbolic offset of the 38 KB reply made
 * add_attr cost 8 minutes.  This model is loop-free: n = strlen(src) (sources of more than XV_STRCPY_MAX characters are a
 * failed obligation, not a silently cut path); the n+1 destination bytes must be writable AS ONE SLICE (so a copy that
 * runs past the destination array into the next struct member is an assigns violation); they become ARBITRARY except
 * for the terminator and the byte at the ghost offset xv_ctl_j, which equal the source.  Real strcpy copies every byte,
 * so every behaviour of strcpy is a behaviour of this model. */
#define XV_STRCPY_MAX 95
#define XV_SC1(p, k, n) ((size_t)(k) >= (n) || (p)[k] != 0)
#define XV_SC4(p, k, n) (XV_SC1(p, k, n) && XV_SC1(p, (k) + 1, n) && XV_SC1(p, (k) + 2, n) && XV_SC1(p, (k) + 3, n))
#define XV_SC16(p, k, n) (XV_SC4(p, k, n) && XV_SC4(p, (k) + 4, n) && XV_SC4(p, (k) + 8, n) && XV_SC4(p, (k) + 12, n))
#define XV_SC96(p, n) (XV_SC16(p, 0, n) && XV_SC16(p, 16, n) && XV_SC16(p, 32, n) && XV_SC16(p, 48, n) && XV_SC16(p, 64, n) && XV_SC16(p, 80, n))
char *strcpy(char *dst, const char *src)
{
    size_t room = __CPROVER_OBJECT_SIZE(src) - (size_t)__CPROVER_POINTER_OFFSET(src);
    XV_ASSERT(__CPROVER_r_ok(src, 1), "strcpy model: source readable");
    size_t lim = room - 1 < XV_STRCPY_MAX ? room - 1 : XV_STRCPY_MAX;   /* last offset that may be inspected */
    size_t n = nondet_size_t();
    __CPROVER_assume(n <= lim);
#pragma CPROVER check push
#pragma CPROVER check disable "pointer"
#pragma CPROVER check disable "pointer-overflow"
#pragma CPROVER check disable "bounds"
    __CPROVER_assume(XV_SC96(src, n));             /* no NUL before n (reads at offsets < n <= lim < room) ... */
#pragma CPROVER check pop
    __CPROVER_assume(src[n] == 0 || n == lim);     /* ... and n is the first one, if there is any             */
    XV_ASSERT(src[n] == 0, "strcpy model: source string terminated inside its object and within 95 characters");
    char cj = xv_ctl_j <= n ? src[xv_ctl_j] : 0;
    __CPROVER_havoc_slice(dst, n + 1);
    if (xv_ctl_j <= n) dst[xv_ctl_j] = cj;
    dst[n] = 0;
    return dst;
}

/* memset(3), TRUSTED(libc): CBMC expands a constant-size memset (clear_attr: 512 bytes) into 512 single-byte updates of
 * the 38 KB reply (16 M variables, solver out of memory).  Loop-free model with a size constant propagation cannot
 * fold: the region must be writable as one slice and becomes ARBITRARY except at the ghost offset xv_ctl_j, where it
 * holds the fill byte.  Real memset fills every byte, so every behaviour of memset is a behaviour of this model. */
void *memset(void *s, int c, size_t n)
{
    if (n > 0) {
        __CPROVER_havoc_slice(s, n + (size_t)xv_ctl_z);
        if (xv_ctl_j < n) ((unsigned char *)s)[xv_ctl_j] = (unsigned char)c;
    }
    return s;
}

/* strlen(3), TRUSTED(libc): loop-free, same scheme (a repaired add_attr has to measure the name before copying it) */
size_t strlen(const char *src)
{
    size_t room = __CPROVER_OBJECT_SIZE(src) - (size_t)__CPROVER_POINTER_OFFSET(src);
    XV_ASSERT(__CPROVER_r_ok(src, 1), "strlen model: string readable");
    size_t lim = room - 1 < XV_STRCPY_MAX ? room - 1 : XV_STRCPY_MAX;
    size_t n = nondet_size_t();
    __CPROVER_assume(n <= lim);
#pragma CPROVER check push
#pragma CPROVER check disable "pointer"
#pragma CPROVER check disable "pointer-overflow"
#pragma CPROVER check disable "bounds"
    __CPROVER_assume(XV_SC96(src, n));
#pragma CPROVER check pop
    __CPROVER_assume(src[n] == 0 || n == lim);
    XV_ASSERT(src[n] == 0, "strlen model: string terminated inside its object and within 95 characters");
    return n;
}

/* strnlen(3), TRUSTED(libc): loop-free, same scheme; inspects at most maxlen (<= 96) bytes, all of which must be readable
 * up to and including the terminator (a repaired process_get_attr has to look for the terminator of the wire name) */
size_t strnlen(const char *src, size_t maxlen)
{
    XV_ASSERT(maxlen <= XV_STRCPY_MAX + 1, "strnlen model: maxlen <= 96");
    size_t n = nondet_size_t();
    __CPROVER_assume(n <= maxlen);
    XV_ASSERT(n == 0 || __CPROVER_r_ok(src, n), "strnlen model: bytes before the result readable");
#pragma CPROVER check push
#pragma CPROVER check disable "pointer"
#pragma CPROVER check disable "pointer-overflow"
#pragma CPROVER check disable "bounds"
    __CPROVER_assume(XV_SC96(src, n));
#pragma CPROVER check pop
    if (n < maxlen) {
        XV_ASSERT(__CPROVER_r_ok(src, n + 1), "strnlen model: terminator readable");
        __CPROVER_assume(src[n] == 0);
    }
    return n;
}

/* ------------------------------------------------------------------ xpoll (libxcm/core/xpoll.c), TRUSTED(xpoll)
 * The real functions abort (ut_assert) when handed an invalid registration id or a negative fd: those are
 * obligations here.  A new id is any id not in use.  errno may be left with any value (epoll_ctl, realloc). */
int xpoll_fd_reg_add(struct xpoll *xpoll, int fd, int event)
{
    XV_ASSERT(xpoll == xv_ctl_xpoll, "xpoll_fd_reg_add: xpoll instance of the owning socket");
    XV_ASSERT(fd >= 0, "xpoll_fd_reg_add: fd >= 0 (ut_assert in xpoll.c)");
    int id = nondet_int();
    __CPROVER_assume(id >= 0 && id < XV_CTL_REGS && !xv_ctl_live[id]);
    xv_ctl_live[id] = 1; xv_ctl_ev[id] = event;
    xv_ctl_ep_ops++;
    if (nondet_bool()) xv_errno = nondet_int();
    return id;
}
void xpoll_fd_reg_mod(struct xpoll *xpoll, int reg_id, int event)
{
    XV_ASSERT(xpoll == xv_ctl_xpoll, "xpoll_fd_reg_mod: xpoll instance of the owning socket");
    XV_ASSERT(reg_id >= 0 && reg_id < XV_CTL_REGS && xv_ctl_live[reg_id], "xpoll_fd_reg_mod: registration id valid (ut_assert in xpoll.c)");
    xv_ctl_ev[reg_id] = event;
    xv_ctl_ep_ops++;
    if (nondet_bool()) xv_errno = nondet_int();
}
void xpoll_fd_reg_del(struct xpoll *xpoll, int reg_id)
{
    XV_ASSERT(xpoll == xv_ctl_xpoll, "xpoll_fd_reg_del: xpoll instance of the owning socket");
    XV_ASSERT(reg_id >= 0 && reg_id < XV_CTL_REGS && xv_ctl_live[reg_id], "xpoll_fd_reg_del: registration id valid (ut_assert in xpoll.c)");
    xv_ctl_live[reg_id] = 0;
    xv_ctl_ep_ops++;
    if (nondet_bool()) xv_errno = nondet_int();
}

/* ------------------------------------------------------------------ util (common/util.c), TRUSTED(util) */
/* poll(2) with timeout 0 under UT_SAVE_ERRNO: any answer, errno untouched */
bool ut_is_readable(int fd) { xv_ctl_readable_calls++; xv_ctl_readable = nondet_bool(); return xv_ctl_readable; }
/* close(2) under UT_PROTECT_ERRNO */
void ut_close(int fd) { xv_ctl_close_calls++; xv_ctl_closed_fd = fd; }
/* accept4(2): a new descriptor or -1 with any errno (EWOULDBLOCK == EAGAIN on Linux) */
int ut_accept(int sockfd, struct sockaddr *addr, socklen_t *addrlen, unsigned int flags)
{
    /* C05: the control sessions are served from inside the application's xcm_* calls: their descriptors must be
     * non-blocking, or a client that stops reading puts the application to sleep in send() */
    __CPROVER_assert((flags & SOCK_NONBLOCK) != 0, "C05 control-session descriptors are accepted SOCK_NONBLOCK");
    int rc;
    if (nondet_bool()) { rc = -1; xv_errno = xv_ctl_any_errno(); }
    else { rc = nondet_int(); __CPROVER_assume(rc >= 0); xv_ctl_fds_made++; }
    xv_ctl_accept_rc = rc;
    return rc;
}

/* ------------------------------------------------------------------ kernel, TRUSTED(kernel) */
/* recv(2) on a SOCK_SEQPACKET socket: -1/errno, or ANY number n of bytes in 0..len (n < len: short datagram, n == len:
 * exact or truncated datagram), the first n bytes of the buffer ARBITRARY, the rest untouched. */
ssize_t recv(int fd, void *buf, size_t len, int flags)
{
    xv_ctl_recv_calls++; xv_ctl_recv_fd = fd;
    if (nondet_bool()) {
        xv_errno = xv_ctl_any_errno();
        xv_ctl_recv_errno = xv_errno; xv_ctl_recv_rc = -1;
        return -1;
    }
    size_t n = nondet_size_t();
    __CPROVER_assume(n <= len && n <= 0x7ffff000UL);
    if (n > 0)
        __CPROVER_havoc_slice(buf, n);
    if (n >= sizeof(int))
        xv_ctl_req_type = *(const int *)buf;
    if (n == sizeof(struct ctl_proto_msg)) {    /* ghost record of the wire name (ctl.c is the only caller of recv in this unit) */
        const char *wire_name = (const char *)buf + offsetof(struct ctl_proto_msg, get_attr_req.attr_name);
#pragma CPROVER check push
#pragma CPROVER check disable "pointer"
#pragma CPROVER check disable "pointer-primitive"
#pragma CPROVER check disable "pointer-overflow"
#pragma CPROVER check disable "bounds"
        xv_ctl_req_cstr = XV_CSTR64(wire_name);     /* reads inside the n bytes just received */
        xv_ctl_req_key = XV_IS_TLS_KEY(wire_name);
#pragma CPROVER check pop
    }
    xv_ctl_recv_rc = (long)n;
    return (ssize_t)n;
}
/* send(2): -1/errno or any count in 0..len; the buffer must be readable */
ssize_t send(int fd, const void *buf, size_t len, int flags)
{
    XV_ASSERT(__CPROVER_r_ok(buf, len), "send: buffer readable");
    xv_ctl_send_calls++; xv_ctl_send_fd = fd; xv_ctl_send_len = len; xv_ctl_send_buf = buf;
    if (xv_ctl_j < len)
        xv_ctl_send_j = ((const uint8_t *)buf)[xv_ctl_j];
    if (nondet_bool()) {
        xv_errno = xv_ctl_any_errno();
        xv_ctl_send_errno = xv_errno; xv_ctl_send_rc = -1;
        return -1;
    }
    size_t n = nondet_size_t();
    __CPROVER_assume(n <= len && n <= 0x7ffff000UL);
    xv_ctl_send_rc = (long)n;
    return (ssize_t)n;
}
/* getsockname(2) on the listening AF_UNIX socket: fails, or reports the path it was bound to -- a NUL-terminated string
 * inside sun_path (create_ux binds to a path made by ctl_derive_path with capacity UNIX_PATH_MAX) */
int getsockname(int fd, struct sockaddr *addr, socklen_t *len)
{
    if (nondet_bool()) { xv_errno = xv_ctl_any_errno(); xv_ctl_gsn_ok = 0; return -1; }
    XV_ASSERT(*len >= sizeof(struct sockaddr_un), "getsockname: room for a sockaddr_un");
    struct sockaddr_un *un = (struct sockaddr_un *)addr;
    __CPROVER_havoc_slice(un, sizeof(*un));
    un->sun_family = AF_UNIX;
    size_t n = nondet_size_t();
    __CPROVER_assume(n < sizeof(un->sun_path));
    un->sun_path[n] = '\0';
    *len = (socklen_t)(offsetof(struct sockaddr_un, sun_path) + n + 1);
    xv_ctl_gsn_ok = 1;
    if (xv_ctl_p < sizeof(un->sun_path))
        xv_ctl_bound_p = un->sun_path[xv_ctl_p];
    return 0;
}
int unlink(const char *path)
{
    xv_ctl_unlink_calls++;
    if (xv_ctl_p < sizeof(((struct sockaddr_un *)0)->sun_path))
        xv_ctl_unlink_p = path[xv_ctl_p];
    if (nondet_bool()) { xv_errno = xv_ctl_any_errno(); return -1; }
    return 0;
}
int stat(const char *path, struct stat *st)
{
    if (nondet_bool()) { xv_errno = xv_ctl_any_errno(); return -1; }
    __CPROVER_havoc_slice(st, sizeof(*st));
    return 0;
}
pid_t getpid(void) { pid_t p = nondet_int(); __CPROVER_assume(p > 0); return p; }
int socket(int domain, int type, int protocol)
{
    if (nondet_bool()) { xv_errno = xv_ctl_any_errno(); return -1; }
    int fd = nondet_int(); __CPROVER_assume(fd >= 0);
    xv_ctl_fds_made++;
    return fd;
}
int bind(int fd, const struct sockaddr *addr, socklen_t len)
{
    XV_ASSERT(__CPROVER_r_ok(addr, len), "bind: address readable");
    if (nondet_bool()) { xv_errno = xv_ctl_any_errno(); return -1; }
    return 0;
}
int listen(int fd, int backlog)
{
    if (nondet_bool()) { xv_errno = xv_ctl_any_errno(); return -1; }
    return 0;
}

/* ------------------------------------------------------------------ common_ctl (common/common_ctl.c), TRUSTED(common_ctl)
 * both leave a NUL-terminated string in buf[0..capacity) (ctl_derive_path: see below) */
void ctl_get_dir(char *buf, size_t capacity)
{
    size_t n = nondet_size_t();
    __CPROVER_assume(capacity >= 1 && n < capacity);
    __CPROVER_havoc_slice(buf, capacity);      /* whole buffer arbitrary (includes: bytes behind the terminator unchanged) */
    buf[n] = '\0';
}
/* (since fix 6b9fc0c: 0 with a complete path, or -1/ENAMETOOLONG when the text does not fit - contract enforced in unit utilctl) */
int ctl_derive_path(const char *ctl_dir, pid_t creator_pid, int64_t sock_ref, char *buf, size_t capacity)
{
    size_t n = nondet_size_t();
    __CPROVER_assume(capacity >= 1 && n < capacity);
    __CPROVER_havoc_slice(buf, capacity);
    buf[n] = '\0';
    if (nondet_bool()) { xv_errno = ENAMETOOLONG; return -1; }
    return 0;
}


/* ------------------------------------------------------------------ xcm_attr_get_all (libxcm/core/xcm.c), TRUSTED(xcm_attr_get_all)
 * Calls cb ANY number of times (loop closed by the invariant below, no bound), each time with an ARBITRARY name of
 * 0..XV_CTL_NAME_OBJ-1 characters, ARBITRARY type, ARBITRARY value of 0..XV_CTL_LEN_MAX bytes.  May leave any errno.
 * Ghosts: xv_ctl_all_n counts the reportable attributes, xv_ctl_i_* records the xv_ctl_i-th of them.
 * The invariant speaks about the reply under construction, so this stub is specific to the one call in ctl.c
 * (cb == add_attr, cb_data == the get_all_attr_cfm being filled, attrs_len == 0 on entry -- asserted). */
#define XV_CTL_ALL_GHOSTS xv_errno, xv_ctl_all_calls, xv_ctl_all
/* what is stated about the xv_ctl_i-th entry of the reply.  Stating everything at once costs 3.5 min of solver time
 * (each fact is a read at a symbolic offset of the 38 KB reply, and the array theory's cost grows with reads x updates),
 * so job ctl.process_get_all_attr runs as three variants, each tracking one aspect (-DXV_CTL_TRACK=1|2|3); without
 * the macro all three are tracked; the jobs of its callers (client_receive and up) say nothing about single entries
 * (-DXV_CTL_TRACK=0): between process_get_all_attr's return and send(2) nothing writes the reply (frame). */
#define XV_CTL_ENT_SHAPE(cp) (XV_ATTR_TYPE(XV_CFM_ATTRP(cp, xv_ctl_i)) == xv_ctl_i_type && XV_ATTR_LEN(XV_CFM_ATTRP(cp, xv_ctl_i)) == xv_ctl_i_len && \
        xv_ctl_i_len <= CTL_ATTR_VALUE_MAX && xv_ctl_i_namelen < XCM_ATTR_NAME_MAX)
#define XV_CTL_ENT_VALUE(cp) (xv_ctl_i_len <= CTL_ATTR_VALUE_MAX && (xv_mc < xv_ctl_i_len ==> XV_ATTR_VAL(XV_CFM_ATTRP(cp, xv_ctl_i), xv_mc) == xv_ctl_i_val_mc))
#define XV_CTL_ENT_NAME(cp) (xv_ctl_i_namelen < XCM_ATTR_NAME_MAX && XV_ATTR_NAME(XV_CFM_ATTRP(cp, xv_ctl_i), xv_ctl_i_namelen) == 0 && \
        (xv_ctl_j <= xv_ctl_i_namelen ==> XV_ATTR_NAME(XV_CFM_ATTRP(cp, xv_ctl_i), xv_ctl_j) == xv_ctl_i_name_j))
#if !defined(XV_CTL_TRACK)
#define XV_CTL_ENT(cp) (XV_CTL_ENT_SHAPE(cp) && XV_CTL_ENT_VALUE(cp) && XV_CTL_ENT_NAME(cp))
#elif XV_CTL_TRACK == 0      /* jobs above process_get_all_attr: entries are its business */
#define XV_CTL_ENT(cp) 1
#elif XV_CTL_TRACK == 1
#define XV_CTL_ENT(cp) XV_CTL_ENT_SHAPE(cp)
#elif XV_CTL_TRACK == 2
#define XV_CTL_ENT(cp) XV_CTL_ENT_VALUE(cp)
#else
#define XV_CTL_ENT(cp) XV_CTL_ENT_NAME(cp)
#endif
#define XV_CTL_ALL_ENTRY_I(cp) (xv_ctl_i < XV_CFM_LEN(cp) ==> XV_CTL_ENT(cp))
/* the generated pointer/bounds checks are switched off inside this stub (as in contract text, contracts/begin.h): its
 * accesses are to its own buffers and, in the invariant, to the reply object whose validity the caller's contract states */
#include "contracts/begin.h"
void xcm_attr_get_all(struct xcm_socket *s, xcm_attr_cb cb, void *cb_data)
{
    struct ctl_proto_get_all_attr_cfm *cfm = cb_data;
    XV_ASSERT(cfm->attrs_len == 0, "xcm_attr_get_all stub: reply table empty on entry");
    xv_ctl_all_calls++;
    xv_ctl_all_n = 0;
    /* the name and value buffers are allocated once (DFCC forbids allocation inside a loop under contract) and get new
     * arbitrary content in every round; the callback sees them as objects of XV_CTL_NAME_OBJ / XV_CTL_LEN_MAX bytes */
    char *name = malloc(XV_CTL_NAME_OBJ + (size_t)xv_ctl_z);
    uint8_t *value = malloc(XV_CTL_LEN_MAX + (size_t)xv_ctl_z);
    __CPROVER_assume(name != NULL && value != NULL);
    while (nondet_bool())
    __CPROVER_assigns(xv_ctl_all, __CPROVER_object_whole(name), __CPROVER_object_whole(value), \
                      __CPROVER_object_upto(cb_data, XV_CTL_SIZEOF(struct ctl_proto_get_all_attr_cfm)))
    __CPROVER_loop_invariant(xv_ctl_all_n < (1UL << 40) && XV_CFM_LEN(cfm) == (xv_ctl_all_n < CTL_PROTO_MAX_ATTRS ? xv_ctl_all_n : CTL_PROTO_MAX_ATTRS))
    __CPROVER_loop_invariant(XV_CTL_ALL_ENTRY_I(cfm))
    {
        size_t namelen = nondet_size_t(), len = nondet_size_t();
        __CPROVER_assume(namelen < XV_CTL_NAME_OBJ && len <= XV_CTL_LEN_MAX && xv_ctl_all_n < (1UL << 40) - 1);
        __CPROVER_havoc_slice(name, XV_CTL_NAME_OBJ + (size_t)xv_ctl_z);
        __CPROVER_havoc_slice(value, XV_CTL_LEN_MAX + (size_t)xv_ctl_z);
#pragma CPROVER check push
#pragma CPROVER check disable "pointer"
#pragma CPROVER check disable "pointer-overflow"
#pragma CPROVER check disable "bounds"
        __CPROVER_assume(XV_SC96(name, namelen));
#pragma CPROVER check pop
        name[namelen] = 0;
        int type = nondet_int();
        if (AA_REPORTABLE(name, namelen, len)) {
            if (xv_ctl_all_n == xv_ctl_i) {
                xv_ctl_i_type = type; xv_ctl_i_len = len; xv_ctl_i_namelen = namelen;
                if (xv_mc < len) xv_ctl_i_val_mc = value[xv_mc];
                if (xv_ctl_j <= namelen) xv_ctl_i_name_j = name[xv_ctl_j];
            }
            xv_ctl_all_n++;
        }
        xv_ctl_g_len0 = cfm->attrs_len; xv_ctl_g_namelen = namelen; xv_ctl_g_len = len;
        cb(name, (enum xcm_attr_type)type, value, len, cb_data);
    }
    if (nondet_bool()) xv_errno = nondet_int();
}
#include "contracts/end.h"

#endif
