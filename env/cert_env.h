/* env/cert_env.h -- TRUSTED environment of unit `cert`: libxcm/tp/tls/cert.c, libxcm/tp/tls/item.c, common/slist.c
 * (include AFTER the real TUs; env/base.h is NOT included by this unit, see "heap" below).
 *
 * Two instantiations, selected by the job (`defs:`):
 *   default        GHOST-LENGTH strings: a string is an object of exactly L+1 bytes with its NUL at offset L, L arbitrary up
 *                  to XC_STR_MAX; "no NUL before L" and "byte for byte equal" are stated for ONE arbitrary offset, the ghost
 *                  xv_mc of prelude.h (never assigned), i.e. proved for every offset.  strlen/strchrnul/memcpy/ut_strdup/
 *                  ut_strndup are loop-free models over that vocabulary (each described at its definition).
 *   -DXV_STR_EXACT bounded stand-ins: CBMC's own strlen/strcmp/strcpy/memcpy (exact, loops closed by `pre-unwind:`), exact
 *                  ut_strdup/ut_strndup/strchrnul; the OpenSSL model then hands out ASN.1 strings of at most XV_EX_MAX bytes.
 *
 * heap: ut_malloc/ut_calloc/ut_realloc/ut_free/ut_strdup/ut_strndup/ut_load_text_file count the blocks they hand out and
 *   take back in the ghost xv_heap_live (the C08 leak oracle: "caller owns exactly these blocks"); double frees and frees of
 *   foreign pointers are obligations of CBMC's free().  ut_realloc is this unit's own model (env/base.h keeps 4 bytes and
 *   one ghost byte, which destroys the char* array of struct slist): it keeps the first XV_RW_EXACT pointer-sized words
 *   and the word at the ghost index xv_ce (never assigned), everything else ARBITRARY -- an over-approximation of realloc(3).
 *
 * OpenSSL (TRUSTED, not verified): ONE certificate (XV_CERT) is modelled lazily:
 *   subject / directory name   X509_NAME_get_text_by_NID(name, NID_commonName, ..) as crypto/x509/x509name.c: -1 if the name
 *                              has no commonName (or is NULL), else the length of the FIRST commonName's raw value
 *                              (xv_cn_len, 0..XV_ASN1_MAX, ANY bytes including NUL: ghost byte xv_cn_byte at offset xv_mc,
 *                              first NUL at offset xv_cn_z, == xv_cn_len if there is none);
 *   subjectAltName             X509_get_ext_d2i(): NULL (xv_gn_absent: no extension / not decodable) or a NEW GENERAL_NAMES
 *                              stack the caller owns (xv_gn_live) of xv_gn_num (0..INT_MAX-1) entries.  OPENSSL_sk_value()
 *                              makes up entry i when it is asked for (entries must be asked for in order, each once: an
 *                              assertion of the model): ANY type 0..8; for the three IA5String kinds an ASN1 string of
 *                              xv_asn1_len (0..XV_ASN1_MAX) ANY bytes whose first NUL is at xv_asn1_z (== len: none);
 *                              xv_asn1_nt chooses whether the byte after the data is a NUL (what OpenSSL 3.0's decoder
 *                              produces) or does not exist (all the documentation of ASN1_STRING_get0_data promises).
 *                              The model keeps the count of entries a correct traversal for type xv_gn_want has to visit
 *                              (xv_gn_match: type matches and, for names, no embedded NUL) and remembers match number
 *                              xv_want_ord (never assigned).
 *   subject key identifier     present or not (xv_ski_present); xv_ski_len (0..XV_ASN1_MAX) ANY bytes.
 *  ASSUMPTIONS: A1 lengths of ASN.1 values inside a peer certificate are < 2^24 (a TLS handshake message is);
 *   A2 a credential file is shorter than 2 GiB (item_load returns ut_load_text_file's ssize_t as int);
 *   A3 a parsed certificate's GENERAL_NAME of a string kind has a non-NULL ASN1_STRING, a directoryName a non-NULL X509_NAME.
 */
#ifndef XV_CERT_ENV_H
#define XV_CERT_ENV_H
#include <openssl/x509.h>
#include <openssl/x509v3.h>
#include "log.h"
#include "util.h"

/* ---- TRUSTED replacements of env/base.h */
bool log_is_enabled(enum log_type type) { return false; }
void log_console_conf(bool enabled) { }
void ut_fatal(void) { abort(); }
void ut_mem_exhausted(void) { abort(); }

/* ================================================================================================================ */
/* heap                                                                                                              */
/* ================================================================================================================ */
/* xv_heap_live, xv_ce, xv_dup_*, xv_ld_*: declared in harness/cert/_ghost.h (loop contracts name them) */
#define XV_LIVE_OK(c) ((c) >= 0 && (c) < (1L << 40))
#define XV_LIVE_OK2(c) ((c) >= 0 && (c) < (1L << 41))     /* range for helpers called in mid-operation */
/* TRUSTED(common/util.c) ut_malloc: malloc(3) that never fails (XCM aborts on OOM by design) */
void *ut_malloc(size_t size) { void *p = malloc(size); __CPROVER_assume(p != NULL); xv_heap_live++; return p; }
/* TRUSTED(common/util.c) ut_calloc: zeroed block */
void *ut_calloc(size_t size) { void *p = malloc(size); __CPROVER_assume(p != NULL); memset(p, 0, size); xv_heap_live++; return p; }
/* TRUSTED(common/util.c) ut_free */
void ut_free(void *ptr) { if (ptr != NULL) xv_heap_live--; free(ptr); }
/* TRUSTED(common/util.c over realloc(3)) ut_realloc: see the header comment */
#define XV_RW_EXACT 4
void *ut_realloc(void *ptr, size_t size)
{
    void **p = malloc(size);
    __CPROVER_assume(p != NULL);
    if (ptr == NULL) { xv_heap_live++; return p; }
    size_t old = __CPROVER_OBJECT_SIZE(ptr);
    size_t keep = (old < size ? old : size) / sizeof(void *);
    void **o = ptr;
    if (0 < keep) p[0] = o[0];
    if (1 < keep) p[1] = o[1];
    if (2 < keep) p[2] = o[2];
    if (3 < keep) p[3] = o[3];
    if (xv_ce < keep) p[xv_ce] = o[xv_ce];
    free(ptr);
    return p;
}

/* ================================================================================================================ */
/* strings                                                                                                           */
/* ================================================================================================================ */
#define XC_ROOM(s) (__CPROVER_OBJECT_SIZE(s) - (size_t)__CPROVER_POINTER_OFFSET(s))
#define XC_OFF(s) ((size_t)__CPROVER_POINTER_OFFSET(s))
#define XC_BASE(s) ((const char *)(s) - __CPROVER_POINTER_OFFSET(s))
/* xv_g_str (ghost, assigned only by an is_fresh of a contract's requires clause): the job's own pointer to THE string under
 * proof.  A pointer into that string which the code under proof carries through a loop contract is, for the symbolic
 * execution, a pointer to "any object" after the loop-head havoc: every read through it is a case split over all objects
 * of the program (1.6 M variables for slist_split).  The models therefore read through xv_g_str + offset when the argument
 * points into the same object (same bytes, same checks). */
#define XC_REBASE(s) (xv_g_str != NULL && __CPROVER_same_object((s), xv_g_str))
#ifndef XV_STR_EXACT
/* memcpy: the over-approximation of env/base.h (same text): exact for n <= 8, else destination ARBITRARY except at
 * offsets 0..7 and at the ghost offset xv_mc; both regions must be accessible and must not overlap */
void *memcpy(void *dst, const void *src, size_t n)
{
    __CPROVER_assert(n == 0 || __CPROVER_r_ok(src, n), "memcpy source region readable");
    __CPROVER_assert(n == 0 || __CPROVER_w_ok(dst, n), "memcpy destination region writeable");
    __CPROVER_assert(n == 0 || !__CPROVER_same_object(dst, src) || (const char *)src + n <= (const char *)dst || (const char *)dst + n <= (const char *)src, "memcpy src/dst overlap");
    const uint8_t *s_ = src; uint8_t *d_ = dst;
#define XV_CP(i) if ((i) < n) d_[i] = s_[i]
    if (n <= 8) {
        XV_CP(0); XV_CP(1); XV_CP(2); XV_CP(3); XV_CP(4); XV_CP(5); XV_CP(6); XV_CP(7);
        return dst;
    }
    uint8_t h0 = s_[0], h1 = s_[1], h2 = s_[2], h3 = s_[3], h4 = s_[4], h5 = s_[5], h6 = s_[6], h7 = s_[7];
    _Bool g = xv_mc < n; uint8_t bg = g ? s_[xv_mc] : 0;
    __CPROVER_havoc_slice(dst, n);
    d_[0] = h0; d_[1] = h1; d_[2] = h2; d_[3] = h3; d_[4] = h4; d_[5] = h5; d_[6] = h6; d_[7] = h7;
    if (g) d_[xv_mc] = bg;
    return dst;
}
/* strlen, two cases.
 * (a) the argument is the data of the ASN.1 string the OpenSSL model handed out last (xv_asn1_data): the answer is the
 *     offset of its first NUL, which the model chose (xv_asn1_z) -- TRUSTED(libc strlen over the model's bytes).  If the
 *     bytes have no NUL and none follows them (xv_asn1_nt false) strlen(3) reads past the ASN.1 value: an obligation.
 * (b) any other argument: NOT trusted.  The answer is the distance to the last byte of the argument's object, and the two
 *     facts that make this the true answer are ASSERTED at every call: that byte is a NUL, and the byte at the arbitrary
 *     offset xv_mc, if it lies in between, is not.  (Every string of this unit has its NUL at the end of its object.) */
size_t strlen(const char *s)
{
    if (xv_nm_buf != NULL && s == xv_nm_buf) {
        /* (a') the buffer X509_NAME_get_text_by_NID filled last: the offset of the first NUL of what it wrote, which the
         * model chose (xv_cn_z, or the terminator) -- TRUSTED(libc strlen over the model's bytes) */
        return (size_t)(xv_cn_z < xv_nm_fill_len - 1 ? xv_cn_z : xv_nm_fill_len - 1);
    }
    if (xv_asn1_data != NULL && __CPROVER_same_object(s, xv_asn1_data)) {
        __CPROVER_assert(s == xv_asn1_data, "strlen model: the ASN.1 data is measured from its start");
        /* PO[C10,C14] strlen.stays_inside_the_asn1_value (the value has no NUL and no NUL is promised after it: over-read) */
        __CPROVER_assert(xv_asn1_nt || xv_asn1_z < xv_asn1_len, "PO[C10,C14] foreach_san.no_read_beyond_asn1_length");
        __CPROVER_assume(xv_asn1_nt || xv_asn1_z < xv_asn1_len);
        return (size_t)xv_asn1_z;
    }
    __CPROVER_assert(__CPROVER_r_ok(s, 1), "strlen: argument readable");
    size_t room = XC_ROOM(s);
    if (XC_REBASE(s)) {
        const char *b = xv_g_str; size_t off = XC_OFF(s), end = __CPROVER_OBJECT_SIZE(xv_g_str) - 1;
        __CPROVER_assert(b[end] == 0, "strlen model: NUL at the end of the string's object");
        __CPROVER_assert(!(xv_mc >= off && xv_mc < end) || b[xv_mc] != 0, "strlen model: no NUL before the end (arbitrary position)");
        return end - off;
    }
    __CPROVER_assert(s[room - 1] == 0, "strlen model: NUL at the end of the string's object");
    __CPROVER_assert(!(xv_mc >= XC_OFF(s) && xv_mc < XC_OFF(s) + room - 1) || XC_BASE(s)[xv_mc] != 0, "strlen model: no NUL before the end (arbitrary position)");
    return room - 1;
}
/* TRUSTED(glibc strchrnul) strchrnul: over-approximation for a string whose NUL is the last byte of its object (asserted):
 * returns a position p, s <= p <= end, with *p == c or p == end, such that the byte at the arbitrary offset xv_mc, if it
 * lies in [s, p), is neither c nor NUL.  The true answer (the FIRST such position) is one of these for every xv_mc. */
char *strchrnul(const char *s, int c)
{
    __CPROVER_assert(__CPROVER_r_ok(s, 1), "strchrnul: argument readable");
    size_t n = nondet_size_t();
    if (XC_REBASE(s)) {
        /* same model, reading through the job's own pointer to the string (see XC_REBASE) */
        const char *b = xv_g_str; size_t off = XC_OFF(s), end = __CPROVER_OBJECT_SIZE(xv_g_str) - 1;
        __CPROVER_assert(b[end] == 0, "strchrnul model: NUL at the end of the string's object");
        __CPROVER_assume(n <= end - off);
        __CPROVER_assume(n == end - off || b[off + n] == (char)c);
        __CPROVER_assume(!(xv_mc >= off && xv_mc < off + n) || (b[xv_mc] != (char)c && b[xv_mc] != 0));
        xv_scn_len = n;
        return (char *)b + (off + n);
    }
    size_t room = XC_ROOM(s);
    __CPROVER_assert(s[room - 1] == 0, "strchrnul model: NUL at the end of the string's object");
    __CPROVER_assume(n <= room - 1);
    __CPROVER_assume(n == room - 1 || s[n] == (char)c);
    __CPROVER_assume(!(xv_mc >= XC_OFF(s) && xv_mc < XC_OFF(s) + n) || (XC_BASE(s)[xv_mc] != (char)c && XC_BASE(s)[xv_mc] != 0));
    xv_scn_len = n;
    return (char *)s + n;
}
/* TRUSTED(common/util.c over strdup(3)) ut_strdup: a block of exactly strlen+1 bytes; the copy is stated at offset xv_mc and
 * at the terminator, every other byte is ARBITRARY (over-approximation).  Ghost record: xv_dup_* */
char *ut_strdup(const char *str)
{
    size_t n = strlen(str);
    char *p = malloc(n + 1);
    __CPROVER_assume(p != NULL);
    xv_heap_live++;
    if (xv_mc < n) p[xv_mc] = str[xv_mc];
    p[n] = 0;
    xv_dup_calls++; xv_dup_ret = p; xv_dup_len = n; xv_dup_byte = xv_mc < n ? str[xv_mc] : 0;
    return p;
}
/* TRUSTED(common/util.c over strndup(3)) ut_strndup: copies m = min(n, offset of the first NUL) bytes and terminates.
 * Over-approximation: m is ANY value <= n such that the source has a NUL at m (or m == n) and no NUL at the arbitrary
 * offset xv_mc below m; the true m is one of these for every xv_mc.  strndup reads up to n bytes or up to the NUL: if
 * fewer than n bytes are readable the source's object must end in a NUL (asserted).  With the ghost flag xv_nd_str (never
 * assigned; set by the job of item_set_value, whose argument is a string) the answer is exact, see below. */
char *ut_strndup(const char *str, size_t n)
{
    size_t m = nondet_size_t();
    if (n == 0)
        m = 0;
    else if (xv_nd_str) {
        /* the job says the source is a ghost-length string (NOT trusted: asserted): the answer is min(n, its length) */
        __CPROVER_assert(__CPROVER_r_ok(str, 1), "strndup: source readable");
        size_t room = XC_ROOM(str);
        __CPROVER_assert(str[room - 1] == 0, "strndup model: NUL at the end of the string's object");
        m = n < room - 1 ? n : room - 1;
        __CPROVER_assert(!(xv_mc < m) || str[xv_mc] != 0, "strndup model: no NUL before the end (arbitrary position)");
    } else {
        __CPROVER_assert(__CPROVER_r_ok(str, 1), "strndup: source readable");
        size_t room = XC_ROOM(str);
        __CPROVER_assert(n <= room || str[room - 1] == 0, "strndup: n bytes readable, or the source is terminated inside its object");
        __CPROVER_assume(m <= n && m < room + (n <= room ? 1 : 0));
        __CPROVER_assume(m == n || str[m] == 0);
        __CPROVER_assume(!(xv_mc < m) || str[xv_mc] != 0);
    }
    char *p = malloc(m + 1);
    __CPROVER_assume(p != NULL);
    xv_heap_live++;
    if (xv_mc < m) p[xv_mc] = str[xv_mc];
    p[m] = 0;
    xv_dup_calls++; xv_dup_ret = p; xv_dup_len = m; xv_dup_byte = xv_mc < m ? str[xv_mc] : 0;
    return p;
}
#else /* XV_STR_EXACT: bounded stand-ins */
/* exact strchrnul (loop strchrnul.0, closed by `pre-unwind:`) */
char *strchrnul(const char *s, int c)
{
    size_t n = 0;
    while (s[n] != 0 && s[n] != (char)c)
        n++;
    return (char *)s + n;
}
/* TRUSTED(common/util.c) ut_strdup / ut_strndup: exact copies in blocks of exactly len+1 bytes */
char *ut_strdup(const char *str)
{
    size_t n = strlen(str);
    char *p = malloc(n + 1);
    __CPROVER_assume(p != NULL);
    xv_heap_live++;
    memcpy(p, str, n + 1);
    xv_dup_calls++; xv_dup_ret = p; xv_dup_len = n;
    return p;
}
char *ut_strndup(const char *str, size_t n)
{
    size_t m = 0;
    while (m < n && str[m] != 0)      /* loop ut_strndup.0 */
        m++;
    char *p = malloc(m + 1);
    __CPROVER_assume(p != NULL);
    xv_heap_live++;
    if (m > 0) memcpy(p, str, m);
    p[m] = 0;
    xv_dup_calls++; xv_dup_ret = p; xv_dup_len = m;
    return p;
}
#endif

/* TRUSTED(common/util.c:380 ut_load_text_file over fopen/fread) the file's content now, NUL-terminated, in a new block, and
 * its length + 1; or -1 with errno of fopen/fread, *data untouched (fopen failed) or NULL (read error).  A2: < 2 GiB. */
ssize_t ut_load_text_file(const char *filename, char **data)
{
    __CPROVER_assert(__CPROVER_r_ok(filename, 1), "ut_load_text_file: file name readable");
    xv_ld_calls++; xv_ld_name = filename; xv_ld_out = data;
    if (nondet_bool()) {
        int e = nondet_int(); __CPROVER_assume(e > 0); xv_errno = e;
        if (nondet_bool()) *data = NULL;
        xv_ld_ret = -1; xv_ld_data = NULL;
        return -1;
    }
    size_t n = nondet_size_t();
    __CPROVER_assume(n < XV_FILE_MAX);
    char *p = malloc(n + 1);
    __CPROVER_assume(p != NULL);
    xv_heap_live++;
    p[n] = 0;
    *data = p;
    xv_ld_ret = (long)n + 1; xv_ld_data = p;
    return (ssize_t)n + 1;
}

/* ================================================================================================================ */
/* OpenSSL: the certificate                                                                                          */
/* ================================================================================================================ */
static char xv_cert_obj, xv_subj_obj, xv_gns_obj, xv_ski_obj;
#define XV_CERT ((X509 *)&xv_cert_obj)
#define XV_SUBJ ((X509_NAME *)&xv_subj_obj)
#define XV_GNS ((OPENSSL_STACK *)&xv_gns_obj)
#define XV_SKI ((ASN1_OCTET_STRING *)&xv_ski_obj)
void *nondet_voidp(void);

/* TRUSTED(OpenSSL) X509_get_subject_name: the certificate's subject (never NULL for a parsed certificate; NULL is handed out
 * too when xv_subj_null: X509_NAME_get_text_by_NID tolerates it) */
X509_NAME *X509_get_subject_name(const X509 *a)
{
    __CPROVER_assert(a == XV_CERT, "X509_get_subject_name: the certificate");
    xv_subj_calls++;
    return xv_subj_null ? NULL : XV_SUBJ;
}
/* TRUSTED(OpenSSL crypto/x509/x509name.c X509_NAME_get_text_by_OBJ) */
int X509_NAME_get_text_by_NID(const X509_NAME *name, int nid, char *buf, int len)
{
    __CPROVER_assert(nid == NID_commonName, "X509_NAME_get_text_by_NID: commonName");
    xv_nm_calls++; xv_nm_name = name;
    if (name == NULL || !xv_cn_present)
        return -1;
    if (buf == NULL)
        return xv_cn_len;
    if (len <= 0)
        return 0;
    int i = xv_cn_len > len - 1 ? len - 1 : xv_cn_len;
    __CPROVER_assert(__CPROVER_w_ok(buf, (size_t)i + 1), "X509_NAME_get_text_by_NID: buffer of len bytes writable");
    /* the i bytes copied are ANY bytes: the whole object buf points into becomes arbitrary (more than OpenSSL writes: an
     * over-approximation; __CPROVER_havoc_slice of up to 2^24 bytes exhausts the solver's memory), then byte xv_mc and the NUL */
    __CPROVER_havoc_object(buf);
    if (xv_mc < (size_t)i) buf[xv_mc] = xv_cn_byte;
    if (xv_cn_z >= 0 && xv_cn_z < i) buf[xv_cn_z] = 0;         /* the value's first NUL, if it has one (xv_cn_z == xv_cn_len: none) */
    buf[i] = 0;
#ifdef XV_STR_EXACT
    xv_ex_cn[0] = buf[0]; xv_ex_cn[1] = i > 0 ? buf[1] : 0; xv_ex_cn[2] = 0;
#endif
    xv_nm_fills++; xv_nm_fill_name = name; xv_nm_buf = buf; xv_nm_fill_len = len;
    return i;
}

/* TRUSTED(OpenSSL) X509_get_ext_d2i(cert, NID_subject_alt_name, NULL, NULL): NULL or a new stack owned by the caller.
 * The objects the entries will refer to are made HERE (DFCC does not admit allocation inside a loop that carries a loop
 * contract, and OPENSSL_sk_value is called from foreach_san's loop):
 *   xv_asn1_buf  (made by xc_ghost_havoc(), harness/cert/_ghost.h) xv_asn1_cap (1..XV_ASN1_MAX+1, arbitrary) bytes: the data of the entry handed out last occupies its LAST
 *                len (+1 with xv_asn1_nt) bytes, so that a read past the data is a read past the object; every entry's
 *                length is 0..cap-(nt), i.e. any lengths at all, cap being arbitrary;
 *   xv_id_base   xv_gn_num+1 bytes: entry i's ASN1_STRING / X509_NAME is the (opaque) address xv_id_base + i: distinct
 *                entries have distinct identities */
void *X509_get_ext_d2i(const X509 *x, int nid, int *crit, int *idx)
{
    __CPROVER_assert(x == XV_CERT && nid == NID_subject_alt_name && crit == NULL && idx == NULL, "X509_get_ext_d2i: subjectAltName of the certificate");
    xv_d2i_calls++;
    if (xv_gn_absent)
        return NULL;
    xv_gn_live++;
    xv_gn_next = 0;
    xv_id_base = malloc((size_t)xv_gn_num + 1);
    __CPROVER_assume(xv_id_base != NULL);
    return XV_GNS;
}
/* TRUSTED(OpenSSL crypto/stack) OPENSSL_sk_num: -1 for NULL */
int OPENSSL_sk_num(const OPENSSL_STACK *st)
{
    if (st == NULL)
        return -1;
    __CPROVER_assert(st == XV_GNS && xv_gn_live > 0, "OPENSSL_sk_num: a live GENERAL_NAMES stack");
    return xv_gn_num;
}
#ifdef XV_STR_EXACT
#define XV_EX_MAX 2
#endif
/* TRUSTED(OpenSSL) OPENSSL_sk_value: entry idx (NULL out of range); see the header comment for what an entry is */
void *OPENSSL_sk_value(const OPENSSL_STACK *st, int idx)
{
    if (st == NULL)
        return NULL;
    __CPROVER_assert(st == XV_GNS && xv_gn_live > 0, "OPENSSL_sk_value: a live GENERAL_NAMES stack");
    if (idx < 0 || idx >= xv_gn_num)
        return NULL;
    __CPROVER_assert(idx == xv_gn_next, "model: GENERAL_NAMES entries are asked for in order, each once");
    xv_gn_next = idx + 1;
    int t = nondet_int();
    __CPROVER_assume(t >= 0 && t <= 8);
    xv_gn_ent.type = t;
    _Bool match = 0;
    xv_asn1_str = NULL; xv_asn1_data = NULL; xv_asn1_len = 0; xv_asn1_z = 0; xv_gn_cur_byte = 0;
    if (t == GEN_DNS || t == GEN_EMAIL || t == GEN_URI) {
        int len = nondet_int(), z = nondet_int(), nt = xv_asn1_nt ? 1 : 0;
#ifdef XV_STR_EXACT
        __CPROVER_assume(len >= 0 && len <= XV_EX_MAX && len <= xv_asn1_cap - nt);
#else
        __CPROVER_assume(len >= 0 && len <= xv_asn1_cap - nt);
#endif
        __CPROVER_havoc_object(xv_asn1_buf);
        char *d = xv_asn1_buf + (xv_asn1_cap - nt - len);
        if (nt) d[len] = 0;
#ifdef XV_STR_EXACT
        z = len;
        if (len > 1 && d[1] == 0) z = 1;
        if (len > 0 && d[0] == 0) z = 0;
        if (idx < 3) { xv_ex_str[idx][0] = len > 0 ? d[0] : 0; xv_ex_str[idx][1] = len > 1 ? d[1] : 0; xv_ex_str[idx][2] = 0; }
#else
        __CPROVER_assume(z >= 0 && z <= len);
        if (z < len) d[z] = 0;
        __CPROVER_assume(!(xv_mc < (size_t)z) || d[xv_mc] != 0);
#endif
        xv_gn_ent.d.ia5 = (ASN1_IA5STRING *)(xv_id_base + idx);
        xv_asn1_str = (const ASN1_STRING *)(xv_id_base + idx); xv_asn1_data = d; xv_asn1_len = len; xv_asn1_z = z;
        xv_gn_cur_byte = xv_mc < (size_t)len ? d[xv_mc] : 0;
        xv_gn_cur_payload = d;
        match = t == xv_gn_want && z == len;
    } else if (t == GEN_DIRNAME) {
        xv_gn_ent.d.dirn = (X509_NAME *)(xv_id_base + idx);
        xv_gn_cur_payload = xv_id_base + idx;
        match = t == xv_gn_want;
    } else {
        xv_gn_ent.d.ptr = nondet_voidp();
        xv_gn_cur_payload = NULL;
    }
    xv_gn_cur_match = match;
#ifdef XV_STR_EXACT
    if (idx < 3) xv_ex_match[idx] = match;
#endif
    if (match) {
        if (xv_gn_match == xv_want_ord) { xv_gn_k_payload = xv_gn_cur_payload; xv_gn_k_len = (size_t)xv_asn1_len; xv_gn_k_byte = xv_gn_cur_byte; }
        xv_gn_match++;
    }
    return &xv_gn_ent;
}
/* TRUSTED(OpenSSL) sk_GENERAL_NAME_pop_free(exts, GENERAL_NAME_free): releases the stack and its entries (NULL: no-op) */
void OPENSSL_sk_pop_free(OPENSSL_STACK *st, OPENSSL_sk_freefunc func)
{
    xv_gn_free_calls++;
    if (st == NULL)
        return;
    __CPROVER_assert(st == XV_GNS && xv_gn_live > 0, "OPENSSL_sk_pop_free: a live GENERAL_NAMES stack (no double free)");
    __CPROVER_assert(func == (OPENSSL_sk_freefunc)GENERAL_NAME_free, "OPENSSL_sk_pop_free: entries released with GENERAL_NAME_free");
    xv_gn_live--;
    xv_asn1_str = NULL; xv_asn1_data = NULL; xv_gn_cur_payload = NULL; xv_gn_cur_match = 0;
}
/* TRUSTED(OpenSSL) ASN1_STRING_length / ASN1_STRING_get0_data: of the current entry's string, or of the key identifier */
int ASN1_STRING_length(const ASN1_STRING *x)
{
    __CPROVER_assert(x != NULL, "ASN1_STRING_length: non-NULL string (OpenSSL dereferences it)");
    if (x == (const ASN1_STRING *)XV_SKI)
        return xv_ski_len;
    __CPROVER_assert(x == xv_asn1_str, "ASN1_STRING_length: the string of the entry handed out last");
    return xv_asn1_len;
}
const unsigned char *ASN1_STRING_get0_data(const ASN1_STRING *x)
{
    __CPROVER_assert(x != NULL, "ASN1_STRING_get0_data: non-NULL string (OpenSSL dereferences it)");
    if (x == (const ASN1_STRING *)XV_SKI) {
        unsigned char *d = malloc((size_t)xv_ski_len);
        __CPROVER_assume(d != NULL);
        if (xv_mc < (size_t)xv_ski_len) d[xv_mc] = xv_ski_byte;
        xv_ski_data_calls++;
        return d;
    }
    __CPROVER_assert(x == xv_asn1_str, "ASN1_STRING_get0_data: the string of the entry handed out last");
    return (const unsigned char *)xv_asn1_data;
}
/* TRUSTED(OpenSSL) X509_get0_subject_key_id: NULL if the certificate has no subjectKeyIdentifier */
const ASN1_OCTET_STRING *X509_get0_subject_key_id(X509 *x)
{
    __CPROVER_assert(x == XV_CERT, "X509_get0_subject_key_id: the certificate");
    xv_ski_calls++;
    return xv_ski_present ? XV_SKI : NULL;
}
#endif
