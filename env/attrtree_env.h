/* env/attrtree_env.h -- TRUSTED stubs of what libxcm/core/attr_tree.c calls outside its own text and outside
 * attr_node.c / attr_path.c (include AFTER the real TUs, env/base.h and env/attrpath_env.h, which provides ut_strdup and
 * strlen).
 *
 *   ut_asprintf   TRUSTED(common/util.c: vasprintf that aborts on failure): EXACT text for the two call shapes of
 *                 attr_tree.c, "%s%c%s" (dictionary key path) and "%s%c%zd%c" (list index path), selected by argument
 *                 count through the macro in harness/attrtree/_unit.h.  The result is a fresh heap block of exactly
 *                 strlen+1 bytes.  %zd prints its size_t argument as a signed number (glibc); the bounded jobs only
 *                 produce indices 0..9 and the model ASSERTS that (one digit).
 */
#ifndef XV_ATTRTREE_ENV_H
#define XV_ATTRTREE_ENV_H
#define XV_ATR_EQ(f, lit, i) ((i) >= sizeof(lit) || (f)[i] == (lit)[(i) < sizeof(lit) ? (i) : 0])
#define XV_ATR_FMT(f, lit) __CPROVER_assert(XV_ATR_EQ(f, lit, 0) && XV_ATR_EQ(f, lit, 1) && XV_ATR_EQ(f, lit, 2) && XV_ATR_EQ(f, lit, 3) && XV_ATR_EQ(f, lit, 4) && \
        XV_ATR_EQ(f, lit, 5) && XV_ATR_EQ(f, lit, 6) && XV_ATR_EQ(f, lit, 7) && XV_ATR_EQ(f, lit, 8) && XV_ATR_EQ(f, lit, 9), "XV ut_asprintf model: format is " lit)
char *xv_atr_asprintf_scs(const char *f, const char *a, int c, const char *b)     /* "%s%c%s" */
{
    XV_ATR_FMT(f, "%s%c%s");
    size_t la = strlen(a), lb = strlen(b), i;
    char *r = malloc(la + 1 + lb + 1);
    __CPROVER_assume(r != NULL);
    for (i = 0; i < la; i++)      /* loop xv_atr_asprintf_scs.0 */
        r[i] = a[i];
    r[la] = (char)c;
    for (i = 0; i <= lb; i++)     /* loop xv_atr_asprintf_scs.1 */
        r[la + 1 + i] = b[i];
    return r;
}
char *xv_atr_asprintf_sczc(const char *f, const char *a, int c, size_t v, int d)  /* "%s%c%zd%c" */
{
    XV_ATR_FMT(f, "%s%c%zd%c");
    __CPROVER_assert(v <= 9, "XV ut_asprintf model: one-digit index");
    size_t la = strlen(a), i;
    char *r = malloc(la + 4);
    __CPROVER_assume(r != NULL);
    for (i = 0; i < la; i++)      /* loop xv_atr_asprintf_sczc.0 */
        r[i] = a[i];
    r[la] = (char)c; r[la + 1] = (char)('0' + v); r[la + 2] = (char)d; r[la + 3] = 0;
    return r;
}
#endif
