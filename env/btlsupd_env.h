/* env/btlsupd_env.h -- TRUSTED environment of unit btlsupd (the event-registration and lifecycle half of
 * libxcm/tp/tls/xcm_tp_btls.c).  Included AFTER the real TU, env/ssl_env.h and contracts/btls.h.
 *
 * harness/btlsupd/_unit.h redirects seven callees of the TU to the models below (the models of the same functions in
 * env/ssl_env.h / contracts/btls.h only count calls; C04/C16/C08 need to know WHICH object was addressed, in WHICH order, and
 * in which typestate the btcp sub-socket was):
 *
 *   xcm_tp_socket_update/_server/_close/_cleanup/_destroy   xcm_tp.c over the btcp transport -> xvu_low_*
 *   xpoll_bell_reg_mod/_del                                  xpoll.c                           -> xvu_bell_mod/_del
 *   SSL_has_pending, SSL_shutdown                            OpenSSL                           -> xvu_ssl_has_pending/_shutdown
 *   btls_to_btcp                                             common_tp.c                       -> xvu_btls_to_btcp
 *
 * ONE btls socket is under proof.  The objects it owns are named by ghost constants that are NEVER assigned (bound to the
 * socket's fields by the requires clause of the contract under proof): xvu_low (its btcp sub-socket), xvu_xpoll / xvu_bell_id
 * (its bell registration), xvu_ssl (its SSL).  A call that addresses anything else is counted in xvu.foreign.
 *
 * Typestate of the btcp sub-socket (the rule of xcm_tp.h: "Upon failed 'connect', 'server' or 'accept' calls, the socket will
 * be left in a cleaned-up state, and 'close' need not be called.  In all other situations, 'close' must be called"):
 *      INIT --server ok--> LIVE        INIT/LIVE --close|cleanup--> CLOSED       any but DESTROYED --destroy--> DESTROYED
 *      INIT --server fails--> FAILED
 *   close/cleanup in any other state, any call on a DESTROYED socket, a second destroy: assertion (misuse);
 *   destroy in INIT/LIVE (a close is still owed: descriptors, epoll registrations, a bound port are lost): counted in xvu.low_leaks.
 */
#ifndef XV_BTLSUPD_ENV_H
#define XV_BTLSUPD_ENV_H

enum { XVL_INIT = 1, XVL_LIVE, XVL_FAILED, XVL_CLOSED, XVL_DESTROYED };

struct xvu_rec {
    /* the btcp sub-socket */
    int low_st;                                  /* typestate */
    long low_updates; int low_upd_cond;          /* xcm_tp_socket_update calls; the sub-socket's `condition` when the last one ran */
    long low_servers; int low_server_rv; _Bool low_server_addr_ok;   /* xcm_tp_socket_server calls; last result; address == the one btls_to_btcp produced */
    long low_closes, low_cleanups, low_destroys; /* calls */
    long low_leaks;                              /* destroyed while a close was owed */
    /* the bell */
    long bell_mods; _Bool bell_ringing;          /* xpoll_bell_reg_mod calls on the socket's registration; last value */
    long bell_dels;                              /* xpoll_bell_reg_del calls on the socket's registration */
    /* the SSL */
    long pending_calls;                          /* SSL_has_pending calls on the socket's SSL */
    long shutdowns; int shutdown_low_st;         /* SSL_shutdown calls on the socket's SSL; typestate of the sub-socket when the last one ran */
    /* the address conversion */
    long addr_calls; int addr_rv; const char *addr_buf; const char *addr_in;
    /* calls that addressed some OTHER sub-socket / bell registration / SSL */
    long foreign;
} xvu;

/* ghost constants, NEVER assigned */
struct xcm_socket *xvu_low;     /* the btcp sub-socket of the socket under proof */
struct xpoll *xvu_xpoll;        /* its xpoll instance */
int xvu_bell_id;                /* its bell registration */
const SSL *xvu_ssl;             /* its SSL */
_Bool xvu_has_pending;          /* what SSL_has_pending() says about that SSL during the call under proof */
_Bool xvu_null;                 /* the call under proof is made with a NULL socket (close/cleanup) */
int xvu_in_st, xvu_in_c, xvu_in_sc, xvu_in_sw;  /* conn_update's inputs: conn.state, s->condition, conn.ssl_condition, conn.ssl_wants */

void *nondet_voidp_u(void); char nondet_char_u(void);
static inline void xvu_havoc(void)
{
    xvu.low_st = nondet_int(); xvu.low_updates = nondet_long(); xvu.low_upd_cond = nondet_int();
    xvu.low_servers = nondet_long(); xvu.low_server_rv = nondet_int(); xvu.low_server_addr_ok = nondet_bool();
    xvu.low_closes = nondet_long(); xvu.low_cleanups = nondet_long(); xvu.low_destroys = nondet_long(); xvu.low_leaks = nondet_long();
    xvu.bell_mods = nondet_long(); xvu.bell_ringing = nondet_bool(); xvu.bell_dels = nondet_long();
    xvu.pending_calls = nondet_long(); xvu.shutdowns = nondet_long(); xvu.shutdown_low_st = nondet_int();
    xvu.addr_calls = nondet_long(); xvu.addr_rv = nondet_int(); xvu.addr_buf = nondet_voidp_u(); xvu.addr_in = nondet_voidp_u();
    xvu.foreign = nondet_long();
    xvu_low = nondet_voidp_u(); xvu_xpoll = nondet_voidp_u(); xvu_bell_id = nondet_int(); xvu_ssl = nondet_voidp_u();
    xvu_has_pending = nondet_bool(); xvu_null = nondet_bool();
    xvu_in_st = nondet_int(); xvu_in_c = nondet_int(); xvu_in_sc = nondet_int(); xvu_in_sw = nondet_int();
}
#define XVU_CNT_MAX (1L << 40)
#define XVU_C(c) ((c) >= 0 && (c) < XVU_CNT_MAX)
#define XVU_RANGE (XVU_C(xvu.low_updates) && XVU_C(xvu.low_servers) && XVU_C(xvu.low_closes) && XVU_C(xvu.low_cleanups) && XVU_C(xvu.low_destroys) && \
                   XVU_C(xvu.low_leaks) && XVU_C(xvu.bell_mods) && XVU_C(xvu.bell_dels) && XVU_C(xvu.pending_calls) && XVU_C(xvu.shutdowns) && \
                   XVU_C(xvu.addr_calls) && XVU_C(xvu.foreign))
#define XVL_OWES (xvu.low_st == XVL_INIT || xvu.low_st == XVL_LIVE)

/* ---- the btcp sub-socket ------------------------------------------------------------------------------------------ */
/* TRUSTED(xcm xcm_tp.c + xcm_tp_btcp.c) xcm_tp_socket_update: runs the sub-socket's update(), which turns the `condition` the
 * sub-socket holds AT THAT MOMENT into epoll registrations (enforced in unit btcp: conn_update.ready_exact_mask, server_update) */
void xvu_low_update(struct xcm_socket *s)
{
    if (s != xvu_low) { xvu.foreign++; return; }
    __CPROVER_assert(XVL_OWES, "xcm_tp_socket_update: on a sub-socket that is initialised or live (not failed, closed or destroyed)");
    xvu.low_updates++;
    xvu.low_upd_cond = s->condition;
}
/* TRUSTED(xcm xcm_tp.c + xcm_tp_btcp.c) xcm_tp_socket_server: binds the sub-socket, or fails (-1, errno > 0) leaving it cleaned up */
int xvu_low_server(struct xcm_socket *s, const char *local_addr)
{
    if (s != xvu_low) { xvu.foreign++; xv_errno = EINVAL; return -1; }
    __CPROVER_assert(xvu.low_st == XVL_INIT, "xcm_tp_socket_server: on an initialised sub-socket, once");
    __CPROVER_assert(local_addr != NULL && __CPROVER_r_ok(local_addr, 1), "xcm_tp_socket_server: address string given");
    xvu.low_servers++;
    xvu.low_server_addr_ok = (local_addr == xvu.addr_buf && xvu.addr_rv == 0);
    if (nondet_bool()) {
        int e = nondet_int(); __CPROVER_assume(e > 0); xv_errno = e;
        xvu.low_st = XVL_FAILED; xvu.low_server_rv = -1;
        return -1;
    }
    xvu.low_st = XVL_LIVE; xvu.low_server_rv = 0;
    return 0;
}
/* TRUSTED(xcm xcm_tp.c + xcm_tp_btcp.c) xcm_tp_socket_close: NULL is a no-op; releases what the sub-socket holds (descriptor,
 * epoll registrations, ...) and, for a connection, says goodbye to the peer */
void xvu_low_close(struct xcm_socket *s)
{
    if (s == NULL) return;
    if (s != xvu_low) { xvu.foreign++; return; }
    __CPROVER_assert(XVL_OWES, "xcm_tp_socket_close: only on a sub-socket that owes a close (initialised or live; not after a failed server/connect/accept, not twice, not destroyed)");
    xvu.low_st = XVL_CLOSED;
    xvu.low_closes++;
}
/* TRUSTED(xcm xcm_tp.c + xcm_tp_btcp.c) xcm_tp_socket_cleanup: the forked child's variant of close (process-local resources only) */
void xvu_low_cleanup(struct xcm_socket *s)
{
    if (s == NULL) return;
    if (s != xvu_low) { xvu.foreign++; return; }
    __CPROVER_assert(XVL_OWES, "xcm_tp_socket_cleanup: only on a sub-socket that owes a close (initialised or live; not twice, not destroyed)");
    xvu.low_st = XVL_CLOSED;
    xvu.low_cleanups++;
}
/* TRUSTED(xcm xcm_tp.c) xcm_tp_socket_destroy: returns the sub-socket's memory (NULL is a no-op); nothing it still holds is released */
void xvu_low_destroy(struct xcm_socket *s)
{
    if (s == NULL) return;
    if (s != xvu_low) { xvu.foreign++; return; }
    __CPROVER_assert(xvu.low_st >= XVL_INIT && xvu.low_st <= XVL_CLOSED, "xcm_tp_socket_destroy: not twice");
    if (XVL_OWES) xvu.low_leaks++;
    xvu.low_st = XVL_DESTROYED;
    xvu.low_destroys++;
}

/* ---- the bell ----------------------------------------------------------------------------------------------------- */
/* TRUSTED(xcm xpoll.c) xpoll_bell_reg_mod: a ringing bell keeps the socket's descriptor readable (enforced in unit xpoll) */
void xvu_bell_mod(struct xpoll *xpoll, int reg_id, bool ringing)
{
    if (xpoll != xvu_xpoll || reg_id != xvu_bell_id) { xvu.foreign++; return; }
    xvu.bell_mods++;
    xvu.bell_ringing = ringing ? 1 : 0;
}
/* TRUSTED(xcm xpoll.c) xpoll_bell_reg_del */
void xvu_bell_del(struct xpoll *xpoll, int reg_id)
{
    if (xpoll != xvu_xpoll || reg_id != xvu_bell_id) { xvu.foreign++; return; }
    xvu.bell_dels++;
}

/* ---- OpenSSL ------------------------------------------------------------------------------------------------------ */
/* TRUSTED(OpenSSL) SSL_has_pending: whether processed or unprocessed data is buffered inside the SSL.  A pure observer: calls
 * without an SSL operation in between give the same answer (the ghost constant xvu_has_pending, any value) */
int xvu_ssl_has_pending(const SSL *s)
{
    if (s != xvu_ssl) { xvu.foreign++; return nondet_bool() ? 1 : 0; }
    xvu.pending_calls++;
    return xvu_has_pending ? 1 : 0;
}
/* TRUSTED(OpenSSL) SSL_shutdown: sends close_notify through the BIO, i.e. through the btcp sub-socket (which therefore must
 * still be open: recorded); any result, errno arbitrary; XCM ignores the result */
int xvu_ssl_shutdown(SSL *s)
{
    int en = nondet_int(); __CPROVER_assume(en >= 0); xv_errno = en;
    int r = nondet_int(); __CPROVER_assume(r >= -1 && r <= 1);
    if (s != xvu_ssl) { xvu.foreign++; return r; }
    xvu.shutdowns++;
    xvu.shutdown_low_st = xvu.low_st;
    return r;
}

/* ---- addresses ---------------------------------------------------------------------------------------------------- */
/* TRUSTED(xcm common_tp.c) btls_to_btcp: refuses the address (EINVAL / ENAMETOOLONG) or writes the btcp form into the buffer */
int xvu_btls_to_btcp(const char *btls_addr, char *btcp_addr, size_t capacity)
{
    __CPROVER_assert(capacity >= 1 && __CPROVER_w_ok(btcp_addr, capacity), "btls_to_btcp: output buffer writeable");
    xvu.addr_calls++; xvu.addr_buf = btcp_addr; xvu.addr_in = btls_addr;
    if (nondet_bool()) { xv_errno = nondet_bool() ? EINVAL : ENAMETOOLONG; xvu.addr_rv = -1; return -1; }
    __CPROVER_havoc_slice(btcp_addr, capacity);
    btcp_addr[capacity - 1] = '\0';
    xvu.addr_rv = 0;
    return 0;
}
/* ================================================================================================================ */
/* C10 jobs only (harness/btlsupd/_c10.h defines XVU_C10 and the ghost-length string models)                         */
/* ================================================================================================================ */
#ifdef XVU_C10
#include "cert.h"
/* ghost constants, NEVER assigned: what the peer certificate holds */
size_t xvg_nnames;          /* number of subject names (CN + DNS SANs) */
size_t xvg_nsan;            /* number of SANs of the type asked for */
_Bool xvg_has_ski; size_t xvg_ski_len;      /* subject key identifier: present?, its length */
_Bool xvg_no_str;           /* cert_get_subject_field_cn / cert_get_san / cert_get_dir_cn find nothing (NULL) */
struct xvg_rec {
    long names_calls; struct slist *names_list;     /* cert_get_subject_names */
    long join_calls; const struct slist *join_list; char *join_str;   /* slist_join */
    long cn_calls, count_calls, san_calls, dir_calls; int san_type; size_t san_index;
    long has_ski_calls, ski_len_calls, ski_calls; void *ski_buf;
    long tp_str_calls, tp_bin_calls, tp_bool_calls;
} xvg;
static inline void xvg_havoc(void)
{
    xvg_len = nondet_size_t(); xvg_c_j = nondet_char_u(); xvg_strcpy_calls = nondet_long(); xvg_strcpy_dst = nondet_voidp_u();
    xvg_nnames = nondet_size_t(); xvg_nsan = nondet_size_t(); xvg_has_ski = nondet_bool(); xvg_ski_len = nondet_size_t(); xvg_no_str = nondet_bool();
    xvg.names_calls = nondet_long(); xvg.names_list = nondet_voidp_u(); xvg.join_calls = nondet_long(); xvg.join_list = nondet_voidp_u(); xvg.join_str = nondet_voidp_u();
    xvg.cn_calls = nondet_long(); xvg.count_calls = nondet_long(); xvg.san_calls = nondet_long(); xvg.dir_calls = nondet_long(); xvg.san_type = nondet_int(); xvg.san_index = nondet_size_t();
    xvg.has_ski_calls = nondet_long(); xvg.ski_len_calls = nondet_long(); xvg.ski_calls = nondet_long(); xvg.ski_buf = nondet_voidp_u();
    xvg.tp_str_calls = nondet_long(); xvg.tp_bin_calls = nondet_long(); xvg.tp_bool_calls = nondet_long();
}
#define XVG_RANGE (XVU_C(xvg_strcpy_calls) && XVU_C(xvg.names_calls) && XVU_C(xvg.join_calls) && XVU_C(xvg.cn_calls) && XVU_C(xvg.count_calls) && XVU_C(xvg.san_calls) && \
                   XVU_C(xvg.dir_calls) && XVU_C(xvg.has_ski_calls) && XVU_C(xvg.ski_len_calls) && XVU_C(xvg.ski_calls) && XVU_C(xvg.tp_str_calls) && XVU_C(xvg.tp_bin_calls) && XVU_C(xvg.tp_bool_calls))
/* a fresh NUL-terminated string of the ghost length xvg_len whose character at the arbitrary position xv_j is xvg_c_j (not NUL) */
static char *xvg_mkstr(void)
{
    char *r = malloc(xvg_len + 1);
    __CPROVER_assume(r != NULL);
    r[xvg_len] = 0;
    if (xv_j >= 0 && (size_t)xv_j < xvg_len) r[xv_j] = xvg_c_j;
    return r;
}
#define XVG_CERT_LIVE(cert) __CPROVER_assert((cert) == XV_X509 && xv_x509_refs > 0, "cert.c: called with the peer certificate while a reference to it is held")
/* TRUSTED(xcm cert.c) cert_get_subject_names: a new list of the certificate's subject names (possibly empty) */
struct slist *cert_get_subject_names(X509 *cert)
{
    XVG_CERT_LIVE(cert);
    struct slist *l = malloc(1); __CPROVER_assume(l != NULL);
    xvg.names_calls++; xvg.names_list = l;
    xv_slist_n = xvg_nnames;
    return l;
}
/* TRUSTED(xcm slist.c) slist_join: a fresh NUL-terminated string (the elements joined by the delimiter) */
char *slist_join(const struct slist *slist, char delim)
{
    __CPROVER_assert(slist != NULL, "slist_join: list given");
    xvg.join_calls++; xvg.join_list = slist;
    xvg.join_str = xvg_mkstr();
    return xvg.join_str;
}
/* TRUSTED(xcm cert.c) cert_get_subject_field_cn: the CN as a fresh string, or NULL */
char *cert_get_subject_field_cn(X509 *cert) { XVG_CERT_LIVE(cert); xvg.cn_calls++; return xvg_no_str ? NULL : xvg_mkstr(); }
/* TRUSTED(xcm cert.c) cert_count_san: how many SANs of that type */
size_t cert_count_san(X509 *cert, enum cert_san_type san_type) { XVG_CERT_LIVE(cert); xvg.count_calls++; xvg.san_type = (int)san_type; return xvg_nsan; }
/* TRUSTED(xcm cert.c) cert_get_san / cert_get_dir_cn: the index-th SAN of that type as a fresh string, or NULL */
char *cert_get_san(X509 *cert, enum cert_san_type san_type, size_t index)
{
    XVG_CERT_LIVE(cert);
    __CPROVER_assert(index < xvg_nsan && (int)san_type == xvg.san_type, "cert_get_san: index below the count reported for that type");
    xvg.san_calls++; xvg.san_index = index;
    return xvg_no_str ? NULL : xvg_mkstr();
}
char *cert_get_dir_cn(X509 *cert, size_t index)
{
    XVG_CERT_LIVE(cert);
    __CPROVER_assert(index < xvg_nsan && xvg.san_type == (int)cert_san_type_dir, "cert_get_dir_cn: index below the count reported for directory names");
    xvg.dir_calls++; xvg.san_index = index;
    return xvg_no_str ? NULL : xvg_mkstr();
}
/* TRUSTED(xcm cert.c) cert_has_ski / cert_get_ski_len / cert_get_ski: the subject key identifier: cert_get_ski stores exactly
 * cert_get_ski_len() bytes into the caller's buffer */
bool cert_has_ski(X509 *cert) { XVG_CERT_LIVE(cert); xvg.has_ski_calls++; return xvg_has_ski; }
size_t cert_get_ski_len(X509 *cert) { XVG_CERT_LIVE(cert); __CPROVER_assert(xvg_has_ski, "cert_get_ski_len: certificate has an SKI"); xvg.ski_len_calls++; return xvg_ski_len; }
void cert_get_ski(X509 *cert, void *buf)
{
    XVG_CERT_LIVE(cert);
    __CPROVER_assert(xvg_has_ski, "cert_get_ski: certificate has an SKI");
    __CPROVER_assert(xvg_ski_len == 0 || __CPROVER_w_ok(buf, xvg_ski_len), "cert_get_ski: room for the whole SKI");
    xvg.ski_calls++; xvg.ski_buf = buf;
    if (xvg_ski_len > 0) {
        __CPROVER_havoc_slice(buf, xvg_ski_len);
        if (xv_j >= 0 && (size_t)xv_j < xvg_ski_len) ((char *)buf)[xv_j] = xvg_c_j;
    }
}
/* TRUSTED(xcm xcm_tp.c) xcm_tp_get_str_attr / xcm_tp_get_bin_attr / xcm_tp_get_bool_attr: same text as xcm_tp.c (enforced in unit
 * tpcore), with strlen/strcpy the ghost-length models */
int xcm_tp_get_str_attr(const char *value, void *buf, size_t capacity)
{
    xvg.tp_str_calls++;
    size_t len = xvg_strlen(value);
    if (len >= capacity) { xv_errno = EOVERFLOW; return -1; }
    xvg_strcpy(buf, value);
    return len + 1;
}
int xcm_tp_get_bin_attr(const char *value, size_t len, void *buf, size_t capacity)
{
    xvg.tp_bin_calls++;
    if (len > capacity) { xv_errno = EOVERFLOW; return -1; }
    memcpy(buf, value, len);
    return len;
}
int xcm_tp_get_bool_attr(bool value, void *buf, size_t capacity)
{
    xvg.tp_bool_calls++;
    if (capacity < sizeof(bool)) { xv_errno = EOVERFLOW; return -1; }
    memcpy(buf, &value, sizeof(bool));
    return sizeof(bool);
}
#endif

#endif
