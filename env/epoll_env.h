/* env/epoll_env.h -- TRUSTED model of epoll(7), eventfd(2) and of the mutex wrappers of common/util.c
 * (include AFTER the real TU and after env/base.h; pulls in env/fd.h for the descriptor table, close(), ut_close()).
 *
 * Ghost kernel interest list of ONE epoll instance, the descriptor xv_epfd: one entry per slot of the descriptor table
 * of env/fd.h (every descriptor the library owns is < XV_NFD in that model, so the table is exact, not a sample):
 *      xv_ep[fd].in    fd is in the interest list          xv_ep[fd].mask   with these events
 * A descriptor that is closed leaves every interest list (kernel: when the last reference goes): membership is therefore
 * read through XV_EP_IN(fd) = "open and in"; eventfd()/epoll_create1() clear the entry of the slot they hand out.
 *   epoll_create1  ANY free slot or failure with ANY errno (EMFILE, ENFILE, ENOMEM ...); the new instance is empty
 *   epoll_ctl      obligation: called on xv_epfd, which the library owns and has open.  fd closed / not ours -> EBADF,
 *                  fd == epfd -> EINVAL, ADD of a member -> EEXIST, MOD/DEL of a non-member -> ENOENT, otherwise the
 *                  list is updated and 0 returned.
 *                  NOT modelled (TRUSTED assumption, stated in evidence): ENOMEM / ENOSPC (max_user_watches) of
 *                  EPOLL_CTL_ADD -- epoll_ctl is not among the resource-creating calls C08 quantifies over; define
 *                  XV_EPOLL_CTL_EXHAUST to let ADD fail that way as well (reg_epoll_mod then aborts, by design of
 *                  its ut_assert(rc == 0)).
 *   eventfd        ANY free slot or failure with ANY errno; ghost record of initval/flags of the last call and, per
 *                  slot, whether the descriptor is an eventfd whose counter is non-zero (= readable until read(2),
 *                  which nothing in the library calls on it)
 *   ut_mutex_lock/unlock   ghost `held` flag: lock asserts not held (self-deadlock on a non-recursive mutex), unlock
 *                  asserts held and the same mutex; counters; optional hooks xv_on_lock()/xv_on_unlock() (defined by
 *                  the unit when XV_LOCK_HOOKS is set) snapshot the shared state at both ends of the critical section.
 */
#ifndef XV_ENV_EPOLL_H
#define XV_ENV_EPOLL_H

#include <sys/epoll.h>
#include <sys/eventfd.h>
#include <pthread.h>
#include "env/fd.h"

/* The ghosts are grouped in three objects so that an assigns clause names few targets:  xv_epg -- interest list + record of epoll_ctl/epoll_create1;  xv_evg -- eventfd flags +
 * record of eventfd();  xv_lkg -- lock state.  The field macros below keep the individual names. */
struct xv_ep_entry { _Bool in; uint32_t mask; };
struct xv_ep_ghost { struct xv_ep_entry e[XV_NFD]; int epfd; int epcreate_calls; int epctl_calls, epctl_op, epctl_fd, epctl_ret, epctl_errno; };
struct xv_ev_ghost { _Bool readable[XV_NFD]; int eventfd_calls; unsigned eventfd_init; int eventfd_flags; };
struct xv_lk_ghost { _Bool held; int acqs, rels; const void *obj; };
/* ghost knob (never assigned by a stub; arbitrary after xv_epoll_havoc): a bounded stand-in that sets it assumes that eventfd(2)
 * finds a free slot and does not fail.  No job counted as proof sets it. */
_Bool xv_eventfd_ok;
struct xv_ep_ghost xv_epg;
struct xv_ev_ghost xv_evg;
struct xv_lk_ghost xv_lkg;
#define xv_ep xv_epg.e
#define xv_epfd xv_epg.epfd                     /* the epoll instance the ghost list belongs to (assigned by epoll_create1 only) */
#define xv_epcreate_calls xv_epg.epcreate_calls
#define xv_epctl_calls xv_epg.epctl_calls
#define xv_epctl_op xv_epg.epctl_op
#define xv_epctl_fd xv_epg.epctl_fd
#define xv_epctl_ret xv_epg.epctl_ret
#define xv_epctl_errno xv_epg.epctl_errno
#define xv_evfd_readable xv_evg.readable        /* slot is an eventfd with a non-zero counter */
#define xv_eventfd_calls xv_evg.eventfd_calls
#define xv_eventfd_init xv_evg.eventfd_init
#define xv_eventfd_flags xv_evg.eventfd_flags
#define xv_lock_held xv_lkg.held
#define xv_lock_acqs xv_lkg.acqs
#define xv_lock_rels xv_lkg.rels
#define xv_lock_obj xv_lkg.obj

struct xv_ep_ghost nondet_xv_ep_ghost(void);
struct xv_ev_ghost nondet_xv_ev_ghost(void);
struct xv_lk_ghost nondet_xv_lk_ghost(void);
/* every harness using this file calls xv_fd_havoc(); xv_epoll_havoc(); right after xv_ghost_havoc() */
static inline void xv_epoll_havoc(void)
{
    xv_epg = nondet_xv_ep_ghost(); xv_evg = nondet_xv_ev_ghost(); xv_lkg = nondet_xv_lk_ghost(); xv_eventfd_ok = nondet_bool();
}

#define XV_EP_IN(fd) (XV_FD_OURS(fd) && xv_ep[fd].in)
#define XV_EP_GHOST_RANGE (XV_CNT_OK(xv_epcreate_calls) && XV_CNT_OK(xv_epctl_calls) && XV_CNT_OK(xv_eventfd_calls) && \
                           XV_CNT_OK(xv_lock_acqs) && XV_CNT_OK(xv_lock_rels))

#define XV_EPCTL_ASSIGNS xv_errno, __CPROVER_object_whole(&xv_epg)
#define XV_EPCREATE_ASSIGNS xv_errno, __CPROVER_object_whole(&xv_epg), __CPROVER_object_whole(&xv_evg), XV_FDT_ASSIGNS
#define XV_EVENTFD_ASSIGNS xv_errno, __CPROVER_object_whole(&xv_epg), __CPROVER_object_whole(&xv_evg), XV_FDT_ASSIGNS
#define XV_LOCK_ASSIGNS __CPROVER_object_whole(&xv_lkg)

/* TRUSTED(kernel) epoll_create1(2) */
int epoll_create1(int flags)
{
    xv_epcreate_calls++;
    int fd = xv_new_fd(0, 0);
    if (fd < 0)
        return -1;
    xv_epfd = fd;
    xv_evfd_readable[fd] = 0;
    /* the new instance's interest list is empty (written out: no loop in a stub) */
    xv_ep[0].in = 0; xv_ep[1].in = 0; xv_ep[2].in = 0; xv_ep[3].in = 0;
    xv_ep[4].in = 0; xv_ep[5].in = 0; xv_ep[6].in = 0; xv_ep[7].in = 0;
    return fd;
}

/* TRUSTED(kernel) epoll_ctl(2) */
int epoll_ctl(int epfd, int op, int fd, struct epoll_event *event)
{
    __CPROVER_assert(epfd == xv_epfd && XV_FD_OURS(epfd), "C08 epoll_ctl() on the epoll instance this xpoll created and still has open");
    __CPROVER_assume(epfd == xv_epfd && XV_FD_OURS(epfd));
    __CPROVER_assert(op == EPOLL_CTL_ADD || op == EPOLL_CTL_MOD || op == EPOLL_CTL_DEL, "epoll_ctl() operation is ADD, MOD or DEL");
    __CPROVER_assert(op == EPOLL_CTL_DEL || __CPROVER_r_ok(event, sizeof(*event)), "epoll_ctl() event readable for ADD/MOD");
    xv_epctl_calls++; xv_epctl_op = op; xv_epctl_fd = fd;
    int e = 0;
    if (!XV_FD_OURS(fd))
        e = EBADF;
    else if (fd == epfd)
        e = EINVAL;
    else if (op == EPOLL_CTL_ADD) {
        if (xv_ep[fd].in)
            e = EEXIST;
#ifdef XV_EPOLL_CTL_EXHAUST
        else if (nondet_bool())
            e = nondet_bool() ? ENOMEM : ENOSPC;
#endif
        else {
            xv_ep[fd].in = 1; xv_ep[fd].mask = event->events;
        }
    } else if (op == EPOLL_CTL_MOD) {
        if (!xv_ep[fd].in)
            e = ENOENT;
        else
            xv_ep[fd].mask = event->events;
    } else {
        if (!xv_ep[fd].in)
            e = ENOENT;
        else
            xv_ep[fd].in = 0;
    }
    if (e != 0) {
        xv_errno = e; xv_epctl_errno = e; xv_epctl_ret = -1;
        return -1;
    }
    xv_epctl_ret = 0;
    return 0;
}

/* TRUSTED(kernel) eventfd(2) */
int eventfd(unsigned int initval, int flags)
{
    xv_eventfd_calls++; xv_eventfd_init = initval; xv_eventfd_flags = flags;
    int fd = xv_new_fd((flags & EFD_NONBLOCK) != 0, 0);
    if (xv_eventfd_ok)
        __CPROVER_assume(fd >= 0);
    if (fd < 0)
        return -1;
    xv_ep[fd].in = 0;                       /* a new open file description is in no interest list */
    xv_evfd_readable[fd] = initval != 0;
    return fd;
}

/* TRUSTED(common/util.c + pthread) ut_mutex_lock / ut_mutex_unlock on a non-recursive mutex */
#ifdef XV_LOCK_HOOKS
static void xv_on_lock(void);
static void xv_on_unlock(void);
#endif
void ut_mutex_lock(pthread_mutex_t *m)
{
    __CPROVER_assert(!xv_lock_held, "C15 lock is not taken while already held (self-deadlock)");
    __CPROVER_assume(!xv_lock_held);
    xv_lock_held = 1; xv_lock_acqs++; xv_lock_obj = m;
#ifdef XV_LOCK_HOOKS
    xv_on_lock();
#endif
}
void ut_mutex_unlock(pthread_mutex_t *m)
{
    __CPROVER_assert(xv_lock_held && xv_lock_obj == m, "C15 unlock of the mutex this thread holds");
    __CPROVER_assume(xv_lock_held);
#ifdef XV_LOCK_HOOKS
    xv_on_unlock();
#endif
    xv_lock_held = 0; xv_lock_rels++;
}

#endif
