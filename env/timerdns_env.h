/* env/timerdns_env.h -- TRUSTED environment of the unit timerdns
 *      part TM  : libxcm/core/timer_mgr.c          (define XV_TD_TM  before including)
 *      part DNS : libxcm/tp/dns/xcm_dns_cares.c    (define XV_TD_DNS before including)
 * Include AFTER the real TU and after env/base.h.  Ghost objects: harness/timerdns/_ghost.h.
 *
 * Both parts: xpoll_fd_reg_add / xpoll_fd_reg_del (libxcm/core/xpoll.c, cut away; their contracts are ENFORCED by unit xpoll):
 *      bodies that keep the ghost registration table xv_xr and turn the CALLER obligations of those contracts into
 *      obligations here: a non-negative descriptor that is not registered yet / a registration id that is live (no double
 *      deregistration).
 * TM:  timerfd_create(2), timerfd_settime(2) (kernel), ut_ftime / ut_timespec_to_f / ut_f_to_timespec (common/util.c, same
 *      text + ghost record), clock_gettime(2).  Descriptor table, close(), ut_close(): env/fd.h, reused unchanged.
 * DNS: c-ares 1.18 (ares_*), ut_strdup, ut_timeval_to_f.
 */
#ifndef XV_ENV_TIMERDNS_H
#define XV_ENV_TIMERDNS_H

#include <sys/epoll.h>
#include "xpoll.h"
double nondet_double(void);

/* TRUSTED(libxcm/core/xpoll.c) xpoll_fd_reg_add: registers `fd` for `event`, returns ANY id that names no live registration;
 * never fails (it aborts when epoll refuses -- F22/epoll exhaustion are unit xpoll's business); errno untouched. */
int xpoll_fd_reg_add(struct xpoll *xpoll, int fd, int event)
{
    __CPROVER_assert(xpoll != NULL, "xpoll_fd_reg_add: xpoll instance");
    __CPROVER_assert(fd >= 0 && event >= 0, "xpoll_fd_reg_add: caller obligation: valid descriptor and event mask");
    __CPROVER_assert(fd != xv_rf || !xv_xr.rf_live, "xpoll_fd_reg_add: caller obligation: descriptor not registered already (C16)");
    int id = nondet_int();
    __CPROVER_assume(id >= 0 && (id != xv_rk || !xv_xr.rk_live) && (!xv_xr.rf_live || id != xv_xr.rf_id));
    xv_xr.regs++; xv_xr.adds++; xv_xr.add_fd = fd; xv_xr.add_event = event; xv_xr.add_id = id;
    if (id == xv_rk) { xv_xr.rk_live = 1; xv_xr.rk_fd = fd; xv_xr.rk_event = event; }
    if (fd == xv_rf) { xv_xr.rf_live = 1; xv_xr.rf_id = id; xv_xr.rf_event = event; }
    return id;
}
/* TRUSTED(libxcm/core/xpoll.c) xpoll_fd_reg_del: errno untouched */
void xpoll_fd_reg_del(struct xpoll *xpoll, int reg_id)
{
    __CPROVER_assert(xpoll != NULL, "xpoll_fd_reg_del: xpoll instance");
    __CPROVER_assert(reg_id >= 0 && xv_xr.regs > 0, "C08 xpoll_fd_reg_del: caller obligation: a registration id");
    __CPROVER_assert(reg_id != xv_rk || xv_xr.rk_live, "C08 xpoll_fd_reg_del: caller obligation: the registration is live (released exactly once)");
    xv_xr.regs--; xv_xr.dels++; xv_xr.del_id = reg_id;
    if (reg_id == xv_rk) xv_xr.rk_live = 0;
    if (xv_xr.rf_live && reg_id == xv_xr.rf_id) xv_xr.rf_live = 0;
}

/* ==================================================================================================================== */
#ifdef XV_TD_TM
#include <sys/timerfd.h>
#include <time.h>
#include "env/fd.h"

/* TRUSTED(kernel) timerfd_create(2): ANY free slot of the descriptor table or failure with ANY errno (EMFILE, ENFILE, ENOMEM,
 * ENODEV, EINVAL ...); a new timer is disarmed */
int timerfd_create(int clockid, int flags)
{
    xv_tt.creates++; xv_tt.c_clock = clockid; xv_tt.c_flags = flags;
    int fd = xv_new_fd((flags & TFD_NONBLOCK) != 0, 0);
    if (fd >= 0) xv_tt.armed = 0;
    return fd;
}
/* TRUSTED(kernel) timerfd_settime(2): fails (EINVAL) exactly when a field of new_value is not canonical (tv_sec < 0 or
 * tv_nsec outside 0..999999999) or flags is invalid; EBADF/EFAULT are obligations here; ECANCELED needs TFD_TIMER_CANCEL_ON_SET. */
int timerfd_settime(int fd, int flags, const struct itimerspec *new_value, struct itimerspec *old_value)
{
    XV_FD_USE(fd, "C08 timerfd_settime() on a descriptor the library owns and has open");
    __CPROVER_assert(__CPROVER_r_ok(new_value, sizeof(*new_value)), "timerfd_settime() new_value readable");
    __CPROVER_assert(old_value == NULL || __CPROVER_w_ok(old_value, sizeof(*old_value)), "timerfd_settime() old_value writeable");
    xv_tt.set_n++; xv_tt.set_fd = fd; xv_tt.set_flags = flags; xv_tt.set_old_null = old_value == NULL;
    xv_tt.set_sec = new_value->it_value.tv_sec; xv_tt.set_nsec = new_value->it_value.tv_nsec;
    xv_tt.set_isec = new_value->it_interval.tv_sec; xv_tt.set_insec = new_value->it_interval.tv_nsec;
    if ((flags & ~(TFD_TIMER_ABSTIME | TFD_TIMER_CANCEL_ON_SET)) != 0 ||
        xv_tt.set_sec < 0 || xv_tt.set_nsec < 0 || xv_tt.set_nsec > 999999999L ||
        xv_tt.set_isec < 0 || xv_tt.set_insec < 0 || xv_tt.set_insec > 999999999L) {
        xv_errno = EINVAL;
        return -1;
    }
    if (old_value != NULL) __CPROVER_havoc_object(old_value);
    xv_tt.armed = xv_tt.set_sec != 0 || xv_tt.set_nsec != 0;
    return 0;
}
#ifdef XV_TD_REAL_CLOCK
/* TRUSTED(kernel) clock_gettime(2): CLOCK_MONOTONIC never fails; any canonical value */
int clock_gettime(clockid_t clk, struct timespec *ts)
{
    long s = nondet_long(), ns = nondet_long();
    __CPROVER_assume(s >= 0 && s <= 1000000000000000L && ns >= 0 && ns <= 999999999L);
    ts->tv_sec = s; ts->tv_nsec = ns;
    return 0;
}
/* TRUSTED(common/util.c) same text */
double ut_timespec_to_f(const struct timespec *ts)
{
    return (double)ts->tv_sec + (double)ts->tv_nsec / 1e9;
}
/* TRUSTED(common/util.c) same text + ghost record */
double ut_ftime(void)
{
    struct timespec now;
    clock_gettime(CLOCK_MONOTONIC, &now);
    double r = ut_timespec_to_f(&now);
    xv_tt.now = r; xv_tt.now_n++;
    return r;
}
#else
/* TRUSTED(common/util.c, kernel CLOCK_MONOTONIC) ut_ftime: ANY time 0..XV_NOW_MAX seconds that is not before the time the
 * last call reported (monotone); ghost record.  (The real text divides tv_nsec by 1e9: a double division per call costs the
 * SAT back end minutes; -DXV_TD_REAL_CLOCK selects the same-text version above.) */
double ut_ftime(void)
{
    double t = nondet_double();
    __CPROVER_assume(t >= xv_tt.now && t <= XV_NOW_MAX);
    xv_tt.now = t; xv_tt.now_n++;
    return t;
}
#endif
/* TRUSTED(common/util.c) ut_f_to_timespec: same text + ghost record.  The conversion of a double outside the range of time_t
 * is undefined behaviour (C99 6.3.1.4): obligation. */
void ut_f_to_timespec(double t, struct timespec *ts)
{
    __CPROVER_assert(t > -9.2e18 && t < 9.2e18, "ut_f_to_timespec: value representable as time_t (C99 6.3.1.4: otherwise undefined)");
    __CPROVER_assume(t > -9.2e18 && t < 9.2e18);
    ts->tv_sec = t;
    ts->tv_nsec = (t - ts->tv_sec) * 1e9;
    xv_tt.f2ts_in = t; xv_tt.f2ts_sec = ts->tv_sec; xv_tt.f2ts_nsec = ts->tv_nsec; xv_tt.f2ts_n++;
}
#endif /* XV_TD_TM */

/* ==================================================================================================================== */
#ifdef XV_TD_DNS
#include <ares.h>
#include <sys/time.h>
#include <netinet/in.h>
/* TRUSTED(c-ares 1.18) -- ASSUMPTIONS of the model (everything else is nondeterministic):
 *  A1  no out-of-memory inside c-ares (ARES_ENOMEM is never reported; XCM aborts on OOM by design) and the library has been
 *      initialised (ares_library_init in the constructor): ares_init_options returns ARES_SUCCESS or ARES_EFILE.
 *  A2  the callback registered with ares_getaddrinfo is made EXACTLY ONCE: synchronously inside ares_getaddrinfo (literal
 *      addresses, hosts-file hits, malformed names), or inside a later ares_process_fd/ares_process, or -- status
 *      ARES_EDESTRUCTION, no result -- inside ares_destroy.  With ANY status other than ARES_ENOMEM; with ARES_SUCCESS comes a
 *      result list (the functions that read the list, get_ips/query_cb, are verified against lists of ANY length 0..XV_NODES_MAX
 *      built by their harnesses; here only the list head exists because query_cb is replaced by its contract).
 *  A3  ares_getsock reports pairwise different, non-negative descriptors, none of them the timer manager's timerfd or any
 *      other descriptor that is registered with the xpoll instance at that moment (update_xpoll has dropped the query's own
 *      registrations before it asks; what is still registered belongs to somebody else).
 *  A4  ares_destroy / ares_freeaddrinfo / ares_timeout / ares_getsock leave errno alone; ares_getaddrinfo and ares_process*
 *      do socket I/O: errno is ARBITRARY afterwards.
 *  A5  the callback status is never ARES_ENOTIMP: c-ares documents it for an address family it cannot look up, and the library
 *      passes no hints (query_cb states the same with ut_assert).  Checked natively against the installed c-ares 1.18.1 with a
 *      fake name server on 127.0.0.1:53 answering every query with rcode NOTIMP: 22 retries, then a clean failure status
 *      (xcm_finish: ENOENT), no abort.
 *  A6  ARES_SUCCESS comes with a list of at least one node.  Checked natively the same way with CNAME-only answers (no address
 *      record): c-ares reports a failure status, not success with an empty list.  (The first version of this model allowed
 *      both and reported two violations that no c-ares behaviour backs: corrected here, see DESIGN.md 9.)
 *  c-ares' own descriptors are not in the descriptor table of env/fd.h (the library under proof never creates or closes them).
 */
struct ares_channeldata { int xv_live; };
static void query_cb(void *arg, int status, int timeouts, struct ares_addrinfo *result);
static int xv_ares_any_status(void)
{
    int st = nondet_int();
    /* (ARES_ECANCELLED is the status of lookups ended by ares_cancel(), which the library never calls) */
    __CPROVER_assume(st >= ARES_SUCCESS && st <= ARES_ESERVICE && st != ARES_ENOMEM && st != ARES_EDESTRUCTION && st != ARES_ECANCELLED && st != ARES_ENOTIMP /* A5 */);
    return st;
}
/* the callback of the outstanding lookup is made now */
static void xv_ares_complete(int status)
{
    struct ares_addrinfo *res = NULL;
    if (status == ARES_SUCCESS) {
        res = malloc(sizeof(struct ares_addrinfo));
        __CPROVER_assume(res != NULL);
        xv_ar.results++;
        int n = nondet_int();          /* ANY list length (the list itself is not built: see A2) */
        __CPROVER_assume(n >= 1 /* A6 */ && n <= XV_NODES_MAX);
        xv_ar.cb_nodes = n;
    }
    xv_ar.pending = 0; xv_ar.cb_n++; xv_ar.cb_status = status;
    query_cb(xv_ar.arg, status, nondet_int(), res);
}
int ares_init_options(ares_channel *channelptr, struct ares_options *options, int optmask)
{
    __CPROVER_assert(__CPROVER_w_ok(channelptr, sizeof(*channelptr)) && __CPROVER_r_ok(options, sizeof(*options)), "ares_init_options() arguments accessible");
    xv_ar.inits++; xv_ar.optmask = optmask; xv_ar.tries = options->tries; xv_ar.timeout_ms = options->timeout;
    if (nondet_bool())
        return ARES_EFILE;
    struct ares_channeldata *c = malloc(sizeof(struct ares_channeldata));
    __CPROVER_assume(c != NULL);
    c->xv_live = 1;
    *channelptr = c;
    xv_ar.channels++; xv_ar.pending = 0;
    return ARES_SUCCESS;
}
#define XV_ARES_USE(ch, what) __CPROVER_assert(__CPROVER_rw_ok(ch, sizeof(struct ares_channeldata)) && (ch)->xv_live == 1, what ": a live channel")
void ares_getaddrinfo(ares_channel channel, const char *name, const char *service, const struct ares_addrinfo_hints *hints,
                      ares_addrinfo_callback callback, void *arg)
{
    XV_ARES_USE(channel, "ares_getaddrinfo()");
    __CPROVER_assert(name != NULL && __CPROVER_r_ok(name, 1), "ares_getaddrinfo() name readable");
    __CPROVER_assert(callback == query_cb, "ares_getaddrinfo() callback is query_cb");
    xv_ar.gai_n++; xv_ar.arg = arg;
    xv_errno = nondet_int();
    if (nondet_bool()) xv_ares_complete(xv_ares_any_status());
    else xv_ar.pending = 1;
}
void ares_process_fd(ares_channel channel, ares_socket_t read_fd, ares_socket_t write_fd)
{
    XV_ARES_USE(channel, "ares_process_fd()");
    xv_ar.process_fd_n++; xv_ar.pfd_r = read_fd; xv_ar.pfd_w = write_fd;
    if ((read_fd != ARES_SOCKET_BAD && read_fd == xv_ar.gs_fd) || (write_fd != ARES_SOCKET_BAD && write_fd == xv_ar.gs_fd)) xv_ar.pfd_j++;
    xv_errno = nondet_int();
    if (xv_ar.pending && nondet_bool()) xv_ares_complete(xv_ares_any_status());
}
void ares_process(ares_channel channel, fd_set *read_fds, fd_set *write_fds)
{
    XV_ARES_USE(channel, "ares_process()");
    xv_ar.process_n++;
    xv_errno = nondet_int();
    if (xv_ar.pending && nondet_bool()) xv_ares_complete(xv_ares_any_status());
}
/* slot i is in use iff one of its two bits is set in the mask; (1u << 31 is the WRITABLE bit of slot 15) */
#define XV_GS_R(mask, i) (((mask) >> (i)) & 1)
#define XV_GS_W(mask, i) (((mask) >> ((i) + ARES_GETSOCK_MAXNUM)) & 1)
#define XV_GS_USED(mask, i) (XV_GS_R(mask, i) | XV_GS_W(mask, i))
int ares_getsock(ares_channel channel, ares_socket_t *socks, int numsocks)
{
    XV_ARES_USE(channel, "ares_getsock()");
    __CPROVER_assert(numsocks == ARES_GETSOCK_MAXNUM && __CPROVER_w_ok(socks, sizeof(ares_socket_t) * ARES_GETSOCK_MAXNUM), "ares_getsock() array of 16 descriptors writeable");
    xv_ar.getsock_n++;
    int mask = nondet_int();
    unsigned same = 0;
#define XV_GS_SLOT(i) { int fd_ = nondet_int(); __CPROVER_assume(fd_ >= 0 && fd_ != xv_tmg.mgr_fd && (fd_ != xv_rf || !xv_xr.rf_live)); \
                        if (XV_GS_USED(mask, i)) { socks[i] = fd_; if (fd_ == xv_rf) same++; } }
    XV_GS_SLOT(0) XV_GS_SLOT(1) XV_GS_SLOT(2) XV_GS_SLOT(3) XV_GS_SLOT(4) XV_GS_SLOT(5) XV_GS_SLOT(6) XV_GS_SLOT(7)
    XV_GS_SLOT(8) XV_GS_SLOT(9) XV_GS_SLOT(10) XV_GS_SLOT(11) XV_GS_SLOT(12) XV_GS_SLOT(13) XV_GS_SLOT(14) XV_GS_SLOT(15)
    __CPROVER_assume(same <= 1);        /* A3: xv_rf is ANY descriptor, so "at most one slot holds xv_rf" = pairwise different */
    xv_ar.gs_mask = mask;
    if (xv_j >= 0 && xv_j < ARES_GETSOCK_MAXNUM) xv_ar.gs_fd = socks[xv_j];
    return mask;
}
struct timeval *ares_timeout(ares_channel channel, struct timeval *maxtv, struct timeval *tv)
{
    XV_ARES_USE(channel, "ares_timeout()");
    __CPROVER_assert(__CPROVER_w_ok(tv, sizeof(*tv)), "ares_timeout() tv writeable");
    xv_ar.timeout_n++;
    if (nondet_bool()) { xv_ar.to_null = maxtv == NULL; xv_ar.to_ptr = maxtv; return maxtv; }
    long s = nondet_long(), us = nondet_long();
    __CPROVER_assume(s >= 0 && s <= 0x7fffffffL && us >= 0 && us <= 999999L);
    tv->tv_sec = s; tv->tv_usec = us;
    xv_ar.to_null = 0; xv_ar.to_sec = s; xv_ar.to_usec = us; xv_ar.to_ptr = tv;
    return tv;
}
void ares_destroy(ares_channel channel)
{
    XV_ARES_USE(channel, "C08 ares_destroy() (destroyed exactly once)");
    xv_ar.destroys++; xv_ar.channels--;
    if (xv_ar.pending) {
        xv_ar.pending = 0; xv_ar.cb_n++; xv_ar.cb_status = ARES_EDESTRUCTION;
        query_cb(xv_ar.arg, ARES_EDESTRUCTION, 0, NULL);
    }
    channel->xv_live = 0;
    free(channel);
}
/* (the nodes of the list are c-ares' business: only the head is released in the model) */
void ares_freeaddrinfo(struct ares_addrinfo *ai)
{
    __CPROVER_assert(ai != NULL && xv_ar.results > 0, "C08 ares_freeaddrinfo() of a result list handed to the callback (given back exactly once)");
    xv_ar.free_n++; xv_ar.results--;
    free(ai);
}
const char *ares_strerror(int code) { return "?"; }

/* TRUSTED(common/util.c) ut_timeval_to_f: ANY non-negative finite number of seconds (the real text divides tv_usec by 1e6:
 * a double division; the value itself plays no role in what is proved); ghost record of the timeval it was given */
double ut_timeval_to_f(const struct timeval *tv)
{
    __CPROVER_assert(__CPROVER_r_ok(tv, sizeof(*tv)), "ut_timeval_to_f() argument readable");
    double r = nondet_double();
    __CPROVER_assume(r >= 0 && r <= 1e10);
    xv_ar.tv2f_n++; xv_ar.tv2f_sec = tv->tv_sec; xv_ar.tv2f_usec = tv->tv_usec; xv_ar.tv2f_ret = r;
    return r;
}
/* TRUSTED(common/util.c, libc strdup) ut_strdup: a heap copy (never fails); the text is not modelled (only logging and c-ares read it) */
char *ut_strdup(const char *str)
{
    __CPROVER_assert(str != NULL && __CPROVER_r_ok(str, 1), "ut_strdup() argument readable");
    size_t n = nondet_size_t();
    __CPROVER_assume(n >= 1 && n <= 256);
    char *p = malloc(n);
    __CPROVER_assume(p != NULL);
    p[n - 1] = '\0';
    return p;
}
#endif /* XV_TD_DNS */

#endif
