/* env/timerdns_env.h -- TRUSTED environment of the unit timerdns
 *      part TM  : libxcm/core/timer_mgr.c          (define XV_TD_TM  before including)
 *      part DNS : libxcm/tp/dns/xcm_dns_cares.c    (define XV_TD_DNS before including)
 * Include AFTER the real TU and after env/base.h.  Ghost objects: harness/timerdns/_ghost.h.
 *
 * Both parts: xpoll_fd_reg_add / xpoll_fd_reg_del (libxcm/core/xpoll.c, cut away; their contracts are ENFORCED by unit xpoll):
 *      bodies that keep the ghost registration table xv_xr and turn the CALLER obligations of those contracts into
 *      obligations here: a non-negative descriptor that is not registered yet / a registration id that is live (no double
 *      deregistration).
 * TM:  timerfd_create(2), timerfd_settime(2) (kernel), ut_ftime / ut_timespec_to_f / ut_f_to_timespec (common/util.c, same
 *      text + ghost record), clock_gettime(2).  Descriptor table, close(), ut_close(): env/fd.h, reused unchanged.
 * DNS: c-ares 1.18 (ares_*), ut_strdup, ut_timeval_to_f.
 */
#ifndef XV_ENV_TIMERDNS_H
#define XV_ENV_TIMERDNS_H

#include <sys/epoll.h>
#include "xpoll.h"
double nondet_double(void);

/* TRUSTED(libxcm/core/xpoll.c) xpoll_fd_reg_add: registers `fd` for `event`, returns ANY id that names no live registration;
 * never fails (it aborts when epoll refuses -- F22/epoll exhaustion are unit xpoll's business); errno untouched. */
int xpoll_fd_reg_add(struct xpoll *xpoll, int fd, int event)
{
    __CPROVER_assert(xpoll != NULL, "xpoll_fd_reg_add: xpoll instance");
    __CPROVER_assert(fd >= 0 && event >= 0, "xpoll_fd_reg_add: caller obligation: valid descriptor and event mask");
    __CPROVER_assert(fd != xv_rf || !xv_xr.rf_live, "xpoll_fd_reg_add: caller obligation: descriptor not registered already (C16)");
    int id = nondet_int();
    __CPROVER_assume(id >= 0 && (id != xv_rk || !xv_xr.rk_live) && (!xv_xr.rf_live || id != xv_xr.rf_id));
    xv_xr.regs++; xv_xr.adds++; xv_xr.add_fd = fd; xv_xr.add_event = event; xv_xr.add_id = id;
    if (id == xv_rk) { xv_xr.rk_live = 1; xv_xr.rk_fd = fd; xv_xr.rk_event = event; }
    if (fd == xv_rf) { xv_xr.rf_live = 1; xv_xr.rf_id = id; xv_xr.rf_event = event; }
    return id;
}
/* TRUSTED(libxcm/core/xpoll.c) xpoll_fd_reg_del: errno untouched */
void xpoll_fd_reg_del(struct xpoll *xpoll, int reg_id)
{
    __CPROVER_assert(xpoll != NULL, "xpoll_fd_reg_del: xpoll instance");
    __CPROVER_assert(reg_id >= 0 && xv_xr.regs > 0, "C08 xpoll_fd_reg_del: caller obligation: a registration id");
    __CPROVER_assert(reg_id != xv_rk || xv_xr.rk_live, "C08 xpoll_fd_reg_del: caller obligation: the registration is live (released exactly once)");
    xv_xr.regs--; xv_xr.dels++; xv_xr.del_id = reg_id;
    if (reg_id == xv_rk) xv_xr.rk_live = 0;
    if (xv_xr.rf_live && reg_id == xv_xr.rf_id) xv_xr.rf_live = 0;
}

/* ==================================================================================================================== */
#ifdef XV_TD_TM
#include <sys/timerfd.h>
#include <time.h>
#include "env/fd.h"

/* TRUSTED(kernel) timerfd_create(2): ANY free slot of the descriptor table or failure with ANY errno (EMFILE, ENFILE, ENOMEM,
 * ENODEV, EINVAL ...); a new timer is disarmed */
int timerfd_create(int clockid, int flags)
{
    xv_tt.creates++; xv_tt.c_clock = clockid; xv_tt.c_flags = flags;
    int fd = xv_new_fd((flags & TFD_NONBLOCK) != 0, 0);
    if (fd >= 0) xv_tt.armed = 0;
    return fd;
}
/* TRUSTED(kernel) timerfd_settime(2): fails (EINVAL) exactly when a field of new_value is not canonical (tv_sec < 0 or
 * tv_nsec outside 0..999999999) or flags is invalid; EBADF/EFAULT are obligations here; ECANCELED needs TFD_TIMER_CANCEL_ON_SET. */
int timerfd_settime(int fd, int flags, const struct itimerspec *new_value, struct itimerspec *old_value)
{
    XV_FD_USE(fd, "C08 timerfd_settime() on a descriptor the library owns and has open");
    __CPROVER_assert(__CPROVER_r_ok(new_value, sizeof(*new_value)), "timerfd_settime() new_value readable");
    __CPROVER_assert(old_value == NULL || __CPROVER_w_ok(old_value, sizeof(*old_value)), "timerfd_settime() old_value writeable");
    xv_tt.set_n++; xv_tt.set_fd = fd; xv_tt.set_flags = flags; xv_tt.set_old_null = old_value == NULL;
    xv_tt.set_sec = new_value->it_value.tv_sec; xv_tt.set_nsec = new_value->it_value.tv_nsec;
    xv_tt.set_isec = new_value->it_interval.tv_sec; xv_tt.set_insec = new_value->it_interval.tv_nsec;
    if ((flags & ~(TFD_TIMER_ABSTIME | TFD_TIMER_CANCEL_ON_SET)) != 0 ||
        xv_tt.set_sec < 0 || xv_tt.set_nsec < 0 || xv_tt.set_nsec > 999999999L ||
        xv_tt.set_isec < 0 || xv_tt.set_insec < 0 || xv_tt.set_insec > 999999999L) {
        xv_errno = EINVAL;
        return -1;
    }
    if (old_value != NULL) __CPROVER_havoc_object(old_value);
    xv_tt.armed = xv_tt.set_sec != 0 || xv_tt.set_nsec != 0;
    return 0;
}
#ifdef XV_TD_REAL_CLOCK
/* TRUSTED(kernel) clock_gettime(2): CLOCK_MONOTONIC never fails; any canonical value */
int clock_gettime(clockid_t clk, struct timespec *ts)
{
    long s = nondet_long(), ns = nondet_long();
    __CPROVER_assume(s >= 0 && s <= 1000000000000000L && ns >= 0 && ns <= 999999999L);
    ts->tv_sec = s; ts->tv_nsec = ns;
    return 0;
}
/* TRUSTED(common/util.c) same text */
double ut_timespec_to_f(const struct timespec *ts)
{
    return (double)ts->tv_sec + (double)ts->tv_nsec / 1e9;
}
/* TRUSTED(common/util.c) same text + ghost record */
double ut_ftime(void)
{
    struct timespec now;
    clock_gettime(CLOCK_MONOTONIC, &now);
    double r = ut_timespec_to_f(&now);
    xv_tt.now = r; xv_tt.now_n++;
    return r;
}
#else
/* TRUSTED(common/util.c, kernel CLOCK_MONOTONIC) ut_ftime: ANY time 0..XV_NOW_MAX seconds that is not before the time the
 * last call reported (monotone); ghost record.  (The real text divides tv_nsec by 1e9: a double division per call costs the
 * SAT back end minutes; -DXV_TD_REAL_CLOCK selects the same-text version above.) */
double ut_ftime(void)
{
    double t = nondet_double();
    __CPROVER_assume(t >= xv_tt.now && t <= XV_NOW_MAX);
    xv_tt.now = t; xv_tt.now_n++;
    return t;
}
#endif
/* TRUSTED(common/util.c) ut_f_to_timespec: same text + ghost record.  The conversion of a double outside the range of time_t
 * is undefined behaviour (C99 6.3.1.4): obligation. */
void ut_f_to_timespec(double t, struct timespec *ts)
{
    __CPROVER_assert(t > -9.2e18 && t < 9.2e18, "ut_f_to_timespec: value representable as time_t (C99 6.3.1.4: otherwise undefined)");
    __CPROVER_assume(t > -9.2e18 && t < 9.2e18);
    ts->tv_sec = t;
    ts->tv_nsec = (t - ts->tv_sec) * 1e9;
    xv_tt.f2ts_in = t; xv_tt.f2ts_sec = ts->tv_sec; xv_tt.f2ts_nsec = ts->tv_nsec; xv_tt.f2ts_n++;
}
#endif /* XV_TD_TM */

#endif
