/* env/utilctl_env.h -- environment of unit utilctl (common/util.c, common/common_ctl.c, libxcmctl/xcmc.c); include AFTER
 * the real TU(s).  Everything in here is TRUSTED: stub bodies of kernel / libc calls with nondeterministic results and a
 * ghost record of what they were asked to do.  Every stub over-approximates the real call (any result the real one may
 * deliver, arbitrary bytes where it writes, any errno) unless the comment of the stub names a restriction and its reason.
 *
 * Sections (selected by the _unit_*.h header of the harness):
 *   XVU_UTIL      log stubs, fcntl, poll, getsockopt(SO_ERROR), vsnprintf, stdio FILE model, opendir/readdir/closedir, stat
 *   XVU_STREAM    send(2) on a stream socket with the ghost byte stream of prelude.h (job ut_send_all)
 *   XVU_XCMC      blocking socket(2) on top of env/fd.h, opendir/readdir/closedir, getenv, ghost-length string functions
 */
#ifndef XV_UTILCTL_GHOST_H
#define XV_UTILCTL_GHOST_H
/* ---- ghost state of the unit (all sections).  This part may be included BEFORE the real TU (with XVU_GHOST_ONLY defined):
 * loop contracts spliced into the TU name these variables.  Havocked by xvu_ghost_havoc() of the _unit_*.h headers. */
#include <stddef.h>
#include <stdint.h>
#include <dirent.h>
struct xvu_dir_s { int open; long opendir_calls, opendir_ok, closedir_calls; unsigned long readdir_calls, entries; /* may wrap */ size_t ent_len; _Bool path_ok; };
struct xvu_dir_s xvu_dir;
#define XVU_NSTR 6
struct xvu_str_s { const char *base; size_t len; };
struct xvu_str_s xvu_str[XVU_NSTR];
struct xvu_fcntl_s { int fd; int flags; _Bool valid; long getfl_calls, setfl_calls, setfl_ok, other_calls; int setfl_arg; };
struct xvu_fcntl_s xvu_fc;
struct xvu_poll_s { long calls; int fd; short events; int timeout; int rc; short revents; unsigned long nfds; };
struct xvu_poll_s xvu_pl;
struct xvu_so_s { long calls; int fd, level, name; int rc; int val; int err; };
struct xvu_so_s xvu_so;
struct xvu_vsn_s { long calls; int ret; size_t cap; char *dst; };
struct xvu_vsn_s xvu_vsn;
struct xvu_file_s { int open; long fopen_calls, fopen_ok, fclose_calls, fread_calls; _Bool err; size_t last_b; };
struct xvu_file_s xvu_f;
static char xvu_file_obj[8];
long xvu_heap;
uint8_t *xvu_blk; size_t xvu_blk_cap, xvu_blk_size;
struct xvu_snd_s { unsigned long calls; int err; int fd; int flags; _Bool same; };   /* calls may wrap */
struct xvu_snd_s xvu_snd;
char *xvu_env; size_t xvu_env_len; _Bool xvu_env_set;
static char xvu_dir_obj[8];                      /* the DIR object (opaque) */
static struct dirent xvu_dirent;                 /* readdir's static result buffer */
unsigned long xvu_stat_calls;                    /* stat(2) calls; may wrap */
#define xvu_dir_open xvu_dir.open
#define xvu_opendir_calls xvu_dir.opendir_calls
#define xvu_opendir_ok xvu_dir.opendir_ok
#define xvu_closedir_calls xvu_dir.closedir_calls
#define xvu_readdir_calls xvu_dir.readdir_calls
#define xvu_dir_entries xvu_dir.entries
#define xvu_ent_len xvu_dir.ent_len
#define xvu_opendir_path_ok xvu_dir.path_ok      /* the name given to the last opendir() was a C string (terminated inside its object) */
#define XVU_DIR_ASSIGNS xvu_dir, __CPROVER_object_whole(&xvu_dirent), xvu_str[4]
#ifndef XVU_NS_CAP
#define XVU_NS_CAP 256     /* NAME_MAX + 1: the buffer ut_self_net_ns is documented to need, and gets from finalize_tls_conf (fix d7ce527; it was NAME_MAX) */
#endif
/* xcmc / common_ctl ghosts */
struct xvu_fmt_s { unsigned long calls; int ret; size_t cap; };                /* snprintf of ctl_derive_path */
struct xvu_fmt_s xvu_fmt;
struct xvu_strto_s { long l_val; long long ll_val; size_t l_used, ll_used; unsigned long l_calls, ll_calls; };   /* strtol / strtoll */
struct xvu_strto_s xvu_strto;
/* the control-protocol message recv(2) delivered last (fields read at their wire offsets when a FULL message arrived) */
struct xvu_rx_s { _Bool full; int type; int rej_errno; int value_type; size_t value_len; size_t attrs_len; uint8_t val_mc; };
struct xvu_rx_s xvu_rx;
struct xvu_cb_s { unsigned long calls; };                                       /* callbacks made (may wrap) */
struct xvu_cb_s xvu_cb;
long xvu_sess_heap;                                                            /* session objects allocated and not freed */
struct xvu_dp_s { int pid; long long ref; unsigned long calls; };             /* arguments of the last ctl_derive_path */
struct xvu_dp_s xvu_dp;
struct xvu_lcb_s { unsigned long calls; int pid; long long ref; };             /* xcmc_list callback: calls, last arguments */
struct xvu_lcb_s xvu_lcb;
/* ghost constants (never assigned by code or stub), bound to entry values by a requires clause of the contract under proof */
size_t xvu_g_len;      /* strlen of the string argument on entry */
long xvu_g_off;        /* xv_rx_off / xv_tx_off on entry */
int xvu_g_int;         /* an int on entry (flag word, errno) */
#endif
#ifndef XVU_GHOST_ONLY
#ifndef XV_UTILCTL_ENV_H
#define XV_UTILCTL_ENV_H

#include <stdarg.h>
#include <dirent.h>
#include <poll.h>
#include <fcntl.h>
#include <sys/stat.h>
#include <sys/socket.h>

char nondet_char(void);
short nondet_short(void);
static inline int xvu_any_errno(void) { int e = nondet_int(); __CPROVER_assume(e >= 1 && e <= 133); return e; }

/* ===================================================================================================== directory stream
 * TRUSTED(libc/kernel) opendir/readdir/closedir: ONE ghost directory stream.  opendir fails with any errno or opens it;
 * readdir returns NULL (end of directory, errno untouched -- or an error, errno set) or an entry whose d_name is ANY
 * string of 0..NAME_MAX (255) characters, NUL-terminated inside d_name[256] (what the kernel guarantees);
 * closedir releases the stream.  Obligations: readdir/closedir only on the open stream (no use after close, no double
 * close).  Ghosts: xvu_dir_open (streams open now), xvu_opendir_ok / xvu_closedir_calls / xvu_readdir_calls counters,
 * xvu_ent_len = strlen(d_name) of the entry returned last. */
#if defined(XVU_UTIL) || defined(XVU_XCMC)
#define XVU_DIR_RANGE (xvu_dir_open >= 0 && xvu_dir_open < 1000 && xvu_opendir_calls >= 0 && xvu_opendir_calls < 1000000 && xvu_opendir_ok >= 0 && xvu_opendir_ok < 1000000 && \
                       xvu_closedir_calls >= 0 && xvu_closedir_calls < 1000000)

size_t xvu_cstr_len(const char *s);
DIR *opendir(const char *name)
{
    xvu_opendir_calls++;
    xvu_opendir_path_ok = 1;
    (void)xvu_cstr_len(name);                    /* obligation: the name is a C string */
    if (nondet_bool()) { xv_errno = xvu_any_errno(); return NULL; }      /* ENOENT, EACCES, EMFILE, ENOMEM, ENOTDIR ... */
    xvu_opendir_ok++; xvu_dir_open++;
    return (DIR *)xvu_dir_obj;
}
struct dirent *readdir(DIR *d)
{
    __CPROVER_assert(d == (DIR *)xvu_dir_obj && xvu_dir_open >= 1, "C08 readdir() on the directory stream that is open");
    xvu_readdir_calls++;
    if (nondet_bool()) { if (nondet_bool()) xv_errno = xvu_any_errno(); return NULL; }
    size_t n = nondet_size_t();
    __CPROVER_assume(n <= 255);
    __CPROVER_havoc_object(&xvu_dirent);
    xvu_dirent.d_name[n] = '\0';
    /* no NUL before n: stated for the arbitrary position xv_j (that is all the ghost-length strlen model relies on) */
    __CPROVER_assume(!(xv_j >= 0 && (size_t)xv_j < n) || xvu_dirent.d_name[xv_j] != '\0');
    xvu_ent_len = n; xvu_dir_entries++;
    xvu_str[4].base = xvu_dirent.d_name; xvu_str[4].len = n;      /* d_name is string 4 of the ghost-length string model */
    return &xvu_dirent;
}
int closedir(DIR *d)
{
    __CPROVER_assert(d == (DIR *)xvu_dir_obj && xvu_dir_open >= 1, "C08 closedir() of the directory stream that is open (no double close)");
    xvu_closedir_calls++; xvu_dir_open--;
    if (nondet_bool()) { xv_errno = xvu_any_errno(); return -1; }
    return 0;
}
#endif

/* ===================================================================================================== C strings by ghost length
 * The string functions of libc are loops; for strings whose length is only bounded by a buffer of 4 KiB they are replaced
 * (by #define before the real TU is included) with models that take the length from a ghost and ASSERT what justifies it:
 * NUL at that offset, no NUL at the arbitrary position xv_j before it.  Which ghost describes a string is decided by the
 * object the pointer points into: the harness registers (object, ghost length) pairs in xvu_str[]. */
#if defined(XVU_UTIL) || defined(XVU_XCMC)
/* length of the C string s: s must point to the START of a registered string */
size_t xvu_cstr_len(const char *s)
{
    size_t n = 0; _Bool found = 0;
    if (s == xvu_str[0].base) { n = xvu_str[0].len; found = 1; }
    else if (s == xvu_str[1].base) { n = xvu_str[1].len; found = 1; }
    else if (s == xvu_str[2].base) { n = xvu_str[2].len; found = 1; }
    else if (s == xvu_str[3].base) { n = xvu_str[3].len; found = 1; }
    else if (s == xvu_str[4].base) { n = xvu_str[4].len; found = 1; }
    else if (s == xvu_str[5].base) { n = xvu_str[5].len; found = 1; }
    if (!found) {
        /* short constant strings ("ctl-", "/run/xcm/ctl", "/run/netns"): exact scan of at most 16 bytes, unrolled */
#define XVU_L(i) if (s[i] == 0) return (i)
        XVU_L(0); XVU_L(1); XVU_L(2); XVU_L(3); XVU_L(4); XVU_L(5); XVU_L(6); XVU_L(7);
        XVU_L(8); XVU_L(9); XVU_L(10); XVU_L(11); XVU_L(12); XVU_L(13); XVU_L(14); XVU_L(15);
        __CPROVER_assert(0, "string model: a string that is not registered has fewer than 16 characters");
        __CPROVER_assume(0);
    }
    __CPROVER_assert(__CPROVER_r_ok(s, n + 1), "string model: the ghost length lies inside the object");
    __CPROVER_assert(s[n] == 0, "string model: NUL at the ghost length");
    __CPROVER_assert(!(xv_j >= 0 && (size_t)xv_j < n) || s[xv_j] != 0, "string model: no NUL before the ghost length (arbitrary position)");
    return n;
}
size_t xvu_strlen(const char *s) { return xvu_cstr_len(s); }
/* strcpy into a 64-byte field (req.get_attr_req.attr_name of xcmc_attr_get, selected with -DXVU_STRCPY64): same OBLIGATION (room for
 * the string and its NUL), then an EXACT copy written byte by byte at CONSTANT offsets -- the destination is a field of a 37 904-byte
 * struct on the stack, and an update at a symbolic offset costs one array update of the whole object. */
struct xvu_b64 { char b[64]; };
char *xvu_strcpy64(char *dst, const char *src)
{
    size_t n = xvu_cstr_len(src);
    __CPROVER_assert(__CPROVER_w_ok(dst, n + 1) && n < 64, "strcpy: destination (64 bytes) has room for the string and its NUL");
    __CPROVER_assume(n < 64);
    __CPROVER_assert(__CPROVER_w_ok(dst, 64), "strcpy64 model: the destination is a 64-byte field");
    /* read the field once, change bytes 0..n in a small local copy, write the field back once (one update of the big struct
     * instead of 64 conditional ones, each of which is an if-then-else over the whole 38 KB object) */
    struct xvu_b64 t = *(struct xvu_b64 *)dst;
#define XVU_C1(k) if ((k) <= n) t.b[k] = src[k]
#define XVU_C8(k) XVU_C1(k); XVU_C1((k) + 1); XVU_C1((k) + 2); XVU_C1((k) + 3); XVU_C1((k) + 4); XVU_C1((k) + 5); XVU_C1((k) + 6); XVU_C1((k) + 7)
    XVU_C8(0); XVU_C8(8); XVU_C8(16); XVU_C8(24); XVU_C8(32); XVU_C8(40); XVU_C8(48); XVU_C8(56);
    *(struct xvu_b64 *)dst = t;
    return dst;
}
/* strncmp(a, "ctl-", 4): exact, unrolled (a is a C string: comparison stops at its NUL) */
int xvu_strncmp4(const char *a, const char *b, size_t n)
{
    __CPROVER_assert(n == 4, "strncmp model: n == 4");
    if (a[0] != b[0]) return ((const unsigned char *)a)[0] < ((const unsigned char *)b)[0] ? -1 : 1;
    if (a[0] == 0) return 0;
    if (a[1] != b[1]) return ((const unsigned char *)a)[1] < ((const unsigned char *)b)[1] ? -1 : 1;
    if (a[1] == 0) return 0;
    if (a[2] != b[2]) return ((const unsigned char *)a)[2] < ((const unsigned char *)b)[2] ? -1 : 1;
    if (a[2] == 0) return 0;
    if (a[3] != b[3]) return ((const unsigned char *)a)[3] < ((const unsigned char *)b)[3] ? -1 : 1;
    return 0;
}
/* strcpy: OBLIGATION room for the string and its NUL; the destination then holds a string of the same length (registered
 * as string `slot`), arbitrary except for the NUL and the byte at the arbitrary position xv_j (over-approximation of the copy) */
char *xvu_strcpy_slot(char *dst, const char *src, int slot)
{
    size_t n = xvu_cstr_len(src);
    __CPROVER_assert(__CPROVER_w_ok(dst, n + 1), "strcpy: destination has room for the string and its NUL");
    __CPROVER_assume(__CPROVER_w_ok(dst, n + 1));      /* (the violation being reported) continue inside the object */
    char keep = (xv_j >= 0 && (size_t)xv_j < n) ? src[xv_j] : 0;
    __CPROVER_havoc_slice(dst, n + 1);
    dst[n] = 0;
    if (xv_j >= 0 && (size_t)xv_j < n) dst[xv_j] = keep;
    if (n > 0 && !(xv_j >= 0 && (size_t)xv_j < n)) { /* nothing known: every byte before n is non-NUL in the real copy */ }
    xvu_str[slot].base = dst; xvu_str[slot].len = n;
    return dst;
}
#endif

/* ===================================================================================================== util.c
 */
#if defined(XVU_UTIL) || defined(XVU_STREAM)
#include "log.h"
/* TRUSTED(log) logging is off: LOG_* / log_error argument expressions are outside the proof */
bool log_is_enabled(enum log_type type) { return false; }
void log_console_conf(bool enabled) { }
#endif
#ifdef XVU_UTIL

/* ---- fcntl(fd, F_GETFL / F_SETFL): reached through  #define fcntl(fd, cmd, arg) xvu_fcntl(...)  (fcntl is variadic).
 * TRUSTED(kernel).  The status-flag word of ONE tracked descriptor xvu_fl_fd (never assigned: any descriptor) is the
 * ghost xvu_fl; whether that descriptor is valid is the ghost constant xvu_fl_valid.  F_GETFL fails only with EBADF
 * (fcntl(2)), i.e. iff the descriptor is invalid; F_SETFL fails with EBADF then, and may fail otherwise too (EPERM: O_APPEND-only
 * file, O_NOATIME of a foreign file).  A successful F_SETFL installs exactly the word given (the kernel ignores the access mode
 * and creation bits; the code under proof passes back what F_GETFL returned, so these bits are equal anyway).
 * For any other descriptor F_GETFL returns any non-negative word. */
#define xvu_fl_fd xvu_fc.fd
#define xvu_fl xvu_fc.flags
#define xvu_fl_valid xvu_fc.valid
#define XVU_FC_RANGE (xvu_fc.getfl_calls >= 0 && xvu_fc.getfl_calls < 1000000 && xvu_fc.setfl_calls >= 0 && xvu_fc.setfl_calls < 1000000 && \
                      xvu_fc.setfl_ok >= 0 && xvu_fc.setfl_ok < 1000000 && xvu_fc.other_calls >= 0 && xvu_fc.other_calls < 1000000 && xvu_fl >= 0)
int xvu_fcntl(int fd, int cmd, int arg)
{
    if (cmd == F_GETFL) {
        xvu_fc.getfl_calls++;
        if (fd != xvu_fl_fd) { int w = nondet_int(); if (w < 0) { xv_errno = EBADF; return -1; } return w; }
        if (!xvu_fl_valid) { xv_errno = EBADF; return -1; }
        return xvu_fl;
    }
    if (cmd == F_SETFL) {
        xvu_fc.setfl_calls++; xvu_fc.setfl_arg = arg;
        if (fd != xvu_fl_fd) { if (nondet_bool()) { xv_errno = xvu_any_errno(); return -1; } return 0; }
        if (!xvu_fl_valid) { xv_errno = EBADF; return -1; }
        if (nondet_bool()) { xv_errno = xvu_any_errno(); return -1; }
        xvu_fl = arg; xvu_fc.setfl_ok++;
        return 0;
    }
    xvu_fc.other_calls++;
    __CPROVER_assert(0, "fcntl model: only F_GETFL / F_SETFL are modelled");
    return -1;
}

/* ---- poll(2), one descriptor.  TRUSTED(kernel).  C05: the ONLY way poll puts the thread to sleep is timeout != 0; the
 * model then writes xv_blocked (a frame violation in every contract that does not list it) and records the timeout.
 * Result: -1 (any errno, revents untouched), 0 (revents == 0), 1 (revents != 0, within events | POLLERR | POLLHUP | POLLNVAL). */
#define XVU_POLL_RANGE (xvu_pl.calls >= 0 && xvu_pl.calls < 1000000)
int poll(struct pollfd *fds, nfds_t nfds, int timeout)
{
    __CPROVER_assert(nfds == 1 && __CPROVER_w_ok(fds, sizeof(*fds)), "poll model: exactly one descriptor");
    if (timeout != 0) xv_blocked = 1;
    xvu_pl.calls++; xvu_pl.fd = fds->fd; xvu_pl.events = fds->events; xvu_pl.timeout = timeout; xvu_pl.nfds = nfds;
    int rc = nondet_int();
    __CPROVER_assume(rc >= -1 && rc <= 1);
    if (rc == -1) { xv_errno = xvu_any_errno(); xvu_pl.rc = -1; xvu_pl.revents = fds->revents; return -1; }   /* EINTR, ENOMEM, EINVAL */
    short re = 0;
    if (rc == 1) {
        re = nondet_short();
        __CPROVER_assume(re != 0 && (re & ~(fds->events | POLLERR | POLLHUP | POLLNVAL)) == 0);
    }
    fds->revents = re;
    xvu_pl.rc = rc; xvu_pl.revents = re;
    return rc;
}

/* ---- getsockopt(SOL_SOCKET, SO_ERROR).  TRUSTED(kernel): fails with any errno, or stores the pending socket error -- an int
 * >= 0 (sock_error() hands out errno codes), exactly sizeof(int) bytes (sock_getsockopt: len = min(len, sizeof(int))) -- and
 * clears it.  Ghost: xvu_so.val (the value stored), xvu_so.rc, xvu_so.err (errno of a failed call).
 * (env/fd.h's own getsockopt -- arbitrary bytes, no record -- is renamed away in _unit_util.h; env/fd.h is included BEFORE this file.) */
#define XVU_SO_RANGE (xvu_so.calls >= 0 && xvu_so.calls < 1000000)
int getsockopt(int fd, int level, int optname, void *optval, socklen_t *optlen)
{
    XV_FD_USE(fd, "C08 getsockopt() on a descriptor the library owns and has open");
    __CPROVER_assert(level == SOL_SOCKET && optname == SO_ERROR, "getsockopt model: only SO_ERROR is modelled");
    __CPROVER_assert(__CPROVER_w_ok(optlen, sizeof(*optlen)) && *optlen >= sizeof(int) && __CPROVER_w_ok(optval, sizeof(int)), "getsockopt(SO_ERROR): room for an int");
    xvu_so.calls++; xvu_so.fd = fd; xvu_so.level = level; xvu_so.name = optname;
    if (nondet_bool()) { xv_errno = xvu_any_errno(); xvu_so.err = xv_errno; xvu_so.rc = -1; return -1; }
    int v = nondet_int();
    __CPROVER_assume(v >= 0);
    *(int *)optval = v; *optlen = sizeof(int);
    xvu_so.val = v; xvu_so.rc = 0;
    return 0;
}

/* ---- vsnprintf(3).  TRUSTED(libc): the would-be length is ANY r in 0..INT_MAX (the text is not modelled); at most `size`
 * bytes are written, NUL-terminated when size > 0.  RESTRICTION: no negative result -- glibc's vsnprintf fails only for
 * wide-character conversion errors and results above INT_MAX; the formats the library passes have neither (assumption, listed). */
#define XVU_VSN_RANGE (xvu_vsn.calls >= 0 && xvu_vsn.calls < 1000000)
int vsnprintf(char *s, size_t size, const char *format, va_list ap)
{
    int r = nondet_int();
    __CPROVER_assume(r >= 0);
    xvu_vsn.calls++; xvu_vsn.ret = r; xvu_vsn.cap = size; xvu_vsn.dst = s;
    if (size > 0) {
        size_t w = (size_t)r < size ? (size_t)r : size - 1;
        if (w > 0) __CPROVER_havoc_slice(s, w);
        s[w] = '\0';
    }
    return r;
}

/* ---- stdio: fopen/fread/ferror/fclose on ONE ghost file.  TRUSTED(libc/kernel).
 * The file is the incoming ghost byte stream of prelude.h: xv_rx_off = bytes delivered so far, the byte at the arbitrary
 * offset xv_k is xv_rx_k, xv_rx_eof = end of file seen.  Its length is NOT fixed: every fread may hit the end, so a file
 * that shrinks or grows while it is read is covered.  fread(p, 1, n, f) stores ANY b <= n bytes; b < n happens exactly at end of
 * file or on a read error (ISO C 7.21.8.1) -- then the eof resp. error indicator is set.  fopen fails with any errno.
 * Obligations: fread/ferror/fclose on the open stream only (no use after fclose, no double fclose). */
#define XVU_FILE_RANGE (xvu_f.open >= 0 && xvu_f.open < 1000 && xvu_f.fopen_calls >= 0 && xvu_f.fopen_calls < 1000000 && xvu_f.fopen_ok >= 0 && xvu_f.fopen_ok < 1000000 && \
                        xvu_f.fclose_calls >= 0 && xvu_f.fclose_calls < 1000000 && xvu_f.fread_calls >= 0 && xvu_f.fread_calls < (1L << 60))
FILE *fopen(const char *path, const char *mode)
{
    xvu_f.fopen_calls++;
    if (nondet_bool()) { xv_errno = xvu_any_errno(); return NULL; }       /* ENOENT, EACCES, EMFILE, ENFILE, ENOMEM, EISDIR ... */
    xvu_f.fopen_ok++; xvu_f.open++; xvu_f.err = 0; xv_rx_eof = 0;
    return (FILE *)xvu_file_obj;
}
size_t fread(void *ptr, size_t size, size_t nmemb, FILE *f)
{
    __CPROVER_assert(f == (FILE *)xvu_file_obj && xvu_f.open >= 1, "C08 fread() on the stream that is open");
    __CPROVER_assert(size == 1, "fread model: element size 1");
    __CPROVER_assert(nmemb == 0 || __CPROVER_w_ok(ptr, nmemb), "fread() buffer writeable for the number of bytes asked for");
    __CPROVER_assume(nmemb == 0 || __CPROVER_w_ok(ptr, nmemb));
    __CPROVER_assert(!__CPROVER_same_object(ptr, xvu_blk) || (xvu_blk_size > 0 && (size_t)__CPROVER_POINTER_OFFSET(ptr) <= xvu_blk_size && nmemb <= xvu_blk_size - (size_t)__CPROVER_POINTER_OFFSET(ptr)),
                     "fread() into the heap block stays inside its (logical) size");
    xvu_f.fread_calls++;
    size_t b = nondet_size_t();
    __CPROVER_assume(b <= nmemb);
    if (xv_rx_eof || xvu_f.err) b = 0;
    if (b > 0) {
        __CPROVER_havoc_slice(ptr, b);
        if (xv_k >= xv_rx_off && xv_k < xv_rx_off + (long)b) ((uint8_t *)ptr)[xv_k - xv_rx_off] = xv_rx_k;
        xv_rx_off += (long)b;
    }
    if (b < nmemb) {
        if (!xv_rx_eof && nondet_bool()) { xvu_f.err = 1; xv_errno = xvu_any_errno(); }    /* EIO, EISDIR, ... */
        else if (!xvu_f.err) xv_rx_eof = 1;
    }
    xvu_f.last_b = b;
    return b;
}
int ferror(FILE *f)
{
    __CPROVER_assert(f == (FILE *)xvu_file_obj && xvu_f.open >= 1, "C08 ferror() on the stream that is open");
    return xvu_f.err;
}
int fclose(FILE *f)
{
    __CPROVER_assert(f == (FILE *)xvu_file_obj && xvu_f.open >= 1, "C08 fclose() of the stream that is open (no double close)");
    xvu_f.fclose_calls++; xvu_f.open--;
    if (nondet_bool()) { xv_errno = xvu_any_errno(); return EOF; }
    return 0;
}

/* ---- the heap of load_file: realloc/free of util.c are renamed (by #define before the TU) to these.  TRUSTED(libc).
 * load_file grows ONE block inside a loop whose length only the file decides.  DFCC cannot verify such a loop with a block
 * that moves: a pointer assigned in a loop is havocked at the loop head and an invariant can only re-establish it by equating it
 * with a pointer known before the loop; and a loop may not free a block an earlier iteration allocated.  Hence this model:
 *   the block lives in ONE arena xvu_blk of xvu_blk_cap bytes (is_fresh, made by the contract's requires clause);
 *   realloc(NULL, n) hands out the arena, realloc(arena, n) "grows it in place"; the LOGICAL size is the ghost xvu_blk_size
 *   (0: not allocated); free() sets it to 0.  Content is kept (exact for a block that does not move).
 * DEVIATION, stated: real realloc may also MOVE the block (copying min(old, new) bytes and freeing the old one).  The two
 * behaviours differ only for code that uses the OLD pointer afterwards; util.c overwrites it with realloc's result in the
 * same statement (`*data = ut_realloc(*data, ...)`) and has no other copy.  Never fails (XCM aborts on OOM by design).
 * Requests above xvu_blk_cap (<= XVU_BLK_MAX = 2^40) are not explored: files of 1 TiB and more are outside the proof.
 * Because CBMC's own bounds checks see the arena, not the logical block, every stub that writes through a pointer into
 * the arena (fread) has the OBLIGATION that it stays inside the logical size; code that does so itself (ut_load_text_file's
 * terminator) is checked against a contract of load_file that hands out a block of exactly the promised size.
 * xvu_heap = number of blocks handed out and not yet freed (C08). */
#define XVU_BLK_MAX (1UL << 40)
#define XVU_HEAP_RANGE (xvu_heap >= 0 && xvu_heap < 1000000)
void *xvu_realloc(void *ptr, size_t size)
{
    __CPROVER_assert(ptr == NULL || (ptr == (void *)xvu_blk && xvu_blk_size > 0), "realloc() of NULL or of the live block");
    __CPROVER_assert(ptr != NULL || xvu_blk_size == 0, "heap model: one block at a time");
    __CPROVER_assert(size > 0, "realloc() with a size above 0 (size 0 would free)");
    __CPROVER_assume(size <= xvu_blk_cap);
    if (ptr == NULL) xvu_heap++;
    xvu_blk_size = size;
    return xvu_blk;
}
void xvu_free(void *ptr)
{
    if (ptr == NULL) return;
    __CPROVER_assert(ptr == (void *)xvu_blk && xvu_blk_size > 0, "free() of the live block (no double free, no foreign pointer)");
    xvu_blk_size = 0; xvu_heap--;
}

/* ---- stat(2) / syscall(SYS_gettid): TRUSTED(kernel).  stat fails with any errno or fills the buffer with arbitrary bytes. */
int stat(const char *path, struct stat *st)
{
    xvu_stat_calls++;
    if (nondet_bool()) { xv_errno = xvu_any_errno(); return -1; }
    __CPROVER_havoc_object(st);
    return 0;
}
/* snprintf(3), reached through the macro of prelude.h (format arguments dropped).  TRUSTED(libc): would-be length ANY r in
 * 0..INT_MAX, at most `size` bytes written, NUL-terminated when size > 0 (same model as env/libc_fmt.h, without call counter:
 * ut_self_net_ns calls it in an unbounded loop) */
int xv_snprintf(char *s, size_t size)
{
    int r = nondet_int();
    __CPROVER_assume(r >= 0);
    if (size > 0) {
        size_t w = (size_t)r < size ? (size_t)r : size - 1;
        if (w > 0) __CPROVER_havoc_slice(s, w);
        s[w] = '\0';
    }
    return r;
}
long xvu_syscall(long nr) { long t = nondet_long(); __CPROVER_assume(t >= 1 && t <= 4194304); return t; }
#endif /* XVU_UTIL */

/* ===================================================================================================== send(2), stream socket
 * TRUSTED(kernel), job ut_send_all only.  The outgoing ghost byte stream of prelude.h: xv_tx_off bytes accepted so far,
 * xv_tx_k / xv_tx_k_set = the byte handed over at the arbitrary stream offset xv_k.  A call accepts ANY prefix 1..len of the
 * buffer (0 only for len == 0: a stream socket never reports 0 bytes for a non-empty buffer) or fails with any errno,
 * accepting nothing.  Ghost xvu_snd: calls, errno of the last failure, "every call so far named the tracked descriptor and flags". */
#ifdef XVU_STREAM
ssize_t send(int fd, const void *buf, size_t len, int flags)
{
    __CPROVER_assert(len == 0 || __CPROVER_r_ok(buf, len), "send() buffer readable");
    xvu_snd.calls++;
    if (fd != xvu_snd.fd || flags != xvu_snd.flags) xvu_snd.same = 0;
    if (nondet_bool()) { xv_errno = xvu_any_errno(); xvu_snd.err = xv_errno; return -1; }
    size_t n = nondet_size_t();
    __CPROVER_assume(n <= len && n <= 0x7ffff000UL && (len == 0 || n >= 1));
    if (xv_k >= xv_tx_off && xv_k < xv_tx_off + (long)n) { xv_tx_k = ((const uint8_t *)buf)[xv_k - xv_tx_off]; xv_tx_k_set = 1; }
    xv_tx_off += (long)n;
    return (ssize_t)n;
}
#endif

/* ===================================================================================================== xcmc.c / common_ctl.c
 */
#ifdef XVU_XCMC
#include "ctl_proto.h"
/* getenv(3): TRUSTED(libc).  NULL or a pointer to the ghost environment string xvu_env (set up by the contract's requires: an
 * object of xvu_env_len + 1 bytes, NUL-terminated, registered as string 0 of the ghost-length string model). */
char *getenv(const char *name) { return xvu_env_set ? xvu_env : NULL; }

/* snprintf(3), reached through the macro of prelude.h (format arguments dropped).  The ONLY snprintf of common_ctl.c / xcmc.c is
 * ctl_derive_path's  "%s/%s%d-%" PRId64  with (ctl_dir, "ctl-", pid, sock_id).  TRUSTED(libc): its would-be length is
 *     strlen(ctl_dir) + 1 + 4 + (1..11 characters of an int) + 1 + (1..20 characters of an int64)
 * i.e. ANY r in strlen(ctl_dir) + 8 .. strlen(ctl_dir) + 37; ctl_dir is string 2 of the ghost-length string model (registered by
 * ctl_get_dir's strcpy resp. by the contract of ctl_derive_path).  At most `size` bytes are written, NUL-terminated when
 * size > 0; the text has no NUL inside (stated for the arbitrary position xv_j); the result is registered as string 3. */
int xv_snprintf(char *s, size_t size)
{
    __CPROVER_assert(xvu_str[2].base != NULL && xvu_str[2].len <= 100000, "snprintf model: the directory string is registered");
    int r = nondet_int();
    __CPROVER_assume(r >= 0 && (size_t)r >= xvu_str[2].len + 8 && (size_t)r <= xvu_str[2].len + 37);
    xvu_fmt.calls++; xvu_fmt.ret = r; xvu_fmt.cap = size;
    if (size > 0) {
        size_t w = (size_t)r < size ? (size_t)r : size - 1;
        if (w > 0) __CPROVER_havoc_slice(s, w);
        s[w] = '\0';
        __CPROVER_assume(!(xv_j >= 0 && (size_t)xv_j < w) || s[xv_j] != '\0');
        xvu_str[3].base = s; xvu_str[3].len = w;
    }
    return r;
}

/* strtol(3) / strtoll(3), base 10.  TRUSTED(libc): returns ANY value and consumes ANY number k of characters that does not
 * run past the terminator of the string nptr points into (the string must be one registered with the ghost-length model:
 * string 1 = the file name given to ctl_parse_info).  Which texts libc accepts as a number (leading blanks, sign) is libc's. */
static size_t xvu_strto_room(const char *nptr)
{
    __CPROVER_assert(xvu_str[1].base != NULL && __CPROVER_same_object(nptr, xvu_str[1].base) && nptr >= xvu_str[1].base &&
                     (size_t)(nptr - xvu_str[1].base) <= xvu_str[1].len, "strtol model: the text lies inside the registered string 1");
    __CPROVER_assume(__CPROVER_same_object(nptr, xvu_str[1].base) && nptr >= xvu_str[1].base && (size_t)(nptr - xvu_str[1].base) <= xvu_str[1].len);
    return xvu_str[1].len - (size_t)(nptr - xvu_str[1].base);
}
long strtol(const char *nptr, char **endptr, int base)
{
    size_t room = xvu_strto_room(nptr);
    long v = nondet_long(); size_t k = nondet_size_t();
    __CPROVER_assume(k <= room);
    xvu_strto.l_val = v; xvu_strto.l_used = k; xvu_strto.l_calls++;
    if (endptr != NULL) *endptr = (char *)nptr + k;
    return v;
}
long long nondet_longlong(void);
long long strtoll(const char *nptr, char **endptr, int base)
{
    size_t room = xvu_strto_room(nptr);
    long long v = nondet_longlong(); size_t k = nondet_size_t();
    __CPROVER_assume(k <= room);
    xvu_strto.ll_val = v; xvu_strto.ll_used = k; xvu_strto.ll_calls++;
    if (endptr != NULL) *endptr = (char *)nptr + k;
    return v;
}
#endif

#ifdef XVU_XCMC_FD
/* ---- on top of env/fd.h (included before this file, with socket, send and recv renamed to xv_fdh_*):
 * socket(2): TRUSTED(kernel).  env/fd.h's socket() has the C05 obligation "created SOCK_NONBLOCK", which is about the sockets of
 * libxcm.  libxcmctl is a BLOCKING client by design (it bounds its waits with SO_RCVTIMEO/SO_SNDTIMEO); its descriptor goes
 * into the same ghost table, non-blocking iff SOCK_NONBLOCK was asked for -- connect/send/recv on it then write xv_blocked,
 * which the contracts of xcmc.c list in their assigns clauses. */
int socket(int domain, int type, int protocol)
{
    xv_socket_calls++;
    return xv_new_fd((type & SOCK_NONBLOCK) != 0, (type & 0xf) == SOCK_SEQPACKET);
}
/* send(2) / recv(2) of the control-protocol client.  TRUSTED(kernel).  Same semantics and the same ghost record (xv_send_*, xv_recv_*)
 * as env/fd.h's models, which are renamed away: those read / havoc the caller's buffer at SYMBOLIC offsets, and the buffers of
 * xcmc.c are 37 904-byte structs on the stack -- one byte at a symbolic offset of such an object costs ~5 M gates (the job did
 * not finish in 15 minutes).  Here:
 *   send: the byte at the arbitrary offset xv_j is recorded (xv_send_c) for the offsets 0..3 (type, little endian) and
 *         8..XVU_TX_HDR-1 (the 64-byte name field) through TYPED reads of struct ctl_proto_msg; for other xv_j xv_send_c is left
 *         0 and xvu_tx_tracked is false (contracts speak about tracked bytes only).
 *   recv: an arbitrary record of arbitrary length `real`; the WHOLE buffer becomes arbitrary, on every path (the kernel stores
 *         min(real, len) bytes and leaves the rest alone: making the rest arbitrary as well is an over-approximation); the
 *         protocol fields of a full-size record are copied to xvu_rx from their constant offsets; xvu_rx.val_mc is the value
 *         byte at offset xv_mc (the offset the memcpy model tracks), a typed read.
 *   memcpy (xcmc.c only, renamed by macro): env/base.h's model with the tracked byte read through the array type. */
#define XVU_TX_HDR 72
_Bool xvu_tx_tracked;
#define XVU_FLD(T, base, off) (*(T *)((uint8_t *)(base) + (off)))
#define XVU_OFF_ATTR offsetof(struct ctl_proto_msg, get_attr_cfm.attr)
ssize_t send(int fd, const void *buf, size_t len, int flags)
{
    XV_FD_USE(fd, "C08 send() on a descriptor the library owns and has open");
    __CPROVER_assert(len == 0 || __CPROVER_r_ok(buf, len), "send() buffer readable");
    if (!xv_fdt.e[fd].nonblock && !(flags & MSG_DONTWAIT)) xv_blocked = 1;
    xv_send_calls++; xv_send_fd = fd; xv_send_buf = buf; xv_send_len = len; xv_send_flags = flags;
    xv_send_c = 0; xvu_tx_tracked = 0;
    if (len == sizeof(struct ctl_proto_msg) && xv_j >= 0 && xv_j < XVU_TX_HDR) {
        /* TYPED reads (the buffer of every send of xcmc.c is a struct ctl_proto_msg): index expressions, not byte extraction */
        const struct ctl_proto_msg *m = buf; uint8_t c = 0;
        unsigned t = (unsigned)m->type;
        if (xv_j == 0) c = (uint8_t)(t & 0xff); else if (xv_j == 1) c = (uint8_t)((t >> 8) & 0xff);
        else if (xv_j == 2) c = (uint8_t)((t >> 16) & 0xff); else if (xv_j == 3) c = (uint8_t)((t >> 24) & 0xff);
        else if (xv_j >= 8) {
            /* case split over the 64 CONSTANT indices (a symbolic index into a member of the 38 KB union costs 3 M clauses) */
            const uint8_t *nm = (const uint8_t *)m->get_attr_req.attr_name; long q = xv_j - 8;
#define XVU_T1(k) if (q == (k)) c = nm[k]
#define XVU_T8(k) XVU_T1(k); XVU_T1((k) + 1); XVU_T1((k) + 2); XVU_T1((k) + 3); XVU_T1((k) + 4); XVU_T1((k) + 5); XVU_T1((k) + 6); XVU_T1((k) + 7)
            XVU_T8(0); XVU_T8(8); XVU_T8(16); XVU_T8(24); XVU_T8(32); XVU_T8(40); XVU_T8(48); XVU_T8(56);
        }
        xv_send_c = c; xvu_tx_tracked = (xv_j < 4 || xv_j >= 8);     /* bytes 4..7 are padding */
    }
    if (nondet_bool()) {
        xv_errno = xv_any_errno();     /* EAGAIN (send timeout), EPIPE, ECONNRESET, ENOBUFS, EMSGSIZE, EINTR, ... */
        xv_send_errno = xv_errno; xv_send_ret = -1;
        return -1;
    }
    size_t n = len;
    if (xv_fdt.e[fd].seqpacket) {
        if (len > XV_DGRAM_MAX) { xv_errno = EMSGSIZE; xv_send_errno = xv_errno; xv_send_ret = -1; return -1; }
    } else {
        n = nondet_size_t();
        __CPROVER_assume(n <= len && n <= 0x7ffff000UL);
    }
    xv_send_ret = (long)n;
    return (ssize_t)n;
}
ssize_t recv(int fd, void *buf, size_t len, int flags)
{
    XV_FD_USE(fd, "C08 recv() on a descriptor the library owns and has open");
    __CPROVER_assert(len == 0 || __CPROVER_w_ok(buf, len), "recv() buffer writeable");
    if (!xv_fdt.e[fd].nonblock && !(flags & MSG_DONTWAIT)) xv_blocked = 1;
    xv_recv_calls++; xv_recv_fd = fd; xv_recv_buf = buf; xv_recv_len = len; xv_recv_flags = flags;
    xv_recv_copied = 0; xv_recv_c = 0;
    xvu_rx.full = 0;
    /* The buffer becomes arbitrary FIRST, on every path (also when the call fails or delivers nothing: the kernel would leave
     * it alone then -- more behaviours, not fewer), by ONE typed assignment of an arbitrary struct (every receive buffer of
     * xcmc.c is a struct ctl_proto_msg).  One unconditional write = one new SSA version of the 38 KB object; a write under
     * a condition costs a 300 000-bit if-then-else at every join behind it, and havoc_slice re-assembles the struct from
     * a byte array (2 M variables / 7 M clauses). */
    if (len == sizeof(struct ctl_proto_msg)) { struct ctl_proto_msg any; *(struct ctl_proto_msg *)buf = any; }
    else if (len > 0) __CPROVER_havoc_slice(buf, len);
    if (nondet_bool()) {
        xv_errno = xv_any_errno();     /* EAGAIN (receive timeout), ECONNRESET, EINTR, ... */
        xv_recv_errno = xv_errno; xv_recv_ret = -1;
        return -1;
    }
    size_t real = nondet_size_t();
    __CPROVER_assume(real <= XV_DGRAM_MAX);
    size_t n = real < len ? real : len;
    xv_recv_copied = n;
    xv_recv_ret = (xv_fdt.e[fd].seqpacket && (flags & MSG_TRUNC)) ? (long)real : (long)n;
    if (n == sizeof(struct ctl_proto_msg)) {
        xvu_rx.full = 1;
        const struct ctl_proto_msg *m = buf;
        xvu_rx.type = (int)m->type;
        xvu_rx.rej_errno = m->get_attr_rej.rej_errno;
        xvu_rx.value_type = (int)m->get_attr_cfm.attr.value_type;
        xvu_rx.value_len = m->get_attr_cfm.attr.value_len;
        xvu_rx.attrs_len = m->get_all_attr_cfm.attrs_len;
        /* case split of job xcmc_attr_get_all over the attribute count the peer put on the wire (its two variants together cover every count) */
#if defined(XVU_ATTRS_SMALL)
        __CPROVER_assume(xvu_rx.attrs_len <= CTL_PROTO_MAX_ATTRS);
#elif defined(XVU_ATTRS_BIG)
        __CPROVER_assume(xvu_rx.attrs_len > CTL_PROTO_MAX_ATTRS);
#endif
#ifndef XVU_HOSTILE_PEER
        /* A(honest peer).  The peer of libxcmctl is libxcm's own ctl.c, and unit ctl PROVES its replies well formed: a get_attr_cfm carries
         * value_len <= 512 (process_get_attr), a get_all_attr_cfm at most 64 attributes, each with value_len <= 512 and a NUL-terminated name
         * (add_attr.table_bound and its assigns obligations).  C14's adversary is the CLIENT; what a hostile APPLICATION could do to the client
         * library is outside the property.  -DXVU_HOSTILE_PEER lifts the assumption: xcmc_attr_get / xcmc_attr_get_all then fail (they trust
         * value_len, attrs_len and the name fields of the reply) - reported in DESIGN.md 9 as an observation, not as a violation of C14. */
        __CPROVER_assume(m->type != ctl_proto_type_get_attr_cfm || m->get_attr_cfm.attr.value_len <= CTL_ATTR_VALUE_MAX);
        /* (the corresponding assumption for the 64 entries of a get_all_attr_cfm could not be made effective on the 38 KB union - see
         * harness/utilctl/hostile_peer/README: xcmc_attr_get_all is therefore not under contract) */
#endif
        xvu_rx.val_mc = 0;
        if (xv_mc < CTL_ATTR_VALUE_MAX) xvu_rx.val_mc = ((const struct ctl_proto_msg *)buf)->get_attr_cfm.attr.any_value[xv_mc];   /* typed read */
    }
    return (ssize_t)xv_recv_ret;
}
/* memcpy(attr_value, &attr->any_value, value_len) of xcmc_attr_get.  TRUSTED(libc): same over-approximation as env/base.h's memcpy (both
 * regions must be accessible -- obligations --, destination arbitrary except offsets 0..7 and the ghost offset xv_mc), the
 * byte at xv_mc being read through the source's array type uint8_t[512] when xv_mc < 512. */
void *xvu_memcpy_val(void *dst, const void *src, size_t n)
{
    __CPROVER_assert(n == 0 || __CPROVER_r_ok(src, n), "memcpy source region readable");
    __CPROVER_assert(n == 0 || __CPROVER_w_ok(dst, n), "memcpy destination region writeable");
    __CPROVER_assume(n == 0 || (__CPROVER_r_ok(src, n) && __CPROVER_w_ok(dst, n)));
    const uint8_t (*a)[CTL_ATTR_VALUE_MAX] = src; uint8_t *d_ = dst;
    uint8_t h0 = (*a)[0], h1 = (*a)[1], h2 = (*a)[2], h3 = (*a)[3], h4 = (*a)[4], h5 = (*a)[5], h6 = (*a)[6], h7 = (*a)[7];
    _Bool g = xv_mc < n && xv_mc < CTL_ATTR_VALUE_MAX; uint8_t bg = g ? (*a)[xv_mc] : 0;
    if (n > 0) __CPROVER_havoc_slice(dst, n);
    if (0 < n) d_[0] = h0; if (1 < n) d_[1] = h1; if (2 < n) d_[2] = h2; if (3 < n) d_[3] = h3;
    if (4 < n) d_[4] = h4; if (5 < n) d_[5] = h5; if (6 < n) d_[6] = h6; if (7 < n) d_[7] = h7;
    if (g) d_[xv_mc] = bg;
    return dst;
}
/* session objects: ut_malloc / ut_free of xcmc.c are renamed to these (counting wrappers around env/base.h's) */
void *xvu_sess_malloc(size_t size) { xvu_sess_heap++; return ut_malloc(size); }
void xvu_sess_free(void *p) { if (p != NULL) xvu_sess_heap--; ut_free(p); }
#endif

#endif
#endif /* !XVU_GHOST_ONLY */
