/* env/attrpath_env.h -- TRUSTED stubs of what libxcm/core/attr_path.c and xcm_attr_map.c call outside their own text
 * (include AFTER the real TU and env/base.h).
 *
 *   ut_strdup / ut_memdup   TRUSTED(common/util.c): malloc + copy, never fail (XCM aborts on OOM by design)
 *   strtol                  TRUSTED(glibc strtol): EXACT model for base 10 in the C locale (white space, optional sign,
 *                           digits, saturation to LONG_MIN/LONG_MAX); CBMC's own model stops after 31 characters.
 *                           Loops strtol.0 (white space) and strtol.1 (digits) are closed by `pre-unwind:`.
 *   snprintf                TRUSTED(glibc snprintf): EXACT text for the four call shapes of attr_path.c
 *                           ("%zd" | "%s" | "%c%s" | "%c%zd%c"), selected by argument count/type through the macro
 *                           in harness/attrpath/_unit.h.  At most size-1 bytes and a NUL are written, the would-be
 *                           length is returned.  %zd prints its size_t argument as a SIGNED number, as glibc does.
 */
#ifndef XV_ATTRPATH_ENV_H
#define XV_ATTRPATH_ENV_H
#include <limits.h>

/* TRUSTED(common/util.c) ut_strdup: strdup(3) that never fails */
char *ut_strdup(const char *str)
{
    size_t n = strlen(str);
    char *copy = malloc(n + 1);
    __CPROVER_assume(copy != NULL);
    size_t i;
    for (i = 0; i <= n; i++)     /* loop ut_strdup.0, closed by `pre-unwind:` (cheaper than memcpy with a symbolic size) */
        copy[i] = str[i];
    return copy;
}
/* TRUSTED(common/util.c) ut_memdup: ut_malloc + memcpy, as in the real text */
void *ut_memdup(const void *ptr, size_t size)
{
    void *copy = malloc(size);
    __CPROVER_assume(copy != NULL);
    memcpy(copy, ptr, size);
    return copy;
}

/* ---- strtol */
long xv_ap_strtol_val;      /* ghost: value returned by the last strtol */
size_t xv_ap_strtol_used;   /* ghost: number of characters it consumed (end - nptr) */
long strtol(const char *nptr, char **endptr, int base)
{
    __CPROVER_assert(base == 10, "XV strtol model covers base 10 only");
    size_t i = 0;
    while (nptr[i] == ' ' || (nptr[i] >= '\t' && nptr[i] <= '\r'))
        i++;
    _Bool neg = 0;
    if (nptr[i] == '-') { neg = 1; i++; }
    else if (nptr[i] == '+') i++;
    /* (no division, no variable multiplication: a 64-bit divider per unwound iteration dominated the formula) */
    unsigned long acc = 0;
    _Bool any = 0, ovf = 0;
    while (nptr[i] >= '0' && nptr[i] <= '9') {
        unsigned long d = (unsigned long)(nptr[i] - '0');
        if (acc > (unsigned long)LONG_MAX / 10) ovf = 1;          /* acc * 10 would already exceed LONG_MAX + 1 */
        else acc = (acc << 3) + (acc << 1) + d;                   /* <= 9223372036854775809, no wrap-around */
        any = 1;
        i++;
    }
    if (!any) i = 0;
    long v;
    if (neg) {
        if (ovf || acc >= (unsigned long)LONG_MAX + 1) v = LONG_MIN;
        else v = -(long)acc;
    } else {
        if (ovf || acc > (unsigned long)LONG_MAX) v = LONG_MAX;
        else v = (long)acc;
    }
    xv_ap_strtol_val = v; xv_ap_strtol_used = i;
    if (endptr != NULL)
        *endptr = (char *)nptr + i;
    return v;
}

/* ---- snprintf */
struct xv_ap_sink { char *s; size_t n; size_t pos; };
static void xv_ap_putc(struct xv_ap_sink *k, char c)
{
    if (k->n > 0 && k->pos < k->n - 1)
        k->s[k->pos] = c;
    k->pos++;
}
static void xv_ap_puts(struct xv_ap_sink *k, const char *str)
{
    size_t i;
    for (i = 0; str[i] != '\0'; i++)
        xv_ap_putc(k, str[i]);
}
static const unsigned long xv_ap_p10[20] = { 1UL, 10UL, 100UL, 1000UL, 10000UL, 100000UL, 1000000UL, 10000000UL, 100000000UL,
    1000000000UL, 10000000000UL, 100000000000UL, 1000000000000UL, 10000000000000UL, 100000000000000UL, 1000000000000000UL,
    10000000000000000UL, 100000000000000000UL, 1000000000000000000UL, 10000000000000000000UL };
/* decimal digits by repeated subtraction of powers of ten (no division: see strtol) */
#define XV_AP_SUB(mag, p, d) if ((mag) >= (p)) { (mag) -= (p); (d)++; }
static void xv_ap_putzd(struct xv_ap_sink *k, size_t v)
{
    unsigned long mag = v;
    if ((long)v < 0) { xv_ap_putc(k, '-'); mag = 0UL - v; }
    unsigned nd = 1, j;
    for (j = 1; j < 20; j++)            /* loop xv_ap_putzd.0 */
        if (mag >= xv_ap_p10[j]) nd = j + 1;
    for (j = nd; j > 0; j--) {          /* loop xv_ap_putzd.1 */
        unsigned long p = xv_ap_p10[j - 1];
        int d = 0;
        XV_AP_SUB(mag, p, d) XV_AP_SUB(mag, p, d) XV_AP_SUB(mag, p, d) XV_AP_SUB(mag, p, d) XV_AP_SUB(mag, p, d)
        XV_AP_SUB(mag, p, d) XV_AP_SUB(mag, p, d) XV_AP_SUB(mag, p, d) XV_AP_SUB(mag, p, d)
        xv_ap_putc(k, (char)('0' + d));
    }
}
static int xv_ap_end(struct xv_ap_sink *k)
{
    if (k->n > 0)
        k->s[k->pos < k->n - 1 ? k->pos : k->n - 1] = '\0';
    __CPROVER_assert(k->pos <= INT_MAX, "XV snprintf model: result fits int");
    return (int)k->pos;
}
/* each model checks that the format string at the call site is the one it models (guards against drift of the real text) */
#define XV_AP_FMT(f, lit) __CPROVER_assert(XV_AP_EQ(f, lit, 0) && XV_AP_EQ(f, lit, 1) && XV_AP_EQ(f, lit, 2) && XV_AP_EQ(f, lit, 3) && XV_AP_EQ(f, lit, 4) && \
        XV_AP_EQ(f, lit, 5) && XV_AP_EQ(f, lit, 6) && XV_AP_EQ(f, lit, 7), "XV snprintf model: format is " lit)
#define XV_AP_EQ(f, lit, i) ((i) >= sizeof(lit) || (f)[i] == (lit)[(i) < sizeof(lit) ? (i) : 0])
int xv_ap_snp_zd(char *s, size_t n, const char *f, size_t v)                   /* "%zd" */
{ XV_AP_FMT(f, "%zd"); struct xv_ap_sink k = { s, n, 0 }; xv_ap_putzd(&k, v); return xv_ap_end(&k); }
int xv_ap_snp_s(char *s, size_t n, const char *f, const char *str)             /* "%s" */
{ XV_AP_FMT(f, "%s"); struct xv_ap_sink k = { s, n, 0 }; xv_ap_puts(&k, str); return xv_ap_end(&k); }
int xv_ap_snp_cs(char *s, size_t n, const char *f, char c, const char *str)    /* "%c%s" */
{ XV_AP_FMT(f, "%c%s"); struct xv_ap_sink k = { s, n, 0 }; xv_ap_putc(&k, c); xv_ap_puts(&k, str); return xv_ap_end(&k); }
int xv_ap_snp_czdc(char *s, size_t n, const char *f, char c, size_t v, char d) /* "%c%zd%c" */
{ XV_AP_FMT(f, "%c%zd%c"); struct xv_ap_sink k = { s, n, 0 }; xv_ap_putc(&k, c); xv_ap_putzd(&k, v); xv_ap_putc(&k, d); return xv_ap_end(&k); }
#endif
