/* env/attrpath_env.h -- TRUSTED stubs of what libxcm/core/attr_path.c and xcm_attr_map.c call outside their own text
 * (include AFTER the real TU and env/base.h).
 *
 *   ut_strdup / ut_memdup   TRUSTED(common/util.c): malloc + copy, never fail (XCM aborts on OOM by design)
 *   strtol                  TRUSTED(glibc strtol): EXACT model for base 10 in the C locale (white space, optional sign,
 *                           digits, saturation to LONG_MIN/LONG_MAX); CBMC's own model stops after 31 characters.
 *   strlen                  NOT trusted: own body, see below
 *   snprintf                TRUSTED(glibc snprintf): EXACT text for the four call shapes of attr_path.c
 *                           ("%zd" | "%s" | "%c%s" | "%c%zd%c"), selected by argument count/type through the macro
 *                           in harness/attrpath/_unit.h.  At most size-1 bytes and a NUL are written, the would-be
 *                           length is returned.  %zd prints its size_t argument as a SIGNED number, as glibc does.
 *                           (Used by the job of attr_path_len.  attr_path_to_str is NOT within reach: its output buffer
 *                           is a heap block of symbolic size written at symbolic offsets by every unwound call site --
 *                           5M variables for a two-character path, out of memory beyond, with this model, with a
 *                           character-by-character model and with exact-size-class allocation alike.)
 */
#ifndef XV_ATTRPATH_ENV_H
#define XV_ATTRPATH_ENV_H
#include <limits.h>

/* ghost xv_ap_base/xv_ap_q and the layout constants: harness/attrpath/_ghost.h (included by the unit headers) */

/* strlen: for a pointer into the string under parse the answer is AP_END - offset.  This is NOT trusted: both facts it
 * rests on (NUL at AP_END, no NUL at the arbitrary position xv_ap_a in between) are asserted at every call, which
 * proves them for every position.  Why: a read at a symbolic offset of a 300-byte object costs ~60k clauses and the
 * library loop does 300 of them per call.  Every other argument takes the ordinary loop (strlen.0, `pre-unwind:`). */
size_t strlen(const char *s)
{
    if (xv_ap_base != NULL && __CPROVER_same_object(s, xv_ap_base) && __CPROVER_OBJECT_SIZE(xv_ap_base) == AP_STR_MAX) {
        size_t off = (size_t)__CPROVER_POINTER_OFFSET(s);
        __CPROVER_assert(off <= AP_END, "XV strlen shortcut: pointer inside the string object");
        __CPROVER_assert(xv_ap_base[AP_END] == 0, "XV strlen shortcut: NUL at the end of the object");
        __CPROVER_assert(!(xv_ap_a >= off && xv_ap_a < AP_END) || xv_ap_base[xv_ap_a] != 0, "XV strlen shortcut: no NUL before the end (arbitrary position)");
        return AP_END - off;
    }
    size_t n = 0;
    while (s[n] != '\0')
        n++;
    return n;
}

/* TRUSTED(common/util.c) ut_strdup: strdup(3) that never fails.  Two models:
 *  - default (plain CBMC jobs): exact copy by a loop (ut_strdup.0, closed by `pre-unwind:`);
 *  - XV_AP_STRDUP_GHOST (contract jobs): a block of exactly n+1 bytes of which only the byte at the arbitrary position
 *    xv_ap_q (if <= n) and the terminating NUL are stated to equal the source; every other byte is ARBITRARY.  This is an
 *    over-approximation of the exact model (everything proved against it holds for the exact copy); what is proved about
 *    position xv_ap_q holds for every position.  Why: 256 writes into a block of symbolic size exhaust the solver. */
char *ut_strdup(const char *str)
{
    size_t n = strlen(str);
    char *copy = malloc(n + 1);
    __CPROVER_assume(copy != NULL);
#ifdef XV_AP_STRDUP_GHOST
    if (xv_ap_q < n)
        copy[xv_ap_q] = str[xv_ap_q];
    copy[n] = '\0';
#else
    size_t i;
    for (i = 0; i <= n; i++)     /* loop ut_strdup.0 */
        copy[i] = str[i];
#endif
    return copy;
}
/* TRUSTED(common/util.c) ut_memdup: ut_malloc + memcpy, as in the real text */
void *ut_memdup(const void *ptr, size_t size)
{
    void *copy = malloc(size);
    __CPROVER_assume(copy != NULL);
    memcpy(copy, ptr, size);
    return copy;
}

/* ---- strtol (one pass, one read per character; no division, no variable multiplication: a 64-bit divider per unwound
 * iteration dominated the formula).  The loop strtol.0 carries a loop contract (DFCC jobs: one read at a symbolic
 * offset instead of 256); plain CBMC jobs close it with `pre-unwind:`.  The invariant's in-bounds part holds for
 * strings whose NUL is the last byte of their object (the layout of this unit); for any other argument it FAILS as an
 * obligation, it is not assumed. */
/* ghost xv_ap_strtol_val / xv_ap_strtol_used (value returned, characters consumed by the last call): _ghost.h */
long strtol(const char *nptr, char **endptr, int base)
{
    __CPROVER_assert(base == 10, "XV strtol model covers base 10 only");
#ifdef XV_AP_E2
    { size_t k = nondet_size_t(); __CPROVER_assume(k < 2); *endptr = (char *)nptr + k; return nondet_long(); }
#endif
    size_t i;
    size_t room = __CPROVER_OBJECT_SIZE(nptr) - (size_t)__CPROVER_POINTER_OFFSET(nptr);
    _Bool lead = 1, neg = 0, any = 0, ovf = 0;
    unsigned long acc = 0;
    for (i = 0; ; i++)
/* (generated pointer/overflow checks are switched off INSIDE the invariant text, as in contracts/begin.h: ~400 of them) */
#pragma CPROVER check push
#pragma CPROVER check disable "pointer"
#pragma CPROVER check disable "pointer-primitive"
#pragma CPROVER check disable "pointer-overflow"
#pragma CPROVER check disable "bounds"
#pragma CPROVER check disable "signed-overflow"
#pragma CPROVER check disable "conversion"
    __CPROVER_assigns(i, lead, neg, any, ovf, acc)
    __CPROVER_loop_invariant(room >= 1 && i <= room - 1)
    __CPROVER_loop_invariant((lead ==> (!neg && !any && !ovf && acc == 0)) && (any ==> !lead))
#ifndef XV_AP_E3
    __CPROVER_loop_invariant(xv_ap_q < i ==> AP_NUMCHAR(nptr[xv_ap_q]))
    __CPROVER_loop_invariant((any && i >= 1) ==> AP_DIGIT(nptr[i - 1]))
    __CPROVER_loop_invariant((i >= 1 && AP_DIGIT(nptr[0])) ==> (!lead && (xv_ap_q < i ==> AP_DIGIT(nptr[xv_ap_q]))))
#endif
    __CPROVER_decreases(room - i)
#pragma CPROVER check pop
    {
        char c = nptr[i];
        if (lead) {
            if (c == ' ' || (c >= '\t' && c <= '\r')) continue;    /* isspace() in the C locale */
            lead = 0;
            if (c == '-') { neg = 1; continue; }
            if (c == '+') continue;
        }
        if (!(c >= '0' && c <= '9')) break;
        unsigned long d = (unsigned long)(c - '0');
        if (acc > (unsigned long)LONG_MAX / 10) ovf = 1;          /* acc * 10 would already exceed LONG_MAX + 1 */
        else acc = (acc << 3) + (acc << 1) + d;                   /* <= 9223372036854775809, no wrap-around */
        any = 1;
    }
    if (!any) i = 0;                                               /* no digits: nothing consumed */
    long v;
    if (neg) {
        if (ovf || acc >= (unsigned long)LONG_MAX + 1) v = LONG_MIN;
        else v = -(long)acc;
    } else {
        if (ovf || acc > (unsigned long)LONG_MAX) v = LONG_MAX;
        else v = (long)acc;
    }
    xv_ap_strtol_val = v; xv_ap_strtol_used = i;
    if (endptr != NULL)
        *endptr = (char *)nptr + i;
    return v;
}

/* ---- snprintf */
/* The text is first built in a local buffer (concrete offsets), then copied out with ONE memcpy of min(len, size-1)
 * bytes and one NUL: writing the caller's heap buffer character by character at symbolic offsets, once per unwound call
 * site, costs millions of variables. */
#define XV_AP_TXT 300      /* longest text: key of 255 characters + separator; asserted */
static void xv_ap_putc(char *b, size_t *pos, char c)
{
    __CPROVER_assert(*pos < XV_AP_TXT, "XV snprintf model: text fits the local buffer");
    b[*pos] = c;
    (*pos)++;
}
static void xv_ap_puts(char *b, size_t *pos, const char *str)
{
    size_t i;
    for (i = 0; str[i] != '\0'; i++)      /* loop xv_ap_puts.0 */
        xv_ap_putc(b, pos, str[i]);
}
static const unsigned long xv_ap_p10[20] = { 1UL, 10UL, 100UL, 1000UL, 10000UL, 100000UL, 1000000UL, 10000000UL, 100000000UL,
    1000000000UL, 10000000000UL, 100000000000UL, 1000000000000UL, 10000000000000UL, 100000000000000UL, 1000000000000000UL,
    10000000000000000UL, 100000000000000000UL, 1000000000000000000UL, 10000000000000000000UL };
/* decimal digits by repeated subtraction of powers of ten (no division: see strtol) */
#define XV_AP_SUB(mag, p, d) if ((mag) >= (p)) { (mag) -= (p); (d)++; }
/* XV_AP_ZD_DIGITS (bounded plain-CBMC jobs only): number of decimal digits the job can produce; the model ASSERTS that
 * the magnitude fits, so a too small value is a failed obligation, not an assumption */
#ifndef XV_AP_ZD_DIGITS
#define XV_AP_ZD_DIGITS 20
#endif
static void xv_ap_putzd(char *b, size_t *pos, size_t v)
{
    unsigned long mag = v;
    if ((long)v < 0) { xv_ap_putc(b, pos, '-'); mag = 0UL - v; }
    __CPROVER_assert(XV_AP_ZD_DIGITS == 20 || mag < xv_ap_p10[XV_AP_ZD_DIGITS < 20 ? XV_AP_ZD_DIGITS : 19], "XV snprintf model: XV_AP_ZD_DIGITS suffices");
    unsigned nd = 1, j;
    for (j = 1; j < XV_AP_ZD_DIGITS; j++)            /* loop xv_ap_putzd.0 */
        if (mag >= xv_ap_p10[j]) nd = j + 1;
    for (j = nd; j > 0; j--) {          /* loop xv_ap_putzd.1 */
        unsigned long p = xv_ap_p10[j - 1];
        int d = 0;
        XV_AP_SUB(mag, p, d) XV_AP_SUB(mag, p, d) XV_AP_SUB(mag, p, d) XV_AP_SUB(mag, p, d) XV_AP_SUB(mag, p, d)
        XV_AP_SUB(mag, p, d) XV_AP_SUB(mag, p, d) XV_AP_SUB(mag, p, d) XV_AP_SUB(mag, p, d)
        xv_ap_putc(b, pos, (char)('0' + d));
    }
}
/* copy the text out: at most n-1 bytes and a NUL; returns the would-be length */
static int xv_ap_end(char *s, size_t n, const char *b, size_t pos)
{
    if (n > 0) {
        size_t w = pos < n - 1 ? pos : n - 1;
        if (w > 0)
            memcpy(s, b, w);
        s[w] = '\0';
    }
    __CPROVER_assert(pos <= INT_MAX, "XV snprintf model: result fits int");
    return (int)pos;
}
/* each model checks that the format string at the call site is the one it models (guards against drift of the real text) */
#define XV_AP_FMT(f, lit) __CPROVER_assert(XV_AP_EQ(f, lit, 0) && XV_AP_EQ(f, lit, 1) && XV_AP_EQ(f, lit, 2) && XV_AP_EQ(f, lit, 3) && XV_AP_EQ(f, lit, 4) && \
        XV_AP_EQ(f, lit, 5) && XV_AP_EQ(f, lit, 6) && XV_AP_EQ(f, lit, 7), "XV snprintf model: format is " lit)
#define XV_AP_EQ(f, lit, i) ((i) >= sizeof(lit) || (f)[i] == (lit)[(i) < sizeof(lit) ? (i) : 0])
int xv_ap_snp_zd(char *s, size_t n, const char *f, size_t v)                   /* "%zd" */
{ XV_AP_FMT(f, "%zd"); char b[XV_AP_TXT]; size_t pos = 0; xv_ap_putzd(b, &pos, v); return xv_ap_end(s, n, b, pos); }
int xv_ap_snp_s(char *s, size_t n, const char *f, const char *str)             /* "%s" */
{ XV_AP_FMT(f, "%s"); char b[XV_AP_TXT]; size_t pos = 0; xv_ap_puts(b, &pos, str); return xv_ap_end(s, n, b, pos); }
int xv_ap_snp_cs(char *s, size_t n, const char *f, char c, const char *str)    /* "%c%s" */
{ XV_AP_FMT(f, "%c%s"); char b[XV_AP_TXT]; size_t pos = 0; xv_ap_putc(b, &pos, c); xv_ap_puts(b, &pos, str); return xv_ap_end(s, n, b, pos); }
int xv_ap_snp_czdc(char *s, size_t n, const char *f, char c, size_t v, char d) /* "%c%zd%c" */
{ XV_AP_FMT(f, "%c%zd%c"); char b[XV_AP_TXT]; size_t pos = 0; xv_ap_putc(b, &pos, c); xv_ap_putzd(b, &pos, v); xv_ap_putc(b, &pos, d); return xv_ap_end(s, n, b, pos); }
#endif
