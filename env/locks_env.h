/* env/locks_env.h -- TRUSTED lock model for unit `locks` (DESIGN section 5, C15): resource-invariant reasoning in the style of
 * concurrent separation logic, encoded in stubs of pthread_mutex_lock/unlock (include AFTER the real TU).
 *
 * A mutex PROTECTS a piece of process-wide state and that state has an INVARIANT.  No schedule is explored; instead
 *   acquire  = obligation "this thread does not hold the lock" (self-deadlock / double lock)
 *              obligation "the protected state is what the last release left" (nobody wrote it outside a critical
 *              section: checked against a ghost shadow copy where the state is a scalar)
 *              held := 1; then OTHER THREADS RAN: the protected state becomes ARBITRARY subject to its invariant;
 *              ghost snapshots record what this critical section found
 *   release  = obligation "held"; obligation "the invariant holds again" (what is published to the other threads);
 *              ghost snapshots record what was published; held := 0; then OTHER THREADS RUN AGAIN: the fields of the
 *              protected state that other threads may write become arbitrary, so a read made after the release cannot
 *              support any postcondition, and the shadow copy is refreshed, so a write made after the release shows as
 *              "protected state != shadow" in the postcondition / at the next acquire.
 * What this argument gives: lock discipline + the invariant is preserved by every critical section + every value a
 * function returns was obtained inside its critical section.  It does NOT explore interleavings.
 *
 * The unit header selects the protected state with XV_LOCKS_TP (next_id of xcm_tp.c) or XV_LOCKS_CS (the SSL_CTX cache
 * of ctx_store.c) and the hooks below are defined accordingly (ghost state and hook bodies: at the end of this file).
 *
 * TRUSTED(pthread): pthread_mutex_lock/unlock/init on a default (non-recursive, non-robust, non-errorcheck) mutex that
 * has been initialised return 0: EINVAL/EAGAIN/EDEADLK/EPERM/EOWNERDEAD are specified for other mutex kinds only.
 * TRUSTED(common/util.c): ut_mutex_lock/unlock/init are the pthread call followed by ut_assert(rc == 0).
 */
#ifndef XV_ENV_LOCKS_H
#define XV_ENV_LOCKS_H
#include <pthread.h>

/* ---- ghost lock state (havocked by xv_lk_ghost_havoc() at the start of every harness) */
/* (ghost variables of one group live in one struct: one assigns target and one addressed object per group instead of
 * one per variable -- the cost of DFCC's frame checks grows with both; the names below are macros onto the fields) */
struct { _Bool held; long acq, rel, init; pthread_mutex_t *first; } xv_LK;
#define xv_lk_first xv_LK.first   /* (unit xcm_tp.c only) the mutex acquired first: see xv_lk_the_mutex there */
#define xv_lk_held xv_LK.held     /* this thread holds THE lock of the unit                        */
#define xv_lk_acq xv_LK.acq       /* number of acquisitions / releases made by this thread         */
#define xv_lk_rel xv_LK.rel
#define xv_lk_init xv_LK.init     /* pthread_mutex_init calls                                      */
#define XV_LK_CNT_OK (xv_lk_acq >= 0 && xv_lk_acq < (1L << 40) && xv_lk_rel >= 0 && xv_lk_rel < (1L << 40) && xv_lk_init >= 0 && xv_lk_init < (1L << 40))
#define XV_LK_ASSIGNS xv_LK

/* hooks, defined at the end of this file, one set per protected state */
static pthread_mutex_t *xv_lk_the_mutex(void);
static void xv_lk_check_untouched(void);   /* asserts: protected state == what the last release left          */
static void xv_lk_others_ran_acquire(void);/* protected state := arbitrary subject to the invariant; snapshot  */
static void xv_lk_check_invariant(void);   /* asserts the invariant; snapshots what is published               */
static void xv_lk_others_run_release(void);/* mutable shared fields := arbitrary; shadow refreshed             */

/* TRUSTED(pthread) */
int pthread_mutex_lock(pthread_mutex_t *m)
{
#ifdef XV_LOCKS_TP
    if (xv_lk_first == NULL) xv_lk_first = m;
#endif
    __CPROVER_assert(m == xv_lk_the_mutex(), "lock model: the mutex locked is the one that protects the state of this unit");
    __CPROVER_assert(!xv_lk_held, "PO[C15] lock.acquire_while_not_held (no double lock / self-deadlock)");
    xv_lk_check_untouched();
    xv_lk_held = 1;
    xv_lk_acq++;
    xv_lk_others_ran_acquire();
    return 0;
}
/* TRUSTED(pthread) */
int pthread_mutex_unlock(pthread_mutex_t *m)
{
    __CPROVER_assert(m == xv_lk_the_mutex(), "lock model: the mutex unlocked is the one that protects the state of this unit");
    __CPROVER_assert(xv_lk_held, "PO[C15] lock.release_only_when_held");
    xv_lk_check_invariant();
    xv_lk_held = 0;
    xv_lk_rel++;
    xv_lk_others_run_release();
    return 0;
}
/* TRUSTED(pthread) */
int pthread_mutex_init(pthread_mutex_t *m, const pthread_mutexattr_t *attr)
{
    __CPROVER_assert(m == xv_lk_the_mutex(), "lock model: the mutex initialised is the one that protects the state of this unit");
    xv_lk_init++;
    return 0;
}
/* TRUSTED(common/util.c:23-39) */
void ut_mutex_init(pthread_mutex_t *m) { int rc = pthread_mutex_init(m, NULL); if (rc != 0) abort(); }
void ut_mutex_lock(pthread_mutex_t *m) { int rc = pthread_mutex_lock(m); if (rc != 0) abort(); }
void ut_mutex_unlock(pthread_mutex_t *m) { int rc = pthread_mutex_unlock(m); if (rc != 0) abort(); }

/* ================================================================================================================ */
#ifdef XV_LOCKS_TP
/* protected state: `next_id` of libxcm/tp/common/xcm_tp.c, protected by `next_id_lock`.
 * INVARIANT: next_id >= 0.  ASSUMED in addition at every acquire: next_id < INT64_MAX (fewer than 2^63 socket ids have
 * been handed out in the life of the process -- a resource bound, not a property of the code). */
struct { int64_t shadow, seen, pub; } xv_ID;
#define xv_id_shadow xv_ID.shadow   /* next_id as the last release (of any thread) left it                  */
#define xv_id_seen xv_ID.seen       /* next_id as THIS critical section found it                            */
#define xv_id_pub xv_ID.pub         /* next_id as THIS critical section published it                        */
#define XV_ID_ASSIGNS next_id, xv_ID
static inline void xv_lk_ghost_havoc(void)
{
    xv_lk_held = nondet_bool(); xv_lk_acq = nondet_long(); xv_lk_rel = nondet_long(); xv_lk_init = nondet_long();
    xv_id_shadow = nondet_long(); xv_id_seen = nondet_long(); xv_id_pub = nondet_long();
    next_id = nondet_long();
    xv_lk_first = NULL;
}
/* the mutex is not named here (a change that removes or renames it must fail an obligation, not the build): it is whichever mutex the code
 * under proof acquires first; release must name the same one, and the postcondition of get_next_sock_id demands exactly one acquire/release pair */
static pthread_mutex_t *xv_lk_the_mutex(void) { return xv_lk_first; }
#define XV_LK_UNNAMED_MUTEX 1
static void xv_lk_check_untouched(void)
{
    __CPROVER_assert(next_id == xv_id_shadow, "PO[C15] next_id.not_written_before_acquire (outside the critical section)");
}
static void xv_lk_others_ran_acquire(void)
{
    int64_t v = nondet_long();
    __CPROVER_assume(v >= 0 && v < INT64_MAX);
    next_id = v; xv_id_seen = v;
}
static void xv_lk_check_invariant(void)
{
    __CPROVER_assert(next_id >= 0, "PO[C15] next_id.invariant_restored_at_release");
    xv_id_pub = next_id;
}
static void xv_lk_others_run_release(void)
{
    int64_t v = nondet_long();
    __CPROVER_assume(v >= 0);
    next_id = v; xv_id_shadow = v;
}
#endif /* XV_LOCKS_TP */

/* ================================================================================================================ */
#ifdef XV_LOCKS_CS
/* protected state: `cache` of libxcm/tp/tls/ctx_store.c (list of cache_entry {hash, ssl_ctx, use_cnt}), protected by
 * cache.lock.  This part does NOT include env/base.h: CBMC's exact memcpy is wanted for the 32-byte hash copy (the
 * base.h model keeps 9 bytes only), and ut_malloc/ut_free count live blocks (ghost xv_heap_live, the C08 leak oracle).
 *
 * INVARIANT of the cache (checked at every release, assumed at every acquire):
 *   I1 the list is well formed: every le_prev points at the pointer that points at the entry
 *   I2 every listed entry has use_cnt >= 1 and a non-NULL ssl_ctx
 *   I3 listed entries have pairwise different ssl_ctx and pairwise different hashes
 *   I4 (ownership) if this thread holds xv_my_refs >= 1 references on context xv_my_ctx, an entry with that context is
 *      listed and its use_cnt >= xv_my_refs     (what ctx_store_put relies on; the C08 typestate of btls deinit)
 * ASSUMED in addition at every acquire: use_cnt < INT_MAX (fewer than 2^31 sockets share one context), and the
 * BOUND of this unit: at most XV_CS_MAX (2) entries are listed when the lock is acquired (jobs are marked `bounded:`).
 */
#include <sys/stat.h>
#include <openssl/ssl.h>
#include <openssl/err.h>
#include <openssl/pem.h>
#include <openssl/x509.h>
#include "log.h"
#include "util.h"

/* ---- TRUSTED replacements of env/base.h */
bool log_is_enabled(enum log_type type) { return false; }
void log_console_conf(bool enabled) { }
long xv_heap_live;       /* ghost: ut_* heap blocks allocated and not yet freed */
#define XV_LIVE_OK(c) ((c) >= 0 && (c) < (1L << 40))
#define XV_LIVE_OK2(c) ((c) >= 0 && (c) < (1L << 41))   /* range for callees: room for the calls made before them */
void *ut_malloc(size_t size)
{
    /* the only ut_malloc of ctx_store.c/item.c is cache_entry_create (cache_install): a mechanical witness of "helper entered with the lock held" */
    __CPROVER_assert(xv_lk_held, "PO[C15] cache_entry_create.entered_with_the_cache_lock_held");
    void *p = malloc(size); __CPROVER_assume(p != NULL); xv_heap_live++; return p;
}
void ut_free(void *ptr) { if (ptr != NULL) xv_heap_live--; free(ptr); }
void ut_mem_exhausted(void) { abort(); }
void ut_fatal(void) { abort(); }
/* ghost record of credential data handed out (C18 "loaded from data read between two equal hashes"): the results of the
 * successful loads (ut_load_text_file, ut_strdup) made since the last EVP_DigestFinal_ex; at each EVP_DigestFinal_ex the
 * record moves to xv_ldb_* ("between the last two digests") and starts again */
struct { long ld_calls; const char *ld_res[4]; } xv_LD;
#define xv_ld_calls xv_LD.ld_calls        /* number of ut_load_text_file calls */
#define xv_ld_res xv_LD.ld_res
struct { long md_calls; uint8_t md_last[32], md_prev[32]; long ld_since_md, ld_between; const char *ldb_res[4]; } xv_MD;
#define xv_md_calls xv_MD.md_calls        /* EVP_DigestFinal_ex calls */
#define xv_md_last xv_MD.md_last          /* output of the last EVP_DigestFinal_ex */
#define xv_md_prev xv_MD.md_prev          /* output of the one before */
#define xv_ld_since_md xv_MD.ld_since_md
#define xv_ld_between xv_MD.ld_between
#define xv_ldb_res xv_MD.ldb_res
static inline void xv_ld_record(const char *p) { if (xv_ld_since_md >= 0 && xv_ld_since_md < 4) xv_ld_res[xv_ld_since_md] = p; xv_ld_since_md++; }
/* heap strings of this unit are short (bound XV_STR_MAX of the unit, an obligation in the stubs); a block of EXACTLY len+1
 * bytes is allocated (one malloc site per stub: every allocation site is an object for CBMC, and DFCC's frame checks cost
 * in proportion to the number of objects) */
#define XV_STR_MAX 4
static char *xv_str_alloc(size_t n)
{
    char *p = malloc(n + 1);
    __CPROVER_assume(p != NULL);
    return p;
}
/* TRUSTED(common/util.c:69-84 over strdup): exact copy in a block of strlen+1 bytes, never fails */
char *ut_strdup(const char *str)
{
    size_t n = strlen(str);
    __CPROVER_assert(n < XV_STR_MAX, "bound of the unit: strings duplicated are shorter than XV_STR_MAX");
    __CPROVER_assume(n < XV_STR_MAX);
    char *p = xv_str_alloc(n);
    xv_heap_live++;
    p[0] = str[0];
    if (n >= 1) p[1] = str[1];
    if (n >= 2) p[2] = str[2];
    if (n >= 3) p[3] = str[3];
    xv_ld_record(p);
    return p;
}

/* TRUSTED(common/util.c:77-84 over strndup): copy of at most n bytes, NUL-terminated, in a block of exactly len+1 bytes */
char *ut_strndup(const char *str, size_t n)
{
    size_t l = 0;
    if (l < n && str[l] != 0) l++;
    if (l == 1 && l < n && str[l] != 0) l++;
    if (l == 2 && l < n && str[l] != 0) l++;
    __CPROVER_assert(l == n || str[l] == 0, "bound of the unit: strings duplicated are shorter than XV_STR_MAX");
    __CPROVER_assume(l == n || str[l] == 0);
    char *p = xv_str_alloc(l);
    xv_heap_live++;
    if (l >= 1) p[0] = str[0];
    if (l >= 2) p[1] = str[1];
    if (l >= 3) p[2] = str[2];
    p[l] = 0;
    return p;
}

/* ---- logging helpers that ctx_store.c runs UNCONDITIONALLY (the LOG_TLS_CTX_* macros format into local buffers before
 * log_debug_sock() tests log_is_enabled()): snprintf (through prelude.h's macro xv_snprintf), hash_description,
 * log_tls_get_error_stack, ut_aprintf (variadic: the unit header routes it to xv_aprintf(buf, capacity)).
 * Text written into a log buffer is never read by code under proof (only by these very stubs): what matters is that the
 * buffer can take it.  Model: the whole range [s, s+size) must be writable (obligation); one byte at an ARBITRARY position
 * becomes arbitrary and a NUL is stored at another arbitrary position (so every byte may change; proved for each position).
 * (__CPROVER_havoc_slice with a non-literal size made cbmc crash while building counterexample traces, and with a symbolic
 * size it made the formula explode.) */
char nondet_char(void);
static void xv_text_any(char *s, size_t size)
{
    __CPROVER_assert(size >= 1 && __CPROVER_w_ok(s, size), "log text: destination buffer writable over its whole capacity");
    size_t k = nondet_size_t(), z = nondet_size_t();
    __CPROVER_assume(k < size && z < size);
    s[k] = nondet_char();
    s[z] = '\0';
}
/* TRUSTED(libc) snprintf, reached through prelude.h's macro (own model instead of env/libc_fmt.h, see above) */
struct { int ret; size_t cap; int calls; } xv_SNP;
#define xv_snprintf_ret xv_SNP.ret
#define xv_snprintf_cap xv_SNP.cap
#define xv_snprintf_calls xv_SNP.calls
int xv_snprintf(char *s, size_t size)
{
    int r = nondet_int();
    __CPROVER_assume(r >= 0 && r <= 4096);
    xv_snprintf_ret = r; xv_snprintf_cap = size; xv_snprintf_calls++;
    if (size > 0)
        xv_text_any(s, size);
    return r;
}
/* TRUSTED(libxcm/tp/tls/log_tls.c:14-20): snprintf(buf + 3 * i, 4, "%02x:") per hash byte, then the last ':' replaced by NUL:
 * bytes 0 .. 3 * hash_len of buf are written */
void hash_description(uint8_t *hash, size_t hash_len, char *buf)
{
    __CPROVER_assert(hash_len >= 1 && __CPROVER_r_ok(hash, hash_len), "hash_description: hash readable");
    xv_text_any(buf, hash_len * 3 + 1);
}
/* TRUSTED(libxcm/tp/tls/log_tls.c:22-29) */
void log_tls_get_error_stack(char *buf, size_t capacity) { xv_text_any(buf, capacity); }
/* TRUSTED(common/util.c:150-175 ut_aprintf): appends inside [buf, buf+capacity) */
void xv_aprintf(char *buf, size_t capacity) { xv_text_any(buf, capacity); }

/* ---- TRUSTED(common/util.c:337-390 load_file/ut_load_text_file over fopen/fread/ferror/fclose): the whole file as a
 * NUL-terminated heap string, or -1 with the errno fopen(3)/fread(3) left; on fopen failure *data is NOT written, on a
 * read error it is NULL.  Files longer than XV_FILE_MAX are not explored. */
#define XV_FILE_MAX (XV_STR_MAX - 1)
ssize_t ut_load_text_file(const char *filename, char **data)
{
    __CPROVER_assert(__CPROVER_r_ok(filename, 1), "ut_load_text_file: filename readable");
    xv_ld_calls++;
    if (nondet_bool()) {
        int e = nondet_int();
        __CPROVER_assume(e == EACCES || e == ENOENT || e == EISDIR || e == ELOOP || e == EMFILE || e == ENFILE || e == ENOMEM ||
                         e == ENAMETOOLONG || e == ENOTDIR || e == EIO || e == EINTR || e == EOVERFLOW);
        xv_errno = e;
        if (nondet_bool())
            *data = NULL;
        return -1;
    }
    size_t n = nondet_size_t();
    __CPROVER_assume(n <= XV_FILE_MAX);
    char *p = xv_str_alloc(n);
    xv_heap_live++;
    p[n] = '\0';
    *data = p;
    xv_ld_record(p);
    return (ssize_t)n + 1;
}

#define XV_DG_MAX 128
#define XV_DG_CHUNK 8
struct { uint8_t dg_log[XV_DG_MAX]; size_t dg_len; unsigned long dg_updates, stat_calls, lstat_calls; } xv_DG;   /* counters wrap: no range needed */
#define xv_dg_log xv_DG.dg_log            /* digest input so far (since the last EVP_DigestInit_ex) */
#define xv_dg_len xv_DG.dg_len
#define xv_dg_updates xv_DG.dg_updates
#define xv_stat_calls xv_DG.stat_calls
#define xv_lstat_calls xv_DG.lstat_calls

/* ---- TRUSTED(kernel) stat/lstat: fail with a documented errno or fill the buffer with arbitrary metadata */
int xv_stat_any(struct stat *st)
{
    if (nondet_bool()) {
        int e = nondet_int();
        __CPROVER_assume(e == EACCES || e == ENOENT || e == ELOOP || e == ENOMEM || e == ENAMETOOLONG || e == ENOTDIR || e == EOVERFLOW || e == EIO);
        xv_errno = e;
        return -1;
    }
    __CPROVER_havoc_slice(st, sizeof(*st));
    return 0;
}
int stat(const char *path, struct stat *st) { __CPROVER_assert(__CPROVER_r_ok(path, 1), "stat: path readable"); xv_stat_calls++; return xv_stat_any(st); }
int lstat(const char *path, struct stat *st) { __CPROVER_assert(__CPROVER_r_ok(path, 1), "lstat: path readable"); xv_lstat_calls++; return xv_stat_any(st); }

/* ---- TRUSTED(OpenSSL EVP digest): the digest INPUT is recorded in a ghost log (C18 lemma hash_input_injective); the
 * digest OUTPUT is arbitrary (no relation to the input is assumed: weaker than SHA-256, hence sound), except that
 * from the (xv_md_settle)-th EVP_DigestFinal_ex on it repeats the previous output ("the files stopped changing":
 * this bounds the retry loop of ctx_store_get_ctx; jobs that rely on it are `bounded:`).
 * EVP_MD_CTX_new never fails (OOM excluded by design, as for ut_malloc). */
long xv_mdctx_live;
long xv_md_settle;         /* outputs repeat from this EVP_DigestFinal_ex call number on (NEVER assigned after the harness set it) */
static char xv_sha256_obj;
const EVP_MD *EVP_sha256(void) { return (const EVP_MD *)&xv_sha256_obj; }
EVP_MD_CTX *EVP_MD_CTX_new(void) { char *p = malloc(1); __CPROVER_assume(p != NULL); xv_mdctx_live++; return (EVP_MD_CTX *)p; }
void EVP_MD_CTX_free(EVP_MD_CTX *ctx) { if (ctx != NULL) xv_mdctx_live--; free(ctx); }
int EVP_DigestInit_ex(EVP_MD_CTX *ctx, const EVP_MD *type, ENGINE *impl)
{
    __CPROVER_assert(__CPROVER_r_ok(ctx, 1), "EVP_DigestInit_ex: live digest context");
    xv_dg_len = 0;
    return 1;
}
int EVP_DigestUpdate(EVP_MD_CTX *ctx, const void *d, size_t cnt)
{
    __CPROVER_assert(__CPROVER_r_ok(ctx, 1), "EVP_DigestUpdate: live digest context");
    __CPROVER_assert(cnt == 0 || __CPROVER_r_ok(d, cnt), "EVP_DigestUpdate: input readable");
    __CPROVER_assert(cnt <= XV_DG_CHUNK && xv_dg_len + cnt <= XV_DG_MAX, "bound of the digest-input log (bounded stand-in) respected");
    const uint8_t *b = d;
#define XV_DG_PUT(i) if ((i) < cnt) xv_dg_log[xv_dg_len + (i)] = b[i]
    XV_DG_PUT(0); XV_DG_PUT(1); XV_DG_PUT(2); XV_DG_PUT(3); XV_DG_PUT(4); XV_DG_PUT(5); XV_DG_PUT(6); XV_DG_PUT(7);
    xv_dg_len += cnt;
    xv_dg_updates++;
    return 1;
}
int EVP_DigestFinal_ex(EVP_MD_CTX *ctx, unsigned char *md, unsigned int *s)
{
    __CPROVER_assert(__CPROVER_r_ok(ctx, 1), "EVP_DigestFinal_ex: live digest context");
    memcpy(xv_md_prev, xv_md_last, 32);
    if (xv_md_calls < xv_md_settle) {
        uint8_t fresh[32];
        __CPROVER_havoc_slice(fresh, 32);
        memcpy(xv_md_last, fresh, 32);
    }
    memcpy(md, xv_md_last, 32);
    if (s != NULL)
        *s = 32;
    xv_md_calls++;
    xv_ld_between = xv_ld_since_md; xv_ldb_res[0] = xv_ld_res[0]; xv_ldb_res[1] = xv_ld_res[1]; xv_ldb_res[2] = xv_ld_res[2]; xv_ldb_res[3] = xv_ld_res[3];
    xv_ld_since_md = 0;
    return 1;
}

/* ---- SSL_CTX objects: opaque one-byte heap objects; SSL_CTX_free is COUNTED (not free()d: the contexts of entries that
 * a contract's requires clause creates are not in any frees clause) and the context is remembered as dead */
struct { long ctx_live, ctxfree_calls; const SSL_CTX *ctxfree_last, *ctx_dead; } xv_CX;
#define xv_ctx_live xv_CX.ctx_live            /* SSL_CTX_new - SSL_CTX_free */
#define xv_ctxfree_calls xv_CX.ctxfree_calls
#define xv_ctxfree_last xv_CX.ctxfree_last
#define xv_ctx_dead xv_CX.ctx_dead            /* a context freed since the harness started (NULL: none) */
#define XV_CX_ASSIGNS xv_CX
SSL_CTX *xv_ctx_any(void) { char *p = malloc(1); __CPROVER_assume(p != NULL); return (SSL_CTX *)p; }
void SSL_CTX_free(SSL_CTX *ctx)
{
    if (ctx == NULL) return;
    __CPROVER_assert(ctx != xv_ctx_dead, "PO[C08] SSL_CTX_free.not_freed_twice");
    xv_ctxfree_calls++; xv_ctxfree_last = ctx; xv_ctx_live--; xv_ctx_dead = ctx;
}



/* ---- TRUSTED(OpenSSL) the part of libssl/libcrypto that load_ssl_ctx and its install_* helpers call.
 * Objects are opaque one-byte heap objects; ghost counters (group xv_OS) count what was handed out and not given back.
 * ASSUMPTIONS (TRUSTED, not proved):
 *  O1 SSL_CTX_new, BIO_new_mem_buf, EVP_MD_CTX_new do not fail (they fail on memory exhaustion only, which XCM answers
 *     with abort() by design, as for ut_malloc)
 *  O2 SSL_CTX_set_cipher_list / SSL_CTX_set_ciphersuites accept the two constant cipher strings of ctx_store.c (the real
 *     code ut_asserts it)
 *  O3 PEM_read_bio_* consume at least one byte of the BIO per object returned, so a BIO of n bytes yields at most n objects
 *  O4 ownership: SSL_CTX_use_certificate/use_PrivateKey/X509_STORE_add_cert/add_crl take their own reference (the caller
 *     still frees his); SSL_CTX_add0_chain_cert takes over the caller's reference if and only if it returns 1
 * Everything else is nondeterministic: any parse may fail, any install may fail, the key check may fail. */
struct { long x509_live, crl_live, pkey_live, bio_live; long bio_rem; unsigned long err_last, err_first; _Bool pem_malformed; _Bool used_cert, used_key, key_checked; long tc_added, crl_added; } xv_OS;
#define xv_x509_live xv_OS.x509_live
#define xv_crl_live xv_OS.crl_live
#define xv_pkey_live xv_OS.pkey_live
#define xv_bio_live xv_OS.bio_live
#define xv_bio_rem xv_OS.bio_rem          /* bytes not yet consumed of the (one) memory BIO being read */
#define xv_err_last xv_OS.err_last        /* what ERR_peek_last_error() reports: the NEWEST entry of the error queue */
#define xv_err_first xv_OS.err_first      /* what ERR_peek_error() reports: the OLDEST entry of the error queue (0 = empty queue) */
#define xv_pem_malformed xv_OS.pem_malformed /* ghost: some PEM_read_bio_* call met an object that is there but does not parse */
#define xv_ssl_used_cert xv_OS.used_cert  /* SSL_CTX_use_certificate returned 1 for the context being built */
#define xv_ssl_used_key xv_OS.used_key
#define xv_ssl_key_checked xv_OS.key_checked
#define xv_tc_added xv_OS.tc_added
#define xv_crl_added xv_OS.crl_added
unsigned long nondet_ulong(void);
static char xv_method_obj, xv_store_obj;
const SSL_METHOD *TLS_method(void) { return nondet_bool() ? (const SSL_METHOD *)&xv_method_obj : NULL; }
SSL_CTX *SSL_CTX_new(const SSL_METHOD *meth)
{
    __CPROVER_assert(meth != NULL, "SSL_CTX_new: method");
    xv_ctx_live++; xv_ssl_used_cert = 0; xv_ssl_used_key = 0; xv_ssl_key_checked = 0; xv_tc_added = 0; xv_crl_added = 0;
    return xv_ctx_any();
}
#define XV_CTX_USE(ctx, what) __CPROVER_assert((ctx) != NULL && (const SSL_CTX *)(ctx) != xv_ctx_dead, "PO[C08] " what ": context is live (not freed)")
uint64_t SSL_CTX_set_options(SSL_CTX *ctx, uint64_t op) { XV_CTX_USE(ctx, "SSL_CTX_set_options"); return op; }
uint64_t SSL_CTX_clear_options(SSL_CTX *ctx, uint64_t op) { XV_CTX_USE(ctx, "SSL_CTX_clear_options"); return 0; }
int SSL_CTX_set_cipher_list(SSL_CTX *ctx, const char *str) { XV_CTX_USE(ctx, "SSL_CTX_set_cipher_list"); return 1; }
int SSL_CTX_set_ciphersuites(SSL_CTX *ctx, const char *str) { XV_CTX_USE(ctx, "SSL_CTX_set_ciphersuites"); return 1; }
X509_STORE *SSL_CTX_get_cert_store(const SSL_CTX *ctx) { XV_CTX_USE(ctx, "SSL_CTX_get_cert_store"); return (X509_STORE *)&xv_store_obj; }
int SSL_CTX_use_certificate(SSL_CTX *ctx, X509 *x)
{
    XV_CTX_USE(ctx, "SSL_CTX_use_certificate");
    __CPROVER_assert(__CPROVER_r_ok(x, 1), "SSL_CTX_use_certificate: live certificate");
    if (nondet_bool()) return 0;
    xv_ssl_used_cert = 1;
    return 1;
}
int SSL_CTX_use_PrivateKey(SSL_CTX *ctx, EVP_PKEY *pkey)
{
    XV_CTX_USE(ctx, "SSL_CTX_use_PrivateKey");
    __CPROVER_assert(__CPROVER_r_ok(pkey, 1), "SSL_CTX_use_PrivateKey: live key");
    if (nondet_bool()) return 0;
    xv_ssl_used_key = 1;
    return 1;
}
int SSL_CTX_check_private_key(const SSL_CTX *ctx)
{
    XV_CTX_USE(ctx, "SSL_CTX_check_private_key");
    if (nondet_bool()) return 0;
    xv_ssl_key_checked = 1;
    return 1;
}
long SSL_CTX_ctrl(SSL_CTX *ctx, int cmd, long larg, void *parg)
{
    XV_CTX_USE(ctx, "SSL_CTX_ctrl");
    if (cmd == SSL_CTRL_CHAIN_CERT) {              /* SSL_CTX_add0_chain_cert */
        __CPROVER_assert(larg == 0 && __CPROVER_r_ok(parg, 1), "SSL_CTX_add0_chain_cert: live certificate");
        if (nondet_bool()) return 0;
        xv_x509_live--;                            /* O4: the context owns it now */
        return 1;
    }
    __CPROVER_assert(cmd == SSL_CTRL_SET_SESS_CACHE_MODE || cmd == SSL_CTRL_SET_READ_AHEAD, "SSL_CTX_ctrl: command modelled");
    return 0;
}
int X509_STORE_add_cert(X509_STORE *st, X509 *x)
{
    __CPROVER_assert(st == (X509_STORE *)&xv_store_obj && __CPROVER_r_ok(x, 1), "X509_STORE_add_cert: store of the context, live certificate");
    if (nondet_bool()) return 0;
    xv_tc_added++;
    return 1;
}
int X509_STORE_add_crl(X509_STORE *st, X509_CRL *x)
{
    __CPROVER_assert(st == (X509_STORE *)&xv_store_obj && __CPROVER_r_ok(x, 1), "X509_STORE_add_crl: store of the context, live CRL");
    if (nondet_bool()) return 0;
    xv_crl_added++;
    return 1;
}
int X509_STORE_set_flags(X509_STORE *st, unsigned long flags) { __CPROVER_assert(st == (X509_STORE *)&xv_store_obj, "X509_STORE_set_flags: store of the context"); return 1; }
BIO *BIO_new_mem_buf(const void *buf, int len)
{
    __CPROVER_assert(len >= 0 && (len == 0 || __CPROVER_r_ok(buf, (size_t)len)), "BIO_new_mem_buf: buffer readable over len");
    char *p = malloc(1); __CPROVER_assume(p != NULL);
    xv_bio_live++; xv_bio_rem = len;
    return (BIO *)p;
}
int BIO_free(BIO *a) { if (a == NULL) return 0; xv_bio_live--; free(a); return 1; }
/* one PEM object off the BIO: NULL (end of data or parse error: ERR_peek_last_error() then reports an arbitrary code) or an
 * object, at least one byte consumed (O3) */
static void *xv_pem_read(BIO *bp, long *live)
{
    __CPROVER_assert(__CPROVER_r_ok(bp, 1), "PEM_read_bio_*: live BIO");
    if (xv_bio_rem <= 0 || nondet_bool()) {
        /* ASSUMED (A7, what the error-queue tests of ctx_store.c rely on; checked natively by the seeder of C18-r3-m1 with a chain
         * certificate whose DER body is cut): "no further PEM object" leaves PEM/NO_START_LINE as the newest entry; an object that is
         * there but does not parse leaves a PEM-library entry with another reason as the NEWEST entry, after whatever the decoder
         * queued before it (ASN.1 entries for a damaged DER body): the OLDEST entry is then arbitrary. */
        if (xv_bio_rem > 0 && nondet_bool()) {
            unsigned long r_ = nondet_ulong(), f_ = nondet_ulong();
            __CPROVER_assume(r_ >= 1 && r_ <= 0xfff && r_ != PEM_R_NO_START_LINE && f_ != 0);
            xv_pem_malformed = 1;
            xv_err_last = ERR_PACK(ERR_LIB_PEM, 0, r_);
            if (xv_err_first == 0) xv_err_first = f_;
        } else {
            xv_err_last = ERR_PACK(ERR_LIB_PEM, 0, PEM_R_NO_START_LINE);
            if (xv_err_first == 0) xv_err_first = xv_err_last;
        }
        return NULL;
    }
    long c = nondet_long();
    __CPROVER_assume(c >= 1 && c <= xv_bio_rem);
    xv_bio_rem -= c;
    char *p = malloc(1); __CPROVER_assume(p != NULL);
    (*live)++;
    return p;
}
X509 *PEM_read_bio_X509(BIO *bp, X509 **x, pem_password_cb *cb, void *u) { return (X509 *)xv_pem_read(bp, &xv_x509_live); }
X509 *PEM_read_bio_X509_AUX(BIO *bp, X509 **x, pem_password_cb *cb, void *u) { return (X509 *)xv_pem_read(bp, &xv_x509_live); }
X509_CRL *PEM_read_bio_X509_CRL(BIO *bp, X509_CRL **x, pem_password_cb *cb, void *u) { return (X509_CRL *)xv_pem_read(bp, &xv_crl_live); }
EVP_PKEY *PEM_read_bio_PrivateKey(BIO *bp, EVP_PKEY **x, pem_password_cb *cb, void *u) { return (EVP_PKEY *)xv_pem_read(bp, &xv_pkey_live); }
void X509_free(X509 *a) { if (a != NULL) xv_x509_live--; free(a); }
void X509_CRL_free(X509_CRL *a) { if (a != NULL) xv_crl_live--; free(a); }
void EVP_PKEY_free(EVP_PKEY *a) { if (a != NULL) xv_pkey_live--; free(a); }
unsigned long ERR_peek_last_error(void) { return xv_err_last; }
unsigned long ERR_peek_error(void) { return xv_err_first; }
void ERR_clear_error(void) { xv_err_last = 0; xv_err_first = 0; }

/* ---- ghost: arguments and moment of the load_ssl_ctx call (recorded by its contract where it is a cut point) */
struct { long calls; const char *cert, *key, *tc, *crl; long at_md; } xv_LSC;
#define xv_lsc_calls xv_LSC.calls
#define xv_lsc_cert xv_LSC.cert
#define xv_lsc_key xv_LSC.key
#define xv_lsc_tc xv_LSC.tc
#define xv_lsc_crl xv_LSC.crl
#define xv_lsc_at_md xv_LSC.at_md

/* ---- ghost: what this thread owns, snapshots of the list at acquire / at release */
#ifndef XV_CS_MAX
#define XV_CS_MAX 2     /* entries listed at acquire: 0..XV_CS_MAX (job parameter, at most 2) */
#endif
SSL_CTX *xv_my_ctx; int xv_my_refs;   /* this thread holds xv_my_refs references on xv_my_ctx before the call (NULL: none)      */
int xv_my_refs_after;                 /* ... and at least this many after the critical section (set by the harness)          */
size_t xv_hj;                         /* arbitrary hash byte index 0..31 -- NEVER assigned                                   */
struct xv_snap { unsigned n; struct cache_entry *e[3]; int cnt[3]; SSL_CTX *ctx[3]; uint8_t hj[3]; };
struct { struct xv_snap acq, pub; struct cache_entry *shadow; } xv_SN;
#define xv_acq xv_SN.acq              /* the list as this critical section FOUND it                                          */
#define xv_pub xv_SN.pub              /* the list as this critical section PUBLISHED it                                      */
#define xv_cs_shadow xv_SN.shadow     /* cache.entries.lh_first as the last release (of any thread) left it                  */
struct cache *xv_cachep;              /* == &cache (the helpers' parameter `cache` shadows the global in their contracts)     */
#define XV_CS_ASSIGNS xv_SN, cache.entries.lh_first

struct cache_entry *nondet_entryp(void);
struct cache_entry **nondet_entrypp(void);
SSL_CTX *nondet_ctxp(void);
static inline void xv_snap_havoc(struct xv_snap *s)
{
    s->n = nondet_uint();
    s->e[0] = nondet_entryp(); s->e[1] = nondet_entryp(); s->e[2] = nondet_entryp();
    s->cnt[0] = nondet_int(); s->cnt[1] = nondet_int(); s->cnt[2] = nondet_int();
    s->ctx[0] = nondet_ctxp(); s->ctx[1] = nondet_ctxp(); s->ctx[2] = nondet_ctxp();
    s->hj[0] = nondet_uchar(); s->hj[1] = nondet_uchar(); s->hj[2] = nondet_uchar();
}
static inline void xv_lk_ghost_havoc(void)
{
    xv_lk_held = nondet_bool(); xv_lk_acq = nondet_long(); xv_lk_rel = nondet_long(); xv_lk_init = nondet_long();
    xv_ld_since_md = nondet_long(); xv_ld_between = nondet_long();
    xv_ld_res[0] = xv_ld_res[1] = xv_ld_res[2] = xv_ld_res[3] = NULL; xv_ldb_res[0] = xv_ldb_res[1] = xv_ldb_res[2] = xv_ldb_res[3] = NULL;
    xv_lsc_calls = nondet_long(); xv_lsc_cert = xv_lsc_key = xv_lsc_tc = xv_lsc_crl = NULL; xv_lsc_at_md = nondet_long();
    xv_x509_live = nondet_long(); xv_crl_live = nondet_long(); xv_pkey_live = nondet_long(); xv_bio_live = nondet_long();
    xv_bio_rem = nondet_long(); xv_err_last = nondet_ulong(); xv_err_first = nondet_ulong(); xv_pem_malformed = nondet_bool(); xv_ssl_used_cert = nondet_bool(); xv_ssl_used_key = nondet_bool(); xv_ssl_key_checked = nondet_bool();
    xv_tc_added = nondet_long(); xv_crl_added = nondet_long();
    xv_snprintf_ret = nondet_int(); xv_snprintf_cap = nondet_size_t(); xv_snprintf_calls = nondet_int();
    xv_heap_live = nondet_long(); xv_ld_calls = nondet_long(); xv_stat_calls = nondet_size_t(); xv_lstat_calls = nondet_size_t();
    xv_dg_len = nondet_size_t(); xv_dg_updates = nondet_size_t(); xv_mdctx_live = nondet_long();
    xv_md_calls = nondet_long(); xv_md_settle = nondet_long();
    __CPROVER_havoc_slice(xv_dg_log, sizeof(xv_dg_log)); __CPROVER_havoc_slice(xv_md_last, 32); __CPROVER_havoc_slice(xv_md_prev, 32);
    xv_ctx_live = nondet_long(); xv_ctxfree_calls = nondet_long(); xv_ctxfree_last = nondet_ctxp(); xv_ctx_dead = NULL;
    xv_my_ctx = NULL; xv_my_refs = 0; xv_my_refs_after = 0;
    xv_hj = nondet_size_t();
    xv_snap_havoc(&xv_acq); xv_snap_havoc(&xv_pub);
    xv_cs_shadow = nondet_entryp();
    cache.entries.lh_first = xv_cs_shadow;
    xv_cachep = &cache;
}
static void xv_snap_take(struct xv_snap *s)
{
    struct cache_entry *a = cache.entries.lh_first, *b = NULL, *c = NULL;
    s->n = 0; s->e[0] = s->e[1] = s->e[2] = NULL; s->cnt[0] = s->cnt[1] = s->cnt[2] = 0; s->ctx[0] = s->ctx[1] = s->ctx[2] = NULL;
    s->hj[0] = s->hj[1] = s->hj[2] = 0;
    size_t j = xv_hj < 32 ? xv_hj : 0;
    if (a != NULL) { s->n = 1; s->e[0] = a; s->cnt[0] = a->use_cnt; s->ctx[0] = a->ssl_ctx; s->hj[0] = a->hash[j]; b = a->elem.le_next; }
    if (b != NULL) { s->n = 2; s->e[1] = b; s->cnt[1] = b->use_cnt; s->ctx[1] = b->ssl_ctx; s->hj[1] = b->hash[j]; c = b->elem.le_next; }
    if (c != NULL) { s->n = 3; s->e[2] = c; s->cnt[2] = c->use_cnt; s->ctx[2] = c->ssl_ctx; s->hj[2] = c->hash[j]; }
}

/* ghost comparison of two 32-byte hashes, four 64-bit words (loop-free; the callers have dereferenced the entries under
 * CBMC's pointer checks already, the checks are switched off inside this helper only) */
#pragma CPROVER check push
#pragma CPROVER check disable "pointer"
#pragma CPROVER check disable "pointer-primitive"
#pragma CPROVER check disable "pointer-overflow"
#pragma CPROVER check disable "bounds"
static _Bool xv_hash_differs(const uint8_t *a, const uint8_t *b)
{
    const uint64_t *x = (const uint64_t *)a, *y = (const uint64_t *)b;
    return x[0] != y[0] || x[1] != y[1] || x[2] != y[2] || x[3] != y[3];
}
#pragma CPROVER check pop
static pthread_mutex_t *xv_lk_the_mutex(void) { return &cache.lock; }
static void xv_lk_check_untouched(void)
{
    __CPROVER_assert(cache.entries.lh_first == xv_cs_shadow, "PO[C15] cache.list_head_not_written_before_acquire (outside the critical section)");
}
/* acquire: other threads ran -- the cache is ANY list satisfying the invariant (and the bound XV_CS_MAX) */
static void xv_lk_others_ran_acquire(void)
{
    unsigned n = nondet_uint();
    __CPROVER_assume(n <= XV_CS_MAX);
    _Bool mine = xv_my_ctx != NULL && xv_my_refs >= 1;
    if (mine) __CPROVER_assume(n >= 1);
    struct cache_entry *e0 = NULL, *e1 = NULL;
    if (n >= 1) {
        e0 = malloc(sizeof(*e0)); __CPROVER_assume(e0 != NULL);
        e0->ssl_ctx = xv_ctx_any();
        __CPROVER_assume(e0->use_cnt >= 1 && e0->use_cnt < INT_MAX);
    }
    if (n >= 2) {
        e1 = malloc(sizeof(*e1)); __CPROVER_assume(e1 != NULL);
        e1->ssl_ctx = xv_ctx_any();
        __CPROVER_assume(e1->use_cnt >= 1 && e1->use_cnt < INT_MAX);
        __CPROVER_assume(xv_hash_differs(e0->hash, e1->hash));
    }
    if (mine) {
        struct cache_entry *m = (n == 2 && nondet_bool()) ? e1 : e0;
        m->ssl_ctx = xv_my_ctx;
        __CPROVER_assume(m->use_cnt >= xv_my_refs);
    }
    if (e0 != NULL) { e0->elem.le_prev = &cache.entries.lh_first; e0->elem.le_next = e1; }
    if (e1 != NULL) { e1->elem.le_prev = &e0->elem.le_next; e1->elem.le_next = NULL; }
    cache.entries.lh_first = e0;
    xv_snap_take(&xv_acq);
}
/* harness helper for the jobs of the lock-requiring helpers: "inside a critical section, just after the acquire" */
static inline void xv_cs_enter(void) { xv_lk_held = 1; xv_lk_others_ran_acquire(); }
/* release: the invariant must hold again for what is published */
static void xv_lk_check_invariant(void)
{
    struct cache_entry *a = cache.entries.lh_first, *b = NULL, *c = NULL;
    if (a != NULL) {
        __CPROVER_assert(a->elem.le_prev == &cache.entries.lh_first, "PO[C15] cache.inv_links_first_entry");
        b = a->elem.le_next;
    }
    if (b != NULL) {
        __CPROVER_assert(b->elem.le_prev == &a->elem.le_next, "PO[C15] cache.inv_links_second_entry");
        c = b->elem.le_next;
    }
    if (c != NULL) {
        __CPROVER_assert(c->elem.le_prev == &b->elem.le_next, "PO[C15] cache.inv_links_third_entry");
        __CPROVER_assert(c->elem.le_next == NULL, "bound of the unit: at most 3 entries at release (2 at acquire + 1 installed)");
    }
    __CPROVER_assert(a == NULL || (a->use_cnt >= 1 && a->ssl_ctx != NULL), "PO[C15,C08] cache.inv_use_cnt_at_least_1_first_entry");
    __CPROVER_assert(b == NULL || (b->use_cnt >= 1 && b->ssl_ctx != NULL), "PO[C15,C08] cache.inv_use_cnt_at_least_1_second_entry");
    __CPROVER_assert(c == NULL || (c->use_cnt >= 1 && c->ssl_ctx != NULL), "PO[C15,C08] cache.inv_use_cnt_at_least_1_third_entry");
    __CPROVER_assert(b == NULL || a->ssl_ctx != b->ssl_ctx, "PO[C15,C18] cache.inv_contexts_distinct_12");
    __CPROVER_assert(c == NULL || (a->ssl_ctx != c->ssl_ctx && b->ssl_ctx != c->ssl_ctx), "PO[C15,C18] cache.inv_contexts_distinct_3");
    __CPROVER_assert(b == NULL || xv_hash_differs(a->hash, b->hash), "PO[C15,C18] cache.inv_hashes_distinct_12");
    __CPROVER_assert(c == NULL || (xv_hash_differs(a->hash, c->hash) && xv_hash_differs(b->hash, c->hash)), "PO[C15,C18] cache.inv_hashes_distinct_3");
    __CPROVER_assert(xv_ctx_dead == NULL || ((a == NULL || a->ssl_ctx != xv_ctx_dead) && (b == NULL || b->ssl_ctx != xv_ctx_dead) && (c == NULL || c->ssl_ctx != xv_ctx_dead)), "PO[C08,C18] cache.inv_no_freed_context_listed");
    if (xv_my_ctx != NULL && xv_my_refs_after >= 1)
        __CPROVER_assert((a != NULL && a->ssl_ctx == xv_my_ctx && a->use_cnt >= xv_my_refs_after) ||
                         (b != NULL && b->ssl_ctx == xv_my_ctx && b->use_cnt >= xv_my_refs_after) ||
                         (c != NULL && c->ssl_ctx == xv_my_ctx && c->use_cnt >= xv_my_refs_after), "PO[C15,C08] cache.inv_referenced_context_stays_listed");
    xv_snap_take(&xv_pub);
}
/* after the release other threads run again: list head, links and use counts are theirs to change; hash and ssl_ctx of
 * an entry never change while it is listed, and an entry this thread holds a reference on stays listed */
static void xv_lk_others_run_release(void)
{
#define XV_CS_THEIRS(i) if ((i) < xv_pub.n) { xv_pub.e[i]->use_cnt = nondet_int(); xv_pub.e[i]->elem.le_next = nondet_entryp(); xv_pub.e[i]->elem.le_prev = nondet_entrypp(); }
    XV_CS_THEIRS(0) XV_CS_THEIRS(1) XV_CS_THEIRS(2)
    cache.entries.lh_first = nondet_entryp();
    xv_cs_shadow = cache.entries.lh_first;
}
#endif /* XV_LOCKS_CS */

#endif
