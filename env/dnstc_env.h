/* env/dnstc_env.h -- TRUSTED environment of the units
 *      dnstc/dns : libxcm/tp/dns/xcm_dns_cares.c   (define XV_DNSTC_DNS before including)
 *      dnstc/tc  : libxcm/tp/tcp/tconnect.c        (define XV_DNSTC_TC  before including)
 * Include AFTER the real TU and after env/base.h.
 *
 * Kernel: poll(2) (dns); socket/close/connect/bind come from env/fd.h (tc), connect and bind are WRAPPED here: the fd.h
 * model decides the outcome, the wrapper only adds the ghost ATTEMPT LOG the contracts of tconnect.c talk about.
 * c-ares (dns): ares_* bodies, nondeterministic, see there.
 * util.c: ut_memdup (same text as common/util.c; util.c cannot be included next to env/base.h).
 */
#ifndef XV_ENV_DNSTC_H
#define XV_ENV_DNSTC_H

short nondet_short(void);
int xv_dnstc_any_errno(void)
{
    int e = nondet_int();
    __CPROVER_assume(e >= 1 && e <= 133);
    return e;
}

/* TRUSTED(common/util.c) ut_memdup, same text */
void *ut_memdup(const void *ptr, size_t size)
{
    void *copy = ut_malloc(size);
    memcpy(copy, ptr, size);
    return copy;
}

/* ==================================================================================================================== */
#ifdef XV_DNSTC_DNS
#include <poll.h>

/* TRUSTED(kernel) poll(2) on ONE descriptor: fails with any errno (EINTR, ENOMEM, ...) or reports 0/1 ready descriptors
 * with arbitrary revents.  A call with timeout != 0 may put the thread to sleep: ghost xv_blocked (C05). */
int poll(struct pollfd *fds, nfds_t nfds, int timeout)
{
    __CPROVER_assert(nfds == 1, "poll() model: exactly one pollfd");
    __CPROVER_assert(__CPROVER_rw_ok(fds, sizeof(struct pollfd)), "poll() pollfd array accessible");
    if (timeout != 0) xv_blocked = 1;
    if (xv_q_failed_seen) xv_polled_after_fail = 1;
    xv_polled = 1;
    xv_poll_fd = fds[0].fd; xv_poll_timeout = timeout; xv_poll_events = fds[0].events;
    if (nondet_bool()) {
        xv_errno = xv_dnstc_any_errno();
        xv_poll_rc = -1;
        return -1;
    }
    short re = nondet_short();
    fds[0].revents = re;
    xv_poll_rc = re != 0 ? 1 : 0;
    return xv_poll_rc;
}
#endif /* XV_DNSTC_DNS */

#endif
