/* env/dnstc_env.h -- TRUSTED environment of the units
 *      dnstc/dns : libxcm/tp/dns/xcm_dns_cares.c   (define XV_DNSTC_DNS before including)
 *      dnstc/tc  : libxcm/tp/tcp/tconnect.c        (define XV_DNSTC_TC  before including)
 * Include AFTER the real TU and after env/base.h.
 *
 * Kernel: poll(2) (dns); socket/close/connect/bind come from env/fd.h (tc), connect and bind are WRAPPED here: the fd.h
 * model decides the outcome, the wrapper only adds the ghost ATTEMPT LOG the contracts of tconnect.c talk about.
 * c-ares (dns): ares_* bodies, nondeterministic, see there.
 * util.c: ut_memdup (same text as common/util.c; util.c cannot be included next to env/base.h).
 */
#ifndef XV_ENV_DNSTC_H
#define XV_ENV_DNSTC_H

short nondet_short(void);
int xv_dnstc_any_errno(void)
{
    int e = nondet_int();
    __CPROVER_assume(e >= 1 && e <= 133);
    return e;
}

/* TRUSTED(common/util.c) ut_memdup, same text (memcpy is env/base.h's model) */
void *ut_memdup(const void *ptr, size_t size)
{
    void *copy = ut_malloc(size);
    memcpy(copy, ptr, size);
    return copy;
}

/* ==================================================================================================================== */
#ifdef XV_DNSTC_DNS
#include <poll.h>

/* TRUSTED(kernel) poll(2) on ONE descriptor: fails with any errno (EINTR, ENOMEM, ...) or reports 0/1 ready descriptors
 * with arbitrary revents.  A call with timeout != 0 may put the thread to sleep: ghost xv_blocked (C05). */
int poll(struct pollfd *fds, nfds_t nfds, int timeout)
{
    __CPROVER_assert(nfds == 1, "poll() model: exactly one pollfd");
    __CPROVER_assert(__CPROVER_rw_ok(fds, sizeof(struct pollfd)), "poll() pollfd array accessible");
    if (timeout != 0) xv_blocked = 1;
    if (xv_q_failed_seen) xv_polled_after_fail = 1;
    xv_polled = 1;
    xv_poll_fd = fds[0].fd; xv_poll_timeout = timeout; xv_poll_events = fds[0].events;
    if (nondet_bool()) {
        xv_errno = xv_dnstc_any_errno();
        xv_poll_rc = -1;
        return -1;
    }
    short re = nondet_short();
    fds[0].revents = re;
    xv_poll_rc = re != 0 ? 1 : 0;
    return xv_poll_rc;
}
#endif /* XV_DNSTC_DNS */

/* ==================================================================================================================== */
#ifdef XV_DNSTC_TC
#include <sys/socket.h>
#include <sys/un.h>
#include <unistd.h>
#include <netinet/in.h>
/* env/fd.h (descriptor table; socket/close models, used by tconnect_create/destroy) is reused UNCHANGED.  Its connect() and
 * bind() are compiled under other names and NOT used: this unit needs a log of the ATTEMPTS (which address, in which order
 * of steps), and their call counters as separate globals made the recursive track_connect_next too expensive (see
 * harness/dnstc/_ghost.h).  The two models below make the same checks and have the same outcomes as fd.h's:
 *   - C08: the descriptor is one the library owns and has open (obligation),
 *   - C05: a descriptor without O_NONBLOCK makes connect() write the ghost xv_blocked,
 *   - they fail nondeterministically with ANY errno 1..XV_ERRNO_MAX (EINPROGRESS, ECONNREFUSED, EADDRINUSE, EINVAL, ...). */
#define connect xv_fdh_connect
#define bind xv_fdh_bind
#include "env/fd.h"
#undef connect
#undef bind

#define XT ((struct track *)xv_trk)

/* every event that ends an attempt forgets what was prepared for it */
#define XV_ATTEMPT_ENDS { xv_pre_eff_fd = -1; xv_pre_bind_fd = -1; }
/* a failed step: errno of the last failed attempt, and the row of the tracked address */
#define XV_STEP_FAILED { xv_fail_n++; xv_fail_errno = xv_errno; \
                         if (XT->ip_idx == xv_ai) { xv_att_failed++; xv_att_errno = xv_errno; } }

/* TRUSTED(kernel) bind(2).  A successful bind of the address tp_ip_to_sockaddr last built from (track->local_ip,
 * track->local_port) marks the descriptor as "bound to the configured local address". */
int bind(int fd, const struct sockaddr *addr, socklen_t len)
{
    XV_FD_USE(fd, "C08 bind() on a descriptor the library owns and has open");
    __CPROVER_assert(len >= sizeof(sa_family_t) && __CPROVER_r_ok(addr, len), "bind() address readable");
    xv_kc.bind_calls++; xv_kc.bind_fd = fd;
    if (nondet_bool()) {
        xv_errno = xv_any_errno();
        XV_STEP_FAILED
        XV_ATTEMPT_ENDS
        return -1;
    }
    xv_kc.bind_ok_calls++;
    xv_pre_bind_fd = ((const void *)addr == xv_sa_dst && XT->local_ip != NULL && xv_sa_src == (const void *)XT->local_ip &&
                      xv_sa_port == XT->local_port && len == sizeof(struct sockaddr_storage)) ? fd : -1;
    return 0;
}

/* TRUSTED(kernel) connect(2).  An address of family AF_UNSPEC dissolves the association ("disconnect"); anything else is a
 * connection ATTEMPT on the address the track currently points at. */
int connect(int fd, const struct sockaddr *addr, socklen_t len)
{
    XV_FD_USE(fd, "C08 connect() on a descriptor the library owns and has open");
    __CPROVER_assert(len >= sizeof(sa_family_t) && __CPROVER_r_ok(addr, len), "connect() address readable");
    if (!xv_fdt.e[fd].nonblock) xv_blocked = 1;
    xv_kc.connect_calls++; xv_kc.connect_fd = fd;
    int rc = 0;
    if (nondet_bool()) { xv_errno = xv_any_errno(); rc = -1; }
    else xv_kc.connect_ok_calls++;
    if (addr->sa_family == AF_UNSPEC) {
        xv_disc_n++; xv_disc_fd = fd;
        return rc;
    }
    if (xv_pre_eff_fd != fd) xv_unprepared++;
    if (xv_pre_bind_fd != fd) xv_unbound++;
    if (!((const void *)addr == xv_sa_dst && XT->ip_idx >= 0 && XT->ip_idx < XT->num_remote_ips &&
          xv_sa_src == (const void *)&XT->remote_ips[XT->ip_idx] && xv_sa_port == XT->remote_port && len == sizeof(struct sockaddr_storage) &&
          /* an IPv6 destination carries the configured scope id, 0 when none is configured - never the "not set" marker -1 (sin6_scope_id 4294967295) */
          (XT->remote_ips[XT->ip_idx].family != AF_INET6 || xv_sa_scope == (XT->scope < 0 ? 0 : XT->scope))))
        xv_wrong_addr++;
    if (!(XT->fd_reg_id >= 0 && XT->fd_reg_id == xv_reg_id && xv_reg_fd == fd && xv_reg_event == EPOLLOUT))
        xv_unregistered++;
    XV_ATTEMPT_ENDS
    xv_conn_n++; xv_conn_idx = XT->ip_idx; xv_conn_fd = fd; xv_conn_rc = rc; xv_conn_errno = rc < 0 ? xv_errno : 0;
    if (XT->ip_idx == xv_ai) {
        xv_att_conn++; xv_att_conn_rc = rc; xv_att_conn_errno = xv_conn_errno; xv_att_conn_fd = fd; xv_att_conn_src = xv_sa_src;
    }
    if (rc < 0 && xv_errno != EINPROGRESS)
        XV_STEP_FAILED
    return rc;
}
#endif /* XV_DNSTC_TC */

#endif
