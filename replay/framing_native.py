#!/usr/bin/env python3
"""native replay for the framing unit (tcp/tls): compiles the REAL xcm_tp_tcp.c / xcm_tp_tls.c with gcc against a
scripted lower layer (random short writes/reads, EAGAIN, EOF at every offset, illegal headers) and checks the
violated postconditions (stream = concatenation of the frames of the accepted messages; delivered = sent, whole, in
order, truncated to capacity; counters; EOF/EPROTO reporting) on real executions.  The search is seeded and covers the
shapes CBMC's counterexamples for this unit have (partial frame pending, header split, truncation, refusal).
exit 1 = a failing execution was found on the real code (printed), 0 = none found."""
import json, os, subprocess, sys, tempfile
REPO = os.environ.get('XV_REPO', '/repo')
SRC = r'''
#define _GNU_SOURCE
#include <errno.h>
#include <stdio.h>
#include <stdlib.h>
#include <string.h>
#include <stdint.h>
#include <stdbool.h>
#ifdef XF_TLS
#include "xcm_tp_tls.c"
#define PRIV struct tls_socket
#define LOWER(p) ((p)->btls_socket)
#define F(n) tls_##n
#else
#include "xcm_tp_tcp.c"
#define PRIV struct tcp_socket
#define LOWER(p) ((p)->btcp_socket)
#define F(n) tcp_##n
#endif
/* ---- everything the TU references but this replay does not need */
bool log_is_enabled(enum log_type t) { return false; }
void __log_event(enum log_type type, const char *file, int line, const char *function, struct xcm_socket *s, const char *format, ...) {}
void log_console_conf(bool e) {}
void xcm_tp_register(const char *n, const struct xcm_tp_ops *o) {}
struct xcm_tp_proto *xcm_tp_proto_by_name(const char *n) { return NULL; }
struct xcm_socket *xcm_tp_socket_create(const struct xcm_tp_proto *p, enum xcm_socket_type t, struct xpoll *x, bool a, bool b, bool c) { return NULL; }
int xcm_tp_socket_init(struct xcm_socket *s, struct xcm_socket *p) { return -1; }
void xcm_tp_socket_destroy(struct xcm_socket *s) {}
int xcm_tp_socket_connect(struct xcm_socket *s, const char *a) { return -1; }
int xcm_tp_socket_server(struct xcm_socket *s, const char *a) { return -1; }
int xcm_tp_socket_accept(struct xcm_socket *c, struct xcm_socket *s) { return -1; }
void xcm_tp_socket_close(struct xcm_socket *s) {}
void xcm_tp_socket_cleanup(struct xcm_socket *s) {}
void xcm_tp_socket_update(struct xcm_socket *s) {}
const char *xcm_tp_socket_get_remote_addr(struct xcm_socket *s, bool q) { return NULL; }
const char *xcm_tp_socket_get_local_addr(struct xcm_socket *s, bool q) { return NULL; }
int xcm_tp_socket_set_local_addr(struct xcm_socket *s, const char *a) { return -1; }
void xcm_tp_socket_attr_populate(struct xcm_socket *s, struct attr_tree *t) {}
int xpoll_get_fd(struct xpoll *x) { return -1; }
void *ut_realloc(void *p, size_t n) { void *r = realloc(p, n); if (!r) abort(); return r; }
void ut_fatal(void) { abort(); }
void ut_mem_exhausted(void) { abort(); }
int tcp_to_btcp(const char *a, char *b, size_t c) { return -1; }
int btcp_to_tcp(const char *a, char *b, size_t c) { return -1; }
int tls_to_btls(const char *a, char *b, size_t c) { return -1; }
int btls_to_tls(const char *a, char *b, size_t c) { return -1; }
/* ---- scripted lower layer */
static uint8_t wire[1 << 22]; static size_t wire_len;           /* what the sender handed down */
static const uint8_t *rx; static size_t rx_len, rx_pos; static bool rx_eof_at_end; static int rx_err;
static unsigned rnd_state = 12345;
static unsigned rnd(void) { rnd_state = rnd_state * 1103515245u + 12345u; return (rnd_state >> 8) & 0xffffff; }
static bool tx_dead; static int tx_err;
int xcm_tp_socket_send(struct xcm_socket *s, const void *buf, size_t len)
{
    if (tx_dead) { errno = tx_err; return -1; }
    if (len == 0) { fprintf(stderr, "lower send called with len 0\n"); }
    unsigned r = rnd() % 8;
    if (r == 0) { errno = EAGAIN; return -1; }
    size_t n = r < 4 ? len : 1 + rnd() % len;
    memcpy(wire + wire_len, buf, n); wire_len += n;
    return n;
}
int xcm_tp_socket_receive(struct xcm_socket *s, void *buf, size_t cap)
{
    if (cap == 0) return 0;
    if (rx_pos == rx_len) { if (rx_eof_at_end) return 0; if (rx_err) { errno = rx_err; return -1; } errno = EAGAIN; return -1; }
    unsigned r = rnd() % 8;
    if (r == 0) { errno = EAGAIN; return -1; }
    size_t avail = rx_len - rx_pos, n = avail < cap ? avail : cap;
    if (r >= 4) n = 1 + rnd() % n;
    memcpy(buf, rx + rx_pos, n); rx_pos += n;
    return n;
}
int xcm_tp_socket_finish(struct xcm_socket *s) { if (tx_dead) { errno = tx_err; return -1; } return 0; }
#define FAIL(...) do { printf("FAIL trial %d: ", trial); printf(__VA_ARGS__); printf("\n"); return 1; } while (0)
static struct xcm_socket *mk(void)
{
    struct xcm_socket *s = calloc(1, sizeof(struct xcm_socket) + sizeof(PRIV));
    s->type = xcm_socket_type_conn;
    return s;
}
#define P(s) ((PRIV *)((uint8_t *)(s) + sizeof(struct xcm_socket)))
static int64_t cnt(struct xcm_socket *s, int c) { return P(s)->conn.cnts[c]; }
static int tx_trial(int trial)
{
    struct xcm_socket *s = mk(); wire_len = 0; tx_dead = false;
    static uint8_t ref[1 << 22]; size_t ref_len = 0; int accepted = 0; int64_t accepted_bytes = 0;
    int n = 1 + rnd() % 12;
    for (int i = 0; i < n; i++) {
        size_t len; unsigned k = rnd() % 10;
        len = k == 0 ? 0 : k == 1 ? 65536 + rnd() % 10 : k == 2 ? 65535 : k < 6 ? 1 + rnd() % 16 : 1 + rnd() % 65535;
        uint8_t *m = malloc(len + 1); for (size_t j = 0; j < len; j++) m[j] = rnd();
        int64_t c0[8]; for (int c = 0; c < 8; c++) c0[c] = cnt(s, c);
        size_t w0 = wire_len;
        errno = 0; int rc = F(send)(s, m, len);
        if (len == 0 && !(rc == -1 && errno == EINVAL)) FAIL("send of 0 bytes: rc %d errno %d", rc, errno);
        if (len > 65535 && !(rc == -1 && errno == EMSGSIZE)) FAIL("oversized send: rc %d errno %d", rc, errno);
        if (rc == 0) {
            ref[ref_len] = len >> 24; ref[ref_len+1] = len >> 16; ref[ref_len+2] = len >> 8; ref[ref_len+3] = len; memcpy(ref + ref_len + 4, m, len); ref_len += 4 + len;
            accepted++; accepted_bytes += len;
            if (cnt(s, xcm_tp_cnt_from_app_msgs) != c0[xcm_tp_cnt_from_app_msgs] + 1 || cnt(s, xcm_tp_cnt_from_app_bytes) != c0[xcm_tp_cnt_from_app_bytes] + (int64_t)len) FAIL("accepted send of %zu bytes: from_app went %ld/%ld -> %ld/%ld", len, (long)c0[xcm_tp_cnt_from_app_msgs], (long)c0[xcm_tp_cnt_from_app_bytes], (long)cnt(s, xcm_tp_cnt_from_app_msgs), (long)cnt(s, xcm_tp_cnt_from_app_bytes));
        } else if (rc == -1) {
            if (cnt(s, xcm_tp_cnt_from_app_msgs) != c0[xcm_tp_cnt_from_app_msgs] || cnt(s, xcm_tp_cnt_from_app_bytes) != c0[xcm_tp_cnt_from_app_bytes]) FAIL("refused send (errno %d) of %zu bytes changed from_app: %ld -> %ld msgs", errno, len, (long)c0[xcm_tp_cnt_from_app_msgs], (long)cnt(s, xcm_tp_cnt_from_app_msgs));
        } else FAIL("send returned %d", rc);
        if (wire_len > ref_len || memcmp(wire, ref, wire_len) != 0) FAIL("bytes handed to the lower layer are not a prefix of the frames of the accepted messages (offset %zu..%zu)", w0, wire_len);
        for (int c = 0; c < 8; c++) if (cnt(s, c) < c0[c]) FAIL("counter %d decreased", c);
        if (cnt(s, xcm_tp_cnt_from_app_msgs) < cnt(s, xcm_tp_cnt_to_lower_msgs) || cnt(s, xcm_tp_cnt_from_app_bytes) < cnt(s, xcm_tp_cnt_to_lower_bytes)) FAIL("from_app < to_lower");
        free(m);
    }
    for (int i = 0; i < 100000; i++) { errno = 0; int rc = F(finish)(s); if (rc == 0) break; if (errno != EAGAIN) FAIL("finish failed errno %d", errno); if (i == 99999) FAIL("finish never succeeds"); }
    if (wire_len != ref_len || memcmp(wire, ref, ref_len) != 0) FAIL("after finish == 0 the stream (%zu bytes) is not the frames of the %d accepted messages (%zu bytes)", wire_len, accepted, ref_len);
    if (cnt(s, xcm_tp_cnt_to_lower_msgs) != accepted || cnt(s, xcm_tp_cnt_to_lower_bytes) != accepted_bytes) FAIL("to_lower %ld/%ld after flush, %d messages / %ld bytes accepted", (long)cnt(s, xcm_tp_cnt_to_lower_msgs), (long)cnt(s, xcm_tp_cnt_to_lower_bytes), accepted, (long)accepted_bytes);
    return 0;
}
static int rx_trial(int trial)
{
    struct xcm_socket *s = mk();
    static uint8_t stream[1 << 21]; size_t sl = 0; int n = 1 + rnd() % 6; size_t lens[8], offs[8];
    for (int i = 0; i < n; i++) { unsigned k = rnd() % 8; size_t len = k == 0 ? 65535 : k < 4 ? 1 + rnd() % 20 : 1 + rnd() % 65535; lens[i] = len; offs[i] = sl + 4;
        stream[sl] = len >> 24; stream[sl+1] = len >> 16; stream[sl+2] = len >> 8; stream[sl+3] = len; for (size_t j = 0; j < len; j++) stream[sl+4+j] = rnd(); sl += 4 + len; }
    unsigned tail = rnd() % 5;  /* 0: clean EOF after frames, 1: EOF inside a further frame, 2: illegal header 0, 3: illegal header > max, 4: error */
    size_t cut = sl; uint32_t bad = 0;
    if (tail == 1) { size_t len = 10 + rnd() % 100; stream[sl] = 0; stream[sl+1] = 0; stream[sl+2] = 0; stream[sl+3] = len; size_t part = rnd() % (4 + len); for (size_t j = 4; j < 4 + len; j++) stream[sl+j] = rnd(); cut = sl + part; }
    if (tail == 2 || tail == 3) { bad = tail == 2 ? 0 : 65536 + ((rnd() & 1) ? rnd() % 4 : rnd() % 100000); stream[sl] = bad >> 24; stream[sl+1] = bad >> 16; stream[sl+2] = bad >> 8; stream[sl+3] = bad; cut = sl + 4 + 8; }
    rx = stream; rx_len = cut; rx_pos = 0; rx_eof_at_end = tail <= 1; rx_err = tail == 4 ? ECONNRESET : 0;
    static uint8_t buf[70000]; int got = 0; int64_t to_app_bytes = 0;
    for (int it = 0; it < 2000000; it++) {
        size_t cap = (rnd() % 4 == 0) ? 1 + rnd() % 30 : 65535 + rnd() % 100;
        memset(buf, 0xA5, sizeof buf); errno = 0;
        int rc = F(receive)(s, buf, cap);
        if (rc > 0) {
            if (got >= n) FAIL("delivered a %d-byte message after the %d well-formed ones", rc, n);
            size_t want = lens[got] < cap ? lens[got] : cap;
            if ((size_t)rc != want) FAIL("message %d of %zu bytes, capacity %zu: returned %d", got, lens[got], cap, rc);
            if (memcmp(buf, stream + offs[got], rc) != 0) FAIL("message %d: delivered bytes differ from the bytes sent", got);
            if (buf[rc] != 0xA5) FAIL("message %d: wrote past the %d bytes reported", got, rc);
            got++; to_app_bytes += rc;
            if (cnt(s, xcm_tp_cnt_to_app_msgs) != got || cnt(s, xcm_tp_cnt_to_app_bytes) != to_app_bytes) FAIL("to_app %ld/%ld after %d deliveries of %ld bytes", (long)cnt(s, xcm_tp_cnt_to_app_msgs), (long)cnt(s, xcm_tp_cnt_to_app_bytes), got, (long)to_app_bytes);
            if (cnt(s, xcm_tp_cnt_from_lower_msgs) != got) FAIL("from_lower_msgs %ld after %d complete frames", (long)cnt(s, xcm_tp_cnt_from_lower_msgs), got);
            continue;
        }
        if (rc == -1 && errno == EAGAIN) { if (rx_pos == rx_len && !rx_eof_at_end && !rx_err && tail < 2) break; if (it > 1999990) FAIL("EAGAIN forever with input/EOF pending (got %d of %d)", got, n); continue; }
        if (rc == 0) { if (!(rx_eof_at_end && rx_pos == rx_len)) FAIL("receive returned 0 but the stream has not ended (pos %zu of %zu)", rx_pos, rx_len); if (got != n) FAIL("EOF reported after %d of %d complete messages", got, n);
            if (F(receive)(s, buf, 100) != 0) FAIL("receive after EOF did not return 0 again"); break; }
        if (rc == -1 && errno == EPROTO) { if (tail != 2 && tail != 3) FAIL("EPROTO on a well-formed stream"); if (got != n) FAIL("EPROTO before the %d well-formed messages were delivered (got %d)", n, got);
            errno = 0; if (F(receive)(s, buf, 100) != -1 || errno != EPROTO) FAIL("EPROTO not sticky"); break; }
        if (rc == -1 && errno == ECONNRESET && tail == 4) { if (got != n) FAIL("error reported before the complete messages (got %d of %d)", got, n); break; }
        FAIL("receive returned %d errno %d (tail %u)", rc, errno, tail);
    }
    if ((tail == 2 || tail == 3) && !P(s)->conn.bad) FAIL("illegal length %u was not reported as EPROTO", bad);
    return 0;
}
int main(int argc, char **argv)
{
    int trials = argc > 1 ? atoi(argv[1]) : 400;
    for (int t = 0; t < trials; t++) { if (tx_trial(t)) return 1; if (rx_trial(t)) return 1; }
    return 0;
}
'''
def main():
    d = tempfile.mkdtemp(prefix='xv-replay-', dir='/dev/shm' if os.path.isdir('/dev/shm') else None)
    rc_all = 0
    try:
        open(os.path.join(d, 'r.c'), 'w').write(SRC)
        inc = ['-I' + os.path.join(REPO, x) for x in ('include', 'common', 'libxcm/core', 'libxcm/tp/common', 'libxcm/tp/tcp', 'libxcm/tp/tls', 'libxcm/tp/dns', 'libxcm/ctl')]
        for var, defs in (('tcp', []), ('tls', ['-DXF_TLS'])):
            exe = os.path.join(d, 'r_' + var)
            cc = ['gcc', '-O1', '-w', '-D_GNU_SOURCE', '-DHAVE_CONFIG_H', '-o', exe] + defs + inc + [os.path.join(d, 'r.c')]
            p = subprocess.run(cc, capture_output=True, text=True)
            if p.returncode != 0:
                print('native replay build failed (%s): %s' % (var, p.stderr[-1500:])); continue
            p = subprocess.run([exe, '400'], capture_output=True, text=True, timeout=600)
            if p.returncode != 0:
                print('[%s] exit status %d%s %s' % (var, p.returncode, ' (killed by signal: abort/crash in the real code)' if p.returncode < 0 else '', (p.stdout + p.stderr)[-1500:])); rc_all = 1
        return rc_all
    finally:
        subprocess.run(['rm', '-rf', d])
sys.exit(main())
