#!/usr/bin/env python3
"""native replay for the addr unit: runs the REAL libxcm/core/xcm_addr.c (compiled with gcc, real libc) over the
capacities/ports/hosts around the verifier's counterexample and checks the violated postcondition on real executions.
exit 1 = a failing input was found on the real code (printed), 0 = none found."""
import json, os, re, subprocess, sys, tempfile
REPO = os.environ.get('XV_REPO', '/repo')
SRC = r'''
#include <stdio.h>
#include <string.h>
#include <errno.h>
#include <arpa/inet.h>
#include "xcm_addr.h"
int main(void) {
    int bad = 0;
    const char *hosts[] = { "1.2.3.4", "255.255.255.255", "::1", "fe80::1:2:3:4", "a.b", "some-host.example.com", "*" };
    unsigned short ports[] = { 0, 1, 80, 4711, 65535 };
    char big[256], buf[256];
    for (unsigned h = 0; h < sizeof(hosts)/sizeof(hosts[0]); h++) for (unsigned p = 0; p < 5; p++) {
        char a[300]; snprintf(a, sizeof a, strchr(hosts[h], ':') ? "tcp:[%s]:%d" : "tcp:%s:%d", hosts[h], ports[p]);
        struct xcm_addr_host host; uint16_t port;
        if (xcm_addr_parse_tcp(a, &host, &port) < 0) continue;
        if (ntohs(port) != ports[p]) { printf("FAIL parse port: %s -> %d\n", a, ntohs(port)); bad = 1; }
        if (xcm_addr_make_tcp(&host, port, big, sizeof big) < 0) { printf("FAIL make with big buffer: %s\n", a); bad = 1; continue; }
        size_t need = strlen(big) + 1;
        for (size_t cap = 0; cap <= need + 2; cap++) {
            memset(buf, 0x55, sizeof buf);
            int rc = xcm_addr_make_tcp(&host, port, buf, cap);
            if (rc == 0 && cap < need) { printf("FAIL xcm_addr_make_tcp(%s) capacity %zu returned 0 but the address needs %zu bytes (got \"%.*s\")\n", big, cap, need, (int)cap, buf); bad = 1; }
            if (rc == 0 && cap >= need && strcmp(buf, big) != 0) { printf("FAIL content %s vs %s\n", buf, big); bad = 1; }
            if (rc < 0 && cap >= need) { printf("FAIL xcm_addr_make_tcp(%s) capacity %zu refused\n", big, cap); bad = 1; }
            if (buf[cap < sizeof buf ? cap : sizeof buf - 1] != 0x55 && cap < sizeof buf) { printf("FAIL wrote past capacity %zu\n", cap); bad = 1; }
        }
    }
    const char *names[] = { "a", "some/ux/name", "x" };
    for (unsigned n = 0; n < 3; n++) {
        xcm_addr_make_ux(names[n], big, sizeof big); size_t need = strlen(big) + 1;
        for (size_t cap = 0; cap <= need + 2; cap++) {
            int rc = xcm_addr_make_ux(names[n], buf, cap);
            if (rc == 0 && cap < need) { printf("FAIL xcm_addr_make_ux(%s) capacity %zu returned 0, needs %zu\n", names[n], cap, need); bad = 1; }
        }
    }
    const char *bigports[] = { "tcp:1.2.3.4:65536", "tcp:1.2.3.4:4294967297", "tcp:1.2.3.4:-1", "tcp:1.2.3.4:99999999999999999999" };
    for (unsigned i = 0; i < 4; i++) { struct xcm_addr_host host; uint16_t port;
        if (xcm_addr_parse_tcp(bigports[i], &host, &port) == 0) { printf("FAIL %s accepted as port %d\n", bigports[i], ntohs(port)); bad = 1; } }
    return bad;
}
'''
def main():
    d = tempfile.mkdtemp(prefix='xv-replay-', dir='/dev/shm' if os.path.isdir('/dev/shm') else None)
    try:
        open(os.path.join(d, 'r.c'), 'w').write(SRC)
        inc = ['-I' + os.path.join(REPO, x) for x in ('include', 'common', 'libxcm/core', 'libxcm/tp/dns', 'libxcm/tp/common')]
        srcs = [os.path.join(REPO, x) for x in ('libxcm/core/xcm_addr.c', 'libxcm/tp/dns/xcm_dns.c', 'common/util.c', 'libxcm/core/log.c')]
        cc = ['gcc', '-D_GNU_SOURCE', '-DHAVE_CONFIG_H', '-o', os.path.join(d, 'r')] + inc + [os.path.join(d, 'r.c')] + srcs + ['-lpthread']
        p = subprocess.run(cc, capture_output=True, text=True)
        if p.returncode != 0:
            print('native replay build failed:', p.stderr[-800:]); return 0
        p = subprocess.run([os.path.join(d, 'r')], capture_output=True, text=True, timeout=120)
        print(p.stdout[-3000:])
        return 1 if p.returncode != 0 else 0
    finally:
        subprocess.run(['rm', '-rf', d])
sys.exit(main())
