//@ tu: libxcm/tp/dns/xcm_dns_cares.c
//@ enforce: xcm_dns_query_completed
//@ props: C13 C04
//@ expect: postcondition>=1 canary=2
#include "_unit_dns.h"
void harness(void)
{
    xv_ghost_havoc();
    xv_td_havoc();
    struct xcm_dns_query *q = xv_q_any();
    bool rv = xcm_dns_query_completed(q);
    if (rv) XV_CANARY("completed");
    if (!rv) XV_CANARY("in progress");
}
