//@ tu: libxcm/tp/dns/xcm_dns_cares.c
//@ enforce: query_cb
//@ replace: get_ips
//@ defs: -DXV_TD_CB_JOB
//@ props: C13 C08
//@ expect: postcondition>=5 canary=4
#include "_unit_dns.h"
void harness(void)
{
    xv_ghost_havoc();
    xv_td_havoc();
    void *arg; int status = nondet_int(), timeouts = nondet_int();
    /* get_ips is replaced by its contract (job timerdns.get_ips): only the head of the answer list and its length (ghost) exist here */
    struct ares_addrinfo *res = NULL;
    if (status == ARES_SUCCESS) { res = malloc(sizeof(struct ares_addrinfo)); __CPROVER_assume(res != NULL); }
    query_cb(arg, status, timeouts, res);
    if (status == ARES_SUCCESS && xv_ar.cb_nodes == 1) XV_CANARY("one address");
    if (status == ARES_SUCCESS && xv_ar.cb_nodes == 34) XV_CANARY("more addresses than fit");
    if (status == ARES_ENOTFOUND) XV_CANARY("name not found");
    if (status == ARES_EDESTRUCTION) XV_CANARY("channel destroyed while the lookup was pending");
}
