//@ tu: libxcm/tp/dns/xcm_dns_cares.c
//@ enforce: xcm_dns_query_destroy
//@ replace: query_cb timer_mgr_destroy
//@ pre-unwind: unreg_all_channel_fds.0:17
//@ props: C08
//@ expect: postcondition>=5 canary=4
#include "_unit_dns.h"
void harness(void)
{
    xv_ghost_havoc();
    xv_td_havoc();
    struct xcm_dns_query *q = nondet_bool() ? xv_q_any() : NULL; bool owner = nondet_bool();
    unsigned cb0 = xv_ar.cb_n;
    xcm_dns_query_destroy(q, owner);
    if (q == NULL) XV_CANARY("NULL");
    if (q != NULL && owner && xv_g_nregs == 16) XV_CANARY("owner: 16 c-ares registrations and the timerfd's released");
    if (q != NULL && !owner && xv_g_nregs == 2) XV_CANARY("cleanup in a forked child");
    if (q != NULL && xv_ar.cb_n != cb0 && xv_ar.cb_status == ARES_EDESTRUCTION) XV_CANARY("lookup still pending: callback with ARES_EDESTRUCTION");
}
