//@ variant: cap32 DEFS=-DXV_IPS_CAP_MIN=32 NODES=36 ITER=34 CAN=3 REPL=get_ip
//@ variant: small DEFS=-DXV_IPS_CAP_MAX=4_-DXV_NODES_MAX=6_-DXV_GI_SMALL NODES=8 ITER=6 CAN=4 REPL=
//@ tu: libxcm/tp/dns/xcm_dns_cares.c
//@ enforce: get_ips
//@ replace: $REPL
//@ pre-unwind: xv_ai_any.0:$NODES get_ips.0:$ITER
//@ defs: $DEFS
//@ flags: --object-bits 10
//@ props: C13
//@ expect: postcondition>=2 canary=$CAN
#include "_unit_dns.h"
void harness(void)
{
    xv_ghost_havoc();
    xv_td_havoc();
    struct ares_addrinfo *res = xv_ai_any();
    struct xcm_addr_ip *ips; int capacity;
    int rv = get_ips(NULL, res, ips, capacity, NULL);
    /* @cap32: the capacity the library uses (XCM_DNS_MAX_RESULT_SIZE = 32), ANY list of 0..34 nodes (the loop reads at most 33 of them)
     * @small: ANY capacity 0..4 (symbolic), ANY list of 0..6 nodes: capacity 0, capacity < nodes, capacity > nodes */
    if (rv == 0 && xv_ar.cb_nodes == 0) XV_CANARY("empty list");
#ifdef XV_GI_SMALL
    if (rv == 0 && xv_ar.cb_nodes > 0) XV_CANARY("capacity 0");
    if (rv == 4 && xv_ar.cb_nodes == 6) XV_CANARY("more nodes than capacity");
    if (rv == 2 && capacity == 3 && xv_j == 1 && xv_ar.node_fam == AF_INET6) XV_CANARY("two nodes, the last one IPv6");
#else
    if (rv == 32 && xv_ar.cb_nodes == 34) XV_CANARY("more than 32 nodes: the first 32");
    if (rv == 5 && xv_ar.cb_nodes == 5 && xv_j == 4 && xv_ar.node_fam == AF_INET6) XV_CANARY("five nodes, the last one IPv6");
#endif
}
