//@ variant: main DEFS=-DXV_TD_MAIN
//@ variant: huge DEFS=-DXV_REL_MAX=(1.0/0.0)
//@ variant: ids DEFS=-DXV_ID_MAX=0x7ffffffffffffffeL
//@ tu: libxcm/core/timer_mgr.c
//@ enforce: timer_mgr_schedule
//@ pre-unwind: update_epoll.0:6
//@ defs: $DEFS
//@ bounded: timer list with 0..3 elements on entry (built by malloc in the harness), arbitrary ids and expiry times (doubles, any non-NaN value incl. infinities); next_timer_id <= INT_MAX-1
//@ props: C04 C13
//@ expect: postcondition>=6 canary=4
#include "_unit_tm.h"
/* @ids: next_timer_id beyond INT_MAX (schedule_abs() holds the int64_t id in an `int`)
 * @huge: no upper bound on the relative timeout (the attribute setters accept any non-negative double, +inf included) */
void harness(void)
{
    xv_ghost_havoc();
    xv_td_havoc();
    struct timer_mgr *t = xv_tm_any();
    double rel = nondet_double();
    int64_t id = timer_mgr_schedule(t, rel);
    XV_ASSERT(xv_tm_links_ok(t), "PO[C13] timer_mgr_schedule.list_well_linked");
    if (xv_gt.n == 0) XV_CANARY("first timer");
    if (xv_gt.n == 3 && xv_tt.f2ts_in == xv_gt.exp[1] && xv_gt.exp[1] < xv_gt.exp[0] && xv_gt.exp[1] < xv_gt.exp[2]) XV_CANARY("an older timer stays the earliest");
    if (xv_gt.n == 2 && xv_tt.f2ts_in == xv_tt.now + rel && rel > 0) XV_CANARY("the new timer is the earliest");
    if (xv_tt.set_sec == 0 && xv_tt.set_nsec == 1) XV_CANARY("expiry not in the future: armed 1 ns");
}
