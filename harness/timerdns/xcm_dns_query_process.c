//@ tu: libxcm/tp/dns/xcm_dns_cares.c
//@ enforce: xcm_dns_query_process
//@ replace: update_xpoll query_cb timer_mgr_cancel timer_mgr_has_expired timer_mgr_reschedule
//@ pre-unwind: process_in_progress.0:17
//@ flags: --object-bits 10
//@ props: C13 C04 C08
//@ expect: postcondition>=4 canary=3
#include "_unit_dns.h"
void harness(void)
{
    xv_ghost_havoc();
    xv_td_havoc();
    struct xcm_dns_query *q = xv_q_any();
    unsigned p0 = xv_ar.process_n, cb0 = xv_ar.cb_n;
    xcm_dns_query_process(q);
    if (xv_ar.process_n == p0) XV_CANARY("finished query: nothing happens");
    if (xv_ar.process_n != p0 && xv_ar.cb_n != cb0 && xv_ar.cb_status == ARES_SUCCESS) XV_CANARY("in progress -> successful");
    if (xv_ar.process_n != p0 && xv_ar.cb_n == cb0 && xv_tmg.expired_ret) XV_CANARY("in progress -> timed out");
}
