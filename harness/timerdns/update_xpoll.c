//@ tu: libxcm/tp/dns/xcm_dns_cares.c
//@ enforce: update_xpoll
//@ replace: timer_mgr_reschedule timer_mgr_cancel
//@ pre-unwind: unreg_all_channel_fds.0:17 update_xpoll.0:17
//@ props: C04 C08
//@ expect: postcondition>=4 canary=4
#include "_unit_dns.h"
void harness(void)
{
    xv_ghost_havoc();
    xv_td_havoc();
    struct xcm_dns_query *q = xv_q_any();
    update_xpoll(q);
    if (xv_ar.getsock_n != 0 && xv_ar.gs_mask == 0 && xv_ar.to_null) XV_CANARY("in progress, c-ares wants nothing");
    if (xv_j == 15 && xv_ar.gs_mask < 0 && (xv_ar.gs_mask & 0x8000) != 0 && xv_xr.rf_live && xv_rf == xv_ar.gs_fd && xv_xr.rf_event == (EPOLLIN | EPOLLOUT)) XV_CANARY("slot 15 registered for reading and writing");
    if (xv_j == 0 && (xv_ar.gs_mask & 0x10001) == 1 && !xv_ar.to_null && xv_g_nregs == 3) XV_CANARY("slot 0 read-only, timer armed, three old registrations dropped");
    if (xv_tmg.sched_timeout == 0 && xv_ar.getsock_n == 0) XV_CANARY("finished: 0-timeout timer");
}
