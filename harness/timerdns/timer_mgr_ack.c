//@ tu: libxcm/core/timer_mgr.c
//@ enforce: timer_mgr_ack
//@ pre-unwind: update_epoll.0:5 find_mtimer.0:5
//@ bounded: timer list with 1..3 elements on entry (built by malloc in the harness), arbitrary ids and expiry times (doubles, any non-NaN value incl. infinities)
//@ props: C04 C13
//@ expect: postcondition>=4 canary=3
#include "_unit_tm.h"
void harness(void)
{
    xv_ghost_havoc();
    xv_td_havoc();
    struct timer_mgr *t = xv_tm_any();
    int64_t *idp = xv_idp_any();
    timer_mgr_ack(t, idp);
    XV_ASSERT(xv_tm_links_ok(t), "PO[C13] timer_mgr_ack.list_well_linked");
    if (xv_gt.n == 1) XV_CANARY("only timer acknowledged: disarmed");
    if (xv_gt.n == 3 && xv_gt.id[1] == xv_gt.arg_id) XV_CANARY("middle of three");
    if (xv_gt.n == 2 && xv_gt.id[1] == xv_gt.arg_id && xv_tt.set_sec == 0 && xv_tt.set_nsec == 1) XV_CANARY("the one left is already due");
}
