//@ tu: libxcm/tp/dns/xcm_dns_cares.c
//@ enforce: process_in_progress
//@ replace: update_xpoll query_cb timer_mgr_cancel timer_mgr_has_expired timer_mgr_reschedule
//@ pre-unwind: process_in_progress.0:17
//@ flags: --object-bits 10
//@ props: C13 C04 C08
//@ expect: postcondition>=5 canary=5
#include "_unit_dns.h"
void harness(void)
{
    xv_ghost_havoc();
    xv_td_havoc();
    struct xcm_dns_query *q = xv_q_any();
    unsigned cb0 = xv_ar.cb_n;
    process_in_progress(q);
    if (xv_ar.cb_n != cb0 && xv_ar.cb_status == ARES_SUCCESS && xv_ar.getsock_n == 0) XV_CANARY("answer arrived: successful");
    if (xv_ar.cb_n != cb0 && xv_ar.cb_status == ARES_ENOTFOUND && !xv_tmg.expired_ret) XV_CANARY("resolver failure");
    if (xv_ar.cb_n == cb0 && xv_tmg.expired_ret && xv_tmg.sched_timeout == 0) XV_CANARY("dns.timeout expired: failed");
    if (xv_ar.cb_n == cb0 && !xv_tmg.expired_ret) XV_CANARY("still in progress");
    if (xv_ar.cb_n != cb0 && xv_ar.cb_status == ARES_ETIMEOUT && xv_tmg.expired_ret) XV_CANARY("resolver gave up and the deadline passed");
}
