/* timerdns unit, part DNS: the REAL libxcm/tp/dns/xcm_dns_cares.c (the query functions; xcm_dns_resolve_sync belongs to unit dnstc) */
#include "prelude.h"
#include "harness/timerdns/_ghost.h"
/* TRUSTED(c-ares 1.18 header) ARES_GETSOCK_WRITABLE(bits, 15) evaluates `1 << 31`, which C99 leaves undefined (every compiler
 * yields INT_MIN, the sign bit).  The macro is c-ares', not XCM's: it is given its intended, defined meaning here so that the
 * shift does not show up as an obligation of update_xpoll/process_in_progress. */
#include <limits.h>
#include <ares.h>
#undef ARES_GETSOCK_WRITABLE
#define ARES_GETSOCK_WRITABLE(bits, num) ((bits) & ((num) + ARES_GETSOCK_MAXNUM == 31 ? INT_MIN : (1 << ((num) + ARES_GETSOCK_MAXNUM))))
#include "xcm_dns_cares.c"
#include "env/base.h"
#define XV_TD_DNS
#include "env/timerdns_env.h"
#include "contracts/timerdns.h"
#ifdef XV_CBMC
int64_t nondet_int64(void);
const void *nondet_cptr(void);
static inline void xv_td_havoc(void)
{
    xv_rk = nondet_int(); xv_rf = nondet_int(); xv_tk = nondet_int64();
    __CPROVER_havoc_object(&xv_xr);
    __CPROVER_havoc_object(&xv_tmg);
    __CPROVER_havoc_object(&xv_ar);
    xv_g_nregs = nondet_int();
    xv_g_ptr = nondet_cptr(); xv_g_ptr2 = nondet_cptr();
}
/* ANY query object (see XQ_FRESH in contracts/timerdns.h): arbitrary content, with a channel, a name, an xpoll instance and a
 * timer manager of its own (the last two opaque); the c-ares model's callback argument is this query */
static inline struct xcm_dns_query *xv_q_any(void)
{
    struct xcm_dns_query *q = malloc(sizeof(struct xcm_dns_query));
    __CPROVER_assume(q != NULL);
    q->channel = malloc(sizeof(struct ares_channeldata));
    q->domain_name = malloc(1);
    q->xpoll = malloc(1);
    q->timer_mgr = malloc(1);
    __CPROVER_assume(q->channel != NULL && q->domain_name != NULL && q->xpoll != NULL && q->timer_mgr != NULL);
    xv_ar.arg = q;
    xv_g_ptr = q->domain_name; xv_g_ptr2 = q->channel;
    return q;
}
/* ANY answer list of c-ares: 0..XV_NODES_MAX nodes (get_ips reads at most 32 + 1 of them), each IPv4 or IPv6 with a socket address
 * of its family (TRUSTED c-ares: ares_getaddrinfo makes nothing else), arbitrary address bytes.
 * The nodes live in ONE array and their socket addresses in another (sockaddr_in6-sized slots): 70 separate heap objects made
 * the solver run out of memory, and get_ips only reads the list.
 * Ghost: xv_ar.cb_nodes = length; node number xv_j: family xv_ar.node_fam, address byte at offset xv_mc xv_ar.node_b. */
static inline struct ares_addrinfo *xv_ai_any(void)
{
    struct ares_addrinfo *ai = malloc(sizeof(struct ares_addrinfo));
    __CPROVER_assume(ai != NULL);
    ai->cnames = NULL; ai->name = NULL;
    int n = nondet_int();
    __CPROVER_assume(n >= 0 && n <= XV_NODES_MAX);
    struct ares_addrinfo_node *nodes = malloc(sizeof(struct ares_addrinfo_node) * XV_NODES_MAX);
    struct sockaddr_in6 *addrs = malloc(sizeof(struct sockaddr_in6) * XV_NODES_MAX);
    __CPROVER_assume(nodes != NULL && addrs != NULL);
    for (int i = 0; i < XV_NODES_MAX; i++) {
        _Bool v4 = nondet_bool();
        nodes[i].ai_family = v4 ? AF_INET : AF_INET6;
        nodes[i].ai_addrlen = v4 ? sizeof(struct sockaddr_in) : sizeof(struct sockaddr_in6);
        nodes[i].ai_addr = (struct sockaddr *)&addrs[i];
        nodes[i].ai_next = i + 1 < n ? &nodes[i + 1] : NULL;
        if (i == xv_j) {
            xv_ar.node_fam = nodes[i].ai_family;
            if (v4) { if (xv_mc < 4) xv_ar.node_b = ((const uint8_t *)&((struct sockaddr_in *)&addrs[i])->sin_addr)[xv_mc]; }
            else { if (xv_mc < 16) xv_ar.node_b = ((const uint8_t *)&addrs[i].sin6_addr)[xv_mc]; }
        }
    }
    ai->nodes = n > 0 ? &nodes[0] : NULL;
    xv_ar.cb_nodes = n;
    return ai;
}
#endif
