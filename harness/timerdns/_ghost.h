/* harness/timerdns/_ghost.h -- ghost state of the timerdns unit (timer_mgr.c and the query functions of xcm_dns_cares.c).
 * Included by _unit_*.h between prelude.h and the real TU (loop contracts spliced into the TU text name these objects) and,
 * guarded, by contracts/timerdns.h.  Nothing here is executable.
 *
 * ONE object per concern, so that an assigns clause names few targets (DFCC's inclusion check is quadratic):
 *   xv_xr   xpoll registrations as their users see them (xpoll_fd_reg_add / _del): counters, last call, and TWO tracked
 *           rows: the registration with the arbitrary id xv_rk ("by id") and the registration of the arbitrary
 *           descriptor xv_rf ("by descriptor").  xv_rk / xv_rf are never assigned: a fact stated for them holds for
 *           every id / descriptor.
 *   xv_tt   timerfd (timerfd_create/timerfd_settime), clock (ut_ftime) and ut_f_to_timespec: last call records and the
 *           ARMED state of the timerfd
 *   xv_gt   ghost CONSTANTS (never assigned after the harness has built its objects): snapshot of the timer list on entry
 *   xv_tmg  timers as the users of timer_mgr.c see them (abstract contracts used by the DNS part)
 *   xv_ar   the c-ares model
 */
#ifndef XV_TIMERDNS_GHOST_H
#define XV_TIMERDNS_GHOST_H

#define XV_TD_CNT_MAX 1000000
#define XV_TD_CNT_OK(c) ((c) >= 0 && (c) < XV_TD_CNT_MAX)
#define XV_TD_UCNT_OK(c) ((c) < (unsigned)XV_TD_CNT_MAX)
#define XV_SAME(x) ((x) == __CPROVER_old(x))

/* ---- xpoll registrations ------------------------------------------------------------------------------------------- */
int xv_rk;                       /* arbitrary registration id (never assigned) */
int xv_rf;                       /* arbitrary descriptor (never assigned) */
struct xv_xr_s {
    int regs;                    /* live registrations (add: +1, del: -1) */
    unsigned adds, dels;         /* calls */
    int add_fd, add_event, add_id;   /* last xpoll_fd_reg_add */
    int del_id;                  /* last xpoll_fd_reg_del */
    _Bool rk_live; int rk_fd, rk_event;          /* by id: is xv_rk a live registration, of which descriptor, which events */
    _Bool rf_live; int rf_id, rf_event;          /* by descriptor: is xv_rf registered, under which id, which events */
} xv_xr;
/* the two tracked rows describe the same table */
#define XR_CONSISTENT ((xv_xr.rk_live && xv_xr.rk_fd == xv_rf) ==> (xv_xr.rf_live && xv_xr.rf_id == xv_rk && xv_xr.rf_event == xv_xr.rk_event)) && \
                      ((xv_xr.rf_live && xv_xr.rf_id == xv_rk) ==> (xv_xr.rk_live && xv_xr.rk_fd == xv_rf && xv_xr.rk_event == xv_xr.rf_event))
#define XR_RANGE(slack) (xv_xr.regs >= 0 && xv_xr.regs < XV_TD_CNT_MAX - (slack) && xv_xr.adds < (unsigned)(XV_TD_CNT_MAX - (slack)) && xv_xr.dels < (unsigned)(XV_TD_CNT_MAX - (slack)) && (XR_CONSISTENT) && \
                         (xv_xr.rk_live ==> (xv_xr.regs > 0 && xv_rk >= 0 && xv_xr.rk_fd >= 0)) && (xv_xr.rf_live ==> (xv_xr.regs > 0 && xv_rf >= 0 && xv_xr.rf_id >= 0)))
/* registration `id` is live, of descriptor `fd`, for `ev` -- as far as the tracked rows can tell (they can tell for every id/fd) */
#define XR_IS(id, fd, ev) (((id) == xv_rk ==> (xv_xr.rk_live && xv_xr.rk_fd == (fd) && xv_xr.rk_event == (ev))) && \
                           ((fd) == xv_rf ==> (xv_xr.rf_live && xv_xr.rf_id == (id) && xv_xr.rf_event == (ev))) && \
                           ((xv_xr.rf_live && xv_xr.rf_id == (id)) ==> xv_rf == (fd)) && ((xv_xr.rk_live && xv_xr.rk_fd == (fd)) ==> xv_rk == (id)))
#define XR_ROWS_SAME (!xv_xr.rk_live == !__CPROVER_old(xv_xr.rk_live) && XV_SAME(xv_xr.rk_fd) && XV_SAME(xv_xr.rk_event) && \
                      !xv_xr.rf_live == !__CPROVER_old(xv_xr.rf_live) && XV_SAME(xv_xr.rf_id) && XV_SAME(xv_xr.rf_event))
/* the effect of ONE xpoll_fd_reg_add(fd, ev) that returned id / of ONE xpoll_fd_reg_del(id) on the ghost table */
#define XR_ADDED(id, fd, ev) (xv_xr.regs == __CPROVER_old(xv_xr.regs) + 1 && xv_xr.adds == __CPROVER_old(xv_xr.adds) + 1 && XV_SAME(xv_xr.dels) && XV_SAME(xv_xr.del_id) && \
        xv_xr.add_id == (id) && xv_xr.add_fd == (fd) && xv_xr.add_event == (ev) && (id) >= 0 && (fd) >= 0 && \
        ((id) == xv_rk ? (xv_xr.rk_live && xv_xr.rk_fd == (fd) && xv_xr.rk_event == (ev) && !__CPROVER_old(xv_xr.rk_live)) \
                       : (!xv_xr.rk_live == !__CPROVER_old(xv_xr.rk_live) && XV_SAME(xv_xr.rk_fd) && XV_SAME(xv_xr.rk_event))) && \
        ((fd) == xv_rf ? (xv_xr.rf_live && xv_xr.rf_id == (id) && xv_xr.rf_event == (ev) && !__CPROVER_old(xv_xr.rf_live)) \
                       : (!xv_xr.rf_live == !__CPROVER_old(xv_xr.rf_live) && XV_SAME(xv_xr.rf_id) && XV_SAME(xv_xr.rf_event))))
#define XR_DELETED(id) (xv_xr.regs == __CPROVER_old(xv_xr.regs) - 1 && xv_xr.dels == __CPROVER_old(xv_xr.dels) + 1 && xv_xr.del_id == (id) && XV_SAME(xv_xr.adds) && \
        XV_SAME(xv_xr.add_id) && XV_SAME(xv_xr.add_fd) && XV_SAME(xv_xr.add_event) && XV_SAME(xv_xr.rk_fd) && XV_SAME(xv_xr.rk_event) && XV_SAME(xv_xr.rf_id) && XV_SAME(xv_xr.rf_event) && \
        ((id) == xv_rk ? !xv_xr.rk_live : !xv_xr.rk_live == !__CPROVER_old(xv_xr.rk_live)) && \
        ((__CPROVER_old(xv_xr.rf_live) && __CPROVER_old(xv_xr.rf_id) == (id)) ? !xv_xr.rf_live : !xv_xr.rf_live == !__CPROVER_old(xv_xr.rf_live)))
/* no epoll change at all */
#define XR_UNTOUCHED (XV_SAME(xv_xr.regs) && XV_SAME(xv_xr.adds) && XV_SAME(xv_xr.dels) && XV_SAME(xv_xr.add_fd) && XV_SAME(xv_xr.add_event) && \
                      XV_SAME(xv_xr.add_id) && XV_SAME(xv_xr.del_id) && XR_ROWS_SAME)

/* ---- timerfd, clock ---------------------------------------------------------------------------------------------------- */
struct xv_tt_s {
    unsigned creates; int c_clock, c_flags;                    /* timerfd_create: calls, last arguments */
    unsigned set_n; int set_fd, set_flags; _Bool set_old_null;  /* timerfd_settime: calls, last arguments */
    long set_sec, set_nsec, set_isec, set_insec;               /*   it_value / it_interval of the last call */
    _Bool armed;                                               /* the timerfd is armed (last it_value non-zero; a new timerfd is not) */
    double now; unsigned now_n;                                /* ut_ftime: last value returned, calls */
    double f2ts_in; long f2ts_sec, f2ts_nsec; unsigned f2ts_n; /* ut_f_to_timespec: last argument and result, calls */
} xv_tt;
#define XV_NOW_MAX 1e15            /* CLOCK_MONOTONIC in seconds: 3e7 years (TRUSTED: the uptime is below that) */
#define TT_RANGE (xv_tt.creates < (unsigned)XV_TD_CNT_MAX && xv_tt.set_n < (unsigned)XV_TD_CNT_MAX && xv_tt.now_n < (unsigned)XV_TD_CNT_MAX && \
                  xv_tt.f2ts_n < (unsigned)XV_TD_CNT_MAX && xv_tt.now >= 0 && xv_tt.now <= XV_NOW_MAX)
#define TT_SET_SAME (XV_SAME(xv_tt.set_n) && XV_SAME(xv_tt.set_fd) && XV_SAME(xv_tt.set_flags) && XV_SAME(xv_tt.set_sec) && XV_SAME(xv_tt.set_nsec) && \
                     XV_SAME(xv_tt.set_isec) && XV_SAME(xv_tt.set_insec) && !xv_tt.armed == !__CPROVER_old(xv_tt.armed) && XV_SAME(xv_tt.f2ts_n))

/* ---- snapshot of a timer manager on entry (ghost constants written by the harness that builds the object) ------------------ */
struct xv_gt_s {
    int n;                           /* timers in the list, 0..3 */
    int64_t id[4]; double exp[4];    /* id / expiry of the 1st, 2nd, 3rd list element (index 0..2); [3] unused */
    int64_t next;                    /* next_timer_id */
    int fd, reg_id;                  /* timer_fd, timer_fd_reg_id */
    const void *xpoll, *log_ref;
    int64_t arg_id;                  /* *timer_id handed to cancel/ack/reschedule */
    const void *node[4], *mgr;       /* the list elements and the manager themselves (for was_freed) */
} xv_gt;

/* ---- abstract timers (what xcm_dns_cares.c and tconnect.c see of timer_mgr.c) ------------------------------------------------ */
int64_t xv_tk;                   /* arbitrary timer id (never assigned) */
struct xv_tmg_s {
    int timers;                  /* live timers of the manager */
    int tmgrs;                   /* live timer managers */
    _Bool tk_live; double tk_timeout;             /* timer xv_tk: live?, relative timeout it was scheduled with */
    unsigned scheds, cancels, expireds, creates, destroys;
    int64_t sched_id; double sched_timeout; const void *sched_mgr;      /* last timer_mgr_schedule / _reschedule */
    _Bool expired_ret; int64_t expired_id;         /* last timer_mgr_has_expired */
    _Bool destroy_owner;                           /* owner flag of the last timer_mgr_destroy */
    int mgr_fd, mgr_reg_id;                        /* the manager's timerfd and its xpoll registration */
    int64_t last_id;                               /* the greatest timer id handed out so far (ids grow: part TM, timer_mgr_schedule.fresh_id) */
} xv_tmg;
#define xv_timers xv_tmg.timers
#define xv_tmgrs xv_tmg.tmgrs

/* ghost constants (never assigned): bound to entry values by requires clauses */
int xv_g_nregs; const void *xv_g_ptr, *xv_g_ptr2;

#ifndef XV_NODES_MAX
#define XV_NODES_MAX 34           /* longest answer list explored (get_ips reads at most 32 + 1 nodes) */
#endif
/* ---- c-ares model ------------------------------------------------------------------------------------------------------------ */
struct xv_ar_s {
    unsigned inits, destroys, gai_n, process_fd_n, process_n, getsock_n, timeout_n, free_n, cb_n;
    int channels;                /* live channels (ares_init_options success: +1, ares_destroy: -1) */
    int results;                 /* addrinfo lists handed to the callback and not yet given back to ares_freeaddrinfo */
    _Bool pending;               /* a lookup is outstanding: the callback will be made by a later ares_process*()/ares_destroy() */
    void *arg;                   /* callback argument registered with ares_getaddrinfo */
    int cb_status;               /* status of the last callback */
    int cb_nodes;                /* number of nodes of the list handed to the last ARES_SUCCESS callback */
    int cb_usable;               /* ... of which AF_INET/AF_INET6 */
    int tries, timeout_ms, optmask;       /* options of the last ares_init_options */
    int gs_mask;                 /* what the last ares_getsock() returned */
    int gs_fd;                   /* ... and the descriptor it stored in slot xv_j (0 <= xv_j < 16) */
    _Bool to_null; long to_sec, to_usec;   /* last ares_timeout(): returned NULL? / the timeval it returned */
    const void *to_ptr;
    double tv2f_ret; unsigned tv2f_n; long tv2f_sec, tv2f_usec;    /* ut_timeval_to_f: result, calls, argument */
    int pfd_r, pfd_w;            /* last ares_process_fd: descriptors */
    unsigned pfd_j;              /* ares_process_fd calls made with the descriptor of slot xv_j */
    int node_fam;                /* family of node number xv_j of the last list (xv_j < cb_nodes) */
    uint8_t node_b;              /* byte xv_mc (< 4 / < 16) of that node's address */
} xv_ar;

#endif
