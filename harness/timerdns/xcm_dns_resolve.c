//@ variant: main DEFS=-DXV_TD_MAIN
//@ variant: huge DEFS=-DXV_DNS_TIMEOUT_MAX=1e300
//@ tu: libxcm/tp/dns/xcm_dns_cares.c
//@ enforce: xcm_dns_resolve
//@ replace: update_xpoll query_cb timer_mgr_create timer_mgr_destroy timer_mgr_schedule timer_mgr_reschedule timer_mgr_cancel
//@ pre-unwind: xcm_dns_resolve.0:17
//@ defs: $DEFS
//@ props: C13 C04 C08
//@ expect: postcondition>=6 canary=6
#include "_unit_dns.h"
/* @huge: no upper bound on dns.timeout (dns_opts_set_timeout accepts any non-negative double) */
void harness(void)
{
    xv_ghost_havoc();
    xv_td_havoc();
    const char *name; struct xpoll *xpoll; double timeout = nondet_double(); void *log_ref;
    unsigned cb0 = xv_ar.cb_n, in0 = xv_ar.inits;
    struct xcm_dns_query *q = xcm_dns_resolve(name, xpoll, timeout, log_ref);
    if (q == NULL && xv_ar.inits == in0 && xv_errno == EMFILE) XV_CANARY("no timerfd: EMFILE");
    if (q == NULL && xv_ar.inits != in0 && xv_errno == ENOENT) XV_CANARY("no resolver configuration: ENOENT");
    if (q != NULL && xv_ar.pending && timeout == 2.5 && xv_ar.tries == 3) XV_CANARY("in progress, dns.timeout 2.5 s, 3 tries");
    if (q != NULL && xv_ar.pending && timeout == 0 && xv_ar.tries == 11) XV_CANARY("in progress, default timeout 10 s");
    if (q != NULL && xv_ar.cb_n != cb0 && xv_ar.cb_status == ARES_SUCCESS) XV_CANARY("answered at once: successful");
    if (q != NULL && xv_ar.cb_n != cb0 && xv_ar.cb_status == ARES_EBADNAME) XV_CANARY("answered at once: failed");
}
