//@ tu: libxcm/tp/dns/xcm_dns_cares.c
//@ enforce: get_ip
//@ defs: -DXV_TD_GETIP_JOB
//@ props: C13
//@ expect: postcondition>=1 canary=2
#include "_unit_dns.h"
void harness(void)
{
    xv_ghost_havoc();
    xv_td_havoc();
    struct ares_addrinfo_node *node; struct xcm_addr_ip *ip;
    xv_ar.node_fam = nondet_int();
    /* (the family is read back through the ghost: objects made by is_fresh are not visible here) */
    get_ip(NULL, node, ip, NULL);
    XV_CANARY("IPv4 or IPv6 node copied");
    if (xv_mc == 15) XV_CANARY("last byte of an IPv6 address tracked");
}
