//@ tu: libxcm/tp/dns/xcm_dns_cares.c
//@ enforce: xcm_dns_query_result
//@ pre-unwind: unreg_all_channel_fds.0:17
//@ props: C13 C08
//@ expect: postcondition>=4 canary=5
#include "_unit_dns.h"
void harness(void)
{
    xv_ghost_havoc();
    xv_td_havoc();
    struct xcm_dns_query *q = xv_q_any(); struct xcm_addr_ip *ips; int capacity;
    int rv = xcm_dns_query_result(q, ips, capacity);
    if (rv == -1 && xv_errno == EAGAIN) XV_CANARY("in progress: EAGAIN");
    if (rv == -1 && xv_errno == ENOENT) XV_CANARY("failed: ENOENT");
    if (rv == 1 && capacity == 1) XV_CANARY("one address wanted");
    if (rv == 32 && capacity == 40) XV_CANARY("all 32 addresses");
    if (rv == 3 && capacity == 32 && xv_g_nregs == 2) XV_CANARY("three addresses, two registrations dropped");
}
