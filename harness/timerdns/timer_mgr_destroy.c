//@ tu: libxcm/core/timer_mgr.c
//@ enforce: timer_mgr_destroy
//@ pre-unwind: destroy_mtimers.0:5
//@ bounded: timer list with 0..3 elements on entry (built by malloc in the harness), arbitrary ids and expiry times
//@ props: C08
//@ expect: postcondition>=5 canary=4
#include "_unit_tm.h"
void harness(void)
{
    xv_ghost_havoc();
    xv_td_havoc();
    struct timer_mgr *t = nondet_bool() ? xv_tm_any() : NULL;
    bool owner = nondet_bool();
    timer_mgr_destroy(t, owner);
    if (t == NULL) XV_CANARY("NULL");
    if (t != NULL && owner && xv_gt.n == 3) XV_CANARY("owner, three timers pending");
    if (t != NULL && !owner && xv_gt.n == 1) XV_CANARY("cleanup in a forked child");
    if (t != NULL && xv_gt.n == 0) XV_CANARY("no timer pending");
}
