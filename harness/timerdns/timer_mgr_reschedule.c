//@ tu: libxcm/core/timer_mgr.c
//@ enforce: timer_mgr_reschedule
//@ pre-unwind: update_epoll.0:6 find_mtimer.0:5
//@ bounded: timer list with 0..3 elements on entry (built by malloc in the harness), arbitrary ids and expiry times (doubles, any non-NaN value incl. infinities); next_timer_id <= INT_MAX-1
//@ props: C04 C13
//@ expect: postcondition>=3 canary=4
#include "_unit_tm.h"
void harness(void)
{
    xv_ghost_havoc();
    xv_td_havoc();
    struct timer_mgr *t = xv_tm_any();
    int64_t *idp = xv_idp_any();
    double rel = nondet_double();
    timer_mgr_reschedule(t, rel, idp);
    XV_ASSERT(xv_tm_links_ok(t), "PO[C13] timer_mgr_reschedule.list_well_linked");
    if (xv_gt.arg_id == -1 && xv_gt.n == 0) XV_CANARY("no timer yet: plain schedule");
    if (xv_gt.n == 1 && xv_gt.arg_id == xv_gt.id[0]) XV_CANARY("the only timer replaced");
    if (xv_gt.n == 3 && xv_gt.arg_id == xv_gt.id[1]) XV_CANARY("middle of three replaced");
    if (xv_gt.n == 2 && xv_gt.arg_id == xv_gt.id[0] && xv_tt.f2ts_in == xv_gt.exp[1] && rel > 1) XV_CANARY("the other timer is the earliest");
}
