//@ tu: libxcm/core/timer_mgr.c
//@ enforce: timer_mgr_create
//@ props: C08 C04 C05
//@ expect: postcondition>=6 canary=2
#include "_unit_tm.h"
void harness(void)
{
    xv_ghost_havoc();
    xv_td_havoc();
    struct xpoll *xpoll; void *log_ref;
    struct timer_mgr *t = timer_mgr_create(xpoll, log_ref);
    if (t != NULL) XV_CANARY("created");
    if (t == NULL && xv_errno == EMFILE) XV_CANARY("timerfd_create failed: EMFILE");
}
