//@ tu: libxcm/core/timer_mgr.c
//@ enforce: timer_mgr_has_expired
//@ pre-unwind: find_mtimer.0:5
//@ bounded: timer list with 1..3 elements on entry (built by malloc in the harness), arbitrary ids and expiry times (doubles, any non-NaN value incl. infinities)
//@ props: C13
//@ expect: postcondition>=1 canary=3
#include "_unit_tm.h"
void harness(void)
{
    xv_ghost_havoc();
    xv_td_havoc();
    struct timer_mgr *t = xv_tm_any();
    int64_t id = nondet_int64();
    bool rv = timer_mgr_has_expired(t, id);
    if (rv && xv_gt.n == 3 && id == xv_gt.id[2]) XV_CANARY("third timer has expired");
    if (!rv && xv_gt.n == 2 && id == xv_gt.id[0] && xv_gt.exp[1] < xv_tt.now) XV_CANARY("first timer still running although the second is due");
    if (!rv && xv_gt.n == 1 && xv_tt.now == xv_gt.exp[0]) XV_CANARY("exactly at the expiry time: not yet");
}
