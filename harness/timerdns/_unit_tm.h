/* timerdns unit, part TM: the REAL libxcm/core/timer_mgr.c.
 *
 * The timer list is a <sys/queue.h> LIST of heap elements.  A pointer field of an object made by __CPROVER_is_fresh cannot be
 * followed (HOWTO: trap a) and LIST_REMOVE writes through le_prev, so the manager and its list are BUILT HERE, by malloc, with
 * 0..3 elements of arbitrary ids and expiry times (jobs are labelled `bounded:`); the contract's requires clause (TM_ENTRY)
 * then merely restates the shape and binds the snapshot constants xv_gt. */
#include "prelude.h"
#include "harness/timerdns/_ghost.h"
#include "timer_mgr.c"
#include "env/base.h"
#define XV_TD_TM
#include "env/timerdns_env.h"
#include "contracts/timerdns.h"
#ifdef XV_CBMC
int64_t nondet_int64(void);
static inline void xv_td_havoc(void)
{
    xv_fd_havoc();
    xv_rk = nondet_int(); xv_rf = nondet_int();
    __CPROVER_havoc_object(&xv_xr);
    __CPROVER_havoc_object(&xv_tt);
    __CPROVER_havoc_object(&xv_gt);
}
/* one list element with arbitrary content, inserted at the head (real LIST_INSERT_HEAD) */
static inline struct mtimer *xv_tm_push(struct timer_mgr *t)
{
    struct mtimer *m = malloc(sizeof(struct mtimer));
    __CPROVER_assume(m != NULL);
    m->id = nondet_int64(); m->expiry_time = nondet_double();
    LIST_INSERT_HEAD(&t->mtimers, m, entry);
    return m;
}
/* an arbitrary timer manager with 0..3 timers; the snapshot xv_gt describes it */
static inline struct timer_mgr *xv_tm_any(void)
{
    struct timer_mgr *t = malloc(sizeof(struct timer_mgr));
    __CPROVER_assume(t != NULL);
    t->xpoll = malloc(1); __CPROVER_assume(t->xpoll != NULL);
    t->timer_fd = nondet_int(); t->timer_fd_reg_id = nondet_int(); t->next_timer_id = nondet_int64(); t->log_ref = NULL;
    LIST_INIT(&t->mtimers);
    int n = nondet_int();
    __CPROVER_assume(n >= 0 && n <= 3);
    struct mtimer *c = n >= 3 ? xv_tm_push(t) : NULL;
    struct mtimer *b = n >= 2 ? xv_tm_push(t) : NULL;
    struct mtimer *a = n >= 1 ? xv_tm_push(t) : NULL;
    xv_gt.n = n; xv_gt.mgr = t;
    xv_gt.node[0] = a; xv_gt.node[1] = b; xv_gt.node[2] = c;
    if (a != NULL) { xv_gt.id[0] = a->id; xv_gt.exp[0] = a->expiry_time; }
    if (b != NULL) { xv_gt.id[1] = b->id; xv_gt.exp[1] = b->expiry_time; }
    if (c != NULL) { xv_gt.id[2] = c->id; xv_gt.exp[2] = c->expiry_time; }
    xv_gt.next = t->next_timer_id; xv_gt.fd = t->timer_fd; xv_gt.reg_id = t->timer_fd_reg_id;
    return t;
}
/* the back links of the list, checked in CODE after the call (see TM_LINKS in contracts/timerdns.h) */
static inline _Bool xv_tm_links_ok(struct timer_mgr *t)
{
    struct mtimer *a = t->mtimers.lh_first;
    if (a == NULL) return 1;
    if (a->entry.le_prev != &t->mtimers.lh_first) return 0;
    struct mtimer *b = a->entry.le_next;
    if (b == NULL) return 1;
    if (b->entry.le_prev != &a->entry.le_next) return 0;
    struct mtimer *c = b->entry.le_next;
    if (c == NULL) return 1;
    if (c->entry.le_prev != &b->entry.le_next) return 0;
    struct mtimer *d = c->entry.le_next;
    if (d == NULL) return 1;
    if (d->entry.le_prev != &c->entry.le_next) return 0;
    return d->entry.le_next == NULL;
}
static inline int64_t *xv_idp_any(void)
{
    int64_t *p = malloc(sizeof(int64_t));
    __CPROVER_assume(p != NULL);
    *p = nondet_int64(); xv_gt.arg_id = *p;
    return p;
}
#endif
