//@ tu: libxcm/tp/ux/xcm_tp_ux.c
//@ enforce: ux_init
//@ props: C08
//@ expect: postcondition>=1 canary=1
#include "_unit.h"
void harness(void)
{
    xv_ghost_havoc();
    xv_fd_havoc();
    xv_ux_havoc();
    struct xcm_socket *s, *parent;
    int rv = ux_init(s, parent);
    if (rv == 0) XV_CANARY("initialised");
}
