//@ tu: libxcm/tp/ux/xcm_tp_ux.c
//@ enforce: create_socket
//@ replace: xpoll_fd_reg_add xpoll_fd_reg_del_if_valid
//@ pre-unwind: strlen.0:110
//@ props: C08 C05
//@ expect: postcondition>=3 canary=3
#include "_unit.h"
void harness(void)
{
    xv_ghost_havoc();
    xv_fd_havoc();
    xv_ux_havoc();
    struct xcm_socket *s;
    int k0 = xv_sockopt_calls;
    int rv = create_socket(s);
    if (rv == 0) XV_CANARY("created");
    if (rv == -1 && xv_sockopt_calls == k0 && xv_errno == EMFILE) XV_CANARY("socket() failed, EMFILE");
    if (rv == -1 && xv_sockopt_calls == k0 + 1) XV_CANARY("setsockopt(SO_PASSCRED) failed");
}
