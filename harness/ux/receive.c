//@ tu: libxcm/tp/ux/xcm_tp_ux.c
//@ enforce: ux_receive
//@ props: C01 C17 C05
//@ expect: postcondition>=10 canary=6
#include "_unit.h"
void harness(void)
{
    xv_ghost_havoc();
    xv_fd_havoc();
    xv_ux_havoc();
    struct xcm_socket *s; void *buf; size_t capacity;
    int rv = ux_receive(s, buf, capacity);
    if (rv > 0 && xv_recv_ret == rv) XV_CANARY("whole message");
    if (rv > 0 && xv_recv_ret > rv) XV_CANARY("truncated message");
    if (rv == 70000) XV_CANARY("message larger than any UX message");
    if (rv == 0 && xv_recv_ret == 0) XV_CANARY("end of stream");
    if (rv == 0 && xv_recv_ret > 0) XV_CANARY("capacity 0");
    if (rv == -1 && xv_errno == EAGAIN) XV_CANARY("EAGAIN");
}
