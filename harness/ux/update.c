//@ tu: libxcm/tp/ux/xcm_tp_ux.c
//@ enforce: ux_update
//@ replace: xpoll_fd_reg_mod
//@ props: C04 C16
//@ expect: postcondition>=2 canary=3
#include "_unit.h"
/* ux_update (C04 no lost wake-up, C16 quiet when idle): the socket's descriptor registration is set to EXACTLY the events of
 * the awaited condition: connection: RECEIVABLE <=> EPOLLIN, SENDABLE <=> EPOLLOUT, condition 0 => no event at all;
 * server: ACCEPTABLE <=> EPOLLIN.  xpoll_fd_reg_mod is another module (unit xpoll): assumed to set the mask of the
 * registration it is given (ghost record of the last call). */
int xv_mod_calls, xv_mod_reg, xv_mod_event;
#include "contracts/begin.h"
void xpoll_fd_reg_mod(struct xpoll *xpoll, int reg_id, int event)
__CPROVER_requires(reg_id >= 0)
__CPROVER_assigns(xv_mod_calls, xv_mod_reg, xv_mod_event)
__CPROVER_ensures(xv_mod_calls == __CPROVER_old(xv_mod_calls) + 1 && xv_mod_reg == reg_id && xv_mod_event == event)
;
#define UX_EVENTS(cond) ((((cond) & XCM_SO_RECEIVABLE) ? (int)EPOLLIN : 0) | (((cond) & XCM_SO_SENDABLE) ? (int)EPOLLOUT : 0))
static void ux_update(struct xcm_socket *s)
__CPROVER_requires(__CPROVER_is_fresh(s, sizeof(struct xcm_socket) + sizeof(struct ux_socket)) && (s->type == xcm_socket_type_conn || s->type == xcm_socket_type_server))
__CPROVER_requires(XU(s)->fd_reg_id >= 0 && xv_mod_calls >= 0 && xv_mod_calls < 1000000)
__CPROVER_requires(s->type == xcm_socket_type_conn ? (s->condition & ~(XCM_SO_RECEIVABLE | XCM_SO_SENDABLE)) == 0 : (s->condition == 0 || s->condition == XCM_SO_ACCEPTABLE))
__CPROVER_assigns(xv_mod_calls, xv_mod_reg, xv_mod_event)
/* PO[C04,C16] ux_update.conn_exact_mask: exactly the awaited events on the connection's own registration (nothing awaited => nothing polled) */
__CPROVER_ensures(s->type == xcm_socket_type_conn ==> (xv_mod_calls == __CPROVER_old(xv_mod_calls) + 1 && xv_mod_reg == XU(s)->fd_reg_id && xv_mod_event == UX_EVENTS(s->condition)))
/* PO[C04,C16] ux_update.server_acceptable_iff_epollin */
__CPROVER_ensures(s->type == xcm_socket_type_server ==> (xv_mod_calls == __CPROVER_old(xv_mod_calls) + 1 && xv_mod_reg == XU(s)->fd_reg_id && xv_mod_event == (s->condition == XCM_SO_ACCEPTABLE ? (int)EPOLLIN : 0)))
;
#include "contracts/end.h"
void harness(void)
{
    xv_ghost_havoc(); xv_fd_havoc(); xv_ux_havoc();
    xv_mod_calls = nondet_int(); xv_mod_reg = nondet_int(); xv_mod_event = nondet_int();
    struct xcm_socket *s;
    ux_update(s);
    if (xv_mod_event == (EPOLLIN | EPOLLOUT)) XV_CANARY("both directions awaited");
    if (xv_mod_event == 0) XV_CANARY("idle: nothing polled");
    if (xv_mod_event == EPOLLIN) XV_CANARY("receivable or acceptable");
}
