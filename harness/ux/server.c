//@ tu: libxcm/tp/ux/xcm_tp_ux.c
//@ enforce: ux_server
//@ replace: create_socket xcm_addr_parse_ux xcm_addr_parse_uxf xpoll_fd_reg_del_if_valid
//@ pre-unwind: strlen.0:110 strcpy.0:110
//@ props: C08 C05
//@ expect: postcondition>=5 canary=7
#include "_unit.h"
void harness(void)
{
    xv_ghost_havoc();
    xv_fd_havoc();
    xv_ux_havoc();
    struct xcm_socket *s; const char *addr;
    int b0 = xv_bind_calls, bo0 = xv_bind_ok_calls, l0 = xv_listen_calls, u0 = xv_unlink_calls, c0 = xv_close_calls;
    int rv = ux_server(s, addr);
    if (rv == 0 && xv_bound_len == 0) XV_CANARY("UX server (abstract name)");
    if (rv == 0 && xv_bound_len == 107) XV_CANARY("UXF server, longest path");
    if (rv == -1 && xv_bind_calls == b0 && xv_close_calls == c0) XV_CANARY("socket creation failed");
    if (rv == -1 && xv_bind_calls == b0 && xv_close_calls == c0 + 1 && xv_errno == EINVAL) XV_CANARY("bad address, descriptor closed");
    if (rv == -1 && xv_bind_calls == b0 + 1 && xv_bind_ok_calls == bo0 && xv_errno == EADDRINUSE && xv_unlink_calls == u0) XV_CANARY("bind failed EADDRINUSE, nothing unlinked");
    if (rv == -1 && xv_listen_calls == l0 + 1 && xv_unlink_calls == u0 + 1) XV_CANARY("UXF listen failed, own file unlinked");
    if (rv == -1 && xv_listen_calls == l0 + 1 && xv_unlink_calls == u0) XV_CANARY("UX listen failed, no file");
}
