//@ tu: libxcm/tp/ux/xcm_tp_ux.c
//@ enforce: ux_cleanup
//@ replace: xpoll_fd_reg_del_if_valid
//@ pre-unwind: strlen.0:110
//@ props: C08
//@ expect: postcondition>=3 canary=2
#include "_unit.h"
void harness(void)
{
    xv_ghost_havoc();
    xv_fd_havoc();
    xv_ux_havoc();
    struct xcm_socket *s;
    int o0 = xv_open_cnt, c0 = xv_close_calls;
    ux_cleanup(s);
    if (xv_open_cnt == o0 - 1) XV_CANARY("descriptor closed");
    if (xv_open_cnt == o0 && xv_close_calls == c0) XV_CANARY("NULL or never connected");
}
