//@ tu: libxcm/tp/ux/xcm_tp_ux.c
//@ enforce: ux_close
//@ replace: xpoll_fd_reg_del_if_valid
//@ pre-unwind: strlen.0:110
//@ props: C08
//@ expect: postcondition>=3 canary=4
#include "_unit.h"
void harness(void)
{
    xv_ghost_havoc();
    xv_fd_havoc();
    xv_ux_havoc();
    struct xcm_socket *s;
    int o0 = xv_open_cnt, r0 = xv_regs, u0 = xv_unlink_calls, c0 = xv_close_calls;
    ux_close(s);
    if (xv_open_cnt == o0 - 1 && xv_regs == r0 - 1 && xv_unlink_calls == u0) XV_CANARY("live connection closed");
    if (xv_open_cnt == o0 - 1 && xv_regs == r0 - 1 && xv_unlink_calls == u0 + 1) XV_CANARY("UXF server closed, socket file unlinked");
    if (xv_open_cnt == o0 && xv_regs == r0 && xv_close_calls == c0) XV_CANARY("NULL or never connected");
    if (xv_open_cnt == o0 - 1 && xv_errno == EAGAIN) XV_CANARY("errno survives");
}
