//@ tu: libxcm/tp/ux/xcm_tp_ux.c
//@ enforce: ux_send
//@ props: C01 C03 C17 C05
//@ expect: postcondition>=9 canary=5
#include "_unit.h"
void harness(void)
{
    xv_ghost_havoc();
    xv_fd_havoc();
    xv_ux_havoc();
    struct xcm_socket *s; const void *buf; size_t len;
    int rv = ux_send(s, buf, len);
    if (rv == 0) XV_CANARY("accepted");
    if (rv == 0 && xv_send_len == 65535) XV_CANARY("accepted, maximum size");
    if (rv == -1 && xv_errno == EAGAIN && xv_send_ret == -1) XV_CANARY("refused by the kernel, EAGAIN");
    if (rv == -1 && xv_errno == EMSGSIZE && xv_send_ret != -1) XV_CANARY("oversized");
    if (rv == -1 && xv_errno == EINVAL && xv_send_ret != -1) XV_CANARY("zero-sized");
}
