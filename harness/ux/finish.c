//@ tu: libxcm/tp/ux/xcm_tp_ux.c
//@ enforce: ux_finish
//@ props: C03
//@ expect: postcondition>=1 canary=1
#include "_unit.h"
void harness(void)
{
    xv_ghost_havoc();
    xv_fd_havoc();
    xv_ux_havoc();
    struct xcm_socket *s;
    int rv = ux_finish(s);
    if (rv == 0) XV_CANARY("nothing to do");
}
