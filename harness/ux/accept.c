//@ tu: libxcm/tp/ux/xcm_tp_ux.c
//@ enforce: ux_accept
//@ replace: xpoll_fd_reg_add
//@ props: C08 C05
//@ expect: postcondition>=3 canary=3
#include "_unit.h"
void harness(void)
{
    xv_ghost_havoc();
    xv_fd_havoc();
    xv_ux_havoc();
    struct xcm_socket *conn_s, *server_s;
    int rv = ux_accept(conn_s, server_s);
    if (rv == 0) XV_CANARY("accepted");
    if (rv == -1 && xv_errno == EAGAIN) XV_CANARY("nothing to accept");
    if (rv == -1 && xv_errno == EMFILE) XV_CANARY("descriptor exhaustion");
}
