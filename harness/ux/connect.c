//@ tu: libxcm/tp/ux/xcm_tp_ux.c
//@ enforce: ux_connect
//@ replace: create_socket xcm_addr_parse_ux xcm_addr_parse_uxf xpoll_fd_reg_del_if_valid
//@ pre-unwind: strlen.0:110 strcpy.0:110
//@ props: C08 C05
//@ expect: postcondition>=4 canary=5
#include "_unit.h"
void harness(void)
{
    xv_ghost_havoc();
    xv_fd_havoc();
    xv_ux_havoc();
    struct xcm_socket *s; const char *addr;
    int o0 = xv_open_cnt, n0 = xv_connect_calls, c0 = xv_close_calls;
    int rv = ux_connect(s, addr);
    if (rv == 0 && xv_ux_name_len == 107) XV_CANARY("connected, longest name");
    if (rv == 0 && xv_ux_name_len == 1) XV_CANARY("connected, shortest name");
    if (rv == -1 && xv_errno == EINVAL && xv_connect_calls == n0 && xv_close_calls == c0) XV_CANARY("bad address or socket creation failed");
    if (rv == -1 && xv_errno == ECONNREFUSED && xv_connect_calls == n0 + 1 && xv_close_calls == c0 + 1) XV_CANARY("connect refused, descriptor closed");
    if (rv == -1 && xv_errno == EAGAIN && xv_connect_calls == n0 + 1) XV_CANARY("connect EAGAIN (listen queue full)");
}
