//@ tu: libxcm/tp/ux/xcm_tp_ux.c
//@ enforce: ux_get_cnt
//@ props: C17
//@ expect: postcondition>=1 canary=2
#include "_unit.h"
void harness(void)
{
    xv_ghost_havoc();
    xv_fd_havoc();
    xv_ux_havoc();
    struct xcm_socket *s; enum xcm_tp_cnt cnt;
    int64_t v = ux_get_cnt(s, cnt);
    if (cnt == xcm_tp_cnt_to_app_bytes && v == 7) XV_CANARY("to_app_bytes");
    if (cnt == xcm_tp_cnt_from_lower_msgs && v == 9) XV_CANARY("from_lower_msgs");
}
