/* common part of every ux-unit harness: prelude, the REAL TU libxcm/tp/ux/xcm_tp_ux.c, env, contracts */
#include "prelude.h"
#include "xcm_tp_ux.c"
#include "env/base.h"
#include "env/fd.h"
#include "contracts/ux.h"
