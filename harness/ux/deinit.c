//@ tu: libxcm/tp/ux/xcm_tp_ux.c
//@ enforce: deinit
//@ replace: xpoll_fd_reg_del_if_valid
//@ pre-unwind: strlen.0:110
//@ props: C08
//@ expect: postcondition>=3 canary=5
#include "_unit.h"
void harness(void)
{
    xv_ghost_havoc();
    xv_fd_havoc();
    xv_ux_havoc();
    struct xcm_socket *s; bool owner;
    int o0 = xv_open_cnt, r0 = xv_regs, u0 = xv_unlink_calls;
    deinit(s, owner);
    if (owner && xv_open_cnt == o0 - 1 && xv_regs == r0 - 1 && xv_unlink_calls == u0) XV_CANARY("owner: live connection closed");
    if (owner && xv_open_cnt == o0 - 1 && xv_unlink_calls == u0 + 1 && xv_unlink_len == 107) XV_CANARY("owner: UXF server closed, longest name unlinked");
    if (owner && xv_open_cnt == o0 && xv_regs == r0) XV_CANARY("owner: never connected");
    if (!owner && xv_open_cnt == o0 - 1) XV_CANARY("cleanup: descriptor closed");
    if (!owner && xv_open_cnt == o0) XV_CANARY("cleanup: never connected");
}
