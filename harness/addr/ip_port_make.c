//@ tu: libxcm/core/xcm_addr.c
//@ replay: addr_native.py
//@ enforce: ip_port_make
//@ props: C12
//@ expect: postcondition>=2 canary=2
#include "_unit.h"
void harness(void)
{
    xv_ghost_havoc();
    xv_snprintf_calls = nondet_int();
    const char *proto; const struct xcm_addr_ip *ip; uint16_t port; char *out; size_t cap; int rv = ip_port_make(proto, ip, port, out, cap);
    if (rv == 0) XV_CANARY("success");
    if (rv == -1 && xv_errno == ENAMETOOLONG) XV_CANARY("too long");
}
