//@ tu: libxcm/core/xcm_addr.c
//@ replay: addr_native.py
//@ enforce: name_port_make
//@ props: C12
//@ expect: postcondition>=2 canary=2
#include "_unit.h"
void harness(void)
{
    xv_ghost_havoc();
    xv_snprintf_calls = nondet_int();
    const char *proto, *name; uint16_t port; char *out; size_t cap; int rv = name_port_make(proto, name, port, out, cap);
    if (rv == 0) XV_CANARY("success");
    if (rv == -1 && xv_errno == ENAMETOOLONG) XV_CANARY("too long");
}
