//@ tu: libxcm/core/xcm_addr.c
//@ replay: addr_native.py
//@ enforce: host_port_parse
//@ replace: proto_addr_parse host_parse
//@ pre-unwind: strrchr.0:581 strcmp.0:34
//@ props: C12
//@ expect: postcondition>=3 canary=2
#include "_unit.h"
void harness(void)
{
    xv_ghost_havoc();
    const char *proto, *addr; struct xcm_addr_host *host; uint16_t *port;
    int rv = host_port_parse(proto, addr, host, port);
    if (rv == 0) XV_CANARY("success");
    if (rv == -1 && xv_errno == EINVAL) XV_CANARY("invalid");
}
