//@ tu: libxcm/core/xcm_addr.c
//@ enforce: is_valid_addr
//@ replace: xcm_addr_parse_proto xcm_addr_parse_tcp xcm_addr_parse_btcp xcm_addr_parse_ux xcm_addr_parse_uxf xcm_addr_parse_utls xcm_addr_parse_tls xcm_addr_parse_btls xcm_addr_parse_sctp
//@ pre-unwind: strcmp.0:34
//@ flags: --object-bits 10
//@ props: C12
//@ expect: postcondition>=4 canary=3
#include "_unit.h"
void harness(void)
{
    xv_ghost_havoc();
    xv_parser_ran = nondet_int(); xv_parser_rv = nondet_int(); xv_parser_calls = nondet_int(); xv_proto_sel = nondet_int();
    const char *a; _Bool req = nondet_bool();
    _Bool v = is_valid_addr(a, req);
    if (v && xv_proto_sel == 3) XV_CANARY("valid uxf");
    if (v && xv_proto_sel == 6) XV_CANARY("valid btls");
    if (!v && xv_proto_sel == 8) XV_CANARY("unknown transport");
}
