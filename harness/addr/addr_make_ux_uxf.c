//@ tu: libxcm/core/xcm_addr.c
//@ replay: addr_native.py
//@ enforce: addr_make_ux_uxf
//@ pre-unwind: strlen.0:9
//@ props: C12
//@ expect: postcondition>=2 canary=2
#include "_unit.h"
void harness(void)
{
    xv_ghost_havoc();
    xv_snprintf_calls = nondet_int();
    const char *proto, *name; char *out; size_t cap; int rv = addr_make_ux_uxf(proto, name, out, cap);
    if (rv == 0) XV_CANARY("success");
    if (rv == -1 && xv_errno == ENAMETOOLONG) XV_CANARY("too long");
}
