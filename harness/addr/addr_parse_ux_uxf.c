//@ tu: libxcm/core/xcm_addr.c
//@ replay: addr_native.py
//@ defs: -DXV_ADDR_UX
//@ enforce: addr_parse_ux_uxf
//@ replace: proto_addr_parse
//@ pre-unwind: strcmp.0:34
//@ timeout: 900
//@ props: C12
//@ expect: postcondition>=3 canary=3
#include "prelude.h"
/* strlen/strcmp/strcpy models for THIS job (the strings are the two outputs of the assumed proto_addr_parse, whose exact
 * lengths are ghosts): strlen returns the ghost length after ASSERTING what justifies it - NUL at that offset and no NUL
 * at the arbitrary position xv_j before it; strcmp/strcpy are exact loops over at most 579 bytes (pre-unwound). */
size_t xv_pa_len, xv_pp_len;
size_t xv_strlen(const char *s)
{
    /* the name buffer is the XCM_ADDR_MAX+1 = 579-byte local, the protocol buffer the 33-byte one */
    size_t sz = __CPROVER_OBJECT_SIZE(s);
    __CPROVER_assert(__CPROVER_POINTER_OFFSET(s) == 0 && (sz == 579 || sz == 33), "strlen model: only the two parsed strings are measured");
    size_t n = sz == 579 ? xv_pa_len : xv_pp_len;
    __CPROVER_assert(s[n] == 0, "strlen model: NUL at the ghost length");
    __CPROVER_assert(!(xv_j >= 0 && (size_t)xv_j < n) || s[xv_j] != 0, "strlen model: no NUL before the ghost length (arbitrary position)");
    return n;
}
/* strcpy model: needs room for the ghost length + NUL (an obligation), then the destination is arbitrary except for
 * the NUL and the byte at the arbitrary position xv_j (over-approximation of the exact copy) */
char *xv_strcpy(char *dst, const char *src)
{
    size_t n = xv_strlen(src);
    __CPROVER_assert(__CPROVER_w_ok(dst, n + 1), "strcpy: destination has room for the string and its NUL");
    char keep = (xv_j >= 0 && (size_t)xv_j < n) ? src[xv_j] : 0;
    __CPROVER_havoc_slice(dst, n + 1);
    dst[n] = 0;
    if (xv_j >= 0 && (size_t)xv_j < n) dst[xv_j] = keep;
    return dst;
}
#define strlen(s) xv_strlen(s)
#define strcpy(d, s) xv_strcpy((d), (s))
#include "xcm_addr.c"
#undef strlen
#undef strcpy
#include "env/base.h"
#include "env/libc_fmt.h"
#include "contracts/addr.h"
void harness(void)
{
    xv_ghost_havoc();
    xv_pa_len = nondet_size_t(); xv_pp_len = nondet_size_t();
    const char *proto, *addr; char *name; size_t cap;
    int rv = addr_parse_ux_uxf(proto, addr, name, cap);
    if (rv == 0 && xv_pa_len == UX_NAME_MAX) XV_CANARY("longest name accepted");
    if (rv == -1 && xv_errno == EINVAL && xv_pa_len == UX_NAME_MAX + 1) XV_CANARY("one too long refused");
    if (rv == -1 && xv_errno == ENAMETOOLONG) XV_CANARY("does not fit the buffer");
}
