/* C05, one job per public function that takes a socket (or makes one): the function's contract under -DXC_NB, i.e. with
 * `requires !s->is_blocking` and an assigns clause that does NOT contain xv_blocked (XC_MAY_BLOCK expands to nothing).
 * The poll(2) stub writes xv_blocked iff timeout != 0, so PROVED == the function cannot sleep.  Every callee outside
 * xcm.c, and the blocking helpers of xcm.c (unreachable here), are replaced by their contracts; the API functions a
 * wrapper delegates to (xcm_accept -> xcm_accept_a, typed getters -> attr_get_with_type -> xcm_attr_get ...) are inlined. */
//@ variant: xcm_send FN=xcm_send CALL=xcm_send(s,cbuf,len) OK=rv>=0 ALT=rv==-1&&xv_errno==EAGAIN
//@ variant: xcm_receive FN=xcm_receive CALL=xcm_receive(s,buf,len) OK=rv>=0 ALT=rv==-1&&xv_errno==EAGAIN
//@ variant: xcm_finish FN=xcm_finish CALL=xcm_finish(s) OK=rv==0 ALT=rv==-1&&xv_errno==EAGAIN
//@ variant: xcm_await FN=xcm_await CALL=xcm_await(s,cond) OK=rv==0 ALT=rv==-1&&xv_errno==EINVAL
//@ variant: xcm_fd FN=xcm_fd CALL=xcm_fd(s) OK=rv>=0 ALT=rv==7
//@ variant: xcm_set_blocking FN=xcm_set_blocking CALL=xcm_set_blocking(s,flag) OK=rv==0 ALT=rv==0&&!flag
//@ variant: xcm_is_blocking FN=xcm_is_blocking CALL=xcm_is_blocking(s) OK=rv==0 ALT=1
//@ variant: xcm_close FN=xcm_close CALL=xcm_close(s) OK=rv==0 ALT=rv==0&&xv_closed_sock==xv_sock
//@ variant: xcm_cleanup FN=xcm_cleanup CALL=(xcm_cleanup(s),0) OK=rv==0 ALT=xv_cleaned_sock==xv_sock
//@ variant: xcm_remote_addr FN=xcm_remote_addr CALL=xcm_remote_addr(s) OK=rv!=0 ALT=rv==0
//@ variant: xcm_local_addr FN=xcm_local_addr CALL=xcm_local_addr(s) OK=rv!=0 ALT=rv==0
//@ variant: xcm_attr_set FN=xcm_attr_set CALL=xcm_attr_set(s,name,type,cbuf,len) OK=rv==0 ALT=rv==-1&&xv_errno==EACCES
//@ variant: xcm_attr_set_bool FN=xcm_attr_set_bool CALL=xcm_attr_set_bool(s,name,flag) OK=rv==0 ALT=rv==-1&&xv_errno==EACCES
//@ variant: xcm_attr_set_int64 FN=xcm_attr_set_int64 CALL=xcm_attr_set_int64(s,name,i64) OK=rv==0 ALT=rv==-1&&xv_errno==EACCES
//@ variant: xcm_attr_set_double FN=xcm_attr_set_double CALL=xcm_attr_set_double(s,name,dbl) OK=rv==0 ALT=rv==-1&&xv_errno==EACCES
//@ variant: xcm_attr_get FN=xcm_attr_get CALL=xcm_attr_get(s,name,typep,buf,len) OK=rv>=0 ALT=rv==-1&&xv_errno==EOVERFLOW
//@ variant: xcm_attr_get_bool FN=xcm_attr_get_bool CALL=xcm_attr_get_bool(s,name,boolp) OK=rv==1 ALT=rv==-1&&xv_errno==ENOENT
//@ variant: xcm_attr_get_int64 FN=xcm_attr_get_int64 CALL=xcm_attr_get_int64(s,name,i64p) OK=rv==8 ALT=rv==-1&&xv_errno==ENOENT
//@ variant: xcm_attr_get_double FN=xcm_attr_get_double CALL=xcm_attr_get_double(s,name,dblp) OK=rv==8 ALT=rv==-1&&xv_errno==ENOENT
//@ variant: xcm_attr_get_str FN=xcm_attr_get_str CALL=xcm_attr_get_str(s,name,str,len) OK=rv>=1 ALT=rv==-1&&xv_errno==EOVERFLOW
//@ variant: xcm_attr_get_bin FN=xcm_attr_get_bin CALL=xcm_attr_get_bin(s,name,buf,len) OK=rv>=0 ALT=rv==-1&&xv_errno==ENOENT
//@ variant: xcm_attr_get_list_len FN=xcm_attr_get_list_len CALL=xcm_attr_get_list_len(s,name) OK=rv>=0 ALT=rv==-1
//@ variant: xcm_attr_get_all FN=xcm_attr_get_all CALL=(xcm_attr_get_all(s,cb,buf),0) OK=rv==0 ALT=1
//@ tu: libxcm/core/xcm.c
//@ loops: xcmcore.loops
//@ defs: -DXC_NB -DNB_CALL=$CALL -DNB_OK=$OK -DNB_ALT=$ALT
//@ enforce: $FN
//@ replace: xcm_tp_socket_create xcm_tp_socket_destroy xcm_tp_socket_init xcm_tp_socket_connect xcm_tp_socket_server xcm_tp_socket_accept
//@ replace: xcm_tp_socket_close xcm_tp_socket_cleanup xcm_tp_socket_send xcm_tp_socket_receive xcm_tp_socket_update xcm_tp_socket_finish
//@ replace: xcm_tp_socket_is_bytestream xcm_tp_socket_get_remote_addr xcm_tp_socket_get_local_addr xcm_tp_proto_by_addr
//@ replace: xcm_tp_common_attr_populate xcm_tp_socket_attr_populate xpoll_create xpoll_destroy xpoll_get_fd
//@ replace: attr_tree_create attr_tree_destroy attr_tree_set_value attr_tree_get_value attr_tree_get_list_len attr_tree_get_all
//@ replace: xcm_attr_map_create xcm_attr_map_add_bool xcm_attr_map_destroy xcm_attr_map_exists
//@ replace: socket_wait socket_finish msg_bsend bytestream_bsend set_attrs
//@ props: C05
//@ flags: --object-bits 11
//@ expect: postcondition>=1 canary=3
#include "_unit.h"
void harness(void)
{
    xv_ghost_havoc();
    xv_xcmcore_havoc();
    struct xcm_socket *s; const void *cbuf; void *buf; size_t len; int cond; bool flag; const char *name; const char *addr; int flags;
    enum xcm_attr_type type; enum xcm_attr_type *typep; const struct xcm_attr_map *attrs; bool *boolp; int64_t *i64p; double *dblp;
    char *str; int64_t i64; double dbl; xcm_attr_cb cb;
    _Bool blocked = xv_blocked;
    long rv = (long)(NB_CALL);
    XV_CANARY("returned");
    if (NB_OK) XV_CANARY("the good outcome");
    if (NB_ALT) XV_CANARY("another outcome");
    /* belt and braces: the frame condition, once more as a plain assertion */
    XV_ASSERT(xv_blocked == blocked, "the call did not sleep");
}
