//@ variant: int DEFS=-DXC_LEN_MAX=0x7fffffffUL
//@ variant: huge DEFS=-DXC_HUGE_-DXC_LEN_MIN=0x80000000UL_-DXC_LEN_MAX=0x20000000000UL
//@ tu: libxcm/core/xcm.c
//@ loops: xcmcore.loops
//@ defs: $DEFS
//@ enforce: bytestream_bsend
//@ replace: socket_wait xcm_tp_socket_send
//@ props: C02
//@ expect: postcondition>=5 loop_invariant_base>=2 loop_invariant_step>=5 canary=6
#include "_unit.h"
void harness(void)
{
    xv_ghost_havoc();
    xv_xcmcore_havoc();
    struct xcm_socket *s; const void *buf; size_t len;
    _Bool blocked = xv_blocked; long off = xv_tx_off;
    int rv = bytestream_bsend(s, buf, len);
#ifndef XC_HUGE
    if (rv >= 0 && xv_blocked == blocked) XV_CANARY("everything accepted without waiting");
    if (rv >= 0 && !blocked && xv_blocked && xv_tx_off >= off + 3) XV_CANARY("accepted in pieces, after waiting");
    if (rv == 0) XV_CANARY("empty buffer");
#else   /* more than INT_MAX bytes offered: what the function reports then is what is being decided */
    if (xv_blocked == blocked) XV_CANARY("returns without waiting");
    if (!blocked && xv_blocked && xv_tx_off >= off + 3) XV_CANARY("returns after waiting");
    if (xv_tx_off == off + 0x7fffffffL) XV_CANARY("INT_MAX bytes accepted");
#endif
    if (rv == -1 && xv_poll_failed) XV_CANARY("wait interrupted");
    if (rv == -1 && !xv_poll_failed && xv_conn_dead) XV_CANARY("connection died");
    if (len == XC_LEN_MAX) XV_CANARY("largest length explored");
}
