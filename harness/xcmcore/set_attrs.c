/* C11: set_attrs applies the defaults (xcm.service, unless the map sets it), then every entry of the caller's map, in map
 * order and verbatim, through xcm_attr_set on the new socket; the first refusal ends it (no later write: precondition of
 * xcm_attr_set) and is reported.  set_default_attrs, set_user_attrs, set_attr_cb and xcm_attr_set_str are the REAL code
 * (inlined); xcm_attr_map_foreach is the abstract-map stub of env/xcmcore_env.h (any number of entries, loop contract). */
//@ tu: libxcm/core/xcm.c
//@ loops: xcmcore.loops
//@ defs: -DXC_ENFORCE_SET_ATTRS -DXC_FOREACH_STUB
//@ enforce: set_attrs
//@ replace: xcm_attr_set xcm_attr_map_exists xcm_tp_socket_is_bytestream
//@ pre-unwind: strlen.0:13
//@ props: C11
//@ expect: postcondition>=5 canary=6
#include "_unit.h"
void harness(void)
{
    xv_ghost_havoc();
    xv_xcmcore_havoc();
    struct xcm_socket *s, *parent; const struct xcm_attr_map *attrs;
    int rv = set_attrs(s, parent, attrs);
    if (rv == 0 && xv_set_calls == 0) XV_CANARY("nothing to set: empty map that names the service");
    if (rv == 0 && xv_set_calls == 1 && attrs == NULL) XV_CANARY("no map: default only");
    if (rv == 0 && xv_set_calls == 5 && xv_map_n == 4) XV_CANARY("default and four map entries");
    if (rv == 0 && xv_set_calls == 1000000 && xv_map_n == 1000000) XV_CANARY("a million map entries, service among them");
    if (rv == -1 && xv_set_calls == 1 && xv_map_n == 7 && attrs != NULL) XV_CANARY("default refused (map of 7 never touched)");
    if (rv == -1 && xv_set_calls == 3 && xv_map_n == 7) XV_CANARY("third write refused, four entries never written");
}
