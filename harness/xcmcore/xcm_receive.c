//@ variant: nb DEFS=-DXC_NB
//@ variant: bl DEFS=-DXC_BL
//@ tu: libxcm/core/xcm.c
//@ loops: xcmcore.loops
//@ defs: $DEFS
//@ enforce: xcm_receive
//@ replace: socket_wait xcm_tp_socket_receive
//@ props: C01 C02 C05
//@ expect: postcondition>=6 canary=5
#include "_unit.h"
void harness(void)
{
    xv_ghost_havoc();
    xv_xcmcore_havoc();
    struct xcm_socket *s; void *buf; size_t capacity;
    long del = xv_delivered;
    int rv = xcm_receive(s, buf, capacity);
    if (rv > 0 && xv_delivered == del + 1) XV_CANARY("something delivered");
    if (rv == 0) XV_CANARY("end of stream (or capacity 0)");
    if (rv > 0 && (size_t)rv == capacity && capacity == XC_LEN_MAX) XV_CANARY("largest capacity explored, filled");
    if (rv == -1 && xv_errno == EPIPE) XV_CANARY("failed for good");
#ifdef XC_NB
    if (rv == -1 && xv_errno == EAGAIN) XV_CANARY("nothing there: try again");
#else
    if (rv == -1 && xv_errno == EINTR) XV_CANARY("wait interrupted");
#endif
}
