/* Socket creation in EITHER mode (no -DXC_NB): xcm_connect_a/xcm_connect may sleep only if the attributes leave the new
 * socket blocking (or ask for blocking mode on the way); xcm_server_a/xcm_server never wait at this layer.  C11: init, then
 * the attributes, then connect/server proper (preconditions of the transport contracts); a refused attribute aborts the
 * creation.  (xcm_accept_a in blocking mode is not covered: its `goto restart` loop cannot carry a loop contract.) */
//@ variant: xcm_connect_a FN=xcm_connect_a CALL=xcm_connect_a(addr,attrs) OK=rv!=0&&!blocked&&xv_blocked ALT=rv==0&&xv_attrs_rv==-1
//@ variant: xcm_connect FN=xcm_connect CALL=xcm_connect(addr,flags) OK=rv!=0&&!blocked&&xv_blocked ALT=rv==0&&xv_errno==EINTR
//@ variant: xcm_server_a FN=xcm_server_a CALL=xcm_server_a(addr,attrs) OK=rv!=0 ALT=rv==0&&xv_attrs_rv==-1
//@ variant: xcm_server FN=xcm_server CALL=xcm_server(addr) OK=rv!=0 ALT=rv==0&&xv_errno==EADDRINUSE
//@ tu: libxcm/core/xcm.c
//@ loops: xcmcore.loops
//@ defs: -DNB_CALL=$CALL -DNB_OK=$OK -DNB_ALT=$ALT
//@ enforce: $FN
//@ replace: xcm_tp_socket_create xcm_tp_socket_destroy xcm_tp_socket_init xcm_tp_socket_connect xcm_tp_socket_server xcm_tp_socket_accept
//@ replace: xcm_tp_socket_close xcm_tp_socket_cleanup xcm_tp_socket_send xcm_tp_socket_receive xcm_tp_socket_update xcm_tp_socket_finish
//@ replace: xcm_tp_socket_is_bytestream xcm_tp_socket_get_remote_addr xcm_tp_socket_get_local_addr xcm_tp_proto_by_addr
//@ replace: xcm_tp_common_attr_populate xcm_tp_socket_attr_populate xpoll_create xpoll_destroy xpoll_get_fd
//@ replace: attr_tree_create attr_tree_destroy attr_tree_set_value attr_tree_get_value attr_tree_get_list_len attr_tree_get_all
//@ replace: xcm_attr_map_create xcm_attr_map_add_bool xcm_attr_map_destroy xcm_attr_map_exists
//@ replace: socket_wait socket_finish msg_bsend bytestream_bsend set_attrs
//@ props: C05 C11
//@ flags: --object-bits 11
//@ expect: postcondition>=1 canary=3
#include "_unit.h"
void harness(void)
{
    xv_ghost_havoc();
    xv_xcmcore_havoc();
    struct xcm_socket *s; const void *cbuf; void *buf; size_t len; int cond; bool flag; const char *name; const char *addr; int flags;
    enum xcm_attr_type type; enum xcm_attr_type *typep; const struct xcm_attr_map *attrs; bool *boolp; int64_t *i64p; double *dblp;
    char *str; int64_t i64; double dbl; xcm_attr_cb cb;
    _Bool blocked = xv_blocked;
    long rv = (long)(NB_CALL);
    XV_CANARY("returned");
    if (NB_OK) XV_CANARY("the good outcome");
    if (NB_ALT) XV_CANARY("another outcome");
}
