//@ tu: libxcm/core/xcm.c
//@ loops: xcmcore.loops
//@ enforce: msg_bsend
//@ replace: socket_wait xcm_tp_socket_send
//@ props: C01 C03
//@ expect: postcondition>=4 loop_contract>=2 canary=5
#include "_unit.h"
void harness(void)
{
    xv_ghost_havoc();
    xv_xcmcore_havoc();
    struct xcm_socket *s; const void *buf; size_t len;
    _Bool blocked = xv_blocked;
    int rv = msg_bsend(s, buf, len);
    if (rv == 0 && xv_blocked == blocked) XV_CANARY("accepted at once");
    if (rv == 0 && !blocked && xv_blocked) XV_CANARY("accepted after waiting");
    if (rv == -1 && xv_poll_failed) XV_CANARY("wait interrupted");
    if (rv == -1 && !xv_poll_failed && xv_errno == EMSGSIZE) XV_CANARY("refused for good");
    if (rv == 0 && len == 0x7fffffffUL) XV_CANARY("largest length explored");
}
