/* unit xcmcore: the REAL libxcm/core/xcm.c (scratch copy with the loop contracts of loops/xcmcore.loops spliced in is
 * first on the include path) over contracts for xcm_tp.c / xpoll.c / attr_tree.c / xcm_attr_map.c and a poll(2) stub */
#include "prelude.h"
#include "contracts/xcmcore.h"   /* 1st time: ghost globals only */
#include "xcm.c"
#include "env/base.h"
#include "env/xcmcore_env.h"
#define XC_CONTRACTS
#include "contracts/xcmcore.h"   /* 2nd time: the contracts */
#ifdef XV_CBMC
struct xcm_socket *nondet_sockp(void);
void *nondet_voidp(void);
static inline void xv_xcmcore_havoc(void)
{
    xv_sock = nondet_sockp(); xv_bytestream = nondet_bool();
    xv_accepted = nondet_long(); xv_acc_buf = nondet_voidp(); xv_acc_len = nondet_size_t();
    xv_delivered = nondet_long(); xv_rcv_rv = nondet_int(); xv_rcv_buf = nondet_voidp(); xv_rcv_cap = nondet_size_t();
    xv_conn_dead = nondet_bool(); xv_poll_failed = nondet_bool();
    xv_fin_sock = nondet_sockp(); xv_fin_rv = nondet_int(); xv_fin_errno = nondet_int();
    xv_updated = nondet_bool(); xv_upd_cond = nondet_int(); xv_upd_sock = nondet_sockp();
    xv_closed_sock = nondet_sockp(); xv_cleaned_sock = nondet_sockp(); xv_destroyed_sock = nondet_sockp();
    xv_destroyed_xpoll = (struct xpoll *)nondet_voidp();
    xv_fd_ret = nondet_int();
    xv_attrs_req_block = nondet_bool(); xv_mode_after_attrs = nondet_bool();
    xv_set_calls = nondet_long(); xv_set_failed = nondet_bool(); xv_set_name = nondet_voidp(); xv_set_type = nondet_int();
    xv_set_value = nondet_voidp(); xv_set_len = nondet_size_t(); xv_set_sock = nondet_sockp(); xv_set_rv = nondet_int();
    xv_set_first_name = nondet_voidp();
    xv_get_calls = nondet_long(); xv_get_name = nondet_voidp(); xv_get_value = nondet_voidp(); xv_get_cap = nondet_size_t();
    xv_get_sock = nondet_sockp(); xv_get_rv = nondet_int(); xv_get_errno = nondet_int(); xv_get_type = nondet_int();
    xv_created_sock = nondet_sockp(); xv_inited_sock = nondet_sockp(); xv_connected_sock = nondet_sockp(); xv_accepted_sock = nondet_sockp();
    xv_at_name = nondet_voidp(); xv_at_type = nondet_int(); xv_at_value = nondet_voidp(); xv_at_len = nondet_size_t(); xv_at_sock = nondet_sockp();
    xv_map_n = nondet_long(); xv_map_name = nondet_voidp(); xv_map_type = nondet_int(); xv_map_value = nondet_voidp(); xv_map_len = nondet_size_t();
    xv_map_has_service = nondet_bool();
    xv_attrs_sock = nondet_sockp(); xv_attrs_rv = nondet_int();
    version_logged = nondet_bool();
}
#endif
