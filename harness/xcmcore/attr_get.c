/* C10 at the API layer, for a socket in either mode: every getter hands the attribute tree exactly the caller's buffer and
 * capacity (sizeof(T) for the typed ones, whose buffer object is exactly that big), maps the tree's answer as documented,
 * and reports a length within the capacity. */
//@ variant: xcm_attr_get FN=xcm_attr_get CALL=xcm_attr_get(s,name,typep,buf,len) OK=rv>=0&&len==XC_CAP_MAX ALT=rv==-1&&xv_errno==EOVERFLOW&&len==0
//@ variant: attr_get_with_type FN=attr_get_with_type CALL=attr_get_with_type(s,name,type,buf,len) OK=rv>=0 ALT=rv==-1&&xv_errno==ENOENT&&xv_get_errno==EOVERFLOW
//@ variant: xcm_attr_get_bool FN=xcm_attr_get_bool CALL=xcm_attr_get_bool(s,name,boolp) OK=rv==1 ALT=rv==-1&&xv_errno==ENOENT&&xv_get_rv==1
//@ variant: xcm_attr_get_int64 FN=xcm_attr_get_int64 CALL=xcm_attr_get_int64(s,name,i64p) OK=rv==8 ALT=rv==-1&&xv_errno==ENOENT&&xv_get_errno==EOVERFLOW
//@ variant: xcm_attr_get_double FN=xcm_attr_get_double CALL=xcm_attr_get_double(s,name,dblp) OK=rv==8 ALT=rv==-1&&xv_errno==ENOENT&&xv_get_rv==8
//@ variant: xcm_attr_get_str FN=xcm_attr_get_str CALL=xcm_attr_get_str(s,name,str,len) OK=rv>=1 ALT=rv==-1&&xv_errno==EOVERFLOW
//@ variant: xcm_attr_get_bin FN=xcm_attr_get_bin CALL=xcm_attr_get_bin(s,name,buf,len) OK=rv>=0 ALT=rv==-1&&xv_errno==EOVERFLOW
//@ variant: attr_vgetf_with_type FN=attr_vgetf_with_type CALL=attr_vgetf_with_type(s,type,buf,len,name,ap) OK=rv>=0 ALT=rv==-1&&xv_errno==ENOENT&&xv_get_errno==EOVERFLOW
//@ variant: xcm_attr_getf FN=xcm_attr_getf CALL=xcm_attr_getf(s,typep,buf,len,name,7) OK=rv>=0 ALT=rv==-1&&xv_errno==EOVERFLOW
//@ variant: xcm_attr_getf_bool FN=xcm_attr_getf_bool CALL=xcm_attr_getf_bool(s,boolp,name,7) OK=rv==1 ALT=rv==-1&&xv_errno==ENOENT
//@ variant: xcm_attr_getf_int64 FN=xcm_attr_getf_int64 CALL=xcm_attr_getf_int64(s,i64p,name,7) OK=rv==8 ALT=rv==-1&&xv_errno==ENOENT
//@ variant: xcm_attr_getf_double FN=xcm_attr_getf_double CALL=xcm_attr_getf_double(s,dblp,name,7) OK=rv==8 ALT=rv==-1&&xv_errno==ENOENT
//@ variant: xcm_attr_getf_str FN=xcm_attr_getf_str CALL=xcm_attr_getf_str(s,str,len,name,7) OK=rv>=1 ALT=rv==-1&&xv_get_errno==EOVERFLOW
//@ variant: xcm_attr_getf_bin FN=xcm_attr_getf_bin CALL=xcm_attr_getf_bin(s,buf,len,name,7) OK=rv>=0 ALT=rv==-1&&xv_get_errno==EOVERFLOW
//@ tu: libxcm/core/xcm.c
//@ loops: xcmcore.loops
//@ defs: -DNB_CALL=$CALL -DNB_OK=$OK -DNB_ALT=$ALT
//@ enforce: $FN
//@ replace: xcm_tp_common_attr_populate xcm_tp_socket_attr_populate attr_tree_create attr_tree_destroy attr_tree_get_value ut_vasprintf
//@ props: C10
//@ flags: --object-bits 11
//@ expect: postcondition>=1 canary=3
#include "_unit.h"
void harness(void)
{
    xv_ghost_havoc();
    xv_xcmcore_havoc();
    struct xcm_socket *s; void *buf; size_t len; const char *name; enum xcm_attr_type type; enum xcm_attr_type *typep;
    bool *boolp; int64_t *i64p; double *dblp; char *str; va_list ap;
    long rv = (long)(NB_CALL);
    XV_CANARY("returned");
    if (NB_OK) XV_CANARY("the good outcome");
    if (NB_ALT) XV_CANARY("another outcome");
}
