//@ variant: nb_msg DEFS=-DXC_NB_-DXC_KIND=0
//@ variant: nb_bytestream DEFS=-DXC_NB_-DXC_KIND=1
//@ variant: bl_msg DEFS=-DXC_BL_-DXC_KIND=0
//@ variant: bl_bytestream DEFS=-DXC_BL_-DXC_KIND=1
//@ tu: libxcm/core/xcm.c
//@ loops: xcmcore.loops
//@ defs: $DEFS
//@ enforce: xcm_send
//@ replace: msg_bsend bytestream_bsend socket_finish socket_wait xcm_tp_socket_send xcm_tp_socket_is_bytestream
//@ props: C01 C02 C03 C05
//@ expect: postcondition>=10 canary=5
#include "_unit.h"
void harness(void)
{
    xv_ghost_havoc();
    xv_xcmcore_havoc();
    struct xcm_socket *s; const void *buf; size_t len;
    long acc = xv_accepted, off = xv_tx_off;
    int rv = xcm_send(s, buf, len);
    if (rv == 0 && (xv_accepted == acc + 1 || xv_bytestream)) XV_CANARY("success");
    if (rv == (xv_bytestream ? 5 : 0) && len == 5 && (xv_bytestream ? xv_tx_off == off + 5 : xv_acc_len == 5)) XV_CANARY("five bytes taken");
    if (rv == -1 && xv_errno == EMSGSIZE) XV_CANARY("refused: too large");
#ifdef XC_NB
    if (rv == -1 && xv_errno == EAGAIN) XV_CANARY("refused: try again");
    if (rv == -1 && xv_errno == EINVAL && xv_accepted == acc) XV_CANARY("not a connection socket / empty message");
#else
    if (rv == -1 && xv_errno == EINTR) XV_CANARY("wait interrupted");
    if (rv == -1 && xv_conn_dead && xv_fin_rv == -1 && xv_fin_sock == xv_sock) XV_CANARY("connection died while flushing");
#endif
}
