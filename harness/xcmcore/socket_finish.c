//@ tu: libxcm/core/xcm.c
//@ loops: xcmcore.loops
//@ enforce: socket_finish
//@ replace: socket_wait xcm_tp_socket_finish
//@ props: C03 C05
//@ expect: postcondition>=4 loop_invariant_base>=2 loop_invariant_step>=2 canary=4
#include "_unit.h"
void harness(void)
{
    xv_ghost_havoc();
    xv_xcmcore_havoc();
    struct xcm_socket *s;
    _Bool blocked = xv_blocked;
    int rv = socket_finish(s);
    if (rv == 0 && xv_blocked == blocked) XV_CANARY("finished at once");
    if (rv == 0 && !blocked && xv_blocked) XV_CANARY("finished after waiting");
    if (rv == -1 && xv_poll_failed) XV_CANARY("wait interrupted");
    if (rv == -1 && !xv_poll_failed && xv_conn_dead) XV_CANARY("connection died");
}
