/* The same API functions as in nb.c, for a socket in EITHER mode (no -DXC_NB): the contracts carry conditional frame
 * targets -- xv_blocked is assignable only under the stated condition (xcm_set_blocking: only when a non-blocking socket is
 * asked to become blocking; xcm_attr_set: only when the write asks for blocking mode; xcm_await/xcm_fd/xcm_finish/close/
 * cleanup: never, a blocking socket is refused or nothing waits) -- plus the functional postconditions for both modes. */
//@ variant: xcm_finish FN=xcm_finish CALL=xcm_finish(s) OK=rv==0 ALT=rv==-1&&xv_errno==EINVAL&&xv_fin_sock!=xv_sock
//@ variant: xcm_await FN=xcm_await CALL=xcm_await(s,cond) OK=rv==0 ALT=rv==-1&&xv_errno==EINVAL
//@ variant: xcm_fd FN=xcm_fd CALL=xcm_fd(s) OK=rv>=0 ALT=rv==-1&&xv_errno==EINVAL
//@ variant: xcm_set_blocking FN=xcm_set_blocking CALL=xcm_set_blocking(s,flag) OK=rv==0&&flag&&!blocked&&xv_blocked ALT=rv==-1&&xv_errno==EINTR
//@ variant: xcm_is_blocking FN=xcm_is_blocking CALL=xcm_is_blocking(s) OK=rv==0 ALT=rv==1
//@ variant: xcm_close FN=xcm_close CALL=xcm_close(s) OK=rv==0 ALT=rv==0&&xv_closed_sock==xv_sock
//@ variant: xcm_cleanup FN=xcm_cleanup CALL=(xcm_cleanup(s),0) OK=rv==0 ALT=xv_cleaned_sock==xv_sock
//@ variant: xcm_remote_addr FN=xcm_remote_addr CALL=xcm_remote_addr(s) OK=rv!=0 ALT=rv==0
//@ variant: xcm_attr_set FN=xcm_attr_set CALL=xcm_attr_set(s,name,type,cbuf,len) OK=rv==0 ALT=rv==0&&!blocked&&xv_blocked
//@ tu: libxcm/core/xcm.c
//@ loops: xcmcore.loops
//@ defs: -DNB_CALL=$CALL -DNB_OK=$OK -DNB_ALT=$ALT
//@ enforce: $FN
//@ replace: xcm_tp_socket_create xcm_tp_socket_destroy xcm_tp_socket_init xcm_tp_socket_connect xcm_tp_socket_server xcm_tp_socket_accept
//@ replace: xcm_tp_socket_close xcm_tp_socket_cleanup xcm_tp_socket_send xcm_tp_socket_receive xcm_tp_socket_update xcm_tp_socket_finish
//@ replace: xcm_tp_socket_is_bytestream xcm_tp_socket_get_remote_addr xcm_tp_socket_get_local_addr xcm_tp_proto_by_addr
//@ replace: xcm_tp_common_attr_populate xcm_tp_socket_attr_populate xpoll_create xpoll_destroy xpoll_get_fd
//@ replace: attr_tree_create attr_tree_destroy attr_tree_set_value attr_tree_get_value attr_tree_get_list_len attr_tree_get_all
//@ replace: xcm_attr_map_create xcm_attr_map_add_bool xcm_attr_map_destroy xcm_attr_map_exists
//@ replace: socket_wait socket_finish msg_bsend bytestream_bsend set_attrs
//@ props: C05
//@ flags: --object-bits 11
//@ expect: postcondition>=1 canary=3
#include "_unit.h"
void harness(void)
{
    xv_ghost_havoc();
    xv_xcmcore_havoc();
    struct xcm_socket *s; const void *cbuf; void *buf; size_t len; int cond; bool flag; const char *name; const char *addr; int flags;
    enum xcm_attr_type type; enum xcm_attr_type *typep; const struct xcm_attr_map *attrs; bool *boolp; int64_t *i64p; double *dblp;
    char *str; int64_t i64; double dbl; xcm_attr_cb cb;
    _Bool blocked = xv_blocked;
    long rv = (long)(NB_CALL);
    XV_CANARY("returned");
    if (NB_OK) XV_CANARY("the good outcome");
    if (NB_ALT) XV_CANARY("another outcome");
}
