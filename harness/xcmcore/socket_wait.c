//@ tu: libxcm/core/xcm.c
//@ loops: xcmcore.loops
//@ enforce: socket_wait
//@ replace: xcm_tp_socket_update xpoll_get_fd
//@ props: C05 C03
//@ expect: postcondition>=4 canary=3
#include "_unit.h"
void harness(void)
{
    xv_ghost_havoc();
    xv_xcmcore_havoc();
    struct xcm_socket *s; int condition;
    int rv = socket_wait(s, condition);
    if (rv == 0) XV_CANARY("woken up");
    if (rv == -1 && xv_errno == EINTR) XV_CANARY("interrupted by a signal");
    if (xv_blocked) XV_CANARY("slept");
}
