/* (same template as nb.c, for xcm_attr_set_str: its strlen() is closed by unwinding -- strings up to 11 characters)
 * C05, one job per public function that takes a socket (or makes one): the function's contract under -DXC_NB, i.e. with
 * `requires !s->is_blocking` and an assigns clause that does NOT contain xv_blocked (XC_MAY_BLOCK expands to nothing).
 * The poll(2) stub writes xv_blocked iff timeout != 0, so PROVED == the function cannot sleep.  Every callee outside
 * xcm.c, and the blocking helpers of xcm.c (unreachable here), are replaced by their contracts; the API functions a
 * wrapper delegates to (xcm_accept -> xcm_accept_a, typed getters -> attr_get_with_type -> xcm_attr_get ...) are inlined. */
//@ variant: xcm_attr_set_str FN=xcm_attr_set_str CALL=xcm_attr_set_str(s,name,cstr) OK=rv==0&&xv_set_len==10 ALT=rv==-1&&xv_errno==EINVAL&&xv_set_len==1
//@ tu: libxcm/core/xcm.c
//@ loops: xcmcore.loops
//@ defs: -DXC_NB -DNB_CALL=$CALL -DNB_OK=$OK -DNB_ALT=$ALT
//@ enforce: $FN
//@ replace: xcm_tp_socket_create xcm_tp_socket_destroy xcm_tp_socket_init xcm_tp_socket_connect xcm_tp_socket_server xcm_tp_socket_accept
//@ replace: xcm_tp_socket_close xcm_tp_socket_cleanup xcm_tp_socket_send xcm_tp_socket_receive xcm_tp_socket_update xcm_tp_socket_finish
//@ replace: xcm_tp_socket_is_bytestream xcm_tp_socket_get_remote_addr xcm_tp_socket_get_local_addr xcm_tp_proto_by_addr
//@ replace: xcm_tp_common_attr_populate xcm_tp_socket_attr_populate xpoll_create xpoll_destroy xpoll_get_fd
//@ replace: attr_tree_create attr_tree_destroy attr_tree_set_value attr_tree_get_value attr_tree_get_list_len attr_tree_get_all
//@ replace: xcm_attr_map_create xcm_attr_map_add_bool xcm_attr_map_destroy xcm_attr_map_exists
//@ replace: socket_wait socket_finish msg_bsend bytestream_bsend set_attrs
//@ props: C05
//@ flags: --object-bits 11
//@ pre-unwind: strlen.0:13
//@ expect: postcondition>=1 canary=3
#include "_unit.h"
void harness(void)
{
    xv_ghost_havoc();
    xv_xcmcore_havoc();
    struct xcm_socket *s; const void *cbuf; void *buf; size_t len; int cond; bool flag; const char *name; const char *addr; int flags;
    enum xcm_attr_type type; enum xcm_attr_type *typep; const struct xcm_attr_map *attrs; bool *boolp; int64_t *i64p; double *dblp;
    char *str; const char *cstr; int64_t i64; double dbl; xcm_attr_cb cb;
    _Bool blocked = xv_blocked;
    long rv = (long)(NB_CALL);
    XV_CANARY("returned");
    if (NB_OK) XV_CANARY("the good outcome");
    if (NB_ALT) XV_CANARY("another outcome");
    /* belt and braces: the frame condition, once more as a plain assertion */
    XV_ASSERT(xv_blocked == blocked, "the call did not sleep");
}
