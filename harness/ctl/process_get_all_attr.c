//@ variant: shape TRACK=1
//@ variant: value TRACK=2
//@ variant: name TRACK=3
//@ tu: libxcm/ctl/ctl.c
//@ defs: -DXV_CTL_TRACK=$TRACK
//@ enforce: process_get_all_attr
//@ replace: add_attr
//@ timeout: 1200
//@ props: C14
//@ expect: postcondition>=4 canary=3
#include "_unit.h"
/* the three variants differ in what they state about the xv_ctl_i-th reply entry (type+length | value byte | name bytes),
 * see XV_CTL_TRACK in env/ctl_env.h */
void harness(void)
{
    xv_ghost_havoc();
    xv_ctl_ghost_havoc();
    struct xcm_socket *socket; struct ctl_proto_msg *response;
    process_get_all_attr(socket, response);
    if (xv_ctl_all_n == 0) XV_CANARY("socket without reportable attribute");
    if (xv_ctl_all_n == 64) XV_CANARY("exactly as many attributes as the reply holds");
    if (xv_ctl_all_n == 65 && xv_ctl_i == 63) XV_CANARY("one attribute more than the reply holds");
}
