//@ tu: libxcm/ctl/ctl.c
//@ enforce: ctl_destroy
//@ replace: remove_client
//@ pre-unwind: ctl_destroy.0:3
//@ defs: -DXV_CTL_TRACK=0
//@ props: C14 C08
//@ safety: C14
//@ expect: postcondition>=6 canary=4
#include "_unit.h"
/* the while-loop removes one session per round (remove_client's contract: num_clients decreases by one) and there are at most
 * two: bound 3 with unwinding assertion, complete */
void harness(void)
{
    xv_ghost_havoc();
    xv_ctl_ghost_havoc();
    xv_ctl_g_foreign = nondet_bool(); xv_ctl_g_fev = nondet_int();
    struct ctl *ctl; bool owner;
    unsigned long u0 = xv_ctl_unlink_calls, c0 = xv_ctl_close_calls;
    ctl_destroy(ctl, owner);
    if (xv_ctl_close_calls == c0) XV_CANARY("NULL: nothing to do");
    if (xv_ctl_unlink_calls != u0 && xv_ctl_close_calls == c0 + 3) XV_CANARY("owner, two sessions: closed and unlinked");
    if (owner && xv_ctl_close_calls != c0 && xv_ctl_unlink_calls == u0) XV_CANARY("owner, getsockname failed: file stays");
    if (!owner && xv_ctl_close_calls == c0 + 1) XV_CANARY("not owner, no session");
}
