//@ tu: libxcm/ctl/ctl.c
//@ enforce: process_get_attr
//@ replace: xcm_attr_get
//@ pre-unwind: strcmp.0:9
//@ props: C14
//@ expect: postcondition>=5 canary=3
#include "_unit.h"
void harness(void)
{
    xv_ghost_havoc();
    xv_ctl_ghost_havoc();
    struct xcm_socket *socket; struct ctl_proto_get_attr_req *req; struct ctl_proto_msg *response;
    process_get_attr(socket, req, response);
    if (xv_ctl_get_rv == 512) XV_CANARY("in-process value fills the field");
    if (xv_ctl_get_rv == 0) XV_CANARY("empty value");
    if (xv_ctl_get_rv == -1 && xv_ctl_get_errno == ENOENT) XV_CANARY("in-process ENOENT");
}
