//@ tu: libxcm/ctl/ctl.c
//@ enforce: client_send
//@ props: C14
//@ expect: postcondition>=3 canary=3
#include "_unit.h"
void harness(void)
{
    xv_ghost_havoc();
    xv_ctl_ghost_havoc();
    xv_ctl_g_foreign = nondet_bool(); xv_ctl_g_fev = nondet_int();
    struct client *client = NULL;   /* (not left uninitialised: symex would add a 38 KB "unknown object" of type struct client to its points-to set; pointer_in_range in the contract assigns it) */
    struct ctl *ctl;
    int rv = client_send(client, ctl);
    if (rv == 0 && xv_ctl_send_rc >= 0) XV_CANARY("reply sent");
    if (rv == 0 && xv_ctl_send_rc < 0) XV_CANARY("EAGAIN: reply stays pending");
    if (rv == -1) XV_CANARY("send failed");
}
