//@ tu: libxcm/ctl/ctl.c
//@ enforce: accept_client
//@ props: C14 C05
//@ expect: postcondition>=2 canary=3
#include "_unit.h"
void harness(void)
{
    xv_ghost_havoc();
    xv_ctl_ghost_havoc();
    xv_ctl_g_foreign = nondet_bool(); xv_ctl_g_fev = nondet_int();
    struct ctl *ctl;
    unsigned long e0 = xv_ctl_ep_ops;
    accept_client(ctl);
    if (!xv_ctl_readable) XV_CANARY("no connection waiting");
    if (xv_ctl_readable && xv_ctl_accept_rc < 0) XV_CANARY("accept failed");
    if (xv_ctl_readable && xv_ctl_accept_rc >= 0 && xv_ctl_ep_ops == e0 + 2) XV_CANARY("second session accepted, listening descriptor muted");
}
