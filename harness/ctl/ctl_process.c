//@ tu: libxcm/ctl/ctl.c
//@ enforce-rec: ctl_process
//@ replace: process_client remove_client accept_client
//@ pre-unwind: ctl_process.0:3
//@ defs: -DXV_CTL_TRACK=0
//@ flags: --object-bits 10
//@ props: C14
//@ expect: postcondition>=3 canary=3
#include "_unit.h"
void harness(void)
{
    xv_ghost_havoc();
    xv_ctl_ghost_havoc();
    xv_ctl_g_foreign = nondet_bool(); xv_ctl_g_fev = nondet_int();
    struct ctl *ctl;
    unsigned long c0 = xv_ctl_close_calls, r0 = xv_ctl_readable_calls;
    ctl_process(ctl);
    if (xv_ctl_close_calls == c0 && xv_ctl_readable_calls == r0) XV_CANARY("two busy sessions, nobody accepted");
    if (xv_ctl_close_calls == c0 && xv_ctl_readable_calls != r0) XV_CANARY("room in the table: listening descriptor polled");
    if (xv_ctl_close_calls != c0) XV_CANARY("a session was dropped");
}
