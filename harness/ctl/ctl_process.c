//@ tu: libxcm/ctl/ctl.c
//@ enforce-rec: ctl_process
//@ replace: process_client remove_client accept_client
//@ pre-unwind: ctl_process.0:3
//@ defs: -DXV_CTL_TRACK=0
//@ flags: --object-bits 10
//@ timeout: 1800
//@ props: C14
//@ expect: postcondition>=3 canary=3
#include "_unit.h"
/* ctl_process is self-recursive: enforce-rec proves the contract assuming it for the inner call (partial correctness; the
 * depth is at most num_clients + 1 since every level removes a session before it recurses and accepts only at its end).
 * Its for-loop cannot carry a loop contract (goto-instrument crashes on loop contract + recursion); it is unwound before
 * the instrumentation: i < num_clients <= MAX_CLIENTS == 2 holds after every callee (CTL_INV), so it runs at most two
 * times -- bound 3 with unwinding assertion, complete. */
void harness(void)
{
    xv_ghost_havoc();
    xv_ctl_ghost_havoc();
    xv_ctl_g_foreign = nondet_bool(); xv_ctl_g_fev = nondet_int();
    struct ctl *ctl;
    unsigned long c0 = xv_ctl_close_calls, r0 = xv_ctl_readable_calls;
    ctl_process(ctl);
    if (xv_ctl_close_calls == c0 && xv_ctl_readable_calls == r0) XV_CANARY("two busy sessions, nobody accepted");
    if (xv_ctl_close_calls == c0 && xv_ctl_readable_calls != r0) XV_CANARY("room in the table: listening descriptor polled");
    if (xv_ctl_close_calls != c0) XV_CANARY("a session was dropped");
}
