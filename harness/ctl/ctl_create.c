//@ tu: libxcm/ctl/ctl.c
//@ enforce: ctl_create
//@ props: C14
//@ expect: postcondition>=3 canary=3
#include "_unit.h"
void harness(void)
{
    xv_ghost_havoc();
    xv_ctl_ghost_havoc();
    xv_ctl_g_foreign = nondet_bool(); xv_ctl_g_fev = nondet_int();
    struct xcm_socket *socket;
    unsigned long f0 = xv_ctl_fds_made, c0 = xv_ctl_close_calls;
    struct ctl *ctl = ctl_create(socket);
    if (ctl != NULL) XV_CANARY("created");
    if (ctl == NULL && xv_ctl_fds_made == f0) XV_CANARY("failed before a descriptor was opened");
    if (ctl == NULL && xv_ctl_fds_made != f0 && xv_ctl_close_calls != c0) XV_CANARY("failed after socket(): descriptor closed");
}
