//@ tu: libxcm/ctl/ctl.c
//@ enforce: add_attr
//@ pre-unwind: strcmp.0:9
//@ timeout: 1200
//@ props: C14
//@ expect: postcondition>=2 canary=6
#include "_unit.h"
/* strcmp.0: is_sensitive() compares with the 8-byte literal "tls.key": at most 8 rounds.  strcpy/memcpy are the loop-free
 * models of env/ctl_env.h.  xv_ctl_g_len0/_namelen/_len (arbitrary after xv_ctl_ghost_havoc) are bound to attrs_len,
 * strlen(attr_name), len by the contract. */
void harness(void)
{
    xv_ghost_havoc();
    xv_ctl_ghost_havoc();
    const char *name; enum xcm_attr_type type; void *value; size_t len; void *data;
    add_attr(name, type, value, len, data);
    if (xv_ctl_g_len0 < 63 && xv_ctl_g_namelen == 63 && xv_ctl_g_len == 512) XV_CANARY("largest reportable attribute");
    if (xv_ctl_g_len == 513) XV_CANARY("value one byte too long");
    if (xv_ctl_g_namelen == 64) XV_CANARY("name one character too long");
    if (xv_ctl_g_namelen == 7 && xv_ctl_g_len == 0) XV_CANARY("seven-character name, empty value");
    if (xv_ctl_g_len0 == 63) XV_CANARY("64th attribute: last free entry");
    if (xv_ctl_g_len0 == 64) XV_CANARY("table full: attribute left out");
}
