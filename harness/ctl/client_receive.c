//@ variant: slot0 SLOT=0
//@ variant: slot1 SLOT=1
//@ tu: libxcm/ctl/ctl.c
//@ enforce: client_receive
//@ replace: process_get_attr process_get_all_attr
//@ defs: -DXV_CTL_SLOT=$SLOT -DXV_CTL_TRACK=0
//@ props: C14
//@ expect: postcondition>=8 canary=8
#include "_unit.h"
/* two variants = complete case split over the session slot (MAX_CLIENTS == 2): -DXV_CTL_SLOT=n narrows CTL_SESSION of
 * contracts/ctl.h from "client is slot 0 or slot 1" to "client is slot n", which makes every offset into struct ctl constant */
void harness(void)
{
    xv_ghost_havoc();
    xv_ctl_ghost_havoc();
    xv_ctl_g_foreign = nondet_bool(); xv_ctl_g_fev = nondet_int();
    static char dummy[8];
    struct client *client = (struct client *)dummy;   /* any valid address (pointer_equals in the contract re-assigns it); left uninitialised,
        symex adds a 38 KB "unknown object" of type struct client to the points-to set of every access through it */
    struct ctl *ctl;
    int rv = client_receive(client, ctl);
    if (rv == 0 && !xv_ctl_readable) XV_CANARY("nothing to read");
    if (rv == 0 && xv_ctl_readable && xv_ctl_recv_rc == -1) XV_CANARY("EAGAIN");
    if (rv == -1 && xv_ctl_recv_rc == 0) XV_CANARY("client disconnected");
    if (rv == -1 && xv_ctl_recv_rc == (long)sizeof(struct ctl_proto_msg) - 1) XV_CANARY("request one byte short");
    if (rv == -1 && xv_ctl_recv_rc == 3) XV_CANARY("request shorter than its type field");
    if (rv == -1 && xv_ctl_recv_rc == (long)sizeof(struct ctl_proto_msg)) XV_CANARY("unknown request type");
    if (rv == 0 && xv_ctl_recv_rc == (long)sizeof(struct ctl_proto_msg) && xv_ctl_req_type == ctl_proto_type_get_attr_req && xv_ctl_req_key) XV_CANARY("get tls.key");
    if (rv == 0 && xv_ctl_recv_rc == (long)sizeof(struct ctl_proto_msg) && xv_ctl_req_type == ctl_proto_type_get_all_attr_req) XV_CANARY("get-all");
}
