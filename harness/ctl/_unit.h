/* common part of every ctl-unit harness: prelude, the REAL libxcm/ctl/ctl.c, environment stubs, contracts.
 * env/base.h is deliberately NOT included (see env/ctl_env.h: allocation and copy models with non-constant sizes) */
#include "prelude.h"
#include "ctl.c"
#include "env/ctl_env.h"
#include "contracts/ctl.h"
