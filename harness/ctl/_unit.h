/* common part of every ctl-unit harness: prelude, the REAL libxcm/ctl/ctl.c, environment stubs, contracts */
#include "prelude.h"
#include "ctl.c"
#include "env/base.h"
#include "env/ctl_env.h"
#include "contracts/ctl.h"
