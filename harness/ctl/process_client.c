//@ variant: slot0 SLOT=0
//@ variant: slot1 SLOT=1
//@ tu: libxcm/ctl/ctl.c
//@ enforce: process_client
//@ replace: client_send client_receive
//@ defs: -DXV_CTL_SLOT=$SLOT -DXV_CTL_TRACK=0
//@ props: C14
//@ expect: postcondition>=2 canary=2
#include "_unit.h"
/* two variants = complete case split over the session slot (MAX_CLIENTS == 2): -DXV_CTL_SLOT=n narrows CTL_SESSION of
 * contracts/ctl.h from "client is slot 0 or slot 1" to "client is slot n", which makes every offset into struct ctl constant */
void harness(void)
{
    xv_ghost_havoc();
    xv_ctl_ghost_havoc();
    xv_ctl_g_foreign = nondet_bool(); xv_ctl_g_fev = nondet_int();
    static char dummy[8];
    struct client *client = (struct client *)dummy;   /* any valid address (pointer_equals in the contract re-assigns it); left uninitialised,
        symex adds a 38 KB "unknown object" of type struct client to the points-to set of every access through it */
    struct ctl *ctl;
    unsigned long s0 = xv_ctl_send_calls;
    int rv = process_client(client, ctl);
    if (xv_ctl_send_calls != s0) XV_CANARY("reply pending: sent");
    if (xv_ctl_send_calls == s0 && rv == -1) XV_CANARY("no reply pending: received, session to be dropped");
}
