//@ tu: libxcm/ctl/ctl.c
//@ enforce: process_client
//@ replace: client_send client_receive
//@ props: C14
//@ expect: postcondition>=2 canary=2
#include "_unit.h"
void harness(void)
{
    xv_ghost_havoc();
    xv_ctl_ghost_havoc();
    xv_ctl_g_foreign = nondet_bool(); xv_ctl_g_fev = nondet_int();
    struct client *client = NULL;   /* (not left uninitialised: symex would add a 38 KB "unknown object" of type struct client to its points-to set; pointer_in_range in the contract assigns it) */
    struct ctl *ctl;
    long s0 = xv_ctl_send_calls;
    int rv = process_client(client, ctl);
    if (xv_ctl_send_calls != s0) XV_CANARY("reply pending: sent");
    if (xv_ctl_send_calls == s0 && rv == -1) XV_CANARY("no reply pending: received, session to be dropped");
}
