//@ tu: libxcm/ctl/ctl.c
//@ enforce: process_get_all_attr
//@ replace: add_attr
//@ props: C14
//@ defs: -DXV_DBG_LEVEL=2
//@ timeout: 900
//@ expect: postcondition>=4 canary=3
#include "_unit.h"
void harness(void)
{
    xv_ghost_havoc();
    xv_ctl_ghost_havoc();
    struct xcm_socket *socket; struct ctl_proto_msg *response;
    process_get_all_attr(socket, response);
    if (xv_ctl_all_n == 0) XV_CANARY("socket without reportable attribute");
    if (xv_ctl_all_n == 64) XV_CANARY("exactly as many attributes as the reply holds");
    if (xv_ctl_all_n == 65 && xv_ctl_i == 63) XV_CANARY("one attribute more than the reply holds");
}
