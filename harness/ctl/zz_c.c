//@ tu: libxcm/ctl/ctl.c
//@ enforce: add_attr
//@ pre-unwind: strcmp.0:9 strcpy.0:10
//@ defs: -DXV_CTL_NAME_OBJ=9_-DXV_CTL_LEN_MAX=16
//@ props: C14
//@ timeout: 120
//@ flags: --no-array-field-sensitivity
#include "_unit.h"
void harness(void)
{
    xv_ghost_havoc();
    xv_ghost_havoc();
    xv_ctl_g_len0 = 5; xv_ctl_g_namelen = nondet_size_t(); xv_ctl_g_len = nondet_size_t();
    const char *name; enum xcm_attr_type type; void *value; size_t len; void *data;
    add_attr(name, type, value, len, data);
}
