//@ variant: first IDX=0
//@ variant: second IDX=1
//@ tu: libxcm/ctl/ctl.c
//@ defs: -DXV_IDX=$IDX
//@ enforce: remove_client
//@ props: C14
//@ expect: postcondition>=3 canary=2
#include "_unit.h"
/* the precondition admits client_idx 0 and 1 only (0 <= client_idx < num_clients <= MAX_CLIENTS == 2): the two variants are
 * a complete case split; passing the index as a constant keeps every offset into the 76 KB struct ctl constant */
void harness(void)
{
    xv_ghost_havoc();
    xv_ctl_ghost_havoc();
    xv_ctl_g_foreign = nondet_bool(); xv_ctl_g_fev = nondet_int();
    struct ctl *ctl;
    unsigned long e0 = xv_ctl_ep_ops;
    remove_client(ctl, XV_IDX);
#if XV_IDX == 0
    if (xv_ctl_ep_ops == e0 + 1) XV_CANARY("table was not full: registration deleted only");
#else
    if (xv_ctl_closed_fd == 0) XV_CANARY("second session was on descriptor 0");
#endif
    if (xv_ctl_ep_ops == e0 + 2) XV_CANARY("table was full: listening descriptor re-armed");
}
