//@ tu: libxcm/ctl/ctl.c
//@ enforce: remove_client
//@ props: C14
//@ expect: postcondition>=3 canary=3
#include "_unit.h"
void harness(void)
{
    xv_ghost_havoc();
    xv_ctl_ghost_havoc();
    xv_ctl_g_foreign = nondet_bool(); xv_ctl_g_fev = nondet_int();
    xv_ctl_g_fd = nondet_int(); xv_ctl_g_reg = nondet_int(); xv_ctl_g_ofd = nondet_int(); xv_ctl_g_oreg = nondet_int();
    xv_ctl_g_opend = nondet_bool(); xv_ctl_g_oj = nondet_uchar();
    struct ctl *ctl; int idx;
    long e0 = xv_ctl_ep_ops;
    remove_client(ctl, idx);
    if (xv_ctl_ep_ops == e0 + 1) XV_CANARY("table was not full: registration deleted only");
    if (xv_ctl_ep_ops == e0 + 2 && xv_ctl_g_opend) XV_CANARY("table was full: listening descriptor re-armed, other session has a reply pending");
    if (xv_ctl_ep_ops == e0 + 2 && !xv_ctl_g_opend) XV_CANARY("table was full, other session idle");
}
