//@ variant: btcp_to_tcp F=btcp_to_tcp
//@ variant: tcp_to_btcp F=tcp_to_btcp
//@ variant: btcp_to_btls F=btcp_to_btls
//@ variant: btls_to_btcp F=btls_to_btcp
//@ variant: btls_to_tls F=btls_to_tls
//@ variant: tls_to_btls F=tls_to_btls
//@ variant: utls_to_tls F=utls_to_tls
//@ variant: tls_to_utls F=tls_to_utls
//@ tu: libxcm/tp/common/common_tp.c
//@ defs: -DXA_FN=$F
//@ enforce: $F
//@ replace: xcm_addr_parse_tcp xcm_addr_parse_btcp xcm_addr_parse_tls xcm_addr_parse_btls xcm_addr_parse_utls xcm_addr_make_tcp xcm_addr_make_btcp xcm_addr_make_tls xcm_addr_make_btls xcm_addr_make_utls
//@ props: C12
//@ expect: postcondition>=2 canary=3
#include "_unit.h"
void harness(void)
{
    xv_ghost_havoc();
    xa_parse_calls = nondet_int(); xa_make_calls = nondet_int(); xa_hb = nondet_long(); xa_parse_which = nondet_int(); xa_make_which = nondet_int(); xa_parse_rv = nondet_int(); xa_make_rv = nondet_int();
    const char *in; char *out; size_t cap;
    int rv = XA_FN(in, out, cap);
    if (rv == 0) XV_CANARY("converted");
    if (rv == -1 && xa_parse_rv == -1) XV_CANARY("input refused by the parser");
    if (rv == -1 && xa_parse_rv == 0) XV_CANARY("does not fit the output buffer");
}
