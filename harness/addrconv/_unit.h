#include "prelude.h"
#include "common_tp.c"
#include "env/base.h"
#include "contracts/addrconv.h"
