//@ tu: libxcm/tp/common/xcm_tp.c
//@ enforce: xcm_tp_socket_connect
//@ replace: xv_init_stub xv_connect_stub xv_server_stub xv_close_stub xv_cleanup_stub xv_accept_stub xv_send_stub xv_receive_stub xv_update_stub xv_finish_stub xv_enable_ctl_stub xv_priv_size_stub ctl_process ctl_create ctl_destroy get_next_sock_id
//@ flags: --object-bits 10
//@ props: C04 C14 C08
//@ expect: postcondition>=7 canary=8
#include "_unit.h"
void harness(void)
{
    xv_ghost_havoc();
    xv_tpcore_havoc();
    struct xcm_socket *s; const char *addr;
    long q0 = xv_seq, u0 = xv_upd_calls, p0 = xv_ctlp_calls, c0 = xv_ctlc_calls, e0 = xv_en_calls, l0 = xv_ctl_live;
    int rv = xcm_tp_socket_connect(s, addr);
    if (rv == 0 && xv_upd_calls == u0 + 1 && xv_upd_seq == xv_seq && xv_op_seq < xv_upd_seq) XV_CANARY("success, auto_update: update is the last call");
    if (rv == 0 && xv_upd_calls == u0) XV_CANARY("success, no auto_update (sub-socket): no update");
    if (rv == -1 && xv_errno == ECONNREFUSED && xv_upd_calls == u0 && xv_seq == xv_op_seq) XV_CANARY("failure: errno is the transport's, nothing follows");
    if (rv == -1 && xv_errno == EAGAIN) XV_CANARY("failure with EAGAIN is a failure too");
    if (xv_ctlp_calls == p0 + 1 && xv_ctlp_seq < xv_op_seq) XV_CANARY("existing control interface polled before the operation");
    if (rv == 0 && xv_ctlc_calls == c0 + 1 && xv_ctl_live == l0 + 1 && xv_upd_calls == u0 + 1 && xv_ctlc_seq < xv_upd_seq) XV_CANARY("control interface created, then update");
    if (rv == 0 && xv_en_calls == e0 + 1) XV_CANARY("transport's own enable_ctl used");
    if (rv == 0 && xv_seq == q0 + 1) XV_CANARY("success, nothing automatic");
}
