//@ tu: libxcm/tp/common/xcm_tp.c
//@ enforce: xcm_tp_socket_accept
//@ replace: xv_init_stub xv_connect_stub xv_server_stub xv_close_stub xv_cleanup_stub xv_accept_stub xv_send_stub xv_receive_stub xv_update_stub xv_finish_stub xv_enable_ctl_stub xv_priv_size_stub ctl_process ctl_create ctl_destroy get_next_sock_id
//@ flags: --object-bits 10
//@ props: C04 C14 C08
//@ expect: postcondition>=7 canary=9
#include "_unit.h"
void harness(void)
{
    xv_ghost_havoc();
    xv_tpcore_havoc();
    struct xcm_socket *conn_s, *server_s;
    long q0 = xv_seq, u0 = xv_upd_calls, t0 = xv_updt_calls, p0 = xv_ctlp_calls, c0 = xv_ctlc_calls, l0 = xv_ctl_live;
    int rv = xcm_tp_socket_accept(conn_s, server_s);
    if (rv == 0 && xv_upd_calls == u0 + 2) XV_CANARY("accepted: connection updated, then server");
    if (rv == 0 && xv_upd_calls == u0 + 1) XV_CANARY("accepted, connection without auto_update: server updated");
    if (rv == -1 && xv_errno == EAGAIN && xv_upd_calls == u0 + 1 && xv_upd_seq == xv_seq) XV_CANARY("nothing pending (EAGAIN): server still updated, errno intact");
    if (rv == -1 && xv_errno == EMFILE && xv_upd_calls == u0 + 1 && xv_ctlp_calls == p0) XV_CANARY("hard failure: server updated, ctl not polled");
    if (rv == -1 && xv_errno == EAGAIN && xv_ctlp_calls == p0 + 1 && xv_ctlp_seq == xv_seq - 1) XV_CANARY("EAGAIN, poll due: server ctl processed between accept and update");
    if (rv == 0 && xv_ctlp_calls == p0 + 1) XV_CANARY("accepted, poll due");
    if (rv == 0 && xv_ctlc_calls == c0 + 1 && xv_ctl_live == l0 + 1) XV_CANARY("accepted: control interface of the new connection created");
    if (xv_t == xv_op_a1 && xv_updt_calls == t0 + 1 && xv_updt_seq == xv_seq && xv_upd_calls == u0 + 2) XV_CANARY("tracked socket is the server");
    if (xv_t == xv_op_s && xv_updt_calls == t0 + 1 && xv_updt_seq < xv_seq) XV_CANARY("tracked socket is the new connection");
}
