//@ tu: libxcm/tp/common/xcm_tp.c
//@ enforce: xcm_tp_socket_accept
//@ replace: xv_init_stub xv_connect_stub xv_server_stub xv_close_stub xv_cleanup_stub xv_accept_stub xv_send_stub xv_receive_stub xv_update_stub xv_finish_stub xv_enable_ctl_stub xv_priv_size_stub ctl_process ctl_create ctl_destroy get_next_sock_id
//@ flags: --object-bits 10
//@ props: C04 C14 C08
//@ expect: postcondition>=7 canary=10
#include "_unit.h"
void harness(void)
{
    xv_ghost_havoc();
    xv_tpcore_havoc();
    struct xcm_socket *conn_s, *server_s;
    int rv = xcm_tp_socket_accept(conn_s, server_s);
    (void)rv;
    /* xv_g_auto_upd, xv_g_auto_ctl, xv_g_own_en: the new connection; xv_g_ctl, xv_g_skipped: the server */
    if (xv_op_rv == 0 && xv_g_auto_upd && xv_g_auto_ctl) XV_CANARY("accepted, everything automatic");
    if (xv_op_rv == 0 && !xv_g_auto_upd && !xv_g_auto_ctl) XV_CANARY("accepted, nothing automatic (sub-socket)");
    if (xv_op_rv == -1 && xv_op_errno == EAGAIN && !xv_g_ctl) XV_CANARY("nothing pending (EAGAIN), server without ctl");
    if (xv_op_rv == -1 && xv_op_errno == EMFILE && xv_g_ctl && xv_g_skipped == 256) XV_CANARY("hard failure, server ctl poll would be due");
    if (xv_op_rv == -1 && xv_op_errno == EAGAIN && xv_g_ctl && xv_g_skipped == 193) XV_CANARY("EAGAIN, server ctl poll due");
    if (xv_op_rv == -1 && xv_op_errno == EAGAIN && xv_g_ctl && xv_g_skipped == 192) XV_CANARY("EAGAIN, server ctl poll not yet due");
    if (xv_op_rv == 0 && xv_g_ctl && xv_g_skipped == 256 && xv_g_auto_upd && xv_g_auto_ctl) XV_CANARY("accepted, server ctl poll due, everything automatic: five calls follow");
    if (xv_t == xv_op_a1) XV_CANARY("tracked socket is the server");
    if (xv_t == xv_op_s && xv_op_rv == 0 && xv_g_auto_upd) XV_CANARY("tracked socket is the new connection");
    if (xv_t != xv_op_s && xv_t != xv_op_a1) XV_CANARY("tracked socket is a third one");
}
