//@ tu: libxcm/tp/common/xcm_tp.c
//@ enforce: xcm_tp_socket_init
//@ replace: xv_init_stub xv_connect_stub xv_server_stub xv_close_stub xv_cleanup_stub xv_accept_stub xv_send_stub xv_receive_stub xv_update_stub xv_finish_stub xv_enable_ctl_stub xv_priv_size_stub ctl_process ctl_create ctl_destroy get_next_sock_id
//@ props: C08
//@ expect: postcondition>=1 canary=2
#include "_unit.h"
void harness(void)
{
    xv_ghost_havoc();
    xv_tpcore_havoc();
    struct xcm_socket *s, *parent;
    int rv = xcm_tp_socket_init(s, parent);
    (void)rv;
    if (xv_op_rv == 0) XV_CANARY("initialised");
    if (xv_op_rv == -1 && xv_op_errno == ENOMEM) XV_CANARY("transport's failure and errno reported");
}
