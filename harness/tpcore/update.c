//@ tu: libxcm/tp/common/xcm_tp.c
//@ enforce: xcm_tp_socket_update
//@ replace: xv_init_stub xv_connect_stub xv_server_stub xv_close_stub xv_cleanup_stub xv_accept_stub xv_send_stub xv_receive_stub xv_update_stub xv_finish_stub xv_enable_ctl_stub xv_priv_size_stub ctl_process ctl_create ctl_destroy get_next_sock_id
//@ props: C04
//@ expect: postcondition>=2 canary=1
#include "_unit.h"
void harness(void)
{
    xv_ghost_havoc();
    xv_tpcore_havoc();
    struct xcm_socket *s;
    xcm_tp_socket_update(s);
    XV_CANARY("returns");
}
