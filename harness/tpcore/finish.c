//@ tu: libxcm/tp/common/xcm_tp.c
//@ enforce: xcm_tp_socket_finish
//@ replace: xv_init_stub xv_connect_stub xv_server_stub xv_close_stub xv_cleanup_stub xv_accept_stub xv_send_stub xv_receive_stub xv_update_stub xv_finish_stub xv_enable_ctl_stub xv_priv_size_stub ctl_process ctl_create ctl_destroy get_next_sock_id
//@ flags: --object-bits 10
//@ props: C04 C14
//@ expect: postcondition>=5 canary=7
#include "_unit.h"
void harness(void)
{
    xv_ghost_havoc();
    xv_tpcore_havoc();
    struct xcm_socket *s; 
    long q0 = xv_seq, u0 = xv_upd_calls, t0 = xv_updt_calls, p0 = xv_ctlp_calls;
    int rv = xcm_tp_socket_finish(s);
    if (rv >= 0 && xv_upd_calls == u0 + 1 && xv_upd_seq == xv_seq && xv_op_seq < xv_upd_seq) XV_CANARY("success, auto_update: update is the last call");
    if (rv == -1 && xv_errno == EAGAIN && xv_upd_calls == u0 + 1 && xv_upd_seq == xv_seq) XV_CANARY("EAGAIN, auto_update: updated all the same, errno intact");
    if (rv == -1 && xv_errno == EPIPE && xv_upd_calls == u0 + 1 && xv_ctlp_calls == p0) XV_CANARY("hard failure, auto_update: updated, ctl not polled");
    if (xv_upd_calls == u0 && xv_seq == q0 + 1) XV_CANARY("no auto_update (sub-socket): the operation only");
    if (rv == -1 && xv_errno == EAGAIN && xv_ctlp_calls == p0 + 1 && xv_seq == q0 + 3) XV_CANARY("EAGAIN, poll due: op, ctl_process, update; errno intact");
    if (rv > 0 && xv_ctlp_calls == p0 + 1 && xv_seq == q0 + 2) XV_CANARY("progress, poll due, no auto_update");
    if (xv_updt_calls == t0 + 1) XV_CANARY("tracked socket updated");
    
}
