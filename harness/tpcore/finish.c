//@ tu: libxcm/tp/common/xcm_tp.c
//@ enforce: xcm_tp_socket_finish
//@ replace: xv_init_stub xv_connect_stub xv_server_stub xv_close_stub xv_cleanup_stub xv_accept_stub xv_send_stub xv_receive_stub xv_update_stub xv_finish_stub xv_enable_ctl_stub xv_priv_size_stub ctl_process ctl_create ctl_destroy get_next_sock_id
//@ flags: --object-bits 10
//@ props: C04 C14
//@ expect: postcondition>=5 canary=11
#include "_unit.h"
void harness(void)
{
    xv_ghost_havoc();
    xv_tpcore_havoc();
    struct xcm_socket *s; 
    int rv = xcm_tp_socket_finish(s);
    (void)rv;
    if (xv_op_rv > 0 && xv_g_auto_upd) XV_CANARY("progress, auto_update");
    if (xv_op_rv == -1 && xv_op_errno == EAGAIN && xv_g_auto_upd && !xv_g_ctl) XV_CANARY("EAGAIN, auto_update, no ctl");
    if (xv_op_rv == -1 && xv_op_errno == EPIPE && xv_g_auto_upd && xv_g_ctl && xv_g_skipped == 256) XV_CANARY("hard failure, auto_update, ctl poll would be due");
    if (!xv_g_auto_upd && !xv_g_ctl) XV_CANARY("no auto_update, no ctl (sub-socket)");
    if (xv_op_rv == -1 && xv_op_errno == EAGAIN && xv_g_auto_upd && xv_g_ctl && xv_g_skipped == 193) XV_CANARY("EAGAIN, ctl poll due, auto_update: three calls");
    if (xv_op_rv == -1 && xv_op_errno == EAGAIN && xv_g_ctl && xv_g_skipped == 192) XV_CANARY("EAGAIN, ctl poll not yet due");
    if (xv_op_rv > 0 && xv_g_ctl && xv_g_skipped == 256 && !xv_g_auto_upd) XV_CANARY("progress, ctl poll due, no auto_update");
    if (xv_op_rv > 0 && xv_g_ctl && xv_g_skipped == 255) XV_CANARY("progress, ctl poll not yet due");
    if (xv_t == xv_op_s && xv_g_auto_upd) XV_CANARY("tracked socket is this one");
    if (xv_t != xv_op_s && xv_g_auto_upd) XV_CANARY("tracked socket is another one");
    if (xv_op_rv == 0 && xv_g_ctl && xv_g_skipped == 256) XV_CANARY("finished, ctl poll due");
}
