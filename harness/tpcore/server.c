//@ tu: libxcm/tp/common/xcm_tp.c
//@ enforce: xcm_tp_socket_server
//@ replace: xv_init_stub xv_connect_stub xv_server_stub xv_close_stub xv_cleanup_stub xv_accept_stub xv_send_stub xv_receive_stub xv_update_stub xv_finish_stub xv_enable_ctl_stub xv_priv_size_stub ctl_process ctl_create ctl_destroy get_next_sock_id
//@ flags: --object-bits 10
//@ props: C04 C14 C08
//@ expect: postcondition>=7 canary=8
#include "_unit.h"
void harness(void)
{
    xv_ghost_havoc();
    xv_tpcore_havoc();
    struct xcm_socket *s; const char *addr;
    int rv = xcm_tp_socket_server(s, addr);
    (void)rv;
    if (xv_op_rv == 0 && xv_g_auto_upd && xv_g_auto_ctl && !xv_g_own_en) XV_CANARY("success, everything automatic (top-level socket)");
    if (xv_op_rv == 0 && xv_g_auto_upd && xv_g_auto_ctl && xv_g_own_en) XV_CANARY("success, transport with its own enable_ctl");
    if (xv_op_rv == 0 && !xv_g_auto_upd && !xv_g_auto_ctl) XV_CANARY("success, nothing automatic (sub-socket)");
    if (xv_op_rv == 0 && xv_g_auto_upd && !xv_g_auto_ctl) XV_CANARY("success, auto_update only");
    if (xv_op_rv == -1 && xv_op_errno == ECONNREFUSED && xv_g_auto_upd && xv_g_auto_ctl) XV_CANARY("failure, top-level socket");
    if (xv_op_rv == -1 && xv_op_errno == EAGAIN) XV_CANARY("failure with EAGAIN");
    if (xv_g_ctl && !xv_g_auto_ctl) XV_CANARY("control interface already there");
    if (xv_op_rv == 0 && xv_g_auto_ctl && !xv_g_own_en && xv_ctlc_ret == NULL) XV_CANARY("success, ctl_create fails silently");
}
