//@ tu: libxcm/tp/common/xcm_tp.c
//@ enforce: xcm_tp_socket_close
//@ replace: xv_init_stub xv_connect_stub xv_server_stub xv_close_stub xv_cleanup_stub xv_accept_stub xv_send_stub xv_receive_stub xv_update_stub xv_finish_stub xv_enable_ctl_stub xv_priv_size_stub ctl_process ctl_create ctl_destroy get_next_sock_id
//@ props: C08 C14
//@ expect: postcondition>=3 canary=3
#include "_unit.h"
void harness(void)
{
    xv_ghost_havoc();
    xv_tpcore_havoc();
    struct xcm_socket *s;
    long q0 = xv_seq;
    xcm_tp_socket_close(s);
    if (xv_seq == q0) XV_CANARY("NULL: nothing");
    if (xv_seq != q0 && xv_g_ctl) XV_CANARY("socket with control interface");
    if (xv_seq != q0 && !xv_g_ctl) XV_CANARY("socket without control interface");
}
