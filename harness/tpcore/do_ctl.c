//@ tu: libxcm/tp/common/xcm_tp.c
//@ enforce: do_ctl
//@ replace: xv_init_stub xv_connect_stub xv_server_stub xv_close_stub xv_cleanup_stub xv_accept_stub xv_send_stub xv_receive_stub xv_update_stub xv_finish_stub xv_enable_ctl_stub xv_priv_size_stub ctl_process ctl_create ctl_destroy get_next_sock_id
//@ props: C14
//@ expect: postcondition>=3 canary=2
#include "_unit.h"
void harness(void)
{
    xv_ghost_havoc();
    xv_tpcore_havoc();
    struct xcm_socket *s;
    do_ctl(s);
    if (!xv_g_ctl) XV_CANARY("no control interface");
    if (xv_g_ctl && xv_errno == EAGAIN) XV_CANARY("control interface, errno EAGAIN pending");
}
