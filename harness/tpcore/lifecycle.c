/* The life of one socket object as libxcm/core/xcm.c drives it (xcm_connect_a / xcm_server_a / xcm_close / xcm_cleanup,
 * xcm.c:189-283): create ; init ; [attribute failure: close] ; connect|server ; [traffic] ; close|cleanup ; destroy --
 * with destroy WITHOUT close after a failed init or a failed connect/server (xcm_tp.h:64-70).  The REAL wrappers run
 * back to back on the object xcm_tp_socket_create returned (no contract of this unit is assumed for them); only the
 * transport, libxcm/ctl and the id allocator are the stubs of contracts/tpcore.h.
 * Decides: every control interface that came into being is destroyed again on every path (xv_ctl_live back to its
 * entry value), as owner on close, not as owner on cleanup; the socket object is the only heap object and is freed on
 * every path (--memory-leak-check); nothing is used after free (pointer checks). */
//@ tu: libxcm/tp/common/xcm_tp.c
//@ replace: xv_init_stub xv_connect_stub xv_server_stub xv_close_stub xv_cleanup_stub xv_accept_stub xv_send_stub xv_receive_stub xv_update_stub xv_finish_stub xv_enable_ctl_stub xv_priv_size_stub ctl_process ctl_create ctl_destroy get_next_sock_id
//@ flags: --object-bits 10 --memory-leak-check
//@ props: C08 C14
//@ safety: C08
//@ expect: assertion>=8 memory-leak>=1 canary=8
#include "_unit.h"
void harness(void)
{
    xv_ghost_havoc();
    xv_tpcore_havoc();
    __CPROVER_assume(XV_TP_RANGE_IN);
    struct xcm_tp_ops ops = xv_all_stubs;
    if (nondet_bool()) ops.enable_ctl = NULL;           /* every transport but utls */
    struct xcm_tp_proto proto; proto.ops = &ops;
    enum xcm_socket_type type = nondet_bool() ? xcm_socket_type_conn : xcm_socket_type_server;
    bool auto_ctl = nondet_bool(), auto_upd = nondet_bool(), blocking = nondet_bool(), attrs_fail = nondet_bool(), child = nondet_bool();
    const char *addr = nondet_voidp(); const void *buf = nondet_voidp(); size_t len = nondet_size_t();
    long live0 = xv_ctl_live, d0 = xv_ctld_calls, c0 = xv_ctlc_calls, e0 = xv_en_calls;

    struct xcm_socket *s = xcm_tp_socket_create(&proto, type, NULL, auto_ctl, auto_upd, blocking);
    /* the private area is not touched by any code of this unit after the calloc (job create covers every size up to
     * XV_PRIV_MAX); a heap object of symbolic size up to 16 MiB carried through eight calls costs > 10 min */
    __CPROVER_assume(xv_ps_ret <= 64);
    /* PO[C08,C14] lifecycle.new_socket_has_no_ctl */
    __CPROVER_assert(s->ctl == NULL && s->skipped_ctl_calls == 0 && xv_ctl_live == live0, "PO lifecycle.new_socket_has_no_ctl");
    if (xcm_tp_socket_init(s, NULL) < 0) {
        xcm_tp_socket_destroy(s);
        /* PO[C08] lifecycle.failed_init_leaves_nothing */
        __CPROVER_assert(xv_ctl_live == live0 && xv_ctlc_calls == c0 && xv_en_calls == e0, "PO lifecycle.failed_init_leaves_nothing");
        XV_CANARY("init failed: destroyed without close");
        return;
    }
    if (attrs_fail) {
        xcm_tp_socket_close(s);
        xcm_tp_socket_destroy(s);
        /* PO[C08] lifecycle.close_before_connect_leaves_nothing */
        __CPROVER_assert(xv_ctl_live == live0 && xv_ctld_calls == d0 + 1 && xv_ctld_arg == NULL, "PO lifecycle.close_before_connect_leaves_nothing");
        XV_CANARY("attribute failure: closed before connect");
        return;
    }
    int rc = type == xcm_socket_type_conn ? xcm_tp_socket_connect(s, addr) : xcm_tp_socket_server(s, addr);
    if (rc < 0) {
        xcm_tp_socket_destroy(s);
        /* PO[C08] lifecycle.failed_connect_leaves_no_ctl: destroy without close is enough (no control interface was created) */
        __CPROVER_assert(xv_ctl_live == live0 && xv_ctlc_calls == c0 && xv_en_calls == e0 && xv_ctld_calls == d0, "PO lifecycle.failed_connect_leaves_no_ctl");
        XV_CANARY("connect/server failed: destroyed without close");
        return;
    }
    if (rc == 0 && xv_ctl_live == live0 + 1) XV_CANARY("control interface is up");
    if (type == xcm_socket_type_conn) {
        (void)xcm_tp_socket_finish(s);
        (void)xcm_tp_socket_send(s, buf, len);
    }
    if (child) {
        xcm_tp_socket_cleanup(s);
        /* PO[C08] lifecycle.cleanup_is_not_owner */
        __CPROVER_assert(xv_ctld_calls == d0 + 1 && !xv_ctld_owner && xv_op_kind == XV_OP_CLEANUP, "PO lifecycle.cleanup_is_not_owner");
        if (xv_ctld_arg != NULL) XV_CANARY("forked child: control interface dropped, not as owner");
    } else {
        xcm_tp_socket_close(s);
        /* PO[C08,C14] lifecycle.close_is_owner */
        __CPROVER_assert(xv_ctld_calls == d0 + 1 && xv_ctld_owner && xv_op_kind == XV_OP_CLOSE, "PO lifecycle.close_is_owner");
        if (xv_ctld_arg != NULL) XV_CANARY("closed: control interface destroyed as owner");
    }
    xcm_tp_socket_destroy(s);
    /* PO[C08,C14] lifecycle.every_ctl_destroyed: what connect/server brought up, close/cleanup took down */
    __CPROVER_assert(xv_ctl_live == live0, "PO lifecycle.every_ctl_destroyed");
    if (xv_ctlc_calls == c0 + 1 && xv_ctlc_ret == NULL) XV_CANARY("ctl_create failed silently: nothing to destroy");
    if (xv_en_calls == e0 + 1) XV_CANARY("transport's own enable_ctl");
}
