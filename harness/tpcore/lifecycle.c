/* The life of one socket object as libxcm/core/xcm.c drives it (xcm_connect_a / xcm_server_a / xcm_close / xcm_cleanup,
 * xcm.c:189-283): create ; init ; [attribute failure: close] ; connect|server ; [traffic] ; close|cleanup ; destroy --
 * with destroy WITHOUT close after a failed init or a failed connect/server (xcm_tp.h:64-70).  The REAL wrappers run
 * back to back on the object xcm_tp_socket_create returned (no contract of this unit is assumed for them); only the
 * transport, libxcm/ctl and the id allocator are the stubs of contracts/tpcore.h.  The driver xv_life below is harness
 * code (it stands for xcm.c, which unit xcmcore verifies against contracts of these wrappers); it carries a contract
 * only because DFCC needs a function to enforce.
 * Decides: every control interface that came into being is destroyed again on every path (xv_ctl_live back to its
 * entry value), as owner on close, not as owner on cleanup; no wrapper touches the socket after it was handed to
 * destroy (pointer checks).  The socket comes from create's CONTRACT (proved in job
 * create; heap balance of create;destroy: job create_destroy) because CBMC cannot carry the calloc'ed object through
 * wrappers that store a nondeterministic ctl pointer in it (> 14 GB).  Address and buffer arguments are NULL: the wrappers
 * only pass them on (jobs connect/server/send, any pointer), and the stubs' pointer-typed argument record cannot take
 * two different values on one path (see contracts/tpcore.h, note at xv_upd_calls). */
//@ tu: libxcm/tp/common/xcm_tp.c
//@ enforce: xv_life
//@ replace: xv_init_stub xv_connect_stub xv_server_stub xv_close_stub xv_cleanup_stub xv_accept_stub xv_send_stub xv_receive_stub xv_update_stub xv_finish_stub xv_enable_ctl_stub xv_priv_size_stub ctl_process ctl_create ctl_destroy get_next_sock_id xcm_tp_socket_create
//@ flags: --object-bits 10
//@ props: C08 C14
//@ safety: C08
//@ expect: postcondition>=1 assertion>=6 canary=8
#include "_unit.h"
#define LIFE_ASSIGNS OP_ASSIGNS, xv_upd_calls, xv_upd_seq, xv_updt_calls, xv_updt_seq, EN_ASSIGNS, CTLP_ASSIGNS, CTLC_ASSIGNS, CTLD_ASSIGNS, xv_ctl_live, \
                     xv_ps_calls, xv_ps_arg, xv_ps_ret, xv_id_calls, xv_id_ret
/* returns: 1 init failed, 2 closed before connect, 3 connect/server failed, 4 lived and was cleaned up in a forked child, 5 lived and was closed */
static int xv_life(const struct xcm_tp_proto *proto, enum xcm_socket_type type, bool auto_ctl, bool auto_upd, bool blocking,
                   bool attrs_fail, bool child, size_t len)
__CPROVER_requires(PROTO_REQ(proto) && XV_TP_RANGE_IN && xv_j >= 0)
__CPROVER_assigns(LIFE_ASSIGNS)
/* PO[C08,C14] lifecycle.every_ctl_destroyed: on every path, what connect/server brought up, close/cleanup took down */
__CPROVER_ensures(xv_ctl_live == __CPROVER_old(xv_ctl_live) && __CPROVER_return_value >= 1 && __CPROVER_return_value <= 5)
{
    long live0 = xv_ctl_live, d0 = xv_ctld_calls, c0 = xv_ctlc_calls, e0 = xv_en_calls;
    struct xcm_socket *s = xcm_tp_socket_create(proto, type, NULL, auto_ctl, auto_upd, blocking);
    /* PO[C08,C14] lifecycle.new_socket_has_no_ctl */
    __CPROVER_assert(s->ctl == NULL && s->skipped_ctl_calls == 0 && xv_ctl_live == live0, "PO lifecycle.new_socket_has_no_ctl");
    if (xcm_tp_socket_init(s, NULL) < 0) {
        xcm_tp_socket_destroy(s);
        /* PO[C08] lifecycle.failed_init_leaves_nothing */
        __CPROVER_assert(xv_ctl_live == live0 && xv_ctlc_calls == c0 && xv_en_calls == e0, "PO lifecycle.failed_init_leaves_nothing");
        return 1;
    }
    if (attrs_fail) {
        xcm_tp_socket_close(s);
        xcm_tp_socket_destroy(s);
        /* PO[C08] lifecycle.close_before_connect_leaves_nothing */
        __CPROVER_assert(xv_ctl_live == live0 && xv_ctld_calls == d0 + 1 && xv_ctld_arg == NULL, "PO lifecycle.close_before_connect_leaves_nothing");
        return 2;
    }
    int rc = type == xcm_socket_type_conn ? xcm_tp_socket_connect(s, NULL) : xcm_tp_socket_server(s, NULL);
    if (rc < 0) {
        xcm_tp_socket_destroy(s);
        /* PO[C08] lifecycle.failed_connect_leaves_no_ctl: destroy without close is enough (no control interface was created) */
        __CPROVER_assert(xv_ctl_live == live0 && xv_ctlc_calls == c0 && xv_en_calls == e0 && xv_ctld_calls == d0, "PO lifecycle.failed_connect_leaves_no_ctl");
        return 3;
    }
    if (type == xcm_socket_type_conn) {
        (void)xcm_tp_socket_finish(s);
        (void)xcm_tp_socket_send(s, NULL, len);
    }
    const struct ctl *ctl = s->ctl;      /* the control interface connect/server left (NULL: none) */
    if (child) {
        xcm_tp_socket_cleanup(s);
        /* PO[C08] lifecycle.cleanup_is_not_owner */
        __CPROVER_assert(xv_ctld_calls == d0 + 1 && xv_ctld_arg == ctl && !xv_ctld_owner && xv_op_kind == XV_OP_CLEANUP, "PO lifecycle.cleanup_is_not_owner");
    } else {
        xcm_tp_socket_close(s);
        /* PO[C08,C14] lifecycle.close_is_owner */
        __CPROVER_assert(xv_ctld_calls == d0 + 1 && xv_ctld_arg == ctl && xv_ctld_owner && xv_op_kind == XV_OP_CLOSE, "PO lifecycle.close_is_owner");
    }
    xcm_tp_socket_destroy(s);
    return child ? 4 : 5;
}
void harness(void)
{
    xv_ghost_havoc();
    xv_tpcore_havoc();
    const struct xcm_tp_proto *proto; enum xcm_socket_type type; bool auto_ctl, auto_upd, blocking, attrs_fail, child;
    size_t len;
    long live0 = xv_ctl_live, c0 = xv_ctlc_calls, e0 = xv_en_calls, d0 = xv_ctld_calls;
    int rv = xv_life(proto, type, auto_ctl, auto_upd, blocking, attrs_fail, child, len);
    if (rv == 1) XV_CANARY("init failed: destroyed without close");
    if (rv == 2) XV_CANARY("attribute failure: closed before connect");
    if (rv == 3) XV_CANARY("connect/server failed: destroyed without close");
    if (rv == 4 && xv_ctlc_calls == c0 + 1 && xv_ctlc_ret != NULL) XV_CANARY("forked child, control interface was up");
    if (rv == 5 && xv_ctlc_calls == c0 + 1 && xv_ctlc_ret != NULL) XV_CANARY("closed, control interface was up");
    if (rv == 5 && xv_ctlc_calls == c0 + 1 && xv_ctlc_ret == NULL) XV_CANARY("ctl_create failed silently: nothing to destroy");
    if (rv == 5 && xv_en_calls == e0 + 1) XV_CANARY("transport's own enable_ctl");
    if (rv == 5 && xv_ctlc_calls == c0 && xv_en_calls == e0) XV_CANARY("no control interface wanted");
}
