/* xcm_tp_socket_create ; xcm_tp_socket_destroy back to back (REAL bodies, nothing of this unit assumed) under CBMC's
 * --memory-leak-check: whatever create allocated -- for every private-area size 0..XV_PRIV_MAX -- destroy gave back, and
 * (jobs create/destroy) that is one object, freed once.  The driver xv_create_destroy is harness code; it carries a
 * contract only because DFCC needs a function to enforce.  (The longer life of a socket is job lifecycle; there the
 * socket comes from create's CONTRACT: carrying the calloc'ed object, a byte array for CBMC, through wrappers that store
 * a nondeterministic ctl pointer in it exhausts 14 GB.) */
//@ tu: libxcm/tp/common/xcm_tp.c
//@ enforce: xv_create_destroy
//@ replace: xv_init_stub xv_connect_stub xv_server_stub xv_close_stub xv_cleanup_stub xv_accept_stub xv_send_stub xv_receive_stub xv_update_stub xv_finish_stub xv_enable_ctl_stub xv_priv_size_stub ctl_process ctl_create ctl_destroy get_next_sock_id
//@ flags: --object-bits 10 --memory-leak-check
//@ props: C08
//@ expect: postcondition>=1 memory-leak>=1 canary=2
#include "_unit.h"
static size_t xv_create_destroy(const struct xcm_tp_proto *proto, enum xcm_socket_type type, struct xpoll *xpoll, bool auto_ctl, bool auto_upd, bool blocking)
__CPROVER_requires(PROTO_REQ(proto) && XV_TP_RANGE_IN)
__CPROVER_assigns(xv_seq, xv_ps_calls, xv_ps_arg, xv_ps_ret, xv_id_calls, xv_id_ret)
/* PO[C08] create_destroy.pairing: one priv_size query is the only call that leaves xcm_tp.c; no control interface involved */
__CPROVER_ensures(xv_seq == __CPROVER_old(xv_seq) + 1 && XV_INC(xv_ps_calls) && XV_SAME(xv_ctl_live) && __CPROVER_return_value == xv_ps_ret)
{
    struct xcm_socket *s = xcm_tp_socket_create(proto, type, xpoll, auto_ctl, auto_upd, blocking);
    xcm_tp_socket_destroy(s);
    return xv_ps_ret;
}
void harness(void)
{
    xv_ghost_havoc();
    xv_tpcore_havoc();
    const struct xcm_tp_proto *proto; enum xcm_socket_type type; struct xpoll *xpoll; bool a, b, c;
    size_t n = xv_create_destroy(proto, type, xpoll, a, b, c);
    if (n == 0) XV_CANARY("no private area");
    if (n == XV_PRIV_MAX) XV_CANARY("largest private area");
}
