/* unit tpcore: the REAL libxcm/tp/common/xcm_tp.c (transport-operation wrappers) over contract-carrying stubs for the
 * ops table of the transport, for libxcm/ctl and for get_next_sock_id (contracts/tpcore.h) */
#include "prelude.h"
#include "xcm_tp.c"
#include "env/base.h"
#include "contracts/tpcore.h"
#ifdef XV_CBMC
void *nondet_voidp(void);
/* the stubs every job lists under `replace:` (their address is taken here: the only candidates for the ops members) */
const struct xcm_tp_ops xv_all_stubs = {
    .init = xv_init_stub, .connect = xv_connect_stub, .server = xv_server_stub, .close = xv_close_stub, .cleanup = xv_cleanup_stub,
    .accept = xv_accept_stub, .send = xv_send_stub, .receive = xv_receive_stub, .update = xv_update_stub, .finish = xv_finish_stub,
    .enable_ctl = xv_enable_ctl_stub, .priv_size = xv_priv_size_stub
};
static inline void xv_tpcore_havoc(void)
{
    xv_seq = nondet_long();
    xv_op_calls = nondet_long(); xv_op_kind = nondet_int(); xv_op_seq = nondet_long(); xv_op_s = nondet_voidp(); xv_op_a1 = nondet_voidp();
    xv_op_a2 = nondet_size_t(); xv_op_rv = nondet_int(); xv_op_errno = nondet_int();
    xv_upd_calls = nondet_long(); xv_upd_seq = nondet_long();
    xv_t = nondet_voidp(); xv_updt_calls = nondet_long(); xv_updt_seq = nondet_long();
    xv_en_calls = nondet_long(); xv_en_seq = nondet_long(); xv_en_s = nondet_voidp();
    xv_ps_calls = nondet_long(); xv_ps_arg = nondet_int(); xv_ps_ret = nondet_size_t();
    xv_ctlp_calls = nondet_long(); xv_ctlp_seq = nondet_long(); xv_ctlp_arg = nondet_voidp();
    xv_ctlc_calls = nondet_long(); xv_ctlc_seq = nondet_long(); xv_ctlc_sock = nondet_voidp(); xv_ctlc_ret = nondet_voidp();
    xv_ctld_calls = nondet_long(); xv_ctld_seq = nondet_long(); xv_ctld_arg = nondet_voidp(); xv_ctld_owner = nondet_bool();
    xv_ctl_live = nondet_long();
    xv_id_calls = nondet_long(); xv_id_ret = nondet_long();
    xv_g_ctl = nondet_bool(); xv_g_auto_upd = nondet_bool(); xv_g_auto_ctl = nondet_bool(); xv_g_own_en = nondet_bool(); xv_g_skipped = nondet_size_t();
}
#endif
