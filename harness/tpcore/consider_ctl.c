//@ tu: libxcm/tp/common/xcm_tp.c
//@ enforce: consider_ctl
//@ replace: xv_init_stub xv_connect_stub xv_server_stub xv_close_stub xv_cleanup_stub xv_accept_stub xv_send_stub xv_receive_stub xv_update_stub xv_finish_stub xv_enable_ctl_stub xv_priv_size_stub ctl_process ctl_create ctl_destroy get_next_sock_id
//@ props: C14
//@ expect: postcondition>=4 canary=6
#include "_unit.h"
void harness(void)
{
    xv_ghost_havoc();
    xv_tpcore_havoc();
    struct xcm_socket *s; bool perm, temp;
    long c0 = xv_ctlp_calls, q0 = xv_seq;
    consider_ctl(s, perm, temp);
    if (xv_ctlp_calls == c0 && perm) XV_CANARY("permanent failure: never polled");
    if (xv_ctlp_calls == c0 && !perm && !temp) XV_CANARY("progress, poll not yet due");
    if (xv_ctlp_calls == c0 + 1 && !perm && !temp) XV_CANARY("progress, 257th call: polled");
    if (xv_ctlp_calls == c0 && !perm && temp) XV_CANARY("EAGAIN, poll not yet due");
    if (xv_ctlp_calls == c0 + 1 && !perm && temp && xv_seq == q0 + 1) XV_CANARY("EAGAIN, 5th wake-up at the latest: polled");
    if (xv_seq == q0 && !perm) XV_CANARY("no control interface or not due");
}
