//@ tu: libxcm/tp/common/xcm_tp.c
//@ enforce: consider_ctl
//@ replace: xv_init_stub xv_connect_stub xv_server_stub xv_close_stub xv_cleanup_stub xv_accept_stub xv_send_stub xv_receive_stub xv_update_stub xv_finish_stub xv_enable_ctl_stub xv_priv_size_stub ctl_process ctl_create ctl_destroy get_next_sock_id
//@ props: C14
//@ expect: postcondition>=4 canary=8
#include "_unit.h"
void harness(void)
{
    xv_ghost_havoc();
    xv_tpcore_havoc();
    struct xcm_socket *s; bool perm, temp;
    consider_ctl(s, perm, temp);
    if (!xv_g_ctl) XV_CANARY("no control interface");
    if (xv_g_ctl && perm) XV_CANARY("permanent failure");
    if (xv_g_ctl && !perm && !temp && xv_g_skipped == 0) XV_CANARY("progress, counter 0");
    if (xv_g_ctl && !perm && !temp && xv_g_skipped == 255) XV_CANARY("progress, counter 255: 256 skipped, not yet due");
    if (xv_g_ctl && !perm && !temp && xv_g_skipped == 256) XV_CANARY("progress, counter 256: due");
    if (xv_g_ctl && !perm && temp && xv_g_skipped == 192) XV_CANARY("EAGAIN, counter 192: 4th wake-up, not yet due");
    if (xv_g_ctl && !perm && temp && xv_g_skipped == 193) XV_CANARY("EAGAIN, counter 193: due");
    if (xv_g_ctl && !perm && temp && xv_g_skipped == 256) XV_CANARY("EAGAIN, counter 256: due");
}
