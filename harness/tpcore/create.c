//@ tu: libxcm/tp/common/xcm_tp.c
//@ enforce: xcm_tp_socket_create
//@ replace: xv_init_stub xv_connect_stub xv_server_stub xv_close_stub xv_cleanup_stub xv_accept_stub xv_send_stub xv_receive_stub xv_update_stub xv_finish_stub xv_enable_ctl_stub xv_priv_size_stub ctl_process ctl_create ctl_destroy get_next_sock_id
//@ props: C08 C14
//@ expect: postcondition>=4 canary=3
#include "_unit.h"
void harness(void)
{
    xv_ghost_havoc();
    xv_tpcore_havoc();
    const struct xcm_tp_proto *proto; enum xcm_socket_type type; struct xpoll *xpoll; bool ctl, upd, blk;
    struct xcm_socket *s = xcm_tp_socket_create(proto, type, xpoll, ctl, upd, blk);
    if (s != NULL && xv_ps_ret == 0) XV_CANARY("transport without private area");
    if (s != NULL && xv_ps_ret == XV_PRIV_MAX) XV_CANARY("largest private area");
    if (s != NULL && xv_ps_ret == 1) XV_CANARY("one private byte");
}
