//@ tu: libxcm/core/attr_tree.c libxcm/core/attr_node.c libxcm/core/attr_path.c
//@ enforce: attr_node_value_set
//@ replace: xv_atr_setter xv_atr_getter
//@ props: C10
//@ expect: postcondition>=2 canary=2
#include "_unit.h"
/* the setter registered with a value node is called through its function pointer: once, with the registered socket and
 * context and exactly the caller's value/len */
void harness(void)
{
    xv_ghost_havoc(); ATR_GHOST_HAVOC();
    const struct attr_node *n; const void *value; size_t len;
    int rv = attr_node_value_set(n, value, len);
    if (rv == 0) XV_CANARY("setter succeeded");
    if (rv == -1 && xv_errno == EINVAL) XV_CANARY("setter failed");
}
