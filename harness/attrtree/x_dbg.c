//@ tu: libxcm/core/attr_tree.c libxcm/core/attr_node.c libxcm/core/attr_path.c
//@ nondfcc: 1
//@ bounded: debug
//@ flags: --unwind 9 --memory-leak-check --object-bits 10
//@ props: C10
//@ timeout: 900
#include "_tree.h"
void harness(void)
{
    xv_ghost_havoc(); ATR_GHOST_HAVOC();
    struct attr_tree *tree = tb_build();
    const char *q = "a";
    int who = tb_resolve(q);
    XV_ASSERT(who == 0, "who");
    size_t cap = 8;
    uint8_t *buf = malloc(cap);
    __CPROVER_assume(buf != NULL);
    enum xcm_attr_type t = 0;
    int rv = attr_tree_get_value(tree, q, &t, buf, cap, NULL);
    XV_ASSERT(tb_bad_ctx == 0, "badctx");
    XV_ASSERT(tb_get_total <= 1 , "total");
    XV_ASSERT(tb_get_total == (tb_has_get[who] ? 1 : 0), "reach1");
    XV_ASSERT(tb_get_calls[who] == tb_get_total, "reach2");
    XV_ASSERT(rv != -1 || errno != ENOENT, "not enoent");
    free(buf);
    attr_tree_destroy(tree);
}
