//@ tu: libxcm/core/attr_tree.c libxcm/core/attr_node.c libxcm/core/attr_path.c
//@ nondfcc: 1
//@ bounded: debug
//@ flags: --unwind 9 --object-bits 10 --no-propagation
//@ props: C10
//@ timeout: 900
#include "_tree.h"
void harness(void)
{
    xv_ghost_havoc(); ATR_GHOST_HAVOC();
    struct attr_tree *tree = attr_tree_create();
    XV_ASSERT(tree->root != NULL && tree->root->type == attr_node_type_dict, "root dict");
    XV_ASSERT(TAILQ_FIRST(&tree->root->dict) == NULL, "empty");
    XV_ASSERT(tree->root->dict.tqh_last == &tree->root->dict.tqh_first, "last0");
    struct attr_node *v = attr_node_value(NULL, NULL, xcm_attr_type_bool, NULL, tb_getter);
    XV_ASSERT(v->type == attr_node_type_value, "v type");
    attr_node_dict_add_key(tree->root, "a", v);
    XV_ASSERT(tree->root->dict.tqh_last != &tree->root->dict.tqh_first, "last1");
    XV_ASSERT(tree->root->type == attr_node_type_dict, "still dict");
    struct attr_node_dict_elem *e0 = TAILQ_FIRST(&tree->root->dict);
    XV_ASSERT(e0 != NULL, "e0");
    XV_ASSERT(e0 != NULL && e0->key[0] == 'a', "k0");
    XV_ASSERT(e0 != NULL && e0->node == v, "n0");
    attr_tree_add_value_node(tree, "x", NULL, NULL, xcm_attr_type_bool, NULL, tb_getter);
    XV_ASSERT(attr_node_dict_size(tree->root) == 2, "size2");
}
