/* harness/attrtree/_tree.h -- common part of the BOUNDED plain-CBMC jobs tree_*: a tree of five value nodes
 *      "a"      root dictionary key                     node 0
 *      "b.c"    key of a dictionary below the root      node 1
 *      "b.d"                                            node 2
 *      "l[0]"   element of a list below the root        node 3
 *      "l[1]"                                           node 4
 * The nodes are made by the REAL attr_tree_create / attr_node_value / attr_node_dict / attr_node_list; the TAILQ links
 * between them are written here MEMBER BY MEMBER (tb_link_*), i.e. the state TAILQ_INSERT_TAIL leaves behind, instead of
 * calling attr_tree_add_value_node: CBMC 6.11 loses a store made through a pointer to a member of a union
 * (`*(head)->tqh_last = elm` with struct attr_node's anonymous union: the field-sensitive constant propagation of symex
 * does not see that dict.tqh_first and value.type overlap; 12-line reproducer in the unit's report; --no-propagation
 * avoids it at a cost that exhausts memory here).  For the same reason attr_tree_destroy (TAILQ_REMOVE) is not run.
 * Each node has an ARBITRARY type among the five, and independently a setter and/or a getter or none.  The callbacks have
 * bodies here (plain CBMC, no contracts): they identify the node by its context pointer (&tb_ctx[i]), count their calls,
 * record their arguments and return an arbitrary, per-node fixed result. */
#include "_unit.h"
#define TB_N 5
#ifndef TB_NEED_MAX
#define TB_NEED_MAX 512
#endif
static const char *const tb_name[TB_N] = { "a", "b.c", "b.d", "l[0]", "l[1]" };
static char tb_ctx[TB_N];
static struct xcm_socket *tb_sock;
static int tb_type[TB_N]; static _Bool tb_has_set[TB_N], tb_has_get[TB_N];
static int tb_get_rv[TB_N], tb_get_errno[TB_N], tb_set_rv[TB_N], tb_set_errno[TB_N]; static size_t tb_need[TB_N];
static int tb_get_calls[TB_N], tb_set_calls[TB_N], tb_get_total, tb_set_total, tb_bad_ctx;
static void *tb_last_buf; static size_t tb_last_cap; static const void *tb_last_val; static size_t tb_last_len; static struct xcm_socket *tb_last_sock;
/* libxcm/core/log_attr_tree.c (formats every value read, see contracts/attrtree.h): body for the plain-CBMC jobs; what it
 * reads of the value for each type is asserted to be readable */
void log_attr_str_value(enum xcm_attr_type type, const void *value, size_t len, char *buf, size_t capacity)
{
    size_t n = type == xcm_attr_type_bool ? sizeof(bool) : (type == xcm_attr_type_int64 || type == xcm_attr_type_double) ? 8 : len;
    __CPROVER_assert(n == 0 || __CPROVER_r_ok(value, n), "log_attr_str_value: the value formatted for the log is readable");
    __CPROVER_assert(capacity >= 1 && __CPROVER_w_ok(buf, capacity), "log_attr_str_value: text buffer");
    buf[0] = 0;
}
static int tb_index(void *context)
{
    int i;
    for (i = 0; i < TB_N; i++)      /* loop tb_index.0 */
        if (context == &tb_ctx[i])
            return i;
    return -1;
}
/* a getter as C10 wants it: EOVERFLOW iff the value (tb_need[i] bytes) does not fit, else any per-node result <= need */
static int tb_getter(struct xcm_socket *s, void *context, void *value, size_t capacity)
{
    int i = tb_index(context);
    tb_get_total++;
    if (i < 0) { tb_bad_ctx++; errno = EINVAL; return -1; }
    tb_get_calls[i]++; tb_last_buf = value; tb_last_cap = capacity; tb_last_sock = s;
    if (capacity < tb_need[i]) { errno = EOVERFLOW; return -1; }
    if (tb_get_rv[i] < 0) { errno = tb_get_errno[i]; return -1; }
    if (tb_get_rv[i] > 0)
        __CPROVER_havoc_slice(value, (size_t)tb_get_rv[i]);       /* out of the buffer's bounds => failed obligation */
    return tb_get_rv[i];
}
static int tb_setter(struct xcm_socket *s, void *context, const void *value, size_t len)
{
    int i = tb_index(context);
    tb_set_total++;
    if (i < 0) { tb_bad_ctx++; errno = EINVAL; return -1; }
    tb_set_calls[i]++; tb_last_val = value; tb_last_len = len; tb_last_sock = s;
    if (tb_set_rv[i] < 0) { errno = tb_set_errno[i]; return -1; }
    return 0;
}
static struct attr_node_dict_elem *tb_delem(const char *key, struct attr_node *node)
{
    struct attr_node_dict_elem *e = ut_malloc(sizeof(struct attr_node_dict_elem));
    e->key = ut_strdup(key); e->node = node;
    return e;
}
static struct attr_node_list_elem *tb_lelem(struct attr_node *node)
{
    struct attr_node_list_elem *e = ut_malloc(sizeof(struct attr_node_list_elem));
    e->node = node;
    return e;
}
static struct attr_tree *tb_build(void)
{
    int i;
    tb_sock = nondet_voidp();
    for (i = 0; i < TB_N; i++) {    /* loop tb_build.0 */
        tb_type[i] = nondet_int(); __CPROVER_assume(tb_type[i] >= 1 && tb_type[i] <= 5);
        tb_has_set[i] = nondet_bool(); tb_has_get[i] = nondet_bool();
        tb_need[i] = nondet_size_t(); __CPROVER_assume(tb_need[i] <= TB_NEED_MAX);
        tb_get_rv[i] = nondet_int(); __CPROVER_assume(tb_get_rv[i] >= -1 && (tb_get_rv[i] < 0 || (size_t)tb_get_rv[i] == tb_need[i]));
        /* a successful getter returns the size of the value; bool/int64/double values have their fixed size */
        __CPROVER_assume(tb_type[i] == xcm_attr_type_bool ? tb_need[i] == sizeof(bool) : (tb_type[i] == xcm_attr_type_int64 || tb_type[i] == xcm_attr_type_double) ? tb_need[i] == 8 : 1);
        tb_get_errno[i] = nondet_int(); __CPROVER_assume(tb_get_errno[i] > 0 && tb_get_errno[i] != EOVERFLOW);
        tb_set_rv[i] = nondet_int(); __CPROVER_assume(tb_set_rv[i] == 0 || tb_set_rv[i] == -1);
        tb_set_errno[i] = nondet_int(); __CPROVER_assume(tb_set_errno[i] > 0);
        tb_get_calls[i] = 0; tb_set_calls[i] = 0;
    }
    tb_get_total = 0; tb_set_total = 0; tb_bad_ctx = 0;
    struct attr_tree *tree = attr_tree_create();
    struct attr_node *v[TB_N];
    for (i = 0; i < TB_N; i++)      /* loop tb_build.1 */
        v[i] = attr_node_value(tb_sock, &tb_ctx[i], (enum xcm_attr_type)tb_type[i], tb_has_set[i] ? tb_setter : NULL, tb_has_get[i] ? tb_getter : NULL);
    struct attr_node *b = attr_node_dict(), *l = attr_node_list();
    struct attr_node_dict_elem *ra = tb_delem("a", v[0]), *rb = tb_delem("b", b), *rl = tb_delem("l", l);
    struct attr_node_dict_elem *bc = tb_delem("c", v[1]), *bd = tb_delem("d", v[2]);
    struct attr_node_list_elem *l0 = tb_lelem(v[3]), *l1 = tb_lelem(v[4]);
    /* root: a, b, l */
    tree->root->dict.tqh_first = ra; ra->entry.tqe_prev = &tree->root->dict.tqh_first;
    ra->entry.tqe_next = rb; rb->entry.tqe_prev = &ra->entry.tqe_next;
    rb->entry.tqe_next = rl; rl->entry.tqe_prev = &rb->entry.tqe_next;
    rl->entry.tqe_next = NULL; tree->root->dict.tqh_last = &rl->entry.tqe_next;
    /* b: c, d */
    b->dict.tqh_first = bc; bc->entry.tqe_prev = &b->dict.tqh_first;
    bc->entry.tqe_next = bd; bd->entry.tqe_prev = &bc->entry.tqe_next;
    bd->entry.tqe_next = NULL; b->dict.tqh_last = &bd->entry.tqe_next;
    /* l: [0], [1] */
    l->list.tqh_first = l0; l0->entry.tqe_prev = &l->list.tqh_first;
    l0->entry.tqe_next = l1; l1->entry.tqe_prev = &l0->entry.tqe_next;
    l1->entry.tqe_next = NULL; l->list.tqh_last = &l1->entry.tqe_next;
    return tree;
}
static _Bool tb_streq(const char *a, const char *b)
{
    size_t i;
    for (i = 0; ; i++) {            /* loop tb_streq.0 */
        if (a[i] != b[i]) return 0;
        if (a[i] == 0) return 1;
    }
}
static _Bool tb_has_bracket(const char *a)
{
    size_t i;
    for (i = 0; a[i] != 0; i++)     /* loop tb_has_bracket.0 */
        if (a[i] == '[') return 1;
    return 0;
}
/* which node a name denotes: 0..4 a value node, -2 a container ("", "b", "l"), -1 nothing */
static int tb_resolve(const char *q)
{
    int i;
    for (i = 0; i < TB_N; i++)      /* loop tb_resolve.0 */
        if (tb_streq(q, tb_name[i]))
            return i;
    if (tb_streq(q, "") || tb_streq(q, "b") || tb_streq(q, "l"))        /* "" is the root dictionary */
        return -2;
    return -1;
}
