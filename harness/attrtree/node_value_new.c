//@ tu: libxcm/core/attr_tree.c libxcm/core/attr_node.c libxcm/core/attr_path.c
//@ enforce: attr_node_value
//@ props: C10
//@ expect: postcondition>=1 canary=2
#include "_unit.h"
/* the value node behind ATTR_TREE_ADD_RW / ATTR_TREE_ADD_RO: a new object holding exactly the type, socket, context,
 * setter (NULL: read-only) and getter (NULL: write-only) it was given */
void harness(void)
{
    xv_ghost_havoc(); ATR_GHOST_HAVOC();
    struct xcm_socket *s; void *ctx; enum xcm_attr_type type; attr_set set; attr_get get;
    struct attr_node *n = attr_node_value(s, ctx, type, set, get);
    if (n != NULL && set == NULL) XV_CANARY("read-only node");
    if (n != NULL && set != NULL && get == NULL) XV_CANARY("write-only node");
}
