//@ variant: hit HIT=1 NC=8 X=-DXV_ATR_PLAIN
//@ variant: miss HIT=0 NC=3 X=-DXV_ATR_PLAIN
//@ variant: anytype HIT=0 NC=3 X=-DXV_ATR_ANY_TYPE
//@ tu: libxcm/core/attr_tree.c libxcm/core/attr_node.c libxcm/core/attr_path.c
//@ enforce: attr_tree_set_value
//@ replace: attr_path_parse attr_path_destroy node_lookup xv_atr_setter xv_atr_getter
//@ defs: -DXV_ATR_HIT=$HIT $X
//@ props: C10
//@ expect: postcondition>=15 canary=$NC
#include "_unit.h"
/* attr_tree_set_value for EVERY name string of 0..299 characters, every caller type among the five enumerators, every
 * len and every node the name may resolve to (variant hit: dictionary / list / value of any registered type, with or
 * without setter; variant miss: none).  valid_set_attr_len and the attr_node_* accessors are the real text, inlined.
 * Variant anytype: the caller's type is ANY value of the enum's underlying type (a type that is none of the five
 * enumerators is a wrong type).  Variant strict: the stricter reading of DESIGN.md 5/C10 (a dictionary/list name is an
 * unknown name: ENOENT; a str value with a NUL before len-1 has a wrong length). */
void harness(void)
{
    xv_ghost_havoc(); ATR_GHOST_HAVOC();
    struct attr_tree *tree; const char *name; enum xcm_attr_type type; const void *value; size_t len; void *log_ref;
    long c0 = xv_atr_set_calls;
    int rv = attr_tree_set_value(tree, name, type, value, len, log_ref);
    if (rv == -1 && xv_errno == EINVAL && xv_atr_set_calls == c0 && xv_ap_len > ATTR_PATH_NAME_MAX) XV_CANARY("over-long name");
    if (rv == -1 && xv_errno == EINVAL && xv_atr_set_calls == c0 && xv_ap_len == 5) XV_CANARY("EINVAL before the setter");
#if XV_ATR_HIT
    if (rv == -1 && xv_errno == EACCES && xv_atr_set_calls == c0) XV_CANARY("not writable");
    if (rv == 0 && xv_atr_set_calls == c0 + 1 && type == xcm_attr_type_bool) XV_CANARY("bool set");
    if (rv == 0 && xv_atr_set_calls == c0 + 1 && type == xcm_attr_type_str && len == ATR_STR_MAX) XV_CANARY("longest str set");
    if (rv == 0 && xv_atr_set_calls == c0 + 1 && type == xcm_attr_type_bin && len == 0) XV_CANARY("empty bin set");
    if (rv == 0 && xv_atr_set_calls == c0 + 1 && type == xcm_attr_type_bin && len > ((size_t)1 << 40)) XV_CANARY("huge bin set");
    if (rv == -1 && xv_atr_set_calls == c0 + 1 && xv_errno == EBUSY) XV_CANARY("setter failure passed through");
#else
    if (rv == -1 && xv_errno == ENOENT) XV_CANARY("unknown name");
#endif
}
