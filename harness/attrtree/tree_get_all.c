//@ tu: libxcm/core/attr_tree.c libxcm/core/attr_node.c libxcm/core/attr_path.c
//@ nondfcc: 1
//@ bounded: one tree of five value nodes ("a", "b.c", "b.d", "l[0]", "l[1]": root dictionary, a dictionary and a list below it; links written by the harness, see _tree.h); arbitrary node types/modes and getter outcomes, values of 0..512 bytes (at most one doubling of the 256-byte buffer)
//@ unwindset: visit_value.0:3
//@ flags: --unwind 7 --object-bits 10
//@ props: C10
//@ expect: assertion>=8 canary=5
//@ timeout: 900
#include "_tree.h"
/* attr_tree_get_all (xcm_attr_get_all) on the REAL visit_node / visit_dict / visit_list / visit_value and
 * attr_node_dict_foreach / attr_node_list_foreach: every readable value node is read through its own getter and reported
 * to the callback exactly once, in registration order, under its full name ("b.c", "l[1]": built by the real
 * foreach_dict_key / foreach_list_index), with its registered type and the length the getter returned; a node without
 * getter, or whose getter fails, is skipped; no setter runs; nothing is read or written out of bounds. */
static char ga_cookie;
static int ga_n, ga_seq[TB_N + 1], ga_type[TB_N + 1]; static size_t ga_len[TB_N + 1];
static void ga_cb(const char *name, enum xcm_attr_type type, void *value, size_t len, void *cb_data)
{
    XV_ASSERT(cb_data == &ga_cookie, "PO[C10] tree_get_all.callback_gets_the_callers_cb_data");
    XV_ASSERT(len == 0 || __CPROVER_r_ok(value, len), "PO[C10] tree_get_all.callback_value_readable_for_its_length");
    if (ga_n <= TB_N) { ga_seq[ga_n] = tb_resolve(name); ga_type[ga_n] = (int)type; ga_len[ga_n] = len; }
    ga_n++;
}
void harness(void)
{
    xv_ghost_havoc(); ATR_GHOST_HAVOC();
    struct attr_tree *tree = tb_build();
    int i, k = 0;
    ga_n = 0;
    attr_tree_get_all(tree, ga_cb, &ga_cookie);
    XV_ASSERT(tb_bad_ctx == 0 && tb_set_total == 0, "PO[C10] tree_get_all.no_setter_runs");
    for (i = 0; i < TB_N; i++) {
        XV_ASSERT(tb_get_calls[i] == (!tb_has_get[i] ? 0 : tb_need[i] > 256 ? 2 : 1), "PO[C10] tree_get_all.every_readable_node_read_once_retried_only_on_eoverflow");
        if (tb_has_get[i] && tb_get_rv[i] >= 0) {
            XV_ASSERT(k < ga_n && ga_seq[k] == i, "PO[C10] tree_get_all.reported_in_registration_order_under_full_name");
            XV_ASSERT(k < ga_n && ga_type[k] == tb_type[i] && ga_len[k] == (size_t)tb_get_rv[i], "PO[C10] tree_get_all.reported_with_registered_type_and_exact_length");
            k++;
        }
    }
    XV_ASSERT(ga_n == k, "PO[C10] tree_get_all.nothing_else_reported");
    if (ga_n == TB_N) XV_CANARY("all five reported");
    if (ga_n == 0) XV_CANARY("none reported");
    if (ga_n == 3 && tb_has_get[1] && tb_get_rv[1] < 0) XV_CANARY("failing getter of b.c skipped");
    if (ga_n == 4 && !tb_has_get[3]) XV_CANARY("write-only l[0] skipped");
    if (ga_n == 5 && tb_get_calls[4] == 2 && ga_len[4] == 512) XV_CANARY("512-byte value of l[1] after one doubling");
}
