//@ tu: libxcm/core/attr_tree.c libxcm/core/attr_node.c libxcm/core/attr_path.c
//@ nondfcc: 1
//@ bounded: one tree of five value nodes ("a", "b.c", "b.d", "l[0]", "l[1]": root dictionary, a dictionary and a list below it) (links written by the harness, see _tree.h); every name string of 0..4 arbitrary characters; arbitrary node types/modes, values of 0..24 bytes, capacity 0..32, len 0..9
//@ flags: --unwind 7 --object-bits 10
//@ props: C10
//@ expect: assertion>=10 canary=8
//@ timeout: 900
#define TB_NEED_MAX 24
#include "_tree.h"
#define L 4
char nondet_char(void);
/* attr_tree_get_value and attr_tree_set_value on the REAL tree, the REAL attr_path_parse and the REAL node_lookup, for
 * every name of up to 4 characters: a name that is one of the five registered ones reaches exactly that node's getter /
 * setter (once, with the caller's buffer / value), a name that is none of them and has no index part reaches nothing
 * (an index may be written in other ways -- "l[+0]", "l[ 1]", "l[00]", not within 4 characters -- which resolve to the same element: unit attrpath),
 * and nothing is read or written out of bounds. */
void harness(void)
{
    xv_ghost_havoc(); ATR_GHOST_HAVOC();
    struct attr_tree *tree = tb_build();

    char *s = malloc(L + 1);
    __CPROVER_assume(s != NULL);
    s[0] = nondet_char(); s[1] = nondet_char(); s[2] = nondet_char(); s[3] = nondet_char();
    s[L] = 0;
    size_t start = nondet_size_t();
    __CPROVER_assume(start <= L);
    const char *q = s + start;       /* the string ends where its object ends: any over-read is out of bounds */
    int who = tb_resolve(q);

    /* ---- get */
    size_t cap = nondet_size_t();
    __CPROVER_assume(cap <= 32);
    uint8_t *buf = malloc(cap);      /* exactly cap bytes: any write beyond capacity is out of bounds */
    __CPROVER_assume(buf != NULL);
    enum xcm_attr_type t = 0;
    int rv = attr_tree_get_value(tree, q, &t, buf, cap, NULL);
    XV_ASSERT(tb_bad_ctx == 0 && tb_get_total <= 1 && tb_set_total == 0, "PO[C10] tree_lookup.get_calls_at_most_one_registered_getter");
    if (who >= 0) {
        XV_ASSERT(tb_get_total == (tb_has_get[who] ? 1 : 0) && tb_get_calls[who] == tb_get_total, "PO[C10] tree_lookup.get_reaches_the_named_node");
        if (tb_has_get[who]) {
            XV_ASSERT(tb_last_buf == buf && tb_last_cap == cap && tb_last_sock == tb_sock, "PO[C10] tree_lookup.getter_gets_the_callers_buffer_and_capacity");
            XV_ASSERT((int)t == tb_type[who], "PO[C10] tree_lookup.get_reports_the_registered_type");
            XV_ASSERT(cap < tb_need[who] ? (rv == -1 && errno == EOVERFLOW) : tb_get_rv[who] < 0 ? (rv == -1 && errno == tb_get_errno[who]) : rv == tb_get_rv[who],
                      "PO[C10] tree_lookup.get_result_is_the_getters");
            if (rv >= 0 && who == 4) XV_CANARY("l[1] read");
            if (rv >= 0 && who == 1 && cap == 0) XV_CANARY("b.c read with capacity 0");
            if (rv == -1 && errno == EOVERFLOW && who == 0) XV_CANARY("a: EOVERFLOW");
        } else
            XV_ASSERT(rv == -1 && errno == EACCES, "PO[C10] tree_lookup.write_only_eacces");
    } else if (who == -2) {
        XV_ASSERT(rv == -1 && tb_get_total == 0 && (errno == EACCES || errno == ENOENT), "PO[C10] tree_lookup.get_container_name_rejected");
        XV_CANARY("container name");
    } else if (!tb_has_bracket(q)) {
        XV_ASSERT(rv == -1 && tb_get_total == 0 && (errno == ENOENT || errno == EINVAL), "PO[C10] tree_lookup.get_unknown_name_reaches_no_getter");
        if (errno == ENOENT) XV_CANARY("unknown name ENOENT");
        if (errno == EINVAL) XV_CANARY("malformed name EINVAL");
    } else if (tb_get_total == 1)
        XV_ASSERT(tb_get_calls[3] + tb_get_calls[4] == 1, "PO[C10] tree_lookup.index_alias_reaches_a_list_element_only");
    free(buf);

    /* ---- set (same name) */
    int st = nondet_int();
    __CPROVER_assume(st >= 1 && st <= 5);
    size_t len = nondet_size_t();
    __CPROVER_assume(len <= 9);
    char *val = malloc(len);
    __CPROVER_assume(val != NULL);
    if (len > 0) val[len - 1] = 0;
    int rs = attr_tree_set_value(tree, q, (enum xcm_attr_type)st, val, len, NULL);
    XV_ASSERT(tb_bad_ctx == 0 && tb_set_total <= 1, "PO[C10] tree_lookup.set_calls_at_most_one_registered_setter");
    if (who >= 0) {
        _Bool len_ok = ATR_LEN_OK(st, len);
        _Bool accept = tb_has_set[who] && st == tb_type[who] && len_ok;
        XV_ASSERT(tb_set_total == (accept ? 1 : 0) && tb_set_calls[who] == tb_set_total, "PO[C10] tree_lookup.set_reaches_the_named_node_only_if_mode_type_and_length_fit");
        if (accept) {
            XV_ASSERT(tb_last_val == val && tb_last_len == len && tb_last_sock == tb_sock, "PO[C10] tree_lookup.setter_gets_the_callers_value");
            XV_ASSERT(tb_set_rv[who] < 0 ? (rs == -1 && errno == tb_set_errno[who]) : rs == 0, "PO[C10] tree_lookup.set_result_is_the_setters");
            if (rs == 0 && who == 2) XV_CANARY("b.d set");
        } else {
            XV_ASSERT(rs == -1 && (errno == EACCES || errno == EINVAL) && (errno == EACCES ==> !tb_has_set[who]) && (errno == EINVAL ==> (st != tb_type[who] || !len_ok)), "PO[C10] tree_lookup.set_rejected_with_truthful_errno");
            if (errno == EACCES && who == 3) XV_CANARY("l[0] read-only");
        }
    } else if (who == -2)
        XV_ASSERT(rs == -1 && tb_set_total == 0 && (errno == EACCES || errno == ENOENT || errno == EINVAL), "PO[C10] tree_lookup.set_container_name_rejected");
    else if (!tb_has_bracket(q))
        XV_ASSERT(rs == -1 && tb_set_total == 0 && (errno == ENOENT || errno == EINVAL), "PO[C10] tree_lookup.set_unknown_name_reaches_no_setter");
    free(val);

    free(s);
}
