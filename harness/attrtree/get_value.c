//@ variant: hit HIT=1 NC=9 X=-DXV_ATR_PLAIN
//@ variant: miss HIT=0 NC=3 X=-DXV_ATR_PLAIN
//@ tu: libxcm/core/attr_tree.c libxcm/core/attr_node.c libxcm/core/attr_path.c
//@ enforce: attr_tree_get_value
//@ replace: attr_path_parse attr_path_destroy node_lookup log_attr_str_value xv_atr_setter xv_atr_getter
//@ defs: -DXV_ATR_HIT=$HIT $X
//@ props: C10
//@ expect: postcondition>=11 canary=$NC
#include "_unit.h"
/* attr_tree_get_value for EVERY name string of 0..299 characters, every capacity (0 .. SIZE_MAX), with and without a
 * type pointer, and every node the name may resolve to (variant hit: dictionary / list / value node of any registered
 * type with or without getter; variant miss: none).  The attr_node_* accessors are the real text, inlined. */
void harness(void)
{
    xv_ghost_havoc(); ATR_GHOST_HAVOC();
    struct attr_tree *tree; const char *name; enum xcm_attr_type *type; void *value; size_t cap; void *log_ref;
    long c0 = xv_atr_get_calls;
    int rv = attr_tree_get_value(tree, name, type, value, cap, log_ref);
    if (rv == -1 && xv_errno == EINVAL && xv_atr_get_calls == c0 && xv_ap_len > ATTR_PATH_NAME_MAX) XV_CANARY("over-long name");
    if (rv == -1 && xv_errno == EINVAL && xv_atr_get_calls == c0 && xv_ap_len == 5) XV_CANARY("malformed name");
#if XV_ATR_HIT
    if (rv == -1 && xv_errno == EACCES && xv_atr_get_calls == c0) XV_CANARY("not readable");
    if (rv == 0 && xv_atr_get_calls == c0 + 1 && cap == 0) XV_CANARY("capacity 0");
    if (rv == 1 && xv_atr_get_calls == c0 + 1 && cap == 1) XV_CANARY("capacity 1");
    if (rv == 8 && xv_atr_get_calls == c0 + 1 && cap == ATR_CAP_MAX) XV_CANARY("capacity ATR_CAP_MAX");
    if (rv == 8 && xv_atr_get_calls == c0 + 1 && cap > ((size_t)1 << 40) && xv_atr_h_type == xcm_attr_type_int64) XV_CANARY("huge capacity");
    if (rv == -1 && xv_atr_get_calls == c0 + 1 && xv_errno == EOVERFLOW) XV_CANARY("getter EOVERFLOW passed through");
    if (rv == 3 && xv_atr_get_calls == c0 + 1 && type == NULL) XV_CANARY("no type pointer");
#else
    if (rv == -1 && xv_errno == ENOENT) XV_CANARY("unknown name");
#endif
}
