/* unit attrtree: the REAL libxcm/core/attr_tree.c and libxcm/core/attr_node.c (plus the real libxcm/core/attr_path.c,
 * whose contracts -- unit attrpath -- are assumed where attr_path_parse / attr_path_destroy are replaced, and whose
 * real text runs in the bounded tree_* jobs).
 * ut_asprintf is variadic (DFCC cannot pass a write set through a variadic call, HOWTO): the two call shapes of
 * attr_tree.c ("%s%c%s" and "%s%c%zd%c") are routed by argument count to the exact models of env/attrtree_env.h, each of
 * which asserts that the format string at the call site is the one it models. */
#include "prelude.h"
#include "harness/attrpath/_ghost.h"
#include "util.h"
char *xv_atr_asprintf_scs(const char *f, const char *a, int c, const char *b);
char *xv_atr_asprintf_sczc(const char *f, const char *a, int c, size_t v, int d);
#define XV_ATR_SEL(_1, _2, _3, _4, _5, NAME, ...) NAME
#define ut_asprintf(...) XV_ATR_SEL(__VA_ARGS__, xv_atr_asprintf_sczc, xv_atr_asprintf_scs, xv_atr_bad, xv_atr_bad, xv_atr_bad)(__VA_ARGS__)
#include "attr_path.c"
#include "attr_node.c"
#include "attr_tree.c"
#undef ut_asprintf
#include "env/base.h"
#include "env/attrpath_env.h"
#include "env/attrtree_env.h"
#include "contracts/attrpath.h"
#include "contracts/attrtree.h"
#ifdef XV_CBMC
void *nondet_voidp(void);
#define ATR_GHOST_HAVOC() do { \
    xv_ap_base = NULL; xv_ap_len = nondet_size_t(); xv_ap_j = nondet_size_t(); xv_ap_q = nondet_size_t(); xv_ap_a = nondet_size_t(); \
    xv_ap_trust_shape = 1; /* as in the job of attr_path_parse: see contracts/attrpath.h */ \
    xv_ap_g_comp = nondet_voidp(); xv_ap_g_key = nondet_voidp(); xv_ap_strtol_val = nondet_long(); xv_ap_strtol_used = nondet_size_t(); \
    xv_atr_h_kind = nondet_int(); xv_atr_h_type = nondet_int(); xv_atr_h_set = nondet_bool(); xv_atr_h_get = nondet_bool(); xv_atr_lookup_calls = nondet_long(); \
    xv_atr_g_sock = nondet_voidp(); xv_atr_g_ctx = nondet_voidp(); xv_atr_g_value = nondet_voidp(); xv_atr_g_len = nondet_size_t(); \
    xv_atr_g_buf = nondet_voidp(); xv_atr_g_cap = nondet_size_t(); xv_atr_g_byte = nondet_uchar(); xv_atr_g_type = nondet_int(); \
    xv_atr_need = nondet_size_t(); \
    xv_atr_set_calls = nondet_long(); xv_atr_set_good = nondet_long(); xv_atr_set_rv = nondet_int(); xv_atr_set_errno = nondet_int(); \
    xv_atr_get_calls = nondet_long(); xv_atr_get_good = nondet_long(); xv_atr_get_rv = nondet_int(); xv_atr_get_errno = nondet_int(); \
    xv_atr_get_cap = nondet_size_t(); xv_atr_g_name = nondet_voidp(); xv_atr_g_cbdata = nondet_voidp(); xv_atr_mark = nondet_uchar(); xv_atr_cb_calls = nondet_long(); xv_atr_cb_good = nondet_long(); \
} while (0)
/* the stubs' addresses are taken here: the only candidates for the set/get members of a value node */
const attr_set xv_atr_setter_p = xv_atr_setter;
const attr_get xv_atr_getter_p = xv_atr_getter;
const xcm_attr_cb xv_atr_cb_p = xv_atr_cb;
#endif
