//@ tu: libxcm/core/attr_tree.c libxcm/core/attr_node.c libxcm/core/attr_path.c
//@ enforce: attr_tree_create
//@ props: C10
//@ expect: postcondition>=1 canary=1
#include "_unit.h"
/* a new tree: its root is a new, empty dictionary (attr_node_dict inlined) */
void harness(void)
{
    xv_ghost_havoc(); ATR_GHOST_HAVOC();
    struct attr_tree *t = attr_tree_create();
    if (t != NULL) XV_CANARY("created");
}
