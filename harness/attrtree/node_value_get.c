//@ tu: libxcm/core/attr_tree.c libxcm/core/attr_node.c libxcm/core/attr_path.c
//@ enforce: attr_node_value_get
//@ replace: xv_atr_setter xv_atr_getter
//@ props: C10
//@ expect: postcondition>=2 canary=4
#include "_unit.h"
/* the getter registered with a value node is called through its function pointer: once, with the registered socket and
 * context and exactly the caller's buffer/capacity (0, 1, ..., beyond ATR_CAP_MAX) */
void harness(void)
{
    xv_ghost_havoc(); ATR_GHOST_HAVOC();
    const struct attr_node *n; void *value; size_t cap;
    int rv = attr_node_value_get(n, value, cap);
    if (rv == 0 && cap == 0) XV_CANARY("capacity 0");
    if (rv == 8 && cap == 8) XV_CANARY("getter succeeded");
    if (rv == 1 && cap > ATR_CAP_MAX) XV_CANARY("huge capacity");
    if (rv == -1 && xv_errno == EOVERFLOW) XV_CANARY("getter failed");
}
