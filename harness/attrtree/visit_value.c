//@ tu: libxcm/core/attr_tree.c libxcm/core/attr_node.c libxcm/core/attr_path.c
//@ enforce: visit_value
//@ replace: xv_atr_setter xv_atr_getter xv_atr_cb
//@ pre-unwind: visit_value.0:4
//@ flags: --object-bits 10 --memory-leak-check
//@ bounded: the getter answers EOVERFLOW at most twice (values of at most ATR_NEED_MAX = 1 KiB: buffer 256 -> 512 -> 1024); everything else (type, mode, getter result, errno, callback) is arbitrary
//@ props: C10
//@ expect: postcondition>=6 canary=6
#include "_unit.h"
/* one value node of attr_tree_get_all (xcm_attr_get_all): read through the registered getter into a heap buffer of 256
 * bytes that is doubled while the getter says EOVERFLOW (here: at most twice, ATR_NEED_MAX = 1 KiB bounds the size the getter stub may ask for, see
 * the getter stub), reported to the callback once with the registered type and the exact length, skipped if the getter
 * fails or there is none; the buffer is released on every path */
void harness(void)
{
    xv_ghost_havoc(); ATR_GHOST_HAVOC();
    const char *path; const struct attr_node *n; xcm_attr_cb cb; void *cb_data;
    long g0 = xv_atr_get_calls, c0 = xv_atr_cb_calls;
    visit_value(path, n, cb, cb_data);
    if (xv_atr_get_calls == g0 && xv_atr_cb_calls == c0) XV_CANARY("write-only: skipped");
    if (xv_atr_get_calls == g0 + 1 && xv_atr_cb_calls == c0 + 1 && xv_atr_get_rv == 0) XV_CANARY("empty value reported");
    if (xv_atr_get_calls == g0 + 1 && xv_atr_cb_calls == c0 + 1 && xv_atr_get_rv == 256) XV_CANARY("256 bytes at the first attempt");
    if (xv_atr_get_calls == g0 + ATR_NEED_TRIES && xv_atr_cb_calls == c0 + 1 && xv_atr_get_rv == ATR_NEED_MAX) XV_CANARY("largest value after two doublings");
    if (xv_atr_get_calls == g0 + 1 && xv_atr_cb_calls == c0 && xv_atr_get_errno == ENOENT) XV_CANARY("failing getter skipped");
    if (xv_atr_get_calls == g0 + 3 && xv_atr_cb_calls == c0 && xv_atr_get_errno == EAGAIN) XV_CANARY("failure after two doublings skipped");
}
