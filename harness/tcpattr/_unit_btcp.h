/* tcpattr unit, part 3: the attribute callbacks of the REAL libxcm/tp/tcp/xcm_tp_btcp.c on top of the REAL tcp_attr.c
 * (tcp_get_*_attr / tcp_set_* are replaced by their contracts, which part 1 enforces) */
#include "prelude.h"
#include "tcp_attr.c"
#include "xcm_tp_btcp.c"
#include "env/base.h"
#include "env/sockopt.h"
#define XT_TCPATTR
#define XT_BTCP
#include "contracts/tcpattr.h"
