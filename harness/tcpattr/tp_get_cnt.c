//@ variant: to_app_bytes FN=get_to_app_bytes_attr
//@ variant: from_app_bytes FN=get_from_app_bytes_attr
//@ variant: to_lower_bytes FN=get_to_lower_bytes_attr
//@ variant: from_lower_bytes FN=get_from_lower_bytes_attr
//@ variant: to_app_msgs FN=get_to_app_msgs_attr
//@ variant: from_app_msgs FN=get_from_app_msgs_attr
//@ variant: to_lower_msgs FN=get_to_lower_msgs_attr
//@ variant: from_lower_msgs FN=get_from_lower_msgs_attr
//@ tu: libxcm/tp/common/xcm_tp.c
//@ defs: -DXT_FN=$FN
//@ enforce: $FN
//@ replace: xcm_tp_socket_get_cnt
//@ props: C10
//@ expect: postcondition>=3 canary=4
#include "_unit_tp.h"
void harness(void)
{
    xv_ghost_havoc();
    xv_tp_havoc();
    struct xcm_socket *s; void *context; void *value; size_t capacity;
    int rv = XT_FN(s, context, value, capacity);
    if (rv == 8 && capacity == 8) XV_CANARY("fits exactly");
    if (rv == 8 && capacity > 1000) XV_CANARY("fits, room to spare");
    if (rv == -1 && xv_errno == EOVERFLOW && capacity == 0) XV_CANARY("capacity 0: EOVERFLOW");
    if (rv == -1 && xv_errno == EOVERFLOW && capacity == 7) XV_CANARY("one byte short: EOVERFLOW");
}
