/* tcpattr unit, part 2: the REAL libxcm/tp/common/xcm_tp.c (generic attribute getters) */
#include "prelude.h"
#include "xcm_tp.c"
#include "env/base.h"
#define XT_TP
#include "contracts/tcpattr.h"
#ifdef XV_CBMC
static inline void xv_tp_havoc(void)
{
    xv_cnt_ret = nondet_long(); xv_cnt_arg = nondet_int(); xv_cnt_calls = nondet_long();
    xv_mm_ret = nondet_size_t(); xv_mm_calls = nondet_long();
}
#endif
