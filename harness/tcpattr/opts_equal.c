//@ tu: libxcm/tp/tcp/tcp_attr.c
//@ enforce: tcp_opts_equal
//@ props: C11
//@ expect: postcondition>=2 canary=2
#include "_unit.h"
void harness(void)
{
    xv_ghost_havoc();
    xv_sockopt_havoc();
    const struct tcp_opts *a, *b;
    bool rv = tcp_opts_equal(a, b);
    if (rv) XV_CANARY("equal");
    if (!rv) XV_CANARY("different");
}
