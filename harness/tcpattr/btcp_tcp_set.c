//@ variant: keepalive N=keepalive
//@ variant: keepalive_time N=keepalive_time
//@ variant: keepalive_interval N=keepalive_interval
//@ variant: keepalive_count N=keepalive_count
//@ variant: user_timeout N=user_timeout
//@ tu: libxcm/tp/tcp/tcp_attr.c libxcm/tp/tcp/xcm_tp_btcp.c
//@ defs: -DXT_FN=set_$N_attr
//@ enforce: set_$N_attr
//@ replace: tcp_set_$N
//@ props: C11
//@ expect: postcondition>=5 canary=3
#include "_unit_btcp.h"
void harness(void)
{
    xv_ghost_havoc();
    xv_sockopt_havoc();
    xv_g_inforce = nondet_bool();
    struct xcm_socket *s; void *context; const void *value; size_t len;
    long calls = xv_so_calls;
    int rv = XT_FN(s, context, value, len);
    if (rv == 0 && xv_so_calls == calls + 1) XV_CANARY("accepted and written to the descriptor");
    if (rv == 0 && xv_so_calls == calls) XV_CANARY("accepted, no system call");
    if (rv == -1) XV_CANARY("refused");
}
