//@ tu: libxcm/tp/common/xcm_tp.c
//@ enforce: get_max_msg_attr
//@ replace: xv_max_msg_stub
//@ props: C10
//@ expect: postcondition>=3 canary=5
#include "_unit_tp.h"
void harness(void)
{
    xv_ghost_havoc();
    xv_tp_havoc();
    size_t (*max_msg_op)(struct xcm_socket *) = xv_max_msg_stub;   /* address taken: the only candidate for ops->max_msg */
    (void)max_msg_op;
    struct xcm_socket *s; void *context; void *value; size_t capacity;
    int rv = get_max_msg_attr(s, context, value, capacity);
    if (rv >= 1 && capacity == (size_t)rv) XV_CANARY("fits exactly");
    if (rv >= 1 && capacity > 1000) XV_CANARY("fits, room to spare");
    if (rv == -1 && xv_errno == EOVERFLOW && capacity == 0) XV_CANARY("capacity 0: EOVERFLOW");
    if (rv == -1 && xv_errno == EOVERFLOW && capacity > 0) XV_CANARY("one byte short or more: EOVERFLOW");
    if (rv == -1 && xv_errno == ENOENT) XV_CANARY("server socket: ENOENT");
}
