//@ tu: libxcm/tp/tcp/tcp_attr.c
//@ enforce: tcp_opts_init
//@ props: C11
//@ expect: postcondition>=1 canary=1
#include "_unit.h"
void harness(void)
{
    xv_ghost_havoc();
    xv_sockopt_havoc();
    struct tcp_opts *opts;
    tcp_opts_init(opts);
    XV_CANARY("returns");
}
