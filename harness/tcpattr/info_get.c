//@ variant: rtt FN=tcp_get_rtt_attr
//@ variant: total_retrans FN=tcp_get_total_retrans_attr
//@ variant: segs_in FN=tcp_get_segs_in_attr
//@ variant: segs_out FN=tcp_get_segs_out_attr
//@ tu: libxcm/tp/tcp/tcp_attr.c
//@ defs: -DXT_FN=$FN
//@ enforce: $FN
//@ props: C10
//@ expect: postcondition>=5 canary=3
#include "_unit.h"
void harness(void)
{
    xv_ghost_havoc();
    xv_sockopt_havoc();
    int fd; int64_t *value;
    int rv = XT_FN(fd, value);
    if (rv == 8) XV_CANARY("value reported");
    if (rv == -1 && xv_errno == ENOENT && xv_gso_rc == 0) XV_CANARY("field not available in this kernel");
    if (rv == -1 && xv_gso_rc == -1) XV_CANARY("getsockopt failed");
}
