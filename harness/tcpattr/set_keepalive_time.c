//@ tu: libxcm/tp/tcp/tcp_attr.c
//@ enforce: tcp_set_keepalive_time
//@ props: C11 C10
//@ expect: postcondition>=10 canary=6
#include "_unit.h"
void harness(void)
{
    xv_ghost_havoc();
    xv_sockopt_havoc();
    xv_g_inforce = nondet_bool();
    struct tcp_opts *opts; int fd; int64_t value;
    long calls = xv_so_calls, fails = xv_so_fails;
    int rv = tcp_set_keepalive_time(opts, fd, value);
    if (rv == 0 && xv_so_calls == calls) XV_CANARY("accepted, no system call (no descriptor or same value)");
    if (rv == 0 && xv_so_calls == calls + 1 && fd == 7) XV_CANARY("accepted and written to fd 7");
    if (rv == 0 && value == 1 && fd >= 0 && xv_so_calls == calls + 1) XV_CANARY("accepted: smallest value");
    if (rv == 0 && value > 2000000 && fd >= 0 && xv_so_calls == calls + 1) XV_CANARY("accepted: large value");
    if (rv == -1 && xv_errno == EINVAL && xv_so_calls == calls) XV_CANARY("rejected EINVAL");
    if (rv == -1 && xv_so_fails == fails + 1) XV_CANARY("kernel refused");
}
