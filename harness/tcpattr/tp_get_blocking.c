//@ tu: libxcm/tp/common/xcm_tp.c
//@ enforce: get_blocking_attr
//@ replace: xcm_tp_get_bool_attr
//@ props: C10
//@ expect: postcondition>=2 canary=3
#include "_unit_tp.h"
void harness(void)
{
    xv_ghost_havoc();
    xv_tp_havoc();
    struct xcm_socket *s; void *context; void *value; size_t capacity;
    int rv = get_blocking_attr(s, context, value, capacity);
    if (rv >= 1 && capacity == (size_t)rv) XV_CANARY("fits exactly");
    if (rv >= 1 && capacity > 1000) XV_CANARY("fits, room to spare");
    if (rv == -1 && xv_errno == EOVERFLOW && capacity == 0) XV_CANARY("capacity 0: EOVERFLOW");
}
