/* tcpattr unit, part 1: the REAL libxcm/tp/tcp/tcp_attr.c against the setsockopt/getsockopt ghost record */
#include "prelude.h"
#include "tcp_attr.c"
#include "env/base.h"
#include "env/sockopt.h"
#define XT_TCPATTR
#include "contracts/tcpattr.h"
