//@ tu: libxcm/tp/common/xcm_tp.c
//@ enforce: addr_to_attr
//@ replace: xcm_tp_get_str_attr
//@ props: C10
//@ expect: postcondition>=3 canary=5
#include "_unit_tp.h"
void harness(void)
{
    xv_ghost_havoc();
    xv_tp_havoc();
    const char *addr; void *context; void *value; size_t capacity;
    int rv = addr_to_attr(addr, value, capacity);
    if (rv >= 1 && capacity == (size_t)rv) XV_CANARY("fits exactly");
    if (rv >= 1 && capacity > 1000) XV_CANARY("fits, room to spare");
    if (rv == -1 && xv_errno == EOVERFLOW && capacity == 0) XV_CANARY("capacity 0: EOVERFLOW");
    if (rv == -1 && xv_errno == EOVERFLOW && capacity > 0) XV_CANARY("one byte short or more: EOVERFLOW");
    if (rv == -1 && xv_errno == ENOENT) XV_CANARY("no address: ENOENT");
}
