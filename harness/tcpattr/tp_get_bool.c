//@ variant: exact G=0
//@ variant: guard G=16
//@ tu: libxcm/tp/common/xcm_tp.c
//@ defs: -DXV_GUARD=$G
//@ enforce: xcm_tp_get_bool_attr
//@ props: C10
//@ expect: postcondition>=3 canary=4
#include "_unit_tp.h"
void harness(void)
{
    xv_ghost_havoc();
    xv_tp_havoc();
    bool value; void *buf; size_t capacity;
    int rv = xcm_tp_get_bool_attr(value, buf, capacity);
    if (rv >= 1 && capacity == (size_t)rv) XV_CANARY("fits exactly");
    if (rv >= 1 && capacity > 1000) XV_CANARY("fits, room to spare");
    /* the outcome of a too small buffer is deliberately not part of the canary condition: it is what is being decided */
    if (capacity == 0) XV_CANARY("returns for capacity 0");
    if (capacity + 1 == sizeof(bool)) XV_CANARY("returns for a buffer one byte short");
}
