//@ tu: libxcm/tp/common/xcm_tp.c
//@ enforce: xcm_tp_get_str_attr
//@ pre-unwind: strlen.0:9 strcpy.0:9
//@ props: C10
//@ expect: postcondition>=3 canary=4
#include "_unit_tp.h"
void harness(void)
{
    xv_ghost_havoc();
    xv_tp_havoc();
    const char *value; void *buf; size_t capacity;
    int rv = xcm_tp_get_str_attr(value, buf, capacity);
    if (rv >= 1 && capacity == (size_t)rv) XV_CANARY("fits exactly");
    if (rv >= 1 && capacity > 1000) XV_CANARY("fits, room to spare");
    if (rv == -1 && xv_errno == EOVERFLOW && capacity == 0) XV_CANARY("capacity 0: EOVERFLOW");
    if (rv == -1 && xv_errno == EOVERFLOW && capacity > 0) XV_CANARY("one byte short or more: EOVERFLOW");
}
