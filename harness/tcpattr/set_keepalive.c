//@ tu: libxcm/tp/tcp/tcp_attr.c
//@ enforce: tcp_set_keepalive
//@ props: C11 C10
//@ expect: postcondition>=8 canary=4
#include "_unit.h"
void harness(void)
{
    xv_ghost_havoc();
    xv_sockopt_havoc();
    xv_g_inforce = nondet_bool();
    struct tcp_opts *opts; int fd; bool keepalive;
    long calls = xv_so_calls, fails = xv_so_fails;
    int rv = tcp_set_keepalive(opts, fd, keepalive);
    if (rv == 0 && xv_so_calls == calls) XV_CANARY("accepted, no system call (no descriptor or same value)");
    if (rv == 0 && xv_so_calls == calls + 1 && fd == 7 && keepalive) XV_CANARY("switched on on fd 7");
    if (rv == 0 && xv_so_calls == calls + 1 && fd == 7 && !keepalive) XV_CANARY("switched off on fd 7");
    if (rv == -1 && xv_so_fails == fails + 1) XV_CANARY("kernel refused");
}
