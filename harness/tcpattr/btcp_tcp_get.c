//@ variant: keepalive N=keepalive
//@ variant: keepalive_time N=keepalive_time
//@ variant: keepalive_interval N=keepalive_interval
//@ variant: keepalive_count N=keepalive_count
//@ variant: user_timeout N=user_timeout
//@ tu: libxcm/tp/tcp/tcp_attr.c libxcm/tp/tcp/xcm_tp_btcp.c
//@ defs: -DXT_FN=get_$N_attr -DXV_GUARD=16
//@ enforce: get_$N_attr
//@ props: C10 C11
//@ expect: postcondition>=4 canary=3
#include "_unit_btcp.h"
void harness(void)
{
    xv_ghost_havoc();
    xv_sockopt_havoc();
    struct xcm_socket *s; void *context; void *value; size_t capacity;
    int rv = XT_FN(s, context, value, capacity);
    if (rv >= 1 && capacity == (size_t)rv) XV_CANARY("fits exactly");
    if (rv >= 1 && capacity > 1000) XV_CANARY("fits, room to spare");
    /* the outcome of a too small buffer is deliberately not part of the canary condition: it is what is being decided */
    if (capacity == 0) XV_CANARY("returns for capacity 0");
}
