//@ tu: libxcm/tp/tcp/tcp_attr.c libxcm/tp/tcp/xcm_tp_btcp.c
//@ defs: -DXV_GUARD=16
//@ enforce: get_scope_attr
//@ props: C10
//@ expect: postcondition>=5 canary=4
#include "_unit_btcp.h"
void harness(void)
{
    xv_ghost_havoc();
    xv_sockopt_havoc();
    struct xcm_socket *s; void *context; void *value; size_t capacity;
    int rv = get_scope_attr(s, context, value, capacity);
    if (rv == 8 && capacity == 8) XV_CANARY("fits exactly");
    if (rv == -1 && xv_errno == ENOENT) XV_CANARY("IPv4 socket: ENOENT");
    /* the outcome of a too small buffer is deliberately not part of the canary condition: it is what is being decided */
    if (capacity == 0) XV_CANARY("returns for capacity 0");
    if (capacity == 1) XV_CANARY("returns for capacity 1");
}
