//@ variant: rtt N=rtt
//@ variant: total_retrans N=total_retrans
//@ variant: segs_in N=segs_in
//@ variant: segs_out N=segs_out
//@ tu: libxcm/tp/tcp/tcp_attr.c libxcm/tp/tcp/xcm_tp_btcp.c
//@ defs: -DXT_FN=get_$N_attr -DXV_GUARD=16
//@ enforce: get_$N_attr
//@ replace: tcp_get_$N_attr
//@ props: C10
//@ expect: postcondition>=4 canary=4
#include "_unit_btcp.h"
void harness(void)
{
    xv_ghost_havoc();
    xv_sockopt_havoc();
    struct xcm_socket *s; void *context; void *value; size_t capacity;
    int rv = XT_FN(s, context, value, capacity);
    if (rv == 8 && capacity == 8) XV_CANARY("fits exactly");
    if (rv == -1 && capacity >= 8) XV_CANARY("kernel has no value");
    /* the outcome of a too small buffer is deliberately not part of the canary condition: it is what is being decided */
    if (capacity == 0) XV_CANARY("returns for capacity 0");
    if (capacity == 1) XV_CANARY("returns for capacity 1 (xcm_attr_get_bool on an int64 attribute)");
}
