//@ tu: libxcm/tp/tcp/tcp_attr.c
//@ enforce: tcp_opts_effectuate
//@ props: C11
//@ expect: postcondition>=6 canary=4
#include "_unit.h"
void harness(void)
{
    xv_ghost_havoc();
    xv_sockopt_havoc();
    struct tcp_opts *opts; int fd;
    long fails = xv_so_fails, gfails = xv_gsn_fails;
    int rv = tcp_opts_effectuate(opts, fd);
    if (rv == 0 && xv_fd_family == AF_INET) XV_CANARY("all accepted, IPv4");
    if (rv == 0 && xv_fd_family == AF_INET6) XV_CANARY("all accepted, IPv6");
    if (rv == -1 && xv_so_fails == fails + 1 && xv_gsn_fails == gfails) XV_CANARY("one option refused");
    if (rv == -1 && xv_so_fails == fails && xv_gsn_fails == gfails + 1) XV_CANARY("getsockname failed");
}
