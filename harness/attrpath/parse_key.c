//@ tu: libxcm/core/attr_path.c
//@ enforce: attr_pcomp_parse_key
//@ loops: attrpath.loops
//@ pre-unwind: strlen.0:257
//@ defs: -DXV_AP_STRDUP_GHOST
//@ props: C10 C19
//@ expect: postcondition>=6 canary=3
#include "_unit.h"
void harness(void)
{
    xv_ghost_havoc(); AP_GHOST_HAVOC();
    const char *path_str; struct attr_pcomp *slot = NULL;
    int rv = attr_pcomp_parse_key(path_str, &slot);
    if (rv == -1) XV_CANARY("empty key");
    if (rv == 1) XV_CANARY("one-character key");
    if (rv == ATTR_PATH_NAME_MAX) XV_CANARY("255-character key");
}
