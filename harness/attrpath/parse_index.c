//@ tu: libxcm/core/attr_path.c
//@ enforce: attr_pcomp_parse_index
//@ defs: -DXV_AP_STRICT_INDEX
//@ props: C10 C19
//@ expect: postcondition>=6 canary=4
#include "_unit.h"
void harness(void)
{
    xv_ghost_havoc(); AP_GHOST_HAVOC();
    const char *path_str; struct attr_pcomp *slot = NULL;
    int rv = attr_pcomp_parse_index(path_str, &slot);
    if (rv == -1) XV_CANARY("rejected");
    if (rv == 2 && xv_ap_strtol_val == 7) XV_CANARY("single digit");
    if (rv > 0 && xv_ap_strtol_val == LONG_MAX - 1) XV_CANARY("largest index");
    if (rv == ATTR_PATH_NAME_MAX) XV_CANARY("255 characters consumed");
}
