//@ tu: libxcm/core/attr_path.c
//@ enforce: attr_path_equal
//@ pre-unwind: attr_path_equal.0:6 strcmp.0:9
//@ bounded: two arbitrary well-shaped paths of 0..4 components each (key or index, any index value), keys of 0..7 characters
//@ props: C19
//@ expect: postcondition>=5 canary=3
#include "_unit.h"
void harness(void)
{
    xv_ghost_havoc(); AP_GHOST_HAVOC();
    const struct attr_path *a, *b;
    bool eq = attr_path_equal(a, b);
    if (eq && xv_ap_j == 3 && xv_ap_q == 2 && xv_ap_g_key == NULL) XV_CANARY("equal");
    if (!eq) XV_CANARY("different");
    if (eq) XV_CANARY("equal paths");
}
