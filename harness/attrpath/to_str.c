//@ tu: libxcm/core/attr_path.c
//@ enforce: attr_path_to_str
//@ replace: attr_path_len
//@ pre-unwind: attr_path_to_str.0:6 xv_ap_puts.0:17 xv_ap_putzd.0:21 xv_ap_putzd.1:21
//@ bounded: arbitrary well-shaped path of 0..4 components (key or index below LONG_MAX), keys of 0..15 characters
//@ props: C10 C19
//@ expect: postcondition>=4 canary=2
#include "_unit.h"
void harness(void)
{
    xv_ghost_havoc(); AP_GHOST_HAVOC();
    const struct attr_path *p; bool root;
    char *s = attr_path_to_str(p, root);
    if (root) XV_CANARY("root path printed");
    if (!root) XV_CANARY("relative path printed");
}
