//@ tu: libxcm/core/xcm_attr_map.c
//@ nondfcc: 1
//@ bounded: map built by <= 3 real xcm_attr_map_add() calls (0..3 entries), names 0..3 chars, str/bin values <= 4 bytes, bool/int64/double fixed size, all five types; clone, then one arbitrary add or del on the clone (or on the original), then destroy of the mutated map; law stated for an arbitrary key of 0..3 chars
//@ pre-unwind: strcmp.0:5 strlen.0:5 lookup_attr.0:6 xcm_attr_map_size.0:6 xcm_attr_map_destroy.1:6 xcm_attr_map_foreach.0:5 ut_strdup.0:6
//@ props: C19
//@ expect: assertion>=6 canary=3
#include "_map.h"
/* LAW clone: lookup(C, k) == lookup(M, k) for every k, size equal, C equal to M; the clone shares NO storage with the
 * original (values live in different objects) and is independent: mutating/destroying one leaves the other unchanged */
void harness(void)
{
    xv_ghost_havoc();
    struct xm_ent e[XM_ADDS], a; unsigned n; char k[XM_NAME], d[XM_NAME];
    struct xcm_attr_map *m = xm_map_any(e, &n);
    xm_key_any(k); xm_key_any(d); xm_ent_any(&a);
    struct xm_look lm, lc, lm2;
    xm_lookup(m, k, &lm);

    struct xcm_attr_map *c = xcm_attr_map_clone(m);

    xm_lookup(c, k, &lc);
    XV_ASSERT(c != m, "PO[C19] map_clone.distinct_map");
    XV_ASSERT(xcm_attr_map_size(c) == xcm_attr_map_size(m), "PO[C19] map_clone.same_size");
    XV_ASSERT(xm_look_same(&lm, &lc), "PO[C19] map_clone.same_lookup");
    XV_ASSERT(!lc.present || !__CPROVER_same_object(lc.ptr, lm.ptr), "PO[C19] map_clone.deep_copy_of_value");
    if (lc.present) XV_CANARY("key present in clone");
    /* independence: mutate one of the two, destroy it, the other one still answers as before */
    bool mutate_clone = nondet_bool();
    struct xcm_attr_map *victim = mutate_clone ? c : m, *other = mutate_clone ? m : c;
    if (nondet_bool()) { xm_add(victim, &a); XV_CANARY("mutated by add"); }
    else { xcm_attr_map_del(victim, d); XV_CANARY("mutated by del"); }
    xm_lookup(other, k, &lm2);
    XV_ASSERT(xm_look_same(&lm, &lm2), "PO[C19] map_clone.independent_after_mutation");
    xcm_attr_map_destroy(victim);
    xm_lookup(other, k, &lm2);
    XV_ASSERT(xm_look_same(&lm, &lm2), "PO[C19] map_clone.independent_after_destroy");
    xcm_attr_map_destroy(other);
}
