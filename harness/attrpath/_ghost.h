/* harness/attrpath/_ghost.h -- ghost state and vocabulary of the attr_path unit.  Included BEFORE the real TU because the
 * loop contract spliced into attr_pcomp_parse_key (loops/attrpath.loops) uses it; havocked by AP_GHOST_HAVOC().
 *
 * The string under parse lives in the object xv_ap_base (ghost pointer) of AP_STR_MAX bytes and occupies its LAST
 * xv_ap_len+1 bytes: the NUL is the last byte of the object, so reading past the NUL is an out-of-bounds obligation.  A
 * fixed object size keeps the solver away from variable-size arrays.  Strings of 0..299 characters are explored: 0..255
 * are within the length gate, 256..299 are over-long; a longer string takes the same path as those (strlen, compare,
 * return NULL).  The component parsers get a pointer INTO that object; their contracts speak about one arbitrary
 * position xv_ap_q (never assigned), which proves the fact for every position. */
#ifndef XV_ATTRPATH_GHOST_H
#define XV_ATTRPATH_GHOST_H
const char *xv_ap_base; /* the object holding the string handed to attr_path_parse */
size_t xv_ap_len;       /* its strlen */
size_t xv_ap_j;         /* arbitrary component number (never assigned) */
size_t xv_ap_q;         /* arbitrary character position, relative to the pointer a function got (never assigned) */
size_t xv_ap_a;         /* arbitrary ABSOLUTE position in the string object (never assigned) */
long xv_ap_strtol_val;   /* value returned by the last strtol (env/attrpath_env.h) */
size_t xv_ap_strtol_used;/* number of characters it consumed (end - nptr) */
#define AP_STR_MAX 300
#define AP_END (AP_STR_MAX - 1)
#define AP_OFF(p) ((size_t)__CPROVER_POINTER_OFFSET(p))
#define AP_REM(p) (AP_END - AP_OFF(p))     /* strlen(p) for p inside the string */
/* character classes through ONE table lookup, so that a clause mentions the character (a memory read at a symbolic
 * offset, the cost driver of this unit) only once */
#define AP_C_SPACE 1    /* isspace() in the C locale */
#define AP_C_SIGN 2
#define AP_C_DIGIT 4
#define AP_C_SPECIAL 8  /* ATTR_PATH_INDEX_START, _INDEX_END, _KEY_DELIM (checked against attr_path.h in contracts/attrpath.h) */
#define AP_C_NUL 16
static const unsigned char xv_ap_cls[256] = {
    [0] = AP_C_NUL, ['\t'] = AP_C_SPACE, ['\n'] = AP_C_SPACE, ['\v'] = AP_C_SPACE, ['\f'] = AP_C_SPACE, ['\r'] = AP_C_SPACE, [' '] = AP_C_SPACE,
    ['+'] = AP_C_SIGN, ['-'] = AP_C_SIGN,
    ['0'] = AP_C_DIGIT, ['1'] = AP_C_DIGIT, ['2'] = AP_C_DIGIT, ['3'] = AP_C_DIGIT, ['4'] = AP_C_DIGIT,
    ['5'] = AP_C_DIGIT, ['6'] = AP_C_DIGIT, ['7'] = AP_C_DIGIT, ['8'] = AP_C_DIGIT, ['9'] = AP_C_DIGIT,
    ['['] = AP_C_SPECIAL, [']'] = AP_C_SPECIAL, ['.'] = AP_C_SPECIAL };
#define AP_CLS(c) (xv_ap_cls[(c) & 0xff])
#define AP_SPECIAL(c) ((AP_CLS(c) & AP_C_SPECIAL) != 0)
#define AP_KEYCHAR(c) ((AP_CLS(c) & (AP_C_SPECIAL | AP_C_NUL)) == 0)
#define AP_DIGIT(c) ((AP_CLS(c) & AP_C_DIGIT) != 0)
#define AP_SPACE(c) ((AP_CLS(c) & AP_C_SPACE) != 0)
#define AP_NUMCHAR(c) ((AP_CLS(c) & (AP_C_SPACE | AP_C_SIGN | AP_C_DIGIT)) != 0)   /* what strtol may consume */
#endif
