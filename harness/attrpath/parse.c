//@ tu: libxcm/core/attr_path.c
//@ enforce: attr_path_parse
//@ replace: attr_pcomp_parse attr_pcomp_parse_key attr_path_destroy
//@ loops: attrpath.loops
//@ pre-unwind: strlen.0:2
//@ props: C10 C19
//@ expect: postcondition>=6 canary=5
#include "_unit.h"
/* attr_path_parse on EVERY string of 0..299 characters (see _ghost.h), root and non-root.  The component parsers are
 * replaced by their contracts (proved in parse_key, parse_index, pcomp_parse); attr_pcomp_parse_root is inlined; the
 * outer loop carries a loop contract; attr_path_destroy (failure path) is replaced by its contract with the heap-shape
 * part of its precondition TRUSTED (xv_ap_trust_shape, see contracts/attrpath.h). */
void harness(void)
{
    xv_ghost_havoc(); AP_GHOST_HAVOC();
    xv_ap_trust_shape = 1;
    const char *path_str; bool root;
    struct attr_path *p = attr_path_parse(path_str, root);
    if (p == NULL && xv_ap_len > ATTR_PATH_NAME_MAX) XV_CANARY("over-long string rejected");
    if (p == NULL && xv_ap_len <= ATTR_PATH_NAME_MAX) XV_CANARY("malformed string rejected");
    if (p != NULL && xv_ap_len == 0) XV_CANARY("empty path");
    if (p != NULL && xv_ap_len == ATTR_PATH_NAME_MAX) XV_CANARY("255-character path parsed");
    if (p != NULL && xv_ap_len == 3 && root) XV_CANARY("root path parsed");
}
