//@ tu: libxcm/core/xcm_attr_map.c
//@ nondfcc: 1
//@ bounded: source map built by <= 2 and destination map by <= 2 real xcm_attr_map_add() calls, names 0..3 chars, str/bin values <= 4 bytes, bool/int64/double fixed size, all five types; law stated for an arbitrary key of 0..3 chars
//@ pre-unwind: strcmp.0:5 strlen.0:5 lookup_attr.0:6 xcm_attr_map_size.0:6 xcm_attr_map_destroy.1:6 xcm_attr_map_foreach.0:4 ut_strdup.0:6
//@ props: C19
//@ expect: assertion>=5 canary=3
#include "_map.h"
/* LAW add_all: lookup(D', k) == (k in S ? lookup(S, k) : lookup(D, k));  S unchanged;  add_all(M, M) is a no-op */
void harness(void)
{
    xv_ghost_havoc();
    struct xm_ent s0, s1, d0, d1; char k[XM_NAME];
    xm_ent_any(&s0); xm_ent_any(&s1); xm_ent_any(&d0); xm_ent_any(&d1); xm_key_any(k);
    struct xcm_attr_map *s = xcm_attr_map_create(), *d = xcm_attr_map_create();
    unsigned ns = nondet_uint(), nd = nondet_uint();
    __CPROVER_assume(ns <= 2 && nd <= 2);
    if (ns > 0) xm_add(s, &s0);
    if (ns > 1) xm_add(s, &s1);
    if (nd > 0) xm_add(d, &d0);
    if (nd > 1) xm_add(d, &d1);
    struct xm_look ls, ld, ls2, ld2;
    xm_lookup(s, k, &ls); xm_lookup(d, k, &ld);
    size_t ssize = xcm_attr_map_size(s);

    xcm_attr_map_add_all(d, s);

    xm_lookup(s, k, &ls2); xm_lookup(d, k, &ld2);
    XV_ASSERT(xm_look_same(&ls, &ls2) && xcm_attr_map_size(s) == ssize, "PO[C19] map_add_all.source_unchanged");
    XV_ASSERT(xm_look_same(&ld2, ls.present ? &ls : &ld), "PO[C19] map_add_all.lookup_law");
    XV_ASSERT(!ld2.present || !ls.present || !__CPROVER_same_object(ld2.ptr, ls.ptr), "PO[C19] map_add_all.values_copied_not_shared");
    XV_ASSERT(xcm_attr_map_size(d) >= ssize && xcm_attr_map_size(d) <= 4, "PO[C19] map_add_all.size_range");
    if (ls.present && ld.present) XV_CANARY("source overrides destination");
    if (!ls.present && ld.present) XV_CANARY("destination entry kept");
    /* self application */
    size_t dsize = xcm_attr_map_size(d);
    xcm_attr_map_add_all(d, d);
    struct xm_look ld3;
    xm_lookup(d, k, &ld3);
    XV_ASSERT(xm_look_same(&ld2, &ld3) && ld3.ptr == ld2.ptr && xcm_attr_map_size(d) == dsize, "PO[C19] map_add_all.self_is_noop");
    if (dsize == 4) XV_CANARY("four entries after merge");
    xcm_attr_map_destroy(s);
    xcm_attr_map_destroy(d);
}
