//@ variant: num_comps FN=attr_path_num_comps DEFS=-DAPV=1
//@ variant: get_comp FN=attr_path_get_comp DEFS=-DAPV=2
//@ variant: get_type FN=attr_pcomp_get_type DEFS=-DAPV=3
//@ variant: is_key FN=attr_pcomp_is_key DEFS=-DAPV=4
//@ variant: is_index FN=attr_pcomp_is_index DEFS=-DAPV=5
//@ variant: get_key FN=attr_pcomp_get_key DEFS=-DAPV=6
//@ variant: get_index FN=attr_pcomp_get_index DEFS=-DAPV=7
//@ tu: libxcm/core/attr_path.c
//@ enforce: $FN
//@ defs: $DEFS
//@ props: C10 C19
//@ expect: postcondition>=1 canary=1
#include "_unit.h"
/* the accessors of attr_path / attr_pcomp: one variant per function (their ut_assert()s are the API preconditions) */
void harness(void)
{
    xv_ghost_havoc(); AP_GHOST_HAVOC();
    const struct attr_path *p; size_t n; const struct attr_pcomp *c;
#if APV == 1
    size_t k = attr_path_num_comps(p);
    if (k == 0) XV_CANARY("returned");
#elif APV == 2
    const struct attr_pcomp *r = attr_path_get_comp(p, n);
    if (n == ATTR_PATH_COMP_MAX - 1) XV_CANARY("last slot read");
#elif APV == 3
    enum attr_pcomp_type t = attr_pcomp_get_type(c);
    if (t == attr_pcomp_type_index) XV_CANARY("returned");
#elif APV == 4
    if (attr_pcomp_is_key(c)) XV_CANARY("returned");
#elif APV == 5
    if (attr_pcomp_is_index(c)) XV_CANARY("returned");
#elif APV == 6
    const char *k = attr_pcomp_get_key(c);
    XV_CANARY("returned");
#else
    size_t i = attr_pcomp_get_index(c);
    if (i == 7) XV_CANARY("returned");
#endif
}
