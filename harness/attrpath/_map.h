/* common part of the BOUNDED xcm_attr_map harnesses (plain CBMC, `nondfcc: 1`): prelude, REAL TU
 * libxcm/core/xcm_attr_map.c, env.  The list is a heap-linked structure of unbounded length: CBMC has no inductive heap
 * predicates, so these jobs explore ALL maps within the stated bound and are labelled `bounded:` (never counted as proof).
 *
 * BOUND (every job): a map is built by up to XM_ADDS = 3 calls of the real xcm_attr_map_add() with nondeterministic
 * arguments (so it has 0..3 entries, duplicates included in the call sequence); names are strings of 0..3 characters
 * (4-byte buffers); str/bin values have 1..4 / 0..4 bytes, bool/int64/double values their fixed 1/8/8 bytes; all five
 * types.  The key for which a law is stated (`k`) is an arbitrary string of 0..3 characters.
 *
 * The laws are stated relationally on the PUBLIC API: lookup(M, k) is what xcm_attr_map_get() returns. */
#include "prelude.h"
#include "_ghost.h"
#include "xcm_attr_map.c"
#include "env/base.h"
#include "env/attrpath_env.h"

#define XM_ADDS 3
#define XM_NAME 4      /* name buffer: up to 3 characters + NUL */
#define XM_VAL 8       /* value buffer */

struct xm_ent { char name[XM_NAME]; enum xcm_attr_type type; uint8_t val[XM_VAL]; size_t len; };
struct xm_ent nondet_xm_ent(void);
char nondet_char(void);

/* (helpers are written without loops: every loop of a job must be closed explicitly, see bin/xv)
 * the first min(len, 8) bytes at p, packed; bytes at and beyond len read as 0 */
#define XM_B(p, len, i) ((i) < (len) ? (uint64_t)((const uint8_t *)(p))[i] << (8 * (i)) : (uint64_t)0)
static uint64_t xm_bytes(const void *p, size_t len)
{
    return XM_B(p, len, 0) | XM_B(p, len, 1) | XM_B(p, len, 2) | XM_B(p, len, 3) |
           XM_B(p, len, 4) | XM_B(p, len, 5) | XM_B(p, len, 6) | XM_B(p, len, 7);
}
/* an arbitrary legal (name, type, value, len) tuple */
static void xm_ent_any(struct xm_ent *e)
{
    *e = nondet_xm_ent();
    e->name[XM_NAME - 1] = '\0';
    unsigned t = nondet_uint();
    __CPROVER_assume(t <= 4);
    e->type = t == 0 ? xcm_attr_type_bool : t == 1 ? xcm_attr_type_int64 : t == 2 ? xcm_attr_type_double :
              t == 3 ? xcm_attr_type_str : xcm_attr_type_bin;
    size_t len = e->len;
    switch (e->type) {
    case xcm_attr_type_bool: __CPROVER_assume(len == sizeof(bool)); break;
    case xcm_attr_type_int64: __CPROVER_assume(len == sizeof(int64_t)); break;
    case xcm_attr_type_double: __CPROVER_assume(len == sizeof(double)); break;
    case xcm_attr_type_str: __CPROVER_assume(len >= 1 && len <= 4 && e->val[len - 1] == 0); break;
    case xcm_attr_type_bin: __CPROVER_assume(len <= 4); break;
    }
}
static void xm_key_any(char *k)
{
    k[0] = nondet_char(); k[1] = nondet_char(); k[2] = nondet_char();
    k[XM_NAME - 1] = '\0';
}
static void xm_add(struct xcm_attr_map *m, const struct xm_ent *e)
{
    xcm_attr_map_add(m, e->name, e->type, e->val, e->len);
}
/* an arbitrary map within the bound, built with the real API; the tuples used are left in e[0..*n) */
static struct xcm_attr_map *xm_map_any(struct xm_ent e[XM_ADDS], unsigned *n)
{
    struct xcm_attr_map *m = xcm_attr_map_create();
    unsigned cnt = nondet_uint();
    __CPROVER_assume(cnt <= XM_ADDS);
    xm_ent_any(&e[0]); xm_ent_any(&e[1]); xm_ent_any(&e[2]);
    if (0 < cnt) xm_add(m, &e[0]);
    if (1 < cnt) xm_add(m, &e[1]);
    if (2 < cnt) xm_add(m, &e[2]);
    *n = cnt;
    return m;
}
/* snapshot of lookup(M, k): presence, type, length and a byte-exact COPY of the value (the map may free its storage) */
struct xm_look { bool present; enum xcm_attr_type type; size_t len; uint64_t val; const void *ptr; };
static void xm_lookup(const struct xcm_attr_map *m, const char *k, struct xm_look *l)
{
    enum xcm_attr_type t = xcm_attr_type_bool; size_t len = 0;
    const void *v = xcm_attr_map_get(m, k, &t, &len);
    l->present = v != NULL; l->ptr = v;
    l->type = v != NULL ? t : xcm_attr_type_bool;
    l->len = v != NULL ? len : 0;
    l->val = v != NULL ? xm_bytes(v, len) : 0;
}
static bool xm_look_same(const struct xm_look *a, const struct xm_look *b)
{
    return a->present == b->present && (!a->present || (a->type == b->type && a->len == b->len && a->val == b->val));
}
static bool xm_look_is(const struct xm_look *a, const struct xm_ent *e)
{
    return a->present && a->type == e->type && a->len == e->len && a->val == xm_bytes(e->val, e->len);
}
static bool xm_streq(const char *a, const char *b)
{
    if (a[0] != b[0]) return false; if (a[0] == '\0') return true;
    if (a[1] != b[1]) return false; if (a[1] == '\0') return true;
    if (a[2] != b[2]) return false; if (a[2] == '\0') return true;
    return a[3] == b[3];
}
