//@ tu: libxcm/core/attr_path.c
//@ enforce: attr_pcomp_parse
//@ replace: attr_pcomp_parse_key attr_pcomp_parse_index
//@ pre-unwind: strlen.0:2
//@ props: C10 C19
//@ expect: postcondition>=11 canary=4
#include "_unit.h"
void harness(void)
{
    xv_ghost_havoc(); AP_GHOST_HAVOC();
    const char *path_str; struct attr_pcomp *slot = NULL;
    int rv = attr_pcomp_parse(path_str, &slot);
    if (rv == -1) XV_CANARY("rejected");
    if (rv == 0) XV_CANARY("end of string");
    if (rv == 2 && slot != NULL) XV_CANARY("shortest component");
    if (rv == ATTR_PATH_NAME_MAX) XV_CANARY("255 characters consumed");
}
