//@ tu: libxcm/core/xcm_attr_map.c
//@ nondfcc: 1
//@ bounded: map built by <= 3 real xcm_attr_map_add() calls (0..3 entries), names 0..3 chars, str/bin values <= 4 bytes, bool/int64/double fixed size, all five types; one further add; law stated for an arbitrary key of 0..3 chars
//@ pre-unwind: strcmp.0:5 strlen.0:5 lookup_attr.0:5 xcm_attr_map_size.0:6 xcm_attr_map_destroy.1:6 ut_strdup.0:6
//@ props: C19
//@ expect: assertion>=8 canary=3
//@ timeout: 600
#include "_map.h"
/* LAW add: lookup'(k) == (k == n ? (t, v, len) : lookup(k));  size' == size + (n in M ? 0 : 1);  the stored value is a
 * byte-exact PRIVATE copy (different object than the caller's buffer, unaffected by later writes to that buffer) */
void harness(void)
{
    xv_ghost_havoc();
    struct xm_ent e[XM_ADDS], a; unsigned n; char k[XM_NAME];
    struct xcm_attr_map *m = xm_map_any(e, &n);
    xm_key_any(k); xm_ent_any(&a);
    struct xm_look before, after, later;
    xm_lookup(m, k, &before);
    size_t size0 = xcm_attr_map_size(m);
    bool had = xcm_attr_map_exists(m, a.name);

    xm_add(m, &a);

    xm_lookup(m, k, &after);
    XV_ASSERT(xcm_attr_map_size(m) == size0 + (had ? 0 : 1), "PO[C19] map_add.size_law");
    XV_ASSERT(xcm_attr_map_size(m) >= 1 && xcm_attr_map_size(m) <= XM_ADDS + 1, "PO[C19] map_add.size_range");
    XV_ASSERT(xcm_attr_map_exists(m, a.name), "PO[C19] map_add.exists_after");
    if (xm_streq(k, a.name)) {
        XV_ASSERT(xm_look_is(&after, &a), "PO[C19] map_add.lookup_new_is_added_value");
        XV_ASSERT(!__CPROVER_same_object(after.ptr, a.val) && !__CPROVER_same_object(after.ptr, &a), "PO[C19] map_add.value_is_private_copy");
        /* the caller's buffers may be reused at once */
        a.val[0] ^= 0xff; a.val[1] ^= 0xff; a.val[2] ^= 0xff; a.val[3] ^= 0xff; a.val[7] ^= 0xff; a.name[0] ^= 0x55;
        xm_lookup(m, k, &later);
        XV_ASSERT(xm_look_same(&after, &later), "PO[C19] map_add.copy_independent_of_caller_buffer");
        if (before.present) XV_CANARY("replaced an existing entry");
        else XV_CANARY("added a new entry");
    } else {
        XV_ASSERT(xm_look_same(&before, &after), "PO[C19] map_add.other_keys_unchanged");
        if (before.present && had) XV_CANARY("other key present while replacing");
    }
    xcm_attr_map_destroy(m);
}
