/* harness/attrpath/_spec.h -- reference recogniser used by the bounded jobs syntax and roundtrip */
/* the documented syntax, with the index text as strtol reads it (white space, sign, digits): reference recogniser.
 *   root:      [key] { "." key | "[" index "]" }        non-root:  { "." key | "[" index "]" }
 *   key:       one or more characters other than "." "[" "]"
 *   index:     isspace* [+-]? digit+   with a value in 0..LONG_MAX-1 (always true for <= 6 characters; "-0" is 0) */
static bool ap_spec(const char *s, bool root)
{
    enum { KEY0, KEY, NEXT, IDX_WS, IDX_SIGNED, IDX_DIG, BAD } st = root ? KEY0 : NEXT;
    bool neg = false, nonzero = false;
    size_t i;
    if (root && s[0] == 0) return true;
    for (i = 0; s[i] != 0; i++) {     /* loop ap_spec.0 */
        char c = s[i];
        switch (st) {
        case KEY0: st = AP_KEYCHAR(c) ? KEY : BAD; break;
        case KEY: st = AP_KEYCHAR(c) ? KEY : c == '.' ? KEY0 : c == '[' ? IDX_WS : BAD; break;
        case NEXT: st = c == '.' ? KEY0 : c == '[' ? IDX_WS : BAD; break;
        case IDX_WS: neg = false; nonzero = false;
            if (AP_SPACE(c)) st = IDX_WS;
            else if (c == '-') { neg = true; st = IDX_SIGNED; }
            else if (c == '+') st = IDX_SIGNED;
            else if (AP_DIGIT(c)) { nonzero = c != '0'; st = IDX_DIG; }
            else st = BAD;
            break;
        case IDX_SIGNED: if (AP_DIGIT(c)) { nonzero = c != '0'; st = IDX_DIG; } else st = BAD; break;
        case IDX_DIG: if (AP_DIGIT(c)) { nonzero = nonzero || c != '0'; st = IDX_DIG; }
            else if (c == ']') st = (neg && nonzero) ? BAD : NEXT;
            else st = BAD;
            break;
        default: st = BAD; break;
        }
    }
    return st == KEY || st == NEXT;
}
