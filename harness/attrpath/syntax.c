//@ tu: libxcm/core/attr_path.c
//@ nondfcc: 1
//@ bounded: every string of 0..6 arbitrary characters (7-byte buffer whose last byte is the NUL), root and non-root; real attr_path_parse/attr_path_destroy and all they call inlined, exact strtol/strdup models
//@ pre-unwind: attr_path_parse.0:6 attr_pcomp_parse_key.0:8 strtol.0:8 strlen.0:8 ut_strdup.0:8 attr_path_destroy.0:6 ap_spec.0:8
//@ flags: --memory-leak-check
//@ props: C19 C10
//@ expect: assertion>=3 canary=4
//@ timeout: 900
#include "_unit.h"
#include "_spec.h"
#define L 6
char nondet_char(void);
/* attr_path_parse accepts EXACTLY the strings of the syntax (reference recogniser ap_spec), is memory-safe on all of them
 * (the buffer ends with the string: any over-read is out of bounds) and leaves nothing allocated behind, neither when it
 * rejects nor after attr_path_destroy (--memory-leak-check) */
void harness(void)
{
    xv_ghost_havoc();
    char *s = malloc(L + 1);
    __CPROVER_assume(s != NULL);
    s[0] = nondet_char(); s[1] = nondet_char(); s[2] = nondet_char(); s[3] = nondet_char(); s[4] = nondet_char(); s[5] = nondet_char();
    s[L] = 0;
    bool root = nondet_bool();
    /* the string may start anywhere in the buffer, so that it always ends at the end of the object */
    size_t start = nondet_size_t();
    __CPROVER_assume(start <= L);
    const char *str = s + start;

    struct attr_path *p = attr_path_parse(str, root);

    XV_ASSERT((p != NULL) == ap_spec(str, root), "PO[C19] syntax.accepts_exactly_the_syntax");
    if (p == NULL) XV_CANARY("rejected");
    if (p != NULL) {
        XV_ASSERT(attr_path_num_comps(p) <= 3, "PO[C19] syntax.component_count");
        if (attr_path_num_comps(p) == 3) XV_CANARY("three components");
        if (attr_path_num_comps(p) == 0) XV_CANARY("empty path");
        if (attr_path_num_comps(p) == 1 && attr_pcomp_is_index(attr_path_get_comp(p, 0)) && attr_pcomp_get_index(attr_path_get_comp(p, 0)) == 1234) XV_CANARY("index 1234");
    }
    attr_path_destroy(p);
    free(s);
}
