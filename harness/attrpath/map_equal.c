//@ tu: libxcm/core/xcm_attr_map.c
//@ nondfcc: 1
//@ bounded: two maps, each built by <= 3 real xcm_attr_map_add() calls (0..3 entries), names 0..3 chars, str/bin values <= 4 bytes, bool/int64/double fixed size, all five types
//@ pre-unwind: strcmp.0:5 strlen.0:5 lookup_attr.0:5 lookup_attr_with_type.0:5 xcm_attr_map_size.0:5 xcm_attr_map_destroy.1:5 xcm_attr_map_equal.0:5 memcmp.0:9 ut_strdup.0:6
//@ props: C19
//@ expect: assertion>=4 canary=4
//@ timeout: 900
#include "_map.h"
/* LAW equal: equal(A, B) <=> for every name, lookup(A, name) and lookup(B, name) agree in presence, TYPE, length and
 * bytes.  Only the (at most six) names used to build A and B can be present, so the right-hand side is decided by
 * looking those up: insertion order and replaced values play no role.  Also reflexive and symmetric. */
void harness(void)
{
    xv_ghost_havoc();
    struct xm_ent ea[XM_ADDS], eb[XM_ADDS]; unsigned na, nb;
    struct xcm_attr_map *a = xm_map_any(ea, &na), *b = xm_map_any(eb, &nb);
    struct xm_look la, lb;
    bool differ = false;
#define XM_CMP(name) xm_lookup(a, (name), &la); xm_lookup(b, (name), &lb); if (!xm_look_same(&la, &lb)) differ = true
    if (0 < na) { XM_CMP(ea[0].name); }
    if (1 < na) { XM_CMP(ea[1].name); }
    if (2 < na) { XM_CMP(ea[2].name); }
    if (0 < nb) { XM_CMP(eb[0].name); }
    if (1 < nb) { XM_CMP(eb[1].name); }
    if (2 < nb) { XM_CMP(eb[2].name); }

    bool eq = xcm_attr_map_equal(a, b);

    XV_ASSERT(eq == !differ, "PO[C19] map_equal.iff_same_finite_map");
    XV_ASSERT(xcm_attr_map_equal(b, a) == eq, "PO[C19] map_equal.symmetric");
    XV_ASSERT(xcm_attr_map_equal(a, a), "PO[C19] map_equal.reflexive");
    XV_ASSERT(!eq || xcm_attr_map_size(a) == xcm_attr_map_size(b), "PO[C19] map_equal.same_size");
    if (eq && xcm_attr_map_size(a) == 3 && !xm_streq(ea[2].name, eb[2].name)) XV_CANARY("equal although inserted in different order");
    if (!eq && xcm_attr_map_size(a) == xcm_attr_map_size(b) && na == 1 && nb == 1 && xm_streq(ea[0].name, eb[0].name) &&
        ea[0].len == eb[0].len && xm_bytes(ea[0].val, ea[0].len) == xm_bytes(eb[0].val, eb[0].len)) XV_CANARY("same name, length and bytes but different type: not equal");
    if (!eq && na == 1 && nb == 1 && xm_streq(ea[0].name, eb[0].name) && ea[0].type == eb[0].type && ea[0].len == eb[0].len) XV_CANARY("one differing value byte: not equal");
    if (eq && na == 0 && nb == 0) XV_CANARY("two empty maps are equal");
    xcm_attr_map_destroy(a);
    xcm_attr_map_destroy(b);
}
