//@ tu: libxcm/core/xcm_attr_map.c
//@ nondfcc: 1
//@ bounded: map built by <= 3 real xcm_attr_map_add() calls (0..3 entries), names 0..3 chars, str/bin values <= 4 bytes, bool/int64/double fixed size, all five types; every typed getter on an arbitrary key of 0..3 chars
//@ pre-unwind: strcmp.0:5 strlen.0:5 lookup_attr.0:5 lookup_attr_with_type.0:5 xcm_attr_map_destroy.1:5 ut_strdup.0:6
//@ props: C19
//@ expect: assertion>=6 canary=3
#include "_map.h"
/* LAW typed getters: xcm_attr_map_get_T(M, k) == (lookup(M, k) present with type T ? its value pointer : NULL) */
void harness(void)
{
    xv_ghost_havoc();
    struct xm_ent e[XM_ADDS]; unsigned n; char k[XM_NAME];
    struct xcm_attr_map *m = xm_map_any(e, &n);
    xm_key_any(k);
    struct xm_look l;
    xm_lookup(m, k, &l);
    const void *want;
#define XM_TYPED(T, getter, po)     want = (l.present && l.type == (T)) ? l.ptr : NULL;     XV_ASSERT((const void *)getter(m, k) == want, po)
    XM_TYPED(xcm_attr_type_bool, xcm_attr_map_get_bool, "PO[C19] map_typed_get.bool");
    XM_TYPED(xcm_attr_type_int64, xcm_attr_map_get_int64, "PO[C19] map_typed_get.int64");
    XM_TYPED(xcm_attr_type_double, xcm_attr_map_get_double, "PO[C19] map_typed_get.double");
    XM_TYPED(xcm_attr_type_str, xcm_attr_map_get_str, "PO[C19] map_typed_get.str");
    XM_TYPED(xcm_attr_type_bin, xcm_attr_map_get_bin, "PO[C19] map_typed_get.bin");
    XV_ASSERT(xcm_attr_map_exists(m, k) == l.present, "PO[C19] map_typed_get.exists_iff_lookup");
    /* NULL out-parameters of the generic getter are optional */
    XV_ASSERT(xcm_attr_map_get(m, k, NULL, NULL) == l.ptr, "PO[C19] map_typed_get.null_out_params");
    if (!l.present) XV_CANARY("key absent");
    if (l.present && l.type == xcm_attr_type_bool && xcm_attr_map_get_int64(m, k) == NULL) XV_CANARY("type mismatch gives NULL");
    if (l.present && l.type == xcm_attr_type_str && xcm_attr_map_get_str(m, k) != NULL) XV_CANARY("type match gives value");
    xcm_attr_map_destroy(m);
}
