//@ tu: libxcm/core/attr_path.c
//@ nondfcc: 1
//@ bounded: every string of 0..4 arbitrary characters, root and non-root (paths of <= 2 components, keys <= 4 characters, indices <= 2 digits); whole real code inlined (parse, to_str, len, equal, equal_str, destroy) on the exact strtol/snprintf/strdup models
//@ pre-unwind: attr_path_parse.0:4 attr_pcomp_parse_key.0:6 strtol.0:6 strlen.0:6 ut_strdup.0:6 attr_path_destroy.0:4 attr_path_len.2:4 attr_path_to_str.0:4 attr_path_equal.0:4 strcmp.0:6 xv_ap_puts.0:6 xv_ap_putzd.0:3 xv_ap_putzd.1:4
//@ defs: -DXV_AP_ZD_DIGITS=3
//@ flags: --memory-leak-check
//@ props: C19
//@ expect: assertion>=7 canary=4
//@ timeout: 900
#include "_unit.h"
#define L 4
char nondet_char(void);
/* print -> parse round trip: for every string the parser accepts, printing the path and parsing the print gives an equal
 * path (both directions of attr_path_equal, and attr_path_equal_str), the print is canonical (printing the re-parsed path
 * gives the same text), attr_path_len is the length of the print, and nothing is leaked (--memory-leak-check) */
void harness(void)
{
    xv_ghost_havoc();
    char s[L + 1];
    s[0] = nondet_char(); s[1] = nondet_char(); s[2] = nondet_char(); s[3] = nondet_char();
    s[L] = 0;
    bool root = nondet_bool();

    struct attr_path *p = attr_path_parse(s, root);

    if (p == NULL) { XV_CANARY("rejected"); return; }
    char *t = attr_path_to_str(p, root);
    size_t tl = strlen(t);
    XV_ASSERT(tl == attr_path_len(p, root) && tl <= strlen(s), "PO[C19] roundtrip.printed_length");
    struct attr_path *p2 = attr_path_parse(t, root);
    XV_ASSERT(p2 != NULL, "PO[C19] roundtrip.printed_path_parses");
    XV_ASSERT(p2 != NULL && attr_path_equal(p, p2) && attr_path_equal(p2, p), "PO[C19] roundtrip.parse_of_print_is_equal");
    XV_ASSERT(attr_path_equal_str(p, t, root) && attr_path_equal_str(p, s, root), "PO[C19] roundtrip.equal_str");
    char *t2 = attr_path_to_str(p2, root);
    XV_ASSERT(strcmp(t, t2) == 0, "PO[C19] roundtrip.print_is_canonical");
    if (attr_path_num_comps(p) == 0) XV_CANARY("empty path");
    if (attr_path_num_comps(p) == 2 && tl < strlen(s)) XV_CANARY("two components, non-canonical source");
    if (root && attr_path_num_comps(p) == 2 && attr_pcomp_is_index(attr_path_get_comp(p, 1))) XV_CANARY("root path key[index]");
    ut_free(t); ut_free(t2);
    attr_path_destroy(p); attr_path_destroy(p2);
}
