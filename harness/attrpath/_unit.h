/* common part of the attr_path harnesses: prelude, REAL TU libxcm/core/attr_path.c, env, contracts.
 * snprintf: the prelude's macro drops the format arguments; attr_path_to_str/attr_path_len need the exact text, so the
 * four call shapes of attr_path.c are routed (by argument count and type) to the exact models of env/attrpath_env.h;
 * each model asserts that the format string at the call site is the one it models. */
#include "prelude.h"
#include "_ghost.h"
#undef snprintf
int xv_ap_snp_zd(char *s, size_t n, const char *f, size_t v);
int xv_ap_snp_s(char *s, size_t n, const char *f, const char *str);
int xv_ap_snp_cs(char *s, size_t n, const char *f, char c, const char *str);
int xv_ap_snp_czdc(char *s, size_t n, const char *f, char c, size_t v, char d);
#define XV_AP_SEL(_1, _2, _3, _4, _5, _6, NAME, ...) NAME
#define XV_AP_S4(s, n, f, a) _Generic((a), size_t: xv_ap_snp_zd, default: xv_ap_snp_s)((s), (n), (f), (a))
#define XV_AP_S5(s, n, f, c, a) xv_ap_snp_cs((s), (n), (f), (c), (a))
#define XV_AP_S6(s, n, f, c, a, d) xv_ap_snp_czdc((s), (n), (f), (c), (a), (d))
#define snprintf(...) XV_AP_SEL(__VA_ARGS__, XV_AP_S6, XV_AP_S5, XV_AP_S4, xv_ap_bad, xv_ap_bad, xv_ap_bad)(__VA_ARGS__)
#include "attr_path.c"
#include "env/base.h"
#include "env/attrpath_env.h"
#include "contracts/attrpath.h"
const char *nondet_cptr(void);
#define AP_GHOST_HAVOC() do { xv_ap_base = NULL; /* bound by is_fresh in the parser contracts; NULL keeps the strlen shortcut off elsewhere */ xv_ap_len = nondet_size_t(); xv_ap_j = nondet_size_t(); \
    xv_ap_q = nondet_size_t(); xv_ap_a = nondet_size_t(); xv_ap_trust_shape = 0; xv_ap_klen[0] = nondet_size_t(); xv_ap_klen[1] = nondet_size_t(); xv_ap_klen[2] = nondet_size_t(); xv_ap_klen[3] = nondet_size_t(); \
    xv_ap_dlen[0] = nondet_size_t(); xv_ap_dlen[1] = nondet_size_t(); xv_ap_dlen[2] = nondet_size_t(); xv_ap_dlen[3] = nondet_size_t(); xv_ap_g_comp = (struct attr_pcomp *)nondet_cptr(); xv_ap_g_key = (char *)nondet_cptr(); xv_ap_strtol_val = nondet_long(); xv_ap_strtol_used = nondet_size_t(); } while (0)
