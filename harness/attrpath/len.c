//@ tu: libxcm/core/attr_path.c
//@ enforce: attr_path_len
//@ pre-unwind: attr_path_len.2:6 strlen.0:9 xv_ap_putzd.0:21 xv_ap_putzd.1:21
//@ bounded: arbitrary well-shaped path of 0..4 components (key or index below LONG_MAX), keys of 0..7 characters
//@ props: C19
//@ expect: postcondition>=1 canary=4
#include "_unit.h"
void harness(void)
{
    xv_ghost_havoc(); AP_GHOST_HAVOC();
    const struct attr_path *p; bool root;
    size_t n = attr_path_len(p, root);
    if (n == 0) XV_CANARY("empty path");
    if (n == 4 * 21) XV_CANARY("four 19-digit indices");
    if (n == 3 && !root) XV_CANARY("relative path of three characters");
    if (n == 7 && root) XV_CANARY("root path of seven characters");
}
