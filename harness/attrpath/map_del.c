//@ tu: libxcm/core/xcm_attr_map.c
//@ nondfcc: 1
//@ bounded: map built by <= 3 real xcm_attr_map_add() calls (0..3 entries), names 0..3 chars, str/bin values <= 4 bytes, bool/int64/double fixed size, all five types; one xcm_attr_map_del() of an arbitrary name; law stated for an arbitrary key of 0..3 chars
//@ pre-unwind: strcmp.0:5 strlen.0:5 lookup_attr.0:5 xcm_attr_map_size.0:5 xcm_attr_map_destroy.1:5 ut_strdup.0:6
//@ props: C19
//@ expect: assertion>=4 canary=3
#include "_map.h"
/* LAW del: lookup'(k) == (k == n ? absent : lookup(k));  size' == size - (n in M ? 1 : 0) */
void harness(void)
{
    xv_ghost_havoc();
    struct xm_ent e[XM_ADDS]; unsigned n; char k[XM_NAME], d[XM_NAME];
    struct xcm_attr_map *m = xm_map_any(e, &n);
    xm_key_any(k); xm_key_any(d);
    struct xm_look before, after;
    xm_lookup(m, k, &before);
    size_t size0 = xcm_attr_map_size(m);
    bool had = xcm_attr_map_exists(m, d);

    xcm_attr_map_del(m, d);

    xm_lookup(m, k, &after);
    XV_ASSERT(xcm_attr_map_size(m) == size0 - (had ? 1 : 0), "PO[C19] map_del.size_law");
    XV_ASSERT(!xcm_attr_map_exists(m, d), "PO[C19] map_del.absent_after");
    if (xm_streq(k, d)) {
        XV_ASSERT(!after.present, "PO[C19] map_del.lookup_deleted_is_null");
        if (had) XV_CANARY("deleted an existing entry");
        else XV_CANARY("deleted a missing name");
    } else {
        XV_ASSERT(xm_look_same(&before, &after), "PO[C19] map_del.other_keys_unchanged");
        if (had && before.present) XV_CANARY("other key survives a deletion");
    }
    xcm_attr_map_destroy(m);
}
