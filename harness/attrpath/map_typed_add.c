//@ tu: libxcm/core/xcm_attr_map.c
//@ nondfcc: 1
//@ bounded: map built by <= 2 real xcm_attr_map_add() calls, then one typed add (bool/int64/double/str/bin) of an arbitrary value (str <= 3 chars, bin <= 4 bytes) under an arbitrary name of 0..3 chars
//@ pre-unwind: strcmp.0:5 strlen.0:5 lookup_attr.0:5 lookup_attr_with_type.0:5 xcm_attr_map_size.0:5 xcm_attr_map_destroy.1:5 ut_strdup.0:6
//@ props: C19
//@ expect: assertion>=5 canary=5
#include "_map.h"
int64_t nondet_int64(void); double nondet_double(void);
/* LAW typed adders: add_T(M, n, v) stores exactly (T, sizeof(T) or strlen+1 or len, v) under n, readable through get_T */
void harness(void)
{
    xv_ghost_havoc();
    struct xm_ent e0, e1; char nm[XM_NAME];
    xm_ent_any(&e0); xm_ent_any(&e1); xm_key_any(nm);
    struct xcm_attr_map *m = xcm_attr_map_create();
    unsigned n = nondet_uint();
    __CPROVER_assume(n <= 2);
    if (n > 0) xm_add(m, &e0);
    if (n > 1) xm_add(m, &e1);
    enum xcm_attr_type t = xcm_attr_type_bin; size_t len = 99;
    unsigned which = nondet_uint();
    __CPROVER_assume(which <= 4);
    if (which == 0) {
        bool v = nondet_bool();
        xcm_attr_map_add_bool(m, nm, v);
        const bool *g = xcm_attr_map_get_bool(m, nm);
        XV_ASSERT(g != NULL && *g == v && g != &v, "PO[C19] map_typed_add.bool");
        XV_ASSERT(xcm_attr_map_get(m, nm, &t, &len) == g && t == xcm_attr_type_bool && len == sizeof(bool), "PO[C19] map_typed_add.bool_meta");
        XV_CANARY("bool");
    } else if (which == 1) {
        int64_t v = nondet_int64();
        xcm_attr_map_add_int64(m, nm, v);
        const int64_t *g = xcm_attr_map_get_int64(m, nm);
        XV_ASSERT(g != NULL && *g == v && g != &v, "PO[C19] map_typed_add.int64");
        XV_ASSERT(xcm_attr_map_get(m, nm, &t, &len) == g && t == xcm_attr_type_int64 && len == sizeof(int64_t), "PO[C19] map_typed_add.int64_meta");
        XV_CANARY("int64");
    } else if (which == 2) {
        double v = nondet_double();
        xcm_attr_map_add_double(m, nm, v);
        const double *g = xcm_attr_map_get_double(m, nm);
        XV_ASSERT(g != NULL && xm_bytes(g, 8) == xm_bytes(&v, 8) && g != &v, "PO[C19] map_typed_add.double_bit_exact");
        XV_ASSERT(xcm_attr_map_get(m, nm, &t, &len) == g && t == xcm_attr_type_double && len == sizeof(double), "PO[C19] map_typed_add.double_meta");
        XV_CANARY("double");
    } else if (which == 3) {
        char v[4]; v[0] = nondet_char(); v[1] = nondet_char(); v[2] = nondet_char(); v[3] = 0;
        size_t sl = v[0] == 0 ? 0 : v[1] == 0 ? 1 : v[2] == 0 ? 2 : 3;
        xcm_attr_map_add_str(m, nm, v);
        const char *g = xcm_attr_map_get_str(m, nm);
        XV_ASSERT(g != NULL && !__CPROVER_same_object(g, v) && xm_bytes(g, sl + 1) == xm_bytes(v, sl + 1), "PO[C19] map_typed_add.str");
        XV_ASSERT(xcm_attr_map_get(m, nm, &t, &len) == g && t == xcm_attr_type_str && len == sl + 1, "PO[C19] map_typed_add.str_meta_len_includes_nul");
        XV_CANARY("str");
    } else {
        uint8_t v[4]; v[0] = nondet_uchar(); v[1] = nondet_uchar(); v[2] = nondet_uchar(); v[3] = nondet_uchar();
        size_t bl = nondet_size_t();
        __CPROVER_assume(bl <= 4);
        xcm_attr_map_add_bin(m, nm, v, bl);
        const char *g = xcm_attr_map_get_bin(m, nm);
        XV_ASSERT(g != NULL && !__CPROVER_same_object(g, v) && xm_bytes(g, bl) == xm_bytes(v, bl), "PO[C19] map_typed_add.bin_zero_length_included");
        XV_ASSERT(xcm_attr_map_get(m, nm, &t, &len) == (const void *)g && t == xcm_attr_type_bin && len == bl, "PO[C19] map_typed_add.bin_meta");
        XV_CANARY("bin");
    }
    XV_ASSERT(xcm_attr_map_size(m) >= 1 && xcm_attr_map_size(m) <= 3, "PO[C19] map_typed_add.size_range");
    xcm_attr_map_destroy(m);
}
