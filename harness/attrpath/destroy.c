//@ tu: libxcm/core/attr_path.c
//@ enforce: attr_path_destroy
//@ pre-unwind: attr_path_destroy.0:6
//@ bounded: paths of 0..4 components of either type (heap shape written out for 4 slots, see contracts/attrpath.h AP_SHAPE_N)
//@ defs: -DXV_AP_DESTROY_JOB
//@ props: C10 C19
//@ expect: postcondition>=3 canary=3
//@ timeout: 900
#include "_unit.h"
/* attr_path_destroy on NULL and on every well-shaped path of 0..4 components of either type (AP_PATH_SHAPE): memory-safe,
 * frees the path, every component and every key (stated for the arbitrary component xv_ap_j) */
void harness(void)
{
    xv_ghost_havoc(); AP_GHOST_HAVOC();
    struct attr_path *path;
    attr_path_destroy(path);
    XV_CANARY("returned");
    if (xv_ap_g_key != NULL) XV_CANARY("key component freed");
    if (xv_ap_g_comp != NULL && xv_ap_g_key == NULL) XV_CANARY("index component freed");
}
