//@ tu: libxcm/core/attr_path.c
//@ nondfcc: 1
//@ bounded: exp
//@ pre-unwind: attr_path_parse.0:4 attr_pcomp_parse_key.0:6 strtol.0:6 strlen.0:6 ut_strdup.0:6 attr_path_destroy.0:4 attr_path_len.2:4 attr_path_to_str.0:4 xv_ap_puts.0:6 xv_ap_putzd.0:3 xv_ap_putzd.1:4
//@ defs: -DXV_AP_ZD_DIGITS=3
//@ props: C19
//@ expect: assertion>=1 canary=1
#include "_unit.h"
char nondet_char(void);
void harness(void)
{
    xv_ghost_havoc();
    char s[4];
    s[0] = 'a'; s[1] = '.'; s[2] = nondet_char(); s[3] = 0;
    struct attr_path *p = attr_path_parse(s, true);
    if (p == NULL) return;
    char *t = attr_path_to_str(p, true);
    XV_ASSERT(t[0] == 'a', "first");
    XV_CANARY("printed");
}
