//@ tu: libxcm/core/xcm_attr_map.c
//@ nondfcc: 1
//@ bounded: map built by <= 3 real xcm_attr_map_add() calls (0..3 entries), names 0..3 chars, str/bin values <= 4 bytes, bool/int64/double fixed size, all five types; foreach with a counting callback; law stated for an arbitrary key of 0..3 chars
//@ pre-unwind: strcmp.0:5 strlen.0:5 lookup_attr.0:5 xcm_attr_map_size.0:5 xcm_attr_map_destroy.1:5 xcm_attr_map_foreach.0:5 ut_strdup.0:6
//@ props: C19
//@ expect: assertion>=4 canary=2
#include "_map.h"
/* LAW foreach: the callback runs exactly size(M) times, exactly once for a key that is present (never for an absent
 * one), with the entry's name, type, value and length, and with the user pointer handed through */
static char xm_k[XM_NAME];
static unsigned xm_calls, xm_calls_k, xm_bad;
static struct xm_look xm_seen;
static int xm_cookie;
static void xm_cb(const char *name, enum xcm_attr_type type, const void *value, size_t len, void *user)
{
    xm_calls++;
    if (user != &xm_cookie) xm_bad++;
    if (xm_streq(name, xm_k)) {
        xm_calls_k++;
        xm_seen.present = true; xm_seen.type = type; xm_seen.len = len; xm_seen.ptr = value; xm_seen.val = xm_bytes(value, len);
    }
}
void harness(void)
{
    xv_ghost_havoc();
    struct xm_ent e[XM_ADDS]; unsigned n;
    struct xcm_attr_map *m = xm_map_any(e, &n);
    xm_key_any(xm_k);
    struct xm_look l;
    xm_lookup(m, xm_k, &l);
    xm_calls = 0; xm_calls_k = 0; xm_bad = 0; xm_seen.present = false;

    xcm_attr_map_foreach(m, xm_cb, &xm_cookie);

    XV_ASSERT(xm_calls == xcm_attr_map_size(m), "PO[C19] map_foreach.one_call_per_entry");
    XV_ASSERT(xm_calls_k == (l.present ? 1u : 0u), "PO[C19] map_foreach.each_key_once");
    XV_ASSERT(xm_bad == 0, "PO[C19] map_foreach.user_pointer_passed");
    XV_ASSERT(!l.present || (xm_look_same(&l, &xm_seen) && xm_seen.ptr == l.ptr), "PO[C19] map_foreach.entry_as_stored");
    if (l.present && xm_calls == 3) XV_CANARY("key visited among three");
    if (xm_calls == 0) XV_CANARY("empty map");
    xcm_attr_map_destroy(m);
}
