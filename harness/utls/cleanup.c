//@ variant: both DEFS=-DUT_SHAPE_BOTH
//@ variant: ux DEFS=-DUT_SHAPE_UX
//@ variant: tls DEFS=-DUT_SHAPE_TLS
//@ variant: null DEFS=-DUT_SHAPE_NULL
//@ tu: libxcm/tp/tls/xcm_tp_utls.c
//@ flags: --max-field-sensitivity-array-size 700
//@ defs: $DEFS
//@ enforce: utls_cleanup
//@ replace: xcm_tp_socket_cleanup xcm_tp_socket_destroy
//@ props: C08
//@ expect: postcondition>=1 canary=2
#include "_unit.h"
void harness(void)
{
    xv_ghost_havoc();
    xv_utls_havoc();
    struct xcm_socket *s;
    long d0 = xv_sub_destroyed, l0 = xv_sub_live, o0 = xv_sub_owing; int e0 = xv_errno;
    utls_cleanup(s);
#if defined(UT_SHAPE_NULL)
    if (xv_sub_destroyed == d0 && xv_sub_owing == o0 && xv_sub_live == l0) XV_CANARY("NULL socket, or no sub-socket left: nothing happens");
    if (xv_errno == e0 && e0 == EAGAIN) XV_CANARY("errno survives");
#elif defined(UT_SHAPE_UX) || defined(UT_SHAPE_TLS)
    if (xv_sub_destroyed == d0 + 1 && xv_sub_live == l0 - 1 && xv_sub_owing == o0 - 1) XV_CANARY("connection: the one live leg cleaned up and destroyed");
    if (xv_errno == e0 && e0 == EAGAIN) XV_CANARY("errno survives");
#else
    if (xv_sub_destroyed == d0 + 2 && xv_sub_live == l0 - 2 && xv_sub_owing == o0 - 2) XV_CANARY("server: both sub-servers cleaned up and destroyed");
    if (xv_sub_destroyed == d0 + 2 && xv_sub_live == l0 && xv_sub_owing == o0 - 2) XV_CANARY("initialised only (creation aborted): both cleaned up and destroyed");
#endif
}
