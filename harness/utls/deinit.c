//@ variant: both DEFS=-DUT_SHAPE_BOTH
//@ variant: ux DEFS=-DUT_SHAPE_UX
//@ variant: tls DEFS=-DUT_SHAPE_TLS
//@ variant: null DEFS=-DUT_SHAPE_NULL
//@ tu: libxcm/tp/tls/xcm_tp_utls.c
//@ flags: --max-field-sensitivity-array-size 700
//@ defs: $DEFS
//@ enforce: deinit
//@ replace: xcm_tp_socket_destroy
//@ props: C08
//@ expect: postcondition>=1 canary=2
#include "_unit.h"
void harness(void)
{
    xv_ghost_havoc();
    xv_utls_havoc();
    struct xcm_socket *s;
    long d0 = xv_sub_destroyed, k0 = xv_sub_leaked; int e0 = xv_errno;
    deinit(s);
#if defined(UT_SHAPE_NULL)
    if (xv_sub_destroyed == d0 && xv_sub_leaked == k0) XV_CANARY("nothing to destroy");
    if (xv_errno == e0 && e0 == EAGAIN) XV_CANARY("errno survives");
#elif defined(UT_SHAPE_UX) || defined(UT_SHAPE_TLS)
    if (xv_sub_destroyed == d0 + 1 && xv_sub_leaked == k0) XV_CANARY("the one sub-socket destroyed, it owed nothing");
    if (xv_sub_destroyed == d0 + 1 && xv_sub_leaked == k0 + 1) XV_CANARY("the one sub-socket destroyed while it owed a close: counted as leaked");
#else
    if (xv_sub_destroyed == d0 + 2 && xv_sub_leaked == k0) XV_CANARY("both destroyed, they owed nothing");
    if (xv_sub_destroyed == d0 + 2 && xv_sub_leaked == k0 + 2) XV_CANARY("both destroyed while owing a close: counted as leaked");
#endif
}
