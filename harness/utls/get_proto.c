//@ tu: libxcm/tp/tls/xcm_tp_utls.c
//@ flags: --max-field-sensitivity-array-size 700
//@ enforce: get_proto
//@ replace: xcm_tp_proto_by_name
//@ props: C08
//@ expect: postcondition>=1 canary=2
#include "_unit.h"
void harness(void)
{
    xv_ghost_havoc();
    xv_utls_havoc();
    const char *name; struct xcm_tp_proto **cache;
    struct xcm_tp_proto *p = get_proto(name, cache);
    if (p == xv_proto_ux) XV_CANARY("ux");
    if (p == xv_proto_tls) XV_CANARY("tls");
}
