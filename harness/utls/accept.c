//@ tu: libxcm/tp/tls/xcm_tp_utls.c
//@ flags: --max-field-sensitivity-array-size 700 --object-bits 10
//@ enforce: utls_accept
//@ replace: xcm_tp_socket_accept xcm_tp_socket_close xcm_tp_socket_destroy
//@ props: C01 C08
//@ expect: postcondition>=5 canary=4
#include "_unit.h"
void harness(void)
{
    xv_ghost_havoc();
    xv_utls_havoc();
    struct xcm_socket *conn_s, *server_s;
    long d0 = xv_sub_destroyed, l0 = xv_sub_live, q0 = xv_op_seq;
    int rv = utls_accept(conn_s, server_s);
    if (rv == 0 && xv_won_kind == XV_K_UX && xv_op_seq == q0 + 1 && xv_sub_live == l0 + 1) XV_CANARY("accepted on the UX sub-server");
    if (rv == 0 && xv_won_kind == XV_K_TLS && xv_op_seq == q0 + 2 && xv_sub_destroyed == d0 + 1) XV_CANARY("accepted on the TLS sub-server");
    if (rv == -1 && xv_errno == EAGAIN && xv_op_seq == q0 + 2 && xv_sub_live == l0 && xv_sub_destroyed == d0 + 2) XV_CANARY("nothing pending on either");
    if (rv == -1 && xv_errno == EMFILE) XV_CANARY("descriptor exhaustion");
}
