//@ variant: ux DEFS=-DUT_LEG_UX
//@ variant: tls DEFS=-DUT_LEG_TLS
//@ tu: libxcm/tp/tls/xcm_tp_utls.c
//@ flags: --max-field-sensitivity-array-size 700
//@ defs: $DEFS
//@ enforce: utls_get_cnt
//@ replace: xcm_tp_socket_get_cnt
//@ props: C17
//@ expect: postcondition>=1 canary=2
#include "_unit.h"
void harness(void)
{
    xv_ghost_havoc();
    xv_utls_havoc();
    struct xcm_socket *s; enum xcm_tp_cnt cnt;
    int64_t v = utls_get_cnt(s, cnt);
    if (cnt == xcm_tp_cnt_to_app_bytes && v == 7) XV_CANARY("to_app_bytes");
    if (cnt == xcm_tp_cnt_from_lower_msgs && v == 9) XV_CANARY("from_lower_msgs");
}
