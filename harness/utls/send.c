//@ variant: ux DEFS=-DUT_LEG_UX
//@ variant: tls DEFS=-DUT_LEG_TLS
//@ tu: libxcm/tp/tls/xcm_tp_utls.c
//@ flags: --max-field-sensitivity-array-size 700
//@ defs: $DEFS
//@ enforce: utls_send
//@ replace: xcm_tp_socket_send
//@ props: C01 C03
//@ expect: postcondition>=3 canary=5
#include "_unit.h"
void harness(void)
{
    xv_ghost_havoc();
    xv_utls_havoc();
    struct xcm_socket *s; const void *buf; size_t len;
    int rv = utls_send(s, buf, len);
    if (rv == 0 && len == 1) XV_CANARY("sent, smallest message");
    if (rv == 0 && len == 65535) XV_CANARY("sent, largest message");
    if (rv == -1 && xv_errno == EAGAIN) XV_CANARY("EAGAIN handed back");
    if (rv == -1 && xv_errno == EMSGSIZE && len == 65536) XV_CANARY("EMSGSIZE handed back");
    if (rv == -1 && xv_errno == EINVAL && len == 0) XV_CANARY("empty message: the leg's verdict");
}
