//@ tu: libxcm/tp/tls/xcm_tp_utls.c
//@ flags: --max-field-sensitivity-array-size 700
//@ enforce: utls_init
//@ replace: ux_proto tls_proto xcm_tp_socket_create xcm_tp_socket_init xcm_tp_socket_destroy
//@ props: C08
//@ expect: postcondition>=3 canary=2
#include "_unit.h"
void harness(void)
{
    xv_ghost_havoc();
    xv_utls_havoc();
    struct xcm_socket *s, *parent;
    long c0 = xv_sub_created, o0 = xv_sub_owing;
    int rv = utls_init(s, parent);
    if (rv == 0 && parent == NULL && xv_sub_created == c0 + 2 && xv_sub_owing == o0 + 2) XV_CANARY("two sub-sockets, no parent (connect, server)");
    if (rv == 0 && parent != NULL && xv_init_parent_ux != NULL && xv_init_parent_tls != NULL && xv_init_parent_ux != xv_init_parent_tls)
        XV_CANARY("two sub-sockets inheriting from the matching sub-sockets of a parent (accept)");
}
