/* common part of every utls-unit harness: prelude, the REAL TU libxcm/tp/tls/xcm_tp_utls.c, env, contracts */
#include "prelude.h"
#include "xcm_tp_utls.c"
#include "env/base.h"
#include "contracts/utls.h"
