/* common part of every utls-unit harness: prelude, the REAL TU libxcm/tp/tls/xcm_tp_utls.c, env, contracts */
#include "prelude.h"
#include "xcm_tp_utls.c"
#include "env/base.h"
#include "contracts/utls.h"
/* every job of the unit runs cbmc with `--max-field-sensitivity-array-size 700` (a performance knob, no change of meaning): a UTLS
 * socket is a 664-byte object (struct utls_socket holds char laddr[579]) made by is_fresh as a byte array; above the default limit
 * of 64 every read of its two pointer fields went through the array theory (utls_finish: 2.5M variables, 40 s; with the knob
 * 0.1M, < 1 s).  Not 1024 or more: --object-bits 10 (needed by connect/server/accept) gives DFCC a 1024-entry table of its own
 * that must stay an array (symex 45 s otherwise). */
