//@ variant: ux DEFS=-DUT_LEG_UX
//@ variant: tls DEFS=-DUT_LEG_TLS
//@ tu: libxcm/tp/tls/xcm_tp_utls.c
//@ flags: --max-field-sensitivity-array-size 700
//@ defs: $DEFS
//@ enforce: active_sub_conn
//@ props: C01
//@ expect: postcondition>=1 canary=1
#include "_unit.h"
void harness(void)
{
    xv_ghost_havoc();
    xv_utls_havoc();
    struct xcm_socket *s;
    struct xcm_socket *a = active_sub_conn(s);
    if (a != NULL) XV_CANARY("the live leg");
}
