//@ variant: ux DEFS=-DUT_LEG_UX
//@ variant: tls DEFS=-DUT_LEG_TLS
//@ tu: libxcm/tp/tls/xcm_tp_utls.c
//@ flags: --max-field-sensitivity-array-size 700
//@ defs: $DEFS
//@ enforce: utls_max_msg
//@ replace: xcm_tp_socket_max_msg
//@ props: C01 C03
//@ expect: postcondition>=1 canary=1
#include "_unit.h"
void harness(void)
{
    xv_ghost_havoc();
    xv_utls_havoc();
    struct xcm_socket *s;
    size_t m = utls_max_msg(s);
    if (m == 65535) XV_CANARY("reported");
}
