//@ tu: libxcm/tp/tls/xcm_tp_utls.c
//@ flags: --max-field-sensitivity-array-size 700 --object-bits 10
//@ enforce: utls_server
//@ replace: xcm_addr_parse_utls xcm_addr_make_tls xcm_local_addr xcm_addr_parse_tls xcm_addr_ux_make xcm_tp_socket_server xcm_tp_socket_close xcm_tp_socket_destroy
//@ pre-unwind: strlen.0:5
//@ props: C08
//@ expect: postcondition>=6 canary=5
#include "_unit.h"
void harness(void)
{
    xv_ghost_havoc();
    xv_utls_havoc();
    struct xcm_socket *s; const char *addr;
    long d0 = xv_sub_destroyed, l0 = xv_sub_live, q0 = xv_op_seq;
    int rv = utls_server(s, addr);
    if (rv == 0 && xv_sub_live == l0 + 2 && xv_op_seq == q0 + 2 && xv_addr_len <= UT_LOCAL_ADDR_MAX) XV_CANARY("both sub-servers bound");
    if (rv == 0 && xv_addr_len == 111) XV_CANARY("both bound, longest name that fits a UX address");
    if (rv == -1 && xv_errno == EINVAL && xv_op_seq == q0 && xv_sub_destroyed == d0 + 2) XV_CANARY("address does not parse");
    if (rv == -1 && xv_errno == EADDRINUSE && xv_op_seq == q0 + 1) XV_CANARY("TLS bind failed: UX closed, both destroyed");
    if (rv == -1 && xv_errno == EACCES && xv_op_seq == q0 + 2) XV_CANARY("UX bind failed after TLS was bound");
}
