//@ variant: ux DEFS=-DUT_LEG_UX
//@ variant: tls DEFS=-DUT_LEG_TLS
//@ variant: server DEFS=-DUT_T_SERVER
//@ tu: libxcm/tp/tls/xcm_tp_utls.c
//@ flags: --max-field-sensitivity-array-size 700
//@ defs: $DEFS
//@ enforce: utls_update
//@ replace: xcm_tp_socket_update
//@ props: C04 C16
//@ expect: postcondition>=2 canary=1
#include "_unit.h"
void harness(void)
{
    xv_ghost_havoc();
    xv_utls_havoc();
    struct xcm_socket *s;
    int e0 = xv_errno;
    utls_update(s);
    if (xv_errno == e0) XV_CANARY("updated");
}
