//@ variant: ux DEFS=-DUT_LEG_UX
//@ variant: tls DEFS=-DUT_LEG_TLS
//@ variant: server DEFS=-DUT_T_SERVER
//@ tu: libxcm/tp/tls/xcm_tp_utls.c
//@ flags: --max-field-sensitivity-array-size 700
//@ defs: $DEFS
//@ enforce: utls_finish
//@ replace: xcm_tp_socket_finish
//@ props: C01 C04
//@ expect: postcondition>=2 canary=3
#include "_unit.h"
void harness(void)
{
    xv_ghost_havoc();
    xv_utls_havoc();
    struct xcm_socket *s;
    int rv = utls_finish(s);
    if (rv == 0) XV_CANARY("finished");
    if (rv == -1 && xv_errno == EAGAIN) XV_CANARY("EAGAIN handed back");
    if (rv == -1 && xv_errno == ECONNRESET) XV_CANARY("terminal error handed back");
}
