//@ variant: asbuilt DEFS=-DUT_SUB_INIT_AS_BUILT
//@ variant: mayfail DEFS=-DUT_SUB_INIT_MAY_FAIL
//@ tu: libxcm/tp/tls/xcm_tp_utls.c
//@ flags: --max-field-sensitivity-array-size 700
//@ defs: $DEFS
//@ enforce: create_sub_socket
//@ replace: xcm_tp_socket_create xcm_tp_socket_init xcm_tp_socket_destroy
//@ props: C08
//@ expect: postcondition>=3 canary=2
#include "_unit.h"
void harness(void)
{
    xv_ghost_havoc();
    xv_utls_havoc();
    struct xcm_tp_proto *proto; enum xcm_socket_type type; struct xpoll *xpoll; struct xcm_socket *parent;
    long c0 = xv_sub_created, d0 = xv_sub_destroyed;
    struct xcm_socket *sub = create_sub_socket(proto, type, xpoll, parent);
    if (sub != NULL && proto == xv_proto_ux && xv_sub_created == c0 + 1 && xv_sub_destroyed == d0) XV_CANARY("UX sub-socket");
#ifdef UT_SUB_INIT_MAY_FAIL
    if (sub == NULL && xv_sub_created == c0 + 1 && xv_sub_destroyed == d0 + 1) XV_CANARY("init failed: destroyed again");
#else
    if (sub != NULL && proto == xv_proto_tls && parent != NULL) XV_CANARY("TLS sub-socket with a parent");
#endif
}
