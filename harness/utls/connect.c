//@ tu: libxcm/tp/tls/xcm_tp_utls.c
//@ flags: --max-field-sensitivity-array-size 700 --object-bits 10
//@ enforce: utls_connect
//@ replace: utls_to_tls xcm_addr_ux_make xcm_tp_socket_connect xcm_tp_socket_close xcm_tp_socket_destroy
//@ pre-unwind: strlen.0:5
//@ props: C01 C08
//@ safety: C08
//@ expect: postcondition>=6 canary=6
#include "_unit.h"
void harness(void)
{
    xv_ghost_havoc();
    xv_utls_havoc();
    struct xcm_socket *s; const char *addr;
    long d0 = xv_sub_destroyed, l0 = xv_sub_live, q0 = xv_op_seq;
    int rv = utls_connect(s, addr);
    if (rv == 0 && xv_won_kind == XV_K_UX && xv_op_seq == q0 + 1 && xv_sub_live == l0 + 1) XV_CANARY("connected over UX, TLS leg closed and destroyed");
    if (rv == 0 && xv_won_kind == XV_K_TLS && xv_op_seq == q0 + 2) XV_CANARY("UX refused, connected over TLS, UX leg destroyed");
    if (rv == -1 && xv_errno == EINVAL && xv_op_seq == q0 && xv_sub_destroyed == d0 + 2) XV_CANARY("address does not parse: nothing tried, both closed and destroyed");
    if (rv == -1 && xv_errno == EACCES && xv_op_seq == q0 + 1) XV_CANARY("UX failed otherwise: no fallback");
    if (rv == -1 && xv_errno == ENETUNREACH && xv_op_seq == q0 + 2 && xv_sub_live == l0) XV_CANARY("UX refused, TLS failed");
    if (rv == 0 && xv_addr_len == UT_TLS_ADDR_MIN) XV_CANARY("shortest address");
}
