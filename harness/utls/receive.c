//@ variant: ux DEFS=-DUT_LEG_UX
//@ variant: tls DEFS=-DUT_LEG_TLS
//@ tu: libxcm/tp/tls/xcm_tp_utls.c
//@ flags: --max-field-sensitivity-array-size 700
//@ defs: $DEFS
//@ enforce: utls_receive
//@ replace: xcm_tp_socket_receive
//@ props: C01
//@ expect: postcondition>=3 canary=5
#include "_unit.h"
void harness(void)
{
    xv_ghost_havoc();
    xv_utls_havoc();
    struct xcm_socket *s; void *buf; size_t capacity;
    int rv = utls_receive(s, buf, capacity);
    if (rv == 7 && capacity == 7) XV_CANARY("message fills the buffer");
    if (rv == 65535 && capacity > 65535) XV_CANARY("largest message");
    if (rv == 0 && capacity > 0) XV_CANARY("end of stream handed back");
    if (rv == 0 && capacity == 0) XV_CANARY("capacity 0");
    if (rv == -1 && xv_errno == EAGAIN) XV_CANARY("EAGAIN handed back");
}
