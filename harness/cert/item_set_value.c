//@ tu: libxcm/tp/tls/cert.c libxcm/tp/tls/item.c common/slist.c
//@ enforce: item_set_value
//@ props: C18 C08
//@ expect: postcondition>=3 canary=3
#include "_unit.h"
void harness(void)
{
    xv_ghost_havoc(); xc_ghost_havoc();
    struct item *it; const char *value; bool sensitive;
    long before = xv_heap_live;
    item_set_value(it, value, sensitive);
    if (xv_heap_live == before + 1) XV_CANARY("was unset");
    if (xv_heap_live == before) XV_CANARY("replaced a designation");
    if (xv_dup_len == XC_STR_MAX) XV_CANARY("longest value");
}
