//@ tu: libxcm/tp/tls/cert.c libxcm/tp/tls/item.c common/slist.c
//@ enforce: item_unsensitive_data
//@ props: C14
//@ expect: postcondition>=3 canary=3
#include "_unit.h"
void harness(void)
{
    xv_ghost_havoc(); xc_ghost_havoc();
    const struct item *it;
    const char *r = item_unsensitive_data(it);
    if (r == NULL) XV_CANARY("unset, not sensitive: NULL");
    if (r != NULL && r[0] == '<') XV_CANARY("hidden");
    if (r != NULL && r[0] != '<') XV_CANARY("shown");
}
