/* common part of every harness of unit `cert`: prelude, ghost state, the REAL TUs libxcm/tp/tls/cert.c, libxcm/tp/tls/item.c and
 * common/slist.c, the TRUSTED environment (env/cert_env.h; env/base.h is not used, see there) and the contracts */
#include "prelude.h"
#include "_ghost.h"
#include "cert.c"
#include "item.c"
#include "slist.c"
#include "env/cert_env.h"
#include "contracts/cert.h"
