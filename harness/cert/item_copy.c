//@ tu: libxcm/tp/tls/cert.c libxcm/tp/tls/item.c common/slist.c
//@ enforce: item_copy
//@ props: C18 C08 C14
//@ expect: postcondition>=5 canary=4
#include "_unit.h"
void harness(void)
{
    xv_ghost_havoc(); xc_ghost_havoc();
    const struct item *src; struct item *dst;
    long before = xv_heap_live;
    item_copy(src, dst);
    if (xv_heap_live == before + 1) XV_CANARY("set into unset");
    if (xv_heap_live == before - 1) XV_CANARY("unset over set");
    if (xv_heap_live == before && xv_dup_calls > 0 && xv_dup_ret != NULL) XV_CANARY("set over set");
    if (xv_heap_live == before) XV_CANARY("nothing or replaced");
}
