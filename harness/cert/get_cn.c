//@ tu: libxcm/tp/tls/cert.c libxcm/tp/tls/item.c common/slist.c
//@ enforce: get_cn
//@ defs: -DXC_JOB_GET_CN
//@ props: C10 C14 C08 C09
//@ expect: postcondition>=5 canary=4
#include "_unit.h"
/* any X509_NAME (subject or a directoryName): no commonName, or a commonName of 0..2^24 ANY bytes */
void harness(void)
{
    xv_ghost_havoc(); xc_ghost_havoc();
    const X509_NAME *name;
    char *cn = get_cn(name);
    if (cn == NULL) XV_CANARY("no common name");
    if (cn != NULL && xv_cn_len == 0) XV_CANARY("empty common name");
    if (cn != NULL && xv_cn_len == XV_ASN1_MAX) XV_CANARY("longest common name");
    if (cn != NULL && xv_cn_len == 64) XV_CANARY("ordinary common name");
}
