//@ tu: libxcm/tp/tls/cert.c libxcm/tp/tls/item.c common/slist.c
//@ loops: cert.loops
//@ enforce: cert_get_dir_cn
//@ replace: get_cn
//@ defs: -DXC_JOB_DIR
//@ props: C10 C14 C08
//@ expect: postcondition>=3 canary=4 loop_contract>=3
#include "_unit.h"
void harness(void)
{
    xv_ghost_havoc(); xc_ghost_havoc();
    xv_asn1_nt = 1;
    size_t index;
    char *r = cert_get_dir_cn(XV_CERT, index);
    if (r == NULL && xv_gn_absent) XV_CANARY("no subjectAltName");
    if (r == NULL && !xv_gn_absent && xv_cn_present) XV_CANARY("index beyond the directory names");
    if (r == NULL && !xv_cn_present && index < (size_t)xv_gn_match) XV_CANARY("directory name without common name");
    if (r != NULL && index == 2) XV_CANARY("third directory name");
}
