//@ tu: libxcm/tp/tls/cert.c libxcm/tp/tls/item.c common/slist.c
//@ loops: cert.loops
//@ enforce: cert_count_san
//@ defs: -DXC_JOB_COUNT
//@ props: C10 C14 C08
//@ expect: postcondition>=2 canary=4 loop_contract>=3
#include "_unit.h"
void harness(void)
{
    xv_ghost_havoc(); xc_ghost_havoc();
    xv_asn1_nt = 1;
    enum cert_san_type t;
    size_t n = cert_count_san(XV_CERT, t);
    if (xv_gn_absent) XV_CANARY("no subjectAltName");
    if (n == 0 && xv_gn_num == 1000) XV_CANARY("a thousand entries, none of the type");
    if (n == 1000 && xv_gn_num == 1000) XV_CANARY("a thousand names of the type");
    if (n == 3 && xv_gn_num == 7 && t == cert_san_type_email) XV_CANARY("three of seven");
}
