//@ tu: libxcm/tp/tls/cert.c libxcm/tp/tls/item.c common/slist.c
//@ nondfcc: 1
//@ defs: -DXV_STR_EXACT
//@ pre-unwind: strlen.0:5 ut_strndup.0:5
//@ bounded: one history: designate (by file or by value, 0..3 characters), copy, then re-designate or unset the SOURCE, load/read the COPY, unset everything
//@ props: C18 C14 C08
//@ expect: assertion>=6 canary=4
#include "_unit.h"
#include "_list.h"
/* C18 "material is never mixed": a copied designation shares nothing with its source: whatever happens to the source
 * afterwards (re-designation, release), the copy still designates the same bytes and type; every block is released once.
 * The sensitivity obligation (item_copy.sensitivity_is_copied_too) is carried by job cert.item_copy, not here. */
void harness(void)
{
    xv_ghost_havoc(); xc_ghost_havoc();
    xv_heap_live = 0; xv_dup_calls = 0; xv_ld_calls = 0;
    struct item src, dst; char v[XL_S], w[XL_S]; size_t len; bool by_file = nondet_bool(), sens = nondet_bool();
    v[XL_S - 1] = 0; w[XL_S - 1] = 0;
    item_init(&src); item_init(&dst);
    XV_ASSERT(!item_is_set(&src) && xv_heap_live == 0, "PO[C18] item_init.nothing_designated");
    if (by_file) item_set_file(&src, v, sens);
    else { __CPROVER_assume(len < XL_S && v[0] != 0 && (len < 2 || v[1] != 0) && (len < 3 || v[2] != 0)); v[len] = 0; item_set_value_n(&src, v, len, sens); }
    XV_ASSERT(item_is_set(&src) && src.type == (by_file ? item_type_file : item_type_value) && xl_streq(src.data, v) && src.data != v, "PO[C18] item_set.owned_copy_of_exactly_the_designated_bytes");
    item_copy(&src, &dst);
    XV_ASSERT(dst.type == src.type && xl_streq(dst.data, v) && !__CPROVER_same_object(dst.data, src.data), "PO[C18] item_copy.deep_copy_no_aliasing");
    unsigned what = nondet_uint();
    if (what == 0) { item_set_value(&src, w, false); XV_CANARY("source re-designated by value"); }
    else if (what == 1) { item_set_file(&src, w, false); XV_CANARY("source re-designated by file"); }
    else { item_deinit(&src); XV_CANARY("source unset"); }
    XV_ASSERT(dst.type == (by_file ? item_type_file : item_type_value) && xl_streq(dst.data, v), "PO[C18] item_copy.copy_survives_whatever_happens_to_the_source");
    if (!by_file) {
        char *data; int rv = item_load(&dst, &data);
        XV_ASSERT(rv == 0 && xl_streq(data, v) && data != dst.data, "PO[C18] item_load.value_item_gives_an_owned_copy_of_the_value");
        ut_free(data);
        XV_CANARY("copy loaded");
    }
    item_deinit(&src); item_deinit(&dst); item_deinit(&dst); item_deinit(NULL);
    XV_ASSERT(xv_heap_live == 0 && !item_is_set(&dst), "PO[C08] item_deinit.every_block_released_exactly_once");
}
