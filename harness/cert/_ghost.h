/* harness/cert/_ghost.h -- ghost state of unit `cert` (included BEFORE the real TUs: the loop contract spliced into
 * foreach_san() names these variables and the XC_FS_* macros below).  Meaning of every variable: env/cert_env.h. */
#ifndef XV_CERT_GHOST_H
#define XV_CERT_GHOST_H
#include <openssl/x509.h>
#include <openssl/x509v3.h>

#ifndef XC_STR_MAX
#define XC_STR_MAX (1UL << 16)          /* strings of 0..2^16 bytes are explored (is_fresh needs a bound; cost of the memcpy model grows with it: append 22 s, with 2^20 117 s) */
#define XC_LIST_MAX (1UL << 16)         /* lists of 0..2^16 elements (unbounded jobs) */
#endif
#define XV_ASN1_MAX (1 << 24)           /* A1 */
#define XV_FILE_MAX ((1UL << 31) - 1)   /* A2 */

/* ---- heap and strings */
long xv_heap_live, xv_heap0;            /* xv_heap0: never assigned, bound to the entry value by a requires clause */
size_t xv_ce;                           /* arbitrary element index of a list: never assigned */
long xv_dup_calls; char *xv_dup_ret; size_t xv_dup_len; char xv_dup_byte;       /* ut_strdup/ut_strndup: calls, last result, its length, its byte at xv_mc */
_Bool xv_nd_str;                        /* never assigned: ut_strndup's source is a ghost-length string (asserted there) */
_Bool xv_trust_shape;                   /* never assigned: see contracts/cert.h append() */
size_t xv_scn_len;                      /* strchrnul: distance the last call advanced */
long xv_ld_calls; const char *xv_ld_name; char **xv_ld_out; long xv_ld_ret; char *xv_ld_data;   /* ut_load_text_file */
/* ghost constants (never assigned) */
size_t xv_l1, xv_l2, xv_l3;             /* string lengths */
char *xv_g_elem;                        /* element xv_ce of a list on entry */
const char *xv_g_p1;
const char *xv_g_str;                   /* see env/cert_env.h XC_REBASE */

/* ---- certificate model */
_Bool xv_subj_null; long xv_subj_calls;
long xv_nm_calls, xv_nm_fills; const X509_NAME *xv_nm_name, *xv_nm_fill_name; char *xv_nm_buf; int xv_nm_fill_len;
_Bool xv_cn_present; int xv_cn_len, xv_cn_z; char xv_cn_byte;
long xv_d2i_calls, xv_gn_live, xv_gn_free_calls; _Bool xv_gn_absent; int xv_gn_num, xv_gn_next, xv_gn_want;
size_t xv_gn_match, xv_want_ord;
GENERAL_NAME xv_gn_ent;
const void *xv_gn_cur_payload, *xv_gn_k_payload; size_t xv_gn_k_len; char xv_gn_k_byte, xv_gn_cur_byte; _Bool xv_gn_cur_match;
char *xv_asn1_buf, *xv_id_base; int xv_asn1_cap; char *xv_dup_fix;
const ASN1_STRING *xv_asn1_str; char *xv_asn1_data; int xv_asn1_len, xv_asn1_z; _Bool xv_asn1_nt;
_Bool xv_ski_present; int xv_ski_len; uint8_t xv_ski_byte; long xv_ski_calls, xv_ski_data_calls;
size_t xv_cb_calls;
char xv_ex_str[3][3]; _Bool xv_ex_match[3]; char xv_ex_cn[3];     /* XV_STR_EXACT: the first three entries' names (as C strings) and whether they match */

#ifdef XV_CBMC
void *nondet_voidp(void);
char nondet_char(void);
static inline void xc_ghost_havoc(void)
{
    xv_heap_live = nondet_long(); xv_heap0 = nondet_long(); xv_ce = nondet_size_t();
    xv_dup_calls = nondet_long(); xv_dup_ret = nondet_voidp(); xv_dup_len = nondet_size_t(); xv_dup_byte = nondet_char();
    xv_scn_len = nondet_size_t(); xv_nd_str = nondet_bool(); xv_trust_shape = nondet_bool();
    xv_ld_calls = nondet_long(); xv_ld_name = nondet_voidp(); xv_ld_out = nondet_voidp(); xv_ld_ret = nondet_long(); xv_ld_data = nondet_voidp();
    xv_l1 = nondet_size_t(); xv_l2 = nondet_size_t(); xv_l3 = nondet_size_t(); xv_g_elem = nondet_voidp(); xv_g_p1 = nondet_voidp(); xv_g_str = NULL;
    xv_subj_null = nondet_bool(); xv_subj_calls = nondet_long();
    xv_nm_calls = nondet_long(); xv_nm_fills = nondet_long(); xv_nm_name = nondet_voidp(); xv_nm_fill_name = nondet_voidp(); xv_nm_buf = NULL /* nothing filled yet */; xv_nm_fill_len = nondet_int();
    xv_cn_present = nondet_bool(); xv_cn_len = nondet_int(); xv_cn_z = nondet_int(); xv_cn_byte = nondet_char();
    xv_d2i_calls = nondet_long(); xv_gn_live = nondet_long(); xv_gn_free_calls = nondet_long(); xv_gn_absent = nondet_bool();
    xv_gn_num = nondet_int(); xv_gn_next = nondet_int(); xv_gn_want = nondet_int(); xv_gn_match = nondet_size_t(); xv_want_ord = nondet_size_t();
    xv_gn_cur_payload = NULL; xv_gn_k_payload = nondet_voidp(); xv_gn_k_len = nondet_size_t(); xv_gn_k_byte = nondet_char(); xv_gn_cur_byte = nondet_char(); xv_gn_cur_match = 0;
    /* no entry has been handed out yet */
    xv_asn1_str = NULL; xv_asn1_data = NULL; xv_asn1_len = 0; xv_asn1_z = 0; xv_id_base = NULL; xv_dup_fix = nondet_voidp();
    /* the buffer ASN.1 string data is handed out in (env/cert_env.h X509_get_ext_d2i): made here, because a loop contract's assigns
     * clause must name it as a valid object whether or not the certificate has a subjectAltName */
#ifdef XV_STR_EXACT
    xv_asn1_cap = 3;            /* bounded stand-ins: names of 0..2 bytes (+ NUL) */
#else
    xv_asn1_cap = nondet_int();
    __CPROVER_assume(xv_asn1_cap >= 1 && xv_asn1_cap <= XV_ASN1_MAX + 1);
#endif
    xv_asn1_buf = malloc((size_t)xv_asn1_cap);
    __CPROVER_assume(xv_asn1_buf != NULL);
    xv_asn1_nt = nondet_bool();
    xv_ski_present = nondet_bool(); xv_ski_len = nondet_int(); xv_ski_byte = nondet_uchar(); xv_ski_calls = nondet_long(); xv_ski_data_calls = nondet_long();
    xv_cb_calls = nondet_size_t();
}
#endif

/* ---- vocabulary of the loop contract of foreach_san() (loops/cert.loops); `i`, `exts`, `cb_data` are its locals.
 * struct get_san_param / get_dir_cn_param are defined BELOW foreach_san in cert.c: the invariant reads them through this
 * mirror (same layout: checked by a static assertion in contracts/cert.h) */
struct xv_idx_param { size_t current_index; size_t target_index; char *p; };
#define XC_P ((struct xv_idx_param *)cb_data)
#define XC_FS_LOOP_ASSIGNS i, xv_gn_next, xv_gn_match, xv_gn_ent, xv_gn_cur_payload, xv_gn_k_payload, xv_gn_k_len, xv_gn_k_byte, xv_gn_cur_byte, xv_gn_cur_match, \
    xv_asn1_str, xv_asn1_data, xv_asn1_len, xv_asn1_z, __CPROVER_object_whole(xv_asn1_buf), XC_FS_LOOP_ASSIGNS_JOB
#if defined(XC_JOB_COUNT)
#define XC_FS_LOOP_ASSIGNS_JOB __CPROVER_object_whole(cb_data)
#elif defined(XC_JOB_SAN)
#define XC_FS_LOOP_ASSIGNS_JOB __CPROVER_object_whole(cb_data), xv_heap_live, xv_dup_calls, xv_dup_len, xv_dup_byte
#elif defined(XC_JOB_DIR)
#define XC_FS_LOOP_ASSIGNS_JOB __CPROVER_object_whole(cb_data), xv_heap_live, xv_nm_calls, xv_nm_name, xv_nm_fills, xv_nm_fill_name, xv_nm_buf, xv_nm_fill_len
#else
#define XC_FS_LOOP_ASSIGNS_JOB xv_cb_calls
#endif
#define XC_FS_INV_IDX (i >= 0 && xv_gn_next == i && (exts != NULL ==> i <= xv_gn_num) && (exts == NULL ==> i == 0) && xv_gn_match <= (size_t)i)
#if defined(XC_JOB_COUNT)
/* cert_count_san: the counter the callback increments equals the number of matching entries handed out so far */
#define XC_FS_INV_JOB (*(size_t *)cb_data == xv_gn_match)
#elif defined(XC_JOB_SAN)
/* cert_get_san: nothing is duplicated before match number xv_want_ord, exactly that one is, once */
#define XC_FS_INV_JOB (XC_P->current_index == xv_gn_match && XC_P->target_index == xv_want_ord && \
    (xv_gn_match <= xv_want_ord ==> (XC_P->p == NULL && xv_dup_calls == 0 && xv_heap_live == xv_heap0)) && \
    (xv_gn_match > xv_want_ord ==> (XC_P->p == xv_dup_fix && xv_dup_calls == 1 && xv_heap_live == xv_heap0 + 1 && \
                                             xv_dup_len == xv_gn_k_len && xv_dup_byte == xv_gn_k_byte)))
#elif defined(XC_JOB_DIR)
/* cert_get_dir_cn: get_cn() runs once, on the directory name of match number xv_want_ord; it returns the block OpenSSL filled, or NULL */
#define XC_FS_INV_JOB (XC_P->current_index == xv_gn_match && XC_P->target_index == xv_want_ord && \
    (xv_gn_match <= xv_want_ord ==> (XC_P->p == NULL && xv_nm_calls == 0 && xv_nm_fills == 0 && xv_heap_live == xv_heap0)) && \
    ((xv_gn_match > xv_want_ord && xv_cn_present) ==> (xv_nm_calls == 2 && xv_nm_fills == 1 && xv_nm_name == xv_gn_k_payload && xv_nm_fill_name == xv_gn_k_payload && \
                                             xv_nm_fill_len == xv_cn_len + 1 && xv_nm_buf != NULL && (xv_cn_z == xv_cn_len ==> XC_P->p != NULL) && \
                                             (XC_P->p != NULL ? (XC_P->p == xv_nm_buf && xv_heap_live == xv_heap0 + 1) : xv_heap_live == xv_heap0))) && \
    ((xv_gn_match > xv_want_ord && !xv_cn_present) ==> (xv_nm_calls == 1 && xv_nm_fills == 0 && xv_nm_name == xv_gn_k_payload && XC_P->p == NULL && xv_heap_live == xv_heap0)))
#else
/* foreach_san with the recording callback: one visit per matching entry */
#define XC_FS_INV_JOB (xv_cb_calls == xv_gn_match)
#endif
/* ---- loop contract of slist_split(): `left` walks through the string (an object of exactly xv_l1+1 bytes), one piece per round */
#define XC_SPLIT_INV (__CPROVER_same_object(left, str) && __CPROVER_POINTER_OFFSET(left) >= 0 && (size_t)__CPROVER_POINTER_OFFSET(left) <= xv_l1 && \
    slist->len <= (size_t)__CPROVER_POINTER_OFFSET(left) && xv_heap_live == xv_heap0 + 1 + (slist->len > 0 ? 1 : 0) + (long)slist->len)
#define XC_SPLIT_DECR ((long)xv_l1 - (long)__CPROVER_POINTER_OFFSET(left))
#define XC_FS_DECR ((exts != NULL ? (long)xv_gn_num : 0L) - (long)i)
#endif
