//@ tu: libxcm/tp/tls/cert.c libxcm/tp/tls/item.c common/slist.c
//@ nondfcc: 1
//@ defs: -DXV_STR_EXACT_-DXL_S=3
//@ pre-unwind: slist_join.0:5 slist_join.1:5 strcpy.0:4 strlen.0:10 harness.0:5 harness.1:4 slist_destroy.0:5
//@ bounded: list built by <= 3 real slist_append() calls from strings of 0..2 characters; any delimiter other than NUL
//@ props: C10 C08
//@ expect: assertion>=3 canary=3
#include "_unit.h"
#include "_list.h"
/* slist_join(l, d) is an owned C string: the elements in order, separated by d; "" for the empty list */
void harness(void)
{
    xv_ghost_havoc(); xc_ghost_havoc();
    xv_heap_live = 0;
    struct xl x; char d;
    __CPROVER_assume(d != 0);
    struct slist *l = xl_list_any(&x);
    long before = xv_heap_live;
    char expect[3 * XL_S]; size_t n = 0, k, i;
    for (k = 0; k < x.n; k++) {
        if (k > 0) expect[n++] = d;
        for (i = 0; x.e[k][i] != 0; i++) expect[n++] = x.e[k][i];
    }
    expect[n] = 0;
    char *j = slist_join(l, d);
    XV_ASSERT(j != NULL && xv_heap_live == before + 1, "PO[C08] slist_join.result_owned_by_the_caller");
    size_t p = nondet_size_t();
    __CPROVER_assume(p <= n);
    XV_ASSERT(j[p] == expect[p], "PO[C10] slist_join.elements_in_order_separated_by_the_delimiter");
    XV_ASSERT(__CPROVER_OBJECT_SIZE(j) >= n + 1, "PO[C10] slist_join.terminated_inside_its_block");
    if (x.n == 0) XV_CANARY("empty list");
    if (x.n == 3 && n == 8) XV_CANARY("three full elements");
    if (x.n == 2 && n == 1) XV_CANARY("two empty elements");
    ut_free(j);
    slist_destroy(l);
}
