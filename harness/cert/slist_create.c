//@ tu: libxcm/tp/tls/cert.c libxcm/tp/tls/item.c common/slist.c
//@ enforce: slist_create
//@ props: C10 C08
//@ expect: postcondition>=1 canary=1
#include "_unit.h"
void harness(void)
{
    xv_ghost_havoc(); xc_ghost_havoc();
    struct slist *l = slist_create();
    if (l != NULL) XV_CANARY("created");
}
