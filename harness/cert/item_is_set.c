//@ tu: libxcm/tp/tls/cert.c libxcm/tp/tls/item.c common/slist.c
//@ enforce: item_is_set
//@ props: C18
//@ expect: postcondition>=1 canary=2
#include "_unit.h"
void harness(void)
{
    xv_ghost_havoc(); xc_ghost_havoc();
    const struct item *it;
    bool r = item_is_set(it);
    if (r) XV_CANARY("set");
    if (!r) XV_CANARY("unset");
}
