//@ tu: libxcm/tp/tls/cert.c libxcm/tp/tls/item.c common/slist.c
//@ nondfcc: 1
//@ defs: -DXV_STR_EXACT
//@ flags: --unwind 6
//@ bounded: list built by <= 3 real slist_append() calls from strings of 0..3 characters
//@ props: C10 C08 C09
//@ expect: assertion>=6 canary=2
#include "_unit.h"
#include "_list.h"
/* the clone has the same elements in the same order in storage of its own; destroying the original leaves it intact; both
 * lists together own exactly their blocks (xv_heap_live) and destroying both leaves nothing behind */
void harness(void)
{
    xv_ghost_havoc(); xc_ghost_havoc();
    xv_heap_live = 0;
    struct xl x;
    struct slist *l = xl_list_any(&x);
    long one = xv_heap_live;
    XV_ASSERT(one == 1 + (x.n > 0 ? 1 : 0) + (long)x.n, "PO[C08] slist_append.blocks_of_a_list");
    struct slist *c = slist_clone(l);
    XV_ASSERT(c != l && slist_len(c) == x.n, "PO[C10] slist_clone.same_length");
    XV_ASSERT(xv_heap_live == 2 * one, "PO[C08] slist_clone.owns_its_own_blocks");
    unsigned k = nondet_uint();
    __CPROVER_assume(k < x.n);
    XV_ASSERT(xl_streq(slist_get(c, k), x.e[k]), "PO[C10] slist_clone.same_elements_in_the_same_order");
    XV_ASSERT(!__CPROVER_same_object(slist_get(c, k), slist_get(l, k)) && !__CPROVER_same_object(slist_get(c, k), x.e[k]), "PO[C10] slist_clone.deep_copy");
    slist_destroy(l);
    XV_ASSERT(xv_heap_live == one, "PO[C08] slist_destroy.releases_exactly_its_own_blocks");
    XV_ASSERT(xl_streq(slist_get(c, k), x.e[k]), "PO[C10] slist_clone.independent_of_the_original");
    slist_destroy(c);
    XV_ASSERT(xv_heap_live == 0, "PO[C08] slist_destroy.nothing_left");
    if (x.n == 3 && k == 2) XV_CANARY("three elements, the last one");
    if (x.n == 1) XV_CANARY("one element");
}
