//@ tu: libxcm/tp/tls/cert.c libxcm/tp/tls/item.c common/slist.c
//@ enforce: item_init
//@ props: C18
//@ expect: postcondition>=1 canary=1
#include "_unit.h"
void harness(void)
{
    xv_ghost_havoc(); xc_ghost_havoc();
    struct item *it;
    item_init(it);
    XV_CANARY("returned");
}
