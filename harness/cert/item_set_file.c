//@ tu: libxcm/tp/tls/cert.c libxcm/tp/tls/item.c common/slist.c
//@ enforce: item_set_file
//@ props: C18 C08
//@ expect: postcondition>=3 canary=3
#include "_unit.h"
/* any previous designation (unset / file / value, name or value of any length), any new file name of 0..2^16 characters */
void harness(void)
{
    xv_ghost_havoc(); xc_ghost_havoc();
    struct item *it; const char *name; bool sensitive;
    long before = xv_heap_live;
    item_set_file(it, name, sensitive);
    if (xv_heap_live == before + 1) XV_CANARY("was unset");
    if (xv_heap_live == before) XV_CANARY("replaced a designation");
    if (xv_dup_len == 0) XV_CANARY("empty name");
}
