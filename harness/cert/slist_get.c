//@ tu: libxcm/tp/tls/cert.c libxcm/tp/tls/item.c common/slist.c
//@ enforce: slist_get
//@ props: C10
//@ expect: postcondition>=1 canary=2
#include "_unit.h"
/* lists of 1..2^16 elements, any index below the length */
void harness(void)
{
    xv_ghost_havoc(); xc_ghost_havoc();
    const struct slist *l; size_t index;
    const char *r = slist_get(l, index);
    if (index == xv_ce && r != NULL) XV_CANARY("the tracked element");
    if (index == XC_LIST_MAX - 1) XV_CANARY("last element of the longest list");
}
