//@ tu: libxcm/tp/tls/cert.c libxcm/tp/tls/item.c common/slist.c
//@ enforce: cert_get_subject_field_cn
//@ replace: get_cn
//@ props: C10 C14 C08
//@ expect: postcondition>=3 canary=2
#include "_unit.h"
void harness(void)
{
    xv_ghost_havoc(); xc_ghost_havoc();
    char *cn = cert_get_subject_field_cn(XV_CERT);
    if (cn == NULL) XV_CANARY("no common name");
    if (cn != NULL) XV_CANARY("common name");
}
