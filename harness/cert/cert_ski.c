//@ variant: has FN=cert_has_ski
//@ variant: len FN=cert_get_ski_len
//@ variant: get FN=cert_get_ski
//@ tu: libxcm/tp/tls/cert.c libxcm/tp/tls/item.c common/slist.c
//@ enforce: $FN
//@ defs: -DXG_$FN
//@ props: C10
//@ expect: postcondition>=1 canary=2
#include "_unit.h"
void harness(void)
{
    xv_ghost_havoc(); xc_ghost_havoc();
#if defined(XG_cert_has_ski)
    bool r = cert_has_ski(XV_CERT);
    if (r) XV_CANARY("has a key identifier");
    if (!r) XV_CANARY("has none");
#elif defined(XG_cert_get_ski_len)
    size_t n = cert_get_ski_len(XV_CERT);
    if (n == 0) XV_CANARY("empty key identifier");
    if (n == 20) XV_CANARY("SHA-1 key identifier");
#else
    void *buf;
    cert_get_ski(XV_CERT, buf);
    if (xv_ski_len == 0) XV_CANARY("empty key identifier");
    if (xv_ski_len == 20) XV_CANARY("SHA-1 key identifier");
#endif
}
