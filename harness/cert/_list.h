/* harness helper of the bounded (XV_STR_EXACT) jobs: a list built by the REAL slist_create()/slist_append() from 0..3 arbitrary
 * strings of 0..3 characters, and exact comparison of such strings */
#define XL_N 3
#ifndef XL_S
#define XL_S 4
#endif
struct xl { char e[XL_N][XL_S]; unsigned n; };
static inline struct slist *xl_list_any(struct xl *x)
{
    x->n = nondet_uint();
    __CPROVER_assume(x->n <= XL_N);
    struct slist *l = slist_create();
    if (x->n > 0) { x->e[0][XL_S - 1] = 0; slist_append(l, x->e[0]); }
    if (x->n > 1) { x->e[1][XL_S - 1] = 0; slist_append(l, x->e[1]); }
    if (x->n > 2) { x->e[2][XL_S - 1] = 0; slist_append(l, x->e[2]); }
    return l;
}
/* equality of two C strings of at most 3 characters */
static inline _Bool xl_streq(const char *a, const char *b)
{
    if (a[0] != b[0]) return 0;
    if (a[0] == 0) return 1;
    if (a[1] != b[1]) return 0;
    if (a[1] == 0) return 1;
    if (a[2] != b[2]) return 0;
    if (a[2] == 0) return 1;
    return a[3] == b[3];
}
