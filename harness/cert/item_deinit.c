//@ tu: libxcm/tp/tls/cert.c libxcm/tp/tls/item.c common/slist.c
//@ enforce: item_deinit
//@ props: C18 C08
//@ expect: postcondition>=2 canary=3
#include "_unit.h"
void harness(void)
{
    xv_ghost_havoc(); xc_ghost_havoc();
    struct item *it;
    long before = xv_heap_live;
    item_deinit(it);
    if (it == NULL) XV_CANARY("NULL item");
    if (it != NULL && xv_heap_live == before) XV_CANARY("was unset");
    if (it != NULL && xv_heap_live == before - 1) XV_CANARY("data released");
}
