//@ tu: libxcm/tp/tls/cert.c libxcm/tp/tls/item.c common/slist.c
//@ enforce: item_load
//@ props: C18 C08
//@ expect: postcondition>=5 canary=5
#include "_unit.h"
void harness(void)
{
    xv_ghost_havoc(); xc_ghost_havoc();
    const struct item *it; char **data;
    long before = xv_heap_live, ld = xv_ld_calls;
    int rv = item_load(it, data);
    if (rv == 0 && xv_heap_live == before) XV_CANARY("unset");
    if (rv == 0 && xv_heap_live == before + 1) XV_CANARY("by value");
    if (rv == 1 && xv_ld_calls == ld + 1) XV_CANARY("empty file");
    if (rv == 2147483647) XV_CANARY("largest file");
    if (rv == -1) XV_CANARY("file unreadable");
}
