//@ tu: libxcm/tp/tls/cert.c libxcm/tp/tls/item.c common/slist.c
//@ loops: cert.loops
//@ enforce: slist_split
//@ replace: append
//@ props: C10 C08 C09
//@ expect: postcondition>=4 canary=4 loop_contract>=3
#include "_unit.h"
/* every string of 0..2^16-1 characters, every delimiter */
void harness(void)
{
    xv_ghost_havoc(); xc_ghost_havoc();
    const char *str; char delim;
    struct slist *l = slist_split(str, delim);
    if (xv_l1 == 0) XV_CANARY("empty string");
    if (xv_l1 == XC_STR_MAX - 1) XV_CANARY("longest string");
    if (xv_heap_live == xv_heap0 + 3) XV_CANARY("one piece");
    if (xv_heap_live == xv_heap0 + 5) XV_CANARY("three pieces");
}
