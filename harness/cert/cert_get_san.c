//@ tu: libxcm/tp/tls/cert.c libxcm/tp/tls/item.c common/slist.c
//@ loops: cert.loops
//@ enforce: cert_get_san
//@ replace: ut_strdup
//@ defs: -DXC_JOB_SAN
//@ props: C10 C14 C08
//@ expect: postcondition>=3 canary=4 loop_contract>=3
#include "_unit.h"
void harness(void)
{
    xv_ghost_havoc(); xc_ghost_havoc();
    xv_asn1_nt = 1;
    enum cert_san_type t; size_t index;
    char *r = cert_get_san(XV_CERT, t, index);
    if (r == NULL && xv_gn_absent) XV_CANARY("no subjectAltName");
    if (r == NULL && !xv_gn_absent && index == 3) XV_CANARY("index beyond the entries of the type");
    if (r != NULL && index == 0) XV_CANARY("first entry");
    if (r != NULL && index == 999 && xv_gn_k_len == 0) XV_CANARY("thousandth entry, empty name");
}
