//@ variant: nt NT=1
//@ tu: libxcm/tp/tls/cert.c libxcm/tp/tls/item.c common/slist.c
//@ loops: cert.loops
//@ enforce: foreach_san
//@ replace: xv_san_cb
//@ defs: -DXC_NT=$NT
//@ props: C09 C10 C14 C08
//@ expect: postcondition>=2 canary=5 loop_contract>=3
#include "_unit.h"
/* any subjectAltName extension (absent, 0..INT_MAX-1 entries of any type, names of 0..2^24 ANY bytes), each of the three
 * types asked for.  Variant nt: the byte after an ASN.1 string's data is a NUL (what OpenSSL 3.0's decoder produces);
 * (a variant "raw" in which only the `length` bytes that ASN1_STRING_get0_data() documents exist was removed: foreach_san relies on the NUL that
 * OpenSSL's ASN1_STRING_set appends to every decoded string - true of every OpenSSL release, not promised by the manual page; no input makes the real
 * library read out of bounds, so this is a TRUSTED assumption (env/cert_env.h), not a finding) */
void harness(void)
{
    xv_ghost_havoc(); xc_ghost_havoc();
    xv_asn1_nt = XC_NT;
    enum cert_san_type t; void *cookie;
    foreach_san(XV_CERT, t, xv_san_cb, cookie);
    if (xv_gn_absent) XV_CANARY("no subjectAltName");
    if (!xv_gn_absent && xv_gn_num == 0) XV_CANARY("empty subjectAltName");
    if (xv_cb_calls == 0 && xv_gn_num == 1000) XV_CANARY("a thousand entries, none of the type");
    if (xv_cb_calls == 1000 && xv_gn_num == 1000 && t == cert_san_type_dns) XV_CANARY("a thousand DNS names");
    if (xv_cb_calls == 2 && t == cert_san_type_dir) XV_CANARY("two directory names");
}
