//@ tu: libxcm/tp/tls/cert.c libxcm/tp/tls/item.c common/slist.c
//@ enforce: slist_append
//@ props: C10 C08
//@ expect: postcondition>=5 canary=4
#include "_unit.h"
void harness(void)
{
    xv_ghost_havoc(); xc_ghost_havoc();
    struct slist *l; const char *str;
    long before = xv_heap_live;
    slist_append(l, str);
    if (str == NULL) XV_CANARY("NULL element");
    if (str != NULL && xv_l1 == 0) XV_CANARY("empty string");
    if (xv_heap_live == before + 2) XV_CANARY("first element of a list");
    if (xv_heap_live == before + 1 && str != NULL) XV_CANARY("further element");
}
