//@ tu: libxcm/tp/tls/cert.c libxcm/tp/tls/item.c common/slist.c
//@ enforce: item_set_value_n
//@ props: C18 C08
//@ expect: postcondition>=3 canary=5
#include "_unit.h"
/* value: exactly len arbitrary bytes (0..2^16), not terminated */
void harness(void)
{
    xv_ghost_havoc(); xc_ghost_havoc();
    struct item *it; const char *value; size_t len; bool sensitive;
    long before = xv_heap_live;
    item_set_value_n(it, value, len, sensitive);
    if (xv_heap_live == before + 1) XV_CANARY("was unset");
    if (xv_heap_live == before) XV_CANARY("replaced a designation");
    if (len == 0) XV_CANARY("empty value");
    if (len == XC_STR_MAX && xv_dup_len == len) XV_CANARY("longest value, no NUL");
    if (xv_dup_len < len) XV_CANARY("value with a NUL: prefix");
}
