//@ tu: libxcm/tp/tls/cert.c libxcm/tp/tls/item.c common/slist.c
//@ nondfcc: 1
//@ defs: -DXV_STR_EXACT
//@ flags: --unwind 6
//@ bounded: list built by <= 3 real slist_append() calls from strings of 0..3 characters; probe string of 0..3 characters
//@ props: C10 C09
//@ expect: assertion>=1 canary=3
#include "_unit.h"
#include "_list.h"
/* slist_has(l, s) <=> some element of l equals s */
void harness(void)
{
    xv_ghost_havoc(); xc_ghost_havoc();
    xv_heap_live = 0;
    struct xl x; char q[XL_S];
    struct slist *l = xl_list_any(&x);
    q[XL_S - 1] = 0;
    bool r = slist_has(l, q);
    bool expect = (x.n > 0 && xl_streq(x.e[0], q)) || (x.n > 1 && xl_streq(x.e[1], q)) || (x.n > 2 && xl_streq(x.e[2], q));
    XV_ASSERT(r == expect, "PO[C10] slist_has.true_iff_some_element_equals_the_string");
    if (r && x.n == 3 && !xl_streq(x.e[0], q) && !xl_streq(x.e[1], q)) XV_CANARY("found as last element");
    if (!r && x.n == 3) XV_CANARY("not in a full list");
    if (!r && x.n == 0) XV_CANARY("empty list");
}
