//@ tu: libxcm/tp/tls/cert.c libxcm/tp/tls/item.c common/slist.c
//@ nondfcc: 1
//@ defs: -DXV_STR_EXACT
//@ flags: --unwind 6
//@ bounded: NULL, or a list built by <= 3 real slist_append() calls from strings of 0..3 characters or NULL elements
//@ props: C08
//@ expect: assertion>=2 canary=3
#include "_unit.h"
#include "_list.h"
void harness(void)
{
    xv_ghost_havoc(); xc_ghost_havoc();
    xv_heap_live = 0;
    slist_destroy(NULL);
    XV_ASSERT(xv_heap_live == 0, "PO[C08] slist_destroy.NULL_is_a_no_op");
    struct xl x;
    struct slist *l = xl_list_any(&x);
    _Bool extra = nondet_bool();
    if (extra) slist_append(l, NULL);
    slist_destroy(l);
    XV_ASSERT(xv_heap_live == 0, "PO[C08] slist_destroy.every_block_released_exactly_once");
    if (x.n == 0 && !extra) XV_CANARY("empty list");
    if (x.n == 3 && extra) XV_CANARY("four elements, one NULL");
    if (x.n == 2) XV_CANARY("two elements");
}
