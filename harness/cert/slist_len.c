//@ tu: libxcm/tp/tls/cert.c libxcm/tp/tls/item.c common/slist.c
//@ enforce: slist_len
//@ props: C10
//@ expect: postcondition>=1 canary=2
#include "_unit.h"
void harness(void)
{
    xv_ghost_havoc(); xc_ghost_havoc();
    const struct slist *l;
    size_t n = slist_len(l);
    if (n == 0) XV_CANARY("empty");
    if (n > 3) XV_CANARY("long");
}
