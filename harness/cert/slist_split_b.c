//@ tu: libxcm/tp/tls/cert.c libxcm/tp/tls/item.c common/slist.c
//@ nondfcc: 1
//@ defs: -DXV_STR_EXACT
//@ pre-unwind: slist_split.0:5 strchrnul.0:5 strlen.0:5 harness.0:5 harness.1:5 slist_join.0:5 slist_join.1:5 strcpy.0:5 slist_destroy.0:6
//@ bounded: input strings of 0..3 characters, any delimiter other than NUL (0..4 pieces)
//@ props: C10 C08
//@ expect: assertion>=5 canary=4
#include "_unit.h"
#include "_list.h"
/* slist_split(s, d): "" gives the empty list; otherwise (number of d in s) + 1 pieces, none containing d, which joined by d
 * give s back (so the pieces are exactly the maximal d-free stretches, in order); the caller owns the list */
void harness(void)
{
    xv_ghost_havoc(); xc_ghost_havoc();
    xv_heap_live = 0;
    char s[4], d;
    s[3] = 0;
    __CPROVER_assume(d != 0);
    size_t len = 0, nd = 0, i;
    for (i = 0; s[i] != 0; i++) { len++; if (s[i] == d) nd++; }
    struct slist *l = slist_split(s, d);
    XV_ASSERT(l != NULL && slist_len(l) == (len == 0 ? 0 : nd + 1), "PO[C10] slist_split.one_piece_more_than_delimiters");
    XV_ASSERT(xv_heap_live == 1 + (slist_len(l) > 0 ? 1 : 0) + (long)slist_len(l), "PO[C08] slist_split.blocks_owned_by_the_list");
    size_t k = nondet_size_t(), q = nondet_size_t();
    if (k < slist_len(l)) {
        const char *e = slist_get(l, k);
        XV_ASSERT(e != NULL && !__CPROVER_same_object(e, s), "PO[C10] slist_split.pieces_are_copies");
        size_t el = 0;
        for (i = 0; e[i] != 0; i++) el++;
        if (q < el) XV_ASSERT(e[q] != d, "PO[C10] slist_split.no_delimiter_inside_a_piece");
    }
    if (len > 0) {
        char *j = slist_join(l, d);
        __CPROVER_assume(q <= len);
        XV_ASSERT(j[q] == s[q], "PO[C10] slist_split.join_gives_the_string_back");
        ut_free(j);
    }
    if (len == 0) XV_CANARY("empty string");
    if (len == 3 && nd == 3) XV_CANARY("only delimiters: four empty pieces");
    if (len == 3 && nd == 0) XV_CANARY("one piece");
    if (len == 3 && nd == 1 && s[1] == d) XV_CANARY("two pieces");
    slist_destroy(l);
    XV_ASSERT(xv_heap_live == 0, "PO[C08] slist_destroy.nothing_left");
}
