//@ tu: libxcm/tp/tls/cert.c libxcm/tp/tls/item.c common/slist.c
//@ nondfcc: 1
//@ defs: -DXV_STR_EXACT_-DXL_S=3
//@ pre-unwind: foreach_san.0:5 foreach_san.1:5 foreach_san.2:5 slist_has.0:5 strcmp.0:4 strlen.0:4 slist_destroy.0:6 harness.0:5 harness.1:5
//@ bounded: subject common name absent or of 0..2 ANY bytes; subjectAltName absent or of 0..3 entries of any type, names of 0..2 ANY bytes (NUL after the data, as OpenSSL 3.0 produces)
//@ props: C10 C14 C08 C09
//@ expect: assertion>=6 canary=5
#include "_unit.h"
#include "_list.h"
/* cert_get_subject_names == [CN, if the subject has one without embedded NUL] ++ [the DNS names of the subjectAltName without embedded NUL, in order,
 * each one only if it is not in the list yet]: no duplicates; the caller owns the list and everything else has been released */
void harness(void)
{
    xv_ghost_havoc(); xc_ghost_havoc();
    xv_heap_live = 0; xv_gn_live = 0; xv_gn_next = 0; xv_gn_match = 0; xv_d2i_calls = 0; xv_gn_free_calls = 0;
    xv_nm_calls = 0; xv_nm_fills = 0; xv_subj_calls = 0; xv_dup_calls = 0;
    xv_asn1_nt = 1; xv_gn_want = GEN_DNS; xv_subj_null = 0;
    __CPROVER_assume(xv_gn_num >= 0 && xv_gn_num <= 3 && xv_cn_len >= 0 && xv_cn_len <= 2);
    xv_cn_z = xv_cn_len;        /* no NUL forced into the common name; its bytes are arbitrary (may be NUL) anyway */

    struct slist *names = cert_get_subject_names(XV_CERT);

    /* the expected list, from what the model handed out */
    char expect[4][3]; size_t en = 0, i, k;
    /* (a common name with an embedded NUL is not reported at all - fix 26bc195; before, its prefix was) */
    _Bool cn_whole = xv_cn_present && (xv_cn_len < 1 || xv_ex_cn[0] != 0) && (xv_cn_len < 2 || xv_ex_cn[1] != 0);
    if (cn_whole) { expect[0][0] = xv_ex_cn[0]; expect[0][1] = xv_ex_cn[1]; expect[0][2] = 0; en = 1; }
    if (!xv_gn_absent)
        for (i = 0; i < (size_t)xv_gn_num; i++) {
            if (!xv_ex_match[i]) continue;
            _Bool dup = 0;
            for (k = 0; k < en; k++) if (xl_streq(expect[k], xv_ex_str[i])) dup = 1;
            if (!dup) { expect[en][0] = xv_ex_str[i][0]; expect[en][1] = xv_ex_str[i][1]; expect[en][2] = 0; en++; }
        }
    XV_ASSERT(names != NULL && slist_len(names) == en, "PO[C10,C14] cert_get_subject_names.cn_plus_unique_dns_names");
    size_t q = nondet_size_t(), r = nondet_size_t();
    if (q < en) XV_ASSERT(xl_streq(slist_get(names, q), expect[q]), "PO[C10,C14] cert_get_subject_names.cn_first_then_dns_names_in_order");
    if (q < en && r < en && q != r) XV_ASSERT(!xl_streq(slist_get(names, q), slist_get(names, r)), "PO[C10] cert_get_subject_names.no_duplicates");
    XV_ASSERT(xv_gn_live == 0 && xv_d2i_calls == 1 && xv_gn_free_calls == 1, "PO[C08] cert_get_subject_names.general_names_released_exactly_once");
    XV_ASSERT(xv_heap_live == 1 + (en > 0 ? 1 : 0) + (long)en, "PO[C08] cert_get_subject_names.only_the_list_is_left_and_the_caller_owns_it");
    if (en == 0) XV_CANARY("no names at all");
    if (en == 4) XV_CANARY("CN and three different DNS names");
    if (en == 1 && cn_whole && !xv_gn_absent && xv_gn_num == 3 && xv_ex_match[0] && xv_ex_match[1] && xv_ex_match[2]) XV_CANARY("three DNS names equal to the CN");
    if (en == 2 && !cn_whole && xv_gn_num == 3 && xv_ex_match[0] && xv_ex_match[1] && xv_ex_match[2]) XV_CANARY("one DNS name twice");
    if (en == 1 && !cn_whole && xv_gn_num == 3) XV_CANARY("one DNS name among other types");
    slist_destroy(names);
    XV_ASSERT(xv_heap_live == 0, "PO[C08] slist_destroy.nothing_left");
}
