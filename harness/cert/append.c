//@ tu: libxcm/tp/tls/cert.c libxcm/tp/tls/item.c common/slist.c
//@ enforce: append
//@ props: C10 C08
//@ expect: postcondition>=5 canary=5
#include "_unit.h"
/* lists of 0..2^16-1 elements; str NULL or any str_len (0..2^16) bytes */
void harness(void)
{
    xv_ghost_havoc(); xc_ghost_havoc();
    struct slist *l; const char *str; size_t n;
    long before = xv_heap_live;
    xv_trust_shape = 0;
    append(l, str, n);
    if (str == NULL) XV_CANARY("NULL element");
    if (str != NULL && n == 0) XV_CANARY("empty string");
    if (str != NULL && n == XC_STR_MAX) XV_CANARY("longest string");
    if (xv_heap_live == before + 2) XV_CANARY("first element of a list");
    if (xv_heap_live == before + 1 && str != NULL) XV_CANARY("further element");
}
