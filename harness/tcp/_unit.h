/* common part of every tcp-unit harness: prelude, REAL TU, env, contracts */
#include "prelude.h"
#include "xcm_tp_tcp.c"          /* the real libxcm/tp/tcp/xcm_tp_tcp.c (scratch copy with loop contracts spliced) */
#include "env/base.h"
#define XF_STRUCT tcp_socket
#define XF_PREFIX tcp
#include "contracts/framing.h"
