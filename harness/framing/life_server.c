//@ variant: tcp TU=libxcm/tp/tcp/xcm_tp_tcp.c DEFS=-DXF_TCP_-DXF_LIFE P=tcp C=tcp_to_btcp
//@ variant: tls TU=libxcm/tp/tls/xcm_tp_tls.c DEFS=-DXF_TLS_-DXF_LIFE P=tls C=tls_to_btls
//@ tu: $TU
//@ defs: $DEFS
//@ loops: framing.loops
//@ props: C08
//@ enforce: $P_server
//@ replace: $C xcm_tp_socket_server xcm_tp_socket_close xcm_tp_socket_destroy
//@ expect: postcondition>=2 canary=3
#include "_unit.h"
void harness(void)
{
    xv_ghost_havoc();
    xv_sub = nondet_sub(); xv_sub_state = nondet_int(); xv_sub_leaked = nondet_int(); xv_sub_closes = nondet_int(); xv_sub_cleanups = nondet_int(); xv_sub_destroys = nondet_int(); xv_sub_creates = nondet_int();
    struct xcm_socket *s; const char *a; int c0 = xv_sub_closes; int rv = XFN(server)(s, a); if (rv == 0) XV_CANARY("bound"); if (rv == -1 && xv_sub_closes == c0 + 1) XV_CANARY("bad address: closed then destroyed"); if (rv == -1 && xv_sub_closes == c0) XV_CANARY("sub-socket server failed: destroyed only");
}
