//@ variant: tcp TU=libxcm/tp/tcp/xcm_tp_tcp.c DEFS=-DXF_TCP_-DXF_LIFE P=tcp C=tcp_to_btcp
//@ variant: tls TU=libxcm/tp/tls/xcm_tp_tls.c DEFS=-DXF_TLS_-DXF_LIFE P=tls C=tls_to_btls
//@ tu: $TU
//@ defs: $DEFS
//@ loops: framing.loops
//@ props: C08
//@ enforce: $P_init
//@ replace: xcm_tp_proto_by_name xcm_tp_socket_create xcm_tp_socket_init xcm_tp_socket_destroy
//@ expect: postcondition>=2 canary=2
#include "_unit.h"
void harness(void)
{
    xv_ghost_havoc();
    xv_sub = nondet_sub(); xv_sub_state = nondet_int(); xv_sub_leaked = nondet_int(); xv_sub_closes = nondet_int(); xv_sub_cleanups = nondet_int(); xv_sub_destroys = nondet_int(); xv_sub_creates = nondet_int();
    struct xcm_socket *s, *parent; int rv = XFN(init)(s, parent); if (rv == 0) XV_CANARY("initialised"); if (rv == -1 && xv_sub_state == 6) XV_CANARY("sub-socket init failed: destroyed");
}
