//@ variant: tcp TU=libxcm/tp/tcp/xcm_tp_tcp.c DEFS=-DXF_TCP P=tcp
//@ variant: tls TU=libxcm/tp/tls/xcm_tp_tls.c DEFS=-DXF_TLS P=tls
//@ tu: $TU
//@ replay: framing_native.py
//@ defs: $DEFS
//@ loops: framing.loops
//@ enforce: $P_finish
//@ replace: try_finish_send xcm_tp_socket_finish
//@ props: C01 C03 C06
//@ expect: postcondition>=5 canary=3
#include "_unit.h"
void harness(void)
{
    xv_ghost_havoc();
    struct xcm_socket *s;
    int rv = XFN(finish)(s);
    if (rv == 0) XV_CANARY("rv0");
    if (rv == -1 && xv_errno == EAGAIN) XV_CANARY("EAGAIN");
    if (rv == -1 && xv_lower_dead) XV_CANARY("dead");
}
