//@ variant: tcp TU=libxcm/tp/tcp/xcm_tp_tcp.c DEFS=-DXF_TCP FN=tcp_send
//@ variant: tls TU=libxcm/tp/tls/xcm_tp_tls.c DEFS=-DXF_TLS FN=tls_send
//@ tu: $TU
//@ replay: framing_native.py
//@ defs: $DEFS
//@ loops: framing.loops
//@ enforce: $FN
//@ replace: try_finish_send
//@ props: C01 C03 C17 C06
//@ expect: postcondition>=10 canary=5
#include "_unit.h"
void harness(void)
{
    xv_ghost_havoc();
    struct xcm_socket *s; const void *buf; size_t len;
    int rv = XFN(send)(s, buf, len);
    if (rv == 0) XV_CANARY("rv0");
    if (rv == 0 && xv_tx_off == 0) XV_CANARY("rv0, frame pending");
    if (rv == -1 && xv_errno == EAGAIN) XV_CANARY("rv-1 EAGAIN");
    if (rv == -1 && xv_errno == EMSGSIZE) XV_CANARY("rv-1 EMSGSIZE");
    if (rv == -1 && xv_lower_dead && xv_tx_off > 70000) XV_CANARY("rv-1, connection died");
}
