//@ variant: tcp TU=libxcm/tp/tcp/xcm_tp_tcp.c DEFS=-DXF_TCP P=tcp
//@ variant: tls TU=libxcm/tp/tls/xcm_tp_tls.c DEFS=-DXF_TLS P=tls
//@ tu: $TU
//@ defs: $DEFS
//@ loops: framing.loops
//@ enforce: $P_receive
//@ replace: try_finish_send xcm_tp_socket_receive
//@ timeout: 3000
//@ props: C01 C06 C07 C17 C02
//@ expect: postcondition>=14 canary=6
#include "_unit.h"
void harness(void)
{
    xv_ghost_havoc();
    struct xcm_socket *s; void *buf; size_t capacity;
    long r0 = xv_rx_off;
    int rv = XFN(receive)(s, buf, capacity);
    if (rv > 0) XV_CANARY("delivered");
    if (rv > 0 && (size_t)rv == capacity && xv_rx_off - r0 > (long)capacity + 4) XV_CANARY("delivered truncated (frame partly buffered before)");
    if (rv == 0 && xv_rx_eof) XV_CANARY("rv0 eof");
    if (rv == 0 && !xv_rx_eof) XV_CANARY("rv0 from EPIPE on flush");
    if (rv == -1 && xv_errno == EAGAIN) XV_CANARY("EAGAIN");
    if (rv == -1 && xv_errno == EPROTO && !xv_lower_dead) XV_CANARY("EPROTO");
}
