//@ variant: tcp TU=libxcm/tp/tcp/xcm_tp_tcp.c DEFS=-DXF_TCP P=tcp R=xcm_tp_socket_receive NOTE=thorough-only
//@ variant: tls TU=libxcm/tp/tls/xcm_tp_tls.c DEFS=-DXF_TLS P=tls R=xcm_tp_socket_receive NOTE=thorough-only
//@ variant: tcp-nr TU=libxcm/tp/tcp/xcm_tp_tcp.c DEFS=-DXF_TCP_-DXV_NR P=tcp R=buffer_msg NOTE=quick
//@ variant: tls-nr TU=libxcm/tp/tls/xcm_tp_tls.c DEFS=-DXF_TLS_-DXV_NR P=tls R=buffer_msg NOTE=quick
//@ tu: $TU
//@ replay: framing_native.py
//@ defs: $DEFS
//@ loops: framing.loops
//@ enforce: $P_receive
//@ replace: try_finish_send $R
//@ timeout: 3000
//@ note: $NOTE
//@ props: C01 C06 C07 C17 C02
//@ expect: postcondition>=14 canary=6
#include "_unit.h"
void harness(void)
{
    xv_ghost_havoc();
    struct xcm_socket *s; void *buf; size_t capacity;
    long r0 = xv_rx_off;
    int rv = XFN(receive)(s, buf, capacity);
    if (rv > 0) XV_CANARY("delivered");
    if (rv > 0 && (size_t)rv == capacity && xv_rx_off - r0 > (long)capacity + 4) XV_CANARY("delivered truncated (frame partly buffered before)");
    if (rv == 0 && xv_rx_eof) XV_CANARY("rv0 eof");
    if (rv == 0 && !xv_rx_eof) XV_CANARY("rv0 from EPIPE on flush");
    if (rv == -1 && xv_errno == EAGAIN) XV_CANARY("EAGAIN");
    if (rv == -1 && xv_errno == EPROTO && !xv_lower_dead) XV_CANARY("EPROTO");
}
