//@ variant: tcp TU=libxcm/tp/tcp/xcm_tp_tcp.c DEFS=-DXF_TCP P=tcp
//@ variant: tls TU=libxcm/tp/tls/xcm_tp_tls.c DEFS=-DXF_TLS P=tls
//@ tu: $TU
//@ replay: framing_native.py
//@ defs: $DEFS
//@ loops: framing.loops
//@ enforce: buffer_receive
//@ replace: xcm_tp_socket_receive
//@ props: C01 C07
//@ expect: postcondition>=8 canary=4
#include "_unit.h"
void harness(void)
{
    xv_ghost_havoc();
    struct xcm_socket *s; int len;
    int rv = buffer_receive(s, len);
    if (rv == 1) XV_CANARY("rv1");
    if (rv == 0) XV_CANARY("rv0 eof");
    if (rv == -1 && xv_errno == EAGAIN && xv_rx_off > 0) XV_CANARY("short read");
    if (rv == -1 && xv_errno == ECONNRESET) XV_CANARY("error");
}
