/* common part of every framing-unit harness: prelude, REAL TU, env, contracts.
 * Variant tcp: libxcm/tp/tcp/xcm_tp_tcp.c; variant tls (-DXF_TLS): libxcm/tp/tls/xcm_tp_tls.c
 * (the scratch copy with loop contracts spliced is first on the include path). */
#include "prelude.h"
#ifdef XF_TLS
#define XF_STRUCT tls_socket
#define XF_PREFIX tls
#define XF_LOWER(s) (XF(s)->btls_socket)
#include "xcm_tp_tls.c"
#else
#define XF_STRUCT tcp_socket
#define XF_PREFIX tcp
#define XF_LOWER(s) (XF(s)->btcp_socket)
#include "xcm_tp_tcp.c"
#endif
#include "env/base.h"
#include "contracts/framing.h"
#ifdef XF_LIFE
#include "contracts/framing_life.h"
struct xcm_socket *nondet_sub(void);
#endif
