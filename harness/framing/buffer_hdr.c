//@ variant: tcp TU=libxcm/tp/tcp/xcm_tp_tcp.c DEFS=-DXF_TCP P=tcp
//@ variant: tls TU=libxcm/tp/tls/xcm_tp_tls.c DEFS=-DXF_TLS P=tls
//@ tu: $TU
//@ replay: framing_native.py
//@ defs: $DEFS
//@ loops: framing.loops
//@ enforce: buffer_hdr
//@ replace: xcm_tp_socket_receive
//@ props: C01 C07
//@ expect: postcondition>=8 canary=3
#include "_unit.h"
void harness(void)
{
    xv_ghost_havoc();
    struct xcm_socket *s;
    long r0 = xv_rx_off;
    int rv = buffer_hdr(s);
    if (rv == 1 && xv_rx_off == r0) XV_CANARY("header was complete");
    if (rv == 1 && xv_rx_off == r0 + 3) XV_CANARY("header completed");
    if (rv == -1 && xv_errno == EAGAIN) XV_CANARY("short");
}
