//@ variant: tcp TU=libxcm/tp/tcp/xcm_tp_tcp.c DEFS=-DXF_TCP P=tcp
//@ variant: tls TU=libxcm/tp/tls/xcm_tp_tls.c DEFS=-DXF_TLS P=tls
//@ tu: $TU
//@ replay: framing_native.py
//@ defs: $DEFS
//@ loops: framing.loops
//@ enforce: $P_update
//@ replace: xcm_tp_socket_update
//@ props: C04 C16
//@ expect: postcondition>=2 canary=2
#include "_unit.h"
void harness(void)
{
    xv_ghost_havoc();
    struct xcm_socket *s;
    XFN(update)(s);
    if (xv_lower_updated_with & XCM_SO_SENDABLE) XV_CANARY("sendable");
    if (xv_lower_updated_with == 0) XV_CANARY("idle");
}
