//@ variant: tcp TU=libxcm/tp/tcp/xcm_tp_tcp.c DEFS=-DXF_TCP P=tcp
//@ variant: tls TU=libxcm/tp/tls/xcm_tp_tls.c DEFS=-DXF_TLS P=tls
//@ tu: $TU
//@ replay: framing_native.py
//@ defs: $DEFS
//@ loops: framing.loops
//@ enforce: buffer_payload
//@ replace: xcm_tp_socket_receive
//@ props: C01 C07 C17
//@ expect: postcondition>=10 canary=3
#include "_unit.h"
void harness(void)
{
    xv_ghost_havoc();
    struct xcm_socket *s;
    int rv = buffer_payload(s);
    if (rv == 1) XV_CANARY("complete");
    if (rv == -1 && xv_errno == EPROTO && !xv_lower_dead) XV_CANARY("illegal length");
    if (rv == -1 && xv_errno == EAGAIN) XV_CANARY("short");
}
