//@ variant: tcp TU=libxcm/tp/tcp/xcm_tp_tcp.c DEFS=-DXF_TCP
//@ variant: tls TU=libxcm/tp/tls/xcm_tp_tls.c DEFS=-DXF_TLS
//@ tu: $TU
//@ replay: framing_native.py
//@ defs: $DEFS
//@ loops: framing.loops
//@ enforce: try_finish_send
//@ replace: xcm_tp_socket_send
//@ props: C01 C03 C17 C07
//@ expect: postcondition>=6 loop_contract>=8 canary=3
#include "_unit.h"
void harness(void)
{
    xv_ghost_havoc();
    struct xcm_socket *s;
    int rv = try_finish_send(s);
    if (rv == 0) XV_CANARY("rv0");
    if (rv == -1) XV_CANARY("rv-1");
    if (rv == 0 && xv_tx_off > 10) XV_CANARY("flushed something");
}
