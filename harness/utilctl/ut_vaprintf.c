//@ tu: common/util.c
//@ enforce: ut_vaprintf
//@ props: C08
//@ expect: postcondition>=3 canary=4
#include "_unit_util.h"
void harness(void)
{
    xv_ghost_havoc();
    xv_fd_havoc();
    xvu_ghost_havoc();
    char *buf; size_t cap; const char *fmt; va_list ap;
    ut_vaprintf(buf, cap, fmt, ap);
    if (xvu_g_len + 1 == cap) XV_CANARY("buffer already full: nothing appended");
    if (xvu_g_len + 1 < cap && (size_t)xvu_vsn.ret < cap - xvu_g_len - 1) XV_CANARY("text fitted");
    if (xvu_g_len + 1 < cap && (size_t)xvu_vsn.ret >= cap - xvu_g_len - 1) XV_CANARY("text truncated at the capacity");
    if (xvu_g_len == 0 && cap == 1) XV_CANARY("capacity 1");
}
