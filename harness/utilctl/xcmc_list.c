//@ tu: common/common_ctl.c libxcmctl/xcmc.c
//@ loops: ../harness/utilctl/xcmc.loops
//@ defs: -DUT_STD_ASSERT -DXVU_PARSE_ASSUMED
//@ enforce: xcmc_list
//@ replace: xvu_list_cb ctl_parse_info
//@ props: C08 C14
//@ expect: postcondition>=2 canary=4
#include "_unit_xcmc.h"
void harness(void)
{
    xv_ghost_havoc();
    xv_fd_havoc();
    xvu_ghost_havoc();
    void *data;
    unsigned long c0 = xvu_lcb.calls, e0 = xvu_dir_entries;
    int rv = xcmc_list(xvu_list_cb, data);
    if (rv == -1 && xv_errno == ENOENT) XV_CANARY("no control directory");
    if (rv == 0 && xvu_dir_entries == e0) XV_CANARY("empty directory");
    if (rv == 0 && xvu_dir_entries == e0 + 3 && xvu_lcb.calls == c0 + 2) XV_CANARY("three entries, two control sockets");
    if (rv == 0 && xvu_dir_entries == e0 + 1 && xvu_lcb.calls == c0) XV_CANARY("an entry that is not a control socket");
}
