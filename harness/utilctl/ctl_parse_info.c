//@ tu: common/common_ctl.c libxcmctl/xcmc.c
//@ enforce: ctl_parse_info
//@ props: C14
//@ expect: postcondition>=2 canary=5
#include "_unit_xcmc.h"
void harness(void)
{
    xv_ghost_havoc();
    xv_fd_havoc();
    xvu_ghost_havoc();
    const char *name; pid_t pid = nondet_int(); int64_t ref = nondet_long();
    bool rv = ctl_parse_info(name, &pid, &ref);
    if (rv && pid == 4711 && ref == 17) XV_CANARY("accepted");
    if (!rv && xvu_g_len <= 4) XV_CANARY("too short");
    if (!rv && xvu_g_len > 4 && xvu_strto.l_calls == 0) XV_CANARY("wrong prefix");
    if (!rv && xvu_strto.l_used == 0) XV_CANARY("no pid");
    if (!rv && xvu_strto.ll_used >= 1) XV_CANARY("trailing garbage");
}
