/* util.c harness for ut_send_all: prelude, the REAL common/util.c, the stream-socket send(2) model with the ghost byte
 * stream (env/utilctl_env.h, section XVU_STREAM), contracts.  env/base.h and env/fd.h are not included (util.c defines
 * ut_malloc & friends itself; env/fd.h has a send model without byte stream). */
#define XVU_STREAM 1
#include "prelude.h"
#define XVU_GHOST_ONLY 1
#include "env/utilctl_env.h"
#undef XVU_GHOST_ONLY
#include "util.c"
#include "env/utilctl_env.h"
#include "contracts/utilctl.h"
#ifdef XV_CBMC
static inline void xvu_ghost_havoc(void)
{
    struct xvu_snd_s s; xvu_snd = s;
    xvu_g_len = nondet_size_t(); xvu_g_off = nondet_long(); xvu_g_int = nondet_int();
}
#endif
