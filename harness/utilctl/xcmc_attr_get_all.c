//@ variant: upto64 CLS=SMALL LOOPS= UNW=xcmc_attr_get_all.0:66 CAN=5 EXTRA=-DXVU_CB_NAME_CHECK
//@ variant: above64 CLS=BIG LOOPS=../harness/utilctl/xcmc.loops UNW= CAN=3 EXTRA=
//@ tu: common/common_ctl.c libxcmctl/xcmc.c
//@ loops: $LOOPS
//@ pre-unwind: $UNW
//@ defs: -DUT_STD_ASSERT -DXVU_ATTRS_$CLS $EXTRA
//@ enforce: xcmc_attr_get_all
//@ replace: xvu_attr_cb
//@ flags: --no-array-field-sensitivity --slice-formula --object-bits 13
//@ props: C14
//@ expect: postcondition>=5 canary=$CAN
//@ timeout: 900
#include "_unit_xcmc.h"
/* Two variants = complete case split over the attribute count of the reply (the recv model of env/utilctl_env.h assumes the class):
 *   upto64   attrs_len <= 64: the callback loop is closed by unwinding (65 iterations; i is a constant in each, so every access to
 *            attrs[i] has a constant offset), each callback is checked against the contract of xvu_attr_cb (terminated name, bounded value);
 *   above64  attrs_len  > 64: the reply must be refused before the loop (loop contract of harness/utilctl/xcmc.loops: base case). */
void harness(void)
{
    xv_ghost_havoc();
    xv_fd_havoc();
    xvu_ghost_havoc();
    struct xcmc_session *s; void *data;
    unsigned long c0 = xvu_cb.calls;
    int rv = xcmc_attr_get_all(s, xvu_attr_cb, data);
#ifdef XVU_ATTRS_SMALL
    if (rv == 0 && xvu_cb.calls == c0) XV_CANARY("no attributes");
    if (rv == 0 && xvu_cb.calls == c0 + 64) XV_CANARY("full table");
    if (rv == 0 && xvu_cb.calls == c0 + 3) XV_CANARY("three attributes");
#else
    if (rv == -1 && xvu_rx.full && xvu_rx.type == ctl_proto_type_get_all_attr_cfm && xv_errno == EPROTO) XV_CANARY("attribute count beyond the table refused");
#endif
    if (rv == -1 && xvu_rx.full && xvu_rx.type != ctl_proto_type_get_all_attr_cfm && xv_errno == EPROTO) XV_CANARY("wrong reply type");
    if (rv == -1 && !xvu_rx.full) XV_CANARY("short reply or failure");
}
