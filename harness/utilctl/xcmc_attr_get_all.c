//@ tu: common/common_ctl.c libxcmctl/xcmc.c
//@ loops: ../harness/utilctl/xcmc.loops
//@ defs: -DUT_STD_ASSERT
//@ enforce: xcmc_attr_get_all
//@ replace: xvu_attr_cb
//@ flags: --no-array-field-sensitivity --slice-formula
//@ props: C14
//@ expect: postcondition>=5 canary=5
//@ timeout: 900
#include "_unit_xcmc.h"
void harness(void)
{
    xv_ghost_havoc();
    xv_fd_havoc();
    xvu_ghost_havoc();
    struct xcmc_session *s; void *data;
    unsigned long c0 = xvu_cb.calls;
    int rv = xcmc_attr_get_all(s, xvu_attr_cb, data);
    if (rv == 0 && xvu_cb.calls == c0) XV_CANARY("no attributes");
    if (rv == 0 && xvu_cb.calls == c0 + 64) XV_CANARY("full table");
    if (rv == 0 && xvu_cb.calls == c0 + 3) XV_CANARY("three attributes");
    if (rv == -1 && xvu_rx.full && xv_errno == EPROTO) XV_CANARY("wrong reply type");
    if (rv == -1 && !xvu_rx.full) XV_CANARY("short reply or failure");
}
