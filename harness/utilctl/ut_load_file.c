//@ tu: common/util.c
//@ loops: utilctl.loops
//@ defs: -DXVU_LOAD_ASSUMED
//@ enforce: ut_load_file
//@ replace: load_file
//@ props: C18 C08
//@ expect: postcondition>=4 canary=3
#include "_unit_util.h"
void harness(void)
{
    xv_ghost_havoc();
    xv_fd_havoc();
    xvu_ghost_havoc();
    const char *filename; char **data;
    ssize_t rv = ut_load_file(filename, data);
    if (rv == 0) XV_CANARY("empty file");
    if (rv == 5000) XV_CANARY("5000 bytes");
    if (rv == -1) XV_CANARY("failure");
}
