/* common part of the xcmc / common_ctl harnesses of unit utilctl: prelude, the REAL common/common_ctl.c and libxcmctl/xcmc.c,
 * environment, contracts.  Renamed by macro while the real TUs are read (models in env/utilctl_env.h, TRUSTED):
 *   strlen / strcpy / strncmp -> ghost-length string models (strings of up to PATH_MAX characters)
 *   memcpy (xcmc.c only) -> env/base.h's model with a typed read of the tracked byte
 *   ut_malloc / ut_free (xcmc.c only) -> counting wrappers around env/base.h's (session objects, C08)
 * env/fd.h is reused for the descriptor table and connect/setsockopt/send/close; its socket() (C05 obligation SOCK_NONBLOCK: not
 * applicable to the blocking client library) and send()/recv() (symbolic-offset accesses into 38 KB stack structs; no record of
 * the message fields) are renamed away and supplied by env/utilctl_env.h on top of fd.h's own helpers and ghost record. */
#define XVU_XCMC 1
#define XVU_XCMC_FD 1
/* SWITCH (one place for all xcmc / common_ctl jobs): ctl_derive_path() of /repo returns void today -- which is the defect the job
 * ctl_derive_path reports (abort of the process / silently truncated path for a long XCM_CTL).  Once /repo has the repair with
 * an int result (0, or -1 with ENAMETOOLONG), enable the next line: contracts/utilctl.h then attaches the int contract. */
#define XVU_DERIVE_INT 1
#include "prelude.h"
#define XVU_GHOST_ONLY 1
#include "env/utilctl_env.h"
#undef XVU_GHOST_ONLY
#include <dirent.h>
#include <limits.h>
#include <inttypes.h>
#include <stdio.h>
#include <stdlib.h>
#include <string.h>
#include <sys/socket.h>
#include <sys/types.h>
#include "util.h"
size_t xvu_strlen(const char *s);
char *xvu_strcpy_slot(char *dst, const char *src, int slot);
int xvu_strncmp4(const char *a, const char *b, size_t n);
void *xvu_sess_malloc(size_t size);
void xvu_sess_free(void *p);
#define strlen(s) xvu_strlen(s)
#define strcpy(d, s) xvu_strcpy_slot((d), (s), XVU_STRCPY_SLOT)
#define strncmp(a, b, n) xvu_strncmp4((a), (b), (n))
#define XVU_STRCPY_SLOT 2
#include "common_ctl.c"
#undef XVU_STRCPY_SLOT
#define XVU_STRCPY_SLOT 5
#ifdef XVU_STRCPY64
char *xvu_strcpy64(char *dst, const char *src);
#undef strcpy
#define strcpy(d, s) xvu_strcpy64((d), (s))
#endif
void *xvu_memcpy_val(void *dst, const void *src, size_t n);
#define memcpy(d, s, n) xvu_memcpy_val((d), (s), (n))
#define ut_malloc(n) xvu_sess_malloc(n)
#define ut_free(p) xvu_sess_free(p)
/* xcmc.c compares  send(...) != sizeof(req)  and  recv(...) != sizeof(res) : the ssize_t result -1 is converted to size_t, which C
 * defines (modulo 2^64) and the code relies on; CBMC's --conversion-check reports every signed-to-unsigned conversion of a negative
 * value.  That check is switched off for the text of xcmc.c (only); its one narrowing conversion, `return attr->value_len` (size_t to
 * int), is covered by the postcondition xcmc_attr_get.value_len_not_trusted (the value returned is at most 512). */
#pragma CPROVER check push
#pragma CPROVER check disable "conversion"
#include "xcmc.c"
#pragma CPROVER check pop
#undef ut_malloc
#undef ut_free
#undef memcpy
#undef strlen
#undef strcpy
#undef strncmp
#include "env/base.h"
#define socket xv_fdh_socket
#define recv xv_fdh_recv
#define send xv_fdh_send
#include "env/fd.h"
#undef socket
#undef recv
#undef send
#include "env/utilctl_env.h"
#include "contracts/utilctl.h"

#ifdef XV_CBMC
long long nondet_longlong(void);
static inline void xvu_ghost_havoc(void)
{
    struct xvu_dir_s d; xvu_dir = d;
    struct xvu_fmt_s f; xvu_fmt = f;
    struct xvu_strto_s t; xvu_strto = t;
    struct xvu_rx_s r; xvu_rx = r;
    struct xvu_cb_s c; xvu_cb = c;
    struct xvu_dp_s dp; xvu_dp = dp;
    struct xvu_lcb_s l; xvu_lcb = l;
    xvu_sess_heap = nondet_long(); xvu_tx_tracked = nondet_bool();
    xvu_env = (char *)nondet_cptr(); xvu_env_len = nondet_size_t(); xvu_env_set = nondet_bool();
    xvu_g_len = nondet_size_t(); xvu_g_off = nondet_long(); xvu_g_int = nondet_int();
    xvu_str[0].base = nondet_cptr(); xvu_str[0].len = nondet_size_t();
    xvu_str[1].base = nondet_cptr(); xvu_str[1].len = nondet_size_t();
    xvu_str[2].base = nondet_cptr(); xvu_str[2].len = nondet_size_t();
    xvu_str[3].base = NULL; xvu_str[4].base = NULL; xvu_str[5].base = NULL;
}
#endif
