//@ tu: common/util.c
//@ enforce: ut_aprintf
//@ props: C08
//@ expect: postcondition>=2 canary=3
#include "_unit_util.h"
void harness(void)
{
    xv_ghost_havoc();
    xv_fd_havoc();
    xvu_ghost_havoc();
    char *buf; size_t cap; const char *fmt;
    ut_aprintf(buf, cap, fmt);
    if (xvu_g_len + 1 == cap) XV_CANARY("buffer already full: nothing appended");
    if (xvu_g_len + 1 < cap && (size_t)xvu_vsn.ret < cap - xvu_g_len - 1) XV_CANARY("text fitted");
    if (xvu_g_len + 1 < cap && (size_t)xvu_vsn.ret >= cap - xvu_g_len - 1) XV_CANARY("text truncated at the capacity");
}
