//@ tu: common/util.c
//@ enforce: ut_is_readable
//@ props: C05
//@ expect: postcondition>=2 canary=3
#include "_unit_util.h"
void harness(void)
{
    xv_ghost_havoc();
    xv_fd_havoc();
    xvu_ghost_havoc();
    int fd;
    bool rv = ut_is_readable(fd);
    if (rv) XV_CANARY("readable");
    if (!rv && xvu_pl.rc == 0) XV_CANARY("not readable");
    if (!rv && xvu_pl.rc == -1) XV_CANARY("poll failed");
}
