//@ tu: common/util.c
//@ enforce: ut_close
//@ props: C08
//@ expect: postcondition>=1 canary=1
#include "_unit_util.h"
void harness(void)
{
    xv_ghost_havoc();
    xv_fd_havoc();
    xvu_ghost_havoc();
    int fd; int c0 = xv_close_calls;
    ut_close(fd);
    if (xv_close_calls == c0 + 1) XV_CANARY("closed");
}
