/* common part of the util.c harnesses of unit utilctl: prelude, the REAL common/util.c, environment, contracts.
 * env/base.h is NOT included: util.c itself defines ut_malloc & friends (they are the text under proof here).
 * Renamed by macro while the real TU is read (the models are in env/utilctl_env.h, TRUSTED):
 *   fcntl(fd, cmd, arg)  -> xvu_fcntl        (variadic in libc: DFCC cannot pass its write set through a variadic call)
 *   syscall(nr)          -> xvu_syscall      (variadic)
 *   realloc / free       -> xvu_realloc / xvu_free   (heap accounting for load_file, see env/utilctl_env.h)
 *   strlen / strcpy      -> ghost-length string models
 */
#define XVU_UTIL 1
#include "prelude.h"
#define XVU_GHOST_ONLY 1
#include "env/utilctl_env.h"
#undef XVU_GHOST_ONLY
#include <dirent.h>
#include <fcntl.h>
#include <poll.h>
#include <stdio.h>
#include <stdlib.h>
#include <string.h>
#include <limits.h>
#include <sys/ioctl.h>
#include <sys/socket.h>
#include <sys/stat.h>
#include <sys/syscall.h>
#include <sys/types.h>
#include <unistd.h>
#include <pthread.h>
#include <time.h>
#include <stdarg.h>

int xvu_fcntl(int fd, int cmd, int arg);
long xvu_syscall(long nr);
void *xvu_realloc(void *ptr, size_t size);
void xvu_free(void *ptr);
size_t xvu_strlen(const char *s);
char *xvu_strcpy_slot(char *dst, const char *src, int slot);
#define fcntl(fd, cmd, arg) xvu_fcntl((fd), (cmd), (arg))
#define syscall(nr) xvu_syscall(nr)
#define realloc(p, n) xvu_realloc((p), (n))
#define free(p) xvu_free(p)
#define strlen(s) xvu_strlen(s)
#define strcpy(d, s) xvu_strcpy_slot((d), (s), 5)
#include "util.c"
#undef fcntl
#undef syscall
#undef realloc
#undef free
#undef strlen
#undef strcpy

/* env/fd.h: descriptor table, accept4, close; its getsockopt (no record of the value) and its copies of util.c's
 * ut_close/ut_close_if_valid/ut_accept are renamed away -- the REAL ones are under proof here */
#define getsockopt xv_fdh_getsockopt
#define ut_close xv_fdh_ut_close
#define ut_close_if_valid xv_fdh_ut_close_if_valid
#define ut_accept xv_fdh_ut_accept
#include "env/fd.h"
#undef getsockopt
#undef ut_close
#undef ut_close_if_valid
#undef ut_accept
#include "env/utilctl_env.h"
#include "contracts/utilctl.h"

#ifdef XV_CBMC
static inline void xvu_ghost_havoc(void)
{
    struct xvu_dir_s d; xvu_dir = d;
    struct xvu_fcntl_s f; xvu_fc = f;
    struct xvu_poll_s p; xvu_pl = p;
    struct xvu_so_s s; xvu_so = s;
    struct xvu_vsn_s v; xvu_vsn = v;
    struct xvu_file_s fl; xvu_f = fl;
    xvu_heap = nondet_long(); xvu_blk = (uint8_t *)nondet_cptr(); xvu_blk_cap = nondet_size_t(); xvu_blk_size = nondet_size_t(); xvu_stat_calls = nondet_size_t();
    xvu_g_len = nondet_size_t(); xvu_g_off = nondet_long(); xvu_g_int = nondet_int();
    xvu_str[0].base = nondet_cptr(); xvu_str[0].len = nondet_size_t(); xvu_str[1].base = NULL; xvu_str[2].base = NULL;
    xvu_str[3].base = NULL; xvu_str[4].base = NULL; xvu_str[5].base = NULL;
}
#endif
