//@ tu: common/common_ctl.c libxcmctl/xcmc.c
//@ enforce: ctl_get_dir
//@ props: C14 C08
//@ expect: postcondition>=4 canary=4
#include "_unit_xcmc.h"
void harness(void)
{
    xv_ghost_havoc();
    xv_fd_havoc();
    xvu_ghost_havoc();
    char *buf; size_t cap;
    ctl_get_dir(buf, cap);
    if (!xvu_env_set) XV_CANARY("XCM_CTL unset: default");
    if (xvu_env_set && xvu_env_len + 1 == cap) XV_CANARY("XCM_CTL fits exactly");
    if (xvu_env_set && xvu_env_len == cap) XV_CANARY("XCM_CTL one too long: default");
    if (xvu_env_set && xvu_env_len == 0) XV_CANARY("XCM_CTL empty");
}
