//@ tu: common/common_ctl.c libxcmctl/xcmc.c
//@ defs: -DUT_STD_ASSERT -DXVU_STRCPY64
//@ enforce: xcmc_attr_get
//@ flags: --no-array-field-sensitivity --slice-formula
//@ props: C14
//@ expect: postcondition>=8 canary=8
//@ timeout: 900
#include "_unit_xcmc.h"
void harness(void)
{
    xv_ghost_havoc();
    xv_fd_havoc();
    xvu_ghost_havoc();
    struct xcmc_session *s; const char *name; enum xcm_attr_type *type; void *value; size_t cap;
    int r0 = xv_recv_calls;
    int rv = xcmc_attr_get(s, name, type, value, cap);
    if (rv == -1 && xvu_g_len == XCM_ATTR_NAME_MAX) XV_CANARY("name one too long");
    if (rv >= 0 && xvu_g_len == XCM_ATTR_NAME_MAX - 1) XV_CANARY("longest name");
    if (rv == -1 && xv_recv_calls == r0 && xvu_g_len < XCM_ATTR_NAME_MAX) XV_CANARY("send failed");
    if (rv == -1 && xv_recv_calls == r0 + 1 && xv_recv_ret == -1) XV_CANARY("recv failed (timeout)");
    if (rv == -1 && xv_recv_calls == r0 + 1 && xv_recv_ret == 0) XV_CANARY("peer closed");
    if (rv == -1 && xvu_rx.full && xvu_rx.type == ctl_proto_type_get_attr_rej && xv_errno == ENOENT) XV_CANARY("rejected");
    if (rv == 512 && cap == 512) XV_CANARY("largest value");
    if (rv == 0) XV_CANARY("empty value");
}
