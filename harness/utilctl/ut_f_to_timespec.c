//@ tu: common/util.c
//@ enforce: ut_f_to_timespec
//@ props: C08
//@ expect: postcondition>=1 canary=2
//@ timeout: 900
#include "_unit_util.h"
void harness(void)
{
    xv_ghost_havoc();
    xv_fd_havoc();
    xvu_ghost_havoc();
    double t; struct timespec *ts;
    ut_f_to_timespec(t, ts);
    if (t == 0.0) XV_CANARY("zero");
    if (t == 1.5) XV_CANARY("one and a half");
}
