//@ tu: common/common_ctl.c libxcmctl/xcmc.c
//@ defs: -DUT_STD_ASSERT
//@ enforce: xcmc_close
//@ props: C08
//@ expect: postcondition>=2 canary=3
#include "_unit_xcmc.h"
void harness(void)
{
    xv_ghost_havoc();
    xv_fd_havoc();
    xvu_ghost_havoc();
    struct xcmc_session *s;
    int c0 = xv_close_calls;
    int rv = xcmc_close(s);
    if (rv == 0 && xv_close_calls == c0 + 1) XV_CANARY("closed");
    if (rv == -1) XV_CANARY("close() reported an error (descriptor released all the same)");
    if (rv == 0 && xv_close_calls == c0) XV_CANARY("NULL session");
}
