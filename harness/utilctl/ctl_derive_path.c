//@ tu: common/common_ctl.c libxcmctl/xcmc.c
//@ enforce: ctl_derive_path
//@ props: C14 C08
//@ expect: postcondition>=2 canary=2
#include "_unit_xcmc.h"
void harness(void)
{
    xv_ghost_havoc();
    xv_fd_havoc();
    xvu_ghost_havoc();
    const char *dir; pid_t pid; int64_t ref; char *buf; size_t cap;
    ctl_derive_path(dir, pid, ref, buf, cap);
    if (cap == 108 && xvu_g_len == 12) XV_CANARY("default directory, UNIX_PATH_MAX");
    if ((size_t)xvu_fmt.ret + 1 == cap) XV_CANARY("path fits exactly");
}
