//@ tu: common/util.c
//@ enforce: ut_established
//@ replace: socket_error
//@ props: C05
//@ expect: postcondition>=3 canary=4
#include "_unit_util.h"
void harness(void)
{
    xv_ghost_havoc();
    xv_fd_havoc();
    xvu_ghost_havoc();
    int fd;
    int rv = ut_established(fd);
    if (rv == 0) XV_CANARY("established");
    if (rv == -1 && xv_errno == EINPROGRESS && xvu_pl.rc == 0) XV_CANARY("still in progress");
    if (rv == -1 && xv_errno == EINPROGRESS && xvu_pl.rc == -1) XV_CANARY("poll failed: try again later");
    if (rv == -1 && xv_errno == ETIMEDOUT && (xvu_pl.revents & POLLERR)) XV_CANARY("connection attempt failed");
}
