//@ tu: common/util.c
//@ loops: utilctl.loops
//@ enforce: ut_send_all
//@ props: C08
//@ expect: postcondition>=5 canary=4 loop_invariant_base>=1
#include "_unit_stream.h"
void harness(void)
{
    xv_ghost_havoc();
    xvu_ghost_havoc();
    int fd; void *buf; size_t count; int flags;
    unsigned long calls0 = xvu_snd.calls;
    int rv = ut_send_all(fd, buf, count, flags);
    if (rv == 0) XV_CANARY("nothing to send");
    if (rv > 1 && xvu_snd.calls == calls0 + 1) XV_CANARY("sent in one piece");
    if (rv > 2 && xvu_snd.calls == calls0 + 3) XV_CANARY("sent in three pieces");
    if (rv == -1 && xv_tx_off > xvu_g_off) XV_CANARY("failed after a partial send");
}
