//@ tu: common/util.c
//@ enforce: socket_error
//@ props: C05
//@ expect: postcondition>=2 canary=3
#include "_unit_util.h"
void harness(void)
{
    xv_ghost_havoc();
    xv_fd_havoc();
    xvu_ghost_havoc();
    int fd;
    int rv = socket_error(fd);
    if (rv == 0) XV_CANARY("no pending error");
    if (rv == -1 && xvu_so.rc == 0 && xv_errno == ECONNREFUSED) XV_CANARY("connection refused");
    if (rv == -1 && xvu_so.rc == -1) XV_CANARY("getsockopt failed");
}
