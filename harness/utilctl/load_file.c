//@ tu: common/util.c
//@ loops: utilctl.loops
//@ enforce: load_file
//@ props: C18 C08
//@ expect: postcondition>=4 canary=5
#include "_unit_util.h"
void harness(void)
{
    xv_ghost_havoc();
    xv_fd_havoc();
    xvu_ghost_havoc();
    const char *filename; char **data; size_t spare;
    ssize_t rv = load_file(filename, data, spare);
    if (rv == 0) XV_CANARY("empty file");
    if (rv == 255) XV_CANARY("one short chunk");
    if (rv == 256) XV_CANARY("exactly one chunk, then end of file");
    if (rv == 1000) XV_CANARY("several chunks");
    if (rv == -1 && xvu_f.fopen_ok == xvu_f.fopen_calls) XV_CANARY("read error");
}
