//@ tu: common/util.c
//@ enforce: ut_is_blocking
//@ props: C05
//@ expect: postcondition>=1 canary=2
#include "_unit_util.h"
void harness(void)
{
    xv_ghost_havoc();
    xv_fd_havoc();
    xvu_ghost_havoc();
    int fd;
    bool rv = ut_is_blocking(fd);
    if (rv && xvu_fl_valid) XV_CANARY("blocking");
    if (!rv && xvu_fl_valid) XV_CANARY("non-blocking");
}
