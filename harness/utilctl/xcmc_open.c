//@ tu: common/common_ctl.c libxcmctl/xcmc.c
//@ defs: -DUT_STD_ASSERT -DXVU_DERIVE_ASSUMED
//@ enforce: xcmc_open
//@ replace: ctl_derive_path
//@ props: C08 C14
//@ expect: postcondition>=3 canary=5
#include "_unit_xcmc.h"
void harness(void)
{
    xv_ghost_havoc();
    xv_fd_havoc();
    xvu_ghost_havoc();
    pid_t pid; int64_t ref;
    int s0 = xv_sockopt_calls, c0 = xv_connect_calls, k0 = xv_socket_calls;
    struct xcmc_session *s = xcmc_open(pid, ref);
    if (s != NULL) XV_CANARY("session opened");
    if (s == NULL && xv_socket_calls == k0 + 1 && xv_sockopt_calls == s0 && xv_connect_calls == c0 && xv_errno == EMFILE) XV_CANARY("socket() failed");
    if (s == NULL && xv_sockopt_calls == s0 + 1 && xv_connect_calls == c0) XV_CANARY("first timeout refused");
    if (s == NULL && xv_sockopt_calls == s0 + 2 && xv_connect_calls == c0) XV_CANARY("second timeout refused");
    if (s == NULL && xv_connect_calls == c0 + 1 && xv_errno == ECONNREFUSED) XV_CANARY("connect() refused");
}
