//@ tu: common/util.c
//@ enforce: ut_accept
//@ props: C05
//@ expect: postcondition>=4 canary=3
#include "_unit_util.h"
void harness(void)
{
    xv_ghost_havoc();
    xv_fd_havoc();
    xvu_ghost_havoc();
    int fd; struct sockaddr *addr; socklen_t *len; unsigned flags;
    int rv = ut_accept(fd, addr, len, flags);
    if (rv >= 0) XV_CANARY("accepted");
    if (rv == -1 && xv_errno == EAGAIN) XV_CANARY("nothing to accept");
    if (rv == -1 && xv_errno == EMFILE) XV_CANARY("descriptor table full");
}
