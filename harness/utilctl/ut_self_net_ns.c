//@ tu: common/util.c
//@ loops: utilctl.loops
//@ enforce: ut_self_net_ns
//@ defs: -DXVU_NS_CAP=256
//@ props: C18 C08
//@ expect: postcondition>=3 canary=4
#include "_unit_util.h"
void harness(void)
{
    xv_ghost_havoc();
    xv_fd_havoc();
    xvu_ghost_havoc();
    char *name;
    unsigned long e0 = xvu_dir_entries;
    int rv = ut_self_net_ns(name);
    if (rv == 0 && xvu_opendir_ok == xvu_opendir_calls && xvu_dir_entries == e0) XV_CANARY("no named namespace: empty directory");
    if (rv == 0 && xvu_dir_entries == e0 + 3 && xvu_ent_len == 5) XV_CANARY("third entry matches");
    if (rv == 0 && xvu_opendir_ok != xvu_opendir_calls) XV_CANARY("no /run/netns: empty name");
    if (rv == -1) XV_CANARY("failure");
}
