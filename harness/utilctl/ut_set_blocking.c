//@ tu: common/util.c
//@ enforce: ut_set_blocking
//@ props: C05
//@ expect: postcondition>=4 canary=4
#include "_unit_util.h"
void harness(void)
{
    xv_ghost_havoc();
    xv_fd_havoc();
    xvu_ghost_havoc();
    int fd; bool block;
    int rv = ut_set_blocking(fd, block);
    if (rv == 0 && (xvu_fl & O_NONBLOCK) && (xvu_g_int & O_NONBLOCK) == 0) XV_CANARY("made non-blocking");
    if (rv == 0 && (xvu_fl & O_NONBLOCK) == 0 && (xvu_g_int & O_NONBLOCK)) XV_CANARY("made blocking");
    if (rv == 0 && xvu_fl == xvu_g_int && (xvu_fl & O_APPEND)) XV_CANARY("already in the mode asked for, other flags present");
    if (rv == -1 && xv_errno == EBADF) XV_CANARY("invalid descriptor");
}
