//@ tu: common/util.c
//@ enforce: ut_timespec_to_f
//@ props: C08
//@ expect: postcondition>=1 canary=1
//@ timeout: 900
#include "_unit_util.h"
void harness(void)
{
    xv_ghost_havoc();
    xv_fd_havoc();
    xvu_ghost_havoc();
    const struct timespec *ts;
    double d = ut_timespec_to_f(ts);
    if (d == 2.5) XV_CANARY("two and a half");
}
