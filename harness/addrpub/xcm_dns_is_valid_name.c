//@ tu: libxcm/tp/dns/xcm_dns.c
//@ enforce: xcm_dns_is_valid_name
//@ props: C12
//@ expect: postcondition>=3 canary=4
/* UNBOUNDED (names of 0..4096 characters).  The verdict of the regular expression is regexec's (TRUSTED, any verdict) */
#include "_dns.h"
void harness(void)
{
    xv_ghost_havoc();
    xv_addrpub_env_havoc();
    const char *n;
    _Bool v = xcm_dns_is_valid_name(n);
    if (v && xv_in_len == 253) XV_CANARY("longest name");
    if (!v && xv_in_len == 254) XV_CANARY("one too long");
    if (!v && xv_in_len <= 253) XV_CANARY("no match");
    if (v && xv_in_len == 1) XV_CANARY("shortest name");
}
