//@ variant: utls F=xcm_addr_utls_parse PK=XV_P_UTLS
//@ variant: tls F=xcm_addr_tls_parse PK=XV_P_TLS
//@ variant: tcp F=xcm_addr_tcp_parse PK=XV_P_TCP
//@ tu: libxcm/core/xcm_addr_compat.c
//@ defs: -DXV_F=$F -DXV_PKX=$PK
//@ enforce: $F
//@ replace: parse6_call
//@ props: C12
//@ expect: postcondition>=1 canary=3
/* loop-free; parse6_call is its contract (job addrpub.parse6_call) */
#include "_compat.h"
void harness(void)
{
    xv_ghost_havoc();
    xv_addrpub_havoc();
    const char *a; in_addr_t *ip; uint16_t *port;
    int rv = XV_F(a, ip, port);
    if (rv == 0 && xv_pf_proto == XV_PKX) XV_CANARY("IPv4 address");
    if (rv == -1 && xv_pf_rv == 0 && xv_pf_family == AF_INET6 && xv_pf_type == (int)xcm_addr_type_ip) XV_CANARY("IPv6 refused");
    if (rv == -1 && xv_pf_rv == -1) XV_CANARY("parser's failure passed on");
}
