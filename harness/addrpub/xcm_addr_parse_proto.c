//@ tu: libxcm/core/xcm_addr.c
//@ enforce: xcm_addr_parse_proto
//@ replace: proto_addr_parse
//@ props: C12
//@ expect: postcondition>=5 canary=4
/* UNBOUNDED (input 0..4096 characters, capacity 0..2048); proto_addr_parse is its contract (job addrpub.proto_addr_parse) */
#include "_addr.h"
void harness(void)
{
    xv_ghost_havoc();
    xv_addrpub_env_havoc();
    xv_hb = nondet_long(); xv_g_b0 = nondet_uchar(); xv_g_b1 = nondet_uchar(); xv_hs_calls = nondet_int(); xv_hs_rv = nondet_bool();
    const char *a; char *p; size_t cap;
    int rv = xcm_addr_parse_proto(a, p, cap);
    if (rv == 0 && xv_chr_pos == XCM_ADDR_MAX_PROTO_LEN) XV_CANARY("longest protocol name");
    if (rv == 0 && xv_chr_pos + 1 == cap) XV_CANARY("exact fit");
    if (rv == -1 && xv_errno == ENAMETOOLONG && xv_chr_pos == cap) XV_CANARY("one byte short");
    if (rv == -1 && xv_errno == EINVAL) XV_CANARY("malformed");
}
