//@ variant: utls F=xcm_addr_make_utls PK=XV_P_UTLS PSZ=5 PT=uint16_t
//@ variant: tls F=xcm_addr_make_tls PK=XV_P_TLS PSZ=4 PT=uint16_t
//@ variant: tcp F=xcm_addr_make_tcp PK=XV_P_TCP PSZ=4 PT=uint16_t
//@ variant: sctp F=xcm_addr_make_sctp PK=XV_P_SCTP PSZ=5 PT=uint16_t
//@ variant: btcp F=xcm_addr_make_btcp PK=XV_P_BTCP PSZ=5 PT=unsigned_short
//@ variant: btls F=xcm_addr_make_btls PK=XV_P_BTLS PSZ=5 PT=unsigned_short
//@ tu: libxcm/core/xcm_addr.c
//@ defs: -DXV_AP_WRAP_MK=$F -DXV_AP_WRAP_PK=$PK -DXV_AP_WRAP_PT=$PT -DXV_AP_WRAP_PSZ=$PSZ
//@ enforce: $F
//@ replace: host_port_make
//@ props: C12
//@ expect: postcondition>=2 canary=3
/* loop-free; host_port_make is its contract (job addrpub.host_port_make) */
#include "_addr.h"
void harness(void)
{
    xv_ghost_havoc();
    xv_addrpub_env_havoc();
    xv_addrpub_havoc();
    const struct xcm_addr_host *h; uint16_t port; char *out; size_t cap;
    int rv = XV_AP_WRAP_MK(h, port, out, cap);
    if (rv == 0 && xv_mk_type == (int)xcm_addr_type_name) XV_CANARY("name formatted");
    if (rv == 0 && xv_mk_type == (int)xcm_addr_type_ip) XV_CANARY("IP address formatted");
    if (rv == -1 && xv_errno == ENAMETOOLONG && cap == 1) XV_CANARY("does not fit");
}
