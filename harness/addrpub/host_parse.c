//@ tu: libxcm/core/xcm_addr.c
//@ enforce: host_parse
//@ replace: xcm_dns_is_valid_name
//@ pre-unwind: strcmp.0:3
//@ props: C12
//@ expect: postcondition>=12 canary=9
/* UNBOUNDED: every host text of 0..XCM_ADDR_MAX_HOST_LEN (512) characters - all that host_port_parse lets through.  strcmp
 * against "*" ends after at most two characters (CBMC's own strcmp, unwound); inet_pton is env/addrpub_env.h (TRUSTED, any
 * verdict); xcm_dns_is_valid_name is its contract (job addrpub.xcm_dns_is_valid_name). */
#include "_addr.h"
void harness(void)
{
    xv_ghost_havoc();
    xv_addrpub_env_havoc();
    xv_hb = nondet_long(); xv_g_b0 = nondet_uchar();
    XV_KEEP(xcm_dns_is_valid_name)
    const char *hs; struct xcm_addr_host *h;
    int opton = xv_pton_calls, odns = xv_regexec_calls;
    int rv = host_parse(hs, h);
    if (rv == 0 && xv_in_len == 3 && xv_pton_calls == opton) XV_CANARY("IPv6 wildcard");
    if (rv == 0 && xv_pton_af == AF_INET6 && xv_pton_calls != opton && xv_in_len == 41) XV_CANARY("IPv6 literal");
    if (rv == -1 && xv_pton_af == AF_INET6 && xv_pton_calls != opton) XV_CANARY("bad IPv6 literal");
    if (rv == -1 && xv_in_len == 1 && xv_pton_calls == opton) XV_CANARY("lone [");
    if (rv == 0 && xv_in_len == 1 && xv_pton_calls == opton) XV_CANARY("IPv4 wildcard");
    if (rv == 0 && xv_pton_af == AF_INET && xv_pton_calls != opton && xv_pton_ret == 1) XV_CANARY("IPv4 literal");
    if (rv == 0 && xv_regexec_calls != odns && xv_in_len == 253) XV_CANARY("longest DNS name");
    if (rv == -1 && xv_regexec_calls == odns && xv_in_len == 254 && xv_pton_calls != opton) XV_CANARY("name one too long");
    if (rv == -1 && xv_in_len == 0) XV_CANARY("empty");
}
