//@ variant: ux F=xcm_addr_make_ux PK=XV_P_UX
//@ variant: uxf F=xcm_addr_make_uxf PK=XV_P_UXF
//@ tu: libxcm/core/xcm_addr.c
//@ defs: -DXV_AP_WRAP_UXM=$F -DXV_AP_WRAP_PK=$PK
//@ enforce: $F
//@ replace: addr_make_ux_uxf
//@ props: C12
//@ expect: postcondition>=2 canary=3
/* loop-free; addr_make_ux_uxf is its contract (enforced in unit addr, assumed here with a record of the call) */
#include "_addr.h"
void harness(void)
{
    xv_ghost_havoc();
    xv_addrpub_env_havoc();
    xv_addrpub_havoc();
    const char *name; char *out; size_t cap;
    int rv = XV_AP_WRAP_UXM(name, out, cap);
    if (rv == 0) XV_CANARY("formatted");
    if (rv == -1 && xv_errno == ENAMETOOLONG && cap == 0) XV_CANARY("capacity 0");
    if (rv == -1 && xv_errno == EINVAL) XV_CANARY("name too long for a UNIX socket");
}
