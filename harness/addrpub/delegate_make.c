//@ tu: libxcm/core/xcm_addr_compat.c
//@ enforce: delegate_make
//@ replace: xcm_addr_make_utls xcm_addr_make_tls xcm_addr_make_tcp xcm_addr_make_sctp
//@ props: C12
//@ expect: postcondition>=1 canary=4
/* loop-free; the four new-API makers a caller may pass are their contracts (jobs addrpub.make_wrap@*) */
#include "_compat.h"
void harness(void)
{
    xv_ghost_havoc();
    xv_addrpub_havoc();
    int (*mf)(const struct xcm_addr_host *, uint16_t, char *, size_t); const struct xcm_addr_ip *ip; uint16_t port; char *out; size_t cap;
    int rv = delegate_make(mf, ip, port, out, cap);
    if (rv == 0 && xv_mk_family == AF_INET && xv_mk_proto == XV_P_TCP) XV_CANARY("IPv4 through the tcp maker");
    if (rv == 0 && xv_mk_family == AF_INET6 && xv_mk_proto == XV_P_SCTP) XV_CANARY("IPv6 through the sctp maker");
    if (rv == -1 && xv_errno == ENAMETOOLONG && xv_mk_proto == XV_P_UTLS) XV_CANARY("does not fit");
    if (rv == -1 && xv_errno == EAFNOSUPPORT && xv_mk_proto == XV_P_TLS) XV_CANARY("unknown family");
}
