//@ tu: libxcm/core/xcm_addr.c
//@ nondfcc: 1
//@ bounded: strings of 0..12 characters (every byte value), real loop unwound 13 times; the unbounded job addrpub.has_space proves the "none missed" half for all lengths
//@ unwindset: has_space.0:14
//@ props: C12
//@ expect: assertion>=1 canary=3
/* LAW: has_space(s) <=> some character of s is white space (as <ctype.h> classifies it).  The "only if" half needs a
 * witness position and is therefore decided here on short strings by comparing with the disjunction over all positions. */
#include "_addr.h"
#define N 12
void harness(void)
{
    xv_ghost_havoc();
    xv_addrpub_env_havoc();
    char s[N + 1];
    __CPROVER_assume(xv_in_len <= N && s[xv_in_len] == 0);
    __CPROVER_assume(!XV_J_IN(0, xv_in_len) || s[xv_j] != 0);
    __CPROVER_assume((0 >= xv_in_len || s[0] != 0) && (1 >= xv_in_len || s[1] != 0) && (2 >= xv_in_len || s[2] != 0));
    _Bool exp = 0;
#define XV_E(k) if ((k) < xv_in_len && XV_ISSPACE(s[k])) exp = 1;
    XV_E(0) XV_E(1) XV_E(2) XV_E(3) XV_E(4) XV_E(5) XV_E(6) XV_E(7) XV_E(8) XV_E(9) XV_E(10) XV_E(11)
    _Bool r = has_space(s);
    XV_ASSERT(!r == !exp, "PO[C12] has_space.exact: true if and only if some character is white space");
    if (r && xv_in_len == N && XV_ISSPACE(s[N - 1])) XV_CANARY("white space as the last character");
    if (r && s[0] < 0) XV_CANARY("a non-ASCII code the locale classifies as white space");
    if (!r && xv_in_len == N) XV_CANARY("no white space");
}
