//@ variant: parse F=xcm_addr_ux_parse R=xcm_addr_parse_ux
//@ variant: make F=xcm_addr_ux_make R=xcm_addr_make_ux
//@ tu: libxcm/core/xcm_addr_compat.c
//@ defs: -DXV_F=$F
//@ enforce: $F
//@ replace: xcm_addr_parse_ux xcm_addr_make_ux
//@ props: C12
//@ expect: postcondition>=1 canary=2
/* loop-free; the new-API function is its contract (jobs addrpub.parse_ux_wrap@ux / addrpub.make_ux_wrap@ux) */
#include "_compat.h"
void harness(void)
{
    xv_ghost_havoc();
    xv_addrpub_havoc();
    XV_KEEP(xcm_addr_parse_ux) XV_KEEP(xcm_addr_make_ux)
    char *p1; char *p2; size_t cap;
    int rv = XV_F(p1, p2, cap);
    if (rv == 0) XV_CANARY("success");
    if (rv == -1 && xv_errno == ENAMETOOLONG) XV_CANARY("does not fit");
}
