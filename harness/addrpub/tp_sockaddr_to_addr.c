//@ variant: sctp F=tp_sockaddr_to_sctp_addr M=xcm_addr_make_sctp
//@ variant: btcp F=tp_sockaddr_to_btcp_addr M=xcm_addr_make_btcp
//@ variant: btls F=tp_sockaddr_to_btls_addr M=xcm_addr_make_btls
//@ tu: libxcm/tp/common/common_tp.c
//@ defs: -DXV_F=$F
//@ enforce: $F
//@ replace: sockaddr_to_host xcm_addr_make_sctp xcm_addr_make_btcp xcm_addr_make_btls
//@ props: C12
//@ expect: postcondition>=1 canary=2
/* loop-free; sockaddr_to_host and the maker are their contracts.  The ut_assert(rc == 0) is an obligation ("XV abort reachable"). */
#include "_tp.h"
void harness(void)
{
    xv_ghost_havoc();
    xv_addrpub_havoc();
    XV_KEEP(xcm_addr_make_sctp) XV_KEEP(xcm_addr_make_btcp) XV_KEEP(xcm_addr_make_btls)
    struct sockaddr_storage *sa; char *out; size_t cap;
    XV_F(sa, out, cap);
    if (xv_mk_family == AF_INET && cap == XV_IP_ADDR_ROOM) XV_CANARY("IPv4 socket address, smallest buffer");
    if (xv_mk_family == AF_INET6 && cap == XCM_ADDR_MAX + 1) XV_CANARY("IPv6 socket address, the callers' buffer");
}
