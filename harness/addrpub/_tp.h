/* unit addrpub, jobs on libxcm/tp/common/common_tp.c */
#include "prelude.h"
#include "common_tp.c"
#include "env/base.h"
#include "env/libc_fmt.h"
#define XV_AP_TP
#include "contracts/addrpub.h"
#include "_havoc.h"
