/* unit addrpub, job on libxcm/tp/dns/xcm_dns.c */
#include "prelude.h"
#include "env/addrpub_env.h"
#include "xcm_dns.c"
#undef strlen
#undef strchr
#undef strncpy
#undef strcpy
#undef inet_pton
#include "env/base.h"
#define XV_AP_DNS
#include "contracts/addrpub.h"
