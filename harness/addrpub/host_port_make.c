//@ tu: libxcm/core/xcm_addr.c
//@ enforce: host_port_make
//@ replace: name_port_make ip_port_make
//@ props: C12
//@ expect: postcondition>=2 canary=4
/* loop-free; name_port_make / ip_port_make are their contracts (enforced in unit addr, assumed here with a record of the call) */
#include "_addr.h"
void harness(void)
{
    xv_ghost_havoc();
    xv_addrpub_env_havoc();
    xv_addrpub_havoc();
    XV_KEEP(name_port_make) XV_KEEP(ip_port_make)
    const char *proto; const struct xcm_addr_host *h; uint16_t port; char *out; size_t cap;
    int rv = host_port_make(proto, h, port, out, cap);
    if (rv == 0 && xv_mk_type == (int)xcm_addr_type_name) XV_CANARY("name formatted");
    if (rv == 0 && xv_mk_type == (int)xcm_addr_type_ip && xv_mk_family == AF_INET6) XV_CANARY("IPv6 address formatted");
    if (rv == -1 && xv_errno == ENAMETOOLONG && xv_mk_type == (int)xcm_addr_type_ip) XV_CANARY("IP address does not fit");
    if (rv == -1 && xv_errno == ENAMETOOLONG && cap == 0) XV_CANARY("capacity 0");
}
