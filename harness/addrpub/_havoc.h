/* unit addrpub: the unit's ghost globals (contracts/addrpub.h) are arbitrary at the start of every harness */
uint16_t nondet_u16(void);
char nondet_char(void);
void *nondet_ptr(void);
static inline void xv_addrpub_havoc(void)
{
    xv_nj = nondet_long(); xv_hb = nondet_long(); xv_g_b0 = nondet_uchar(); xv_g_b1 = nondet_uchar();
    xv_mk_calls = nondet_int(); xv_mk_rv = nondet_int(); xv_mk_errno = nondet_int(); xv_mk_type = nondet_int(); xv_mk_family = nondet_int();
    xv_mk_proto = (uint64_t)nondet_size_t(); xv_mk_port = nondet_u16(); xv_mk_cap = nondet_size_t(); xv_mk_out = nondet_bool(); xv_mk_namep = nondet_bool();
    xv_mk_ip4 = nondet_uint(); xv_mk_ipb = nondet_uchar(); xv_mk_namec = nondet_char();
    xv_pf_calls = nondet_int(); xv_pf_rv = nondet_int(); xv_pf_errno = nondet_int(); xv_pf_type = nondet_int(); xv_pf_family = nondet_int();
    xv_pf_proto = (uint64_t)nondet_size_t(); xv_pf_port = nondet_u16(); xv_pf_cap = nondet_size_t(); xv_pf_addr = nondet_bool(); xv_pf_namep = nondet_bool();
    xv_pf_ip4 = nondet_uint(); xv_pf_ipb = nondet_uchar(); xv_pf_namec = nondet_char();
    xv_proto_sz = nondet_size_t();
    xv_snprintf_calls = nondet_int(); xv_snprintf_ret = nondet_int(); xv_snprintf_cap = nondet_size_t();
    xv_t_out = nondet_ptr(); xv_t_name = nondet_ptr(); xv_t_addr = nondet_ptr();     /* tracked pointers: any value */
}
/* keeps a callee named under `replace:` in the goto program even if the code under proof stops calling it (goto-instrument
 * refuses to replace a function that does not exist; the missing call then shows as a failed postcondition instead) */
#define XV_KEEP(f) { void (*volatile xv_keep_)(void) = (void (*)(void))(f); (void)xv_keep_; }
