//@ tu: libxcm/tp/common/common_tp.c
//@ nondfcc: 1
//@ props: C12
//@ expect: assertion>=8 canary=2
/* LEMMA (plain CBMC harness on the two real functions, loop-free, complete): tp_ip_to_sockaddr and sockaddr_to_ip are
 * inverse for AF_INET and AF_INET6.  The 16 IPv6 bytes go through env/base.h's memcpy model twice: stated for its
 * arbitrary offset xv_mc, i.e. for every byte. */
#include "_tp.h"
void harness(void)
{
    xv_ghost_havoc();
    xv_addrpub_havoc();
    /* (1) ip -> sockaddr -> ip */
    /* (inputs live in malloc'ed objects: arbitrary but FIXED bytes; an uninitialised local union is not that for CBMC) */
    struct xcm_addr_ip *ipp = malloc(sizeof(*ipp)), ip2; uint16_t port = nondet_u16(), port2; int64_t scope = nondet_long();
    struct sockaddr_storage ss;
    __CPROVER_assume(ipp != NULL);
#define ip (*ipp)
    __CPROVER_assume(XV_FAM_OK(ip.family) && (ip.family == AF_INET6 ==> (scope >= 0 && scope <= UINT32_MAX)));
    tp_ip_to_sockaddr(&ip, port, scope, (struct sockaddr *)&ss);
    sockaddr_to_ip(&ss, &ip2, &port2);
    XV_ASSERT(ip2.family == ip.family && port2 == port, "PO[C12] sockaddr_roundtrip.family_port: family and port (network order) come back");
    XV_ASSERT(ip.family != AF_INET || ip2.addr.ip4 == ip.addr.ip4, "PO[C12] sockaddr_roundtrip.ip4: the IPv4 word comes back");
    XV_ASSERT(ip.family != AF_INET6 || xv_mc >= 16 || ip2.addr.ip6[xv_mc] == ip.addr.ip6[xv_mc], "PO[C12] sockaddr_roundtrip.ip6: every IPv6 byte comes back");
    XV_ASSERT(ip.family != AF_INET6 || (int64_t)((struct sockaddr_in6 *)&ss)->sin6_scope_id == scope, "PO[C12] sockaddr_roundtrip.scope: the scope id is in the sockaddr");
    /* (2) sockaddr -> ip -> sockaddr (the scope id travels separately; flow info is not represented: 0) */
    struct sockaddr_storage *s1p = malloc(sizeof(*s1p)), s2; struct xcm_addr_ip ip3; uint16_t port3;
    __CPROVER_assume(s1p != NULL);
#define s1 (*s1p)
    __CPROVER_assume(XV_FAM_OK(s1.ss_family));
    sockaddr_to_ip(&s1, &ip3, &port3);
    tp_ip_to_sockaddr(&ip3, port3, s1.ss_family == AF_INET6 ? (int64_t)((struct sockaddr_in6 *)&s1)->sin6_scope_id : -1, (struct sockaddr *)&s2);
    XV_ASSERT(s2.ss_family == s1.ss_family, "PO[C12] sockaddr_roundtrip.back_family");
    XV_ASSERT(s1.ss_family != AF_INET || (XV_SIN(&s2)->sin_addr.s_addr == XV_SIN(&s1)->sin_addr.s_addr && XV_SIN(&s2)->sin_port == XV_SIN(&s1)->sin_port), "PO[C12] sockaddr_roundtrip.back_inet");
    XV_ASSERT(s1.ss_family != AF_INET6 || (XV_SIN6(&s2)->sin6_port == XV_SIN6(&s1)->sin6_port && XV_SIN6(&s2)->sin6_scope_id == XV_SIN6(&s1)->sin6_scope_id), "PO[C12] sockaddr_roundtrip.back_inet6_port_scope");
    XV_ASSERT(s1.ss_family != AF_INET6 || xv_mc >= 16 || XV_SIN6(&s2)->sin6_addr.s6_addr[xv_mc] == XV_SIN6(&s1)->sin6_addr.s6_addr[xv_mc], "PO[C12] sockaddr_roundtrip.back_inet6_addr");
    if (ip.family == AF_INET && s1.ss_family == AF_INET6) XV_CANARY("IPv4 forth, IPv6 back");
    if (ip.family == AF_INET6 && s1.ss_family == AF_INET) XV_CANARY("IPv6 forth, IPv4 back");
}
