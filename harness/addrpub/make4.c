//@ variant: utls F=xcm_addr_utls_make R=xcm_addr_utls6_make PK=XV_P_UTLS
//@ variant: tls F=xcm_addr_tls_make R=xcm_addr_tls6_make PK=XV_P_TLS
//@ variant: tcp F=xcm_addr_tcp_make R=xcm_addr_tcp6_make PK=XV_P_TCP
//@ tu: libxcm/core/xcm_addr_compat.c
//@ defs: -DXV_F=$F -DXV_PKX=$PK
//@ enforce: $F
//@ replace: $R
//@ props: C12
//@ expect: postcondition>=1 canary=2
/* loop-free; xcm_addr_X6_make is its contract (jobs addrpub.make6@*) */
#include "_compat.h"
void harness(void)
{
    xv_ghost_havoc();
    xv_addrpub_havoc();
    in_addr_t ip4; unsigned short port; char *out; size_t cap;
    int rv = XV_F(ip4, port, out, cap);
    if (rv == 0 && xv_mk_proto == XV_PKX && xv_mk_ip4 == 0x0100007f) XV_CANARY("127.0.0.1 formatted");
    if (rv == -1 && xv_errno == ENAMETOOLONG) XV_CANARY("does not fit");
}
