//@ tu: libxcm/core/xcm_addr_compat.c
//@ enforce: parse6_call
//@ replace: xcm_addr_utls6_parse xcm_addr_tls6_parse xcm_addr_tcp6_parse xcm_addr_sctp6_parse
//@ props: C12
//@ expect: postcondition>=3 canary=4
/* loop-free; the xcm_addr_X6_parse functions a caller may pass are their contracts (jobs addrpub.parse6@*) */
#include "_compat.h"
void harness(void)
{
    xv_ghost_havoc();
    xv_addrpub_havoc();
    int (*pf)(const char *, struct xcm_addr_ip *, uint16_t *); const char *a; in_addr_t *ip; uint16_t *port;
    int rv = parse6_call(pf, a, ip, port);
    if (rv == 0 && xv_pf_proto == XV_P_TLS) XV_CANARY("IPv4 address through tls6");
    if (rv == -1 && xv_pf_rv == 0 && xv_pf_type == (int)xcm_addr_type_ip && xv_pf_family == AF_INET6 && xv_errno == EINVAL) XV_CANARY("IPv6 refused");
    if (rv == -1 && xv_pf_rv == 0 && xv_pf_type == (int)xcm_addr_type_name && xv_errno == EINVAL) XV_CANARY("DNS name refused");
    if (rv == -1 && xv_pf_rv == -1 && xv_errno == ENAMETOOLONG) XV_CANARY("parser's failure passed on");
}
