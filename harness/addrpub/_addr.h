/* unit addrpub, jobs on libxcm/core/xcm_addr.c */
#include "prelude.h"
#include "env/addrpub_env.h"
#include "xcm_addr.c"
#undef strlen
#undef strchr
#undef strncpy
#undef strcpy
#undef inet_pton
#include "env/base.h"
#include "env/libc_fmt.h"
#define XV_AP_ADDR
#include "contracts/addrpub.h"
#include "_havoc.h"
