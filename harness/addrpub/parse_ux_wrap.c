//@ variant: ux F=xcm_addr_parse_ux PK=XV_P_UX
//@ variant: uxf F=xcm_addr_parse_uxf PK=XV_P_UXF
//@ tu: libxcm/core/xcm_addr.c
//@ defs: -DXV_AP_WRAP_UXP=$F -DXV_AP_WRAP_PK=$PK
//@ enforce: $F
//@ replace: addr_parse_ux_uxf
//@ props: C12
//@ expect: postcondition>=1 canary=3
/* loop-free; addr_parse_ux_uxf is its contract (enforced in unit addr, assumed here with a record of the call) */
#include "_addr.h"
void harness(void)
{
    xv_ghost_havoc();
    xv_addrpub_env_havoc();
    xv_addrpub_havoc();
    const char *a; char *name; size_t cap;
    int rv = XV_AP_WRAP_UXP(a, name, cap);
    if (rv == 0) XV_CANARY("parsed");
    if (rv == -1 && xv_errno == ENAMETOOLONG && cap == 0) XV_CANARY("capacity 0");
    if (rv == -1 && xv_errno == EINVAL) XV_CANARY("refused");
}
