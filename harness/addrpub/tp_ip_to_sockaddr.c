//@ tu: libxcm/tp/common/common_tp.c
//@ enforce: tp_ip_to_sockaddr
//@ props: C12
//@ expect: postcondition>=2 canary=2
/* loop-free (memset of a constant 128 bytes is CBMC's array primitive; memcpy of 16 bytes is env/base.h) */
#include "_tp.h"
void harness(void)
{
    xv_ghost_havoc();
    xv_addrpub_havoc();
    const struct xcm_addr_ip *ip; uint16_t port; int64_t scope; struct sockaddr *sa;
    tp_ip_to_sockaddr(ip, port, scope, sa);
    if (scope == -1) XV_CANARY("IPv4: the scope plays no role");
    if (scope == UINT32_MAX) XV_CANARY("largest scope id");
}
