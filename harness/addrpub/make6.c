//@ variant: utls F=xcm_addr_utls6_make PK=XV_P_UTLS
//@ variant: tls F=xcm_addr_tls6_make PK=XV_P_TLS
//@ variant: tcp F=xcm_addr_tcp6_make PK=XV_P_TCP
//@ variant: sctp F=xcm_addr_sctp6_make PK=XV_P_SCTP
//@ tu: libxcm/core/xcm_addr_compat.c
//@ defs: -DXV_F=$F -DXV_PKX=$PK
//@ enforce: $F
//@ replace: delegate_make
//@ props: C12
//@ expect: postcondition>=1 canary=2
/* loop-free; delegate_make is its contract (job addrpub.delegate_make) */
#include "_compat.h"
void harness(void)
{
    xv_ghost_havoc();
    xv_addrpub_havoc();
    const struct xcm_addr_ip *ip; uint16_t port; char *out; size_t cap;
    int rv = XV_F(ip, port, out, cap);
    if (rv == 0 && xv_mk_family == AF_INET6 && xv_mk_proto == XV_PKX) XV_CANARY("IPv6 address formatted");
    if (rv == -1 && xv_errno == ENAMETOOLONG) XV_CANARY("does not fit");
}
