/* unit addrpub, jobs on libxcm/core/xcm_addr_compat.c */
#include "prelude.h"
#include "xcm_addr_compat.c"
#include "env/base.h"
#include "env/libc_fmt.h"
#define XV_AP_COMPAT
#include "contracts/addrpub.h"
#include "_havoc.h"
