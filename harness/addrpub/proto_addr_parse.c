//@ tu: libxcm/core/xcm_addr.c
//@ enforce: proto_addr_parse
//@ replace: has_space
//@ props: C12
//@ expect: postcondition>=10 canary=8
/* UNBOUNDED: every NUL-terminated input of 0..XV_IN_MAXLEN (4096) characters in an object that ends at its NUL, every
 * pair of capacities 0..2048.  No loop is left: has_space is its contract, the string functions are the ghost-length
 * models of env/addrpub_env.h. */
#include "_addr.h"
void harness(void)
{
    xv_ghost_havoc();
    xv_addrpub_env_havoc();
    xv_hb = nondet_long(); xv_g_b0 = nondet_uchar(); xv_g_b1 = nondet_uchar(); xv_hs_calls = nondet_int(); xv_hs_rv = nondet_bool();
    XV_KEEP(has_space)
    const char *a; char *p, *pa; size_t pc, pac;
    int rv = proto_addr_parse(a, p, pc, pa, pac);
    if (rv == 0 && xv_in_len == XCM_ADDR_MAX && xv_chr_pos == XCM_ADDR_MAX_PROTO_LEN) XV_CANARY("longest address with the longest protocol part accepted");
    if (rv == 0 && xv_chr_pos == 0 && xv_in_len == 1) XV_CANARY("a lone ':' gives two empty strings");
    if (rv == -1 && xv_errno == EINVAL && xv_in_len == XCM_ADDR_MAX + 1) XV_CANARY("one character too long");
    if (rv == -1 && xv_errno == EINVAL && xv_in_len <= XCM_ADDR_MAX && xv_hs_rv) XV_CANARY("white space refused");
    if (rv == -1 && xv_errno == EINVAL && xv_in_len <= XCM_ADDR_MAX && !xv_hs_rv && !xv_chr_found) XV_CANARY("no separator");
    if (rv == -1 && xv_errno == EINVAL && xv_in_len <= XCM_ADDR_MAX && !xv_hs_rv && xv_chr_found && xv_chr_pos == XCM_ADDR_MAX_PROTO_LEN + 1) XV_CANARY("protocol part one too long");
    if (rv == -1 && xv_errno == ENAMETOOLONG && xv_chr_pos == pc) XV_CANARY("protocol part does not fit with its NUL");
    if (rv == -1 && xv_errno == ENAMETOOLONG && xv_chr_pos < pc && xv_in_len - xv_chr_pos - 1 == pac) XV_CANARY("remainder does not fit with its NUL");
}
