//@ tu: libxcm/tp/common/common_tp.c
//@ enforce: sockaddr_to_ip
//@ props: C12
//@ expect: postcondition>=2 canary=2
/* loop-free */
#include "_tp.h"
void harness(void)
{
    xv_ghost_havoc();
    xv_addrpub_havoc();
    struct sockaddr_storage *sa; struct xcm_addr_ip *ip; uint16_t *port;
    uint16_t probe = nondet_u16();
    sockaddr_to_ip(sa, ip, port);
    if (probe == 4) XV_CANARY("returns for IPv4");
    if (probe == 6) XV_CANARY("returns for IPv6");
}
