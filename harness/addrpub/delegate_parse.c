//@ tu: libxcm/core/xcm_addr_compat.c
//@ enforce: delegate_parse
//@ replace: xcm_addr_parse_utls xcm_addr_parse_tls xcm_addr_parse_tcp xcm_addr_parse_sctp
//@ props: C12
//@ expect: postcondition>=3 canary=5
/* loop-free; the four new-API parsers a caller may pass are their contracts (jobs addrpub.parse_wrap@*) */
#include "_compat.h"
void harness(void)
{
    xv_ghost_havoc();
    xv_addrpub_havoc();
    int (*pf)(const char *, struct xcm_addr_host *, uint16_t *); const char *a; struct xcm_addr_ip *ip; uint16_t *port;
    int rv = delegate_parse(pf, a, ip, port);
    if (rv == 0 && xv_pf_family == AF_INET && xv_pf_proto == XV_P_TCP) XV_CANARY("IPv4 through the tcp parser");
    if (rv == 0 && xv_pf_family == AF_INET6 && xv_pf_proto == XV_P_SCTP) XV_CANARY("IPv6 through the sctp parser");
    if (rv == -1 && xv_pf_rv == 0 && xv_errno == EINVAL && xv_pf_proto == XV_P_UTLS) XV_CANARY("DNS name refused");
    if (rv == -1 && xv_pf_rv == -1 && xv_errno == ENAMETOOLONG) XV_CANARY("parser's ENAMETOOLONG passed on");
    if (rv == -1 && xv_pf_rv == -1 && xv_errno == EINVAL && xv_pf_proto == XV_P_TLS) XV_CANARY("parser's EINVAL passed on");
}
