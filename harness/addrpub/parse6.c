//@ variant: utls F=xcm_addr_utls6_parse PK=XV_P_UTLS
//@ variant: tls F=xcm_addr_tls6_parse PK=XV_P_TLS
//@ variant: tcp F=xcm_addr_tcp6_parse PK=XV_P_TCP
//@ variant: sctp F=xcm_addr_sctp6_parse PK=XV_P_SCTP
//@ tu: libxcm/core/xcm_addr_compat.c
//@ defs: -DXV_F=$F -DXV_PKX=$PK
//@ enforce: $F
//@ replace: delegate_parse
//@ props: C12
//@ expect: postcondition>=1 canary=3
/* loop-free; delegate_parse is its contract (job addrpub.delegate_parse) */
#include "_compat.h"
void harness(void)
{
    xv_ghost_havoc();
    xv_addrpub_havoc();
    const char *a; struct xcm_addr_ip *ip; uint16_t *port;
    int rv = XV_F(a, ip, port);
    if (rv == 0 && xv_pf_family == AF_INET6 && xv_pf_proto == XV_PKX) XV_CANARY("IPv6 address");
    if (rv == -1 && xv_pf_rv == 0 && xv_errno == EINVAL) XV_CANARY("DNS name refused");
    if (rv == -1 && xv_pf_rv == -1) XV_CANARY("parser's failure passed on");
}
