//@ variant: utls F=xcm_addr_parse_utls PK=XV_P_UTLS
//@ variant: tls F=xcm_addr_parse_tls PK=XV_P_TLS
//@ variant: tcp F=xcm_addr_parse_tcp PK=XV_P_TCP
//@ variant: sctp F=xcm_addr_parse_sctp PK=XV_P_SCTP
//@ variant: btcp F=xcm_addr_parse_btcp PK=XV_P_BTCP
//@ variant: btls F=xcm_addr_parse_btls PK=XV_P_BTLS
//@ tu: libxcm/core/xcm_addr.c
//@ defs: -DXV_AP_WRAP_PF=$F -DXV_AP_WRAP_PK=$PK
//@ enforce: $F
//@ replace: host_port_parse
//@ props: C12
//@ expect: postcondition>=1 canary=3
/* loop-free; host_port_parse is its contract (enforced in unit addr, assumed here with a record of the call) */
#include "_addr.h"
void harness(void)
{
    xv_ghost_havoc();
    xv_addrpub_env_havoc();
    xv_addrpub_havoc();
    const char *a; struct xcm_addr_host *h; uint16_t *port;
    int rv = XV_AP_WRAP_PF(a, h, port);
    if (rv == 0 && xv_pf_type == (int)xcm_addr_type_name) XV_CANARY("name parsed");
    if (rv == 0 && xv_pf_type == (int)xcm_addr_type_ip && xv_pf_port == 0xffff) XV_CANARY("IP address parsed");
    if (rv == -1 && xv_errno == EINVAL) XV_CANARY("refused");
}
