//@ tu: libxcm/core/xcm_addr.c
//@ loops: addrpub.loops
//@ defs: -DXV_AP_HS_ENFORCED
//@ enforce: has_space
//@ props: C12
//@ expect: postcondition>=1 canary=3 loop_invariant_base>=1
/* UNBOUNDED: every string of 0..XCM_ADDR_MAX characters (the function's whole domain), in an object that ends at the NUL */
#include "_addr.h"
void harness(void)
{
    xv_ghost_havoc();
    xv_addrpub_env_havoc();
    const char *s;
    _Bool r = has_space(s);
    if (r) XV_CANARY("white space found");
    if (!r && xv_in_len == XCM_ADDR_MAX) XV_CANARY("longest string without white space");
    if (!r && xv_in_len == 0) XV_CANARY("empty string");
}
