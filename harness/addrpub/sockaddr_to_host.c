//@ tu: libxcm/tp/common/common_tp.c
//@ enforce: sockaddr_to_host
//@ replace: sockaddr_to_ip
//@ props: C12
//@ expect: postcondition>=3 canary=1
/* loop-free; sockaddr_to_ip is its contract (job addrpub.sockaddr_to_ip) */
#include "_tp.h"
void harness(void)
{
    xv_ghost_havoc();
    xv_addrpub_havoc();
    struct sockaddr_storage *sa; struct xcm_addr_host *h; uint16_t *port;
    sockaddr_to_host(sa, h, port);
    XV_CANARY("returns");
}
