/* common part of every btls-unit harness: prelude, the REAL TU libxcm/tp/tls/xcm_tp_btls.c, env (OpenSSL model), contracts */
#include "prelude.h"
#include "util.h"
/* ut_asprintf is variadic (DFCC loses the write set of a variadic callee, see prelude.h on snprintf): its two call sites in
 * get_file() pass (tmpl, cert_dir) and (tmpl, cert_dir, ns); they reach the fixed-arity models in contracts/btls.h */
#define XV_ASPRINTF_PICK(_1, _2, _3, name, ...) name
#define ut_asprintf(...) XV_ASPRINTF_PICK(__VA_ARGS__, xv_asprintf3, xv_asprintf2, xv_asprintf1)(__VA_ARGS__)
char *xv_asprintf2(const char *fmt, const char *a);
char *xv_asprintf3(const char *fmt, const char *a, const char *b);
/* ghost state named by the loop contracts of loops/btls.loops (defined in env/ssl_env.h and contracts/btls.h) */
extern size_t xv_slist_n; extern const char *xv_slist_name_k, *xv_x509_host_k; extern long xv_hk, xv_x509_nhosts, xv_x509_add_calls, xv_slist_destroy_calls, xv_dns_valid_calls; extern const struct slist *xv_slist_destroyed;
#include "xcm_tp_btls.c"
#include "env/base.h"
#include "env/ssl_env.h"
#include "contracts/btls.h"
