//@ tu: libxcm/tp/tls/xcm_tp_btls.c
//@ enforce: bio_btcp_write
//@ replace: xcm_tp_socket_send
//@ props: C02
//@ expect: postcondition>=3 canary=3
#include "_unit.h"
void harness(void)
{
    xv_ghost_havoc();
    xv_ssl_havoc();
    xv_bio_havoc();
    xv_low_havoc();
    BIO *b; const char *buf; int len;
    int rv = bio_btcp_write(b, buf, len);
    if (rv >= 1 && rv < len) XV_CANARY("partial write");
    if (rv == -1 && xv_errno == EAGAIN) XV_CANARY("EAGAIN: retry");
    if (rv == -1 && xv_errno == ECONNRESET) XV_CANARY("reset: fatal");
}
