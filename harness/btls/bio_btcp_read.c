//@ tu: libxcm/tp/tls/xcm_tp_btls.c
//@ enforce: bio_btcp_read
//@ replace: xcm_tp_socket_receive
//@ props: C02
//@ expect: postcondition>=3 canary=5
#include "_unit.h"
void harness(void)
{
    xv_ghost_havoc();
    xv_ssl_havoc();
    xv_bio_havoc();
    xv_low_havoc();
    BIO *b; char *buf; int capacity;
    long r0 = xv_low_recv_calls;
    int rv = bio_btcp_read(b, buf, capacity);
    if (rv >= 1 && rv < capacity) XV_CANARY("short read");
    if (rv == 0 && xv_low_recv_calls == r0 + 1) XV_CANARY("end of stream");
    if (rv == 0 && xv_low_recv_calls == r0) XV_CANARY("no buffer");
    if (rv == -1 && xv_errno == EAGAIN) XV_CANARY("EAGAIN: retry");
    if (rv == -1 && xv_errno == ETIMEDOUT) XV_CANARY("timeout: fatal");
}
