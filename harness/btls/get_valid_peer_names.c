//@ tu: libxcm/tp/tls/xcm_tp_btls.c
//@ loops: btls.loops
//@ enforce: get_valid_peer_names_attr
//@ props: C10
//@ expect: postcondition>=3 canary=3
/* get_valid_peer_names_attr (tls.peer_names getter, C10): never writes more than `capacity` bytes, returns the bytes
 * written (string + NUL), EOVERFLOW otherwise.  slist_join is TRUSTED (common/slist.c): a fresh string of ghost length
 * xv_join_len; strlen/strcpy of that string are the ghost-length models used in harness/addr/addr_parse_ux_uxf.c. */
#include "prelude.h"
#include "util.h"
#define XV_ASPRINTF_PICK(_1, _2, _3, name, ...) name
#define ut_asprintf(...) XV_ASPRINTF_PICK(__VA_ARGS__, xv_asprintf3, xv_asprintf2, xv_asprintf1)(__VA_ARGS__)
char *xv_asprintf2(const char *fmt, const char *a);
char *xv_asprintf3(const char *fmt, const char *a, const char *b);
extern size_t xv_slist_n; extern const char *xv_slist_name_k, *xv_x509_host_k; extern long xv_hk, xv_x509_nhosts, xv_x509_add_calls, xv_slist_destroy_calls, xv_dns_valid_calls; extern const struct slist *xv_slist_destroyed;
size_t xv_join_len; char *xv_join_str; int xv_join_calls;
size_t xv_gp_strlen(const char *s)
{
    __CPROVER_assert(s == xv_join_str, "strlen model: only the joined string is measured");
    __CPROVER_assert(s[xv_join_len] == 0, "strlen model: NUL at the ghost length");
    __CPROVER_assert(!(xv_j >= 0 && (size_t)xv_j < xv_join_len) || s[xv_j] != 0, "strlen model: no NUL before the ghost length (arbitrary position)");
    return xv_join_len;
}
char *xv_gp_strcpy(char *dst, const char *src)
{
    size_t n = xv_gp_strlen(src);
    __CPROVER_assert(__CPROVER_w_ok(dst, n + 1), "strcpy: destination has room for the string and its NUL");
    char keep = (xv_j >= 0 && (size_t)xv_j < n) ? src[xv_j] : 0;
    __CPROVER_havoc_slice(dst, n + 1);
    dst[n] = 0;
    if (xv_j >= 0 && (size_t)xv_j < n) dst[xv_j] = keep;
    return dst;
}
#define strlen(s) xv_gp_strlen(s)
#define strcpy(d, s) xv_gp_strcpy((d), (s))
#include "xcm_tp_btls.c"
#undef strlen
#undef strcpy
#include "env/base.h"
#include "env/ssl_env.h"
#include "contracts/btls.h"
/* TRUSTED(common/slist.c) slist_join: a fresh NUL-terminated string (the names joined by the delimiter), any length 0..600 */
char *slist_join(const struct slist *slist, char delim)
{
    xv_join_calls++;
    char *r = malloc(xv_join_len + 1);
    __CPROVER_assume(r != NULL);
    r[xv_join_len] = 0;
    if (xv_j >= 0 && (size_t)xv_j < xv_join_len) { unsigned char c = nondet_uchar(); __CPROVER_assume(c != 0 && c < 128); r[xv_j] = (char)c; }
    xv_join_str = r;
    return r;
}
#include "contracts/begin.h"
#define GP_CAP_MAX 1024
static int get_valid_peer_names_attr(struct xcm_socket *s, void *value, size_t capacity)
__CPROVER_requires(BT_FRESH(s) && capacity <= GP_CAP_MAX && __CPROVER_is_fresh(value, capacity == 0 ? 1 : capacity) && xv_join_len <= 600 && xv_join_calls >= 0 && xv_join_calls < 100)
__CPROVER_requires(BT(s)->valid_peer_names != NULL ==> __CPROVER_is_fresh(BT(s)->valid_peer_names, 8))
__CPROVER_assigns(xv_errno, xv_join_calls, xv_join_str)
__CPROVER_assigns(capacity > 0: __CPROVER_object_upto(value, capacity))
/* PO[C10] get_valid_peer_names_attr.no_names_is_enoent */
__CPROVER_ensures(BT(s)->valid_peer_names == NULL ==> (__CPROVER_return_value == -1 && xv_errno == ENOENT))
/* PO[C10] get_valid_peer_names_attr.fits_or_eoverflow: the value and its NUL are written iff they fit; the result is the number of bytes written */
__CPROVER_ensures(BT(s)->valid_peer_names != NULL ==> (xv_join_len + 1 <= capacity ? (__CPROVER_return_value == (int)(xv_join_len + 1) && ((char *)value)[xv_join_len] == 0) : (__CPROVER_return_value == -1 && xv_errno == EOVERFLOW)))
/* PO[C10] get_valid_peer_names_attr.never_more_than_capacity */
__CPROVER_ensures(__CPROVER_return_value >= 0 ==> (size_t)__CPROVER_return_value <= capacity)
;
#include "contracts/end.h"
void harness(void)
{
    xv_ghost_havoc();
    xv_ssl_havoc();
    xv_btls_havoc();
    xv_join_len = nondet_size_t(); xv_join_calls = nondet_int();
    struct xcm_socket *s; void *value; size_t capacity;
    int rv = get_valid_peer_names_attr(s, value, capacity);
    if (rv > 0 && (size_t)rv == capacity) XV_CANARY("exact fit");
    if (rv == -1 && xv_errno == EOVERFLOW && xv_join_len == capacity) XV_CANARY("one byte short");
    if (rv == -1 && xv_errno == ENOENT) XV_CANARY("no names");
}
