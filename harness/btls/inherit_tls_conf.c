//@ tu: libxcm/tp/tls/xcm_tp_btls.c
//@ enforce: inherit_tls_conf
//@ props: C09 C18
//@ expect: postcondition>=4 canary=3
#include "_unit.h"
void harness(void)
{
    xv_ghost_havoc();
    xv_ssl_havoc();
    xv_btls_havoc();
    xv_conf_havoc();
    xv_sel = nondet_int();
    struct xcm_socket *s, *parent;
    long c0 = xv_slist_clone_calls, d0 = xv_it_w_deinits;
    inherit_tls_conf(s, parent);
    if (xv_slist_clone_calls == c0 + 1) XV_CANARY("names inherited");
    if (xv_slist_clone_calls == c0) XV_CANARY("no names to inherit");
    if (xv_it_w_deinits == d0 + 1 && xv_sel == 3) XV_CANARY("an item the accepted socket already had is replaced");
}
