//@ variant: lower DEFS=-DBT_LOWER
//@ variant: zero DEFS=-DBT_ZERO
//@ variant: huge DEFS=-DBT_HUGE
//@ tu: libxcm/tp/tls/xcm_tp_btls.c
//@ defs: $DEFS
//@ enforce: btls_receive
//@ replace: try_finish_tls_handshake process_ssl_event
//@ props: C02 C06 C09
//@ expect: postcondition>=13 canary>=4
#include "_unit.h"
void harness(void)
{
    xv_ghost_havoc();
    xv_ssl_havoc();
    xv_btls_havoc();
    struct xcm_socket *s; void *buf; size_t capacity;
    long r0 = xv_sr_calls, h0 = xv_hs_calls, o0 = xv_rx_off;
    int rv = btls_receive(s, buf, capacity);
#if defined(BT_HUGE)
    if (xv_sr_calls == r0 + 1 && xv_sr_num == 2147483647 && rv >= 1) XV_CANARY("capacity above INT_MAX: SSL_read entered with num INT_MAX, data delivered");
#elif defined(BT_ZERO)
    if (xv_sr_calls == r0 && rv == 0 && xv_hs_calls == h0 + 1) XV_CANARY("capacity 0 on a ready connection: 0 without entering SSL_read");
#else
    if (rv >= 1 && (size_t)rv == capacity && xv_hs_calls == h0) XV_CANARY("ready: buffer filled");
    if (rv >= 1 && (size_t)rv < capacity) XV_CANARY("ready: fewer bytes than capacity");
    if (rv >= 1 && xv_hs_calls == h0 + 1) XV_CANARY("handshake finished in this call, then data delivered");
#endif
    if (rv == -1 && xv_errno == EAGAIN && xv_hs_calls == h0 + 1 && xv_sr_calls == r0) XV_CANARY("still handshaking: EAGAIN, no SSL_read");
#ifndef BT_ZERO
    if (rv == -1 && xv_errno == EAGAIN && xv_sr_calls == r0 + 1 && xv_ssl_err == SSL_ERROR_WANT_READ && xv_rx_off == o0) XV_CANARY("SSL_read wants read: EAGAIN");
#endif
    if (rv == 0 && xv_sr_calls == r0 && xv_hs_calls == h0) XV_CANARY("closed before: 0");
#ifndef BT_ZERO
    if (rv == 0 && xv_sr_calls == r0 + 1 && xv_ssl_err == SSL_ERROR_ZERO_RETURN) XV_CANARY("close_notify: 0");
    if (rv == -1 && xv_errno == EPROTO && xv_sr_calls == r0 + 1 && xv_ssl_err == SSL_ERROR_SSL) XV_CANARY("protocol error in SSL_read: EPROTO");
#endif
    if (rv == -1 && xv_errno == ETIMEDOUT && xv_sr_calls == r0 && xv_hs_calls == h0) XV_CANARY("bad before: stored errno");
    if (rv == -1 && xv_errno == EPROTO && xv_hs_calls == h0 + 1 && xv_hs_ret == 1 && xv_sr_calls == r0) XV_CANARY("policy not met after handshake: EPROTO, no SSL_read");
}
