//@ tu: libxcm/tp/tls/xcm_tp_btls.c
//@ enforce: btls_finish
//@ replace: try_finish_tls_handshake xcm_tp_socket_finish
//@ props: C09 C06
//@ expect: postcondition>=8 canary=6
#include "_unit.h"
void harness(void)
{
    xv_ghost_havoc();
    xv_ssl_havoc();
    xv_btls_havoc();
    xv_low_havoc();
    struct xcm_socket *s;
    long h0 = xv_hs_calls, f0 = xv_low_finish_calls;
    int rv = btls_finish(s);
    if (rv == 0 && xv_hs_calls == h0 + 1) XV_CANARY("handshake completed by finish, nothing pending");
    if (rv == 0 && xv_hs_calls == h0) XV_CANARY("ready (or server): nothing pending");
    if (rv == -1 && xv_errno == EAGAIN && xv_hs_calls == h0 + 1 && xv_low_finish_calls == f0) XV_CANARY("handshake in progress");
    if (rv == -1 && xv_errno == EAGAIN && xv_low_finish_calls == f0 + 1) XV_CANARY("btcp sub-socket busy");
    if (rv == -1 && xv_errno == EPIPE && xv_hs_calls == h0 && xv_low_finish_calls == f0) XV_CANARY("closed");
    if (rv == -1 && xv_errno == EPROTO && xv_hs_calls == h0 + 1 && xv_hs_ret == 1) XV_CANARY("policy not met: EPROTO from the discovering call");
}
