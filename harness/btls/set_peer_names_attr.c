//@ tu: libxcm/tp/tls/xcm_tp_btls.c
//@ loops: btls.loops
//@ enforce: set_peer_names_attr
//@ props: C09 C10
//@ expect: postcondition>=5 canary=4
#include "_unit.h"
void harness(void)
{
    xv_ghost_havoc();
    xv_ssl_havoc();
    xv_btls_havoc();
    struct xcm_socket *s; void *context; const void *value; size_t len;
    long d0 = xv_slist_destroy_calls;
    int rv = set_peer_names_attr(s, context, value, len);
    if (rv == 0 && xv_slist_n == 3) XV_CANARY("three valid names");
    if (rv == 0 && xv_slist_n == 0) XV_CANARY("empty value: no names");
    if (rv == -1 && xv_errno == EINVAL && xv_slist_destroy_calls == d0 + 1) XV_CANARY("invalid name: EINVAL, only the rejected list is destroyed");
    if (rv == -1 && xv_errno == EACCES) XV_CANARY("refused on a connection past initialized");
}
