//@ tu: libxcm/tp/tls/xcm_tp_btls.c
//@ enforce: process_ssl_event
//@ props: C06 C07
//@ expect: postcondition>=1 canary=7
#include "_unit.h"
void harness(void)
{
    xv_ghost_havoc();
    xv_ssl_havoc();
    struct xcm_socket *s; int condition, ssl_rc, ssl_errno;
    process_ssl_event(s, condition, ssl_rc, ssl_errno);
    if (xv_ssl_err == SSL_ERROR_WANT_READ) XV_CANARY("want read");
    if (xv_ssl_err == SSL_ERROR_WANT_WRITE) XV_CANARY("want write");
    if (xv_ssl_err == SSL_ERROR_ZERO_RETURN) XV_CANARY("close_notify");
    if (xv_ssl_err == SSL_ERROR_SSL) XV_CANARY("protocol error");
    if (xv_ssl_err == SSL_ERROR_SYSCALL && xv_err_queue == 0 && ssl_errno == ECONNRESET) XV_CANARY("reset");
    if (xv_ssl_err == SSL_ERROR_SYSCALL && xv_err_queue == 0 && ssl_errno == 0) XV_CANARY("transport EOF");
    if (xv_ssl_err == SSL_ERROR_SYSCALL && xv_err_queue == 0 && ssl_errno == EINPROGRESS) XV_CANARY("spurious EINPROGRESS");
}
