//@ tu: libxcm/tp/tls/xcm_tp_btls.c
//@ enforce: btls_accept
//@ replace: finalize_tls_conf set_verify enable_hostname_validation try_finish_tls_handshake deinit
//@ flags: --object-bits 10
//@ props: C09 C18 C02
//@ expect: postcondition>=7 canary=7
#include "_unit.h"
void harness(void)
{
    xv_ghost_havoc();
    xv_ssl_havoc();
    xv_btls_havoc();
    xv_conf_havoc();
    xv_other_havoc();
    xv_low_havoc();
    xv_bio_havoc();
    xv_sel = nondet_int();
    struct xcm_socket *conn_s, *server_s;
    long c0 = xv_low_accepts, g0 = xv_ctx_get_calls, n0 = xv_ssl_new_calls;
    int rv = btls_accept(conn_s, server_s);
    if (rv == 0 && xv_hs_ret == 1) XV_CANARY("accepted, handshake finished at once");
    if (rv == 0 && xv_hs_ret == -1) XV_CANARY("accepted, handshake in progress");
    if (rv == 0 && xv_x509_nhosts == 2) XV_CANARY("name verification against two names");
    if (rv == -1 && xv_low_accepts == c0 + 1 && xv_ctx_get_calls == g0 && xv_errno == EINVAL) XV_CANARY("inconsistent policy refused");
    if (rv == -1 && xv_errno == EAGAIN && xv_ctx_get_calls == g0) XV_CANARY("nothing to accept");
    if (rv == -1 && xv_errno == EINVAL && xv_ssl_new_calls == n0 + 1) XV_CANARY("refused by hostname validation set-up");
    if (rv == -1 && xv_errno == EPROTO && xv_hs_calls == 1 && xv_hs_ret == 1) XV_CANARY("policy not met at once: EPROTO");
}
