//@ tu: libxcm/tp/tls/xcm_tp_btls.c
//@ enforce: try_finish_tls_handshake
//@ props: C09 C06
//@ expect: postcondition>=13 canary=9
#include "_unit.h"
void harness(void)
{
    xv_ghost_havoc();
    xv_ssl_havoc();
    struct xcm_socket *s;
    long h0 = xv_hs_calls, c0 = xv_peer_cert_calls, e0 = xv_errstr_calls;
    try_finish_tls_handshake(s);
    /* which of the outcomes were taken is observed through the OpenSSL model (the socket itself is not visible here):
     * the verdict is fetched (xv_peer_cert_calls) iff tls.auth is on */
    if (xv_hs_calls == h0) XV_CANARY("not handshaking: nothing happens");
    if (xv_hs_calls == h0 + 1 && xv_hs_connect && xv_hs_ret == 1 && xv_peer_cert_calls == c0 + 1 && xv_ssl_peer_cert && xv_ssl_verify_result == X509_V_OK) XV_CANARY("client: established, verified");
    if (xv_hs_calls == h0 + 1 && !xv_hs_connect && xv_hs_ret == 1 && xv_peer_cert_calls == c0 && !xv_ssl_peer_cert) XV_CANARY("server: established without client certificate (auth off)");
    if (xv_hs_calls == h0 + 1 && xv_hs_ret == 1 && xv_peer_cert_calls == c0 + 1 && !xv_ssl_peer_cert) XV_CANARY("handshake done, auth on, no certificate: refused");
    if (xv_hs_calls == h0 + 1 && xv_hs_ret == 1 && xv_errstr_calls == e0 + 1 && xv_ssl_verify_result == X509_V_ERR_CERT_REVOKED) XV_CANARY("handshake done, auth on, verdict not OK: refused");
    if (xv_hs_calls == h0 + 1 && xv_hs_ret == -1 && xv_ssl_err == SSL_ERROR_WANT_READ) XV_CANARY("in progress");
    if (xv_hs_calls == h0 + 1 && xv_hs_ret == 0 && xv_ssl_err == SSL_ERROR_SSL) XV_CANARY("protocol error");
    if (xv_hs_calls == h0 + 1 && xv_hs_ret == -1 && xv_ssl_err == SSL_ERROR_SYSCALL && xv_err_queue == 0 && !xv_ssl_close_seen) XV_CANARY("transport failure");
    if (xv_hs_calls == h0 + 1 && xv_hs_ret == -1 && xv_ssl_err == SSL_ERROR_ZERO_RETURN) XV_CANARY("closed during handshake");
}
