//@ tu: libxcm/tp/tls/xcm_tp_btls.c
//@ enforce: set_verify
//@ props: C09
//@ expect: postcondition>=4 canary=5
#include "_unit.h"
void harness(void)
{
    xv_ghost_havoc();
    xv_ssl_havoc();
    SSL *ssl; bool tls_client, tls_auth, check_crl, check_time;
    unsigned long f0 = xv_x509_flags;
    set_verify(ssl, tls_client, tls_auth, check_crl, check_time);
    if (xv_ssl_set_verify_mode == SSL_VERIFY_NONE) XV_CANARY("no authentication");
    if (xv_ssl_set_verify_mode == SSL_VERIFY_PEER) XV_CANARY("client side, authentication");
    if (xv_ssl_set_verify_mode == (SSL_VERIFY_PEER | SSL_VERIFY_FAIL_IF_NO_PEER_CERT)) XV_CANARY("server side, authentication");
    if (f0 == 0 && xv_x509_flags == (X509_V_FLAG_CRL_CHECK | X509_V_FLAG_CRL_CHECK_ALL | X509_V_FLAG_NO_CHECK_TIME)) XV_CANARY("CRL checking, no time check");
    if (f0 == 0 && xv_x509_flags == 0) XV_CANARY("default flags");
}
