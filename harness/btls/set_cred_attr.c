//@ variant: cert_file DEFS=-DBT_FN=set_cert_file_attr FN=set_cert_file_attr
//@ variant: key_file DEFS=-DBT_FN=set_key_file_attr FN=set_key_file_attr
//@ variant: tc_file DEFS=-DBT_FN=set_tc_file_attr FN=set_tc_file_attr
//@ variant: crl_file DEFS=-DBT_FN=set_crl_file_attr FN=set_crl_file_attr
//@ variant: cert DEFS=-DBT_FN=set_cert_attr_-DBT_BYVAL FN=set_cert_attr
//@ variant: key DEFS=-DBT_FN=set_key_attr_-DBT_BYVAL FN=set_key_attr
//@ variant: tc DEFS=-DBT_FN=set_tc_attr_-DBT_BYVAL FN=set_tc_attr
//@ variant: crl DEFS=-DBT_FN=set_crl_attr_-DBT_BYVAL FN=set_crl_attr
//@ tu: libxcm/tp/tls/xcm_tp_btls.c
//@ loops: btls.loops
//@ defs: $DEFS
//@ enforce: $FN
//@ replace: has_nul
//@ props: C18
//@ expect: postcondition>=1 canary>=3
#include "_unit.h"
void harness(void)
{
    xv_ghost_havoc();
    xv_ssl_havoc();
    xv_btls_havoc();
    xv_conf_havoc();
    struct xcm_socket *s; void *context; const void *value; size_t len;
    long d0 = xv_it_w_deinits;
    int rv = BT_FN(s, context, value, len);
    if (rv == 0 && xv_it_w_deinits == d0) XV_CANARY("designated for the first time");
    if (rv == 0 && xv_it_w_deinits == d0 + 1) XV_CANARY("previous designation (file or value) replaced");
    if (rv == -1 && xv_errno == EACCES) XV_CANARY("refused on a connection past initialized");
#ifdef BT_BYVAL
    if (rv == -1 && xv_errno == EINVAL) XV_CANARY("value with NUL refused");
#endif
}
