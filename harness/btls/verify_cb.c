//@ tu: libxcm/tp/tls/xcm_tp_btls.c
//@ enforce: verify_cb
//@ props: C09
//@ expect: postcondition>=1 canary=2
#include "_unit.h"
void harness(void)
{
    xv_ghost_havoc();
    xv_ssl_havoc();
    int ok; X509_STORE_CTX *ctx;
    int rv = verify_cb(ok, ctx);
    if (rv == 0) XV_CANARY("verification failure stays a failure");
    if (rv == 1) XV_CANARY("pass");
}
