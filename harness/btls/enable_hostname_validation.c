//@ tu: libxcm/tp/tls/xcm_tp_btls.c
//@ loops: btls.loops
//@ enforce: enable_hostname_validation
//@ props: C09
//@ expect: postcondition>=5 canary=5
#include "_unit.h"
void harness(void)
{
    xv_ghost_havoc();
    xv_ssl_havoc();
    xv_btls_havoc();
    struct xcm_socket *s;
    long a0 = xv_x509_add_calls, r0 = xv_x509_host_resets;
    int rv = enable_hostname_validation(s);
    if (rv == 0 && xv_slist_n == 1) XV_CANARY("one name");
    if (rv == 0 && xv_slist_n == 1000 && xv_hk == 999) XV_CANARY("a thousand names, the last one tracked");
    if (rv == -1 && xv_x509_host_resets == r0) XV_CANARY("refused: no auth or no names");
    if (rv == -1 && xv_x509_add_calls == a0 + 1) XV_CANARY("first name refused by OpenSSL");
    if (rv == -1 && xv_x509_add_calls == a0 + 3 && xv_slist_n == 5) XV_CANARY("third of five names refused by OpenSSL");
}
