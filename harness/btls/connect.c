//@ tu: libxcm/tp/tls/xcm_tp_btls.c
//@ enforce: btls_connect
//@ replace: finalize_tls_conf set_verify enable_hostname_validation try_finish_tls_handshake deinit
//@ flags: --object-bits 10
//@ props: C09 C18 C02
//@ expect: postcondition>=7 canary=9
#include "_unit.h"
void harness(void)
{
    xv_ghost_havoc();
    xv_ssl_havoc();
    xv_btls_havoc();
    xv_conf_havoc();
    xv_other_havoc();
    xv_low_havoc();
    xv_bio_havoc();
    xv_sel = nondet_int();
    struct xcm_socket *s; const char *remote_addr;
    long c0 = xv_low_connects, g0 = xv_ctx_get_calls, n0 = xv_ssl_new_calls, a0 = xv_x509_add_calls;
    int rv = btls_connect(s, remote_addr);
    if (rv == 0 && xv_hs_ret == 1) XV_CANARY("connected, handshake finished at once");
    if (rv == 0 && xv_hs_ret == -1) XV_CANARY("connected, handshake in progress");
    if (rv == 0 && xv_x509_nhosts == 1 && xv_slist_create_calls >= 1 && xv_hk == 0) XV_CANARY("name verification against the host name of the address");
    if (rv == 0 && xv_x509_nhosts == 3) XV_CANARY("name verification against three given names");
    if (rv == -1 && xv_errno == EINVAL && xv_ctx_get_calls == g0) XV_CANARY("refused before anything was loaded");
    if (rv == -1 && xv_errno == EINVAL && xv_ssl_new_calls == n0 + 1 && xv_low_connects == c0) XV_CANARY("refused by hostname validation set-up");
    if (rv == -1 && xv_low_connects == c0 + 1 && xv_hs_calls == 0) XV_CANARY("TCP connect failed");
    if (rv == -1 && xv_errno == EPROTO && xv_hs_calls == 1 && xv_hs_ret == 1) XV_CANARY("policy not met at once: EPROTO");
    if (rv == -1 && xv_ctx_get_calls == g0 + 1 && xv_ssl_new_calls == n0) XV_CANARY("credentials could not be loaded");
}
