//@ tu: libxcm/tp/tls/xcm_tp_btls.c
//@ enforce: verify_peer_cert
//@ props: C09
//@ expect: postcondition>=5 canary=3
#include "_unit.h"
void harness(void)
{
    xv_ghost_havoc();
    xv_ssl_havoc();
    struct xcm_socket *s;
    verify_peer_cert(s);
    if (xv_ssl_peer_cert && xv_ssl_verify_result == X509_V_OK) XV_CANARY("certificate present and verified");
    if (!xv_ssl_peer_cert) XV_CANARY("no certificate");
    if (xv_ssl_peer_cert && xv_ssl_verify_result == X509_V_ERR_CERT_HAS_EXPIRED) XV_CANARY("certificate rejected");
}
