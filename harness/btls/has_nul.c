//@ tu: libxcm/tp/tls/xcm_tp_btls.c
//@ loops: btls.loops
//@ enforce: has_nul
//@ props: C18
//@ expect: postcondition>=1 canary=3
#include "_unit.h"
void harness(void)
{
    xv_ghost_havoc();
    xv_ssl_havoc();
    const char *s; size_t len;
    bool rv = has_nul(s, len);
    if (rv) XV_CANARY("NUL found");
    if (!rv && len == 0) XV_CANARY("empty value");
    if (!rv && len == 40000) XV_CANARY("long NUL-free value");
}
