//@ variant: client DEFS=-DBT_FN=set_client_attr FN=set_client_attr
//@ variant: auth DEFS=-DBT_FN=set_auth_attr FN=set_auth_attr
//@ variant: check_crl DEFS=-DBT_FN=set_check_crl_attr FN=set_check_crl_attr
//@ variant: check_time DEFS=-DBT_FN=set_check_time_attr FN=set_check_time_attr
//@ variant: verify_peer_name DEFS=-DBT_FN=set_verify_peer_name_attr FN=set_verify_peer_name_attr
//@ tu: libxcm/tp/tls/xcm_tp_btls.c
//@ defs: $DEFS
//@ enforce: $FN
//@ props: C09
//@ expect: postcondition>=1 canary=2
#include "_unit.h"
void harness(void)
{
    xv_ghost_havoc();
    xv_ssl_havoc();
    struct xcm_socket *s; void *context; const void *value; size_t len;
    int rv = BT_FN(s, context, value, len);
    if (rv == 0) XV_CANARY("set at creation");
    if (rv == -1 && xv_errno == EACCES) XV_CANARY("refused on a connection past initialized");
}
