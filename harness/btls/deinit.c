//@ tu: libxcm/tp/tls/xcm_tp_btls.c
//@ enforce: deinit
//@ props: C09
//@ safety:
//@ expect: postcondition>=4 canary=2
#include "_unit.h"
void harness(void)
{
    xv_ghost_havoc();
    xv_ssl_havoc();
    xv_btls_havoc();
    xv_conf_havoc();
    xv_other_havoc();
    struct xcm_socket *s; bool owner;
    long f0 = xv_ssl_free_calls, b0 = xv_bell_dels;
    deinit(s, owner);
    if (xv_ssl_free_calls == f0 + 1 && xv_bell_dels == b0 + 1) XV_CANARY("connection, owner");
    if (xv_ssl_free_calls == f0) XV_CANARY("server socket");
}
