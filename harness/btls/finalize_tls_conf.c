//@ tu: libxcm/tp/tls/xcm_tp_btls.c
//@ enforce: finalize_tls_conf
//@ pre-unwind: strlen.0:257
//@ props: C09 C18
//@ expect: postcondition>=10 canary=8
#include "_unit.h"
void harness(void)
{
    xv_ghost_havoc();
    xv_ssl_havoc();
    xv_btls_havoc();
    xv_conf_havoc();
    xv_sel = nondet_int();
    struct xcm_socket *s;
    long g0 = xv_getenv_calls, a0 = xv_asp_calls, d0 = xv_it_w_deinits, w0 = xv_it_w_sets, l0 = xv_slist_destroy_calls;
    int rv = finalize_tls_conf(s);
    if (rv == -1 && xv_errno == EINVAL) XV_CANARY("inconsistent policy refused");
    if (rv == 0 && xv_getenv_calls == g0) XV_CANARY("everything designated on the socket: no lookups");
    if (rv == 0 && xv_asp_calls == a0 + 4 && xv_env_set && xv_ns_rc == 0 && !xv_ns_empty) XV_CANARY("four defaults, XCM_TLS_CERT set, named namespace");
    if (rv == 0 && xv_asp_calls == a0 + 2 && !xv_env_set && xv_ns_rc < 0) XV_CANARY("cert and key by default, built-in directory, namespace lookup failed");
    if (rv == 0 && xv_sel == 2 && xv_it_w_sets == w0 + 1) XV_CANARY("trusted CAs from the default file");
    if (rv == 0 && xv_sel == 3 && xv_it_w_deinits == d0 + 1) XV_CANARY("inherited CRL dropped");
    if (rv == 0 && xv_sel == 2 && xv_it_w_deinits == d0 + 1) XV_CANARY("inherited trusted CAs dropped");
    if (rv == 0 && xv_slist_destroy_calls == l0 + 1) XV_CANARY("inherited names dropped");
}
