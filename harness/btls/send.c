//@ variant: lower DEFS=-DBT_LOWER
//@ variant: huge DEFS=-DBT_HUGE
//@ tu: libxcm/tp/tls/xcm_tp_btls.c
//@ defs: $DEFS
//@ enforce: btls_send
//@ replace: try_finish_tls_handshake process_ssl_event
//@ props: C02 C06 C09
//@ expect: postcondition>=12 canary>=4
#include "_unit.h"
void harness(void)
{
    xv_ghost_havoc();
    xv_ssl_havoc();
    xv_btls_havoc();
    struct xcm_socket *s; const void *buf; size_t len;
    long w0 = xv_sw_calls, h0 = xv_hs_calls, t0 = xv_tx_off;
    int rv = btls_send(s, buf, len);
#ifdef BT_HUGE
    if (xv_sw_calls == w0 + 1 && xv_sw_num == 2147483647 && rv >= 1) XV_CANARY("len above INT_MAX: INT_MAX bytes offered to OpenSSL, some accepted");
#else
    if (rv >= 1 && (size_t)rv == len && xv_hs_calls == h0) XV_CANARY("ready: everything accepted");
#endif
    if (rv >= 1 && (size_t)rv < len) XV_CANARY("ready: partial acceptance");
    if (rv >= 1 && xv_hs_calls == h0 + 1) XV_CANARY("handshake finished in this call, then data accepted");
    if (rv == -1 && xv_errno == EAGAIN && xv_hs_calls == h0 + 1 && xv_sw_calls == w0) XV_CANARY("still handshaking: EAGAIN, no SSL_write");
    if (rv == -1 && xv_errno == EAGAIN && xv_sw_calls == w0 + 1 && xv_ssl_err == SSL_ERROR_WANT_WRITE && xv_tx_off == t0) XV_CANARY("SSL_write wants write: EAGAIN, nothing accepted");
    if (rv == -1 && xv_errno == EPIPE && xv_sw_calls == w0 && xv_hs_calls == h0) XV_CANARY("closed before: EPIPE");
    if (rv == -1 && xv_errno == EPIPE && xv_sw_calls == w0 + 1) XV_CANARY("close seen by SSL_write: EPIPE");
    if (rv == -1 && xv_errno == EPROTO && xv_sw_calls == w0 + 1 && xv_ssl_err == SSL_ERROR_SSL) XV_CANARY("protocol error in SSL_write: EPROTO");
    if (rv == -1 && xv_errno == ECONNRESET && xv_sw_calls == w0 && xv_hs_calls == h0) XV_CANARY("bad before: stored errno");
    if (rv == -1 && xv_hs_calls == h0 + 1 && xv_hs_ret == 1 && xv_sw_calls == w0) XV_CANARY("policy not met after handshake: no SSL_write");
#ifndef BT_HUGE
    if (rv == 0) XV_CANARY("zero-length send");
#endif
}
