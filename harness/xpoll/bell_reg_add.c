//@ tu: libxcm/core/xpoll.c
//@ loops: xpoll.loops
//@ enforce: xpoll_bell_reg_add
//@ replace: allocate_bell_reg_idx update_active_fd
//@ props: C04 C16 C08
//@ expect: postcondition>=13 canary=5
#include "_unit.h"
void harness(void)
{
    xv_ghost_havoc(); xv_fd_havoc(); xv_epoll_havoc(); xv_xpoll_havoc();
    struct xpoll *x; bool ringing;
    int c0 = xv_epctl_calls;
    int rv = xpoll_bell_reg_add(x, ringing);
    if (xv_g_b0 == 0 && rv == 0 && xv_g_i2 < 0 && xv_afd_refs == xv_g_refs + 1) XV_CANARY("first bell: bell table grows 0 -> 2, pool reference acquired");
    if (xv_g_b1 == xv_g_b0 && xv_g_b0 == 6 && rv == 6) XV_CANARY("full bell table grows 6 -> 14");
    if (xv_g_b1 < xv_g_b0 && rv == 1 && xv_g_i2 >= 0 && xv_afd_refs == xv_g_refs) XV_CANARY("later bell: free slot reused, no new reference");
    if (ringing && xv_b == rv && xv_epctl_calls == c0 + 1 && xv_epctl_op == EPOLL_CTL_ADD) XV_CANARY("ringing bell added: EPOLL_CTL_ADD of the pool descriptor");
    if (!ringing && xv_epctl_calls == c0) XV_CANARY("silent bell added: interest list untouched");
}
