/* xpoll unit: ghost names that the spliced loop contracts (loops/xpoll.loops) mention -- they must be declared BEFORE
 * the real TU is included.  None of them is ever assigned by code under proof or by a stub. */
#ifndef XV_XPOLL_GHOST_H
#define XV_XPOLL_GHOST_H
uint8_t xv_g_byte;         /* ghost constant: entry value of byte xv_keep of the fd_regs / bell_regs array */
long xv_w;                 /* second arbitrary index; requires clauses of some contracts make it a WITNESS (a free slot) */
long xv_bw;                /* second arbitrary index into bell_regs / witness of a free bell slot */
uint8_t xv_g_bbyte;        /* ghost constant: entry value of byte xv_keep of the bell_regs array */
int xv_g_i3, xv_g_refs;    /* more ghost constants */
int xv_g_b0, xv_g_b1;      /* ghost constants: bell_regs_capacity, num_bell_regs at entry */
long xv_b;                 /* ghost index into bell_regs (xv_j of prelude.h is the index into fd_regs) */
int xv_g_fd, xv_g_ev;      /* ghost constants: entry value of fd_regs[xv_j] */
_Bool xv_g_bfree, xv_g_bring;   /* ghost constants: entry value of bell_regs[xv_b] */
int xv_g_i0, xv_g_i1, xv_g_i2;  /* ghost constants bound by requires clauses (entry values that __CPROVER_old cannot take) */
#endif
