//@ tu: libxcm/core/xpoll.c libxcm/tp/common/active_fd.c
//@ nondfcc: 1
//@ unwindset: find_fd.0:8 regs_extend_capacity.0:8 bell_regs_extend_capacity.0:8 find_free_bell_reg_idx.0:8 has_ringing_bell.0:8 fd_retrieve.0:3 active_fd_put.2:3 xs_check.0:8 xs_check.1:8 xs_check.2:8 xs_check.3:9
//@ flags: --memory-leak-check
//@ bounded: whole module (REAL xpoll.c on REAL active_fd.c, no contracts): xpoll_create, then any 2 operations out of fd add/mod/del and bell add/mod/del with any arguments, then xpoll_destroy; empty pool at the start; eventfd(2) assumed not to fail (F22: job xpoll.update_active_fd)
//@ props: C04 C16 C08
//@ expect: canary=4
/* Bounded integration stand-in.  It checks, after every step, the FULL representation invariant that the unbounded jobs can
 * only take as a precondition in witness form: num_fd_regs / num_bell_regs COUNT the slots in use (so a free slot exists when
 * the table is not full), the kernel's interest list is EXACTLY the registrations with a non-zero mask (C16), and the pool
 * descriptor is watched iff some bell rings (C04/C16).  At the end: every descriptor the module made is closed again, the
 * pool is empty, no heap object is left (--memory-leak-check). */
#include "prelude.h"
#include "harness/xpoll/_ghost.h"
#include "xpoll.c"
#include "active_fd.c"
#include "env/base.h"
#include "env/epoll_env.h"

#define XS_SLOTS 7      /* more slots than the tables can get in 2 steps (capacity 2) */
static void xs_check(struct xpoll *x)
{
    XV_ASSERT(x->epoll_fd == xv_epfd && XV_FD_OURS(xv_epfd), "C16 the socket's descriptor is the epoll instance made by xpoll_create, still open");
    XV_ASSERT(x->fd_regs_capacity >= 0 && x->fd_regs_capacity < XS_SLOTS && x->bell_regs_capacity >= 0 && x->bell_regs_capacity < XS_SLOTS, "capacities within the bound of this job");
    int used = 0;
    for (int i = 0; i < XS_SLOTS; i++)
        if (i < x->fd_regs_capacity && x->fd_regs[i].fd != -1) {
            int d = x->fd_regs[i].fd, ev = x->fd_regs[i].event;
            used++;
            XV_ASSERT(d >= 0 && d < XV_NFD, "a slot in use holds a descriptor");
            XV_ASSERT((!xv_ep[d].in) == (ev == 0) && (ev == 0 || xv_ep[d].mask == (uint32_t)ev), "C04/C16 kernel entry of a registered descriptor is exactly its mask");
        }
    XV_ASSERT(used == x->num_fd_regs, "num_fd_regs counts the slots in use");
    int bells = 0; _Bool ringing = 0;
    for (int i = 0; i < XS_SLOTS; i++)
        if (i < x->bell_regs_capacity && !x->bell_regs[i].free) {
            bells++;
            if (x->bell_regs[i].ringing) ringing = 1;
        }
    XV_ASSERT(bells == x->num_bell_regs, "num_bell_regs counts the bells in use");
    XV_ASSERT((bells > 0) == (x->active_fd >= 0), "a pool reference is held iff there are bells");
    for (int d = 0; d < XV_NFD; d++)
        if (XV_EP_IN(d)) {
            _Bool found = 0;
            for (int i = 0; i < XS_SLOTS; i++)
                if (i < x->fd_regs_capacity && x->fd_regs[i].fd == d) found = 1;
            XV_ASSERT(found, "C16 the interest list holds registered descriptors only");
        }
    if (x->active_fd >= 0) {
        XV_ASSERT(XV_FD_OURS(x->active_fd) && xv_evfd_readable[x->active_fd], "C04 the active fd is an open eventfd with a non-zero counter");
        XV_ASSERT(XV_EP_IN(x->active_fd) == ringing, "C04/C16 the always-readable descriptor is watched iff some bell rings");
        XV_ASSERT(!ringing || xv_ep[x->active_fd].mask == (uint32_t)EPOLLIN, "C04 ... for EPOLLIN");
    } else
        XV_ASSERT(!ringing, "C04 a ringing bell implies a pool reference");
}

int nondet_int(void);
static int xs_reg_id[3], xs_bell_id[3];
static void xs_step(struct xpoll *x, int k)
{
    int op = nondet_int(), a = nondet_int(), ev = nondet_int();
    __CPROVER_assume(ev == 0 || ev == EPOLLIN || ev == EPOLLOUT || ev == (EPOLLIN|EPOLLOUT));
    xs_reg_id[k] = -1; xs_bell_id[k] = -1;
    if (op == 0) {                       /* register a new descriptor (a socket of env/fd.h) */
        int fd = socket(AF_UNIX, SOCK_SEQPACKET|SOCK_NONBLOCK, 0);
        if (fd >= 0) {
            xv_ep[fd].in = 0;            /* TRUSTED(kernel) a new descriptor is in no interest list */
            xs_reg_id[k] = xpoll_fd_reg_add(x, fd, ev);
        }
    } else if (op == 1 || op == 2) {     /* modify / delete an earlier registration */
        __CPROVER_assume(a >= 0 && a < k && xs_reg_id[a] >= 0);
        if (op == 1) xpoll_fd_reg_mod(x, xs_reg_id[a], ev);
        else { xpoll_fd_reg_del(x, xs_reg_id[a]); xs_reg_id[a] = -1; }
    } else if (op == 3) {
        xs_bell_id[k] = xpoll_bell_reg_add(x, ev != 0);
    } else {
        __CPROVER_assume(op == 4 || op == 5);
        __CPROVER_assume(a >= 0 && a < k && xs_bell_id[a] >= 0);
        if (op == 4) xpoll_bell_reg_mod(x, xs_bell_id[a], ev != 0);
        else { xpoll_bell_reg_del(x, xs_bell_id[a]); xs_bell_id[a] = -1; }
    }
    xs_check(x);
}

void harness(void)
{
    xv_ghost_havoc(); xv_fd_havoc(); xv_epoll_havoc();
    __CPROVER_assume(XV_FD_GHOST_RANGE && XV_EP_GHOST_RANGE && !xv_lock_held);
    xv_eventfd_ok = 1;                   /* bounded stand-in: the F22 path (eventfd fails => abort) is the subject of job xpoll.update_active_fd */
    /* empty pool: no open eventfd exists; eventfd(2)/socket(2)/epoll_create1(2) find a free slot or fail */
#define XS_NOT_POOL(d) __CPROVER_assume(!(xv_fdt.e[d].open && xv_evfd_readable[d]))
    XS_NOT_POOL(0); XS_NOT_POOL(1); XS_NOT_POOL(2); XS_NOT_POOL(3); XS_NOT_POOL(4); XS_NOT_POOL(5); XS_NOT_POOL(6); XS_NOT_POOL(7);
    int open0 = xv_open_cnt;
    struct xpoll *x = xpoll_create(NULL);
    if (x == NULL) { XV_ASSERT(xv_open_cnt == open0, "C08 failed xpoll_create leaves no descriptor"); XV_CANARY("create failed"); return; }
    xs_check(x);
    xs_step(x, 0); xs_step(x, 1);
    int socks = (xs_reg_id[0] >= 0) + (xs_reg_id[1] >= 0);
    if (x->num_bell_regs == 2) XV_CANARY("two bells");
    if (x->num_fd_regs == 2) XV_CANARY("two registrations");
    if (x->active_fd >= 0 && XV_EP_IN(x->active_fd)) XV_CANARY("ringing bell: pool descriptor watched");
    xpoll_destroy(x);
    XV_ASSERT(active_fds.lh_first == NULL, "C08 the pool is empty again");
    XV_ASSERT(!xv_lock_held, "C15 lock released");
    (void)socks;
}
