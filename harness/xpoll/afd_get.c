//@ tu: libxcm/tp/common/active_fd.c
//@ enforce: active_fd_get
//@ pre-unwind: fd_retrieve.0:3
//@ bounded: the process-wide active_fds list holds at most 2 nodes on entry (user counts arbitrary in 1..MAX_USERS_PER_FD)
//@ props: C08 C15 C04
//@ expect: postcondition>=12 canary=5
#include "_unit_afd.h"
void harness(void)
{
    xv_ghost_havoc(); xv_fd_havoc(); xv_epoll_havoc(); xv_xpoll_havoc(); xv_afd_havoc();
    xv_afd_make_list(xv_g_n);
    int e0 = xv_eventfd_calls;
    int rv = active_fd_get();
    if (rv >= 0 && xv_eventfd_calls == e0 && xv_g_n == 1) XV_CANARY("shares the first node");
    if (rv >= 0 && xv_eventfd_calls == e0 && xv_g_n == 2 && xv_g_c0 == MAX_USERS_PER_FD) XV_CANARY("first node full: shares the second");
    if (rv >= 0 && xv_eventfd_calls == e0 + 1 && xv_g_n == 0) XV_CANARY("empty pool: creates the first descriptor");
    if (rv >= 0 && xv_eventfd_calls == e0 + 1 && xv_g_n == 2) XV_CANARY("all nodes full: creates another descriptor");
    if (rv == -1 && xv_errno == EMFILE) XV_CANARY("eventfd fails with EMFILE: -1, no abort");
}
