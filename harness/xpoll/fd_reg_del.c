//@ tu: libxcm/core/xpoll.c
//@ loops: xpoll.loops
//@ enforce: xpoll_fd_reg_del
//@ props: C08 C16 C04
//@ expect: postcondition>=5 canary=4
#include "_unit.h"
void harness(void)
{
    xv_ghost_havoc(); xv_fd_havoc(); xv_epoll_havoc(); xv_xpoll_havoc();
    struct xpoll *x; int idx;
    int c0 = xv_epctl_calls;
    xpoll_fd_reg_del(x, idx);
    if (xv_epctl_calls == c0) XV_CANARY("registration with mask 0: no epoll_ctl");
    if (xv_epctl_calls == c0 + 1 && xv_epctl_ret == 0) XV_CANARY("removed from the interest list");
    if (xv_epctl_calls == c0 + 1 && xv_epctl_ret == -1 && xv_epctl_errno == EBADF) XV_CANARY("descriptor already closed: EBADF tolerated");
    if (xv_epctl_calls == c0 + 1 && xv_epctl_ret == -1 && xv_epctl_errno == ENOENT) XV_CANARY("kernel dropped it already: ENOENT tolerated");
}
