/* common part of the xpoll.c harnesses: prelude, the REAL TU libxcm/core/xpoll.c, env, contracts */
#include "prelude.h"
#include "harness/xpoll/_ghost.h"
#include "xpoll.c"
#include "env/base.h"
#include "env/epoll_env.h"
#define XP_XPOLL
#include "contracts/xpoll.h"
