//@ tu: libxcm/core/xpoll.c
//@ loops: xpoll.loops
//@ enforce: allocate_bell_reg_idx
//@ replace: find_free_bell_reg_idx
//@ props: C04
//@ expect: postcondition>=8 canary=3
#include "_unit.h"
void harness(void)
{
    xv_ghost_havoc(); xv_fd_havoc(); xv_epoll_havoc(); xv_xpoll_havoc();
    struct xpoll *x;
    int rv = allocate_bell_reg_idx(x);
    if (xv_g_b0 == 0 && rv == 0) XV_CANARY("empty table grows to 2");
    if (xv_g_b0 == xv_g_b1 && xv_g_b0 == 6 && rv == 6) XV_CANARY("full table grows, first new slot");
    if (xv_g_b1 < xv_g_b0 && rv == 1) XV_CANARY("free slot reused");
}
