//@ tu: libxcm/core/xpoll.c
//@ loops: xpoll.loops
//@ enforce: xpoll_destroy
//@ replace: active_fd_put
//@ props: C08
//@ expect: postcondition>=5 canary=4
#include "_unit.h"
void harness(void)
{
    xv_ghost_havoc(); xv_fd_havoc(); xv_epoll_havoc(); xv_xpoll_havoc();
    struct xpoll *x;
    int c0 = xv_close_calls;
    xpoll_destroy(x);
    if (xv_close_calls == c0) XV_CANARY("NULL: no-op");
    if (xv_close_calls == c0 + 1 && xv_g_i2 < 0) XV_CANARY("no pool reference held: only the epoll descriptor closed");
    if (xv_close_calls == c0 + 1 && xv_g_i2 >= 0 && xv_afd_refs == xv_g_refs - 1) XV_CANARY("pool reference released, pool descriptor lives on");
    if (xv_close_calls == c0 + 2 && xv_g_i2 >= 0) XV_CANARY("last user of the pool descriptor: it is closed too");
}
