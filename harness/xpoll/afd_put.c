//@ tu: libxcm/tp/common/active_fd.c
//@ enforce: active_fd_put
//@ pre-unwind: active_fd_put.2:3
//@ bounded: the process-wide active_fds list holds at most 2 nodes on entry (user counts arbitrary in 1..MAX_USERS_PER_FD)
//@ props: C08 C15
//@ expect: postcondition>=7 canary=4
#include "_unit_afd.h"
void harness(void)
{
    xv_ghost_havoc(); xv_fd_havoc(); xv_epoll_havoc(); xv_xpoll_havoc(); xv_afd_havoc();
    xv_afd_make_list(xv_g_n);
    int fd;
    int c0 = xv_close_calls;
    active_fd_put(fd);
    if (xv_close_calls == c0 && fd == xv_g_f0) XV_CANARY("first node keeps other users");
    if (xv_close_calls == c0 && xv_g_n == 2 && fd == xv_g_f1) XV_CANARY("second node keeps other users");
    if (xv_close_calls == c0 + 1 && xv_g_n == 1) XV_CANARY("last user of the only node: closed, list empty");
    if (xv_close_calls == c0 + 1 && xv_g_n == 2 && fd == xv_g_f1) XV_CANARY("last user of the second node: closed, unlinked");
}
