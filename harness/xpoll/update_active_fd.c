//@ tu: libxcm/core/xpoll.c
//@ loops: xpoll.loops
//@ enforce: update_active_fd
//@ replace: active_fd_get active_fd_put find_fd allocate_fd_reg_idx xpoll_fd_reg_mod xpoll_fd_reg_del has_ringing_bell
//@ props: C04 C16 C08
//@ safety: C08
//@ expect: postcondition>=13 canary=6
#include "_unit.h"
void harness(void)
{
    xv_ghost_havoc(); xv_fd_havoc(); xv_epoll_havoc(); xv_xpoll_havoc();
    struct xpoll *x;
    int c0 = xv_epctl_calls, e0 = xv_eventfd_calls;
    update_active_fd(x);
    if (xv_g_i2 < 0 && xv_afd_refs == xv_g_refs + 1 && xv_epctl_calls == c0) XV_CANARY("first bell, not ringing: reference acquired, not in the interest list");
    if (xv_g_i2 < 0 && xv_afd_refs == xv_g_refs + 1 && xv_epctl_calls == c0 + 1 && xv_epctl_op == EPOLL_CTL_ADD) XV_CANARY("first bell, ringing: acquired and added with EPOLLIN");
    if (xv_g_i2 >= 0 && xv_afd_refs == xv_g_refs - 1) XV_CANARY("last bell gone: released");
    if (xv_g_i2 >= 0 && xv_afd_refs == xv_g_refs && xv_epctl_calls == c0 + 1 && xv_epctl_op == EPOLL_CTL_ADD) XV_CANARY("a bell starts ringing: EPOLL_CTL_ADD");
    if (xv_g_i2 >= 0 && xv_afd_refs == xv_g_refs && xv_epctl_calls == c0 + 1 && xv_epctl_op == EPOLL_CTL_DEL) XV_CANARY("last ringing bell stops: EPOLL_CTL_DEL");
    if (xv_g_i2 < 0 && xv_afd_refs == xv_g_refs && xv_epctl_calls == c0 && xv_eventfd_calls == e0) XV_CANARY("no bells, no reference: nothing done");
}
