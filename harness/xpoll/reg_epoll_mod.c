//@ tu: libxcm/core/xpoll.c
//@ loops: xpoll.loops
//@ enforce: reg_epoll_mod
//@ props: C04 C16 C08
//@ expect: postcondition>=8 canary=6
#include "_unit.h"
void harness(void)
{
    xv_ghost_havoc(); xv_fd_havoc(); xv_epoll_havoc(); xv_xpoll_havoc();
    struct xpoll *x; struct xpoll_fd_reg *reg; int ev;
    int c0 = xv_epctl_calls;
    reg_epoll_mod(x, reg, ev);
    if (xv_epctl_calls == c0) XV_CANARY("no change, no epoll_ctl");
    if (xv_epctl_calls == c0 + 1 && xv_epctl_op == EPOLL_CTL_ADD && ev == EPOLLIN) XV_CANARY("ADD");
    if (xv_epctl_calls == c0 + 1 && xv_epctl_op == EPOLL_CTL_MOD && ev == (EPOLLIN|EPOLLOUT)) XV_CANARY("MOD");
    if (xv_epctl_calls == c0 + 1 && xv_epctl_op == EPOLL_CTL_DEL && xv_epctl_ret == 0) XV_CANARY("DEL");
    if (xv_epctl_calls == c0 + 1 && xv_epctl_op == EPOLL_CTL_DEL && xv_epctl_ret == -1 && xv_epctl_errno == EBADF) XV_CANARY("DEL of a closed descriptor tolerated");
    if (xv_epctl_calls == c0 + 1 && xv_epctl_op == EPOLL_CTL_DEL && xv_epctl_ret == -1 && xv_epctl_errno == ENOENT) XV_CANARY("DEL of a descriptor the kernel dropped tolerated");
}
