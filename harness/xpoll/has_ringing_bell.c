//@ tu: libxcm/core/xpoll.c
//@ loops: xpoll.loops
//@ enforce: has_ringing_bell
//@ props: C04 C16
//@ expect: postcondition>=2 canary=2
#include "_unit.h"
void harness(void)
{
    xv_ghost_havoc(); xv_fd_havoc(); xv_epoll_havoc(); xv_xpoll_havoc();
    struct xpoll *x;
    bool rv = has_ringing_bell(x);
    if (rv) XV_CANARY("a bell rings");
    if (!rv) XV_CANARY("quiet");
}
