//@ tu: libxcm/core/xpoll.c
//@ loops: xpoll.loops
//@ enforce: xpoll_bell_reg_del_if_valid
//@ replace: xpoll_bell_reg_del
//@ props: C08 C04 C16
//@ expect: postcondition>=4 canary=2
#include "_unit.h"
void harness(void)
{
    xv_ghost_havoc(); xv_fd_havoc(); xv_epoll_havoc(); xv_xpoll_havoc();
    struct xpoll *x; int idx;
    xpoll_bell_reg_del_if_valid(x, idx);
    if (idx < 0) XV_CANARY("invalid id: no-op");
    if (idx == 2) XV_CANARY("valid id: deleted");
}
