//@ tu: libxcm/core/xpoll.c
//@ loops: xpoll.loops
//@ enforce: xpoll_create
//@ props: C08 C16
//@ expect: postcondition>=4 canary=3
#include "_unit.h"
void harness(void)
{
    xv_ghost_havoc(); xv_fd_havoc(); xv_epoll_havoc(); xv_xpoll_havoc();
    void *log_ref;
    struct xpoll *x = xpoll_create(log_ref);
    if (x != NULL) XV_CANARY("created");
    if (x == NULL && xv_errno == EMFILE) XV_CANARY("epoll_create1 failed: EMFILE reported");
    if (x == NULL && xv_errno == ENOMEM) XV_CANARY("epoll_create1 failed: ENOMEM reported");
}
