//@ tu: libxcm/core/xpoll.c
//@ loops: xpoll.loops
//@ enforce: xpoll_bell_reg_del
//@ replace: update_active_fd
//@ props: C08 C04 C16
//@ expect: postcondition>=8 canary=3
#include "_unit.h"
void harness(void)
{
    xv_ghost_havoc(); xv_fd_havoc(); xv_epoll_havoc(); xv_xpoll_havoc();
    struct xpoll *x; int idx;
    int c0 = xv_epctl_calls;
    xpoll_bell_reg_del(x, idx);
    if (xv_g_b1 == 1 && xv_afd_refs == xv_g_refs - 1) XV_CANARY("last bell: pool reference released");
    if (xv_g_b1 == 2 && xv_afd_refs == xv_g_refs && xv_epctl_calls == c0 + 1 && xv_epctl_op == EPOLL_CTL_DEL) XV_CANARY("the only ringing bell deleted, another bell remains: EPOLL_CTL_DEL");
    if (xv_g_b1 == 2 && xv_afd_refs == xv_g_refs && xv_epctl_calls == c0) XV_CANARY("silent bell deleted: nothing else changes");
}
