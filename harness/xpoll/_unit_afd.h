/* common part of the active_fd.c harnesses: prelude, the REAL TU libxcm/tp/common/active_fd.c, env, contracts.
 * C15: the lock stubs of env/epoll_env.h call xv_on_lock()/xv_on_unlock(), which snapshot the shared state (the list head,
 * the user counts and descriptors of its first two nodes) at both ends of the critical section; the contracts say that the
 * snapshot taken at lock time IS the entry state and the one taken at unlock time IS the exit state, i.e. nothing of the
 * shared state is written outside the critical section. */
#include "prelude.h"
#include "harness/xpoll/_ghost.h"
#include "active_fd.c"
#include "env/base.h"
#define XV_LOCK_HOOKS
#include "env/epoll_env.h"
struct xv_afd_snap { struct active_fd *head; int c0, c1, f0, f1; };
struct xv_afd_snap xv_sh_l, xv_sh_u;      /* at lock / at unlock */
static struct xv_afd_snap xv_afd_snapshot(void)
{
    struct xv_afd_snap s = { .head = active_fds.lh_first, .c0 = 0, .c1 = 0, .f0 = -1, .f1 = -1 };
    if (s.head != NULL) {
        s.c0 = s.head->cnt; s.f0 = s.head->fd;
        if (s.head->elem.le_next != NULL) { s.c1 = s.head->elem.le_next->cnt; s.f1 = s.head->elem.le_next->fd; }
    }
    return s;
}
static void xv_on_lock(void) { xv_sh_l = xv_afd_snapshot(); }
static void xv_on_unlock(void) { xv_sh_u = xv_afd_snapshot(); }
#define XP_AFD
#include "contracts/xpoll.h"
