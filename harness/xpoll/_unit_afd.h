/* common part of the active_fd.c harnesses: prelude, the REAL TU libxcm/tp/common/active_fd.c, env, contracts.
 * C15: the lock stubs of env/epoll_env.h call xv_on_lock()/xv_on_unlock(), which snapshot the shared state (the list head,
 * the user counts and descriptors of its first two nodes) at both ends of the critical section; the contracts say that the
 * snapshot taken at lock time IS the entry state and the one taken at unlock time IS the exit state, i.e. nothing of the
 * shared state is written outside the critical section. */
#include "prelude.h"
#include "harness/xpoll/_ghost.h"
#include "active_fd.c"
#include "env/base.h"
#define XV_LOCK_HOOKS
#include "env/epoll_env.h"
struct xv_afd_snap { struct active_fd *head; int c0, c1, f0, f1; };
struct xv_afd_snap xv_sh_l, xv_sh_u;      /* at lock / at unlock */
static struct xv_afd_snap xv_afd_snapshot(void)
{
    struct xv_afd_snap s = { .head = active_fds.lh_first, .c0 = 0, .c1 = 0, .f0 = -1, .f1 = -1 };
    if (s.head != NULL) {
        s.c0 = s.head->cnt; s.f0 = s.head->fd;
        if (s.head->elem.le_next != NULL) { s.c1 = s.head->elem.le_next->cnt; s.f1 = s.head->elem.le_next->fd; }
    }
    return s;
}
static void xv_on_lock(void) { xv_sh_l = xv_afd_snapshot(); }
static void xv_on_unlock(void) { xv_sh_u = xv_afd_snapshot(); }
/* the list the contracts talk about: xv_g_n (0..2) heap nodes with ARBITRARY content, linked the way LIST_INSERT_HEAD links them */
struct active_fd nondet_active_fd_node(void);
static void xv_afd_make_list(int n)
{
    active_fds.lh_first = NULL;
    struct active_fd *second = NULL;
    if (n == 2) {
        second = malloc(sizeof(struct active_fd)); __CPROVER_assume(second != NULL);
        *second = nondet_active_fd_node();
        second->elem.le_next = NULL;
    }
    if (n >= 1) {
        struct active_fd *first = malloc(sizeof(struct active_fd)); __CPROVER_assume(first != NULL);
        *first = nondet_active_fd_node();
        first->elem.le_next = second; first->elem.le_prev = &active_fds.lh_first;
        if (second != NULL) second->elem.le_prev = &first->elem.le_next;
        active_fds.lh_first = first;
    }
}
#define XP_AFD
#include "contracts/xpoll.h"
