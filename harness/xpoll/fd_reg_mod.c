//@ tu: libxcm/core/xpoll.c
//@ loops: xpoll.loops
//@ enforce: xpoll_fd_reg_mod
//@ props: C04 C16 C08
//@ expect: postcondition>=7 canary=4
#include "_unit.h"
void harness(void)
{
    xv_ghost_havoc(); xv_fd_havoc(); xv_epoll_havoc(); xv_xpoll_havoc();
    struct xpoll *x; int idx, ev;
    int c0 = xv_epctl_calls;
    xpoll_fd_reg_mod(x, idx, ev);
    if (xv_epctl_calls == c0) XV_CANARY("same mask: nothing done");
    if (xv_epctl_calls == c0 + 1 && xv_epctl_op == EPOLL_CTL_ADD && ev == EPOLLOUT) XV_CANARY("0 -> EPOLLOUT: ADD");
    if (xv_epctl_calls == c0 + 1 && xv_epctl_op == EPOLL_CTL_MOD && ev == EPOLLIN) XV_CANARY("mask change: MOD");
    if (xv_epctl_calls == c0 + 1 && xv_epctl_op == EPOLL_CTL_DEL && ev == 0) XV_CANARY("-> 0: DEL");
}
