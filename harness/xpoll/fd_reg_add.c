//@ tu: libxcm/core/xpoll.c
//@ loops: xpoll.loops
//@ enforce: xpoll_fd_reg_add
//@ replace: find_fd allocate_fd_reg_idx
//@ props: C04 C16 C08
//@ expect: postcondition>=11 canary=5
#include "_unit.h"
void harness(void)
{
    xv_ghost_havoc(); xv_fd_havoc(); xv_epoll_havoc(); xv_xpoll_havoc();
    struct xpoll *x; int fd, ev;
    int c0 = xv_epctl_calls;
    int rv = xpoll_fd_reg_add(x, fd, ev);
    if (xv_g_i0 == 0 && rv == 0) XV_CANARY("first registration: table grows 0 -> 2");
    if (xv_g_i0 == xv_g_i1 && xv_g_i0 == 6 && rv == 6) XV_CANARY("full table grows 6 -> 14");
    if (xv_g_i1 < xv_g_i0 && rv == 1) XV_CANARY("free slot reused");
    if (ev == 0 && xv_epctl_calls == c0) XV_CANARY("event 0: no epoll_ctl, not in the interest list");
    if (ev == EPOLLIN && xv_epctl_calls == c0 + 1 && xv_epctl_op == EPOLL_CTL_ADD && xv_epctl_fd == fd) XV_CANARY("event EPOLLIN: EPOLL_CTL_ADD");
}
