//@ tu: libxcm/core/xpoll.c
//@ loops: xpoll.loops
//@ enforce: bell_regs_extend_capacity
//@ props: C04
//@ expect: postcondition>=4 canary=2
#include "_unit.h"
void harness(void)
{
    xv_ghost_havoc(); xv_fd_havoc(); xv_epoll_havoc(); xv_xpoll_havoc();
    struct xpoll *x; int cap;
    bell_regs_extend_capacity(x, cap);
    if (cap == 2) XV_CANARY("first growth 0 -> 2");
    if (cap == 2050) XV_CANARY("growth to (1024 + 1) * 2");
}
