//@ tu: libxcm/core/xpoll.c
//@ loops: xpoll.loops
//@ enforce: xpoll_bell_reg_mod
//@ replace: update_active_fd
//@ props: C04 C16 C08
//@ expect: postcondition>=9 canary=4
#include "_unit.h"
void harness(void)
{
    xv_ghost_havoc(); xv_fd_havoc(); xv_epoll_havoc(); xv_xpoll_havoc();
    struct xpoll *x; int idx; bool ringing;
    int c0 = xv_epctl_calls;
    xpoll_bell_reg_mod(x, idx, ringing);
    if (xv_epctl_calls == c0) XV_CANARY("no change in the interest list");
    if (ringing && xv_epctl_calls == c0 + 1 && xv_epctl_op == EPOLL_CTL_ADD) XV_CANARY("first bell starts ringing: EPOLL_CTL_ADD");
    if (!ringing && xv_epctl_calls == c0 + 1 && xv_epctl_op == EPOLL_CTL_DEL) XV_CANARY("last ringing bell stops: EPOLL_CTL_DEL");
    if (!ringing && xv_epctl_calls == c0 && xv_b != idx) XV_CANARY("another bell still rings: still registered");
}
