//@ tu: libxcm/tp/common/active_fd.c
//@ enforce: fd_create
//@ bounded: the process-wide active_fds list holds at most 2 nodes on entry (user counts arbitrary in 1..MAX_USERS_PER_FD)
//@ props: C08 C15 C04
//@ expect: postcondition>=5 canary=3
#include "_unit_afd.h"
void harness(void)
{
    xv_ghost_havoc(); xv_fd_havoc(); xv_epoll_havoc(); xv_xpoll_havoc(); xv_afd_havoc();
    xv_afd_make_list(xv_g_n);
    struct active_fd *rv = fd_create();
    if (rv != NULL && xv_g_n == 0) XV_CANARY("first node of the pool");
    if (rv != NULL && xv_g_n == 2) XV_CANARY("third node");
    if (rv == NULL && xv_errno == ENFILE) XV_CANARY("eventfd fails: NULL");
}
