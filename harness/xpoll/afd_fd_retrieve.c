//@ tu: libxcm/tp/common/active_fd.c
//@ enforce: fd_retrieve
//@ pre-unwind: fd_retrieve.0:3
//@ bounded: the process-wide active_fds list holds at most 2 nodes on entry (user counts arbitrary in 1..MAX_USERS_PER_FD)
//@ props: C08 C15
//@ expect: postcondition>=4 canary=3
#include "_unit_afd.h"
void harness(void)
{
    xv_ghost_havoc(); xv_fd_havoc(); xv_epoll_havoc(); xv_xpoll_havoc(); xv_afd_havoc();
    xv_afd_make_list(xv_g_n);
    struct active_fd *rv = fd_retrieve();
    if (rv != NULL && xv_g_n == 1) XV_CANARY("first node has room");
    if (rv != NULL && xv_g_n == 2 && xv_g_c0 == MAX_USERS_PER_FD) XV_CANARY("second node has room");
    if (rv == NULL && xv_g_n == 2) XV_CANARY("all full");
}
