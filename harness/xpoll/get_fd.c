//@ tu: libxcm/core/xpoll.c
//@ loops: xpoll.loops
//@ enforce: xpoll_get_fd
//@ props: C16
//@ expect: postcondition>=1 canary=1
#include "_unit.h"
void harness(void)
{
    xv_ghost_havoc(); xv_fd_havoc(); xv_epoll_havoc(); xv_xpoll_havoc();
    struct xpoll *x;
    int rv = xpoll_get_fd(x);
    if (rv == 5) XV_CANARY("returns the epoll descriptor");
}
