//@ tu: libxcm/core/xpoll.c
//@ loops: xpoll.loops
//@ enforce: find_fd
//@ props: C04
//@ expect: postcondition>=5 canary=2
#include "_unit.h"
void harness(void)
{
    xv_ghost_havoc(); xv_fd_havoc(); xv_epoll_havoc(); xv_xpoll_havoc();
    struct xpoll *x; int fd;
    int rv = find_fd(x, fd);
    if (rv == -1) XV_CANARY("not found");
    if (rv == 3) XV_CANARY("found in slot 3");
}
