//@ tu: libxcm/core/xpoll.c
//@ loops: xpoll.loops
//@ enforce: find_free_bell_reg_idx
//@ props: C04
//@ expect: postcondition>=5 canary=2
#include "_unit.h"
void harness(void)
{
    xv_ghost_havoc(); xv_fd_havoc(); xv_epoll_havoc(); xv_xpoll_havoc();
    struct xpoll *x;
    int rv = find_free_bell_reg_idx(x);
    if (rv == -1) XV_CANARY("no free slot");
    if (rv == 3) XV_CANARY("slot 3 free");
}
