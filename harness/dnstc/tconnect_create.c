//@ tu: libxcm/tp/tcp/tconnect.c
//@ enforce: tconnect_create
//@ replace: timer_mgr_create timer_mgr_destroy
//@ flags: --object-bits 10
//@ props: C08 C05
//@ expect: postcondition>=2 canary=4
#include "_unit_tc.h"
void harness(void)
{
    xv_ghost_havoc();
    xv_tc_havoc();
    struct xpoll *xp = nondet_vptr(); void *lr = nondet_vptr(); int s0 = xv_socket_calls, c0 = xv_close_calls, m0 = xv_tmgrs;
    struct tconnect *t = tconnect_create(tconnect_algorithm_happy_eyeballs, xp, lr);
    if (t != NULL) XV_CANARY("created");
    if (t == NULL && xv_errno == EMFILE && xv_close_calls == c0) XV_CANARY("no descriptor at all");
    if (t == NULL && xv_errno == EAFNOSUPPORT && xv_close_calls == c0 + 1 && xv_tmgrs == m0) XV_CANARY("one socket failed, the other is closed again");
    if (t == NULL && xv_close_calls == c0 + 2) XV_CANARY("timer manager failed, both sockets closed again");
}
