//@ tu: libxcm/tp/tcp/tconnect.c
//@ enforce: track_process_initial_delay
//@ replace: timer_mgr_has_expired timer_mgr_ack track_connect_next
//@ flags: --object-bits 10
//@ props: C13 C08 C04
//@ expect: postcondition>=5 canary=3
#include "_unit_tc.h"
void harness(void)
{
    xv_ghost_havoc();
    xv_tc_havoc();
    struct track *track;
    unsigned c0 = xv_conn_n, e0 = xv_eff_n;
    track_process_initial_delay(track);
    if (!xv_expired_ret) XV_CANARY("head start not over");
    if (xv_expired_ret && xv_conn_n == c0 + 1 && xv_conn_errno == EINPROGRESS) XV_CANARY("first attempt in progress");
    if (xv_expired_ret && xv_eff_n == e0) XV_CANARY("nothing to try");
}
