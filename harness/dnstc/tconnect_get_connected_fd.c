//@ tu: libxcm/tp/tcp/tconnect.c
//@ enforce: tconnect_get_connected_fd
//@ replace: track_get_connected_fd
//@ pre-unwind: tconnect_get_connected_fd.0:3
//@ flags: --object-bits 10
//@ props: C13 C08
//@ expect: postcondition>=8 canary=5
#include "_unit_tc.h"
void harness(void)
{
    xv_ghost_havoc();
    xv_tc_havoc();
    struct tconnect *tc; int *fd; int64_t *scope; struct tcp_opts *opts;
    unsigned x0 = xv_expired_n;
    int rv = tconnect_get_connected_fd(tc, fd, scope, opts);
    if (rv == 0) XV_CANARY("a track delivered");
    if (rv == -1 && xv_errno == EAGAIN) XV_CANARY("in progress");
    if (rv == -1 && xv_errno == ENOENT) XV_CANARY("ENOENT");
    if (rv == -1 && xv_errno == ETIMEDOUT) XV_CANARY("all exhausted, last one timed out");
    if (rv == -1 && xv_errno == ECONNREFUSED) XV_CANARY("all exhausted, last one refused");
    /* (a run in which both tracks are exhausted and EAGAIN is reported nevertheless is what the failed obligations
     *  EAGAIN_only_while_in_progress / else_errno_of_the_last_track describe: see the report) */
}
