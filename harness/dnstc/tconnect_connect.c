//@ tu: libxcm/tp/tcp/tconnect.c
//@ enforce: tconnect_connect
//@ replace: track_create track_destroy
//@ pre-unwind: has_family_ip.0:34
//@ flags: --object-bits 10
//@ props: C13 C08
//@ expect: postcondition>=9 canary=6
#include "_unit_tc.h"
void harness(void)
{
    xv_ghost_havoc();
    xv_tc_havoc();
    struct tconnect *tc; const struct xcm_addr_ip *lip, *rips; const struct tcp_opts *opts; size_t n = nondet_size_t();
    uint16_t lport = (uint16_t)(nondet_uint() & 0xffff), rport = (uint16_t)(nondet_uint() & 0xffff); int64_t scope = nondet_long(); double tmo = nondet_double();
    int t0 = xv_timers; unsigned c0 = xv_conn_n;
    int rv = tconnect_connect(tc, lip, lport, scope, tmo, opts, rips, n, rport);
    if (rv == -1 && xv_errno == EINVAL) XV_CANARY("scope with a single IPv4 address");
    if (rv == -1 && xv_errno == ENOTSUP) XV_CANARY("unknown algorithm");
    if (rv == 0 && n == 32 && xv_conn_n == c0 + 1 && xv_timers == t0) XV_CANARY("one track connected at once, 32 addresses");
    if (rv == 0 && n == 2 && xv_timers == t0 + 2) XV_CANARY("happy eyeballs: IPv6 in progress, IPv4 waiting");
    if (rv == 0 && n == 1 && scope >= 0) XV_CANARY("scope with a single IPv6 address");
    if (rv == 0 && xv_conn_n == c0 + 2) XV_CANARY("two attempts");
}
