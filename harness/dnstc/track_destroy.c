//@ tu: libxcm/tp/tcp/tconnect.c
//@ enforce: track_destroy
//@ replace: xpoll_fd_reg_del_if_valid timer_mgr_cancel
//@ defs: -DXV_TD_JOB
//@ flags: --object-bits 10
//@ props: C08
//@ expect: postcondition>=3 canary=3
#include "_unit_tc.h"
void harness(void)
{
    xv_ghost_havoc();
    xv_tc_havoc();
    struct track *track; _Bool owner = nondet_bool();
    int r0 = xv_regs, t0 = xv_timers;
    track_destroy(track, owner);
    if (owner && xv_regs != r0 && xv_timers != t0) XV_CANARY("owner: registration and timer released");
    if (!owner && xv_del_id != -7) XV_CANARY("cleanup in a forked child");
    if (owner && xv_regs == r0 && xv_timers == t0) XV_CANARY("NULL or nothing held");
}
