/* dnstc unit, part TC: the REAL libxcm/tp/tcp/tconnect.c */
#include "prelude.h"
#include "harness/dnstc/_ghost.h"
#include "tconnect.c"
#include "env/base.h"
#define XV_DNSTC_TC
#include "env/dnstc_env.h"
#include "contracts/dnstc.h"
#ifdef XV_CBMC
double nondet_double(void);
void *nondet_vptr(void);
static inline void xv_tc_havoc(void)
{
    xv_fd_havoc();
    __CPROVER_havoc_object(&xv_tc); __CPROVER_havoc_object(&xv_ai); __CPROVER_havoc_object(&xv_tmgrs);
}
#endif
