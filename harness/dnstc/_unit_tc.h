/* dnstc unit, part TC: the REAL libxcm/tp/tcp/tconnect.c */
#include "prelude.h"
#include "harness/dnstc/_ghost.h"
#include "tconnect.c"
#include "env/base.h"
#define XV_DNSTC_TC
#include "env/dnstc_env.h"
#include "contracts/dnstc.h"
#ifdef XV_CBMC
double nondet_double(void);
void *nondet_vptr(void);
static inline void xv_tc_havoc(void)
{
    xv_fd_havoc();
    xv_regs = nondet_int(); xv_timers = nondet_int(); xv_tmgrs = nondet_int();
    xv_trk = nondet_vptr(); xv_ai = nondet_int();
    xv_att_begun = nondet_uint(); xv_att_failed = nondet_uint(); xv_att_errno = nondet_int(); xv_att_conn = nondet_uint();
    xv_att_conn_rc = nondet_int(); xv_att_conn_errno = nondet_int(); xv_att_conn_fd = nondet_int(); xv_att_conn_src = nondet_vptr();
    xv_fail_n = nondet_uint(); xv_fail_errno = nondet_int(); xv_conn_n = nondet_uint();
    xv_conn_idx = nondet_int(); xv_conn_fd = nondet_int(); xv_conn_rc = nondet_int(); xv_conn_errno = nondet_int();
    xv_disc_n = nondet_uint(); xv_disc_fd = nondet_int();
    xv_pre_eff_fd = nondet_int(); xv_pre_bind_fd = nondet_int();
    xv_unprepared = nondet_uint(); xv_unbound = nondet_uint(); xv_wrong_addr = nondet_uint(); xv_unregistered = nondet_uint();
    xv_eff_n = nondet_uint(); xv_eff_fd = nondet_int(); xv_eff_rc = nondet_int(); xv_eff_opts = nondet_vptr();
    xv_sa_src = nondet_vptr(); xv_sa_dst = nondet_vptr(); xv_sa_port = (uint16_t)(nondet_uint() & 0xffff); xv_sa_scope = nondet_long();
    xv_reg_fd = nondet_int(); xv_reg_event = nondet_int(); xv_reg_id = nondet_int(); xv_del_id = nondet_int();
    xv_sched_id = nondet_long(); xv_sched_timeout = nondet_double(); xv_sched_mgr = nondet_vptr();
    xv_expired_ret = nondet_bool(); xv_expired_n = nondet_uint();
    xv_est_n = nondet_uint(); xv_est_fd = nondet_int(); xv_est_rc = nondet_int(); xv_est_errno = nondet_int();
}
#endif
