/* harness/dnstc/_ghost.h -- ghost state and clause macros of the dnstc unit that must be visible BEFORE the real TU is
 * included (loop contracts are spliced into the TU text).  Included by _unit_*.h between prelude.h and the TU, and (guarded)
 * by contracts/dnstc.h.  Nothing here is executable. */
#ifndef XV_DNSTC_GHOST_H
#define XV_DNSTC_GHOST_H

#define XV_DT_CNT_MAX 1000000
#define XV_DT_CNT_OK(c) ((c) >= 0 && (c) < XV_DT_CNT_MAX)

/* ---- ghost resource counters shared by both parts */
int xv_regs;        /* live xpoll descriptor registrations (xpoll_fd_reg_add: +1, xpoll_fd_reg_del: -1)                  */
int xv_timers;      /* live timers of the timer manager(s) (schedule: +1, cancel/ack of a live timer: -1)               */
int xv_tmgrs;       /* live timer managers (timer_mgr_create success: +1, timer_mgr_destroy(non-NULL): -1)              */
int xv_xpolls;      /* live xpoll instances                                                                             */
int xv_queries;     /* live resolver queries (xcm_dns_resolve success: +1, xcm_dns_query_destroy(non-NULL): -1)          */

/* ---- part DNS */
/* xcm_dns_query_result has reported a TERMINAL failure (rc < 0, errno != EAGAIN) to the code under proof.  Written by the
 * contract of xcm_dns_query_result only; never cleared. */
_Bool xv_q_failed_seen;
_Bool xv_polled_after_fail;   /* sticky: poll() was entered after that point */
_Bool xv_polled;              /* sticky: poll() was called at all */
int xv_poll_fd; int xv_poll_timeout; short xv_poll_events; int xv_poll_rc;   /* last poll() call */
#define XV_POLL_ASSIGNS xv_errno, xv_blocked, xv_polled_after_fail, xv_poll_fd, xv_poll_timeout, xv_poll_events, xv_poll_rc, xv_polled

#define Q_STATE_OK(q) ((q)->state == query_state_in_progress || (q)->state == query_state_failed || (q)->state == query_state_successful)
#define Q_TERMINAL(st) ((st) == query_state_failed || (st) == query_state_successful)
/* representation invariant of a query object */
#define Q_OK(q) (Q_STATE_OK(q) && ((q)->state == query_state_successful ==> ((q)->ips_len >= 1 && (q)->ips_len <= XCM_DNS_MAX_RESULT_SIZE)))
#define Q_GHOST_OK (XV_DT_CNT_OK(xv_queries) && XV_DT_CNT_OK(xv_regs) && XV_DT_CNT_OK(xv_timers) && XV_DT_CNT_OK(xv_tmgrs))


/* ---- part TC (tconnect.c) ------------------------------------------------------------------------------------------
 * The track whose attempts are logged (bound by `requires(xv_trk == track)`; never assigned by code or stubs). */
void *xv_trk;
/* ATTEMPT LOG for ONE arbitrary address index xv_ai (never assigned => every statement about it holds for all indices).
 * An "attempt on address i" is everything done while track->ip_idx == i: tcp_opts_effectuate, [bind], connect.  A step that
 * fails (effectuate < 0, bind < 0, connect < 0 with errno != EINPROGRESS) is a FAILED attempt with that errno. */
int xv_ai;
unsigned xv_att_begun;        /* attempts begun on address xv_ai (= calls of tcp_opts_effectuate while ip_idx == xv_ai)          */
unsigned xv_att_failed;       /* failed steps while ip_idx == xv_ai                                                               */
int xv_att_errno;             /* errno of the last of them                                                                        */
unsigned xv_att_conn;         /* connect() attempts (real address, not AF_UNSPEC) while ip_idx == xv_ai                            */
int xv_att_conn_rc, xv_att_conn_errno, xv_att_conn_fd;   /* the last of them: result, errno (0 on success), descriptor            */
const void *xv_att_conn_src;  /* the struct xcm_addr_ip its address was built from (source of the last tp_ip_to_sockaddr)        */
/* log over ALL attempts of the track */
unsigned xv_fail_n;           /* failed steps so far                                                                              */
int xv_fail_errno;            /* errno of the last failed step = "the errno of the last failed attempt"                           */
unsigned xv_conn_n;           /* connect() attempts so far                                                                        */
int xv_conn_idx, xv_conn_fd, xv_conn_rc, xv_conn_errno;   /* the last one: ip_idx at the time, descriptor, result                  */
unsigned xv_disc_n; int xv_disc_fd;                       /* connect(AF_UNSPEC) calls ("disconnect", track_abort_connect)          */
/* order of the steps of one attempt: descriptor on which the options snapshot was applied / the local address was bound
 * since the attempt began (-1: none); reset by every event that ends an attempt */
int xv_pre_eff_fd, xv_pre_bind_fd;
unsigned xv_unprepared;       /* connect() attempts on a descriptor that did NOT have &track->tcp_opts applied successfully before */
unsigned xv_unbound;          /* connect() attempts on a descriptor that was NOT bound to (local_ip, local_port) before            */
unsigned xv_wrong_addr;       /* connect() attempts whose address was not built from &remote_ips[ip_idx], remote_port             */
unsigned xv_unregistered;     /* connect() attempts made while the descriptor was not registered for EPOLLOUT (C04)               */
/* other modules, last call */
unsigned xv_eff_n; int xv_eff_fd, xv_eff_rc; const void *xv_eff_opts;                       /* tcp_opts_effectuate                */
const void *xv_sa_src; const void *xv_sa_dst; uint16_t xv_sa_port; int64_t xv_sa_scope;     /* tp_ip_to_sockaddr                  */
int xv_reg_fd, xv_reg_event, xv_reg_id; int xv_del_id;                                      /* xpoll_fd_reg_add / _del            */
int64_t xv_sched_id; double xv_sched_timeout; const void *xv_sched_mgr;                     /* timer_mgr_schedule                 */
_Bool xv_expired_ret; unsigned xv_expired_n;                                                /* timer_mgr_has_expired              */
unsigned xv_est_n; int xv_est_fd, xv_est_rc, xv_est_errno;                                  /* ut_established                     */

#endif
