/* harness/dnstc/_ghost.h -- ghost state and clause macros of the dnstc unit that must be visible BEFORE the real TU is
 * included (loop contracts are spliced into the TU text).  Included by _unit_*.h between prelude.h and the TU, and (guarded)
 * by contracts/dnstc.h.  Nothing here is executable. */
#ifndef XV_DNSTC_GHOST_H
#define XV_DNSTC_GHOST_H

#define XV_DT_CNT_MAX 1000000
#define XV_DT_CNT_OK(c) ((c) >= 0 && (c) < XV_DT_CNT_MAX)

/* ---- ghost resource counters shared by both parts */
/* xv_regs:   live xpoll descriptor registrations (xpoll_fd_reg_add: +1, xpoll_fd_reg_del: -1)   -- field of xv_xp, below   */
/* xv_timers: live timers of the timer manager (schedule: +1, cancel/ack of a live timer: -1)   -- field of xv_tm, below   */
int xv_tmgrs;       /* live timer managers (timer_mgr_create success: +1, timer_mgr_destroy(non-NULL): -1)              */
int xv_xpolls;      /* live xpoll instances                                                                             */
int xv_queries;     /* live resolver queries (xcm_dns_resolve success: +1, xcm_dns_query_destroy(non-NULL): -1)          */

/* ---- part DNS */
/* xcm_dns_query_result has reported a TERMINAL failure (rc < 0, errno != EAGAIN) to the code under proof.  Written by the
 * contract of xcm_dns_query_result only; never cleared. */
_Bool xv_q_failed_seen;
_Bool xv_polled_after_fail;   /* sticky: poll() was entered after that point */
_Bool xv_polled;              /* sticky: poll() was called at all */
int xv_poll_fd; int xv_poll_timeout; short xv_poll_events; int xv_poll_rc;   /* last poll() call */
#define XV_POLL_ASSIGNS xv_errno, xv_blocked, xv_polled_after_fail, xv_poll_fd, xv_poll_timeout, xv_poll_events, xv_poll_rc, xv_polled

#define Q_STATE_OK(q) ((q)->state == query_state_in_progress || (q)->state == query_state_failed || (q)->state == query_state_successful)
#define Q_TERMINAL(st) ((st) == query_state_failed || (st) == query_state_successful)
/* representation invariant of a query object */
#define Q_OK(q) (Q_STATE_OK(q) && ((q)->state == query_state_successful ==> ((q)->ips_len >= 1 && (q)->ips_len <= XCM_DNS_MAX_RESULT_SIZE)))


/* ---- part TC (tconnect.c) ------------------------------------------------------------------------------------------
 * The track whose attempt is being logged is xv_pre.trk: the struct track that CONTAINS the struct tcp_opts handed to the last
 * tcp_opts_effectuate (every attempt begins with tcp_opts_effectuate(&track->tcp_opts, fd)); bind() and connect() read its
 * ip_idx to know which address the attempt is on. */
/* ATTEMPT LOG for ONE arbitrary address index xv_ai (never assigned => every statement about it holds for all indices).
 * An "attempt on address i" is everything done while track->ip_idx == i: tcp_opts_effectuate, [bind], connect.  A step that
 * fails (effectuate < 0, bind < 0, connect < 0 with errno != EINPROGRESS) is a FAILED attempt with that errno. */
int xv_ai;
const void *xv_g_ips;        /* ghost constant: bound to a pointer value on entry by a requires clause */
/* The ghost variables below are FIELDS of sub-structs of ONE object xv_tc.  DFCC's write-set inclusion check is quadratic in
 * the number of assigns targets (caller x callee, and callee = caller for the recursive track_connect_next): 70 separate
 * globals made that job run 6 minutes; now the function under proof lists `xv_tc`, a callee contract the sub-structs it
 * writes. */
struct xv_arow_s {            /* row of the tracked address xv_ai */
    unsigned begun;           /* attempts begun on address xv_ai (= calls of tcp_opts_effectuate while ip_idx == xv_ai)           */
    unsigned failed;          /* failed steps while ip_idx == xv_ai                                                                */
    int err;                  /* errno of the last of them                                                                         */
    unsigned conn;            /* connect() attempts (real address, not AF_UNSPEC) while ip_idx == xv_ai                             */
    int conn_rc, conn_errno, conn_fd;   /* the last of them: result, errno (0 on success), descriptor                              */
    const void *conn_src;     /* the struct xcm_addr_ip its address was built from (source of the last tp_ip_to_sockaddr)         */
};
#define xv_att_begun xv_arow.begun
#define xv_att_failed xv_arow.failed
#define xv_att_errno xv_arow.err
#define xv_att_conn xv_arow.conn
#define xv_att_conn_rc xv_arow.conn_rc
#define xv_att_conn_errno xv_arow.conn_errno
#define xv_att_conn_fd xv_arow.conn_fd
#define xv_att_conn_src xv_arow.conn_src
struct xv_fail_s {            /* log over ALL attempts of the track */
    unsigned n;               /* failed steps so far                                                                               */
    int err;                  /* errno of the last failed step = "the errno of the last failed attempt"                            */
};
#define xv_fail_n xv_fail.n
#define xv_fail_errno xv_fail.err
struct xv_conn_s {
    unsigned n;               /* connect() attempts so far                                                                         */
    int idx, fd, rc, err;     /* the last one: ip_idx at the time, descriptor, result, errno                                        */
    unsigned disc_n; int disc_fd;       /* connect(AF_UNSPEC) calls ("disconnect", track_abort_connect)                            */
    unsigned unprepared;      /* connect() attempts on a descriptor that did NOT have &track->tcp_opts applied successfully before  */
    unsigned unbound;         /* connect() attempts on a descriptor that was NOT bound to (local_ip, local_port) before             */
    unsigned wrong_addr;      /* connect() attempts whose address was not built from &remote_ips[ip_idx], remote_port              */
    unsigned unregistered;    /* connect() attempts made while the descriptor was not registered for EPOLLOUT (C04)                */
};
#define xv_conn_n xv_conn.n
#define xv_conn_idx xv_conn.idx
#define xv_conn_fd xv_conn.fd
#define xv_conn_rc xv_conn.rc
#define xv_conn_errno xv_conn.err
#define xv_disc_n xv_conn.disc_n
#define xv_disc_fd xv_conn.disc_fd
#define xv_unprepared xv_conn.unprepared
#define xv_unbound xv_conn.unbound
#define xv_wrong_addr xv_conn.wrong_addr
#define xv_unregistered xv_conn.unregistered
/* order of the steps of one attempt: descriptor on which the options snapshot was applied / the local address was bound
 * since the attempt began (-1: none); reset by every event that ends an attempt */
struct xv_pre_s { int eff_fd, bind_fd; void *trk;
    _Bool top;   /* proof device of job track_connect_next (see contracts/dnstc.h, XV_TCN_I0): set by the harness, cleared by the first
                    tcp_opts_effectuate, i.e. before any recursive call */
};
#define xv_pre_eff_fd xv_pre.eff_fd
#define xv_pre_bind_fd xv_pre.bind_fd
#define xv_tcn_top xv_pre.top
#define xv_trk xv_pre.trk
/* other modules, last call */
struct xv_eff_s { unsigned n; int fd, rc; const void *opts; };                      /* tcp_opts_effectuate                */
#define xv_eff_n xv_eff.n
#define xv_eff_fd xv_eff.fd
#define xv_eff_rc xv_eff.rc
#define xv_eff_opts xv_eff.opts
struct xv_sa_s { const void *src; const void *dst; uint16_t port; int64_t scope; };  /* tp_ip_to_sockaddr                  */
#define xv_sa_src xv_sa.src
#define xv_sa_dst xv_sa.dst
#define xv_sa_port xv_sa.port
#define xv_sa_scope xv_sa.scope
struct xv_xp_s { int regs; int reg_fd, reg_event, reg_id; int del_id; };             /* xpoll_fd_reg_add / _del            */
#define xv_regs xv_xp.regs
#define xv_reg_fd xv_xp.reg_fd
#define xv_reg_event xv_xp.reg_event
#define xv_reg_id xv_xp.reg_id
#define xv_del_id xv_xp.del_id
struct xv_tm_s { int timers; int64_t sched_id; double sched_timeout; const void *sched_mgr; _Bool expired_ret; unsigned expired_n; };   /* timer_mgr_* */
#define xv_timers xv_tm.timers
#define xv_sched_id xv_tm.sched_id
#define xv_sched_timeout xv_tm.sched_timeout
#define xv_sched_mgr xv_tm.sched_mgr
#define xv_expired_ret xv_tm.expired_ret
#define xv_expired_n xv_tm.expired_n
struct xv_est_s { unsigned n; int fd, rc, err; };                                    /* ut_established                     */
#define xv_est_n xv_est.n
#define xv_est_fd xv_est.fd
#define xv_est_rc xv_est.rc
#define xv_est_errno xv_est.err

struct xv_tc_s {
    /* .att: everything the functions of a TRACK (and the stubs below them) write: the assigns target of track_* */
    struct xv_att_s {
        struct xv_arow_s arow; struct xv_fail_s fail; struct xv_conn_s conn; struct xv_pre_s pre;
        struct xv_eff_s eff; struct xv_sa_s sa; struct xv_xp_s xp; struct xv_tm_s tm; struct xv_est_s est;
        /* last connect()/bind() of the kernel model (env/dnstc_env.h) */
        struct xv_kc_s { unsigned connect_calls, connect_ok_calls; int connect_fd; unsigned bind_calls, bind_ok_calls; int bind_fd; } kc;
    } att;
} xv_tc;
#define xv_arow xv_tc.att.arow
#define xv_fail xv_tc.att.fail
#define xv_conn xv_tc.att.conn
#define xv_pre xv_tc.att.pre
#define xv_eff xv_tc.att.eff
#define xv_sa xv_tc.att.sa
#define xv_xp xv_tc.att.xp
#define xv_tm xv_tc.att.tm
#define xv_est xv_tc.att.est
#define xv_kc xv_tc.att.kc

#endif
