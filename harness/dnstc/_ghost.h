/* harness/dnstc/_ghost.h -- ghost state and clause macros of the dnstc unit that must be visible BEFORE the real TU is
 * included (loop contracts are spliced into the TU text).  Included by _unit_*.h between prelude.h and the TU, and (guarded)
 * by contracts/dnstc.h.  Nothing here is executable. */
#ifndef XV_DNSTC_GHOST_H
#define XV_DNSTC_GHOST_H

#define XV_DT_CNT_MAX 1000000
#define XV_DT_CNT_OK(c) ((c) >= 0 && (c) < XV_DT_CNT_MAX)

/* ---- ghost resource counters shared by both parts */
int xv_regs;        /* live xpoll descriptor registrations (xpoll_fd_reg_add: +1, xpoll_fd_reg_del: -1)                  */
int xv_timers;      /* live timers of the timer manager(s) (schedule: +1, cancel/ack of a live timer: -1)               */
int xv_tmgrs;       /* live timer managers (timer_mgr_create success: +1, timer_mgr_destroy(non-NULL): -1)              */
int xv_xpolls;      /* live xpoll instances                                                                             */
int xv_queries;     /* live resolver queries (xcm_dns_resolve success: +1, xcm_dns_query_destroy(non-NULL): -1)          */

/* ---- part DNS */
/* xcm_dns_query_result has reported a TERMINAL failure (rc < 0, errno != EAGAIN) to the code under proof.  Written by the
 * contract of xcm_dns_query_result only; never cleared. */
_Bool xv_q_failed_seen;
_Bool xv_polled_after_fail;   /* sticky: poll() was entered after that point */
_Bool xv_polled;              /* sticky: poll() was called at all */
int xv_poll_fd; int xv_poll_timeout; short xv_poll_events; int xv_poll_rc;   /* last poll() call */
#define XV_POLL_ASSIGNS xv_errno, xv_blocked, xv_polled_after_fail, xv_poll_fd, xv_poll_timeout, xv_poll_events, xv_poll_rc, xv_polled

#define Q_STATE_OK(q) ((q)->state == query_state_in_progress || (q)->state == query_state_failed || (q)->state == query_state_successful)
#define Q_TERMINAL(st) ((st) == query_state_failed || (st) == query_state_successful)
/* representation invariant of a query object */
#define Q_OK(q) (Q_STATE_OK(q) && ((q)->state == query_state_successful ==> ((q)->ips_len >= 1 && (q)->ips_len <= XCM_DNS_MAX_RESULT_SIZE)))
#define Q_GHOST_OK (XV_DT_CNT_OK(xv_queries) && XV_DT_CNT_OK(xv_regs) && XV_DT_CNT_OK(xv_timers) && XV_DT_CNT_OK(xv_tmgrs))

#endif
