//@ tu: libxcm/tp/tcp/tconnect.c
//@ enforce: track_create
//@ replace: timer_mgr_schedule track_connect_next dup_ips
//@ flags: --object-bits 10
//@ defs: -DXV_TRK_OWNED_AT_CALLS
//@ props: C13 C08 C04
//@ expect: postcondition>=7 canary=3
#include "_unit_tc.h"
void harness(void)
{
    xv_ghost_havoc();
    xv_tc_havoc();
    int fd4 = nondet_int(), fd6 = nondet_int(), n = nondet_int(); const struct xcm_addr_ip *local_ip, *remote_ips; const struct tcp_opts *opts;
    uint16_t lport = (uint16_t)(nondet_uint() & 0xffff), rport = (uint16_t)(nondet_uint() & 0xffff); int64_t scope = nondet_long(); double tmo = nondet_double(), delay = nondet_double();
    struct timer_mgr *tm = nondet_vptr(); struct xpoll *xp = nondet_vptr(); void *lr = nondet_vptr();
    int t0 = xv_timers; unsigned c0 = xv_conn_n, e0 = xv_eff_n;
    struct track *t = track_create(fd4, fd6, local_ip, lport, scope, tmo, opts, remote_ips, n, rport, delay, tm, xp, lr);
    if (delay > 0 && xv_timers == t0 + 1) XV_CANARY("delayed track");
    if (!(delay > 0) && xv_conn_n == c0 + 1 && xv_conn_rc == 0) XV_CANARY("first address connects at once");
    if (!(delay > 0) && xv_eff_n == e0) XV_CANARY("no address of a family the track has a descriptor for");
}
