//@ tu: libxcm/tp/tcp/tconnect.c
//@ enforce: dup_ips
//@ flags: --object-bits 10
//@ defs: -DXV_DUP_JOB
//@ props: C13
//@ expect: postcondition>=1 canary=1
#include "_unit_tc.h"
void harness(void)
{
    xv_ghost_havoc();
    xv_tc_havoc();
    const struct xcm_addr_ip *ips; int n = nondet_int();
    struct xcm_addr_ip *c = dup_ips(ips, n);
    if (n == 32) XV_CANARY("longest list");
}
