//@ tu: libxcm/tp/tcp/tconnect.c
//@ enforce: track_abort_connect
//@ replace: xpoll_fd_reg_del_if_valid timer_mgr_cancel
//@ flags: --object-bits 10
//@ props: C08 C13
//@ expect: postcondition>=3 canary=3
#include "_unit_tc.h"
void harness(void)
{
    xv_ghost_havoc();
    xv_tc_havoc();
    struct track *track;
    int r0 = xv_regs, t0 = xv_timers; unsigned k0 = xv_kc.connect_ok_calls;
    track_abort_connect(track);
    if (xv_regs == r0 - 1 && xv_timers == t0 - 1) XV_CANARY("registration and timer released");
    if (xv_regs == r0 && xv_timers == t0) XV_CANARY("nothing was held");
    if (xv_kc.connect_ok_calls == k0) XV_CANARY("the dissolving connect() itself failed");
}
