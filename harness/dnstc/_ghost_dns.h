/* harness/dnstc/_ghost_dns.h -- more ghost state of the DNS part (included by _unit_dns.h before the real TU; see _ghost.h).
 * One object (one assigns target): records written by the contracts of xpoll.c / timer_mgr.c and by the c-ares model. */
#ifndef XV_DNSTC_GHOST_DNS_H
#define XV_DNSTC_GHOST_DNS_H
struct xv_dg_s {
    unsigned reg_adds, reg_dels;            /* xpoll_fd_reg_add / xpoll_fd_reg_del calls                                     */
    int add_fd, add_event, add_id;          /* the last xpoll_fd_reg_add                                                     */
    int del_id;                             /* the last xpoll_fd_reg_del                                                     */
    unsigned tm_cancels, tm_rescheds, tm_scheds, tm_creates, tm_destroys;      /* timer_mgr_* calls                            */
    double sched_timeout; const void *sched_idp; int64_t sched_id;             /* the last (re)schedule                        */
    _Bool destroy_owner;                    /* owner flag of the last timer_mgr_destroy                                      */
    _Bool expired_ret; int64_t expired_id;  /* the last timer_mgr_has_expired: answer, timer asked about                     */
    /* c-ares model */
    unsigned ares_process_fd_n, ares_process_n, ares_getsock_n, ares_timeout_n, ares_destroys, ares_inits, ares_gai_n, ares_free_n;
    int ares_status;                        /* status the model handed to the callback last (ARES_SUCCESS, ...)               */
    unsigned ares_cb_n;                     /* callbacks made by the model                                                   */
    void *ares_arg;                         /* callback argument registered with ares_getaddrinfo                            */
    int ares_tries, ares_timeout_ms, ares_optmask;   /* options of the last ares_init_options                                */
} xv_dg;
#endif
