//@ tu: libxcm/tp/tcp/tconnect.c
//@ enforce: tconnect_destroy
//@ replace: track_destroy timer_mgr_destroy
//@ pre-unwind: tconnect_destroy.0:3
//@ flags: --object-bits 8
//@ props: C08
//@ expect: postcondition>=7 canary=4
#include "_unit_tc.h"
void harness(void)
{
    xv_ghost_havoc();
    xv_tc_havoc();
    struct tconnect *t; _Bool owner = nondet_bool(); int c0 = xv_close_calls, r0 = xv_regs, m0 = xv_tmgrs;
    tconnect_destroy(t, owner);
    if (owner && xv_close_calls == c0 + 2 && xv_regs == r0 - 3) XV_CANARY("owner: two sockets closed, two track registrations and the timer manager's released");
    if (owner && xv_close_calls == c0 + 1 && xv_tmgrs == m0 - 1) XV_CANARY("one descriptor had been handed over");
    if (!owner && xv_tmgrs == m0 - 1) XV_CANARY("cleanup in a forked child");
    if (xv_tmgrs == m0) XV_CANARY("NULL");
}
