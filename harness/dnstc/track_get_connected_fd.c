//@ tu: libxcm/tp/tcp/tconnect.c
//@ enforce: track_get_connected_fd
//@ replace: track_process_initial_delay track_process_connecting xpoll_fd_reg_del
//@ flags: --object-bits 10
//@ props: C13 C08 C04
//@ expect: postcondition>=8 canary=5
#include "_unit_tc.h"
void harness(void)
{
    xv_ghost_havoc();
    xv_tc_havoc();
    struct track *track; int *fd; int64_t *scope; struct tcp_opts *opts;
    unsigned x0 = xv_expired_n, e0 = xv_est_n; int r0 = xv_regs;
    int rv = track_get_connected_fd(track, fd, scope, opts);
    if (rv == 0 && xv_regs == r0 - 1 && xv_est_n == e0) XV_CANARY("was connected already");
    if (rv == 0 && xv_est_n == e0 + 1 && xv_est_rc == 0) XV_CANARY("connection established meanwhile");
    if (rv == 0 && xv_expired_n == x0 + 2) XV_CANARY("delay over, attempt started and established in one call");
    if (rv == -1 && xv_errno == EAGAIN) XV_CANARY("in progress");
    if (rv == -1 && xv_errno == ETIMEDOUT) XV_CANARY("exhausted after a timeout");
}
