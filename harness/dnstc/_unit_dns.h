/* dnstc unit, part DNS: the REAL libxcm/tp/dns/xcm_dns_cares.c */
#include "prelude.h"
#include "harness/dnstc/_ghost.h"
#include "harness/dnstc/_ghost_dns.h"
#include "xcm_dns_cares.c"
#include "env/base.h"
#define XV_DNSTC_DNS
#include "env/dnstc_env.h"
#include "contracts/dnstc.h"
#ifdef XV_CBMC
static inline void xv_dns_havoc(void)
{
    xv_tmgrs = nondet_int(); xv_xpolls = nondet_int(); xv_queries = nondet_int();
    __CPROVER_havoc_object(&xv_dg);
    xv_q_failed_seen = nondet_bool(); xv_polled_after_fail = nondet_bool(); xv_polled = nondet_bool();
    xv_poll_fd = nondet_int(); xv_poll_timeout = nondet_int(); xv_poll_events = nondet_short(); xv_poll_rc = nondet_int();
}
#endif
