//@ tu: libxcm/tp/dns/xcm_dns_cares.c
//@ loops: dnstc.loops
//@ enforce: xcm_dns_resolve_sync
//@ replace: xpoll_create xpoll_destroy xpoll_get_fd xcm_dns_resolve xcm_dns_query_process xcm_dns_query_result xcm_dns_query_destroy
//@ flags: --object-bits 10
//@ props: C13 C08
//@ expect: postcondition>=7 canary=5
#include "_unit_dns.h"
void harness(void)
{
    xv_ghost_havoc();
    xv_dns_havoc();
    struct xcm_addr_host *host; void *log_ref;
    int rv = xcm_dns_resolve_sync(host, log_ref);
    if (rv == 0 && !xv_polled) XV_CANARY("literal address");
    if (rv == 0 && xv_polled) XV_CANARY("resolved");
    /* (on a tree with defect F2 -- the loop tests the pointer `query < 0` instead of `query_rc < 0` -- this outcome does not exist:
     *  after a resolver failure the loop never exits; the failed loop-invariant / pointer-relation obligations say so) */
    if (rv == -1 && xv_q_failed_seen && xv_errno == ENOENT) XV_CANARY("resolver failure reported");
    if (rv == -1 && !xv_polled) XV_CANARY("xpoll or query could not be created");
    if (rv == -1 && xv_polled && xv_poll_rc == -1 && xv_errno == EINTR) XV_CANARY("poll interrupted");
}
