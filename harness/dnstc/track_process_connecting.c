//@ tu: libxcm/tp/tcp/tconnect.c
//@ enforce: track_process_connecting
//@ replace: timer_mgr_has_expired timer_mgr_ack ut_established track_abort_connect track_connect_next xpoll_fd_reg_del_if_valid
//@ flags: --object-bits 10
//@ props: C13 C08 C04
//@ expect: postcondition>=9 canary=5
#include "_unit_tc.h"
void harness(void)
{
    xv_ghost_havoc();
    xv_tc_havoc();
    struct track *track;
    unsigned c0 = xv_conn_n, f0 = xv_fail_n;
    track_process_connecting(track);
    if (xv_expired_ret && xv_conn_n == c0 + 1 && xv_conn_rc == 0) XV_CANARY("timed out, next address connects");
    if (xv_expired_ret && xv_conn_n == c0 && xv_fail_n == f0) XV_CANARY("timed out, nothing left");
    if (!xv_expired_ret && xv_est_rc == -1 && xv_est_errno == ECONNREFUSED && xv_conn_n == c0 + 1 && xv_conn_errno == EINPROGRESS) XV_CANARY("refused, next address in progress");
    if (!xv_expired_ret && xv_est_rc == -1 && xv_est_errno == EINPROGRESS) XV_CANARY("still in progress");
    if (!xv_expired_ret && xv_est_rc == 0) XV_CANARY("established");
}
