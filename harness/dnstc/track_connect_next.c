//@ tu: libxcm/tp/tcp/tconnect.c
//@ enforce-rec: track_connect_next
//@ replace: tcp_opts_effectuate tp_ip_to_sockaddr xpoll_fd_reg_add timer_mgr_schedule track_abort_connect
//@ pre-unwind: track_connect_next.2:34
//@ timeout: 600
//@ flags: --object-bits 10
//@ props: C13 C08 C04
//@ expect: postcondition>=10 canary=6
#include "_unit_tc.h"
void harness(void)
{
    xv_ghost_havoc();
    xv_tc_havoc();
    xv_tcn_top = 1;
    struct track *track;
    unsigned f0 = xv_fail_n, c0 = xv_conn_n;
    track_connect_next(track);
    struct track *t = xv_trk;
    if (t->state == track_state_connected && xv_conn_n == c0 + 1) XV_CANARY("first candidate connects at once");
    if (t->state == track_state_connecting && xv_fail_n == f0 + 2) XV_CANARY("in progress after two failed attempts");
    if (t->state == track_state_bad && xv_fail_n == f0 && t->badness_reason == ENOENT) XV_CANARY("nothing to try: ENOENT");
    if (t->state == track_state_bad && xv_fail_n == f0 && t->badness_reason == ETIMEDOUT) XV_CANARY("nothing left after a timeout");
    if (t->state == track_state_bad && xv_fail_n == f0 + 1 && t->badness_reason == ECONNREFUSED && xv_conn_n == c0 + 1) XV_CANARY("last address refused");
    if (t->state == track_state_bad && xv_fail_n == f0 + 1 && xv_conn_n == c0 && t->badness_reason == EADDRINUSE) XV_CANARY("bind failed on the last address");
}
