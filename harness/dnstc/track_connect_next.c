//@ tu: libxcm/tp/tcp/tconnect.c
//@ enforce-rec: track_connect_next
//@ replace: tcp_opts_effectuate tp_ip_to_sockaddr xpoll_fd_reg_add timer_mgr_schedule track_abort_connect
//@ pre-unwind: track_connect_next.2:$U
//@ timeout: 600
//@ flags: --object-bits 10
//@ defs: -DXV_TCN_I0=$I0
//@ props: C13 C08 C04
//@ expect: postcondition>=11 canary=$C
/* track_connect_next is recursive and its address loop can only be closed by unwinding (a loop contract inside a recursive
 * function crashes goto-instrument 6.11).  One variant per start index (track->ip_idx on entry = -1 .. 31 = every value the
 * precondition admits for a list of at most XCM_DNS_MAX_RESULT_SIZE = 32 addresses); see the XV_TCN_I0 comment in
 * contracts/dnstc.h for why (O(n^2) -> O(n)) and why the union of the variants is the general contract.  Unwinding bound $U =
 * (addresses left) + 2; complete by the unwinding assertion. */
//@ variant: im1 I0=-1 U=34 C=6
//@ variant: i00 I0=0 U=33 C=2
//@ variant: i01 I0=1 U=32 C=2
//@ variant: i02 I0=2 U=31 C=2
//@ variant: i03 I0=3 U=30 C=2
//@ variant: i04 I0=4 U=29 C=2
//@ variant: i05 I0=5 U=28 C=2
//@ variant: i06 I0=6 U=27 C=2
//@ variant: i07 I0=7 U=26 C=2
//@ variant: i08 I0=8 U=25 C=2
//@ variant: i09 I0=9 U=24 C=2
//@ variant: i10 I0=10 U=23 C=2
//@ variant: i11 I0=11 U=22 C=2
//@ variant: i12 I0=12 U=21 C=2
//@ variant: i13 I0=13 U=20 C=2
//@ variant: i14 I0=14 U=19 C=2
//@ variant: i15 I0=15 U=18 C=2
//@ variant: i16 I0=16 U=17 C=2
//@ variant: i17 I0=17 U=16 C=2
//@ variant: i18 I0=18 U=15 C=2
//@ variant: i19 I0=19 U=14 C=2
//@ variant: i20 I0=20 U=13 C=2
//@ variant: i21 I0=21 U=12 C=2
//@ variant: i22 I0=22 U=11 C=2
//@ variant: i23 I0=23 U=10 C=2
//@ variant: i24 I0=24 U=9 C=2
//@ variant: i25 I0=25 U=8 C=2
//@ variant: i26 I0=26 U=7 C=2
//@ variant: i27 I0=27 U=6 C=2
//@ variant: i28 I0=28 U=5 C=2
//@ variant: i29 I0=29 U=4 C=2
//@ variant: i30 I0=30 U=3 C=2
//@ variant: i31 I0=31 U=2 C=1
#include "_unit_tc.h"
void harness(void)
{
    xv_ghost_havoc();
    xv_tc_havoc();
    xv_tcn_top = 1;
    struct track *track;
    unsigned f0 = xv_fail_n, c0 = xv_conn_n, e0 = xv_eff_n, b0 = xv_kc.bind_calls, d0 = xv_disc_n;
    track_connect_next(track);
    /* (the track object made by is_fresh is not visible here: outcomes are told apart by the ghost log) */
    if (xv_eff_n == e0) XV_CANARY("nothing to try");
#if XV_TCN_I0 <= 30
    if (xv_conn_n == c0 + 1 && xv_conn_rc == 0 && xv_fail_n == f0) XV_CANARY("first candidate connects at once");
#endif
#if XV_TCN_I0 == -1
    if (xv_conn_rc == -1 && xv_conn_errno == EINPROGRESS && xv_fail_n == f0 + 2 && xv_disc_n == d0 + 1) XV_CANARY("in progress after two failed attempts (one of them at connect)");
    if (xv_fail_n == f0 + 1 && xv_fail_errno == ECONNREFUSED && xv_conn_n == c0 + 1 && xv_conn_rc == -1 && xv_eff_n == e0 + 1) XV_CANARY("only address refused");
    if (xv_fail_n == f0 + 3 && xv_conn_n == c0 && xv_fail_errno == EADDRINUSE && xv_kc.bind_calls == b0 + 3) XV_CANARY("bind failed on three addresses");
    if (xv_fail_n == f0 + 32 && xv_conn_n == c0 + 32) XV_CANARY("all 32 addresses refuse");
#endif
}
