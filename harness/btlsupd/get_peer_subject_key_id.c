//@ tu: libxcm/tp/tls/xcm_tp_btls.c
//@ enforce: get_peer_subject_key_id
//@ props: C10
//@ expect: postcondition>=4 canary=5
#include "_c10.h"
void harness(void)
{
    xv_ghost_havoc();
    xv_ssl_havoc();
    xv_btls_havoc();
    xvu_havoc();
    xvg_havoc();
    struct xcm_socket *s; void *context; void *value; size_t capacity;
    long k0 = xvg.ski_calls, p0 = xv_peer_cert_calls;
    int rv = get_peer_subject_key_id(s, context, value, capacity);
    if (rv == 20 && capacity == 20) XV_CANARY("exact fit");
    if (rv == -1 && xv_errno == EOVERFLOW && xvg_ski_len == capacity + 1) XV_CANARY("one byte short");
    if (rv == -1 && xv_errno == EOVERFLOW && capacity == 0) XV_CANARY("capacity 0");
    if (rv == 0 && xv_peer_cert_calls == p0) XV_CANARY("not established");
    if (rv == 0 && xv_peer_cert_calls == p0 + 1 && xvg.ski_calls == k0) XV_CANARY("no certificate or no identifier");
}
