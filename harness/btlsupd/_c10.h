/* common part of the C10 (attribute getter) harnesses of unit btlsupd: ghost-length models of strlen/strcpy (as in
 * harness/addr/addr_parse_ux_uxf.c and harness/btls/get_valid_peer_names.c), then _unit.h, then TRUSTED models of cert.c / slist_join.
 *
 * ONE string value is in play per job: it has the ghost length xvg_len (never assigned) and, at the arbitrary position xv_j, the
 * character xvg_c_j (never assigned, not NUL).  strlen(s) ASSERTS what justifies its answer -- NUL at offset xvg_len and no NUL at
 * the arbitrary earlier position xv_j -- and returns xvg_len; strcpy needs room for xvg_len + 1 bytes (an obligation against the
 * destination OBJECT and, through DFCC, against the assigns clause of the getter under proof), leaves the destination arbitrary except
 * for the NUL and the byte at xv_j (over-approximation of the exact copy). */
#include "prelude.h"
size_t xvg_len; char xvg_c_j;
long xvg_strcpy_calls; char *xvg_strcpy_dst;
size_t xvg_strlen(const char *s)
{
    __CPROVER_assert(s != NULL && s[xvg_len] == 0, "strlen model: NUL at the ghost length");
    __CPROVER_assert(!(xv_j >= 0 && (size_t)xv_j < xvg_len) || s[xv_j] != 0, "strlen model: no NUL before the ghost length (arbitrary position)");
    return xvg_len;
}
char *xvg_strcpy(char *dst, const char *src)
{
    size_t n = xvg_strlen(src);
    __CPROVER_assert(__CPROVER_w_ok(dst, n + 1), "strcpy: destination has room for the string and its NUL");
    char keep = (xv_j >= 0 && (size_t)xv_j < n) ? src[xv_j] : 0;
    __CPROVER_havoc_slice(dst, n + 1);
    dst[n] = 0;
    if (xv_j >= 0 && (size_t)xv_j < n) dst[xv_j] = keep;
    xvg_strcpy_calls++; xvg_strcpy_dst = dst;
    return dst;
}
#define strlen(s) xvg_strlen(s)
#define strcpy(d, s) xvg_strcpy((d), (s))
#define XVU_C10
#include "_unit.h"
#undef strlen
#undef strcpy
