//@ variant: cert FN=get_cert_file_attr
//@ variant: key FN=get_key_file_attr
//@ variant: tc FN=get_tc_file_attr
//@ variant: crl FN=get_crl_file_attr
//@ tu: libxcm/tp/tls/xcm_tp_btls.c
//@ defs: -DXG_FN=$FN
//@ enforce: $FN
//@ props: C10
//@ expect: postcondition>=2 canary=4
/* tls.*_file getters with the REAL get_file_attr inlined; xcm_tp_get_str_attr is the model of env/btlsupd_env.h */
#include "_c10.h"
void harness(void)
{
    xv_ghost_havoc();
    xv_ssl_havoc();
    xv_btls_havoc();
    xvu_havoc();
    xvg_havoc();
    struct xcm_socket *s; void *context; void *value; size_t capacity;
    int rv = XG_FN(s, context, value, capacity);
    if (rv > 0 && (size_t)rv == capacity) XV_CANARY("exact fit");
    if (rv == -1 && xv_errno == EOVERFLOW && xvg_len == capacity) XV_CANARY("one byte short");
    if (rv == -1 && xv_errno == EOVERFLOW && capacity == 0) XV_CANARY("capacity 0");
    if (rv == -1 && xv_errno == ENOENT) XV_CANARY("not designated by file");
}
