//@ tu: libxcm/tp/tls/xcm_tp_btls.c
//@ enforce: conn_update
//@ props: C04 C16
//@ expect: postcondition>=10 canary=14
#include "_unit.h"
#define ST(x) (xvu_in_st == (int)conn_state_##x)
void harness(void)
{
    xv_ghost_havoc();
    xv_ssl_havoc();
    xv_btls_havoc();
    xvu_havoc();
    struct xcm_socket *s;
    long u0 = xvu.low_updates;
    conn_update(s);
    /* one canary per row of the table (contracts/btlsupd.h); objects made by is_fresh are not visible here: the inputs are named
     * by the ghost constants xvu_in_* that the contract binds to the socket's fields */
    _Bool upd = xvu.low_updates == u0 + 1, bell = xvu.bell_ringing; int L = xvu.low_upd_cond, c = xvu_in_c, sc = xvu_in_sc, sw = xvu_in_sw;
    if (ST(tls_handshaking) && upd && !bell && L == XU_R) XV_CANARY("handshaking, OpenSSL wants to read");
    if (ST(tls_handshaking) && upd && !bell && L == XU_S && c == 0) XV_CANARY("handshaking, OpenSSL wants to write, nothing awaited");
    if ((ST(closed) || ST(bad)) && !upd && bell) XV_CANARY("closed/bad: bell");
    if (ST(ready) && c == 0 && upd && !bell && L == 0) XV_CANARY("ready, nothing awaited: quiet");
    if (ST(ready) && c == XU_R && sc == 0 && xvu_has_pending && !upd && bell) XV_CANARY("plaintext pending inside OpenSSL: bell");
    if (ST(ready) && c == XU_S && sc == 0 && !upd && bell) XV_CANARY("nothing refused: bell, let the application try");
    if (ST(ready) && c == XU_R && sc == XU_R && sw == XU_R && !xvu_has_pending && upd && !bell && L == XU_R) XV_CANARY("receive refused (WANT_READ): exactly RECEIVABLE, quiet");
    if (ST(ready) && c == XU_R && sc == XU_R && sw == XU_R && xvu_has_pending && upd && !bell && L == XU_R) XV_CANARY("receive refused with part of a record buffered: exactly RECEIVABLE, quiet");
    if (ST(ready) && c == XU_S && sc == XU_S && sw == XU_S && upd && !bell && L == XU_S) XV_CANARY("send refused (backpressure): exactly SENDABLE");
    if (ST(ready) && c == XU_R && sc == XU_S && !xvu_has_pending && !upd && bell) XV_CANARY("no overlap: bell");
    if (ST(ready) && c == XU_RS && sc == XU_S && sw == XU_R && upd && !bell && L == XU_R) XV_CANARY("both awaited, send refused wanting read: RECEIVABLE");
    if (ST(ready) && c == XU_RS && sc == XU_S && sw == XU_S && upd && !bell && L == XU_RS) XV_CANARY("both awaited, send refused wanting write: both");
    if (ST(ready) && c == XU_RS && sc == XU_R && sw == XU_R && !xvu_has_pending && upd && !bell && L == XU_RS) XV_CANARY("both awaited, receive refused: both (the seeded arm)");
    if (ST(ready) && c == XU_RS && sc == XU_R && sw == XU_R && xvu_has_pending && upd && !bell && L == XU_RS) XV_CANARY("both awaited, receive refused, part of a record buffered: both, quiet");
}
