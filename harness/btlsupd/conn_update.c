//@ tu: libxcm/tp/tls/xcm_tp_btls.c
//@ enforce: conn_update
//@ props: C04 C16
//@ expect: postcondition>=10 canary=12
#include "_unit.h"
void harness(void)
{
    xv_ghost_havoc();
    xv_ssl_havoc();
    xv_btls_havoc();
    xvu_havoc();
    struct xcm_socket *s;
    long u0 = xvu.low_updates, p0 = xvu.pending_calls;
    conn_update(s);
    /* objects made by is_fresh are not visible here: the rows of the table are told apart by the records */
    _Bool upd = xvu.low_updates == u0 + 1; int L = xvu.low_upd_cond;
    if (upd && L == XU_R && xvu.pending_calls == p0) XV_CANARY("handshaking, OpenSSL wants to read: sub-socket awaits RECEIVABLE");
    if (upd && L == XU_S && xvu.pending_calls == p0) XV_CANARY("handshaking, OpenSSL wants to write (or a refused send awaited)");
    if (upd && L == 0 && !xvu.bell_ringing) XV_CANARY("ready, nothing awaited: quiet");
    if (!upd && xvu.bell_ringing && xvu.pending_calls == p0 + 1 && xvu_has_pending) XV_CANARY("plaintext pending inside OpenSSL: bell");
    if (!upd && xvu.bell_ringing && xvu.pending_calls == p0 + 1 && !xvu_has_pending) XV_CANARY("RECEIVABLE awaited, nothing refused or no overlap: bell");
    if (!upd && xvu.bell_ringing && xvu.pending_calls == p0) XV_CANARY("closed/bad, or SENDABLE awaited with nothing refused: bell");
    if (upd && L == XU_R && xvu.pending_calls == p0 + 1) XV_CANARY("receive refused (WANT_READ), RECEIVABLE awaited: exactly RECEIVABLE");
    if (upd && L == XU_S && xvu.pending_calls == p0 + 1) XV_CANARY("receive refused (WANT_WRITE), RECEIVABLE awaited: exactly SENDABLE");
    if (upd && L == XU_RS && xvu.pending_calls == p0 + 2) XV_CANARY("both awaited, one refused: both handed down");
    if (upd && L == XU_R && xvu.pending_calls == p0 + 2) XV_CANARY("both awaited, send refused wanting read: RECEIVABLE");
    if (upd && !xvu.bell_ringing && xvu.bell_mods >= 1) XV_CANARY("bell silenced");
    if (xvu.bell_ringing && !upd) XV_CANARY("bell rung, sub-socket left alone");
}
