/* common part of every btlsupd harness: prelude, the REAL TU libxcm/tp/tls/xcm_tp_btls.c, env (OpenSSL model of unit btls + the
 * closer models of env/btlsupd_env.h), contracts of unit btls (reused) and of this unit */
#include "prelude.h"
/* callees of the TU that this unit observes through its own models (env/btlsupd_env.h); the renaming covers the prototypes in the
 * headers the TU includes, the TU's calls, and nothing else: contracts/btls.h and env/ssl_env.h (included after the #undefs) keep
 * their own, then unused, models under the original names */
#define xcm_tp_socket_update xvu_low_update
#define xcm_tp_socket_server xvu_low_server
#define xcm_tp_socket_close xvu_low_close
#define xcm_tp_socket_cleanup xvu_low_cleanup
#define xcm_tp_socket_destroy xvu_low_destroy
#define xpoll_bell_reg_mod xvu_bell_mod
#define xpoll_bell_reg_del xvu_bell_del
#define SSL_has_pending xvu_ssl_has_pending
#define SSL_shutdown xvu_ssl_shutdown
#define btls_to_btcp xvu_btls_to_btcp
#include "util.h"
/* ut_asprintf is variadic: as in harness/btls/_unit.h (get_file() is not under proof here, but it is part of the TU) */
#define XV_ASPRINTF_PICK(_1, _2, _3, name, ...) name
#define ut_asprintf(...) XV_ASPRINTF_PICK(__VA_ARGS__, xv_asprintf3, xv_asprintf2, xv_asprintf1)(__VA_ARGS__)
char *xv_asprintf2(const char *fmt, const char *a);
char *xv_asprintf3(const char *fmt, const char *a, const char *b);
extern size_t xv_slist_n; extern const char *xv_slist_name_k, *xv_x509_host_k; extern long xv_hk, xv_x509_nhosts, xv_x509_add_calls, xv_slist_destroy_calls, xv_dns_valid_calls; extern const struct slist *xv_slist_destroyed;
#include "xcm_tp_btls.c"
#undef xcm_tp_socket_update
#undef xcm_tp_socket_server
#undef xcm_tp_socket_close
#undef xcm_tp_socket_cleanup
#undef xcm_tp_socket_destroy
#undef xpoll_bell_reg_mod
#undef xpoll_bell_reg_del
#undef SSL_has_pending
#undef SSL_shutdown
#undef btls_to_btcp
#include "env/base.h"
#include "env/ssl_env.h"
#include "contracts/btls.h"
#include "env/btlsupd_env.h"
#include "contracts/btlsupd.h"
