//@ tu: libxcm/tp/tls/xcm_tp_btls.c
//@ enforce: get_peer_names_attr
//@ replace: get_actual_peer_names_attr get_valid_peer_names_attr
//@ props: C10
//@ expect: postcondition>=6 canary=5
#include "_c10.h"
void harness(void)
{
    xv_ghost_havoc();
    xv_ssl_havoc();
    xv_btls_havoc();
    xvu_havoc();
    xvg_havoc();
    struct xcm_socket *s; void *context; void *value; size_t capacity;
    long n0 = xvg.names_calls, p0 = xv_peer_cert_calls;
    int rv = get_peer_names_attr(s, context, value, capacity);
    if (rv == -1 && xv_errno == EOVERFLOW && capacity == 0) XV_CANARY("capacity 0");
    if (rv > 0 && (size_t)rv == capacity && xv_peer_cert_calls == p0 + 1) XV_CANARY("established: certificate names, exact fit");
    if (rv > 0 && (size_t)rv == capacity && xv_peer_cert_calls == p0) XV_CANARY("not established: expected names, exact fit");
    if (rv == -1 && xv_errno == EOVERFLOW && capacity > 0) XV_CANARY("too small");
    if (rv == -1 && xv_errno == ENOENT) XV_CANARY("no names");
}
