//@ tu: libxcm/tp/tls/xcm_tp_btls.c
//@ enforce: btls_server
//@ replace: finalize_tls_conf
//@ props: C08 C18 C09
//@ expect: postcondition>=9 canary=6
/* btls_server: the bind ladder with the REAL deinit inlined; finalize_tls_conf by its contract (proved in unit btls) */
#include "_unit.h"
void harness(void)
{
    xv_ghost_havoc();
    xv_ssl_havoc();
    xv_btls_havoc();
    xv_conf_havoc();
    xv_other_havoc();
    xvu_havoc();
    xv_sel = nondet_int();
    struct xcm_socket *s; const char *local_addr;
    long c0 = xvu.low_closes, d0 = xvu.low_destroys, g0 = xv_ctx_get_calls, r0 = xv_ctx_refs, v0 = xvu.low_servers, e0 = xv_getenv_calls;
    int rv = btls_server(s, local_addr);
    if (rv == 0 && xv_ctx_refs == r0 + 1 && xvu.low_st == XVL_LIVE) XV_CANARY("bound");
    if (rv == -1 && xvu.addr_rv == -1 && xv_errno == ENAMETOOLONG && xvu.low_closes == c0 + 1 && xvu.low_destroys == d0 + 1) XV_CANARY("address refused");
    if (rv == -1 && xvu.addr_rv == 0 && xv_errno == EINVAL && xv_ctx_get_calls == g0 && xvu.low_closes == c0 + 1) XV_CANARY("inconsistent policy");
    if (rv == -1 && xv_ctx_get_calls == g0 + 1 && xvu.low_servers == v0 && xv_ctx_refs == r0 && xvu.low_closes == c0 + 1) XV_CANARY("credentials could not be loaded");
    if (rv == -1 && xvu.low_servers == v0 + 1 && xv_ctx_refs == r0 && xvu.low_closes == c0 && xvu.low_destroys == d0 + 1) XV_CANARY("bind of the sub-socket failed: context given back, no close");
    if (rv == 0 && xv_getenv_calls == e0 + 1) XV_CANARY("bound with default credential files");
}
