//@ variant: client FN=get_client_attr
//@ variant: auth FN=get_auth_attr
//@ variant: check_crl FN=get_check_crl_attr
//@ variant: check_time FN=get_check_time_attr
//@ variant: verify_peer_name FN=get_verify_peer_name_attr
//@ tu: libxcm/tp/tls/xcm_tp_btls.c
//@ defs: -DXG_FN=$FN
//@ enforce: $FN
//@ props: C10
//@ expect: postcondition>=2 canary=2
#include "_c10.h"
void harness(void)
{
    xv_ghost_havoc();
    xv_ssl_havoc();
    xv_btls_havoc();
    xvu_havoc();
    xvg_havoc();
    struct xcm_socket *s; void *context; void *value; size_t capacity;
    int rv = XG_FN(s, context, value, capacity);
    if (rv == 1) XV_CANARY("one byte");
    if (rv == -1 && xv_errno == EOVERFLOW && capacity == 0) XV_CANARY("capacity 0");
}
