//@ tu: libxcm/tp/tls/xcm_tp_btls.c
//@ enforce: get_peer_subject_cn
//@ props: C10
//@ expect: postcondition>=4 canary=5
#include "_c10.h"
void harness(void)
{
    xv_ghost_havoc();
    xv_ssl_havoc();
    xv_btls_havoc();
    xvu_havoc();
    xvg_havoc();
    struct xcm_socket *s; void *context; void *value; size_t capacity;
    int rv = get_peer_subject_cn(s, context, value, capacity);
    if (rv > 0 && (size_t)rv == capacity) XV_CANARY("exact fit");
    if (rv == -1 && xv_errno == EOVERFLOW && xvg_len == capacity) XV_CANARY("one byte short");
    if (rv == -1 && xv_errno == EOVERFLOW && capacity == 0) XV_CANARY("capacity 0");
    if (rv == -1 && xv_errno == ENOENT) XV_CANARY("no certificate or no CN");
    if (rv == 0) XV_CANARY("not established");
}
