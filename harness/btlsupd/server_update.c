//@ tu: libxcm/tp/tls/xcm_tp_btls.c
//@ enforce: server_update
//@ props: C04 C16
//@ expect: postcondition>=1 canary=2
#include "_unit.h"
void harness(void)
{
    xv_ghost_havoc();
    xv_ssl_havoc();
    xv_btls_havoc();
    xvu_havoc();
    struct xcm_socket *s;
    long u0 = xvu.low_updates;
    server_update(s);
    if (xvu.low_updates == u0 + 1 && xvu.low_upd_cond == XCM_SO_ACCEPTABLE) XV_CANARY("ACCEPTABLE awaited: handed down");
    if (xvu.low_updates == u0 + 1 && xvu.low_upd_cond == 0) XV_CANARY("nothing awaited: sub-socket told so");
}
