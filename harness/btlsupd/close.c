//@ tu: libxcm/tp/tls/xcm_tp_btls.c
//@ enforce: btls_close
//@ props: C08 C18
//@ expect: postcondition>=7 canary=6
/* btls_close with the REAL deinit/conn_deinit inlined; every callee is a model (env/btlsupd_env.h, env/ssl_env.h, contracts/btls.h) */
#include "_unit.h"
void harness(void)
{
    xv_ghost_havoc();
    xv_ssl_havoc();
    xv_btls_havoc();
    xv_conf_havoc();
    xv_other_havoc();
    xvu_havoc();
    xv_sel = nondet_int();
    struct xcm_socket *s;
    long c0 = xvu.low_closes, d0 = xvu.low_destroys, f0 = xv_ssl_free_calls, b0 = xvu.bell_dels, h0 = xvu.shutdowns, r0 = xv_ctx_refs, n0 = xv_slist_destroy_calls, i0 = xv_it_w_deinits;
    btls_close(s);
    if (xvu.low_closes == c0 + 1 && xvu.low_destroys == d0 + 1 && xv_ssl_free_calls == f0 + 1 && xvu.bell_dels == b0 + 1 && xvu.shutdowns == h0 + 1) XV_CANARY("ready connection: close_notify, close, free, bell deleted");
    if (xvu.low_closes == c0 + 1 && xv_ssl_free_calls == f0 + 1 && xvu.shutdowns == h0) XV_CANARY("connection that is not ready: no close_notify");
    if (xvu.low_closes == c0 + 1 && xv_ssl_free_calls == f0 && xvu.bell_dels == b0) XV_CANARY("server socket");
    if (xvu.low_closes == c0 + 1 && xv_ctx_refs == r0 - 1) XV_CANARY("context reference given back");
    if (xvu.low_closes == c0 + 1 && xv_ctx_refs == r0 && xv_slist_destroy_calls == n0 + 1 && xv_it_w_deinits == i0 + 1) XV_CANARY("no context held; names and a credential released");
    if (xvu.low_closes == c0 && xvu.low_destroys == d0) XV_CANARY("NULL");
}
