//@ tu: libxcm/tp/tls/xcm_tp_btls.c
//@ enforce: btls_cleanup
//@ props: C08 C18
//@ expect: postcondition>=6 canary=4
/* btls_cleanup (xcm_cleanup in a forked child) with the REAL deinit/conn_deinit inlined */
#include "_unit.h"
void harness(void)
{
    xv_ghost_havoc();
    xv_ssl_havoc();
    xv_btls_havoc();
    xv_conf_havoc();
    xv_other_havoc();
    xvu_havoc();
    xv_sel = nondet_int();
    struct xcm_socket *s;
    long c0 = xvu.low_cleanups, d0 = xvu.low_destroys, f0 = xv_ssl_free_calls, r0 = xv_ctx_refs;
    btls_cleanup(s);
    if (xvu.low_cleanups == c0 + 1 && xvu.low_destroys == d0 + 1 && xv_ssl_free_calls == f0 + 1) XV_CANARY("connection");
    if (xvu.low_cleanups == c0 + 1 && xvu.low_destroys == d0 + 1 && xv_ssl_free_calls == f0) XV_CANARY("server socket");
    if (xvu.low_cleanups == c0 + 1 && xv_ctx_refs == r0 - 1) XV_CANARY("context reference given back");
    if (xvu.low_cleanups == c0 && xvu.low_destroys == d0) XV_CANARY("NULL");
}
