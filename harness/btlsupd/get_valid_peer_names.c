//@ tu: libxcm/tp/tls/xcm_tp_btls.c
//@ enforce: get_valid_peer_names_attr
//@ props: C10
//@ expect: postcondition>=3 canary=3
/* the contract the job of get_peer_names_attr assumes, over this unit's string ghosts (same statement as btls.get_valid_peer_names) */
#include "_c10.h"
void harness(void)
{
    xv_ghost_havoc();
    xv_ssl_havoc();
    xv_btls_havoc();
    xvu_havoc();
    xvg_havoc();
    struct xcm_socket *s; void *value; size_t capacity;
    int rv = get_valid_peer_names_attr(s, value, capacity);
    if (rv > 0 && (size_t)rv == capacity) XV_CANARY("exact fit");
    if (rv == -1 && xv_errno == EOVERFLOW && xvg_len == capacity) XV_CANARY("one byte short");
    if (rv == -1 && xv_errno == ENOENT) XV_CANARY("no names");
}
