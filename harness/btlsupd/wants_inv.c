//@ tu: libxcm/tp/tls/xcm_tp_btls.c
//@ nondfcc: 1
//@ props: C04 C16
//@ safety:
//@ expect: assertion>=3 canary=8
/* LEMMA (plain CBMC, loop-free, no contracts): the representation invariant XU_WANTS_INV that conn_update's contract REQUIRES
 *      ssl_condition in {0,R,S}, ssl_wants in {0,R,S}, ssl_condition != 0 => ssl_wants != 0, handshaking => (ssl_condition == 0 && ssl_wants != 0)
 * is established by the first handshake step (btls_connect/btls_accept set state handshaking and call try_finish_tls_handshake at
 * once) and preserved by every function that writes the two fields: try_finish_tls_handshake, btls_send, btls_receive (with the
 * REAL process_ssl_event, verify_peer_cert inlined) -- for ANY socket content, any result of the OpenSSL model. */
#include "_unit.h"
struct xcm_tp_proto xvw_proto;
void harness(void)
{
    xv_ghost_havoc();
    xv_ssl_havoc();
    xv_btls_havoc();
    xvu_havoc();
    struct xcm_socket *s = malloc(BT_SIZE);
    __CPROVER_assume(s != NULL);
    xvw_proto.ops = &btls_ops;
    s->proto = &xvw_proto;
    uint8_t buf[8]; size_t n = nondet_size_t();
    int op = nondet_int();
    __CPROVER_assume(BT_STATE(s) >= conn_state_tls_handshaking && BT_STATE(s) <= conn_state_closed && BT_BOOLS_OK(s));
    __CPROVER_assume(XV_SSL_GHOST_RANGE && BT_GHOST_RANGE && BT_CNT_RANGE(s));
    /* the OpenSSL model wants SSL_set_verify() before a handshake step (job btls.connect/accept: configured_before_handshake) */
    __CPROVER_assume(xv_ssl_set_verify_calls >= 1 && xv_ssl_set_verify_ssl == BT(s)->conn.ssl);
    enum conn_state st0 = BT_STATE(s);
    if (op == 0) {
        /* right after btls_connect/btls_accept set the state: the two fields hold whatever calloc/inheritance left */
        __CPROVER_assume(st0 == conn_state_tls_handshaking);
        try_finish_tls_handshake(s);
    } else {
        __CPROVER_assume(XU_WANTS_INV(s));
        if (op == 1) try_finish_tls_handshake(s);
        else if (op == 2) { __CPROVER_assume(n <= sizeof(buf)); (void)btls_send(s, buf, n); }
        else { __CPROVER_assume(n <= sizeof(buf)); (void)btls_receive(s, buf, n); }
    }
    XV_ASSERT(XU_WANTS_INV(s), "PO[C04] wants_inv.preserved: (ssl_condition, ssl_wants) stay in the domain of conn_update's table after every function that writes them");
    XV_ASSERT(BT_STATE(s) >= conn_state_tls_handshaking && BT_STATE(s) <= conn_state_closed, "PO[C04] wants_inv.state_domain: the state stays one of handshaking/ready/bad/closed (the domain of conn_update)");
    /* what btls_send / btls_receive leave for the next update when they report EAGAIN on a ready socket */
    XV_ASSERT(!(op == 3 && xv_sr_ret < 0 && BT_STATE(s) == conn_state_ready && st0 == conn_state_ready && n > 0 && xv_ssl_err == SSL_ERROR_WANT_READ) ||
              (XU_SC(s) == XU_R && XU_SW(s) == XU_R), "PO[C16] wants_inv.refused_receive_recorded: a receive refused with WANT_READ leaves (RECEIVABLE, RECEIVABLE)");
    if (op == 0 && BT_STATE(s) == conn_state_tls_handshaking && XU_SW(s) == XU_R) XV_CANARY("first step: handshake wants to read");
    if (op == 0 && BT_STATE(s) == conn_state_tls_handshaking && XU_SW(s) == XU_S) XV_CANARY("first step: handshake wants to write");
    if (op == 1 && BT_STATE(s) == conn_state_ready && st0 == conn_state_tls_handshaking) XV_CANARY("handshake finished: nothing refused");
    if (op == 2 && XU_SC(s) == XU_S && XU_SW(s) == XU_S) XV_CANARY("send refused: backpressure");
    if (op == 2 && XU_SC(s) == XU_S && XU_SW(s) == XU_R) XV_CANARY("send refused: wants read");
    if (op == 3 && XU_SC(s) == XU_R && XU_SW(s) == XU_R) XV_CANARY("receive refused: wants read");
    if (op == 3 && XU_SC(s) == 0 && XU_SW(s) == 0 && BT_STATE(s) == conn_state_ready) XV_CANARY("receive delivered data: nothing refused");
    if (op == 3 && XU_SC(s) == 0 && XU_SW(s) == XU_R && BT_STATE(s) == conn_state_ready) XV_CANARY("spurious EINPROGRESS: wants read, no operation recorded");
}
