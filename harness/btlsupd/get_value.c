//@ variant: cert FN=get_cert_attr
//@ variant: key FN=get_key_attr
//@ variant: tc FN=get_tc_attr
//@ variant: crl FN=get_crl_attr
//@ tu: libxcm/tp/tls/xcm_tp_btls.c
//@ defs: -DXG_FN=$FN
//@ enforce: $FN
//@ props: C10
//@ expect: postcondition>=2 canary=4
/* tls.cert/key/tc/crl (binary) getters with the REAL get_value_attr inlined; xcm_tp_get_bin_attr is the model of env/btlsupd_env.h */
#include "_c10.h"
void harness(void)
{
    xv_ghost_havoc();
    xv_ssl_havoc();
    xv_btls_havoc();
    xvu_havoc();
    xvg_havoc();
    struct xcm_socket *s; void *context; void *value; size_t capacity;
    int rv = XG_FN(s, context, value, capacity);
    if (rv > 0 && (size_t)rv == capacity) XV_CANARY("exact fit");
    if (rv == -1 && xv_errno == EOVERFLOW && xvg_len == capacity + 1) XV_CANARY("one byte short");
    if (rv == 0 && capacity == 0) XV_CANARY("empty value, capacity 0");
    if (rv == -1 && xv_errno == ENOENT) XV_CANARY("not designated by value");
}
