//@ tu: libxcm/tp/tls/xcm_tp_btls.c
//@ enforce: get_san_attr
//@ props: C10
//@ expect: postcondition>=4 canary=6
#include "_c10.h"
void harness(void)
{
    xv_ghost_havoc();
    xv_ssl_havoc();
    xv_btls_havoc();
    xvu_havoc();
    xvg_havoc();
    struct xcm_socket *s; enum cert_san_type san_type; size_t index; void *value; size_t capacity;
    long a0 = xvg.san_calls, d0 = xvg.dir_calls, c0 = xvg.count_calls;
    int rv = get_san_attr(s, san_type, index, value, capacity);
    if (rv > 0 && (size_t)rv == capacity && xvg.san_calls == a0 + 1) XV_CANARY("DNS/e-mail name, exact fit");
    if (rv > 0 && (size_t)rv == capacity && xvg.dir_calls == d0 + 1) XV_CANARY("directory name CN, exact fit");
    if (rv == -1 && xv_errno == EOVERFLOW && xvg_len == capacity) XV_CANARY("one byte short");
    if (rv == -1 && xv_errno == EOVERFLOW && capacity == 0) XV_CANARY("capacity 0");
    if (rv == -1 && xv_errno == ENOENT && xvg.count_calls == c0) XV_CANARY("no certificate");
    if (rv == -1 && xv_errno == ENOENT && xvg.count_calls == c0 + 1 && xvg.san_calls == a0 && xvg.dir_calls == d0) XV_CANARY("index beyond the count");
}
