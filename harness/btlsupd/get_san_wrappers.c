//@ variant: dns FN=get_san_dns_attr
//@ variant: email FN=get_san_email_attr
//@ variant: dir FN=get_san_dir_cn_attr
//@ tu: libxcm/tp/tls/xcm_tp_btls.c
//@ defs: -DXG_FN=$FN
//@ enforce: $FN
//@ replace: get_san_attr
//@ props: C10
//@ expect: postcondition>=3 canary=4
/* the three registered getters: the list index travels in `context`; get_san_attr by its contract */
#include "_c10.h"
void harness(void)
{
    xv_ghost_havoc();
    xv_ssl_havoc();
    xv_btls_havoc();
    xvu_havoc();
    xvg_havoc();
    struct xcm_socket *s; void *context; void *value; size_t capacity;
    int rv = XG_FN(s, context, value, capacity);
    if (rv > 0 && (size_t)rv == capacity) XV_CANARY("exact fit");
    if (rv == -1 && xv_errno == EOVERFLOW && xvg_len == capacity) XV_CANARY("one byte short");
    if (rv == -1 && xv_errno == ENOENT && (size_t)context >= xvg_nsan) XV_CANARY("index beyond the count");
    if (rv == -1 && xv_errno == ENOENT && (size_t)context < xvg_nsan) XV_CANARY("no certificate or no such name");
}
