//@ tu: libxcm/tp/tls/xcm_tp_btls.c
//@ enforce: btls_update
//@ props: C04 C16
//@ expect: postcondition>=5 canary=7
/* btls_update with the REAL conn_update and server_update inlined */
#include "_unit.h"
#define ST(x) (xvu_in_st == (int)conn_state_##x)
void harness(void)
{
    xv_ghost_havoc();
    xv_ssl_havoc();
    xv_btls_havoc();
    xvu_havoc();
    struct xcm_socket *s;
    long u0 = xvu.low_updates, p0 = xvu.pending_calls, b0 = xvu.bell_mods;
    btls_update(s);
    _Bool upd = xvu.low_updates == u0 + 1; int L = xvu.low_upd_cond;
    if (upd && xvu.bell_mods == b0 && L == XCM_SO_ACCEPTABLE) XV_CANARY("server socket, ACCEPTABLE awaited");
    if (upd && xvu.bell_mods == b0 && L == 0) XV_CANARY("server socket, nothing awaited");
    if (upd && xvu.bell_mods == b0 + 1 && !xvu.bell_ringing && L == 0) XV_CANARY("connection, quiet");
    if (!upd && xvu.bell_mods == b0 + 1 && xvu.bell_ringing) XV_CANARY("connection, bell");
    if (upd && xvu.bell_mods == b0 + 1 && L == XU_RS && ST(ready)) XV_CANARY("connection, both directions handed down");
    if (upd && xvu.bell_mods == b0 + 1 && L == XU_R && ST(ready) && xvu_in_c == XU_R && !xvu_has_pending) XV_CANARY("connection, after a refused receive");
    if (upd && xvu.bell_mods == b0 + 1 && L == XU_R && ST(ready) && xvu_in_c == XU_R && xvu_has_pending) XV_CANARY("connection, after a refused receive, part of a record buffered: quiet");
}
