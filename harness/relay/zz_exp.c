//@ variant: d0 DEFS=-DXV_DIR=0
//@ variant: d1 DEFS=-DXV_DIR=1
//@ tu: tools/xcmrelay/xrelay.c
//@ enforce: xfwd_receive
//@ replace: xfwd_handle_term xfwd_handle_err
//@ defs: $DEFS
//@ props: C20
//@ timeout: 300
#include "_unit.h"
void harness(void)
{
    xv_ghost_havoc();
    xv_relay_havoc();
    XV_RELAY_SETUP;
    xfwd_receive(relay);
    if (xv_rcv_ret == 1) XV_CANARY("one byte");
    if (xv_rcv_ret == 65535) XV_CANARY("a maximum-size message");
    if (xv_rcv_ret == -1 && xv_rcv_errno == EAGAIN) XV_CANARY("nothing to receive");
    if (xv_rcv_ret == 0 && xv_terminated && !xv_cb_frees) XV_CANARY("peer closed, callback keeps the relay");
    if (xv_rcv_ret == 0 && xv_terminated && xv_cb_frees) XV_CANARY("peer closed, callback destroys the relay");
    if (xv_rcv_ret == -1 && xv_rcv_errno == ECONNRESET && xv_terminated) XV_CANARY("fatal error");
}
