//@ tu: tools/xcmrelay/xrelay.c
//@ enforce: xfwd_receive
//@ replace: xfwd_handle_term xfwd_handle_err
//@ props: C20
//@ defs: -DXV_EXP_NOHAVOC
//@ timeout: 300
#include "_unit.h"
void harness(void)
{
    xv_ghost_havoc();
    xv_relay_havoc();
    struct xfwd *relay;
    xfwd_receive(relay);
}
