//@ tu: tools/xcmrelay/xrelay.c
//@ enforce: xrelay_fwd_term
//@ props: C20
//@ expect: postcondition>=1 canary=2
#include "_unit.h"
void harness(void)
{
    xv_ghost_havoc();
    xv_relay_havoc();
    XV_XRELAY_SETUP;
    int reason; const char *msg;
    xrelay_fwd_term(reason, msg, xr);
    if (xv_cb_frees && reason == 0) XV_CANARY("user destroys the relay");
    if (!xv_cb_frees && reason == -1) XV_CANARY("user keeps the relay");
}
