/* common part of every relay-unit harness: prelude, the REAL TU tools/xcmrelay/xrelay.c, env, contracts */
#include "prelude.h"
#include "xrelay.c"
#include "env/base.h"
#include "env/relay_env.h"
#include "contracts/relay.h"

#include "_setup.h"
