//@ variant: d0 DEFS=-DXV_DIR=0
//@ variant: d1 DEFS=-DXV_DIR=1
//@ tu: tools/xcmrelay/xrelay.c
//@ defs: $DEFS
//@ enforce: xfwd_active
//@ replace: xfwd_handle_term xfwd_handle_err
//@ props: C20
//@ expect: postcondition>=10 canary=12
#include "_unit.h"
void harness(void)
{
    xv_ghost_havoc();
    xv_relay_havoc();
    XV_RELAY_SETUP;
    int fd; short ev;
    int len0 = relay->data_len;
    xfwd_active(fd, ev, relay);
    int src = fd == xv_legs[XV_DIR].fd;
    if (len0 == 0 && src && xv_rcv_ret == 65535 && !xv_terminated) XV_CANARY("idle, source active: maximum-size message received");
    if (len0 == 0 && src && xv_rcv_ret == -1 && xv_rcv_errno == EAGAIN && !xv_terminated) XV_CANARY("idle, source active: spurious wake-up");
    if (len0 == 0 && src && xv_rcv_ret == 0 && xv_terminated) XV_CANARY("idle, source active: peer closed");
    if (len0 == 0 && !src && xv_fin_ret == 0 && !xv_terminated) XV_CANARY("idle, destination active: finish ok");
    if (len0 == 0 && !src && xv_fin_ret == -1 && xv_fin_errno == EAGAIN && !xv_terminated) XV_CANARY("idle, destination active: finish EAGAIN");
    if (len0 == 0 && !src && xv_fin_ret == -1 && xv_fin_errno == EPIPE && xv_terminated) XV_CANARY("idle, destination active: finish fatal");
    if (len0 > 0 && !src && !xv_bytestream && xv_snd_ret == 0 && !xv_terminated) XV_CANARY("holding, destination active: message forwarded");
    if (len0 > 0 && !src && xv_snd_ret == -1 && xv_snd_errno == EAGAIN && !xv_terminated) XV_CANARY("holding, destination active: back-pressure");
    if (len0 == 65535 && !src && xv_bytestream && xv_snd_ret == 1 && !xv_terminated) XV_CANARY("holding, destination active: one byte of a full buffer accepted");
    if (len0 > 0 && !src && xv_snd_ret == -1 && xv_snd_errno == ECONNRESET && xv_terminated) XV_CANARY("holding, destination active: destination gone");
    if (len0 > 0 && src && xv_fin_ret == 0 && !xv_terminated) XV_CANARY("holding, source active: finish ok");
    if (len0 > 0 && src && xv_fin_ret == -1 && xv_fin_errno == ETIMEDOUT && xv_terminated) XV_CANARY("holding, source active: finish fatal");
}
