//@ tu: tools/xcmrelay/xrelay.c tools/xcmrelay/rserver.c
//@ enforce: rserver_start
//@ props: C20
//@ expect: postcondition>=2 canary=2
#include "_rserver.h"
void harness(void)
{
    xv_ghost_havoc();
    xv_relay_havoc();
    XV_RSERVER_SETUP;
    int r0 = sv->running;
    int rv = rserver_start(sv);
    if (rv == 0 && !r0) XV_CANARY("started");
    if (rv == 0 && r0) XV_CANARY("was running");
}
