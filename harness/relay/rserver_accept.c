//@ tu: tools/xcmrelay/xrelay.c tools/xcmrelay/rserver.c
//@ enforce: rserver_accept
//@ replace: xrelay_create xrelay_start xrelay_destroy rserver_num_relays
//@ pre-unwind: strcmp.0:12
//@ props: C20
//@ expect: postcondition>=4 canary=8
#include "_rserver.h"
void harness(void)
{
    xv_ghost_havoc();
    xv_relay_havoc();
    XV_RSERVER_SETUP;
    int fd; short ev;
    int c0 = xv_close_calls;
    xfwd_err_cb keep = xrelay_fwd_term;   /* address taken in xrelay_create(), which is replaced by its contract here */
    rserver_accept(fd, ev, sv);
    int ins = sv->relays.lh_first != head;
    if (ins && head == NULL) XV_CANARY("first relay created, started and inserted");
    if (ins && head != NULL && xv_legs[0].bytestream) XV_CANARY("another byte-stream relay inserted in front of the list");
    if (!ins && !xv_legs[0].exists && xv_accept_calls > 0 && xv_fin_calls >= 0 && xv_connect_calls == 0) XV_CANARY("nothing to accept");
    if (!ins && xv_legs[0].exists && !xv_legs[1].exists && xv_close_calls == c0 + 1) XV_CANARY("outbound connection failed: accepted connection closed");
    if (!ins && xv_legs[0].exists && xv_legs[1].exists && xv_legs[0].bytestream != xv_legs[1].bytestream && xv_fatal_calls > 0) XV_CANARY("service types differ: fatal");
    if (!ins && xv_legs[0].exists && xv_legs[1].exists && xv_legs[0].bytestream == xv_legs[1].bytestream && xv_fatal_calls > 0) XV_CANARY("service type unreadable: fatal");
    if (!ins && xv_legs[0].exists && xv_legs[1].exists && xv_legs[0].bytestream == xv_legs[1].bytestream && xv_legs[0].closed && xv_sb_calls > 0) XV_CANARY("relay could not be started: destroyed");
    if (!ins && !xv_legs[0].exists && xv_fin_conn == XV_CONN(XV_SRV) && xv_connect_calls == 0 && xv_fin_ret == 0) XV_CANARY("at the limit: listening socket finished, nothing accepted");
}
