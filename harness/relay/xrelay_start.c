//@ tu: tools/xcmrelay/xrelay.c
//@ enforce: xrelay_start
//@ props: C20
//@ expect: postcondition>=5 canary=5
#include "_unit.h"
void harness(void)
{
    xv_ghost_havoc();
    xv_relay_havoc();
    XV_XRELAY_SETUP;
    int r0 = xr->fwd0.running, r1 = xr->fwd1.running, l0 = xr->fwd0.data_len, l1 = xr->fwd1.data_len;
    int rv = xrelay_start(xr);
    if (rv == 0 && !r0 && !r1 && l0 == 0 && l1 == 0 && xv_legs[0].cond == XCM_SO_RECEIVABLE && xv_legs[1].cond == XCM_SO_RECEIVABLE) XV_CANARY("fresh relay started: both legs await input");
    if (rv == 0 && !r0 && !r1 && l0 > 0 && l1 > 0 && xv_legs[0].cond == XCM_SO_SENDABLE) XV_CANARY("restarted with both directions holding a message");
    if (rv == 0 && r0 && !r1) XV_CANARY("one direction was running already");
    if (rv == -1 && !r0 && !r1) XV_CANARY("a leg cannot be made non-blocking");
    if (rv == 0 && xv_ev_add_failed) XV_CANARY("event_add failed");
}
