//@ tu: tools/xcmrelay/xrelay.c
//@ enforce: xrelay_destroy
//@ props: C20
//@ expect: postcondition>=2 canary=4
#include "_unit.h"
void harness(void)
{
    xv_ghost_havoc();
    xv_relay_havoc();
    XV_XRELAY_SETUP;
    int r0 = xr->fwd0.running, r1 = xr->fwd1.running, p = xv_legs[0].pending_out || xv_legs[1].pending_out;
    struct xrelay *arg = nondet_bool() ? xr : NULL;
    xrelay_destroy(arg);
    if (arg != NULL && r0 && r1) XV_CANARY("running relay destroyed");
    if (arg != NULL && !r0 && !r1) XV_CANARY("stopped relay destroyed");
    if (arg == NULL) XV_CANARY("NULL");
    if (arg != NULL && p) XV_CANARY("destroyed with unflushed output");
}
