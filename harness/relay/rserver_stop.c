//@ tu: tools/xcmrelay/xrelay.c tools/xcmrelay/rserver.c
//@ enforce: rserver_stop
//@ props: C20
//@ expect: postcondition>=1 canary=2
#include "_rserver.h"
void harness(void)
{
    xv_ghost_havoc();
    xv_relay_havoc();
    XV_RSERVER_SETUP;
    int r0 = sv->running;
    rserver_stop(sv);
    if (r0) XV_CANARY("stopped");
    if (!r0) XV_CANARY("was not running");
}
