//@ variant: d0 DEFS=-DXV_DIR=0
//@ variant: d1 DEFS=-DXV_DIR=1
//@ tu: tools/xcmrelay/xrelay.c
//@ defs: $DEFS
//@ enforce: xfwd_start
//@ props: C20
//@ expect: postcondition>=6 canary=6
#include "_unit.h"
void harness(void)
{
    xv_ghost_havoc();
    xv_relay_havoc();
    XV_RELAY_SETUP;
    int run0 = relay->running, len0 = relay->data_len, b0 = xv_legs[0].blocking, b1 = xv_legs[1].blocking;
    int rv = xfwd_start(relay);
    if (rv == 0 && !run0 && len0 == 0 && b0 && b1) XV_CANARY("started idle, both legs were blocking");
    if (rv == 0 && !run0 && len0 > 0) XV_CANARY("started while holding a message");
    if (rv == 0 && run0) XV_CANARY("already running");
    if (rv == -1 && xv_sb_calls > 0 && b0 && xv_legs[XV_DIR].blocking) XV_CANARY("source leg cannot be made non-blocking");
    if (rv == -1 && !xv_legs[XV_DIR].blocking && xv_legs[1 - XV_DIR].blocking) XV_CANARY("destination leg cannot be made non-blocking");
    if (rv == 0 && !run0 && xv_ev_add_failed) XV_CANARY("event_add failed");
}
