//@ tu: tools/xcmrelay/xrelay.c
//@ enforce: xrelay_stop
//@ props: C20
//@ expect: postcondition>=1 canary=3
#include "_unit.h"
void harness(void)
{
    xv_ghost_havoc();
    xv_relay_havoc();
    XV_XRELAY_SETUP;
    int r0 = xr->fwd0.running, r1 = xr->fwd1.running;
    xrelay_stop(xr);
    if (r0 && r1 && xv_legs[0].cond == 0 && xv_legs[1].cond == 0) XV_CANARY("both directions stopped");
    if (r0 && !r1) XV_CANARY("only direction 0 was running");
    if (!r0 && !r1) XV_CANARY("nothing was running");
}
