//@ variant: d0 DEFS=-DXV_DIR=0
//@ variant: d1 DEFS=-DXV_DIR=1
//@ tu: tools/xcmrelay/xrelay.c
//@ defs: $DEFS
//@ enforce: xfwd_send
//@ replace: xfwd_handle_term xfwd_handle_err
//@ props: C20
//@ expect: postcondition>=6 canary=8
#include "_unit.h"
void harness(void)
{
    xv_ghost_havoc();
    xv_relay_havoc();
    XV_RELAY_SETUP;
    xfwd_send(relay);
    if (!xv_bytestream && xv_snd_ret == 0 && xv_snd_len == 65535) XV_CANARY("maximum-size message accepted");
    if (!xv_bytestream && xv_snd_ret == 0 && xv_snd_len == 1) XV_CANARY("one-byte message accepted");
    if (xv_snd_ret == -1 && xv_snd_errno == EAGAIN && !xv_terminated) XV_CANARY("back-pressure");
    if (xv_bytestream && xv_snd_ret > 0 && (size_t)xv_snd_ret == xv_snd_len) XV_CANARY("all bytes accepted");
    if (xv_bytestream && xv_snd_ret == 1 && xv_snd_len == 65535) XV_CANARY("one byte of many accepted");
    if (xv_bytestream && xv_snd_ret == 65534 && xv_snd_len == 65535) XV_CANARY("all but one byte accepted");
    if (xv_snd_ret == -1 && xv_snd_errno == EPIPE && xv_terminated && xv_fcb_reason == 0) XV_CANARY("destination gone");
    if (xv_snd_ret == -1 && xv_snd_errno == EMSGSIZE && xv_terminated && xv_fcb_reason == -1) XV_CANARY("fatal error");
}
