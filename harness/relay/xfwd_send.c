//@ tu: tools/xcmrelay/xrelay.c
//@ enforce: xfwd_send
//@ props: C20
//@ expect: postcondition>=6 canary=8
#include "_unit.h"
void harness(void)
{
    xv_ghost_havoc();
    xv_relay_havoc();
    struct xfwd *relay;
    xfwd_send(relay);
    if (!xv_bytestream && xv_snd_ret == 0 && xv_snd_len == 65535) XV_CANARY("maximum-size message accepted");
    if (!xv_bytestream && xv_snd_ret == 0 && xv_snd_len == 1) XV_CANARY("one-byte message accepted");
    if (xv_snd_ret == -1 && xv_snd_errno == EAGAIN) XV_CANARY("back-pressure");
    if (xv_bytestream && xv_snd_ret > 0 && (size_t)xv_snd_ret == xv_snd_len) XV_CANARY("all bytes accepted");
    if (xv_bytestream && xv_snd_ret == 1 && xv_snd_len == 65535) XV_CANARY("one byte of many accepted");
    if (xv_snd_ret == -1 && xv_snd_errno == EPIPE && xv_terminated && xv_cb_frees) XV_CANARY("destination gone, callback destroys the relay");
    if (xv_snd_ret == -1 && xv_snd_errno == EMSGSIZE && xv_terminated) XV_CANARY("fatal error");
    if (xv_src == 1 && xv_snd_ret == 0) XV_CANARY("direction 1");
}
