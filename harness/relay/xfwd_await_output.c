//@ tu: tools/xcmrelay/xrelay.c
//@ enforce: xfwd_await_output
//@ props: C20
//@ expect: postcondition>=3 canary=2
#include "_unit.h"
void harness(void)
{
    xv_ghost_havoc();
    xv_relay_havoc();
    struct xfwd *relay;
    int c0 = xv_legs[0].cond, c1 = xv_legs[1].cond;
    xfwd_await_output(relay);
    if (xv_src == 0 && c0 == XCM_SO_RECEIVABLE && c1 == XCM_SO_RECEIVABLE && xv_legs[0].cond == 0 && xv_legs[1].cond == (XCM_SO_SENDABLE | XCM_SO_RECEIVABLE))
        XV_CANARY("direction 0: switched from input to output, other direction's bits untouched");
    if (xv_src == 1 && c0 == XCM_SO_RECEIVABLE && xv_legs[0].cond == (XCM_SO_SENDABLE | XCM_SO_RECEIVABLE)) XV_CANARY("direction 1");
}
