//@ variant: d0 DEFS=-DXV_DIR=0
//@ variant: d1 DEFS=-DXV_DIR=1
//@ tu: tools/xcmrelay/xrelay.c
//@ defs: $DEFS
//@ enforce: xfwd_await_output
//@ props: C20
//@ expect: postcondition>=3 canary=2
#include "_unit.h"
void harness(void)
{
    xv_ghost_havoc();
    xv_relay_havoc();
    XV_RELAY_SETUP;
    int c0 = xv_legs[0].cond, c1 = xv_legs[1].cond;
    xfwd_await_output(relay);
    if (c0 == XCM_SO_RECEIVABLE && c1 == XCM_SO_RECEIVABLE) XV_CANARY("switched from input to output while the other direction awaits input");
    if (xv_legs[0].cond == XCM_SO_SENDABLE && xv_legs[1].cond == XCM_SO_SENDABLE) XV_CANARY("both directions under back-pressure afterwards");
}
