//@ variant: d0 DEFS=-DXV_DIR=0
//@ variant: d1 DEFS=-DXV_DIR=1
//@ tu: tools/xcmrelay/xrelay.c
//@ defs: $DEFS
//@ enforce-rec: xfwd_handle_term
//@ replace: xfwd_receive xfwd_send xfwd_handle_err
//@ props: C20
//@ expect: postcondition>=1 canary=2
#include "_unit.h"
void harness(void)
{
    xv_ghost_havoc();
    xv_relay_havoc();
    XV_RELAY_SETUP;
    xfwd_handle_term(relay);
    if (xv_cb_frees) XV_CANARY("callback destroys the relay");
    if (!xv_cb_frees) XV_CANARY("callback keeps the relay");
}
