/* object set-up shared by the xrelay and rserver harnesses */
/* The object graph xrelay_create() builds (proved by job relay.xrelay_create): one malloc'ed struct xrelay; the xfwd under
 * proof is its fwd0 (XV_DIR 0: source leg 0) or fwd1 (XV_DIR 1: source leg 1, the same two condition words crosswise).
 * Content is whatever malloc left there (ARBITRARY); only the pointer wiring is set, as xrelay_create() sets it.  At xfwd level the termination
 * callback is the environment's (xv_fwd_cb; the real one, xrelay_fwd_term, has its own job) and its cookie is the xrelay,
 * which the callback may free. */
#ifndef XV_DIR
#define XV_DIR 0
#endif
#define XV_RELAY_SETUP \
    struct xrelay *xr = malloc(sizeof(struct xrelay)); \
    __CPROVER_assume(xr != NULL); \
    struct xfwd *relay = XV_DIR == 0 ? &xr->fwd0 : &xr->fwd1; \
    xv_hold_buf = relay->data; \
    xv_src = XV_DIR; \
    /* pointer members are ASSIGNED (CBMC does not follow pointers that are merely assumed equal to an address) */ \
    relay->src_conn = XV_CONN(XV_DIR); relay->dst_conn = XV_CONN(1 - XV_DIR); \
    relay->src_condition = XV_DIR == 0 ? &xr->cond0 : &xr->cond1; \
    relay->dst_condition = XV_DIR == 0 ? &xr->cond1 : &xr->cond0; \
    relay->err_cb = xv_fwd_cb; relay->err_cb_data = xr

/* relay-level jobs: both directions wired the way xrelay_create() does it; the user's callback is the environment's */
#define XV_XRELAY_SETUP \
    struct xrelay *xr = malloc(sizeof(struct xrelay)); \
    __CPROVER_assume(xr != NULL); \
    xr->fwd0.src_conn = XV_CONN(0); xr->fwd0.dst_conn = XV_CONN(1); xr->fwd1.src_conn = XV_CONN(1); xr->fwd1.dst_conn = XV_CONN(0); \
    xr->fwd0.src_condition = &xr->cond0; xr->fwd0.dst_condition = &xr->cond1; \
    xr->fwd1.src_condition = &xr->cond1; xr->fwd1.dst_condition = &xr->cond0; \
    xr->fwd0.err_cb = xrelay_fwd_term; xr->fwd0.err_cb_data = xr; xr->fwd1.err_cb = xrelay_fwd_term; xr->fwd1.err_cb_data = xr; \
    xr->err_cb = xv_relay_cb
