//@ tu: tools/xcmrelay/xrelay.c
//@ enforce: xrelay_create
//@ props: C20
//@ expect: postcondition>=2 canary=1
#include "_unit.h"
void harness(void)
{
    xv_ghost_havoc();
    xv_relay_havoc();
    struct xcm_socket *c0, *c1; xrelay_err_cb cb; void *data; struct event_base *base;
    struct xrelay *r = xrelay_create(c0, c1, cb, data, base);
    if (r != NULL) XV_CANARY("created");
}
