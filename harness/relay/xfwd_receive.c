//@ tu: tools/xcmrelay/xrelay.c
//@ enforce: xfwd_receive
//@ props: C20
//@ expect: postcondition>=6 canary=7
#include "_unit.h"
void harness(void)
{
    xv_ghost_havoc();
    xv_relay_havoc();
    struct xfwd *relay;
    xfwd_receive(relay);
    if (xv_rcv_ret == 1) XV_CANARY("one byte");
    if (xv_rcv_ret == 65535) XV_CANARY("a maximum-size message");
    if (xv_rcv_ret == -1 && xv_rcv_errno == EAGAIN) XV_CANARY("nothing to receive");
    if (xv_rcv_ret == 0 && xv_terminated && !xv_cb_frees) XV_CANARY("peer closed, callback keeps the relay");
    if (xv_rcv_ret == 0 && xv_terminated && xv_cb_frees) XV_CANARY("peer closed, callback destroys the relay");
    if (xv_rcv_ret == -1 && xv_rcv_errno == ECONNRESET && xv_terminated) XV_CANARY("fatal error");
    if (xv_src == 1 && xv_rcv_ret > 0) XV_CANARY("direction 1");
}
