//@ variant: d0 DEFS=-DXV_DIR=0
//@ variant: d1 DEFS=-DXV_DIR=1
//@ tu: tools/xcmrelay/xrelay.c
//@ defs: $DEFS
//@ enforce: xfwd_receive
//@ replace: xfwd_handle_term xfwd_handle_err
//@ props: C20
//@ expect: postcondition>=6 canary=6
#include "_unit.h"
void harness(void)
{
    xv_ghost_havoc();
    xv_relay_havoc();
    XV_RELAY_SETUP;
    xfwd_receive(relay);
    if (xv_rcv_ret == 1) XV_CANARY("one byte");
    if (xv_rcv_ret == 65535) XV_CANARY("a maximum-size message");
    if (xv_rcv_ret == -1 && xv_rcv_errno == EAGAIN && !xv_terminated) XV_CANARY("nothing to receive");
    if (xv_rcv_ret == 0 && xv_terminated && xv_fcb_reason == 0) XV_CANARY("peer closed");
    if (xv_rcv_ret == -1 && xv_rcv_errno == ECONNRESET && xv_terminated && xv_fcb_reason == -1) XV_CANARY("fatal error");
    if (xv_rcv_ret > 0 && xv_legs[XV_DIR].cond == XCM_SO_SENDABLE && xv_legs[1 - XV_DIR].cond == (XCM_SO_SENDABLE | XCM_SO_RECEIVABLE)) XV_CANARY("both legs carry interest of both directions");
}
