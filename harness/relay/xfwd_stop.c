//@ variant: d0 DEFS=-DXV_DIR=0
//@ variant: d1 DEFS=-DXV_DIR=1
//@ tu: tools/xcmrelay/xrelay.c
//@ defs: $DEFS
//@ enforce: xfwd_stop
//@ props: C20
//@ expect: postcondition>=2 canary=3
#include "_unit.h"
void harness(void)
{
    xv_ghost_havoc();
    xv_relay_havoc();
    XV_RELAY_SETUP;
    int run0 = relay->running, len0 = relay->data_len;
    xfwd_stop(relay);
    if (run0 && len0 == 0) XV_CANARY("stopped while idle");
    if (run0 && len0 > 0) XV_CANARY("stopped while holding a message");
    if (!run0) XV_CANARY("was not running");
}
