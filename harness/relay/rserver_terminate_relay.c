//@ tu: tools/xcmrelay/xrelay.c tools/xcmrelay/rserver.c
//@ enforce: rserver_terminate_relay
//@ replace: xrelay_stop xrelay_destroy rserver_num_relays
//@ defs: -DXV_RS_TERMINATE_JOB
//@ props: C20
//@ expect: postcondition>=2 canary=4
#include "_rserver.h"
void harness(void)
{
    xv_ghost_havoc();
    xv_relay_havoc();
    XV_RSERVER_SETUP;
    /* the terminating relay: first in the list (head == NULL above) or right behind the first one */
    XV_XRELAY_SETUP;
    struct xrelay *next = NULL;
    if (nondet_bool()) { next = malloc(sizeof(struct xrelay)); __CPROVER_assume(next != NULL); next->entry.le_prev = &xr->entry.le_next; }
    xr->entry.le_next = next;
    if (head == NULL) { sv->relays.lh_first = xr; xr->entry.le_prev = &sv->relays.lh_first; }
    else { head->entry.le_next = xr; xr->entry.le_prev = &head->entry.le_next; }
    int reason; const char *msg;
    xv_rs_term = xr; xv_rs_others = nondet_size_t(); __CPROVER_assume(xv_rs_others < 100000);
    rserver_terminate_relay(xr, reason, msg, sv);
    if (xv_rs_others + 1 == MAX_RELAYS) XV_CANARY("relay was full: accepts again");
    if (head == NULL && next == NULL && sv->relays.lh_first == NULL) XV_CANARY("only relay terminated: list empty");
    if (head != NULL && next != NULL && head->entry.le_next == next) XV_CANARY("middle relay terminated: neighbours linked");
    if (head == NULL && next != NULL && sv->relays.lh_first == next) XV_CANARY("first relay terminated");
}
