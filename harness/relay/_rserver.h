/* common part of the rserver harnesses: prelude, the REAL TUs tools/xcmrelay/xrelay.c + rserver.c, env, contracts */
#include "prelude.h"
#define XV_RSERVER 1
/* fprintf is variadic (DFCC cannot pass its write set through a variadic call): diagnostics only, arguments not evaluated */
#undef fprintf
#define fprintf(...) xv_fprintf()
int xv_fprintf(void);
#include "xrelay.c"
#include "rserver.c"
#include "env/base.h"
#include "env/relay_env.h"
#include "contracts/relay.h"
#include "_setup.h"

/* a server with its listening socket; the list of live relays is empty or starts with one valid relay (whose successors are
 * not looked at by the functions under proof) */
#define XV_RSERVER_SETUP \
    struct rserver *sv = malloc(sizeof(struct rserver)); \
    __CPROVER_assume(sv != NULL); \
    xv_srv_present = 1; \
    sv->server_socket = XV_CONN(XV_SRV); \
    sv->fatal_cb = nondet_bool() ? xv_fatal_cb : NULL; \
    struct xrelay *head = NULL; \
    if (nondet_bool()) { head = malloc(sizeof(struct xrelay)); __CPROVER_assume(head != NULL); head->entry.le_prev = &sv->relays.lh_first; } \
    sv->relays.lh_first = head
