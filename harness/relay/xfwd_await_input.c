//@ variant: d0 DEFS=-DXV_DIR=0
//@ variant: d1 DEFS=-DXV_DIR=1
//@ tu: tools/xcmrelay/xrelay.c
//@ defs: $DEFS
//@ enforce: xfwd_await_input
//@ props: C20
//@ expect: postcondition>=3 canary=2
#include "_unit.h"
void harness(void)
{
    xv_ghost_havoc();
    xv_relay_havoc();
    XV_RELAY_SETUP;
    int c0 = xv_legs[0].cond, c1 = xv_legs[1].cond;
    xfwd_await_input(relay);
    /* the leg this direction receives from already awaits SENDABLE for the other direction: that bit must survive */
    if (c0 == (XV_DIR == 0 ? XCM_SO_SENDABLE : XCM_SO_SENDABLE | XCM_SO_RECEIVABLE) && c1 == (XV_DIR == 0 ? XCM_SO_SENDABLE | XCM_SO_RECEIVABLE : XCM_SO_SENDABLE))
        XV_CANARY("switched from output to input while the other direction awaits output on the source leg");
    if (xv_legs[0].cond == XCM_SO_RECEIVABLE && xv_legs[1].cond == XCM_SO_RECEIVABLE) XV_CANARY("both directions idle afterwards");
}
