//@ variant: main DEFS=-DXB_CAP_MAX=(1UL<<17)
//@ variant: huge DEFS=-DXB_CAP_MIN=(1UL<<17)_-DXB_RECV_TRACKED_BYTE_ONLY_-DXB_HUGE
//@ variant: cap0 DEFS=-DXB_CAP0
//@ tu: libxcm/tp/tcp/xcm_tp_btcp.c
//@ defs: $DEFS
//@ enforce: btcp_receive
//@ replace: try_establish
//@ props: C02 C06 C17 C05 C08
//@ expect: postcondition>=12 canary>=3
#include "_unit.h"
void harness(void)
{
    xv_ghost_havoc(); xb_env_havoc(); xv_sockopt_havoc(); xb_ghost_havoc();
    struct xcm_socket *s; void *buf; size_t capacity;
    long c = xb_recv_calls;
    int rv = btcp_receive(s, buf, capacity);
#ifdef XB_CAP0
    if (rv == 0 && !xv_rx_eof) XV_CANARY("0 bytes asked for, 0 returned, no end of stream seen");
    if (rv == -1 && xv_errno == EAGAIN) XV_CANARY("EAGAIN");
    if (rv == 0 && xv_rx_eof && xb_recv_calls == c) XV_CANARY("closed: 0");
#else
#ifdef XB_HUGE
    if (rv == 1) XV_CANARY("one byte");
    if (rv == 0x7ffff000 && capacity == 0x7ffff000) XV_CANARY("kernel maximum fills the buffer");
    if (rv == 0x7ffff000 && capacity > 0x100000000UL) XV_CANARY("kernel maximum into a > 4 GiB buffer");
#else
    if (rv == 1 && capacity == 1) XV_CANARY("one byte");
    if (rv > 1 && (size_t)rv < capacity) XV_CANARY("short read");
    if (rv > 1 && (size_t)rv == capacity) XV_CANARY("buffer filled");
#endif
    if (rv == 0 && xb_recv_calls == c + 1) XV_CANARY("end of stream seen in this call");
    if (rv == 0 && xb_recv_calls == c) XV_CANARY("closed: 0 again");
    if (rv == -1 && xv_errno == EAGAIN && xb_recv_calls == c + 1) XV_CANARY("kernel says EAGAIN");
    if (rv == -1 && xv_errno == EAGAIN && xb_recv_calls == c) XV_CANARY("not yet established");
    if (rv == -1 && xv_errno == ETIMEDOUT && xb_recv_calls == c + 1) XV_CANARY("connection breaks in this call");
    if (rv == -1 && xv_errno == ETIMEDOUT && xb_recv_calls == c) XV_CANARY("bad: stored errno");
#endif
}
