//@ tu: libxcm/tp/tcp/xcm_tp_btcp.c libxcm/tp/common/dns_attr.c
//@ defs: -DXB_DNS_ATTR
//@ enforce: set_dns_algorithm_attr
//@ replace: tconnect_algorithm_enum
//@ props: C11
//@ expect: postcondition>=4 canary=3
#include "_unit.h"
void harness(void)
{
    xv_ghost_havoc(); xb_env_havoc(); xv_sockopt_havoc(); xb_ghost_havoc();
    struct xcm_socket *s; void *context; const void *value; size_t len;
    int rv = set_dns_algorithm_attr(s, context, value, len);
    if (rv == 0) XV_CANARY("accepted");
    if (rv == -1 && xv_errno == EACCES) XV_CANARY("refused: too late");
    if (rv == -1 && xv_errno == EINVAL) XV_CANARY("refused: bad value");
}
