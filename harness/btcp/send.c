//@ tu: libxcm/tp/tcp/xcm_tp_btcp.c
//@ enforce: btcp_send
//@ replace: try_establish
//@ props: C02 C06 C17 C05 C08
//@ expect: postcondition>=12 canary=9
#include "_unit.h"
void harness(void)
{
    xv_ghost_havoc(); xb_env_havoc(); xv_sockopt_havoc(); xb_ghost_havoc();
    struct xcm_socket *s; const void *buf; size_t len;
    long c = xb_send_calls;
    int rv = btcp_send(s, buf, len);
    if (rv == 1 && len == 1) XV_CANARY("one byte accepted");
    if (rv > 1 && (size_t)rv < len) XV_CANARY("partial acceptance");
    if (rv == 0x7ffff000 && len > 0x80000000UL) XV_CANARY("kernel maximum accepted of a > 2 GiB buffer");
    if (rv == 0 && len == 0) XV_CANARY("len 0");
    if (rv == -1 && xv_errno == EAGAIN && xb_send_calls == c + 1) XV_CANARY("kernel says EAGAIN");
    if (rv == -1 && xv_errno == EAGAIN && xb_send_calls == c) XV_CANARY("not yet established");
    if (rv == -1 && xv_errno == ECONNRESET && xb_send_calls == c + 1) XV_CANARY("connection breaks in this call");
    if (rv == -1 && xv_errno == ECONNRESET && xb_send_calls == c) XV_CANARY("bad: stored errno");
    if (rv == -1 && xv_errno == EPIPE && xb_send_calls == c) XV_CANARY("closed: EPIPE");
}
