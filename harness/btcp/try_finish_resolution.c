//@ tu: libxcm/tp/tcp/xcm_tp_btcp.c
//@ enforce: try_finish_resolution
//@ replace: xcm_dns_query_result begin_connect xcm_dns_query_destroy
//@ props: C13 C06 C08 C05
//@ expect: postcondition>=5 canary=3
#include "_unit.h"
void harness(void)
{
    xv_ghost_havoc(); xb_env_havoc(); xv_sockopt_havoc(); xb_ghost_havoc();
    struct xcm_socket *s;
    try_finish_resolution(s);
    if (xb_q_rc == -1 && xb_q_errno == EAGAIN) XV_CANARY("still resolving");
    if (xb_q_rc == -1 && xb_q_errno == ENOENT && xv_lower_dead) XV_CANARY("resolution failed: bad");
    if (xb_q_rc == 32 && !xv_lower_dead) XV_CANARY("32 addresses, connecting");
}
