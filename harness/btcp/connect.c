//@ tu: libxcm/tp/tcp/xcm_tp_btcp.c
//@ enforce: btcp_connect
//@ replace: xcm_addr_parse_btcp tconnect_create xcm_dns_resolve begin_connect try_establish xpoll_fd_reg_del_if_valid xpoll_bell_reg_del xcm_dns_query_destroy tconnect_destroy
//@ props: C13 C06 C08 C05
//@ flags: --object-bits 10
//@ expect: postcondition>=5 canary=5
#include "_unit.h"
void harness(void)
{
    xv_ghost_havoc(); xb_env_havoc(); xv_sockopt_havoc(); xb_ghost_havoc();
    struct xcm_socket *s; const char *remote_addr;
    long d = xb_tc_destroys, q = xb_q_destroys, p = xb_q_processes;
    int rv = btcp_connect(s, remote_addr);
    if (rv == 0 && xb_q_processes == p + 1) XV_CANARY("name: resolving started");
    if (rv == 0 && xb_q_processes == p) XV_CANARY("IP address: connecting started");
    if (rv == -1 && xv_errno == EINVAL && xb_tc_destroys == d) XV_CANARY("malformed address");
    if (rv == -1 && xb_tc_destroys == d + 1 && xb_q_destroys == q) XV_CANARY("failed after the attempt object was made");
    if (rv == -1 && xb_tc_destroys == d + 1 && xb_q_destroys == q + 1) XV_CANARY("failed with a resolver query");
}
