//@ tu: libxcm/tp/tcp/xcm_tp_btcp.c
//@ enforce: try_establish
//@ replace: xcm_dns_query_process try_finish_resolution try_finish_connect
//@ props: C13 C06 C11 C05
//@ expect: postcondition>=5 canary=4
#include "_unit.h"
void harness(void)
{
    xv_ghost_havoc(); xb_env_havoc(); xv_sockopt_havoc(); xb_ghost_havoc();
    struct xcm_socket *s;
    long p = xb_q_processes, g = xb_tc_calls, q = xb_q_destroys;
    try_establish(s);
    if (xb_q_processes == p && xb_tc_calls == g) XV_CANARY("nothing to establish");
    if (xb_q_processes == p + 1 && xb_q_destroys == q) XV_CANARY("resolver driven, still resolving");
    if (xb_q_processes == p + 1 && xb_q_destroys == q + 1) XV_CANARY("resolver driven, resolution over");
    if (xb_q_processes == p && xb_tc_calls == g + 1) XV_CANARY("connect attempt polled");
}
