//@ variant: but_c05 DEFS=-DXB_F20_TOLERATED P1=C13 P2=C06 P3=C11
//@ variant: c05 DEFS=-DXB_STRICT P1=C05 P2= P3=
//@ tu: libxcm/tp/tcp/xcm_tp_btcp.c
//@ defs: $DEFS
//@ enforce: begin_connect
//@ replace: xcm_addr_parse_btcp xcm_dns_resolve_sync tconnect_connect try_finish_connect
//@ pre-unwind: strlen.0:581
//@ props: $P1 $P2 $P3
//@ expect: postcondition>=4 canary=4
#include "_unit.h"
void harness(void)
{
    xv_ghost_havoc(); xb_env_havoc(); xv_sockopt_havoc(); xb_ghost_havoc();
    struct xcm_socket *s; const struct xcm_addr_ip *remote_ips; int num_remote_ips;
    long c = xb_tc_connects, g = xb_tc_calls;
    begin_connect(s, remote_ips, num_remote_ips);
    if (xb_tc_connects == c && xv_lower_dead) XV_CANARY("local address unusable: bad");
    if (xb_tc_connects == c + 1 && xb_tc_calls == g && xv_lower_dead) XV_CANARY("attempt could not be started: bad");
    if (xb_tc_calls == g + 1 && !xv_lower_dead) XV_CANARY("attempt started");
    if (xb_tc_calls == g + 1 && xv_lower_dead) XV_CANARY("attempt failed at once");
}
