//@ tu: libxcm/tp/tcp/xcm_tp_btcp.c
//@ enforce: btcp_update
//@ replace: conn_update server_update
//@ props: C04 C16 C06
//@ expect: postcondition>=5 canary=3
#include "_unit.h"
void harness(void)
{
    xv_ghost_havoc(); xb_env_havoc(); xv_sockopt_havoc(); xb_ghost_havoc();
    struct xcm_socket *s;
    long r = xb_reg_mods, b = xb_bell_mods;
    btcp_update(s);
    if (xb_reg_mods == r + 1 && xb_bell_mods == b) XV_CANARY("server");
    if (xb_reg_mods == r + 1 && xb_bell_mods == b + 1) XV_CANARY("connection, ready");
    if (xb_reg_mods == r && xb_bell_mods == b + 1) XV_CANARY("connection, not ready");
}
