//@ tu: libxcm/tp/tcp/xcm_tp_btcp.c
//@ enforce: btcp_server
//@ replace: xcm_addr_parse_btcp xcm_dns_resolve_sync xpoll_fd_reg_add xpoll_fd_reg_del_if_valid tcp_effectuate_dscp tcp_effectuate_reuse_addr tp_ip_to_sockaddr
//@ flags: --object-bits 10
//@ props: C08 C11 C05
//@ expect: postcondition>=4 canary=4
#include "_unit.h"
/* TRUSTED(kernel) socket/bind/listen on the ghost descriptor table of env/btcp_env.h: each may fail with any errno */
long xb_socket_calls, xb_bind_calls, xb_listen_calls; int xb_bind_fd, xb_listen_fd;
int socket(int domain, int type, int protocol)
{
    __CPROVER_assert((type & SOCK_NONBLOCK) != 0, "C05 socket() is created SOCK_NONBLOCK");
    xb_socket_calls++;
    int nfd = nondet_int();
    if (nondet_bool() || nfd < 0 || nfd >= XB_NFD || xb_fdt.e[nfd].open) { xv_errno = xb_any_errno(); return -1; }
    xb_fdt.e[nfd].open = 1; xb_fdt.e[nfd].nonblock = 1; xb_open_cnt++;
    return nfd;
}
int bind(int fd, const struct sockaddr *addr, socklen_t len)
{
    XB_FD_USE(fd, "C08 bind() on a descriptor the library owns and has open");
    xb_bind_calls++; xb_bind_fd = fd;
    if (nondet_bool()) { xv_errno = xb_any_errno(); return -1; }
    return 0;
}
int listen(int fd, int backlog)
{
    XB_FD_USE(fd, "C08 listen() on a descriptor the library owns and has open");
    xb_listen_calls++; xb_listen_fd = fd;
    if (nondet_bool()) { xv_errno = xb_any_errno(); return -1; }
    return 0;
}
#include "contracts/begin.h"
/* tcp_attr.c / common_tp.c: other modules, ASSUMED */
int tcp_effectuate_dscp(int fd) __CPROVER_requires(XB_FD_OURS(fd)) __CPROVER_assigns(xv_errno)
__CPROVER_ensures(__CPROVER_return_value == 0 || (__CPROVER_return_value == -1 && xv_errno > 0));
int tcp_effectuate_reuse_addr(int fd) __CPROVER_requires(XB_FD_OURS(fd)) __CPROVER_assigns(xv_errno)
__CPROVER_ensures(__CPROVER_return_value == 0 || (__CPROVER_return_value == -1 && xv_errno > 0));
void tp_ip_to_sockaddr(const struct xcm_addr_ip *xcm_ip, uint16_t port, int64_t scope_id, struct sockaddr *sockaddr)
__CPROVER_requires(__CPROVER_w_ok(sockaddr, sizeof(struct sockaddr_storage))) __CPROVER_assigns(__CPROVER_object_upto(sockaddr, sizeof(struct sockaddr_storage))) __CPROVER_ensures(1);

#define BT_SRV_ENTRY(s) (__CPROVER_is_fresh(s, BT_SIZE) && (s)->type == xcm_socket_type_server && BT(s)->fd == -1 && BT(s)->fd_reg_id == -1 && \
                         !BT(s)->server.created && BT(s)->scope >= -1 && BT(s)->scope < (1L << 32))
static int btcp_server(struct xcm_socket *s, const char *local_addr)
__CPROVER_requires(BT_SRV_ENTRY(s) && __CPROVER_is_fresh(local_addr, 8) && XB_ENV_RANGE && XP_RANGE && XB_CNT_OK(xb_socket_calls) && XB_CNT_OK(xb_bind_calls) && XB_CNT_OK(xb_listen_calls))
__CPROVER_requires(xb_open_cnt >= 0 && xb_open_cnt < XB_NFD && !xb_t_reg_live)
__CPROVER_assigns(xv_errno, xv_lower_dead, xv_blocked, BT(s)->fd, BT(s)->fd_reg_id, BT(s)->scope, BT(s)->server.created, XB_FDT_ASSIGNS, XB_CLOSE_REC, XP_REG_ROW, \
                  xb_socket_calls, xb_bind_calls, xb_listen_calls, xb_bind_fd, xb_listen_fd)
__CPROVER_ensures(__CPROVER_return_value == 0 || (__CPROVER_return_value == -1 && xv_errno > 0))
/* PO[C08] btcp_server.fail_no_leak: whichever step fails (address, resolution, socket, DSCP, SO_REUSEADDR, scope, bind, listen), no descriptor and no registration stays behind */
__CPROVER_ensures(__CPROVER_return_value == -1 ==> (xb_open_cnt == __CPROVER_old(xb_open_cnt) && !xb_t_reg_live && \
                  (xb_fk >= 0 && xb_fk < XB_NFD ==> !xb_fdt.e[xb_fk].open == !__CPROVER_old(xb_fdt.e[xb_fk].open))))
/* PO[C08] btcp_server.success_one_fd: success holds exactly one more descriptor: the one bound and listening, registered once */
__CPROVER_ensures(__CPROVER_return_value == 0 ==> (xb_open_cnt == __CPROVER_old(xb_open_cnt) + 1 && XB_FD_OURS(BT(s)->fd) && xb_bind_fd == BT(s)->fd && xb_listen_fd == BT(s)->fd && \
                  xb_bind_calls == __CPROVER_old(xb_bind_calls) + 1 && xb_listen_calls == __CPROVER_old(xb_listen_calls) + 1 && BT(s)->fd_reg_id >= 0))
/* PO[C11] btcp_server.created_recorded: a created server is marked so, which is what makes the creation-only attributes (ipv6.scope) refuse later writes with EACCES */
__CPROVER_ensures(!BT(s)->server.created == !(__CPROVER_return_value == 0))
;
#include "contracts/end.h"
void harness(void)
{
    xv_ghost_havoc(); xb_env_havoc(); xv_sockopt_havoc(); xb_ghost_havoc();
    xb_socket_calls = nondet_long(); xb_bind_calls = nondet_long(); xb_listen_calls = nondet_long(); xb_bind_fd = nondet_int(); xb_listen_fd = nondet_int();
    struct xcm_socket *s; const char *addr;
    long b0 = xb_bind_calls, l0 = xb_listen_calls, s0 = xb_socket_calls;
    int rv = btcp_server(s, addr);
    if (rv == 0) XV_CANARY("server created");
    if (rv == -1 && xb_socket_calls == s0) XV_CANARY("failed before socket()");
    if (rv == -1 && xb_bind_calls == b0 + 1 && xb_listen_calls == l0) XV_CANARY("bind failed");
    if (rv == -1 && xb_listen_calls == l0 + 1) XV_CANARY("listen failed");
}
