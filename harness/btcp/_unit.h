/* common part of every btcp-unit harness: prelude, the REAL libxcm/tp/tcp/xcm_tp_btcp.c (whole), env, contracts.
 * XB_DNS_ATTR: additionally the real libxcm/tp/common/dns_attr.c (setter jobs). */
#include "prelude.h"
#ifdef XB_STRLEN_GHOST
/* job btcp.set_local_addr@accept: strlen(3) of the TU goes through xb_strlen (env/btcp_env.h), the textbook loop, which
 * records its result in the ghost xb_strlen_ret -- a contract cannot say "the first NUL" without a quantifier */
size_t xb_strlen(const char *s);
#define strlen(s) xb_strlen(s)
#endif
#include "xcm_tp_btcp.c"
#ifdef XB_DNS_ATTR
#include "dns_attr.c"
#endif
#include "env/base.h"
#include "env/sockopt.h"
#include "env/btcp_env.h"
#include "contracts/btcp.h"
/* every harness starts with  xv_ghost_havoc(); xb_env_havoc(); xv_sockopt_havoc(); xb_ghost_havoc();  (ghost state arbitrary) */
