/* common part of every btcp-unit harness: prelude, the REAL libxcm/tp/tcp/xcm_tp_btcp.c (whole), env, contracts.
 * XB_DNS_ATTR: additionally the real libxcm/tp/common/dns_attr.c (setter jobs). */
#include "prelude.h"
#include "xcm_tp_btcp.c"
#ifdef XB_DNS_ATTR
#include "dns_attr.c"
#endif
#include "env/base.h"
#include "env/sockopt.h"
#include "env/btcp_env.h"
#include "contracts/btcp.h"
/* ghost state of this unit: arbitrary at the start of every harness */
#define XB_HAVOC() do { xv_ghost_havoc(); xb_env_havoc(); xv_sockopt_havoc(); xb_ghost_havoc(); } while (0)
