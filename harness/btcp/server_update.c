//@ tu: libxcm/tp/tcp/xcm_tp_btcp.c
//@ enforce: server_update
//@ replace: xpoll_fd_reg_mod
//@ props: C04 C16
//@ expect: postcondition>=3 canary=2
#include "_unit.h"
void harness(void)
{
    xv_ghost_havoc(); xb_env_havoc(); xv_sockopt_havoc(); xb_ghost_havoc();
    struct xcm_socket *s;
    int was = xb_t_reg_event;
    server_update(s);
    if (xb_t_reg_event == EPOLLIN && was == 0) XV_CANARY("ACCEPTABLE awaited");
    if (xb_t_reg_event == 0 && was == EPOLLIN) XV_CANARY("nothing awaited");
}
