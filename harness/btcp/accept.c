//@ tu: libxcm/tp/tcp/xcm_tp_btcp.c
//@ enforce: btcp_accept
//@ replace: tcp_opts_effectuate xpoll_fd_reg_add xpoll_fd_reg_del_if_valid xpoll_bell_reg_del xcm_dns_query_destroy tconnect_destroy
//@ pre-unwind: strlen.0:581
//@ props: C11 C05 C08 C06
//@ expect: postcondition>=6 canary=4
#include "_unit.h"
void harness(void)
{
    xv_ghost_havoc(); xb_env_havoc(); xv_sockopt_havoc(); xb_ghost_havoc();
    struct xcm_socket *conn_s, *server_s;
    long a = xb_accept_calls, c = xb_close_calls;
    int rv = btcp_accept(conn_s, server_s);
    if (rv == 0) XV_CANARY("accepted");
    if (rv == -1 && xv_errno == EACCES && xb_accept_calls == a) XV_CANARY("connect-only attribute: EACCES");
    if (rv == -1 && xv_errno == EAGAIN && xb_accept_calls == a + 1 && xb_close_calls == c) XV_CANARY("nothing to accept");
    if (rv == -1 && xb_accept_calls == a + 1 && xb_close_calls == c + 1) XV_CANARY("options refused by the kernel: accepted descriptor closed again");
}
