//@ tu: libxcm/tp/tcp/xcm_tp_btcp.c
//@ enforce: btcp_finish
//@ replace: try_establish
//@ props: C06 C04 C02 C05
//@ expect: postcondition>=6 canary=4
#include "_unit.h"
void harness(void)
{
    xv_ghost_havoc(); xb_env_havoc(); xv_sockopt_havoc(); xb_ghost_havoc();
    struct xcm_socket *s;
    int rv = btcp_finish(s);
    if (rv == 0) XV_CANARY("ready");
    if (rv == -1 && xv_errno == EAGAIN) XV_CANARY("busy");
    if (rv == -1 && xv_errno == EPIPE && xv_rx_eof) XV_CANARY("closed");
    if (rv == -1 && xv_errno == EHOSTUNREACH) XV_CANARY("bad");
}
