//@ variant: guard DEFS=-DXB_LA_GUARD U1=strlen.0:2 U2=2
//@ variant: accept DEFS=-DXB_LA_ACCEPT_-DXB_STRLEN_GHOST U1=xb_strlen.0:589 U2=581
//@ tu: libxcm/tp/tcp/xcm_tp_btcp.c
//@ defs: $DEFS
//@ enforce: btcp_set_local_addr
//@ pre-unwind: $U1 strcpy.0:$U2
//@ props: C11 C12
//@ expect: postcondition>=3 canary>=1
#include "_unit.h"
void harness(void)
{
    xv_ghost_havoc(); xb_env_havoc(); xv_sockopt_havoc(); xb_ghost_havoc();
#ifdef XB_STRLEN_GHOST
    xb_strlen_ret = nondet_size_t();
#endif
    struct xcm_socket *s; const char *local_addr;
    int rv = btcp_set_local_addr(s, local_addr);
#ifdef XB_LA_GUARD
    if (rv == -1 && xv_errno == EACCES) XV_CANARY("refused: too late");
#else
    if (rv == 0 && xb_strlen_ret == XCM_ADDR_MAX) XV_CANARY("accepted: longest address");
    if (rv == 0 && xb_strlen_ret == 0) XV_CANARY("accepted: empty address");
    if (rv == -1 && xv_errno == EINVAL && xb_strlen_ret == XCM_ADDR_MAX + 1) XV_CANARY("refused: one too long");
#endif
}
