//@ tu: libxcm/tp/tcp/xcm_tp_btcp.c
//@ enforce: btcp_get_cnt
//@ props: C17
//@ expect: postcondition>=1 canary=1
#include "_unit.h"
void harness(void)
{
    xv_ghost_havoc(); xb_env_havoc(); xv_sockopt_havoc(); xb_ghost_havoc();
    struct xcm_socket *s; enum xcm_tp_cnt cnt;
    int64_t v = btcp_get_cnt(s, cnt);
    if (v == 12345 && cnt == xcm_tp_cnt_from_lower_bytes) XV_CANARY("a counter");
}
