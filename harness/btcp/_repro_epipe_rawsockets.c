/* NOT a verification job (leading underscore): throw-away native reproduction of kernel behaviour behind _repro_epipe.c.
 * Build: gcc -I/repo/include -o r _repro_epipe_rawsockets.c -L/repo/.libs -lxcm ; run: LD_LIBRARY_PATH=/repo/.libs ./r ; exit status 1 = reproduced. */
/* the same sequence on plain sockets: what the kernel still has after send() failed with EPIPE */
#include <stdio.h>
#include <string.h>
#include <errno.h>
#include <unistd.h>
#include <signal.h>
#include <sys/socket.h>
#include <netinet/in.h>
#include <arpa/inet.h>
int main(void)
{
    signal(SIGPIPE, SIG_IGN);
    int l = socket(AF_INET, SOCK_STREAM, 0);
    struct sockaddr_in a = { .sin_family = AF_INET };
    inet_pton(AF_INET, "127.0.0.1", &a.sin_addr);
    bind(l, (struct sockaddr *)&a, sizeof(a)); listen(l, 1);
    socklen_t n = sizeof(a); getsockname(l, (struct sockaddr *)&a, &n);
    int peer = socket(AF_INET, SOCK_STREAM, 0);
    connect(peer, (struct sockaddr *)&a, sizeof(a));
    int c = accept(l, NULL, NULL);
    send(peer, "hello", 5, 0); close(peer); usleep(200000);
    int r1 = send(c, "x", 1, MSG_NOSIGNAL); printf("1st send -> %d (%s)\n", r1, r1 < 0 ? strerror(errno) : "-");
    usleep(200000);
    int r2 = send(c, "y", 1, MSG_NOSIGNAL); printf("2nd send -> %d (%s)\n", r2, r2 < 0 ? strerror(errno) : "-");
    char buf[16];
    int r3 = recv(c, buf, sizeof(buf), 0); printf("recv -> %d (%s) %.*s\n", r3, r3 < 0 ? strerror(errno) : "-", r3 > 0 ? r3 : 0, buf);
    int r4 = recv(c, buf, sizeof(buf), 0); printf("recv -> %d (%s)\n", r4, r4 < 0 ? strerror(errno) : "-");
    return 0;
}
