//@ tu: libxcm/tp/tcp/xcm_tp_btcp.c
//@ defs: -DXB_SERVER
//@ enforce: btcp_finish
//@ props: C04
//@ expect: postcondition>=1 canary=1
#include "_unit.h"
void harness(void)
{
    xv_ghost_havoc(); xb_env_havoc(); xv_sockopt_havoc(); xb_ghost_havoc();
    struct xcm_socket *s;
    int rv = btcp_finish(s);
    if (rv == 0) XV_CANARY("free");
}
