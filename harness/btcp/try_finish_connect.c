//@ tu: libxcm/tp/tcp/xcm_tp_btcp.c
//@ enforce: try_finish_connect
//@ replace: tconnect_get_connected_fd xpoll_fd_reg_add tcp_opts_equal tcp_opts_effectuate tconnect_destroy
//@ props: C11 C13 C06 C04 C08 C05
//@ expect: postcondition>=7 canary=5
#include "_unit.h"
void harness(void)
{
    xv_ghost_havoc(); xb_env_havoc(); xv_sockopt_havoc(); xb_ghost_havoc();
    struct xcm_socket *s;
    long eff = xb_eff_calls;
    try_finish_connect(s);
    if (xb_tc_rc == -1 && xb_tc_errno == EAGAIN) XV_CANARY("still connecting");
    if (xb_tc_rc == -1 && xb_tc_errno == ECONNREFUSED && xv_lower_dead) XV_CANARY("connect failed: bad");
    if (xb_tc_rc == 0 && xb_eff_calls == eff && !xv_lower_dead) XV_CANARY("connected, options unchanged meanwhile");
    if (xb_tc_rc == 0 && xb_eff_calls == eff + 1 && !xv_lower_dead) XV_CANARY("connected, parked options re-applied");
    if (xb_tc_rc == 0 && xb_eff_calls == eff + 1 && xv_lower_dead) XV_CANARY("connected, re-applying failed: bad");
}
