/* NOT a verification job (leading underscore): throw-away native reproduction of obligation btcp_receive.closed_only_after_eof (job btcp.receive@cap0).
 * Build: gcc -I/repo/include -o r _repro_cap0.c -L/repo/.libs -lxcm ; run: LD_LIBRARY_PATH=/repo/.libs ./r ; exit status 1 = reproduced. */
#include <xcm.h>
#include <xcm_attr_map.h>
#include <stdio.h>
#include <string.h>
#include <errno.h>
#include <unistd.h>
#include <sys/socket.h>
#include <netinet/in.h>
#include <arpa/inet.h>
int main(void)
{
    struct xcm_attr_map *attrs = xcm_attr_map_create();
    xcm_attr_map_add_str(attrs, "xcm.service", "bytestream");
    struct xcm_socket *srv = xcm_server_a("btcp:127.0.0.1:27315", attrs);
    if (!srv) { perror("xcm_server"); return 2; }
    int peer = socket(AF_INET, SOCK_STREAM, 0);
    struct sockaddr_in a = { .sin_family = AF_INET, .sin_port = htons(27315) };
    inet_pton(AF_INET, "127.0.0.1", &a.sin_addr);
    if (connect(peer, (struct sockaddr *)&a, sizeof(a)) < 0) { perror("connect"); return 2; }
    struct xcm_socket *c = xcm_accept(srv);
    if (!c) { perror("xcm_accept"); return 2; }
    send(peer, "hello", 5, 0);          /* the peer stays open */
    usleep(200000);
    char buf[16];
    int r0 = xcm_receive(c, buf, 0);
    printf("xcm_receive(capacity 0) -> %d (%s)\n", r0, r0 < 0 ? strerror(errno) : "-");
    int r1 = xcm_receive(c, buf, sizeof(buf)); int e1 = errno;
    printf("xcm_receive(capacity 16) -> %d (%s)\n", r1, r1 < 0 ? strerror(e1) : "-");
    int r2 = xcm_send(c, "x", 1); int e2 = errno;
    printf("xcm_send -> %d (%s)\n", r2, r2 < 0 ? strerror(e2) : "-");
    int bad = (r0 == 0 && r1 == 0);
    printf("%s\n", bad ? "VIOLATION: connection reported closed while the peer is open and 5 bytes are pending" : "no violation in this run");
    return bad;
}
