/* NOT a verification job (leading underscore): throw-away native reproduction of F21 / obligation btcp_send.closed_only_after_eof.
 * Build: gcc -I/repo/include -o r _repro_epipe.c -L/repo/.libs -lxcm ; run: LD_LIBRARY_PATH=/repo/.libs ./r ; exit status 1 = reproduced. */
#include <xcm.h>
#include <xcm_attr_map.h>
#include <stdio.h>
#include <string.h>
#include <errno.h>
#include <unistd.h>
#include <sys/socket.h>
#include <netinet/in.h>
#include <arpa/inet.h>
#include <stdlib.h>
int main(void)
{
    struct xcm_attr_map *attrs = xcm_attr_map_create();
    xcm_attr_map_add_str(attrs, "xcm.service", "bytestream");
    struct xcm_socket *srv = xcm_server_a("btcp:127.0.0.1:27311", attrs);
    if (!srv) { perror("xcm_server"); return 2; }
    const char *la = xcm_local_addr(srv);
    int port = atoi(strrchr(la, ':') + 1);
    int peer = socket(AF_INET, SOCK_STREAM, 0);
    struct sockaddr_in a = { .sin_family = AF_INET, .sin_port = htons(port) };
    inet_pton(AF_INET, "127.0.0.1", &a.sin_addr);
    if (connect(peer, (struct sockaddr *)&a, sizeof(a)) < 0) { perror("connect"); return 2; }
    struct xcm_socket *c = xcm_accept(srv);
    if (!c) { perror("xcm_accept"); return 2; }
    /* the peer sends 5 bytes and closes gracefully (it has read everything it was sent: nothing) */
    send(peer, "hello", 5, 0);
    close(peer);
    usleep(200000);
    int r1 = xcm_send(c, "x", 1); int e1 = errno;
    printf("1st xcm_send -> %d (%s)\n", r1, r1 < 0 ? strerror(e1) : "-");
    usleep(200000);   /* the peer's kernel answers with RST */
    int r2 = xcm_send(c, "y", 1); int e2 = errno;
    printf("2nd xcm_send -> %d (%s)\n", r2, r2 < 0 ? strerror(e2) : "-");
    char buf[16];
    int r3 = xcm_receive(c, buf, sizeof(buf)); int e3 = errno;
    printf("xcm_receive -> %d (%s)\n", r3, r3 < 0 ? strerror(e3) : "-");
    if (r3 > 0) printf("  data: %.*s\n", r3, buf);
    int lost = (r2 < 0 && e2 == EPIPE && r3 == 0);
    printf("%s\n", lost ? "VIOLATION: receive reports end of stream although 5 bytes had arrived and were never delivered" : "no violation in this run");
    return lost ? 1 : 0;
}
