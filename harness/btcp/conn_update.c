//@ tu: libxcm/tp/tcp/xcm_tp_btcp.c
//@ enforce: conn_update
//@ replace: xcm_dns_query_completed xpoll_bell_reg_mod xpoll_fd_reg_mod
//@ props: C04 C16 C06
//@ expect: postcondition>=8 canary=4
#include "_unit.h"
void harness(void)
{
    xv_ghost_havoc(); xb_env_havoc(); xv_sockopt_havoc(); xb_ghost_havoc();
    struct xcm_socket *s;
    long r = xb_reg_mods;
    _Bool was = xb_t_bell_ringing;
    conn_update(s);
    if (xb_reg_mods == r + 1 && xb_t_reg_event == (EPOLLIN | EPOLLOUT)) XV_CANARY("ready, both awaited");
    if (xb_reg_mods == r + 1 && xb_t_reg_event == 0) XV_CANARY("ready, nothing awaited");
    if (xb_reg_mods == r && xb_t_bell_ringing && !was) XV_CANARY("bell starts ringing");
    if (xb_reg_mods == r && !xb_t_bell_ringing && was) XV_CANARY("bell silenced");
}
