//@ tu: libxcm/tp/tls/ctx_store.c libxcm/tp/tls/item.c
//@ enforce: ctx_store_put
//@ pre-unwind: list_find_entry.0:3
//@ props: C15 C18 C08
//@ bounded: the cache holds 1..2 entries when the lock is acquired (use counts 1..INT_MAX-1, arbitrary distinct hashes, distinct contexts)
//@ expect: postcondition>=8 canary=4
#include "_unit_cs.h"
void harness(void)
{
    xv_ghost_havoc();
    xv_lk_ghost_havoc();
    xv_my_ctx = xv_ctx_any(); xv_my_refs = nondet_int(); xv_my_refs_after = nondet_int();   /* contract: refs >= 1, after == refs - 1 */
    ctx_store_put(xv_my_ctx);
    /* canary conditions use only what the critical section FOUND, not the outcome that is being decided */
    if (xv_acq.n == 1 && xv_acq.cnt[0] > 1) XV_CANARY("one entry, other users remain");
    if (xv_acq.n == 1 && xv_acq.cnt[0] == 1) XV_CANARY("one entry, last user: cache becomes empty");
    if (xv_acq.n == 2 && xv_acq.ctx[1] == xv_my_ctx && xv_acq.cnt[1] == 1) XV_CANARY("two entries, second released");
    if (xv_acq.n == 2 && xv_acq.ctx[0] == xv_my_ctx && xv_acq.cnt[0] == 1) XV_CANARY("two entries, first released");
}
