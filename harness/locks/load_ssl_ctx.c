//@ tu: libxcm/tp/tls/ctx_store.c libxcm/tp/tls/item.c
//@ enforce: load_ssl_ctx
//@ pre-unwind: strlen.0:7 install_cert.8:7 install_tc.4:7 install_crl.4:7
//@ props: C18 C08
//@ bounded: certificate, key, trusted-CA and CRL data are strings of 0..5 bytes (so that at most 5 PEM objects are read from each: the read loops are unwound 6 times with unwinding assertions); trusted-CA and CRL data may be absent
//@ expect: postcondition>=7 canary=6
#include "_unit_cs.h"
void harness(void)
{
    xv_ghost_havoc();
    xv_lk_ghost_havoc();
    __CPROVER_assume(xv_snprintf_calls >= 0 && xv_snprintf_calls < 1000000);
    const char *cert, *key, *tc, *crl; uint8_t hash[32]; void *log_ref;
    SSL_CTX *ctx = load_ssl_ctx(cert, key, tc, crl, hash, log_ref);
    if (ctx == NULL) XV_CANARY("failure");
    if (ctx != NULL && tc == NULL && crl == NULL) XV_CANARY("context without trusted CAs and CRLs");
    if (ctx != NULL && tc != NULL && crl != NULL) XV_CANARY("context with trusted CAs and CRLs");
    if (ctx == NULL && xv_pem_malformed && xv_x509_live >= 0 && xv_ssl_used_cert) XV_CANARY("malformed object after the leaf certificate was installed");
    if (ctx != NULL && !xv_pem_malformed && xv_err_first == 0) XV_CANARY("success with an empty error queue");
    if (ctx != NULL && xv_tc_added >= 2) XV_CANARY("two or more trusted certificates");
}
