//@ tu: libxcm/tp/tls/ctx_store.c libxcm/tp/tls/item.c
//@ enforce: cache_install
//@ props: C15 C18 C08
//@ bounded: cache list of 0..2 entries before the insertion (use counts 1..INT_MAX-1, arbitrary distinct hashes, distinct contexts)
//@ expect: postcondition>=4 canary=2
#include "_unit_cs.h"
void harness(void)
{
    xv_ghost_havoc();
    xv_lk_ghost_havoc();
    xv_cs_enter();
    uint8_t hash[32]; SSL_CTX *ctx;
    struct cache_entry *e = cache_install(&cache, hash, ctx);
    if (xv_acq.n == 0) XV_CANARY("installed into an empty cache");
    if (xv_acq.n == 2) XV_CANARY("installed in front of two entries");
}
