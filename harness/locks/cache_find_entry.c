//@ tu: libxcm/tp/tls/ctx_store.c libxcm/tp/tls/item.c
//@ enforce: cache_find_entry
//@ pre-unwind: list_find_entry.0:3
//@ props: C15 C18
//@ bounded: cache list of 0..2 entries (use counts 1..INT_MAX-1, arbitrary distinct hashes, distinct contexts)
//@ expect: postcondition>=3 canary=3
#include "_unit_cs.h"
void harness(void)
{
    xv_ghost_havoc();
    xv_lk_ghost_havoc();
    xv_cs_enter();
    SSL_CTX *ctx;
    struct cache_entry *e = cache_find_entry(&cache, ctx);
    if (e == NULL && xv_acq.n == 0) XV_CANARY("not found, empty cache");
    if (e == NULL && xv_acq.n == 2) XV_CANARY("not found, two entries");
    if (e != NULL && xv_acq.n == 2 && e == xv_acq.e[1]) XV_CANARY("found second of two");
}
