//@ tu: libxcm/tp/tls/ctx_store.c libxcm/tp/tls/item.c
//@ enforce: item_deinit
//@ props: C18 C08
//@ bounded: names/values of 0..3 bytes
//@ expect: postcondition>=1 canary=3
#include "_unit_cs.h"
#include "_items.h"
void harness(void)
{
    xv_ghost_havoc();
    xv_lk_ghost_havoc();
    struct item it;
    xv_item_heap_any(&it);
    enum item_type before = it.type;
    struct item *p = nondet_bool() ? &it : NULL;
    item_deinit(p);
    if (p == NULL) XV_CANARY("NULL item");
    if (p != NULL && before == item_type_none) XV_CANARY("unset item");
    if (p != NULL && before == item_type_value) XV_CANARY("item given by value");
}
