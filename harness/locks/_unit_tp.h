/* unit locks, part TP: the REAL libxcm/tp/common/xcm_tp.c (socket id allocator) over the lock model of env/locks_env.h */
#include "prelude.h"
#include "xcm_tp.c"
#include "env/base.h"
#define XV_LOCKS_TP
#include "env/locks_env.h"
#include "contracts/locks.h"
