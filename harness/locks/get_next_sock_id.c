//@ tu: libxcm/tp/common/xcm_tp.c
//@ enforce: get_next_sock_id
//@ props: C15
//@ expect: postcondition>=4 assertion>=4 canary=3
#include "_unit_tp.h"
void harness(void)
{
    xv_ghost_havoc();
    xv_lk_ghost_havoc();
    int64_t id = get_next_sock_id();
    /* canary conditions use only what the lock model recorded, not the outcome that is being decided */
    if (xv_id_seen == 0) XV_CANARY("first id of the process");
    if (xv_id_seen == INT64_MAX - 1) XV_CANARY("last id that can be handed out");
    if (next_id != xv_id_pub) XV_CANARY("another thread took an id right after the release");
}
