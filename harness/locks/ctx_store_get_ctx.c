//@ tu: libxcm/tp/tls/ctx_store.c libxcm/tp/tls/item.c
//@ enforce: ctx_store_get_ctx
//@ replace: hash_item load_ssl_ctx
//@ pre-unwind: ctx_store_get_ctx.8:3 cache_get.0:3 memcmp.0:33 strlen.0:5
//@ defs: -DXV_LSC_RECORD
//@ flags: --object-bits 11
//@ props: C15 C18 C08
//@ bounded: the cache holds 0..2 entries when the lock is acquired; designated names/values of 0..3 bytes, files of 0..64 bytes; the credential files change at most so often that the retry loop runs twice (the 4th digest of a call repeats the 3rd)
//@ expect: postcondition>=12 canary=7
#include "_unit_cs.h"
void harness(void)
{
    xv_ghost_havoc();
    xv_lk_ghost_havoc();
    long md0 = xv_md_calls;
    const struct item *cert, *key, *tc, *crl; void *log_ref;
    SSL_CTX *ctx = ctx_store_get_ctx(cert, key, tc, crl, log_ref);
    if (ctx == NULL && xv_errno == EPROTO) XV_CANARY("failure, EPROTO");
    if (ctx == NULL && xv_md_calls == md0 + 1) XV_CANARY("failure after the first digest (load or stat failed)");
    if (ctx != NULL && xv_acq.n == 2 && ctx == xv_acq.ctx[1]) XV_CANARY("hit on the second of two entries");
    if (ctx != NULL && xv_md_calls == md0 + 1) XV_CANARY("hit at once");
    if (ctx != NULL && xv_md_calls == md0 + 3) XV_CANARY("hit on the retry");
    if (ctx != NULL && xv_pub.n == 1) XV_CANARY("new entry in an empty cache");
    if (ctx != NULL && xv_pub.n == 3 && xv_md_calls == md0 + 4) XV_CANARY("new entry in front of two, after one retry");
}
