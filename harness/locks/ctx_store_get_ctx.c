//@ variant: stable FRESH=1 UNW=2 EXTRA=-DXV_CS_MAX=2
//@ variant: retry FRESH=3 UNW=3 EXTRA=-DXV_CS_MAX=1_-DXV_GET_SMALL
//@ tu: libxcm/tp/tls/ctx_store.c libxcm/tp/tls/item.c
//@ enforce: ctx_store_get_ctx
//@ replace: get_credentials_hash load_ssl_ctx
//@ pre-unwind: ctx_store_get_ctx.8:$UNW cache_get.0:3 memcmp.0:33 strlen.0:5
//@ defs: -DXV_LSC_RECORD -DXV_MD_FRESH=$FRESH $EXTRA
//@ flags: --object-bits 9
//@ props: C15 C18 C08
//@ bounded: the cache holds 0..2 entries when the lock is acquired; designated names/values and files of 0..3 bytes; variant stable: the credential files do not change during the call (the 2nd digest repeats the 1st: one pass of the retry loop); variant retry: they change at most so often that the loop runs twice (the 4th digest repeats the 3rd), 0..1 entries at acquire, trusted-CA and CRL items unset
//@ expect: postcondition>=11 canary>=6
#include "_unit_cs.h"
void harness(void)
{
    xv_ghost_havoc();
    xv_lk_ghost_havoc();
    long md0 = xv_md_calls;
    const struct item *cert, *key, *tc, *crl; void *log_ref;
    SSL_CTX *ctx = ctx_store_get_ctx(cert, key, tc, crl, log_ref);
    if (ctx == NULL && xv_errno == EPROTO) XV_CANARY("failure, EPROTO");
    if (ctx == NULL && xv_md_calls == md0 + 1) XV_CANARY("failure after the first digest (load or stat failed)");
#if XV_CS_MAX >= 2
    if (ctx != NULL && xv_acq.n == 2 && ctx == xv_acq.ctx[1]) XV_CANARY("hit on the second of two entries");
    if (ctx != NULL && xv_pub.n == 3) XV_CANARY("new entry in front of two");
#else
    if (ctx != NULL && xv_acq.n == 1 && ctx == xv_acq.ctx[0]) XV_CANARY("hit on the only entry");
    if (ctx != NULL && xv_pub.n == 2) XV_CANARY("new entry in front of one");
#endif
    if (ctx != NULL && xv_md_calls == md0 + 1) XV_CANARY("hit at once");
    if (ctx != NULL && xv_pub.n == 1) XV_CANARY("new entry in an empty cache");
#if XV_MD_FRESH >= 3
    if (ctx != NULL && xv_md_calls == md0 + 3) XV_CANARY("hit on the retry");
    if (ctx != NULL && xv_pub.n == 2 && xv_md_calls == md0 + 4) XV_CANARY("new entry in front of one, after one retry");
    if (ctx == NULL && xv_md_calls == md0 + 3) XV_CANARY("failure on the second pass");
#endif
}
