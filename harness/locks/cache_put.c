//@ tu: libxcm/tp/tls/ctx_store.c libxcm/tp/tls/item.c
//@ enforce: cache_put
//@ pre-unwind: list_find_entry.0:3
//@ props: C15 C18 C08
//@ bounded: cache list of 1..2 entries (use counts 1..INT_MAX-1, arbitrary distinct hashes, distinct contexts), the context put is listed
//@ expect: postcondition>=10 canary=4
#include "_unit_cs.h"
void harness(void)
{
    xv_ghost_havoc();
    xv_lk_ghost_havoc();
    xv_my_ctx = xv_ctx_any(); xv_my_refs = nondet_int();   /* this thread holds >= 1 reference(s) on xv_my_ctx: invariant I4 lists it */
    __CPROVER_assume(xv_my_refs >= 1);
    xv_cs_enter();
    cache_put(&cache, xv_my_ctx);
    /* canary conditions use only what the critical section FOUND, not the outcome that is being decided */
    if (xv_acq.n == 1 && xv_acq.cnt[0] > 1) XV_CANARY("one entry, other users remain");
    if (xv_acq.n == 1 && xv_acq.cnt[0] == 1) XV_CANARY("one entry, last user: cache becomes empty");
    if (xv_acq.n == 2 && xv_acq.ctx[1] == xv_my_ctx && xv_acq.cnt[1] == 1) XV_CANARY("two entries, second released");
    if (xv_acq.n == 2 && xv_acq.ctx[0] == xv_my_ctx && xv_acq.cnt[0] == 1) XV_CANARY("two entries, first released");
}
