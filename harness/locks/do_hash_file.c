//@ tu: libxcm/tp/tls/ctx_store.c libxcm/tp/tls/item.c
//@ enforce-rec: do_hash_file
//@ pre-unwind: strlen.0:5
//@ props: C18
//@ expect: postcondition>=7 canary=4
#include "_unit_cs.h"
void harness(void)
{
    xv_ghost_havoc();
    xv_lk_ghost_havoc();
    char file[XV_VAL]; file[XV_VAL - 1] = 0;
    __CPROVER_assume(XV_LIVE_OK(xv_mdctx_live));
    EVP_MD_CTX *ctx = EVP_MD_CTX_new(); bool follow; void *log_ref;
    __CPROVER_assume(xv_dg_len <= XV_DG_MAX - 112);   /* room in the ghost log of the digest input */
    unsigned long st0 = xv_stat_calls;
    int rv = do_hash_file(file, ctx, follow, log_ref);
    if (rv == 0 && follow) XV_CANARY("stat only");
    if (rv == 0 && !follow && xv_stat_calls == st0) XV_CANARY("regular file");
    if (rv == 0 && !follow && xv_stat_calls != st0) XV_CANARY("symbolic link followed");
    if (rv == -1 && !follow && xv_stat_calls != st0) XV_CANARY("dangling symbolic link");
}
