/* harness helper: four arbitrary designations (unset / by file / by value) with names or values of 0..XV_VAL-1 bytes, built by
 * assignments (the contracts of the digest functions state their requirements as plain conditions, so that they can also
 * be asserted where those functions are replaced) */
struct xv_items { struct item it[4]; char data[4][XV_VAL]; };
static inline void xv_items_any(struct xv_items *x)
{
#define XV_IT(k) do { unsigned t_ = nondet_uint(); __CPROVER_assume(t_ <= 2); x->it[k].type = t_ == 0 ? item_type_none : t_ == 1 ? item_type_file : item_type_value; \
        x->it[k].sensitive = nondet_bool(); x->data[k][XV_VAL - 1] = 0; x->it[k].data = x->it[k].type == item_type_none ? NULL : x->data[k]; } while (0)
    XV_IT(0); XV_IT(1); XV_IT(2); XV_IT(3);
}
/* one arbitrary item whose name/value (if set) is a HEAP string of 0..XV_VAL-1 bytes, as item.c makes them */
static inline void xv_item_heap_any(struct item *it)
{
    unsigned t_ = nondet_uint(); __CPROVER_assume(t_ <= 2);
    it->type = t_ == 0 ? item_type_none : t_ == 1 ? item_type_file : item_type_value;
    it->sensitive = nondet_bool();
    it->data = NULL;
    if (it->type != item_type_none) { char *d = malloc(XV_VAL); __CPROVER_assume(d != NULL); d[XV_VAL - 1] = 0; it->data = d; }
}
