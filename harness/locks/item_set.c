//@ variant: value FN=item_set_value_n PU=
//@ variant: file FN=item_set_file PU=strlen.0:5
//@ tu: libxcm/tp/tls/ctx_store.c libxcm/tp/tls/item.c
//@ enforce: $FN
//@ defs: -DXV_FN_$FN
//@ pre-unwind: $PU
//@ props: C18 C08
//@ bounded: previous and new names/values of 0..3 bytes
//@ expect: postcondition>=2 canary=3
#include "_unit_cs.h"
#include "_items.h"
void harness(void)
{
    xv_ghost_havoc();
    xv_lk_ghost_havoc();
    struct item it; char v[XV_VAL]; size_t len; bool sensitive;
    xv_item_heap_any(&it);
    enum item_type before = it.type;
#ifdef XV_FN_item_set_value_n
    item_set_value_n(&it, v, len, sensitive);
#else
    v[XV_VAL - 1] = 0;
    item_set_file(&it, v, sensitive);
#endif
    if (before == item_type_none) XV_CANARY("was unset");
    if (before == item_type_file) XV_CANARY("was given by file");
    if (before == item_type_value) XV_CANARY("was given by value");
}
