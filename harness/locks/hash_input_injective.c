//@ tu: libxcm/tp/tls/ctx_store.c libxcm/tp/tls/item.c
//@ nondfcc: 1
//@ unwindset: harness.0:5 harness.1:129 strlen.0:5
//@ props: C18
//@ bounded: two designations of the four items, each item unset or given BY VALUE with a value of 0..3 arbitrary non-NUL bytes (by-file items feed 43+ bytes each and are outside the bound of the ghost digest-input log; their format is the subject of locks.do_hash_file); SHA-256 itself is not modelled: the property is about its INPUT
//@ expect: assertion>=2 canary=2
#include "_unit_cs.h"
#include "_items.h"
/* C18 lemma hash_input_injective: "Material is never mixed between configurations that differ in any item".  The cache key is
 * the digest of a byte string; two designations that differ in any item must feed DIFFERENT byte strings to the digest
 * (equal strings give equal keys whatever the hash function).  The REAL get_credentials_hash is run on two arbitrary
 * designations A and B; the EVP_DigestUpdate stub records the input. */
static _Bool xv_same_str(const char *a, const char *b)
{
    if (a[0] != b[0]) return 0; if (a[0] == 0) return 1;
    if (a[1] != b[1]) return 0; if (a[1] == 0) return 1;
    if (a[2] != b[2]) return 0; if (a[2] == 0) return 1;
    return a[3] == b[3];
}
static _Bool xv_same_item(const struct item *a, const struct item *b)
{
    return a->type == b->type && (a->type == item_type_none || xv_same_str(a->data, b->data));
}
void harness(void)
{
    xv_ghost_havoc();
    xv_lk_ghost_havoc();
    struct xv_items a, b; uint8_t ha[32], hb[32]; void *log_ref;
    xv_items_any(&a); xv_items_any(&b);
    for (int k = 0; k < 4; k++)
        __CPROVER_assume(a.it[k].type != item_type_file && b.it[k].type != item_type_file);
    __CPROVER_assume(XV_LIVE_OK(xv_mdctx_live) && XV_LIVE_OK(xv_md_calls) && xv_ld_since_md >= 0 && xv_ld_since_md < 1000);

    int ra = get_credentials_hash(&a.it[0], &a.it[1], &a.it[2], &a.it[3], ha, log_ref);
    uint8_t in_a[XV_DG_MAX]; size_t len_a = xv_dg_len;
    memcpy(in_a, xv_dg_log, XV_DG_MAX);
    int rb = get_credentials_hash(&b.it[0], &b.it[1], &b.it[2], &b.it[3], hb, log_ref);

    _Bool same_input = ra == 0 && rb == 0 && len_a == xv_dg_len;
    for (size_t i = 0; i < XV_DG_MAX; i++)
        if (i < len_a && in_a[i] != xv_dg_log[i])
            same_input = 0;
    _Bool same_designation = xv_same_item(&a.it[0], &b.it[0]) && xv_same_item(&a.it[1], &b.it[1]) && xv_same_item(&a.it[2], &b.it[2]) && xv_same_item(&a.it[3], &b.it[3]);

    /* the documented example of DESIGN section 6, F23: key = K, trusted CAs = C1 C2   versus   key = K C1, trusted CAs = C2 */
    if (a.it[1].type == item_type_value && b.it[1].type == item_type_value && a.it[2].type == item_type_value && b.it[2].type == item_type_value &&
        xv_same_item(&a.it[0], &b.it[0]) && xv_same_item(&a.it[3], &b.it[3]))
        XV_ASSERT(!same_input || same_designation, "PO[C18] get_credentials_hash.input_injective_key_and_trusted_ca_by_value");
    XV_ASSERT(!same_input || same_designation, "PO[C18] get_credentials_hash.input_injective_in_the_four_items");
    if (same_input && same_designation) XV_CANARY("equal designations feed equal input");
    if (ra == 0 && rb == 0 && !same_input) XV_CANARY("different designations feed different input");
}
