//@ tu: libxcm/tp/tls/ctx_store.c libxcm/tp/tls/item.c
//@ enforce: item_load
//@ pre-unwind: strlen.0:5
//@ props: C18 C08
//@ bounded: names/values of 0..3 bytes, files of 0..3 bytes
//@ expect: postcondition>=3 canary=4
#include "_unit_cs.h"
#include "_items.h"
void harness(void)
{
    xv_ghost_havoc();
    xv_lk_ghost_havoc();
    struct xv_items x; char *data;
    xv_items_any(&x);
    int rv = item_load(&x.it[0], &data);
    if (x.it[0].type == item_type_none) XV_CANARY("unset");
    if (x.it[0].type == item_type_value) XV_CANARY("by value");
    if (x.it[0].type == item_type_file && rv > 0) XV_CANARY("file read");
    if (x.it[0].type == item_type_file && rv < 0) XV_CANARY("file unreadable");
}
