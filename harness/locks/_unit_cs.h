/* unit locks, part CS: the REAL libxcm/tp/tls/ctx_store.c and item.c over the lock model and the OpenSSL/libc stubs of
 * env/locks_env.h (env/base.h is NOT included: see the note in env/locks_env.h) */
#include "prelude.h"
#include "ctx_store.c"
#include "item.c"
#define XV_LOCKS_CS
#include "env/locks_env.h"
#include "contracts/locks.h"
