/* unit locks, part CS: the REAL libxcm/tp/tls/ctx_store.c and item.c over the lock model and the OpenSSL/libc stubs of
 * env/locks_env.h (env/base.h is NOT included: see the note in env/locks_env.h) */
#include "prelude.h"
#include "util.h"
/* ut_aprintf is variadic (DFCC loses the write set of a variadic callee, see prelude.h on snprintf); its call sites in the
 * LOG_TLS_CTX_* macros pass (buf, sizeof(buf), format, ...): routed to the fixed-arity model xv_aprintf(buf, capacity) */
void xv_aprintf(char *buf, size_t capacity);
#define ut_aprintf(buf, n, ...) xv_aprintf((buf), (n))
#include "ctx_store.c"
#include "item.c"
#define XV_LOCKS_CS
#include "env/locks_env.h"
#include "contracts/locks.h"
