//@ tu: libxcm/tp/tls/ctx_store.c libxcm/tp/tls/item.c
//@ enforce: hash_item
//@ replace: do_hash_file
//@ pre-unwind: strlen.0:5
//@ props: C18
//@ expect: postcondition>=4 canary=4
#include "_unit_cs.h"
#include "_items.h"
void harness(void)
{
    xv_ghost_havoc();
    xv_lk_ghost_havoc();
    struct xv_items x; void *log_ref;
    xv_items_any(&x);
    __CPROVER_assume(XV_LIVE_OK(xv_mdctx_live));
    EVP_MD_CTX *ctx = EVP_MD_CTX_new();
    __CPROVER_assume(xv_dg_len <= XV_DG_MAX - 112);
    int rv = hash_item(&x.it[0], ctx, log_ref);
    if (x.it[0].type == item_type_none) XV_CANARY("unset item");
    if (x.it[0].type == item_type_value) XV_CANARY("by value");
    if (x.it[0].type == item_type_file && rv == 0) XV_CANARY("by file");
    if (rv == -1) XV_CANARY("file cannot be examined");
}
