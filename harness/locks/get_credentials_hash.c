//@ tu: libxcm/tp/tls/ctx_store.c libxcm/tp/tls/item.c
//@ enforce: get_credentials_hash
//@ replace: hash_item
//@ props: C18 C08
//@ expect: postcondition>=7 canary=3
#include "_unit_cs.h"
#include "_items.h"
void harness(void)
{
    xv_ghost_havoc();
    xv_lk_ghost_havoc();
    struct xv_items x; uint8_t hash[32]; void *log_ref;
    xv_items_any(&x);
    long md0 = xv_md_calls;
    int rv = get_credentials_hash(&x.it[0], &x.it[1], &x.it[2], &x.it[3], hash, log_ref);
    if (rv == 0 && md0 < xv_md_settle) XV_CANARY("digest computed, files may have changed");
    if (rv == 0 && md0 >= xv_md_settle) XV_CANARY("digest computed, files settled");
    if (rv == -1) XV_CANARY("a designated file could not be examined");
}
