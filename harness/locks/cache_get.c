//@ tu: libxcm/tp/tls/ctx_store.c libxcm/tp/tls/item.c
//@ enforce: cache_get
//@ pre-unwind: cache_get.0:3 memcmp.0:33
//@ props: C15 C18 C08
//@ bounded: cache list of 0..2 entries (use counts 1..INT_MAX-1, arbitrary hashes and contexts)
//@ expect: postcondition>=8 canary=4
#include "_unit_cs.h"
void harness(void)
{
    xv_ghost_havoc();
    xv_lk_ghost_havoc();
    xv_cs_ghost_havoc();
    const uint8_t *hash;
    struct cache_entry *e = cache_get(&cache, hash);   /* the one cache of ctx_store.c (a pointer merely assumed equal to &cache is not dereferenceable for CBMC) */
    if (e == NULL && xv_g_n == 0) XV_CANARY("miss, empty cache");
    if (e == NULL && xv_g_n == 2) XV_CANARY("miss, two entries");
    if (e != NULL && xv_g_n == 1) XV_CANARY("hit, one entry");
    if (e != NULL && xv_g_n == 2 && e != cache.entries.lh_first) XV_CANARY("hit second of two");
}
