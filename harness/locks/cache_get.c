//@ tu: libxcm/tp/tls/ctx_store.c libxcm/tp/tls/item.c
//@ enforce: cache_get
//@ pre-unwind: cache_get.0:3 memcmp.0:33
//@ props: C15 C18 C08
//@ bounded: cache list of 0..2 entries (use counts 1..INT_MAX-1, arbitrary distinct hashes, distinct contexts)
//@ expect: postcondition>=5 canary=4
#include "_unit_cs.h"
void harness(void)
{
    xv_ghost_havoc();
    xv_lk_ghost_havoc();
    xv_cs_enter();                      /* lock held; the cache is ANY list of 0..2 entries satisfying the invariant */
    uint8_t hash[32];
    struct cache_entry *e = cache_get(&cache, hash);
    if (e == NULL && xv_acq.n == 0) XV_CANARY("miss, empty cache");
    if (e == NULL && xv_acq.n == 2) XV_CANARY("miss, two entries");
    if (e != NULL && xv_acq.n == 1) XV_CANARY("hit, one entry");
    if (e != NULL && xv_acq.n == 2 && e == xv_acq.e[1]) XV_CANARY("hit second of two");
}
