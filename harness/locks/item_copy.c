//@ tu: libxcm/tp/tls/ctx_store.c libxcm/tp/tls/item.c
//@ enforce: item_copy
//@ pre-unwind: strlen.0:5
//@ props: C18 C08
//@ bounded: names/values of 0..3 bytes
//@ expect: postcondition>=2 canary=3
#include "_unit_cs.h"
#include "_items.h"
void harness(void)
{
    xv_ghost_havoc();
    xv_lk_ghost_havoc();
    struct xv_items x; struct item dst;
    xv_items_any(&x);
    xv_item_heap_any(&dst);
    enum item_type before = dst.type;
    item_copy(&x.it[0], &dst);
    if (before == item_type_none && x.it[0].type == item_type_value) XV_CANARY("value into unset");
    if (before == item_type_file && x.it[0].type == item_type_none) XV_CANARY("unset over file");
    if (before == item_type_value && x.it[0].type == item_type_file) XV_CANARY("file over value");
}
