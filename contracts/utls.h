/* contracts/utls.h -- libxcm/tp/tls/xcm_tp_utls.c: the UTLS transport = one UX and one TLS sub-socket behind one socket.
 *
 * C01  utls_send / utls_receive / utls_finish are exactly those of the ONE live sub-connection: one call on it, with exactly the
 *      caller's (buf, len) / (buf, capacity), result and errno handed back unchanged; after a successful utls_connect /
 *      utls_accept exactly one of ux_socket, tls_socket is non-NULL.
 * C08  the utls_init / utls_connect / utls_server / utls_accept / utls_close / utls_cleanup ladders over the two sub-sockets
 *      leak nothing: every sub-socket that owes a close is closed (resp. cleaned up) exactly once BEFORE it is destroyed,
 *      nothing is closed after a failed connect/server/accept (rule of xcm_tp.h), nothing is destroyed twice, and after a
 *      failure nothing stays live.
 * C04/C16  utls_update hands the awaited condition to the live sub-socket (conn) / to BOTH sub-servers and runs their update.
 * C17  utls_get_cnt is the live sub-socket's counter.
 *
 * The sub-sockets are reached through xcm_tp_socket_* (libxcm/tp/common/xcm_tp.c, dispatching through an ops table into
 * the UX and TLS transports): OTHER MODULES, cut by the contracts of part 1 and ASSUMED here.  Their private part is opaque
 * to UTLS; in this unit it IS the ghost record `struct xv_sub` (typestate, call records), so that the typestate travels with
 * the object and pointer identity needs no table.
 * Attached to the REAL (static) functions by redeclaration after the TU has been #included.
 *
 * The SHAPE of the socket a function is given (which leg of a connection is the live one; which sub-sockets exist at close;
 * connection or server for finish/update) is a -D of the job, one job (variant) per shape: clauses about "the live leg" would
 * otherwise go through a pointer that is NULL in the other shape, which made the formulas ten times larger.
 *   UT_LEG_TLS                      the live leg of the connection is the TLS one (default: UX)
 *   UT_T_SERVER                     finish/update on a server socket (default: connection, leg as above)
 *   UT_SHAPE_UX / _TLS / _NULL      close/cleanup/deinit: only that sub-socket / none exists (default: both)
 *   UT_SUB_INIT_MAY_FAIL            xcm_tp_socket_init may return -1 (no init of the tree does)
 *   UT_GETSOCKNAME_MAY_FAIL         xcm_local_addr may return NULL on a bound server
 */
#ifndef XV_UTLS_H
#define XV_UTLS_H
#include "contracts/begin.h"

#define UT(s) ((struct utls_socket *)((uint8_t *)(s) + sizeof(struct xcm_socket)))
#define UT_SIZE (sizeof(struct xcm_socket) + sizeof(struct utls_socket))
#define UT_U8(p) ((const uint8_t *)(p))

/* ================================================================================================================ */
/* ghost state                                                                                                      */
/* ================================================================================================================ */
/* typestate of a sub-socket (0 is deliberately no state: zeroed memory is not a sub-socket) */
enum { XV_ST_CREATED = 1,    /* xcm_tp_socket_create()d, holds nothing but its memory                                  */
       XV_ST_INIT,           /* init succeeded: OWES a close/cleanup (xcm_tp.h: "in all other situations close must be called") */
       XV_ST_LIVE,           /* connected / bound / accepted: owes a close/cleanup and holds descriptors, a port, ...   */
       XV_ST_FAILED,         /* init/connect/server/accept failed: the transport has cleaned up, close MUST NOT be called */
       XV_ST_CLOSED,         /* closed or cleaned up                                                                    */
       XV_ST_DESTROYED };    /* memory returned: no call of any kind any more                                           */
enum { XV_K_UX = 1, XV_K_TLS = 2 };
enum { XV_IO_SEND = 1, XV_IO_RECEIVE = 2 };

struct xv_sub {
    int st;                         /* typestate                                                                        */
    int kind;                       /* XV_K_UX / XV_K_TLS: from the protocol it was created with                        */
    long closes, cleanups;          /* close / cleanup calls made on it                                                 */
    long tries;                     /* connect / server / accept calls made on it                                       */
    int op_rv, op_errno;            /* ... result of the last one                                                       */
    long op_seq;                    /* ... its position in the global order of such calls                               */
    char addr0;                     /* ... first character of the address it was given (connect, server)                */
    int from_kind;                  /* ... kind of the server sub-socket it accepted from (accept).  (Not the pointer: a pointer-valued
                                       ghost field ASSUMED equal to an argument silently cut the paths through the second accept.) */
    long updates; int upd_cond;     /* update calls; the socket's condition when the last one ran                       */
    long fins; int fin_rv, fin_errno; /* finish calls; result of the last one                                           */
};
#define XS(p) ((struct xv_sub *)((uint8_t *)(p) + sizeof(struct xcm_socket)))
#define SUB_SIZE (sizeof(struct xcm_socket) + sizeof(struct xv_sub))

/* accounting over ALL sub-sockets of the process (one object, so that it is ONE assigns target of the ladders: DFCC checks every
 * callee target against every caller target) */
struct xv_acc {
    long created;           /* xcm_tp_socket_create calls                                                              */
    long destroyed;         /* xcm_tp_socket_destroy calls on a sub-socket                                              */
    long owing;             /* sub-sockets in state INIT or LIVE: they owe a close                                      */
    long live;              /* sub-sockets in state LIVE                                                                */
    long leaked;            /* sub-sockets destroyed while INIT or LIVE: their resources can never be released any more */
    long op_seq;            /* connect / server / accept calls so far                                                   */
    int won_kind;           /* kind of the sub-socket whose connect / server / accept succeeded last                    */
} xv_acc;
#define xv_sub_created xv_acc.created
#define xv_sub_destroyed xv_acc.destroyed
#define xv_sub_owing xv_acc.owing
#define xv_sub_live xv_acc.live
#define xv_sub_leaked xv_acc.leaked
#define xv_op_seq xv_acc.op_seq
#define xv_won_kind xv_acc.won_kind
struct xcm_socket *xv_init_parent_ux, *xv_init_parent_tls;  /* parent handed to the last init of a UX / of a TLS sub-socket */

/* the last send / receive on a sub-socket */
long xv_io_calls; int xv_io_op; struct xcm_socket *xv_io_sock; const void *xv_io_buf; size_t xv_io_len; int xv_io_ret; int xv_io_errno;
uint8_t xv_io_c;            /* byte at offset xv_j of the message the sub-socket saw (send) / stored (receive)          */
/* the last get_cnt / max_msg on a sub-socket */
long xv_cnt_calls; int64_t xv_cnt_ret; int xv_cnt_arg; struct xcm_socket *xv_cnt_sock;
long xv_mm_calls; size_t xv_mm_ret; struct xcm_socket *xv_mm_sock;

/* never assigned */
struct xcm_tp_proto *xv_proto_ux, *xv_proto_tls;    /* the registered "ux" and "tls" protocols                          */

/* addresses (xcm_addr.c, common_tp.c: other modules); one object for the same reason */
struct xv_adr {
    const char *ptr; size_t len;    /* the TLS address string produced last: where, how long                            */
    int rv, err;                    /* result of the last utls->tls conversion / utls parse                              */
    size_t uxlen;                   /* length of the UX address produced last                                            */
    int ux_rv, ux_err;              /* result of the last tls->ux mapping (xcm_addr_ux_make)                             */
} xv_adr;
#define xv_addr_ptr xv_adr.ptr
#define xv_addr_len xv_adr.len
#define xv_addr_rv xv_adr.rv
#define xv_addr_errno xv_adr.err
#define xv_uxaddr_len xv_adr.uxlen
#define xv_uxmake_rv xv_adr.ux_rv
#define xv_uxmake_errno xv_adr.ux_err

void *nondet_voidp(void);
static inline void xv_utls_havoc(void)
{
    xv_sub_created = nondet_long(); xv_sub_destroyed = nondet_long(); xv_sub_owing = nondet_long(); xv_sub_live = nondet_long();
    xv_sub_leaked = nondet_long(); xv_op_seq = nondet_long(); xv_won_kind = nondet_int(); xv_init_parent_ux = nondet_voidp(); xv_init_parent_tls = nondet_voidp();
    xv_io_calls = nondet_long(); xv_io_op = nondet_int(); xv_io_sock = nondet_voidp(); xv_io_buf = nondet_voidp();
    xv_io_len = nondet_size_t(); xv_io_ret = nondet_int(); xv_io_errno = nondet_int(); xv_io_c = nondet_uchar();
    xv_cnt_calls = nondet_long(); xv_cnt_ret = nondet_long(); xv_cnt_arg = nondet_int(); xv_cnt_sock = nondet_voidp();
    xv_mm_calls = nondet_long(); xv_mm_ret = nondet_size_t(); xv_mm_sock = nondet_voidp();
    xv_proto_ux = nondet_voidp(); xv_proto_tls = nondet_voidp();
    xv_addr_ptr = nondet_voidp(); xv_addr_len = nondet_size_t(); xv_addr_rv = nondet_int(); xv_addr_errno = nondet_int();
    xv_uxaddr_len = nondet_size_t(); xv_uxmake_rv = nondet_int(); xv_uxmake_errno = nondet_int();
}

#define XV_GC_MAX (1L << 40)
#define XV_GC(c) ((c) >= 0 && (c) < XV_GC_MAX)              /* on entry of the function under proof */
#define XV_GC_IN(c) ((c) >= 0 && (c) < 2 * XV_GC_MAX)       /* on entry of a callee in mid-call (the caller may have moved the counter) */
/* ranges of the global counters */
#define XV_SUB_CNT_LIM(R) (R(xv_sub_created) && R(xv_sub_destroyed) && R(xv_sub_owing) && R(xv_sub_live) && R(xv_sub_leaked) && R(xv_op_seq))
#define XV_IO_CNT_LIM(R) (R(xv_io_calls) && R(xv_cnt_calls) && R(xv_mm_calls))
#define XV_SUB_CNT_OK XV_SUB_CNT_LIM(XV_GC_IN)
#define XV_IO_CNT_OK XV_IO_CNT_LIM(XV_GC_IN)
/* ranges of the per-object counters */
#define SUB_RANGES_LIM(p, R) (R(XS(p)->closes) && R(XS(p)->cleanups) && R(XS(p)->tries) && R(XS(p)->updates) && R(XS(p)->fins))
#define SUB_RANGES(p) SUB_RANGES_LIM(p, XV_GC_IN)
#define SUB_RANGES_ENTRY(p) SUB_RANGES_LIM(p, XV_GC)
#define SUB_ST(p, state) (XS(p)->st == (state))
#define SUB_OWES(p) (SUB_ST(p, XV_ST_INIT) || SUB_ST(p, XV_ST_LIVE))
/* a sub-socket as utls_init leaves it: initialised, nothing attempted, never closed */
#define SUB_FRESH_INIT(p, k) (SUB_ST(p, XV_ST_INIT) && XS(p)->kind == (k) && XS(p)->closes == 0 && XS(p)->cleanups == 0 && XS(p)->tries == 0 && \
                              XV_GC(XS(p)->updates) && XV_GC(XS(p)->fins))
#define SUB_IS_LIVE(p, k) (SUB_ST(p, XV_ST_LIVE) && XS(p)->kind == (k) && SUB_RANGES_ENTRY(p))

/* ================================================================================================================ */
/* part 1: OTHER MODULES, ASSUMED                                                                                   */
/* ================================================================================================================ */

/* ---- xcm_tp.c: protocol lookup ("ux" and "tls" are registered by their transports' constructors) */
struct xcm_tp_proto *xcm_tp_proto_by_name(const char *proto_name)
__CPROVER_requires(__CPROVER_r_ok(proto_name, 3))
__CPROVER_assigns()
__CPROVER_ensures((proto_name[0] == 'u' && proto_name[1] == 'x' && proto_name[2] == 0) ==> __CPROVER_return_value == xv_proto_ux)
__CPROVER_ensures((proto_name[0] == 't' && proto_name[1] == 'l' && proto_name[2] == 's') ==> __CPROVER_return_value == xv_proto_tls)
;

/* ---- xcm_tp.c: socket objects.  create never fails (allocation failure aborts: ut_calloc); the object is new, zeroed, and
 * carries exactly what it was given */
struct xcm_socket *xcm_tp_socket_create(const struct xcm_tp_proto *proto, enum xcm_socket_type type, struct xpoll *xpoll,
                                        bool auto_enable_ctl, bool auto_update, bool is_blocking)
__CPROVER_requires(proto != NULL && XV_SUB_CNT_OK)
__CPROVER_assigns(xv_sub_created)
__CPROVER_ensures(__CPROVER_is_fresh(__CPROVER_return_value, SUB_SIZE))
__CPROVER_ensures(__CPROVER_return_value->proto == proto && __CPROVER_return_value->type == type && __CPROVER_return_value->xpoll == xpoll && \
                  __CPROVER_return_value->auto_enable_ctl == auto_enable_ctl && __CPROVER_return_value->auto_update == auto_update && \
                  __CPROVER_return_value->is_blocking == is_blocking && __CPROVER_return_value->condition == 0 && __CPROVER_return_value->ctl == NULL)
__CPROVER_ensures(SUB_ST(__CPROVER_return_value, XV_ST_CREATED) && \
                  XS(__CPROVER_return_value)->kind == (proto == xv_proto_ux ? XV_K_UX : proto == xv_proto_tls ? XV_K_TLS : 0) && \
                  XS(__CPROVER_return_value)->closes == 0 && XS(__CPROVER_return_value)->cleanups == 0 && XS(__CPROVER_return_value)->tries == 0 && \
                  XS(__CPROVER_return_value)->updates == 0 && XS(__CPROVER_return_value)->fins == 0)
__CPROVER_ensures(xv_sub_created == __CPROVER_old(xv_sub_created) + 1)
;

/* init of a sub-socket: no transport of the tree has an init that fails (ux_init: job ux.init, PO ux_init.no_resources;
 * tls_init/btls_init/btcp_init return 0 on every path because xcm_tp_socket_create cannot fail).  With -DUT_SUB_INIT_MAY_FAIL
 * the interface-level behaviour (int result) is explored instead: see the report, utls_init's own ladder is not ready for it */
#ifdef UT_SUB_INIT_MAY_FAIL
#define UT_INIT_RV(rv) ((rv) == 0 || ((rv) == -1 && xv_errno > 0))
#else
#define UT_INIT_RV(rv) ((rv) == 0)
#endif
int xcm_tp_socket_init(struct xcm_socket *s, struct xcm_socket *parent)
__CPROVER_requires(s != NULL && SUB_ST(s, XV_ST_CREATED) && XV_SUB_CNT_OK)
__CPROVER_assigns(xv_errno, XS(s)->st, xv_sub_owing)
__CPROVER_assigns(XS(s)->kind == XV_K_UX: xv_init_parent_ux; XS(s)->kind == XV_K_TLS: xv_init_parent_tls)
__CPROVER_ensures(UT_INIT_RV(__CPROVER_return_value) && (XS(s)->kind == XV_K_UX ==> xv_init_parent_ux == parent) && (XS(s)->kind == XV_K_TLS ==> xv_init_parent_tls == parent))
__CPROVER_ensures(__CPROVER_return_value == 0 ? (SUB_ST(s, XV_ST_INIT) && xv_sub_owing == __CPROVER_old(xv_sub_owing) + 1) \
                                              : (SUB_ST(s, XV_ST_FAILED) && xv_sub_owing == __CPROVER_old(xv_sub_owing)))
;

/* connect / server / accept: callable once, on an initialised socket.  Success makes it live; failure leaves it cleaned up
 * (it no longer owes a close: xcm_tp.h).  errno after a success is unspecified. */
#define SUB_OP_REQUIRES(s) ((s) != NULL && SUB_ST(s, XV_ST_INIT) && SUB_RANGES(s) && XV_SUB_CNT_OK)
#define SUB_OP_ASSIGNS(s) xv_errno, XS(s)->st, XS(s)->tries, XS(s)->op_rv, XS(s)->op_errno, XS(s)->op_seq, xv_sub_owing, xv_sub_live, xv_op_seq, xv_won_kind
#define SUB_OP_ENSURES(s, rv) ( \
    ((rv) == 0 || ((rv) == -1 && xv_errno > 0)) && XS(s)->tries == __CPROVER_old(XS(s)->tries) + 1 && XS(s)->op_rv == (rv) && \
    ((rv) == -1 ==> XS(s)->op_errno == xv_errno) && XS(s)->op_seq == __CPROVER_old(xv_op_seq) && xv_op_seq == __CPROVER_old(xv_op_seq) + 1 && \
    ((rv) == 0 ? (SUB_ST(s, XV_ST_LIVE) && xv_sub_live == __CPROVER_old(xv_sub_live) + 1 && xv_sub_owing == __CPROVER_old(xv_sub_owing) && \
                  xv_won_kind == XS(s)->kind) \
               : (SUB_ST(s, XV_ST_FAILED) && xv_sub_live == __CPROVER_old(xv_sub_live) && xv_sub_owing == __CPROVER_old(xv_sub_owing) - 1 && \
                  xv_won_kind == __CPROVER_old(xv_won_kind))))
int xcm_tp_socket_connect(struct xcm_socket *s, const char *remote_addr)
__CPROVER_requires(SUB_OP_REQUIRES(s) && __CPROVER_r_ok(remote_addr, 1))
__CPROVER_assigns(SUB_OP_ASSIGNS(s), XS(s)->addr0)
__CPROVER_ensures(SUB_OP_ENSURES(s, __CPROVER_return_value) && XS(s)->addr0 == remote_addr[0])
;
int xcm_tp_socket_server(struct xcm_socket *s, const char *local_addr)
__CPROVER_requires(SUB_OP_REQUIRES(s) && __CPROVER_r_ok(local_addr, 1))
__CPROVER_assigns(SUB_OP_ASSIGNS(s), XS(s)->addr0)
__CPROVER_ensures(SUB_OP_ENSURES(s, __CPROVER_return_value) && XS(s)->addr0 == local_addr[0])
;
/* the server sub-socket must be a live one; it stays as it is */
int xcm_tp_socket_accept(struct xcm_socket *conn_s, struct xcm_socket *server_s)
__CPROVER_requires(SUB_OP_REQUIRES(conn_s) && server_s != NULL && SUB_ST(server_s, XV_ST_LIVE))
__CPROVER_assigns(SUB_OP_ASSIGNS(conn_s), XS(conn_s)->from_kind)
__CPROVER_ensures(SUB_OP_ENSURES(conn_s, __CPROVER_return_value) && XS(conn_s)->from_kind == XS(server_s)->kind)
;

/* close / cleanup: NULL is a no-op; otherwise the socket must OWE a close: initialised or live -- NOT after a failed
 * connect/server/accept, not twice.  errno survives (enforced for UX: ux_close/ux_cleanup, UX_DEINIT_FD; ASSUMED for TLS) */
#define SUB_END_REQUIRES(s) ((s) == NULL || (SUB_OWES(s) && SUB_RANGES(s) && XV_SUB_CNT_OK))
#define SUB_END_COUNTS(s) (xv_sub_owing == __CPROVER_old(xv_sub_owing) - 1 && \
                           xv_sub_live == __CPROVER_old(xv_sub_live) - (__CPROVER_old(XS(s)->st) == XV_ST_LIVE ? 1 : 0))
#define SUB_END_NOP (xv_sub_owing == __CPROVER_old(xv_sub_owing) && xv_sub_live == __CPROVER_old(xv_sub_live))
void xcm_tp_socket_close(struct xcm_socket *s)
__CPROVER_requires(SUB_END_REQUIRES(s))
__CPROVER_assigns(xv_sub_owing, xv_sub_live)
__CPROVER_assigns(s != NULL: XS(s)->st, XS(s)->closes)
__CPROVER_ensures(s == NULL ? SUB_END_NOP : (SUB_ST(s, XV_ST_CLOSED) && XS(s)->closes == __CPROVER_old(XS(s)->closes) + 1 && SUB_END_COUNTS(s)))
;
void xcm_tp_socket_cleanup(struct xcm_socket *s)
__CPROVER_requires(SUB_END_REQUIRES(s))
__CPROVER_assigns(xv_sub_owing, xv_sub_live)
__CPROVER_assigns(s != NULL: XS(s)->st, XS(s)->cleanups)
__CPROVER_ensures(s == NULL ? SUB_END_NOP : (SUB_ST(s, XV_ST_CLOSED) && XS(s)->cleanups == __CPROVER_old(XS(s)->cleanups) + 1 && SUB_END_COUNTS(s)))
;
/* destroy (= free): NULL is a no-op; never twice.  Destroying a socket that still owes a close is not refused here but
 * COUNTED (xv_sub_leaked; it stays in xv_sub_owing / xv_sub_live for ever), so that the leak shows up in the carrying
 * postconditions of the ladders */
void xcm_tp_socket_destroy(struct xcm_socket *s)
__CPROVER_requires(s == NULL || (XS(s)->st >= XV_ST_CREATED && XS(s)->st <= XV_ST_CLOSED && XV_SUB_CNT_OK))
__CPROVER_assigns(xv_sub_destroyed, xv_sub_leaked)
__CPROVER_assigns(s != NULL: XS(s)->st)
__CPROVER_ensures(s == NULL ? (xv_sub_destroyed == __CPROVER_old(xv_sub_destroyed) && xv_sub_leaked == __CPROVER_old(xv_sub_leaked)) \
        : (SUB_ST(s, XV_ST_DESTROYED) && xv_sub_destroyed == __CPROVER_old(xv_sub_destroyed) + 1 && \
           xv_sub_leaked == __CPROVER_old(xv_sub_leaked) + \
                ((__CPROVER_old(XS(s)->st) == XV_ST_INIT || __CPROVER_old(XS(s)->st) == XV_ST_LIVE) ? 1 : 0)))
;

/* ---- I/O on a live sub-connection (UX and TLS are messaging transports: send is all or nothing) */
#define SUB_IO_REQUIRES(s) ((s) != NULL && SUB_ST(s, XV_ST_LIVE) && XV_IO_CNT_OK)
#define SUB_IO_ASSIGNS xv_errno, xv_io_calls, xv_io_op, xv_io_sock, xv_io_buf, xv_io_len, xv_io_ret, xv_io_errno, xv_io_c
#define SUB_IO_RECORDED(op, s, buf, len, rv) (xv_io_calls == __CPROVER_old(xv_io_calls) + 1 && xv_io_op == (op) && xv_io_sock == (s) && xv_io_buf == (buf) && \
                                              xv_io_len == (len) && xv_io_ret == (rv) && xv_io_errno == xv_errno)
int xcm_tp_socket_send(struct xcm_socket *__restrict s, const void *__restrict buf, size_t len)
__CPROVER_requires(SUB_IO_REQUIRES(s) && (len == 0 || __CPROVER_r_ok(buf, len)))
__CPROVER_assigns(SUB_IO_ASSIGNS)
__CPROVER_ensures(SUB_IO_RECORDED(XV_IO_SEND, s, buf, len, __CPROVER_return_value))
__CPROVER_ensures(__CPROVER_return_value == 0 || (__CPROVER_return_value == -1 && xv_errno > 0))
__CPROVER_ensures((xv_j >= 0 && (size_t)xv_j < len) ==> xv_io_c == UT_U8(buf)[xv_j])
;
int xcm_tp_socket_receive(struct xcm_socket *__restrict s, void *__restrict buf, size_t capacity)
__CPROVER_requires(SUB_IO_REQUIRES(s) && (capacity == 0 || __CPROVER_w_ok(buf, capacity)))
__CPROVER_assigns(SUB_IO_ASSIGNS)
__CPROVER_assigns(capacity > 0: __CPROVER_object_upto(buf, capacity))
__CPROVER_ensures(SUB_IO_RECORDED(XV_IO_RECEIVE, s, buf, capacity, __CPROVER_return_value))
__CPROVER_ensures(__CPROVER_return_value >= -1 && (__CPROVER_return_value == -1 ==> xv_errno > 0) && \
                  (__CPROVER_return_value >= 0 ==> (size_t)__CPROVER_return_value <= capacity))
__CPROVER_ensures((xv_j >= 0 && xv_j < (long)__CPROVER_return_value) ==> UT_U8(buf)[xv_j] == xv_io_c)
;
int xcm_tp_socket_finish(struct xcm_socket *s)
__CPROVER_requires(s != NULL && SUB_ST(s, XV_ST_LIVE) && SUB_RANGES(s))
__CPROVER_assigns(xv_errno, XS(s)->fins, XS(s)->fin_rv, XS(s)->fin_errno)
__CPROVER_ensures(XS(s)->fins == __CPROVER_old(XS(s)->fins) + 1 && XS(s)->fin_rv == __CPROVER_return_value && XS(s)->fin_errno == xv_errno)
__CPROVER_ensures(__CPROVER_return_value == 0 || (__CPROVER_return_value == -1 && xv_errno > 0))
;
/* update: records the condition the sub-socket had when its update ran */
void xcm_tp_socket_update(struct xcm_socket *s)
__CPROVER_requires(s != NULL && SUB_OWES(s) && SUB_RANGES(s))
__CPROVER_assigns(XS(s)->updates, XS(s)->upd_cond)
__CPROVER_ensures(XS(s)->updates == __CPROVER_old(XS(s)->updates) + 1 && XS(s)->upd_cond == s->condition)
;
int64_t xcm_tp_socket_get_cnt(struct xcm_socket *conn_s, enum xcm_tp_cnt cnt)
__CPROVER_requires(SUB_IO_REQUIRES(conn_s))
__CPROVER_assigns(xv_cnt_calls, xv_cnt_ret, xv_cnt_arg, xv_cnt_sock)
__CPROVER_ensures(xv_cnt_calls == __CPROVER_old(xv_cnt_calls) + 1 && xv_cnt_ret == __CPROVER_return_value && xv_cnt_arg == (int)cnt && xv_cnt_sock == conn_s)
;
size_t xcm_tp_socket_max_msg(struct xcm_socket *conn_s)
__CPROVER_requires(SUB_IO_REQUIRES(conn_s))
__CPROVER_assigns(xv_mm_calls, xv_mm_ret, xv_mm_sock)
__CPROVER_ensures(xv_mm_calls == __CPROVER_old(xv_mm_calls) + 1 && xv_mm_ret == __CPROVER_return_value && xv_mm_sock == conn_s)
;

/* ---- addresses: common_tp.c (utls_to_tls = xcm_addr_parse_utls + xcm_addr_make_tls), xcm_addr.c, xcm.c.
 * A TLS address is "tls:" <host> ":" <port>; the host is an IP literal or a DNS name of up to 253 characters
 * (xcm_dns_is_valid_name), so the string has 7 .. 4+253+1+5 characters.  Only its length (a ghost) and first characters are modelled:
 * UTLS never looks into the strings, it only strips the "tls:" prefix. */
#define UT_TLS_ADDR_MIN 7
#define UT_TLS_ADDR_MAX (4 + 253 + 1 + 5)
#define UT_IS_TLS_ADDR(a, n) ((n) >= UT_TLS_ADDR_MIN && (n) <= UT_TLS_ADDR_MAX && (a)[0] == 't' && (a)[1] == 'l' && (a)[2] == 's' && (a)[3] == ':' && (a)[4] != 0)
int utls_to_tls(const char *utls_addr, char *tls_addr, size_t capacity)
__CPROVER_requires(capacity == XCM_ADDR_MAX + 1 && __CPROVER_w_ok(tls_addr, capacity))
__CPROVER_assigns(xv_errno, xv_addr_ptr, xv_addr_len, xv_addr_rv, xv_addr_errno, __CPROVER_object_upto(tls_addr, capacity))
__CPROVER_ensures(__CPROVER_return_value == 0 || (__CPROVER_return_value == -1 && (xv_errno == EINVAL || xv_errno == ENAMETOOLONG)))
__CPROVER_ensures(xv_addr_rv == __CPROVER_return_value && xv_addr_errno == xv_errno)
__CPROVER_ensures(__CPROVER_return_value == 0 ==> (xv_addr_ptr == tls_addr && UT_IS_TLS_ADDR(tls_addr, xv_addr_len)))
;
int xcm_addr_parse_utls(const char *utls_addr_s, struct xcm_addr_host *host, uint16_t *port)
__CPROVER_requires(__CPROVER_w_ok(host, sizeof(*host)) && __CPROVER_w_ok(port, sizeof(*port)))
__CPROVER_assigns(xv_errno, xv_addr_rv, xv_addr_errno, *port, __CPROVER_object_upto(host, sizeof(*host)))
__CPROVER_ensures(__CPROVER_return_value == 0 || (__CPROVER_return_value == -1 && (xv_errno == EINVAL || xv_errno == ENAMETOOLONG)))
__CPROVER_ensures(xv_addr_rv == __CPROVER_return_value && xv_addr_errno == xv_errno)
;
/* ASSUMED: a host that xcm_addr_parse_* accepted (an IP address or a name of <= 253 characters) always fits XCM_ADDR_MAX + 1 */
int xcm_addr_make_tls(const struct xcm_addr_host *host, unsigned short port, char *tls_addr_s, size_t capacity)
__CPROVER_requires(capacity == XCM_ADDR_MAX + 1 && __CPROVER_w_ok(tls_addr_s, capacity) && __CPROVER_r_ok(host, sizeof(*host)) && xv_addr_rv == 0)
__CPROVER_assigns(xv_errno, xv_addr_ptr, xv_addr_len, __CPROVER_object_upto(tls_addr_s, capacity))
__CPROVER_ensures(__CPROVER_return_value == 0 && xv_addr_ptr == tls_addr_s && UT_IS_TLS_ADDR(tls_addr_s, xv_addr_len))
;
/* xcm.c -> tls_get_local_addr: the address a LIVE TLS server is bound to, numeric ("tls:" <ip> ":" <port>), kept in the socket.
 * ASSUMED: getsockname(2) on the bound descriptor does not fail (it is not among the calls C08 lets fail); with
 * -DUT_GETSOCKNAME_MAY_FAIL NULL is a possible result */
#define UT_LOCAL_ADDR_MAX (4 + 48 + 1 + 5)
const char *xcm_local_addr(struct xcm_socket *s)
__CPROVER_requires(s != NULL && SUB_ST(s, XV_ST_LIVE))
__CPROVER_assigns(xv_errno, xv_addr_ptr, xv_addr_len)
#ifdef UT_GETSOCKNAME_MAY_FAIL
__CPROVER_ensures(__CPROVER_return_value == NULL || (
#else
__CPROVER_ensures((
#endif
                  __CPROVER_is_fresh(__CPROVER_return_value, UT_LOCAL_ADDR_MAX + 1) && xv_addr_ptr == __CPROVER_return_value && \
                  xv_addr_len <= UT_LOCAL_ADDR_MAX && UT_IS_TLS_ADDR(__CPROVER_return_value, xv_addr_len)))
;
/* ASSUMED: the address just obtained from the bound TLS server parses, and its port is the kernel-allocated (non-zero) one */
int xcm_addr_parse_tls(const char *tls_addr_s, struct xcm_addr_host *host, uint16_t *port)
__CPROVER_requires(tls_addr_s == xv_addr_ptr && __CPROVER_w_ok(host, sizeof(*host)) && __CPROVER_w_ok(port, sizeof(*port)))
__CPROVER_assigns(xv_errno, *port, __CPROVER_object_upto(host, sizeof(*host)))
__CPROVER_ensures(__CPROVER_return_value == 0 && *port != 0)
;
/* xcm_addr_compat.c -> addr_make_ux_uxf (job addr.addr_make_ux_uxf): "ux:" <name>; EINVAL when the name has more than
 * UX_NAME_MAX (107) characters, ENAMETOOLONG when the result does not fit.  The name handed in must be the TLS address
 * produced last without its "tls:" prefix (precondition = obligation at the call site in map_tls_to_ux) */
#define UT_UX_NAME_MAX 107      /* = UX_NAME_MAX = UNIX_PATH_MAX - 1 (xcm_addr_limits.h, linux/un.h) */
int xcm_addr_ux_make(const char *ux_name, char *ux_addr_s, size_t capacity)
__CPROVER_requires(ux_name == xv_addr_ptr + 4 && xv_addr_len >= UT_TLS_ADDR_MIN && xv_addr_len <= UT_TLS_ADDR_MAX)
__CPROVER_requires(capacity == XCM_ADDR_MAX + 1 && __CPROVER_w_ok(ux_addr_s, capacity))
__CPROVER_assigns(xv_errno, xv_uxaddr_len, xv_uxmake_rv, xv_uxmake_errno, __CPROVER_object_upto(ux_addr_s, capacity))
__CPROVER_ensures(__CPROVER_return_value == 0 || (__CPROVER_return_value == -1 && (xv_errno == EINVAL || xv_errno == ENAMETOOLONG)))
__CPROVER_ensures(xv_uxmake_rv == __CPROVER_return_value && xv_uxmake_errno == xv_errno)
__CPROVER_ensures(xv_addr_len - 4 <= UT_UX_NAME_MAX ==> __CPROVER_return_value == 0)
__CPROVER_ensures(__CPROVER_return_value == 0 ==> (xv_uxaddr_len == xv_addr_len - 1 && ux_addr_s[0] == 'u' && ux_addr_s[1] == 'x' && ux_addr_s[2] == ':'))
;

/* ================================================================================================================ */
/* part 2: xcm_tp_utls.c                                                                                            */
/* ================================================================================================================ */
/* shorthands: the sub-socket pointers as they were on entry / are now */
#define OU(s) __CPROVER_old(UT(s)->ux_socket)
#define OT(s) __CPROVER_old(UT(s)->tls_socket)
#define NU(s) (UT(s)->ux_socket)
#define NT(s) (UT(s)->tls_socket)
/* the accounting covers at least the sub-sockets the function is handed: `owing` of them owe a close, `live` of them are live */
#define UT_GHOSTS(owing, live) (XV_SUB_CNT_LIM(XV_GC) && XV_IO_CNT_LIM(XV_GC) && xv_sub_owing >= (owing) && xv_sub_live >= (live) && \
                                xv_proto_ux != NULL && xv_proto_tls != NULL && xv_proto_ux != xv_proto_tls)
#define UT_D(c, d) ((c) == __CPROVER_old(c) + (d))       /* counter c moved by d */
#define UT_ACCOUNT(dcreated, ddestroyed, dowing, dlive) (UT_D(xv_sub_created, dcreated) && UT_D(xv_sub_destroyed, ddestroyed) && UT_D(xv_sub_owing, dowing) && \
                                                         UT_D(xv_sub_live, dlive) && UT_D(xv_sub_leaked, 0))
#define UT_ACC_ASSIGNS xv_acc

/* ---- get_proto / ux_proto / tls_proto: protocol lookup with a per-protocol cache in a function-local static -------------- */
#define UT_PROTO_OF(name) ((name)[0] == 'u' ? xv_proto_ux : xv_proto_tls)
#define UT_IS_UX_OR_TLS(name) (((name)[0] == 'u' && (name)[1] == 'x' && (name)[2] == 0) || ((name)[0] == 't' && (name)[1] == 'l' && (name)[2] == 's' && (name)[3] == 0))
static struct xcm_tp_proto *get_proto(const char *name, struct xcm_tp_proto **cached_proto)
__CPROVER_requires(__CPROVER_is_fresh(name, 4) && UT_IS_UX_OR_TLS(name) && __CPROVER_is_fresh(cached_proto, sizeof(*cached_proto)))
/* the cache invariant: empty, or the protocol of that name */
__CPROVER_requires(*cached_proto == NULL || *cached_proto == UT_PROTO_OF(name))
__CPROVER_requires(xv_proto_ux != NULL && xv_proto_tls != NULL)
__CPROVER_assigns(*cached_proto)
__CPROVER_ensures(__CPROVER_return_value == UT_PROTO_OF(name) && *cached_proto == __CPROVER_return_value)
;
/* ASSUMED (not enforceable: a function-local static cannot be named in a contract, and DFCC starts it with an arbitrary value):
 * the caches of ux_proto()/tls_proto() start as NULL (C initialisation) and are written by get_proto only, which keeps the
 * invariant above (job utls.get_proto); hence */
static struct xcm_tp_proto *ux_proto(void)
__CPROVER_requires(1)
__CPROVER_assigns()
__CPROVER_ensures(__CPROVER_return_value == xv_proto_ux)
;
static struct xcm_tp_proto *tls_proto(void)
__CPROVER_requires(1)
__CPROVER_assigns()
__CPROVER_ensures(__CPROVER_return_value == xv_proto_tls)
;

/* ---- create_sub_socket: create + init; a sub-socket whose init failed is destroyed again (it owes nothing) ------------------- */
static struct xcm_socket *create_sub_socket(struct xcm_tp_proto *proto, enum xcm_socket_type type, struct xpoll *xpoll, struct xcm_socket *parent)
__CPROVER_requires((proto == xv_proto_ux || proto == xv_proto_tls) && UT_GHOSTS(0, 0))
__CPROVER_assigns(xv_errno, UT_ACC_ASSIGNS, xv_init_parent_ux, xv_init_parent_tls)
/* PO[C08] create_sub_socket.initialised_or_nothing: either a new initialised sub-socket of that protocol, or nothing is left behind */
__CPROVER_ensures(__CPROVER_return_value != NULL ==> (__CPROVER_is_fresh(__CPROVER_return_value, SUB_SIZE) && \
                  SUB_FRESH_INIT(__CPROVER_return_value, proto == xv_proto_ux ? XV_K_UX : XV_K_TLS) && UT_ACCOUNT(1, 0, 1, 0)))
__CPROVER_ensures(__CPROVER_return_value == NULL ==> (UT_ACCOUNT(1, 1, 0, 0) && xv_errno > 0))
__CPROVER_ensures(__CPROVER_return_value != NULL ==> (__CPROVER_return_value->type == type && __CPROVER_return_value->xpoll == xpoll && \
                  __CPROVER_return_value->proto == proto && !__CPROVER_return_value->is_blocking && !__CPROVER_return_value->auto_update && \
                  !__CPROVER_return_value->auto_enable_ctl))
;

/* ---- utls_init --------------------------------------------------------------------------------------------------- */
static int utls_init(struct xcm_socket *s, struct xcm_socket *parent)
__CPROVER_requires(__CPROVER_is_fresh(s, UT_SIZE) && (parent != NULL ==> __CPROVER_is_fresh(parent, UT_SIZE)) && UT_GHOSTS(0, 0))
__CPROVER_assigns(xv_errno, UT_ACC_ASSIGNS, UT(s)->ux_socket, UT(s)->tls_socket, xv_init_parent_ux, xv_init_parent_tls)
__CPROVER_ensures(UT_INIT_RV(__CPROVER_return_value))
/* PO[C08] utls_init.two_new_sub_sockets: success = two NEW objects (distinct from each other and from everything else) */
__CPROVER_ensures(__CPROVER_return_value == 0 ==> (__CPROVER_is_fresh(NU(s), SUB_SIZE) && __CPROVER_is_fresh(NT(s), SUB_SIZE)))
/* PO[C08] utls_init.one_ux_one_tls_initialised: one of the "ux", one of the "tls" protocol, both initialised (they owe a close), nothing attempted on them */
__CPROVER_ensures(__CPROVER_return_value == 0 ==> (SUB_FRESH_INIT(NU(s), XV_K_UX) && SUB_FRESH_INIT(NT(s), XV_K_TLS)))
/* PO[C08] utls_init.accounting: exactly two created, none destroyed, none live yet */
__CPROVER_ensures(__CPROVER_return_value == 0 ==> UT_ACCOUNT(2, 0, 2, 0))
/* PO[C08] utls_init.failure_leaves_nothing: everything created is destroyed again, after the close it owed (if any) */
__CPROVER_ensures(__CPROVER_return_value != 0 ==> (xv_sub_created - xv_sub_destroyed == __CPROVER_old(xv_sub_created) - __CPROVER_old(xv_sub_destroyed) && \
                  UT_D(xv_sub_owing, 0) && UT_D(xv_sub_live, 0) && UT_D(xv_sub_leaked, 0)))
/* the sub-sockets share the socket's type and xpoll instance, are never blocking (C05), never auto-updated, carry no control
 * interface of their own, and inherit from the matching sub-socket of the parent */
__CPROVER_ensures(__CPROVER_return_value == 0 ==> (NU(s)->type == s->type && NT(s)->type == s->type && NU(s)->xpoll == s->xpoll && NT(s)->xpoll == s->xpoll))
__CPROVER_ensures(__CPROVER_return_value == 0 ==> (!NU(s)->is_blocking && !NT(s)->is_blocking && !NU(s)->auto_update && !NT(s)->auto_update && \
                                                   !NU(s)->auto_enable_ctl && !NT(s)->auto_enable_ctl))
__CPROVER_ensures(__CPROVER_return_value == 0 ==> (NU(s)->proto == xv_proto_ux && NT(s)->proto == xv_proto_tls))
__CPROVER_ensures(__CPROVER_return_value == 0 ==> (xv_init_parent_ux == (parent != NULL ? UT(parent)->ux_socket : NULL) && \
                                                   xv_init_parent_tls == (parent != NULL ? UT(parent)->tls_socket : NULL)))
;

/* ---- a UTLS socket between init and connect/server/accept: both sub-sockets exist and are initialised ----------- */
#define UT_PRISTINE_REQ(s) (__CPROVER_is_fresh(s, UT_SIZE) && __CPROVER_is_fresh(UT(s)->ux_socket, SUB_SIZE) && __CPROVER_is_fresh(UT(s)->tls_socket, SUB_SIZE) && \
                            SUB_FRESH_INIT(UT(s)->ux_socket, XV_K_UX) && SUB_FRESH_INIT(UT(s)->tls_socket, XV_K_TLS))
#define UT_SUBS_ASSIGNS(s) UT(s)->ux_socket, UT(s)->tls_socket, *XS(UT(s)->ux_socket), *XS(UT(s)->tls_socket)
/* total failure: both gone, nothing live, each closed exactly when it still owed a close (= it was never tried) */
#define UT_NOTHING_LEFT(s) (NU(s) == NULL && NT(s) == NULL && SUB_ST(OU(s), XV_ST_DESTROYED) && SUB_ST(OT(s), XV_ST_DESTROYED) && \
                            XS(OU(s))->closes + XS(OU(s))->tries == 1 && XS(OT(s))->closes + XS(OT(s))->tries == 1 && \
                            XS(OU(s))->cleanups == 0 && XS(OT(s))->cleanups == 0 && UT_ACCOUNT(0, 2, -2, 0))
/* exactly one leg is left, it is the old object and live; the other was closed iff it had not been tried, then destroyed */
#define UT_ONE_LEG(s) ((NU(s) != NULL) != (NT(s) != NULL) && \
        (NU(s) != NULL ==> (NU(s) == OU(s) && SUB_ST(NU(s), XV_ST_LIVE) && XS(NU(s))->closes == 0 && XS(NU(s))->op_rv == 0 && \
                            SUB_ST(OT(s), XV_ST_DESTROYED) && XS(OT(s))->closes + XS(OT(s))->tries == 1)) && \
        (NT(s) != NULL ==> (NT(s) == OT(s) && SUB_ST(NT(s), XV_ST_LIVE) && XS(NT(s))->closes == 0 && XS(NT(s))->op_rv == 0 && \
                            SUB_ST(OU(s), XV_ST_DESTROYED) && XS(OU(s))->closes + XS(OU(s))->tries == 1)) && \
        XS(OU(s))->cleanups == 0 && XS(OT(s))->cleanups == 0)

/* ---- deinit: both sub-sockets (those that still exist) are destroyed and both fields cleared.  It closes nothing: whoever calls it
 * must have closed what owed a close -- a sub-socket destroyed while it owes one is counted in xv_sub_leaked.
 * Shapes as for utls_close (a -D of the job): @both (default), @ux, @tls, @null */
#define UT_DEINIT_SUB_REQ(p) (__CPROVER_is_fresh(p, SUB_SIZE) && XS(p)->st >= XV_ST_CREATED && XS(p)->st <= XV_ST_CLOSED)
#define UT_OWED(old_st) (((old_st) == XV_ST_INIT || (old_st) == XV_ST_LIVE) ? 1 : 0)
#define UT_DEINIT_SUB_OWED(s, f) UT_OWED(__CPROVER_old(XS(UT(s)->f)->st))
#if defined(UT_SHAPE_NULL)
#define UT_DEINIT_REQ(s) (__CPROVER_is_fresh(s, UT_SIZE) && UT(s)->ux_socket == NULL && UT(s)->tls_socket == NULL)
#define UT_DEINIT_ASSIGNS(s) __CPROVER_assigns(xv_acc, UT(s)->ux_socket, UT(s)->tls_socket)
#define UT_DEINIT_DONE(s) (UT_D(xv_sub_destroyed, 0) && UT_D(xv_sub_leaked, 0))
#elif defined(UT_SHAPE_UX)
#define UT_DEINIT_REQ(s) (__CPROVER_is_fresh(s, UT_SIZE) && UT_DEINIT_SUB_REQ(UT(s)->ux_socket) && UT(s)->tls_socket == NULL)
#define UT_DEINIT_ASSIGNS(s) __CPROVER_assigns(xv_acc, UT(s)->ux_socket, UT(s)->tls_socket, XS(UT(s)->ux_socket)->st)
#define UT_DEINIT_DONE(s) (SUB_ST(OU(s), XV_ST_DESTROYED) && UT_D(xv_sub_destroyed, 1) && UT_D(xv_sub_leaked, UT_DEINIT_SUB_OWED(s, ux_socket)))
#elif defined(UT_SHAPE_TLS)
#define UT_DEINIT_REQ(s) (__CPROVER_is_fresh(s, UT_SIZE) && UT_DEINIT_SUB_REQ(UT(s)->tls_socket) && UT(s)->ux_socket == NULL)
#define UT_DEINIT_ASSIGNS(s) __CPROVER_assigns(xv_acc, UT(s)->ux_socket, UT(s)->tls_socket, XS(UT(s)->tls_socket)->st)
#define UT_DEINIT_DONE(s) (SUB_ST(OT(s), XV_ST_DESTROYED) && UT_D(xv_sub_destroyed, 1) && UT_D(xv_sub_leaked, UT_DEINIT_SUB_OWED(s, tls_socket)))
#else
#define UT_DEINIT_REQ(s) (__CPROVER_is_fresh(s, UT_SIZE) && UT_DEINIT_SUB_REQ(UT(s)->ux_socket) && UT_DEINIT_SUB_REQ(UT(s)->tls_socket))
#define UT_DEINIT_ASSIGNS(s) __CPROVER_assigns(xv_acc, UT(s)->ux_socket, UT(s)->tls_socket, XS(UT(s)->ux_socket)->st, XS(UT(s)->tls_socket)->st)
#define UT_DEINIT_DONE(s) (SUB_ST(OU(s), XV_ST_DESTROYED) && SUB_ST(OT(s), XV_ST_DESTROYED) && UT_D(xv_sub_destroyed, 2) && \
                           UT_D(xv_sub_leaked, UT_DEINIT_SUB_OWED(s, ux_socket) + UT_DEINIT_SUB_OWED(s, tls_socket)))
#endif
static void deinit(struct xcm_socket *s)
__CPROVER_requires(UT_DEINIT_REQ(s) && UT_GHOSTS(0, 0))
UT_DEINIT_ASSIGNS(s)
/* PO[C08] deinit.destroys_each_once_and_forgets_them: every sub-socket that exists is destroyed exactly once and both fields are cleared (no dangling pointer, no second destroy later); closing is the caller's duty, and what still owed a close is counted as leaked */
__CPROVER_ensures(NU(s) == NULL && NT(s) == NULL && UT_DEINIT_DONE(s) && UT_D(xv_sub_created, 0) && UT_D(xv_sub_owing, 0) && UT_D(xv_sub_live, 0))
;

/* ---- utls_connect -------------------------------------------------------------------------------------------------- */
static int utls_connect(struct xcm_socket *s, const char *remote_addr)
__CPROVER_requires(UT_PRISTINE_REQ(s) && __CPROVER_is_fresh(remote_addr, 8) && UT_GHOSTS(2, 0))
__CPROVER_assigns(xv_errno, UT_ACC_ASSIGNS, UT_SUBS_ASSIGNS(s), xv_adr)
__CPROVER_ensures(__CPROVER_return_value == 0 || (__CPROVER_return_value == -1 && xv_errno > 0))
/* PO[C01,C08] utls_connect.exactly_one_leg: success = exactly one sub-socket left, live; the other closed (unless its own connect failed) and destroyed */
__CPROVER_ensures(__CPROVER_return_value == 0 ==> (UT_ONE_LEG(s) && UT_ACCOUNT(0, 1, -1, 1)))
/* PO[C08] utls_connect.failure_leaves_nothing: nothing live, both sub-sockets destroyed, each closed exactly once unless its own connect had failed */
__CPROVER_ensures(__CPROVER_return_value == -1 ==> UT_NOTHING_LEFT(s))
/* each leg is tried at most once; TLS only when UX was not tried at all or refused (ECONNREFUSED: no such UX server here),
 * and then after UX; nothing is tried with an address that does not parse */
/* PO[C01] utls_connect.ux_first_tls_on_refusal_only */
__CPROVER_ensures(XS(OU(s))->tries <= 1 && XS(OT(s))->tries <= 1 && (xv_addr_rv != 0 ==> (XS(OU(s))->tries == 0 && XS(OT(s))->tries == 0)) && \
                  ((XS(OT(s))->tries == 1 && XS(OU(s))->tries == 1) ==> (XS(OU(s))->op_rv == -1 && XS(OU(s))->op_errno == ECONNREFUSED && \
                                                                         XS(OU(s))->op_seq < XS(OT(s))->op_seq)) && \
                  ((XS(OU(s))->tries == 1 && XS(OU(s))->op_rv == -1 && XS(OU(s))->op_errno == ECONNREFUSED) ==> XS(OT(s))->tries == 1))
/* each leg is given the address of its own transport */
__CPROVER_ensures((XS(OU(s))->tries == 1 ==> XS(OU(s))->addr0 == 'u') && (XS(OT(s))->tries == 1 ==> XS(OT(s))->addr0 == 't'))
/* the errno of a failure is that of the step that failed (close and destroy leave errno alone) */
__CPROVER_ensures(__CPROVER_return_value == -1 ==> (xv_addr_rv != 0 ? xv_errno == xv_addr_errno : \
                                                    XS(OT(s))->tries == 1 ? xv_errno == XS(OT(s))->op_errno : \
                                                    XS(OU(s))->tries == 1 ? xv_errno == XS(OU(s))->op_errno : xv_errno == xv_uxmake_errno))
;

/* ---- utls_server --------------------------------------------------------------------------------------------------- */
static int utls_server(struct xcm_socket *s, const char *local_addr)
__CPROVER_requires(UT_PRISTINE_REQ(s) && __CPROVER_is_fresh(local_addr, 8) && UT_GHOSTS(2, 0))
__CPROVER_assigns(xv_errno, UT_ACC_ASSIGNS, UT_SUBS_ASSIGNS(s), xv_adr)
__CPROVER_ensures(__CPROVER_return_value == 0 || (__CPROVER_return_value == -1 && xv_errno > 0))
/* PO[C08] utls_server.success_both_live: both sub-servers are the old objects, bound, never closed; nothing created or destroyed */
__CPROVER_ensures(__CPROVER_return_value == 0 ==> (NU(s) == OU(s) && NT(s) == OT(s) && SUB_ST(NU(s), XV_ST_LIVE) && SUB_ST(NT(s), XV_ST_LIVE) && \
                  XS(NU(s))->closes == 0 && XS(NT(s))->closes == 0 && XS(NU(s))->tries == 1 && XS(NT(s))->tries == 1 && UT_ACCOUNT(0, 0, 0, 2)))
/* PO[C08] utls_server.failure_leaves_nothing_live: no sub-socket stays bound, nothing is destroyed while it owes a close (F10) */
__CPROVER_ensures(__CPROVER_return_value == -1 ==> (NU(s) == NULL && NT(s) == NULL && SUB_ST(OU(s), XV_ST_DESTROYED) && SUB_ST(OT(s), XV_ST_DESTROYED) && \
                  UT_ACCOUNT(0, 2, -2, 0)))
/* PO[C08] utls_server.closed_exactly_when_owed: a sub-server is closed once if it was never bound or its bind succeeded, never after its own bind failed */
__CPROVER_ensures(__CPROVER_return_value == -1 ==> ( \
        XS(OU(s))->closes == ((XS(OU(s))->tries == 0 || XS(OU(s))->op_rv == 0) ? 1 : 0) && \
        XS(OT(s))->closes == ((XS(OT(s))->tries == 0 || XS(OT(s))->op_rv == 0) ? 1 : 0) && XS(OU(s))->cleanups == 0 && XS(OT(s))->cleanups == 0))
/* TLS is bound first (kernel-allocated ports), UX second and only if TLS is bound; each with the address of its transport */
__CPROVER_ensures(XS(OU(s))->tries <= 1 && XS(OT(s))->tries <= 1 && (xv_addr_rv != 0 ==> (XS(OU(s))->tries == 0 && XS(OT(s))->tries == 0)) && \
                  (XS(OU(s))->tries == 1 ==> (XS(OT(s))->tries == 1 && XS(OT(s))->op_rv == 0 && XS(OT(s))->op_seq < XS(OU(s))->op_seq)) && \
                  (XS(OU(s))->tries == 1 ==> XS(OU(s))->addr0 == 'u') && (XS(OT(s))->tries == 1 ==> XS(OT(s))->addr0 == 't'))
__CPROVER_ensures(__CPROVER_return_value == -1 ==> (xv_addr_rv != 0 ? xv_errno == xv_addr_errno : \
                                                    XS(OU(s))->tries == 1 ? xv_errno == XS(OU(s))->op_errno : \
                                                    XS(OT(s))->op_rv != 0 ? xv_errno == XS(OT(s))->op_errno : xv_errno == xv_uxmake_errno))
;

/* ---- utls_accept --------------------------------------------------------------------------------------------------- */
#define UT_SERVER_REQ(s) (__CPROVER_is_fresh(s, UT_SIZE) && __CPROVER_is_fresh(UT(s)->ux_socket, SUB_SIZE) && __CPROVER_is_fresh(UT(s)->tls_socket, SUB_SIZE) && \
                          SUB_IS_LIVE(UT(s)->ux_socket, XV_K_UX) && SUB_IS_LIVE(UT(s)->tls_socket, XV_K_TLS))
static int utls_accept(struct xcm_socket *conn_s, struct xcm_socket *server_s)
__CPROVER_requires(UT_PRISTINE_REQ(conn_s) && UT_SERVER_REQ(server_s) && UT_GHOSTS(4, 2))
/* the frame: the server socket and its two sub-servers are in no assigns clause */
__CPROVER_assigns(xv_errno, UT_ACC_ASSIGNS, UT_SUBS_ASSIGNS(conn_s))
__CPROVER_ensures(__CPROVER_return_value == 0 || (__CPROVER_return_value == -1 && xv_errno > 0))
/* PO[C01,C08] utls_accept.exactly_one_leg */
__CPROVER_ensures(__CPROVER_return_value == 0 ==> (UT_ONE_LEG(conn_s) && UT_ACCOUNT(0, 1, -1, 1)))
/* PO[C08] utls_accept.failure_leaves_nothing */
__CPROVER_ensures(__CPROVER_return_value == -1 ==> UT_NOTHING_LEFT(conn_s))
/* each leg accepts from the sub-server of its own kind; UX is asked first, TLS only if UX had nothing / failed */
/* PO[C01] utls_accept.pairs_legs */
__CPROVER_ensures(XS(OU(conn_s))->tries == 1 && XS(OU(conn_s))->from_kind == XV_K_UX && \
                  XS(OT(conn_s))->tries == (XS(OU(conn_s))->op_rv == 0 ? 0 : 1) && \
                  (XS(OT(conn_s))->tries == 1 ==> (XS(OT(conn_s))->from_kind == XV_K_TLS && XS(OU(conn_s))->op_seq < XS(OT(conn_s))->op_seq)))
__CPROVER_ensures(__CPROVER_return_value == -1 ==> xv_errno == XS(OT(conn_s))->op_errno)
;

/* ---- utls_close / utls_cleanup ------------------------------------------------------------------------------------- */
/* any state in which close may be called (xcm_tp.h): after init (both sub-sockets, initialised), after a successful server
 * (both, live), after a successful connect/accept (one leg, live); i.e. every sub-socket that exists owes a close.  NULL: no-op.
 * One job per shape (a -D of the job; see UT_LEG above for why): @both (default), @ux (-DUT_SHAPE_UX), @tls (-DUT_SHAPE_TLS),
 * @null (-DUT_SHAPE_NULL: no socket, or no sub-socket) */
#define UT_END_SUB_REQ(p) (__CPROVER_is_fresh(p, SUB_SIZE) && SUB_OWES(p) && SUB_RANGES_ENTRY(p))
#define UT_END_SUB_LIVE(s, f) (SUB_ST(UT(s)->f, XV_ST_LIVE) ? 1 : 0)
#define UT_END_SUB_WAS_LIVE(s, f) (__CPROVER_old(XS(UT(s)->f)->st) == XV_ST_LIVE ? 1 : 0)
/* the sub-socket that was in field f: `how` (closes / cleanups) went up by one, `other` did not move, and it is destroyed */
#define UT_ENDED_SUB(s, f, how, other) (SUB_ST(__CPROVER_old(UT(s)->f), XV_ST_DESTROYED) && \
        XS(__CPROVER_old(UT(s)->f))->how == __CPROVER_old(XS(UT(s)->f)->how) + 1 && XS(__CPROVER_old(UT(s)->f))->other == __CPROVER_old(XS(UT(s)->f)->other))
#if defined(UT_SHAPE_NULL)
#define UT_CLOSABLE_REQ(s) (((s) == NULL || (__CPROVER_is_fresh(s, UT_SIZE) && UT(s)->ux_socket == NULL && UT(s)->tls_socket == NULL)) && UT_GHOSTS(0, 0))
#define UT_END_ASSIGNS(s) __CPROVER_assigns(UT_ACC_ASSIGNS) __CPROVER_assigns(s != NULL: UT(s)->ux_socket, UT(s)->tls_socket)
#define UT_ENDED(s, how, other) (UT_ACCOUNT(0, 0, 0, 0) && ((s) != NULL ==> (NU(s) == NULL && NT(s) == NULL)))
#elif defined(UT_SHAPE_UX)
#define UT_CLOSABLE_REQ(s) (__CPROVER_is_fresh(s, UT_SIZE) && UT_END_SUB_REQ(UT(s)->ux_socket) && UT(s)->tls_socket == NULL && UT_GHOSTS(1, UT_END_SUB_LIVE(s, ux_socket)))
#define UT_END_ASSIGNS(s) __CPROVER_assigns(UT_ACC_ASSIGNS, UT(s)->ux_socket, UT(s)->tls_socket, *XS(UT(s)->ux_socket))
#define UT_ENDED(s, how, other) (NU(s) == NULL && NT(s) == NULL && UT_ENDED_SUB(s, ux_socket, how, other) && UT_ACCOUNT(0, 1, -1, -UT_END_SUB_WAS_LIVE(s, ux_socket)))
#elif defined(UT_SHAPE_TLS)
#define UT_CLOSABLE_REQ(s) (__CPROVER_is_fresh(s, UT_SIZE) && UT_END_SUB_REQ(UT(s)->tls_socket) && UT(s)->ux_socket == NULL && UT_GHOSTS(1, UT_END_SUB_LIVE(s, tls_socket)))
#define UT_END_ASSIGNS(s) __CPROVER_assigns(UT_ACC_ASSIGNS, UT(s)->ux_socket, UT(s)->tls_socket, *XS(UT(s)->tls_socket))
#define UT_ENDED(s, how, other) (NU(s) == NULL && NT(s) == NULL && UT_ENDED_SUB(s, tls_socket, how, other) && UT_ACCOUNT(0, 1, -1, -UT_END_SUB_WAS_LIVE(s, tls_socket)))
#else
#define UT_CLOSABLE_REQ(s) (__CPROVER_is_fresh(s, UT_SIZE) && UT_END_SUB_REQ(UT(s)->ux_socket) && UT_END_SUB_REQ(UT(s)->tls_socket) && \
                            UT_GHOSTS(2, UT_END_SUB_LIVE(s, ux_socket) + UT_END_SUB_LIVE(s, tls_socket)))
#define UT_END_ASSIGNS(s) __CPROVER_assigns(UT_ACC_ASSIGNS, UT(s)->ux_socket, UT(s)->tls_socket, *XS(UT(s)->ux_socket), *XS(UT(s)->tls_socket))
#define UT_ENDED(s, how, other) (NU(s) == NULL && NT(s) == NULL && UT_ENDED_SUB(s, ux_socket, how, other) && UT_ENDED_SUB(s, tls_socket, how, other) && \
                                 UT_ACCOUNT(0, 2, -2, -(UT_END_SUB_WAS_LIVE(s, ux_socket) + UT_END_SUB_WAS_LIVE(s, tls_socket))))
#endif
static void utls_close(struct xcm_socket *s)
__CPROVER_requires(UT_CLOSABLE_REQ(s))
UT_END_ASSIGNS(s)
/* PO[C08] utls_close.each_closed_once_then_destroyed: every existing sub-socket is closed (not cleaned up) exactly once, then destroyed; both fields are cleared; nothing leaks; errno is in no assigns clause */
__CPROVER_ensures(UT_ENDED(s, closes, cleanups))
;
static void utls_cleanup(struct xcm_socket *s)
__CPROVER_requires(UT_CLOSABLE_REQ(s))
UT_END_ASSIGNS(s)
/* PO[C08] utls_cleanup.each_cleaned_once_then_destroyed: every existing sub-socket is cleaned up (NEVER closed: a forked child must not touch the owner's connection) exactly once, then destroyed */
__CPROVER_ensures(UT_ENDED(s, cleanups, closes))
;

/* ---- an established UTLS connection: exactly one leg, live ---------------------------------------------------------- */
/* Which leg is the live one is a -D of the job (variants @ux: default, @tls: -DUT_LEG_TLS): with both shapes in one formula every
 * clause about "the live leg" goes through a pointer that is NULL in the other shape, which made the formulas ten times larger.
 * (A ghost pointer ASSUMED equal to the field does not help: CBMC cannot dereference through it, trap (a).) */
#ifdef UT_LEG_TLS
#define UT_LEG(s) (UT(s)->tls_socket)
#define UT_NOLEG(s) (UT(s)->ux_socket)
#define UT_LEG_KIND XV_K_TLS
#else
#define UT_LEG(s) (UT(s)->ux_socket)
#define UT_NOLEG(s) (UT(s)->tls_socket)
#define UT_LEG_KIND XV_K_UX
#endif
#define UT_CONN_REQ(s) (__CPROVER_is_fresh(s, UT_SIZE) && __CPROVER_is_fresh(UT_LEG(s), SUB_SIZE) && SUB_IS_LIVE(UT_LEG(s), UT_LEG_KIND) && UT_NOLEG(s) == NULL)
#define UT_LEN_MAX (1UL << 33)      /* buffers above this size are not explored (is_fresh needs a bound); beyond what an int can report */
#define UT_BUF(p, n) __CPROVER_is_fresh((p), (n) == 0 ? 1 : (n))

static struct xcm_socket *active_sub_conn(struct xcm_socket *s)
__CPROVER_requires(UT_CONN_REQ(s))
__CPROVER_assigns()
/* PO[C01] active_sub_conn.the_live_leg */
__CPROVER_ensures(__CPROVER_return_value == UT_LEG(s) && __CPROVER_return_value != NULL)
;

static int utls_send(struct xcm_socket *__restrict s, const void *__restrict buf, size_t len)
__CPROVER_requires(UT_CONN_REQ(s) && len <= UT_LEN_MAX && UT_BUF(buf, len) && UT_GHOSTS(1, 1))
/* the frame: errno and the record of the sub-socket's send; NOT the socket, its legs, the message, the accounting */
__CPROVER_assigns(SUB_IO_ASSIGNS)
/* PO[C01,C03] utls_send.one_send_on_the_live_leg: exactly one send, on the live sub-socket, of exactly (buf, len) */
__CPROVER_ensures(xv_io_calls == __CPROVER_old(xv_io_calls) + 1 && xv_io_op == XV_IO_SEND && xv_io_sock == UT_LEG(s) && xv_io_buf == buf && xv_io_len == len)
/* PO[C01,C03] utls_send.result_unchanged: its result and errno are handed back as they are */
__CPROVER_ensures(__CPROVER_return_value == xv_io_ret && xv_errno == xv_io_errno)
/* PO[C01] utls_send.bytes: the sub-socket saw the application's bytes */
__CPROVER_ensures((xv_j >= 0 && (size_t)xv_j < len) ==> xv_io_c == UT_U8(buf)[xv_j])
;

static int utls_receive(struct xcm_socket *__restrict s, void *__restrict buf, size_t capacity)
__CPROVER_requires(UT_CONN_REQ(s) && capacity <= UT_LEN_MAX && UT_BUF(buf, capacity) && UT_GHOSTS(1, 1))
__CPROVER_assigns(SUB_IO_ASSIGNS)
__CPROVER_assigns(capacity > 0: __CPROVER_object_upto(buf, capacity))
/* PO[C01] utls_receive.one_receive_on_the_live_leg: exactly one receive, on the live sub-socket, into exactly (buf, capacity) */
__CPROVER_ensures(xv_io_calls == __CPROVER_old(xv_io_calls) + 1 && xv_io_op == XV_IO_RECEIVE && xv_io_sock == UT_LEG(s) && xv_io_buf == buf && xv_io_len == capacity)
/* PO[C01] utls_receive.result_unchanged */
__CPROVER_ensures(__CPROVER_return_value == xv_io_ret && xv_errno == xv_io_errno && __CPROVER_return_value >= -1 && \
                  (__CPROVER_return_value >= 0 ==> (size_t)__CPROVER_return_value <= capacity))
/* PO[C01] utls_receive.bytes: what is delivered is what the sub-socket stored */
__CPROVER_ensures((xv_j >= 0 && xv_j < (long)__CPROVER_return_value) ==> UT_U8(buf)[xv_j] == xv_io_c)
;

/* utls_finish and utls_update serve both socket types.  One job per shape (-DUT_T_SERVER selects the server shape; the default
 * is the connection shape with the leg chosen as above) */
#ifdef UT_T_SERVER
#define UT_TYPED_REQ(s) (UT_SERVER_REQ(s) && (s)->type == xcm_socket_type_server)
#define UT_TYPED_ASSIGNS(s, rec) __CPROVER_assigns(rec(UT(s)->ux_socket), rec(UT(s)->tls_socket))
#else
#define UT_TYPED_REQ(s) (UT_CONN_REQ(s) && (s)->type == xcm_socket_type_conn)
#define UT_TYPED_ASSIGNS(s, rec) __CPROVER_assigns(rec(UT_LEG(s)))
#endif
/* ---- utls_finish: connection = the live leg's finish; server = both sub-servers, UX first, stopping at the first failure */
#define UT_FINISHED_ONCE(p, rv) (XS(p)->fins == __CPROVER_old(XS(p)->fins) + 1 && (rv) == XS(p)->fin_rv && xv_errno == XS(p)->fin_errno)
#define UT_FIN_REC(p) XS(p)->fins, XS(p)->fin_rv, XS(p)->fin_errno
static int utls_finish(struct xcm_socket *s)
__CPROVER_requires(UT_TYPED_REQ(s) && UT_GHOSTS(1, 1))
__CPROVER_assigns(xv_errno)
UT_TYPED_ASSIGNS(s, UT_FIN_REC)
#ifndef UT_T_SERVER
/* PO[C01,C04] utls_finish.conn_is_the_live_legs_finish: one finish on the live leg, result and errno unchanged */
__CPROVER_ensures(UT_FINISHED_ONCE(UT_LEG(s), __CPROVER_return_value))
#else
/* PO[C04] utls_finish.server_both: success only if both sub-servers finished; the first failure is reported with its errno */
__CPROVER_ensures(XS(NU(s))->fins == __CPROVER_old(XS(UT(s)->ux_socket)->fins) + 1 && \
        XS(NT(s))->fins == __CPROVER_old(XS(UT(s)->tls_socket)->fins) + (XS(NU(s))->fin_rv < 0 ? 0 : 1) && \
        (XS(NU(s))->fin_rv < 0 ? (__CPROVER_return_value == -1 && xv_errno == XS(NU(s))->fin_errno) : \
         XS(NT(s))->fin_rv < 0 ? (__CPROVER_return_value == -1 && xv_errno == XS(NT(s))->fin_errno) : __CPROVER_return_value == 0))
#endif
/* the socket itself (type, legs) is in no assigns clause */
__CPROVER_ensures(__CPROVER_return_value == 0 || __CPROVER_return_value == -1)
;

/* ---- utls_update (C04/C16): the awaited condition reaches the sub-socket(s) BEFORE their update runs ----------------- */
#define UT_UPDATED_ONCE(s, p) ((p)->condition == (s)->condition && XS(p)->upd_cond == (s)->condition && XS(p)->updates == __CPROVER_old(XS(p)->updates) + 1)
#define UT_UPD_REC(p) (p)->condition, XS(p)->updates, XS(p)->upd_cond
static void utls_update(struct xcm_socket *s)
__CPROVER_requires(UT_TYPED_REQ(s) && UT_GHOSTS(1, 1))
/* the frame: of the sub-sockets only `condition` and the update record; not errno, not the socket's own condition */
UT_TYPED_ASSIGNS(s, UT_UPD_REC)
#ifndef UT_T_SERVER
/* PO[C04,C16] utls_update.conn_forwards_condition: the live leg awaits exactly what the application awaits, and its update ran once, seeing that condition */
__CPROVER_ensures(UT_UPDATED_ONCE(s, UT_LEG(s)))
#else
/* PO[C04,C16] utls_update.server_forwards_condition_to_both */
__CPROVER_ensures(UT_UPDATED_ONCE(s, UT(s)->ux_socket) && UT_UPDATED_ONCE(s, UT(s)->tls_socket))
#endif
__CPROVER_ensures(s->condition == __CPROVER_old(s->condition))
;

/* ---- utls_get_cnt (C17), utls_max_msg: those of the live leg --------------------------------------------------------- */
static int64_t utls_get_cnt(struct xcm_socket *conn_s, enum xcm_tp_cnt cnt)
__CPROVER_requires(UT_CONN_REQ(conn_s) && UT_GHOSTS(1, 1))
__CPROVER_assigns(xv_cnt_calls, xv_cnt_ret, xv_cnt_arg, xv_cnt_sock)
/* PO[C17] utls_get_cnt.the_live_legs_counter: one query of the live sub-socket for the SAME counter; its value is returned unchanged */
__CPROVER_ensures(xv_cnt_calls == __CPROVER_old(xv_cnt_calls) + 1 && xv_cnt_sock == UT_LEG(conn_s) && xv_cnt_arg == (int)cnt && __CPROVER_return_value == xv_cnt_ret)
;
static size_t utls_max_msg(struct xcm_socket *conn_s)
__CPROVER_requires(UT_CONN_REQ(conn_s) && UT_GHOSTS(1, 1))
__CPROVER_assigns(xv_mm_calls, xv_mm_ret, xv_mm_sock)
/* PO[C01,C03] utls_max_msg.the_live_legs_limit: the limit reported is the one the live leg enforces */
__CPROVER_ensures(xv_mm_calls == __CPROVER_old(xv_mm_calls) + 1 && xv_mm_sock == UT_LEG(conn_s) && __CPROVER_return_value == xv_mm_ret)
;

#include "contracts/end.h"
#endif
