#ifndef XV_FULL_CHECKS
#pragma CPROVER check pop
#endif
