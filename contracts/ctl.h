/* contracts/ctl.h -- libxcm/ctl/ctl.c, the per-socket control interface, server side (C14).
 * Attached by redeclaration after the real TU (and env/ctl_env.h, which holds the unit's ghost state) were included.
 *
 * Conventions: xv_ctl_j / xv_ctl_i / xv_ctl_p / xv_ctl_reg are ghost indices nobody assigns -- a clause about "the byte
 * at xv_ctl_j" is proved for every offset.  xv_ctl_g_* are ghost constants bound to entry values by a requires clause.
 */
#ifndef XV_CTL_H
#define XV_CTL_H
#include "contracts/begin.h"

/* ------------------------------------------------------------------ strings without quantifiers */
#define XV_ROOM(p) ((size_t)(__CPROVER_OBJECT_SIZE(p) - (size_t)__CPROVER_POINTER_OFFSET(p)))
#define XV_Z1(p, k) ((size_t)(k) < XV_ROOM(p) && (p)[k] == 0)
#define XV_Z4(p, k) (XV_Z1(p, k) || XV_Z1(p, (k) + 1) || XV_Z1(p, (k) + 2) || XV_Z1(p, (k) + 3))
#define XV_Z16(p, k) (XV_Z4(p, k) || XV_Z4(p, (k) + 4) || XV_Z4(p, (k) + 8) || XV_Z4(p, (k) + 12))
/* p is a C string of fewer than 64 characters whose terminator lies inside the object p points into */
#define XV_CSTR64(p) (XV_Z16(p, 0) || XV_Z16(p, 16) || XV_Z16(p, 32) || XV_Z16(p, 48))
#define XV_N1(p, k, n) ((size_t)(k) < (n) ==> (p)[k] != 0)
#define XV_N4(p, k, n) (XV_N1(p, k, n) && XV_N1(p, (k) + 1, n) && XV_N1(p, (k) + 2, n) && XV_N1(p, (k) + 3, n))
#define XV_N16(p, k, n) (XV_N4(p, k, n) && XV_N4(p, (k) + 4, n) && XV_N4(p, (k) + 8, n) && XV_N4(p, (k) + 12, n))
/* no NUL among the first n (< 96) characters of p */
#define XV_NONUL96(p, n) (XV_N16(p, 0, n) && XV_N16(p, 16, n) && XV_N16(p, 32, n) && XV_N16(p, 48, n) && XV_N16(p, 64, n) && XV_N16(p, 80, n))
/* p is the string "tls.key" (XCM_ATTR_TLS_KEY) */
#define XV_IS_TLS_KEY(p) ((p)[0] == 't' && (p)[1] == 'l' && (p)[2] == 's' && (p)[3] == '.' && (p)[4] == 'k' && (p)[5] == 'e' && (p)[6] == 'y' && (p)[7] == 0)

#ifndef XV_CTL_NAME_OBJ
#define XV_CTL_NAME_OBJ 96      /* attribute names of 0..95 characters are explored (the wire field holds 63) */
#endif
#ifndef XV_CTL_LEN_MAX
#define XV_CTL_LEN_MAX 1024     /* attribute values of 0..1024 bytes are explored (the wire field holds 512)  */
#endif

/* ------------------------------------------------------------------ xcm_attr_get (libxcm/core/xcm.c), ASSUMED
 * name must be a C string terminated inside the object it points into (and shorter than XCM_ATTR_NAME_MAX);
 * at most `capacity` bytes of value are written; the ghosts record what the in-process call reported. */
int xcm_attr_get(struct xcm_socket *s, const char *name, enum xcm_attr_type *type, void *value, size_t capacity)
__CPROVER_requires(XV_CTL_Z_LO)
__CPROVER_requires(XV_CTL_Z_HI)
__CPROVER_requires(XV_CSTR64(name))
__CPROVER_requires(capacity <= 0x7fffffffUL && __CPROVER_w_ok(type, sizeof(*type)) && __CPROVER_w_ok(value, capacity))
__CPROVER_assigns(xv_errno, *type, __CPROVER_object_upto(value, capacity + (size_t)xv_ctl_z), xv_ctl_get_rv, xv_ctl_get_errno, xv_ctl_get_type, xv_ctl_get_j, xv_ctl_get_calls)
__CPROVER_ensures(__CPROVER_return_value >= -1 && (__CPROVER_return_value < 0 || (size_t)__CPROVER_return_value <= capacity))
__CPROVER_ensures(__CPROVER_return_value == xv_ctl_get_rv && xv_ctl_get_calls == __CPROVER_old(xv_ctl_get_calls) + 1)
__CPROVER_ensures(__CPROVER_return_value < 0 ==> (xv_errno > 0 && xv_errno == xv_ctl_get_errno))
__CPROVER_ensures(__CPROVER_return_value >= 0 ==> ((int)*type == xv_ctl_get_type && \
                  (xv_ctl_j < (size_t)__CPROVER_return_value ==> ((const uint8_t *)value)[xv_ctl_j] == xv_ctl_get_j)))
;

/* ------------------------------------------------------------------ process_get_attr */
#define PGA_CFM(r) ((r)->get_attr_cfm.attr)
static void process_get_attr(struct xcm_socket *socket, struct ctl_proto_get_attr_req *req, struct ctl_proto_msg *response)
__CPROVER_requires(XV_CTL_Z_LO)
__CPROVER_requires(XV_CTL_Z_HI)
__CPROVER_requires(__CPROVER_is_fresh(socket, sizeof(*socket)) && __CPROVER_is_fresh(req, sizeof(*req)) && __CPROVER_is_fresh(response, XV_CTL_SIZEOF(*response)))
__CPROVER_requires(XV_CTL_CNT_OK(xv_ctl_get_calls))
__CPROVER_assigns(xv_errno, xv_ctl_get_rv, xv_ctl_get_errno, xv_ctl_get_type, xv_ctl_get_j, xv_ctl_get_calls)
__CPROVER_assigns(response->type, response->get_attr_rej.rej_errno, PGA_CFM(response).value_type, PGA_CFM(response).value_len, \
                  __CPROVER_object_upto(PGA_CFM(response).any_value, CTL_ATTR_VALUE_MAX))
__CPROVER_ensures(xv_errno == __CPROVER_old(xv_errno) && xv_ctl_get_calls == __CPROVER_old(xv_ctl_get_calls) + 1)
/* PO[C14] process_get_attr.reply_type */
__CPROVER_ensures(response->type == ctl_proto_type_get_attr_cfm || response->type == ctl_proto_type_get_attr_rej)
/* PO[C14] process_get_attr.reply_equals_in_process */
__CPROVER_ensures(!XV_IS_TLS_KEY(req->attr_name) ==> (xv_ctl_get_rv >= 0 \
        ? (response->type == ctl_proto_type_get_attr_cfm && PGA_CFM(response).value_len == (size_t)xv_ctl_get_rv && \
           (int)PGA_CFM(response).value_type == xv_ctl_get_type && PGA_CFM(response).value_len <= CTL_ATTR_VALUE_MAX && \
           (xv_ctl_j < (size_t)xv_ctl_get_rv ==> PGA_CFM(response).any_value[xv_ctl_j] == xv_ctl_get_j)) \
        : (response->type == ctl_proto_type_get_attr_rej && response->get_attr_rej.rej_errno == xv_ctl_get_errno && xv_ctl_get_errno > 0)))
/* PO[C14] process_get_attr.tls_key_never_disclosed */
__CPROVER_ensures(XV_IS_TLS_KEY(req->attr_name) ==> (response->type == ctl_proto_type_get_attr_rej && response->get_attr_rej.rej_errno == EACCES && \
        (xv_ctl_j < CTL_ATTR_VALUE_MAX ==> PGA_CFM(response).any_value[xv_ctl_j] == 0)))
;

/* ------------------------------------------------------------------ add_attr: the xcm_attr_get_all callback
 * An attribute is REPORTABLE when the protocol can carry it: name shorter than name[64], value at most 512 bytes, and it is
 * not tls.key.  A reportable attribute is appended (exact copy) while the table has room; anything else leaves the reply
 * untouched -- in particular nothing is ever written outside the entry being filled, and nothing aborts. */
#define AA_CFM(d) ((struct ctl_proto_get_all_attr_cfm *)(d))
#define AA_ENTRY(d) (AA_CFM(d)->attrs[xv_ctl_g_len0])
#define AA_REPORTABLE(name, namelen, len) (!XV_IS_TLS_KEY(name) && (namelen) < XCM_ATTR_NAME_MAX && (len) <= CTL_ATTR_VALUE_MAX)
#define AA_ADDS(name, namelen, len) (AA_REPORTABLE(name, namelen, len) && xv_ctl_g_len0 < CTL_PROTO_MAX_ATTRS)
size_t xv_ctl_g_len0;      /* ghost constant: attrs_len on entry */
size_t xv_ctl_g_namelen;   /* ghost constant: strlen(attr_name)  */
size_t xv_ctl_g_len;       /* ghost constant: len                */
static void add_attr(const char *attr_name, enum xcm_attr_type type, void *value, size_t len, void *data)
__CPROVER_requires(XV_CTL_Z_LO)
__CPROVER_requires(XV_CTL_Z_HI)
__CPROVER_requires(__CPROVER_is_fresh(data, XV_CTL_SIZEOF(struct ctl_proto_get_all_attr_cfm)))
__CPROVER_requires(AA_CFM(data)->attrs_len <= CTL_PROTO_MAX_ATTRS && AA_CFM(data)->attrs_len == xv_ctl_g_len0)
__CPROVER_requires(xv_ctl_g_namelen < XV_CTL_NAME_OBJ && __CPROVER_is_fresh(attr_name, xv_ctl_g_namelen + 1))
__CPROVER_requires(attr_name[xv_ctl_g_namelen] == 0 && XV_NONUL96(attr_name, xv_ctl_g_namelen))
__CPROVER_requires(len <= XV_CTL_LEN_MAX && len == xv_ctl_g_len && __CPROVER_is_fresh(value, len == 0 ? 1 : len))
__CPROVER_assigns(AA_ADDS(attr_name, xv_ctl_g_namelen, len): AA_CFM(data)->attrs_len, AA_ENTRY(data).value_type, AA_ENTRY(data).value_len, \
                  __CPROVER_object_upto(AA_ENTRY(data).name, XCM_ATTR_NAME_MAX), __CPROVER_object_upto(AA_ENTRY(data).any_value, CTL_ATTR_VALUE_MAX))
/* PO[C14] add_attr.table_bound */
__CPROVER_ensures(AA_CFM(data)->attrs_len <= CTL_PROTO_MAX_ATTRS && \
                  AA_CFM(data)->attrs_len == xv_ctl_g_len0 + (AA_ADDS(attr_name, xv_ctl_g_namelen, len) ? 1 : 0))
/* PO[C14] add_attr.entry_equals_in_process */
__CPROVER_ensures(AA_ADDS(attr_name, xv_ctl_g_namelen, len) ==> (AA_ENTRY(data).value_type == type && AA_ENTRY(data).value_len == len && \
        (xv_mc < len ==> AA_ENTRY(data).any_value[xv_mc] == ((const uint8_t *)value)[xv_mc]) && \
        (xv_ctl_j <= xv_ctl_g_namelen ==> AA_ENTRY(data).name[xv_ctl_j] == attr_name[xv_ctl_j])))
;

#include "contracts/end.h"
#endif
