/* contracts/ctl.h -- libxcm/ctl/ctl.c, the per-socket control interface, server side (C14).
 * Attached by redeclaration after the real TU (and env/ctl_env.h, which holds the unit's ghost state) were included.
 *
 * Conventions: xv_ctl_j / xv_ctl_i / xv_ctl_p / xv_ctl_reg are ghost indices nobody assigns -- a clause about "the byte
 * at xv_ctl_j" is proved for every offset.  xv_ctl_g_* are ghost constants bound to entry values by a requires clause.
 */
#ifndef XV_CTL_H
#define XV_CTL_H
#include "contracts/begin.h"

/* ------------------------------------------------------------------ xcm_attr_get (libxcm/core/xcm.c), ASSUMED
 * name must be a C string terminated inside the object it points into (and shorter than XCM_ATTR_NAME_MAX);
 * at most `capacity` bytes of value are written; the ghosts record what the in-process call reported. */
int xcm_attr_get(struct xcm_socket *s, const char *name, enum xcm_attr_type *type, void *value, size_t capacity)
__CPROVER_requires(XV_CTL_Z_LO)
__CPROVER_requires(XV_CTL_Z_HI)
__CPROVER_requires(XV_CSTR64(name))
__CPROVER_requires(capacity <= 0x7fffffffUL && __CPROVER_w_ok(type, sizeof(*type)) && __CPROVER_w_ok(value, capacity))
__CPROVER_assigns(xv_errno, *type, __CPROVER_object_upto(value, capacity + (size_t)xv_ctl_z), xv_ctl_get_rv, xv_ctl_get_errno, xv_ctl_get_type, xv_ctl_get_j, xv_ctl_get_calls)
__CPROVER_ensures(__CPROVER_return_value >= -1 && (__CPROVER_return_value < 0 || (size_t)__CPROVER_return_value <= capacity))
__CPROVER_ensures(__CPROVER_return_value == xv_ctl_get_rv && xv_ctl_get_calls == __CPROVER_old(xv_ctl_get_calls) + 1)
__CPROVER_ensures(__CPROVER_return_value < 0 ==> (xv_errno > 0 && xv_errno == xv_ctl_get_errno))
__CPROVER_ensures(__CPROVER_return_value >= 0 ==> ((int)*type == xv_ctl_get_type && \
                  (xv_ctl_j < (size_t)__CPROVER_return_value ==> ((const uint8_t *)value)[xv_ctl_j] == xv_ctl_get_j)))
;

/* ------------------------------------------------------------------ process_get_attr */
#define PGA_CFM(r) ((r)->get_attr_cfm.attr)
static void process_get_attr(struct xcm_socket *socket, struct ctl_proto_get_attr_req *req, struct ctl_proto_msg *response)
__CPROVER_requires(XV_CTL_Z_LO)
__CPROVER_requires(XV_CTL_Z_HI)
__CPROVER_requires(__CPROVER_is_fresh(socket, sizeof(*socket)) && __CPROVER_is_fresh(req, sizeof(*req)) && __CPROVER_is_fresh(response, XV_CTL_SIZEOF(*response)))
__CPROVER_requires(XV_CTL_CNT_OK(xv_ctl_get_calls))
__CPROVER_assigns(xv_errno, xv_ctl_get_rv, xv_ctl_get_errno, xv_ctl_get_type, xv_ctl_get_j, xv_ctl_get_calls)
__CPROVER_assigns(response->type, response->get_attr_rej.rej_errno, PGA_CFM(response).value_type, PGA_CFM(response).value_len, \
                  __CPROVER_object_upto(PGA_CFM(response).any_value, CTL_ATTR_VALUE_MAX + (size_t)xv_ctl_z))
__CPROVER_ensures(xv_errno == __CPROVER_old(xv_errno))
__CPROVER_ensures(xv_ctl_get_calls == __CPROVER_old(xv_ctl_get_calls) || xv_ctl_get_calls == __CPROVER_old(xv_ctl_get_calls) + 1)
/* PO[C14] process_get_attr.reply_type */
__CPROVER_ensures(response->type == ctl_proto_type_get_attr_cfm || response->type == ctl_proto_type_get_attr_rej)
/* PO[C14] process_get_attr.reply_equals_in_process */
__CPROVER_ensures((XV_CSTR64(req->attr_name) && !XV_IS_TLS_KEY(req->attr_name)) ==> (xv_ctl_get_calls == __CPROVER_old(xv_ctl_get_calls) + 1 && (xv_ctl_get_rv >= 0 \
        ? (response->type == ctl_proto_type_get_attr_cfm && PGA_CFM(response).value_len == (size_t)xv_ctl_get_rv && \
           (int)PGA_CFM(response).value_type == xv_ctl_get_type && PGA_CFM(response).value_len <= CTL_ATTR_VALUE_MAX && \
           (xv_ctl_j < (size_t)xv_ctl_get_rv ==> PGA_CFM(response).any_value[xv_ctl_j] == xv_ctl_get_j)) \
        : (response->type == ctl_proto_type_get_attr_rej && response->get_attr_rej.rej_errno == xv_ctl_get_errno && xv_ctl_get_errno > 0))))
/* PO[C14] process_get_attr.tls_key_never_disclosed */
__CPROVER_ensures(XV_IS_TLS_KEY(req->attr_name) ==> (response->type == ctl_proto_type_get_attr_rej && response->get_attr_rej.rej_errno == EACCES && \
        (xv_ctl_j < CTL_ATTR_VALUE_MAX ==> PGA_CFM(response).any_value[xv_ctl_j] == 0)))
/* a name without terminator inside attr_name[64] is never handed to the attribute code: the query is rejected */
/* PO[C14] process_get_attr.unterminated_name_rejected */
__CPROVER_ensures(!XV_CSTR64(req->attr_name) ==> (response->type == ctl_proto_type_get_attr_rej && response->get_attr_rej.rej_errno > 0 && \
        xv_ctl_get_calls == __CPROVER_old(xv_ctl_get_calls)))
;

/* ------------------------------------------------------------------ add_attr: the xcm_attr_get_all callback
 * An attribute is REPORTABLE when the protocol can carry it: name shorter than name[64], value at most 512 bytes, and it is
 * not tls.key.  A reportable attribute is appended (exact copy) while the table has room; anything else leaves the reply
 * untouched -- in particular nothing is ever written outside the entry being filled, and nothing aborts. */
static void add_attr(const char *attr_name, enum xcm_attr_type type, void *value, size_t len, void *data)
__CPROVER_requires(XV_CTL_Z_LO)
__CPROVER_requires(XV_CTL_Z_HI)
__CPROVER_requires(__CPROVER_is_fresh(data, XV_CTL_SIZEOF(struct ctl_proto_get_all_attr_cfm)))
__CPROVER_requires(AA_CFM(data)->attrs_len <= CTL_PROTO_MAX_ATTRS && AA_CFM(data)->attrs_len == xv_ctl_g_len0)
__CPROVER_requires(xv_ctl_g_namelen < XV_CTL_NAME_OBJ && __CPROVER_is_fresh(attr_name, xv_ctl_g_namelen + 1))
__CPROVER_requires(attr_name[xv_ctl_g_namelen] == 0 && XV_NONUL96(attr_name, xv_ctl_g_namelen))
__CPROVER_requires(len <= XV_CTL_LEN_MAX && len == xv_ctl_g_len && __CPROVER_is_fresh(value, len == 0 ? 1 : len))
__CPROVER_assigns(AA_ADDS(attr_name, xv_ctl_g_namelen, len): AA_CFM(data)->attrs_len, __CPROVER_object_upto(&AA_ENTRY(data), XV_CTL_SIZEOF(AA_ENTRY(data))))
/* PO[C14] add_attr.table_bound */
__CPROVER_ensures(AA_CFM(data)->attrs_len <= CTL_PROTO_MAX_ATTRS && \
                  AA_CFM(data)->attrs_len == xv_ctl_g_len0 + (AA_ADDS(attr_name, xv_ctl_g_namelen, len) ? 1 : 0))
/* PO[C14] add_attr.entry_equals_in_process */
__CPROVER_ensures(AA_ADDS(attr_name, xv_ctl_g_namelen, len) ==> (AA_ENTRY(data).value_type == type && AA_ENTRY(data).value_len == len && \
        (xv_mc < len ==> AA_ENTRY(data).any_value[xv_mc] == ((const uint8_t *)value)[xv_mc]) && \
        (xv_ctl_j <= xv_ctl_g_namelen ==> AA_ENTRY(data).name[xv_ctl_j] == attr_name[xv_ctl_j]) && AA_ENTRY(data).name[xv_ctl_g_namelen] == 0))
;

/* ------------------------------------------------------------------ process_get_all_attr
 * xcm_attr_get_all is the stub of env/ctl_env.h: ANY number of callbacks with ANY name/type/value; it counts the reportable
 * ones (xv_ctl_all_n) and records the xv_ctl_i-th of them.  The reply must be typed, list min(n, 64) attributes, and
 * its xv_ctl_i-th entry must be the xv_ctl_i-th reportable attribute -- whatever pending_response held before. */
#define PGAA_CFM(r) ((r)->get_all_attr_cfm)
static void process_get_all_attr(struct xcm_socket *socket, struct ctl_proto_msg *response)
__CPROVER_requires(XV_CTL_Z_LO)
__CPROVER_requires(XV_CTL_Z_HI)
__CPROVER_requires(__CPROVER_is_fresh(socket, sizeof(*socket)) && __CPROVER_is_fresh(response, XV_CTL_SIZEOF(*response)))
__CPROVER_requires(XV_CTL_CNT_OK(xv_ctl_all_calls))
__CPROVER_assigns(XV_CTL_ALL_GHOSTS, response->type, __CPROVER_object_upto(&PGAA_CFM(response), XV_CTL_SIZEOF(PGAA_CFM(response))))
__CPROVER_ensures(xv_ctl_all_calls == __CPROVER_old(xv_ctl_all_calls) + 1)
/* PO[C14] process_get_all_attr.reply_type */
__CPROVER_ensures(response->type == ctl_proto_type_get_all_attr_cfm)
/* PO[C14] process_get_all_attr.table_bound */
__CPROVER_ensures(PGAA_CFM(response).attrs_len <= CTL_PROTO_MAX_ATTRS && \
                  PGAA_CFM(response).attrs_len == (xv_ctl_all_n < CTL_PROTO_MAX_ATTRS ? xv_ctl_all_n : CTL_PROTO_MAX_ATTRS))
/* PO[C14] process_get_all_attr.reply_equals_in_process */
__CPROVER_ensures(XV_CTL_ALL_ENTRY_I(&PGAA_CFM(response)))
;

#include "contracts/end.h"
#endif
